(* C12 — IntPool: a slice handed out by Get is never written by later Gets or by writes through
   later slices, for any number of operations (fresh block on refill, carve-only otherwise). *)
From Coq Require Import List ZArith Bool Arith Lia.
From RareV Require Import Base.Res Model.IntPool.
Import ListNotations.

(* ---------- lists ---------- *)

Lemma upd_length {A} (l : list A) : forall i v, length (upd l i v) = length l.
Proof. induction l as [|x l IH]; intros [|i] v; cbn; auto. Qed.

Lemma nth_upd_same {A} (l : list A) : forall i v d, i < length l -> nth i (upd l i v) d = v.
Proof. induction l as [|x l IH]; intros [|i] v d H; cbn in *; try lia; auto. apply IH; lia. Qed.

Lemma nth_upd_other {A} (l : list A) : forall i j v d, i <> j -> nth j (upd l i v) d = nth j l d.
Proof.
  induction l as [|x l IH]; intros [|i] [|j] v d H; cbn; auto; try congruence.
Qed.

Lemma skipn_upd_lt {A} (l : list A) : forall i lo v, i < lo -> skipn lo (upd l i v) = skipn lo l.
Proof.
  induction l as [|x l IH]; intros [|i] [|lo] v H; cbn; auto; try lia. apply IH; lia.
Qed.

Lemma skipn_upd_ge {A} (l : list A) : forall i lo v, lo <= i -> skipn lo (upd l i v) = upd (skipn lo l) (i - lo) v.
Proof.
  induction l as [|x l IH]; intros i lo v H.
  - destruct lo, i; cbn; auto.
  - destruct lo as [|lo]; [rewrite Nat.sub_0_r; reflexivity|].
    destruct i as [|i]; [lia|]. cbn. apply IH; lia.
Qed.

Lemma firstn_upd_ge {A} (l : list A) : forall i k v, k <= i -> firstn k (upd l i v) = firstn k l.
Proof.
  induction l as [|x l IH]; intros [|i] [|k] v H; cbn; auto; try lia. f_equal. apply IH; lia.
Qed.

Lemma firstn_upd_lt {A} (l : list A) : forall i k v, i < k -> firstn k (upd l i v) = upd (firstn k l) i v.
Proof.
  induction l as [|x l IH]; intros [|i] [|k] v H; cbn; auto; try lia. f_equal. apply IH; lia.
Qed.

Lemma skipn_add {A} : forall a n (l : list A), skipn (a + n) l = skipn n (skipn a l).
Proof. induction a as [|a IH]; intros n [|x l]; cbn; auto. destruct n; auto. Qed.

Lemma skipn_repeat {A} (x : A) : forall n k, skipn n (repeat x k) = repeat x (k - n).
Proof. induction n as [|n IH]; intros [|k]; cbn; auto. Qed.

Lemma firstn_repeat {A} (x : A) : forall n k, n <= k -> firstn n (repeat x k) = repeat x n.
Proof. induction n as [|n IH]; intros [|k] H; cbn; auto; try lia. f_equal. apply IH; lia. Qed.

(* the part of a block below [lo] determines every slice that ends at or before [lo] *)
Lemma window_firstn {A} (a b : list A) lo lo0 hi0 :
  firstn lo a = firstn lo b -> hi0 <= lo ->
  firstn (hi0 - lo0) (skipn lo0 a) = firstn (hi0 - lo0) (skipn lo0 b).
Proof.
  intros H Hh. destruct (le_lt_dec lo0 hi0) as [L|L].
  - rewrite !firstn_skipn_comm. replace (lo0 + (hi0 - lo0)) with hi0 by lia.
    assert (E2 : forall l : list A, firstn hi0 l = firstn hi0 (firstn lo l)).
    { intros l. rewrite firstn_firstn. f_equal. lia. }
    rewrite (E2 a), (E2 b), H. reflexivity.
  - replace (hi0 - lo0) with 0 by lia. reflexivity.
Qed.

(* ---------- invariant ---------- *)

Record wf (p : pool) : Prop := {
  wf_cur : S (p_blk p) = length (p_heap p);                 (* s.pool lives in the newest block *)
  wf_len : forall b, b < length (p_heap p) -> length (nth b (p_heap p) []) = p_size p;
  wf_off : p_off p <= p_size p;
  wf_zero : skipn (p_off p) (nth (p_blk p) (p_heap p) []) = repeat 0%Z (p_size p - p_off p)
}.

(* a slice handed out earlier: in an older block, or in the current block below s.pool *)
Definition retired (p : pool) (sl : slice) : Prop :=
  let '(b, _, hi) := sl in b < p_blk p \/ (b = p_blk p /\ hi <= p_off p).

Definition before (sl0 sl : slice) : Prop :=
  let '(b0, _, hi0) := sl0 in let '(b, lo, _) := sl in b0 < b \/ (b0 = b /\ hi0 <= lo).

Lemma wf_new size : wf (new_pool size).
Proof.
  constructor; cbn; auto.
  - intros [|b] H; [apply repeat_length|lia].
  - lia.
  - f_equal; lia.
Qed.

(* ---------- Get ---------- *)

Lemma get_spec n p sl p1 :
  wf p -> get n p = Ok (sl, p1) ->
  wf p1 /\ p_size p1 = p_size p /\
  (let '(b, lo, hi) := sl in
     b = p_blk p1 /\ hi = p_off p1 /\ hi = lo + n /\ b < length (p_heap p1)) /\
  read (p_heap p1) sl = repeat 0%Z n /\
  (forall sl0, retired p sl0 -> before sl0 sl /\ read (p_heap p1) sl0 = read (p_heap p) sl0).
Proof.
  intros [Hc Hl Ho Hz] H. unfold get in H.
  destruct (p_size p - p_off p <? n) eqn:E1.
  - destruct (p_size p <? n) eqn:E2; [discriminate|]. apply Nat.ltb_ge in E2.
    inversion H; subst; clear H. cbn [p_heap p_size p_blk p_off].
    assert (Hn : nth (length (p_heap p)) (p_heap p ++ [repeat 0%Z (p_size p)]) [] = repeat 0%Z (p_size p)).
    { rewrite app_nth2, Nat.sub_diag; auto. }
    split; [|split; [reflexivity|split; [|split]]].
    + constructor; cbn [p_heap p_size p_blk p_off]; auto.
      * rewrite app_length. cbn. lia.
      * intros b Hb. rewrite app_length in Hb. cbn in Hb.
        destruct (Nat.eq_dec b (length (p_heap p))) as [->|Hne].
        -- rewrite Hn. apply repeat_length.
        -- rewrite app_nth1 by lia. apply Hl. lia.
      * rewrite Hn. apply skipn_repeat.
    + rewrite app_length. cbn. repeat split; lia.
    + unfold read. rewrite Hn. cbn [skipn]. rewrite Nat.sub_0_r. apply firstn_repeat; auto.
    + intros [[b0 lo0] hi0] Hr. cbn in Hr. split.
      * cbn. left. lia.
      * unfold read. rewrite app_nth1 by lia. reflexivity.
  - apply Nat.ltb_ge in E1. inversion H; subst; clear H. cbn [p_heap p_size p_blk p_off].
    split; [|split; [reflexivity|split; [|split]]].
    + constructor; cbn [p_heap p_size p_blk p_off]; auto; try lia.
      rewrite skipn_add, Hz, skipn_repeat. f_equal. lia.
    + repeat split; lia.
    + unfold read. replace (p_off p + n - p_off p) with n by lia.
      rewrite Hz. apply firstn_repeat. lia.
    + intros [[b0 lo0] hi0] Hr. cbn in Hr. split; [cbn; lia|reflexivity].
Qed.

Lemma get_no_panic n p : n <= p_size p -> get n p <> Panic.
Proof.
  intros H. unfold get. destruct (p_size p - p_off p <? n); [|discriminate].
  destruct (p_size p <? n) eqn:E; [|discriminate]. apply Nat.ltb_lt in E. lia.
Qed.

(* ---------- writes through a slice stay inside it ---------- *)

(* h' differs from h only inside block b, offsets [lo, hi) *)
Record inside (h h' : list (list Z)) (b lo hi : nat) : Prop := {
  in_len : length h' = length h;
  in_other : forall b0, b0 <> b -> nth b0 h' [] = nth b0 h [];
  in_blen : length (nth b h' []) = length (nth b h []);
  in_low : firstn lo (nth b h' []) = firstn lo (nth b h []);
  in_high : skipn hi (nth b h' []) = skipn hi (nth b h [])
}.

Lemma inside_refl h b lo hi : inside h h b lo hi.
Proof. constructor; auto. Qed.

Lemma inside_trans h1 h2 h3 b lo hi : inside h1 h2 b lo hi -> inside h2 h3 b lo hi -> inside h1 h3 b lo hi.
Proof.
  intros [A1 A2 A3 A4 A5] [B1 B2 B3 B4 B5]. constructor; try congruence.
  intros b0 Hb. rewrite B2, A2; auto.
Qed.

Lemma store_spec h b lo hi i v h' :
  store h (b, lo, hi) i v = Ok h' ->
  lo + i < hi /\ b < length h /\
  inside h h' b lo hi /\
  (hi <= length (nth b h []) -> read h' (b, lo, hi) = upd (read h (b, lo, hi)) i v).
Proof.
  unfold store. destruct (lo + i <? hi) eqn:E; [|discriminate]. apply Nat.ltb_lt in E.
  destruct (nth_error h b) as [blk|] eqn:Eb; [|discriminate].
  assert (Hb : b < length h) by (apply nth_error_Some; congruence).
  assert (Hn : nth b h [] = blk) by (apply nth_error_nth; auto).
  intros [= <-]. split; auto. split; auto.
  assert (Hnew : nth b (upd h b (upd blk (lo + i) v)) [] = upd blk (lo + i) v) by (apply nth_upd_same; auto).
  split.
  - constructor.
    + apply upd_length.
    + intros b0 Hne. apply nth_upd_other. auto.
    + rewrite Hnew, Hn. apply upd_length.
    + rewrite Hnew, Hn. apply firstn_upd_ge. lia.
    + rewrite Hnew, Hn. apply skipn_upd_lt. lia.
  - intros Hh. unfold read. rewrite Hnew, Hn.
    rewrite skipn_upd_ge by lia. rewrite firstn_upd_lt by lia. f_equal. lia.
Qed.

Lemma stores_spec b lo hi : forall ws h h',
  stores h (b, lo, hi) ws = Ok h' -> hi <= length (nth b h []) ->
  inside h h' b lo hi /\ read h' (b, lo, hi) = apply_writes (read h (b, lo, hi)) ws.
Proof.
  induction ws as [|[i v] ws IH]; intros h h' H Hh.
  - cbn in H. inversion H; subst. split; [apply inside_refl|reflexivity].
  - cbn [stores] in H. destruct (store h (b, lo, hi) i v) as [h1|] eqn:Es; [|discriminate].
    apply store_spec in Es as (_ & _ & Hin & Hr).
    apply IH in H as [Hin2 Hr2].
    + split; [eapply inside_trans; eauto|]. rewrite Hr2, Hr; auto.
    + rewrite (in_blen _ _ _ _ _ Hin). auto.
Qed.

Lemma inside_read h h' b lo hi sl0 : inside h h' b lo hi -> before sl0 (b, lo, hi) -> read h' sl0 = read h sl0.
Proof.
  intros Hin. destruct sl0 as [[b0 lo0] hi0]. cbn. intros [Hb|[-> Hh]].
  - rewrite (in_other _ _ _ _ _ Hin); auto. lia.
  - eapply window_firstn; eauto. apply (in_low _ _ _ _ _ Hin).
Qed.

(* ---------- one client operation ---------- *)

Lemma step_spec p o sl p' :
  wf p -> step p o = Ok (sl, p') ->
  wf p' /\ p_size p' = p_size p /\ retired p' sl /\
  read (p_heap p') sl = expected o /\
  (forall sl0, retired p sl0 -> retired p' sl0 /\ read (p_heap p') sl0 = read (p_heap p) sl0).
Proof.
  intros Hwf H. unfold step in H. destruct o as [n ws]. cbn [fst snd] in H.
  destruct (get n p) as [[sl1 p1]|] eqn:Eg; [|discriminate].
  destruct (stores (p_heap p1) sl1 ws) as [h|] eqn:Es; [|discriminate].
  inversion H; subst; clear H.
  destruct (get_spec _ _ _ _ Hwf Eg) as (Hwf1 & Hsz & Hsl & Hrd & Hold).
  destruct sl as [[b lo] hi]. destruct Hsl as (Hb & Hhi & Hn & Hbl).
  destruct Hwf1 as [Hc Hl Ho Hz].
  assert (Hlen : hi <= length (nth b (p_heap p1) [])) by (rewrite Hl by auto; lia).
  destruct (stores_spec _ _ _ _ _ _ Es Hlen) as [Hin Hr].
  cbn [p_heap p_size p_blk p_off]. split; [|split; [auto|split; [|split]]].
  - constructor; cbn [p_heap p_size p_blk p_off].
    + rewrite (in_len _ _ _ _ _ Hin). auto.
    + intros b0 Hb0. rewrite (in_len _ _ _ _ _ Hin) in Hb0.
      destruct (Nat.eq_dec b0 b) as [->|Hne].
      * rewrite (in_blen _ _ _ _ _ Hin). auto.
      * rewrite (in_other _ _ _ _ _ Hin); auto.
    + auto.
    + rewrite <- Hb, <- Hhi. rewrite (in_high _ _ _ _ _ Hin). rewrite Hhi, Hb. exact Hz.
  - cbn. right. split; auto. lia.
  - rewrite Hr, Hrd. reflexivity.
  - intros sl0 Hr0. destruct (Hold _ Hr0) as [Hbef Hsame]. split.
    + destruct sl0 as [[b0 lo0] hi0]. cbn in Hbef |- *. lia.
    + rewrite <- Hsame. eapply inside_read; eauto.
Qed.

(* ---------- any number of operations ---------- *)

Lemma run_ops_spec : forall ops p sls p',
  wf p -> run_ops p ops = Ok (sls, p') ->
  wf p' /\ p_size p' = p_size p /\
  Forall2 (fun sl o => retired p' sl /\ read (p_heap p') sl = expected o) sls ops /\
  (forall sl0, retired p sl0 -> retired p' sl0 /\ read (p_heap p') sl0 = read (p_heap p) sl0).
Proof.
  induction ops as [|o ops IH]; intros p sls p' Hwf H.
  - cbn in H. inversion H; subst. split; auto.
  - cbn [run_ops] in H. destruct (step p o) as [[sl p1]|] eqn:Es; [|discriminate].
    destruct (run_ops p1 ops) as [[sls1 p2]|] eqn:Er; [|discriminate].
    inversion H; subst; clear H.
    destruct (step_spec _ _ _ _ Hwf Es) as (Hwf1 & Hsz1 & Hret & Hrd & Hold).
    destruct (IH _ _ _ Hwf1 Er) as (Hwf2 & Hsz2 & Hall & Hold2).
    split; auto. split; [congruence|]. split.
    + constructor; auto. destruct (Hold2 _ Hret) as [Hr2 Hs2]. split; auto. congruence.
    + intros sl0 Hr0. destruct (Hold _ Hr0) as [Hr1 Hs1]. destruct (Hold2 _ Hr1) as [Hr2 Hs2].
      split; auto. congruence.
Qed.

(* C12_pool_stable: after any sequence of Get+writes, every slice handed out reads exactly what its
   own writes put there (on zeroed memory): no later Get or write touched it *)
Theorem pool_stable_proof size ops sls p' :
  run_ops (new_pool size) ops = Ok (sls, p') ->
  Forall2 (fun sl o => read (p_heap p') sl = expected o) sls ops.
Proof.
  intros H. destruct (run_ops_spec _ _ _ _ (wf_new size) H) as (_ & _ & Hall & _).
  clear H. induction Hall as [|sl o sls ops [_ Hx] _ IH]; constructor; auto.
Qed.

(* the same, split at any point: what a slice read when it was returned is what it reads at the end *)
Theorem pool_stable_split_proof size ops1 ops2 sls1 p1 sls2 p2 :
  run_ops (new_pool size) ops1 = Ok (sls1, p1) -> run_ops p1 ops2 = Ok (sls2, p2) ->
  Forall (fun sl => read (p_heap p2) sl = read (p_heap p1) sl) sls1.
Proof.
  intros H1 H2. destruct (run_ops_spec _ _ _ _ (wf_new size) H1) as (Hwf1 & _ & Hall & _).
  destruct (run_ops_spec _ _ _ _ Hwf1 H2) as (_ & _ & _ & Hold).
  clear H1. induction Hall as [|sl o sls ops [Hx _] _ IH]; constructor; auto. apply Hold; auto.
Qed.

(* no panic: operations that ask for at most [size] ints and write inside their slice *)
Lemma stores_no_panic b lo hi : forall ws h,
  b < length h -> Forall (fun w => lo + fst w < hi) ws -> stores h (b, lo, hi) ws <> Panic.
Proof.
  induction ws as [|[i v] ws IH]; intros h Hb Hws; [discriminate|].
  inversion Hws; subst. cbn [stores]. cbn [fst] in *.
  destruct (store h (b, lo, hi) i v) as [h1|] eqn:Es.
  - apply IH; auto. apply store_spec in Es as (_ & _ & Hin & _). rewrite (in_len _ _ _ _ _ Hin). auto.
  - exfalso. unfold store in Es. apply Nat.ltb_lt in H1. rewrite H1 in Es.
    destruct (nth_error h b) eqn:En; [discriminate|]. apply nth_error_None in En. lia.
Qed.

Lemma step_no_panic p n ws :
  wf p -> n <= p_size p -> Forall (fun w => fst w < n) ws -> step p (n, ws) <> Panic.
Proof.
  intros Hwf Hn Hws. unfold step. cbn [fst snd].
  destruct (get n p) as [[sl p1]|] eqn:Eg; [|exfalso; eapply get_no_panic; eauto].
  destruct (get_spec _ _ _ _ Hwf Eg) as (_ & _ & Hsl & _).
  destruct sl as [[b lo] hi]. destruct Hsl as (_ & _ & Hhi & Hb).
  destruct (stores (p_heap p1) (b, lo, hi) ws) eqn:Es; [discriminate|].
  exfalso. apply (stores_no_panic b lo hi ws (p_heap p1)); auto.
  eapply Forall_impl; [|exact Hws]. cbn. intros; lia.
Qed.
