(* C20 — the writer's bookkeeping against the reference terminal: invariant of WriteForLine,
   Close, and the screen / cursor theorems.  Part 2 (uses Proofs/TermEmu.v, Proofs/TrimProof.v). *)
From Coq Require Import List NArith ZArith Bool Arith Lia.
From RareV Require Import Base.Hex Base.Res Gen.GenTerm Model.Trim Model.Term Proofs.TrimProof Proofs.TermEmu.
Import ListNotations.

Lemma render_app a b : render (a ++ b) = render a ++ render b.
Proof. unfold render. apply flat_map_app. Qed.

Section Main.
Variable tc : tcfg.
Variable c : cfg.

Definition wl (t : text) : text := write_line_no_wrap (autotrim c) (cols c) t.

(* the hypothesis "texts fit": well-formed, and not wider than the terminal after the trim *)
Definition text_ok (t : text) : Prop := wf_text t = true /\ length (visible (wl t)) <= width tc.
Definition ups_ok (ups : list (nat * text)) : Prop := forall u, In u ups -> text_ok (snd u).

(* what each line shows after the updates ups, starting from d *)
Definition shown (l : nat) (ups : list (nat * text)) (d : text) : text :=
  fold_left (fun acc u => if Nat.eqb (fst u) l then visible (wl (snd u)) else acc) ups d.

Record Inv (s : tw) (sc : scr) (F : nat -> text) : Prop := mkInv {
  inv_row : crow sc = tw_cursor s;                       (* the writer's belief is right *)
  inv_vis : cvis sc = negb (tw_hidden s);
  inv_hides : hides sc = if tw_hidden s then 1 else 0;
  inv_rows : forall l, nth l (rows sc) [] = F l;
  inv_clear : tw_clear s = true;
  inv_hide : tw_hide s = true;
  inv_max : tw_cursor s <= tw_max s;
  inv_len : length (rows sc) <= S (tw_max s) }.     (* nothing below the lowest line is touched *)

Lemma wl_nil : wl [] = [].
Proof. unfold wl, write_line_no_wrap. destruct (autotrim c); reflexivity. Qed.

Lemma goto_split : forall a b s,
  fold_left (interp tc) [CR]
    (fold_left (interp tc) (repeat (Up 1%N) b) (fold_left (interp tc) (repeat LF a) s))
  = mkscr (rows s) (crow s + a - b) 0 (cvis s) (hides s).
Proof.
  intros a b s. rewrite <- (goto_effect tc a b s). rewrite !fold_left_app. reflexivity.
Qed.

(* ---------------------------------------------------------------- one WriteForLine *)
Lemma write_step : forall s sc F line t s' seg,
  Inv s sc F -> text_ok t -> tw_write c s line t = (s', seg) ->
  exists sc', run tc (sc, Ground) (render seg) = (sc', Ground) /\
    Inv s' sc' (fun l => if Nat.eqb line l then visible (wl t) else F l) /\
    tw_cursor s' = line /\ tw_max s' = Nat.max (tw_max s) line /\
    ccol sc' = length (visible (wl t)).
Proof.
  intros s sc F line t s' seg I [Hwf Hfit] W.
  destruct I as [Ir Iv Ih Irows Ic Ihd Im Il].
  unfold tw_write, go_to in W. cbn [tw_cursor tw_hidden tw_max tw_clear tw_hide] in W.
  rewrite Ic, Ihd in W. cbn [andb orb] in W. inversion W; subst s' seg; clear W.
  set (a := line - tw_cursor s). set (b := tw_cursor s - line).
  set (v := visible (wl t)) in *.
  set (pre := if negb (tw_hidden s) then [HideCur] else []).
  set (mv := repeat LF a ++ repeat (Up 1%N) b ++ [CR]).
  assert (Hok : Forall cmd_ok (pre ++ mv)).
  { apply Forall_app. split; [subst pre; destruct (negb (tw_hidden s)); repeat constructor|].
    apply goto_cmd_ok. }
  set (sc1 := fold_left (interp tc) pre sc).
  assert (H1 : rows sc1 = rows sc /\ crow sc1 = crow sc /\ cvis sc1 = false /\ hides sc1 = 1).
  { subst sc1 pre. destruct (tw_hidden s); cbn in *; auto. }
  destruct H1 as (R1 & C1 & V1 & Hd1).
  set (sc2 := mkscr (rows sc1) (crow sc1 + a - b) 0 (cvis sc1) (hides sc1)).
  assert (Hrow2 : crow sc2 = line) by (subst sc2 a b; cbn; lia).
  assert (E12 : run tc (sc, Ground) (render (pre ++ mv)) = (sc2, Ground)).
  { rewrite (run_render tc _ sc Hok), fold_left_app. fold sc1. subst mv. rewrite goto_effect. reflexivity. }
  assert (Erun : run tc (sc, Ground) (render ((pre ++ mv) ++ [EraseEOL] ++ [Text (wl t)]))
                 = (fold_left (print tc) v (erase_line tc 0 sc2), Ground)).
  { rewrite render_app, run_app, E12. unfold render. cbn [flat_map app]. rewrite app_nil_r, run_app.
    rewrite (run_erase_at0 tc sc2 eq_refl). apply run_text. apply wlnw_wf. exact Hwf. }
  exists (fold_left (print tc) v (erase_line tc 0 sc2)).
  split; [rewrite <- Erun; rewrite <- app_assoc; reflexivity|].
  set (E := erase_line tc 0 sc2).
  assert (He0 : ecol tc sc2 = 0) by (apply ecol_0; reflexivity).
  assert (ER : forall l, nth l (rows E) [] = if Nat.eqb l line then [] else nth l (rows sc) []).
  { intros l. subst E. rewrite erase0_ext, He0, Hrow2. subst sc2. cbn [rows]. rewrite R1.
    destruct (Nat.eqb l line); reflexivity. }
  assert (EL : length (rows E) = Nat.max (length (rows sc)) (S line)).
  { subst E. cbn [erase_line rows]. rewrite length_upd, Hrow2. subst sc2. cbn [rows]. rewrite R1. reflexivity. }
  assert (EC : crow E = line /\ ccol E = 0 /\ cvis E = false /\ hides E = 1).
  { subst E sc2. cbn. repeat split; auto. }
  destruct EC as (EC1 & EC2 & EC3 & EC4).
  destruct (prints_ext tc v E) as (P1 & P2 & P3 & P4 & P5); [rewrite EC2; cbn; exact Hfit|].
  cbn zeta in P1, P2, P3, P4, P5.
  pose proof (prints_len tc v E) as PL. rewrite EC2, EC1, EL in PL. specialize (PL Hfit).
  set (X := fold_left (print tc) v E) in *.
  split; [|split; [reflexivity|split; [reflexivity|]]].
  - constructor; cbn [tw_cursor tw_hidden tw_max tw_clear tw_hide].
    + rewrite P1. exact EC1.
    + rewrite P3, EC3. rewrite orb_true_r. reflexivity.
    + rewrite P4, EC4. rewrite orb_true_r. reflexivity.
    + intros l. rewrite P5, EC1, EC2, !ER, Nat.eqb_refl.
      rewrite (Nat.eqb_sym line l). destruct (Nat.eqb l line) eqn:Eq.
      * apply overwrite_nil.
      * apply Irows.
    + reflexivity.
    + reflexivity.
    + lia.
    + lia.
  - rewrite P2, EC2. reflexivity.
Qed.

(* ---------------------------------------------------------------- a history of updates *)
Lemma Inv_ext s sc F G : (forall l, F l = G l) -> Inv s sc F -> Inv s sc G.
Proof. intros E [? ? ? R ? ? ? ?]. constructor; auto. intros l. rewrite <- E. apply R. Qed.

Definition last_line (ups : list (nat * text)) (d : nat) : nat := fold_left (fun _ u => fst u) ups d.

Lemma run_ups : forall ups s sc F s' segs,
  Inv s sc F -> ups_ok ups -> tw_run c s ups = (s', segs) ->
  exists sc', run tc (sc, Ground) (render (concat segs)) = (sc', Ground) /\
    Inv s' sc' (fun l => shown l ups (F l)) /\
    tw_cursor s' = last_line ups (tw_cursor s) /\
    tw_max s' = fold_left (fun m u => Nat.max m (fst u)) ups (tw_max s) /\
    length segs = length ups.
Proof.
  induction ups as [|[line t] r IH]; intros s sc F s' segs I Hok R.
  - cbn in R. inversion R; subst. exists sc.
    split; [reflexivity|]. split; [exact I|]. split; [reflexivity|]. split; reflexivity.
  - cbn [tw_run] in R.
    destruct (tw_write c s line t) as [s1 seg] eqn:W.
    destruct (tw_run c s1 r) as [s2 segs'] eqn:R'.
    inversion R; subst s' segs; clear R.
    destruct (write_step s sc F line t s1 seg I) as (sc1 & E1 & I1 & Cu1 & M1 & _);
      [apply (Hok (line, t)); left; reflexivity | exact W |].
    destruct (IH s1 sc1 _ s2 segs' I1) as (sc2 & E2 & I2 & Cu2 & M2 & L2);
      [intros u Hu; apply Hok; right; exact Hu | exact R' |].
    exists sc2. cbn [concat]. rewrite render_app, run_app, E1, E2.
    split; [reflexivity|]. split; [|split; [|split]].
    + eapply Inv_ext; [|exact I2]. intros l. reflexivity.
    + rewrite Cu2, Cu1. reflexivity.
    + rewrite M2, M1. reflexivity.
    + cbn. rewrite L2. reflexivity.
Qed.

(* ---------------------------------------------------------------- Close *)
Lemma close_step : forall s sc F s' seg,
  Inv s sc F -> tw_close s = (s', seg) ->
  exists sc', run tc (sc, Ground) (render seg) = (sc', Ground) /\
    rows sc' = rows sc /\ crow sc' = S (tw_max s) /\ ccol sc' = 0 /\ cvis sc' = true /\
    hides sc' = hides sc.
Proof.
  intros s sc F s' seg [Ir Iv Ih Irows Ic Ihd Im Il] W.
  unfold tw_close, go_to in W. inversion W; subst s' seg; clear W.
  set (a := tw_max s - tw_cursor s). set (b := tw_cursor s - tw_max s).
  assert (Hok : Forall cmd_ok ((repeat LF a ++ repeat (Up 1%N) b ++ [CR]) ++ [LF]
                               ++ (if tw_hidden s then [ShowCur] else []))).
  { apply Forall_app. split; [apply goto_cmd_ok|]. constructor; [exact I|].
    destruct (tw_hidden s); repeat constructor. }
  eexists. split; [exact (run_render tc _ sc Hok)|].
  rewrite !fold_left_app, goto_split. cbn [fold_left interp].
  destruct (tw_hidden s) eqn:Hh; cbn [fold_left interp]; cbn.
  - repeat split; try reflexivity. subst a b. lia. destruct (onlcr tc); [reflexivity | apply ecol_0; reflexivity].
  - repeat split; try reflexivity. subst a b. lia. destruct (onlcr tc); [reflexivity | apply ecol_0; reflexivity]. exact Iv.
Qed.

(* ---------------------------------------------------------------- spec-side bookkeeping *)
Lemma shown_last : forall l ups d,
  shown l ups (visible (wl d)) =
  visible (wl (fold_left (fun acc u => if Nat.eqb (fst u) l then snd u else acc) ups d)).
Proof.
  intros l. induction ups as [|u r IH]; intros d; cbn [shown fold_left].
  - reflexivity.
  - destruct (Nat.eqb (fst u) l); apply IH.
Qed.

Lemma shown_last_write : forall l ups, shown l ups [] = visible (wl (last_write l ups)).
Proof.
  intros l ups. unfold last_write. rewrite <- shown_last. rewrite wl_nil. reflexivity.
Qed.

Lemma Inv0 : Inv tw_new scr0 (fun _ => []).
Proof. constructor; cbn; try reflexivity; try lia. intros l. apply nth_nil. Qed.

(* ---------------------------------------------------------------- the theorems *)

(* after any history of calls (no Close yet): the terminal is in its ground state, its cursor row
   is the writer's cursor field (= the line of the last call), the cursor is hidden exactly when
   the writer believes so, and every line shows the latest text *)
Lemma C20_cursor_belief_proof : forall ups s segs,
  ups_ok ups -> tw_run c tw_new ups = (s, segs) ->
  exists sc, run tc (scr0, Ground) (render (concat segs)) = (sc, Ground) /\
    crow sc = tw_cursor s /\ tw_cursor s = last_line ups 0 /\
    cvis sc = negb (tw_hidden s) /\
    tw_max s = max_line ups /\
    forall l, nth l (rows sc) [] = visible (wl (last_write l ups)).
Proof.
  intros ups s segs Hok R.
  destruct (run_ups ups tw_new scr0 _ s segs Inv0 Hok R) as (sc & E & I & Cu & M & _).
  exists sc. split; [exact E|]. destruct I as [Ir Iv Ih Irows _ _ _ _].
  repeat split; auto.
  intros l. rewrite Irows. apply shown_last_write.
Qed.

Lemma C20_screen_latest_proof : forall ups,
  ups_ok ups ->
  exists sc, run tc (scr0, Ground) (tw_output c ups) = (sc, Ground) /\
    (forall l, nth l (rows sc) [] = visible (wl (last_write l ups))) /\
    crow sc = S (max_line ups) /\ ccol sc = 0 /\ cvis sc = true /\ hides sc <= 1.
Proof.
  intros ups Hok. unfold tw_output, tw_session.
  destruct (tw_run c tw_new ups) as [s segs] eqn:R.
  destruct (run_ups ups tw_new scr0 _ s segs Inv0 Hok R) as (sc & E & I & Cu & M & _).
  destruct (tw_close s) as [s' seg] eqn:Cl.
  destruct (close_step s sc _ s' seg I Cl) as (sc' & E' & Rw & Cr & Cc & Cv & Hd).
  exists sc'. cbn [snd]. rewrite concat_app, render_app, run_app, E. cbn [concat]. rewrite app_nil_r, E'.
  split; [reflexivity|]. destruct I as [Ir Iv Ih Irows _ _ _ _].
  split; [|split; [|split; [|split]]].
  - intros l. rewrite Rw, Irows. apply shown_last_write.
  - rewrite Cr, M. reflexivity.
  - exact Cc.
  - exact Cv.
  - rewrite Hd, Ih. destruct (tw_hidden s); lia.
Qed.

End Main.

(* with AutoTrim on and a terminal at least as wide as computedCols, every well-formed text fits *)
Lemma trim_on_fits : forall tc c ups,
  autotrim c = true -> Z.to_nat (cols c) <= width tc ->
  (forall u, In u ups -> wf_text (snd u) = true) -> ups_ok tc c ups.
Proof.
  intros tc c ups Ha Hw Hwf u Hu. split; [apply Hwf; exact Hu|].
  unfold wl. rewrite Ha. pose proof (wlnw_trim_fits (cols c) (snd u)). lia.
Qed.

(* the writer hides the cursor at most once, whatever is written *)
Fixpoint count_hide (cs : list cmd) : nat :=
  match cs with [] => 0 | HideCur :: r => S (count_hide r) | _ :: r => count_hide r end.

Lemma count_hide_app a b : count_hide (a ++ b) = count_hide a + count_hide b.
Proof. induction a as [|x a IH]; cbn; [reflexivity|]. destruct x; cbn; rewrite IH; reflexivity. Qed.

Lemma count_hide_goto s line : count_hide (snd (go_to s line)) = 0.
Proof.
  cbn. rewrite !count_hide_app.
  assert (H1 : forall k, count_hide (repeat LF k) = 0) by (induction k; cbn; auto).
  assert (H2 : forall k n, count_hide (repeat (Up n) k) = 0) by (induction k; cbn; auto).
  rewrite H1, H2. reflexivity.
Qed.

Lemma hide_once_run : forall c ups s s' segs, tw_run c s ups = (s', segs) ->
  count_hide (concat segs) + (if tw_hidden s then 1 else 0) <= 1 /\
  (tw_hidden s = true -> tw_hidden s' = true) /\
  (count_hide (concat segs) = 1 -> tw_hidden s' = true).
Proof.
  induction ups as [|[line t] r IH]; intros s s' segs R.
  - cbn in R. inversion R; subst. cbn. destruct (tw_hidden s'); repeat split; auto; discriminate.
  - cbn [tw_run] in R. destruct (tw_write c s line t) as [s1 seg] eqn:W.
    destruct (tw_run c s1 r) as [s2 segs'] eqn:R'. inversion R; subst; clear R.
    unfold tw_write in W. cbn in W. inversion W; subst s1 seg; clear W.
    specialize (IH _ _ _ R'). cbn [tw_hidden] in IH. destruct IH as (IH1 & IH2 & IH3).
    cbn [concat]. rewrite !count_hide_app.
    pose proof (count_hide_goto (mktw (tw_cursor s) (tw_hidden s || tw_hide s) (tw_max s) (tw_clear s) (tw_hide s)) line) as G.
    cbn in G. rewrite !count_hide_app in G.
    assert (Ht : count_hide (if tw_clear s then [EraseEOL] else []) = 0)
      by (destruct (tw_clear s); reflexivity).
    assert (Ht' : count_hide [Text (write_line_no_wrap (autotrim c) (cols c) t)] = 0) by reflexivity.
    cbn [app] in *. rewrite Ht, Ht'.
    destruct (tw_hidden s) eqn:Hh, (tw_hide s) eqn:Hd; cbn in *; repeat split; intros; try lia; auto.
    all: try (apply IH2; reflexivity).
    all: try (apply IH3; lia).
Qed.

Lemma C20_hide_once_proof : forall c ups, count_hide (concat (tw_session c ups)) <= 1.
Proof.
  intros c ups. unfold tw_session. destruct (tw_run c tw_new ups) as [s segs] eqn:R.
  destruct (hide_once_run c ups _ _ _ R) as (H & _ & _). cbn in H.
  rewrite concat_app, count_hide_app. cbn [concat]. rewrite app_nil_r.
  assert (Hc : count_hide (snd (tw_close s)) = 0).
  { unfold tw_close. cbn. rewrite !count_hide_app.
    pose proof (count_hide_goto s (tw_max s)) as G. cbn in G. rewrite !count_hide_app in G.
    destruct (tw_hidden s); cbn in *; lia. }
  lia.
Qed.
