(* C13: the stateless comparators are strict total orders on distinct keys
   (text, numeric after repair #19a, value), value puts larger totals first, sort-name parsing. *)
From Coq Require Import List Permutation Sorted Bool NArith ZArith Lia String.
From RareV Require Import Base.Hex Model.Sort Proofs.SortGeneric.
Import ListNotations.

(* ---------------------------------------------------------------- helpers *)
Lemma strict_order_intro {A} (less : A -> A -> bool) (l : list A) :
  (forall a, less a a = false) ->
  (forall a b c, less a b = true -> less b c = true -> less a c = true) ->
  (forall a b, In a l -> In b l -> a <> b -> less a b = true \/ less b a = true) ->
  strict_order_on less l.
Proof.
  intros Hi Ht Ho. split; [intros a _; apply Hi|]. repeat split.
  - intros a b _ _ _ L1 L2. unfold lt in *. pose proof (Ht a b a L1 L2) as L. rewrite Hi in L. discriminate.
  - intros a b c _ _ _ _ _ _. apply Ht.
  - exact Ho.
Qed.

Lemma NoDup_map_inj {A B} (f : A -> B) (l : list A) :
  NoDup (map f l) -> forall a b, In a l -> In b l -> f a = f b -> a = b.
Proof.
  induction l as [|x l IH]; intros Hnd a b Ia Ib E; [contradiction|].
  cbn in Hnd. inversion Hnd as [|? ? Hnx Hnd1]; subst.
  destruct Ia as [->|Ia], Ib as [->|Ib]; auto.
  - exfalso. apply Hnx. rewrite E. now apply in_map.
  - exfalso. apply Hnx. rewrite <- E. now apply in_map.
Qed.

(* ---------------------------------------------------------------- byte order *)
Lemma blt_irrefl a : blt a a = false.
Proof. induction a as [|x a IH]; cbn; [reflexivity|]. rewrite N.ltb_irrefl. exact IH. Qed.

Lemma blt_trans : forall a b c, blt a b = true -> blt b c = true -> blt a c = true.
Proof.
  induction a as [|x a IH]; intros [|y b] [|z c]; cbn; try discriminate; auto.
  destruct (N.ltb_spec x y), (N.ltb_spec y x), (N.ltb_spec y z), (N.ltb_spec z y),
           (N.ltb_spec x z), (N.ltb_spec z x); try lia; try discriminate; auto.
  apply IH.
Qed.

Lemma blt_total : forall a b, a <> b -> blt a b = true \/ blt b a = true.
Proof.
  induction a as [|x a IH]; intros [|y b] Hne; cbn; auto.
  destruct (N.ltb_spec x y), (N.ltb_spec y x); auto; try lia.
  apply IH. intros ->. apply Hne. f_equal. lia.
Qed.

(* ---------------------------------------------------------------- text *)
Lemma by_name_strict l : NoDup (map kname l) -> strict_order_on by_name l.
Proof.
  intros Hnd. apply strict_order_intro; unfold by_name.
  - intros a. apply blt_irrefl.
  - intros a b c. apply blt_trans.
  - intros a b Ia Ib Hab. apply blt_total. intros E. apply Hab.
    exact (NoDup_map_inj kname l Hnd a b Ia Ib E).
Qed.

(* ---------------------------------------------------------------- numbers as compared *)
Lemma peq_eq x y : peq x y = true <-> x = y.
Proof.
  destruct x as [a b], y as [c d]. unfold peq. cbn. rewrite andb_true_iff, !Z.eqb_eq.
  split; [intros [-> ->]; reflexivity|intros E; inversion E; auto].
Qed.
Lemma peq_refl x : peq x x = true.
Proof. now apply peq_eq. Qed.
Lemma plt_irrefl x : plt x x = false.
Proof. destruct x as [a b]. unfold plt. cbn. rewrite !Z.ltb_irrefl, Z.eqb_refl. reflexivity. Qed.

Ltac zb := unfold plt, peq in *; cbn [fst snd] in *;
  repeat match goal with
  | H : _ = true |- _ => first [rewrite orb_true_iff in H | rewrite andb_true_iff in H
                               | rewrite Z.ltb_lt in H | rewrite Z.eqb_eq in H]
  | H : _ = false |- _ => first [rewrite orb_false_iff in H | rewrite andb_false_iff in H
                               | rewrite Z.ltb_ge in H | rewrite Z.eqb_neq in H]
  | |- _ = true => first [rewrite orb_true_iff | rewrite andb_true_iff | rewrite Z.ltb_lt | rewrite Z.eqb_eq]
  | |- _ = false => first [rewrite orb_false_iff | rewrite andb_false_iff | rewrite Z.ltb_ge | rewrite Z.eqb_neq]
  end.

Lemma plt_trans x y z : plt x y = true -> plt y z = true -> plt x z = true.
Proof. destruct x, y, z. intros H1 H2. zb. lia. Qed.
Lemma plt_asym x y : plt x y = true -> plt y x = false.
Proof. destruct x, y. intros H1. zb. lia. Qed.
Lemma plt_total x y : peq x y = false -> plt x y = true \/ plt y x = true.
Proof.
  destruct x as [a b], y as [c d]. intros H. unfold plt, peq in *. cbn [fst snd] in *.
  rewrite !orb_true_iff, !andb_true_iff, !Z.ltb_lt, !Z.eqb_eq.
  apply andb_false_iff in H. rewrite !Z.eqb_neq in H. lia.
Qed.
Lemma plt_not_peq x y : plt x y = true -> peq x y = false.
Proof.
  intros H. destruct (peq x y) eqn:E; [|reflexivity].
  apply peq_eq in E. subst. rewrite plt_irrefl in H. discriminate.
Qed.

(* ---------------------------------------------------------------- numeric (repaired ByNameSmart) *)
Lemma smart_irrefl a : by_name_smart a a = false.
Proof.
  unfold by_name_smart. destruct (knum a) as [x|].
  - rewrite peq_refl. apply blt_irrefl.
  - apply blt_irrefl.
Qed.

Lemma smart_trans a b c :
  by_name_smart a b = true -> by_name_smart b c = true -> by_name_smart a c = true.
Proof.
  unfold by_name_smart.
  destruct (knum a) as [x|], (knum b) as [y|], (knum c) as [z|]; try discriminate; auto.
  - destruct (peq x y) eqn:Exy, (peq y z) eqn:Eyz; intros H1 H2.
    + apply peq_eq in Exy, Eyz. subst. rewrite peq_refl. eapply blt_trans; eauto.
    + apply peq_eq in Exy. subst. rewrite Eyz. exact H2.
    + apply peq_eq in Eyz. subst. rewrite Exy. exact H1.
    + pose proof (plt_trans _ _ _ H1 H2) as H3. rewrite (plt_not_peq _ _ H3). exact H3.
  - apply blt_trans.
Qed.

Lemma smart_total a b : kname a <> kname b -> by_name_smart a b = true \/ by_name_smart b a = true.
Proof.
  intros Hne. unfold by_name_smart.
  destruct (knum a) as [x|], (knum b) as [y|]; auto.
  - destruct (peq x y) eqn:E.
    + assert (E' : peq y x = true) by (apply peq_eq; apply peq_eq in E; auto). rewrite E'.
      now apply blt_total.
    + assert (E' : peq y x = false).
      { destruct (peq y x) eqn:E2; [|reflexivity]. apply peq_eq in E2. subst. rewrite peq_refl in E. discriminate. }
      rewrite E'. now apply plt_total.
  - now apply blt_total.
Qed.

Lemma by_name_smart_strict l : NoDup (map kname l) -> strict_order_on by_name_smart l.
Proof.
  intros Hnd. apply strict_order_intro.
  - apply smart_irrefl.
  - apply smart_trans.
  - intros a b Ia Ib Hab. apply smart_total. intros E. apply Hab.
    exact (NoDup_map_inj kname l Hnd a b Ia Ib E).
Qed.

(* numbers sort before everything else, and among themselves by magnitude *)
Lemma smart_numbers_first a b x : knum a = Some x -> knum b = None ->
  by_name_smart a b = true /\ by_name_smart b a = false.
Proof. intros Ha Hb. unfold by_name_smart. rewrite Ha, Hb. auto. Qed.
Lemma smart_magnitude a b x y : knum a = Some x -> knum b = Some y -> plt x y = true ->
  by_name_smart a b = true /\ by_name_smart b a = false.
Proof.
  intros Ha Hb H. unfold by_name_smart. rewrite Ha, Hb.
  rewrite (plt_not_peq _ _ H). split; [exact H|].
  destruct (peq y x) eqn:E.
  - apply peq_eq in E. subst. rewrite plt_irrefl in H. discriminate.
  - now apply plt_asym.
Qed.
(* equal values (1, 1.0, 01, 1e0) and text: byte order *)
Lemma smart_ties a b x : knum a = Some x -> knum b = Some x -> by_name_smart a b = by_name a b.
Proof. intros Ha Hb. unfold by_name_smart, by_name. rewrite Ha, Hb, peq_refl. reflexivity. Qed.
Lemma smart_text a b : knum a = None -> knum b = None -> by_name_smart a b = by_name a b.
Proof. intros Ha Hb. unfold by_name_smart, by_name. rewrite Ha, Hb. reflexivity. Qed.

(* magnitude of finite values (multiples of the case's common scale): m1 * 2^e1 < m2 * 2^e2 *)
Lemma fnum_fin m e : (0 <= e)%Z -> fnum (FFin m e) = Some (0, m * 2 ^ e)%Z.
Proof. intros H. cbn. rewrite Z.shiftl_mul_pow2 by lia. reflexivity. Qed.
Lemma plt_fin m1 e1 m2 e2 : (0 <= e1)%Z -> (0 <= e2)%Z ->
  flt (FFin m1 e1) (FFin m2 e2) = true <-> (m1 * 2 ^ e1 < m2 * 2 ^ e2)%Z.
Proof.
  intros H1 H2. unfold flt. rewrite !fnum_fin by assumption.
  unfold plt. cbn [fst snd]. rewrite Z.ltb_irrefl, Z.eqb_refl. cbn. apply Z.ltb_lt.
Qed.

(* the pinned comparator is not transitive: 9 < 10 < 5x < 9 *)
Definition k9 := mkkey (of_str "9") (Some (FFin 9 0)) FmtErr [].
Definition k10 := mkkey (of_str "10") (Some (FFin 10 0)) FmtErr [].
Definition k5x := mkkey (of_str "5x") None FmtErr [].
Lemma smart_pinned_cycle :
  by_name_smart_pinned k9 k10 = true /\ by_name_smart_pinned k10 k5x = true /\
  by_name_smart_pinned k5x k9 = true.
Proof. vm_compute. auto. Qed.
Definition k1 := mkkey (of_str "1") (Some (FFin 1 0)) FmtErr [].
Definition k1_0 := mkkey (of_str "1.0") (Some (FFin 1 0)) FmtErr [].
Lemma smart_pinned_tie : by_name_smart_pinned k1 k1_0 = false /\ by_name_smart_pinned k1_0 k1 = false.
Proof. vm_compute. auto. Qed.

(* ---------------------------------------------------------------- items: sorters on names, value *)
Definition item_name (it : item) : bytes := kname (fst it).

Lemma on_name_strict (f : key -> key -> bool) (l : list item) :
  (forall a, f a a = false) ->
  (forall a b c, f a b = true -> f b c = true -> f a c = true) ->
  (forall a b, kname a <> kname b -> f a b = true \/ f b a = true) ->
  NoDup (map item_name l) -> strict_order_on (on_name f) l.
Proof.
  intros Hi Ht Ho Hnd. apply strict_order_intro; unfold on_name.
  - intros a. apply Hi.
  - intros a b c. apply Ht.
  - intros a b Ia Ib Hab. apply Ho. intros E. apply Hab.
    exact (NoDup_map_inj item_name l Hnd a b Ia Ib E).
Qed.

Lemma text_items_strict l : NoDup (map item_name l) -> strict_order_on (on_name by_name) l.
Proof.
  apply on_name_strict; unfold by_name.
  - intros; apply blt_irrefl.
  - intros a b c; apply blt_trans.
  - intros a b; apply blt_total.
Qed.
Lemma numeric_items_strict l : NoDup (map item_name l) -> strict_order_on (on_name by_name_smart) l.
Proof. apply on_name_strict; [apply smart_irrefl|apply smart_trans|apply smart_total]. Qed.

Lemma value_asc_irrefl a : value_asc a a = false.
Proof. unfold value_asc. rewrite Z.eqb_refl. apply blt_irrefl. Qed.
Lemma value_asc_trans a b c : value_asc a b = true -> value_asc b c = true -> value_asc a c = true.
Proof.
  unfold value_asc, by_name.
  destruct (Z.eqb_spec (snd a) (snd b)), (Z.eqb_spec (snd b) (snd c)), (Z.eqb_spec (snd a) (snd c));
    rewrite ?Z.ltb_lt; try lia; try (intros; lia).
  apply blt_trans.
Qed.
Lemma value_asc_total a b : item_name a <> item_name b -> value_asc a b = true \/ value_asc b a = true.
Proof.
  intros Hne. unfold value_asc, by_name.
  destruct (Z.eqb_spec (snd a) (snd b)), (Z.eqb_spec (snd b) (snd a)); try lia.
  now apply blt_total.
Qed.
Lemma value_asc_strict l : NoDup (map item_name l) -> strict_order_on value_asc l.
Proof.
  intros Hnd. apply strict_order_intro.
  - apply value_asc_irrefl.
  - apply value_asc_trans.
  - intros a b Ia Ib Hab. apply value_asc_total. intros E. apply Hab.
    exact (NoDup_map_inj item_name l Hnd a b Ia Ib E).
Qed.

(* `--sort value` = Reverse(ValueSorterEx(ByName)): a larger total is always placed first *)
Lemma value_larger_first a b : (snd a > snd b)%Z ->
  reverse value_asc a b = true /\ reverse value_asc b a = false.
Proof.
  intros H. unfold reverse, value_asc.
  destruct (Z.eqb_spec (snd a) (snd b)); [exfalso; lia|].
  destruct (Z.eqb_spec (snd b) (snd a)); [exfalso; lia|].
  destruct (Z.ltb_spec (snd a) (snd b)), (Z.ltb_spec (snd b) (snd a)); try (exfalso; lia); auto.
Qed.
Lemma nv_value_larger_first a b : (snd a > snd b)%Z ->
  nv_value_sorter a b = true /\ nv_value_sorter b a = false.
Proof.
  intros H. unfold nv_value_sorter.
  destruct (Z.eqb_spec (snd a) (snd b)); [exfalso; lia|].
  destruct (Z.eqb_spec (snd b) (snd a)); [exfalso; lia|].
  destruct (Z.ltb_spec (snd a) (snd b)), (Z.ltb_spec (snd b) (snd a)); try (exfalso; lia); auto.
Qed.

Lemma items_NoDup l : NoDup (map item_name l) -> NoDup l.
Proof. apply NoDup_map_inv. Qed.

Lemma value_sorted_desc l : NoDup (map item_name l) ->
  StronglySorted (fun a b : item => (snd a >= snd b)%Z) (isort (reverse value_asc) l).
Proof.
  intros Hnd. pose proof (items_NoDup l Hnd) as Hnd'.
  destruct (value_asc_strict l Hnd) as [_ Ho].
  apply (SS_impl_nodup (lt (reverse value_asc))).
  - eapply Permutation_NoDup; [apply isort_perm|exact Hnd'].
  - intros a b _ _ _ L. unfold lt, reverse, value_asc in L. apply negb_true_iff in L.
    destruct (Z.eqb_spec (snd a) (snd b)); [lia|]. apply Z.ltb_ge in L. lia.
  - apply (isort_sorted _ l); auto.
    + now apply reverse_order_on.
    + apply incl_refl.
Qed.

(* ---------------------------------------------------------------- sort-name parsing *)
Lemma split_colon_none n : ~ In COLON n -> split_colon n = (n, None).
Proof.
  induction n as [|b n IH]; intros Hn; cbn; [reflexivity|].
  destruct (N.eqb_spec b COLON) as [->|_]; [exfalso; apply Hn; now left|].
  rewrite IH; [reflexivity|]. intros H. apply Hn. now right.
Qed.
Lemma split_colon_some n r : ~ In COLON n -> split_colon (n ++ COLON :: r) = (n, Some r).
Proof.
  induction n as [|b n IH]; intros Hn; cbn.
  - reflexivity.
  - destruct (N.eqb_spec b COLON) as [->|_]; [exfalso; apply Hn; now left|].
    rewrite IH; [reflexivity|]. intros H. apply Hn. now right.
Qed.

Lemma lookup_mode_value lname m : lookup_mode lname = Some m ->
  bytes_eqb lname s_value = mode_eqb m MValue.
Proof.
  unfold lookup_mode.
  destruct (bytes_eqb lname s_text) eqn:E1.
  { apply bytes_eqb_eq in E1. subst. cbn. intros H. inversion H. reflexivity. }
  destruct (bytes_eqb lname []) eqn:E2.
  { apply bytes_eqb_eq in E2. subst. cbn. intros H. inversion H. reflexivity. }
  cbn [orb].
  destruct (bytes_eqb lname s_numeric) eqn:E3.
  { apply bytes_eqb_eq in E3. subst. intros H. inversion H. reflexivity. }
  destruct (bytes_eqb lname s_contextual) eqn:E4.
  { apply bytes_eqb_eq in E4. subst. cbn. intros H. inversion H. reflexivity. }
  destruct (bytes_eqb lname s_context) eqn:E5.
  { apply bytes_eqb_eq in E5. subst. cbn. intros H. inversion H. reflexivity. }
  cbn [orb].
  destruct (bytes_eqb lname s_date) eqn:E6.
  { apply bytes_eqb_eq in E6. subst. intros H. inversion H. reflexivity. }
  destruct (bytes_eqb lname s_value) eqn:E7; intros H; inversion H. reflexivity.
Qed.

(* no modifier: the sorter named (case-insensitively); `value` alone is descending *)
Lemma parse_sort_plain n m : ~ In COLON n -> lookup_mode (lower n) = Some m ->
  parse_sort n = Some (m, mode_eqb m MValue).
Proof.
  intros Hn Hm. unfold parse_sort. rewrite (split_colon_none n Hn).
  rewrite (lookup_mode_value _ _ Hm), Hm. reflexivity.
Qed.

(* with a modifier (anything after a second ':' is ignored) *)
Lemma parse_sort_modifier n md rest m :
  ~ In COLON n -> ~ In COLON md -> (rest = [] \/ exists r, rest = COLON :: r) ->
  lookup_mode (lower n) = Some m ->
  parse_sort (n ++ COLON :: md ++ rest) =
  option_map (fun rv => (m, rv)) (apply_modifier (mode_eqb m MValue) (lower md)).
Proof.
  intros Hn Hmd Hrest Hm. unfold parse_sort. rewrite (split_colon_some n _ Hn).
  assert (E : fst (split_colon (md ++ rest)) = md).
  { destruct Hrest as [->|[r ->]].
    - rewrite app_nil_r, (split_colon_none md Hmd). reflexivity.
    - rewrite (split_colon_some md r Hmd). reflexivity. }
  rewrite E, (lookup_mode_value _ _ Hm), Hm.
  destruct (apply_modifier (mode_eqb m MValue) (lower md)); reflexivity.
Qed.

(* an unknown sort name is an error whatever the modifier *)
Lemma parse_sort_unknown n rest : ~ In COLON n -> lookup_mode (lower n) = None ->
  parse_sort n = None /\ parse_sort (n ++ COLON :: rest) = None.
Proof.
  intros Hn Hm. unfold parse_sort. rewrite (split_colon_none n Hn), (split_colon_some n _ Hn), Hm.
  split; [reflexivity|].
  destruct (apply_modifier _ _); reflexivity.
Qed.

Local Open Scope string_scope.
Lemma lookup_mode_table lname m :
  lookup_mode lname = Some m <->
  In (lname, m) [(of_str "text", MText); ([], MText); (of_str "numeric", MNumeric);
                 (of_str "contextual", MContextual); (of_str "context", MContextual);
                 (of_str "date", MDate); (of_str "value", MValue)].
Proof.
  split.
  - unfold lookup_mode.
    destruct (bytes_eqb lname s_text) eqn:E1.
    { apply bytes_eqb_eq in E1. subst. cbn. intros H. inversion H. auto. }
    destruct (bytes_eqb lname []) eqn:E2.
    { apply bytes_eqb_eq in E2. subst. cbn. intros H. inversion H. auto. }
    cbn [orb].
    destruct (bytes_eqb lname s_numeric) eqn:E3.
    { apply bytes_eqb_eq in E3. subst. intros H. inversion H. cbn. auto. }
    destruct (bytes_eqb lname s_contextual) eqn:E4.
    { apply bytes_eqb_eq in E4. subst. cbn. intros H. inversion H. auto. }
    destruct (bytes_eqb lname s_context) eqn:E5.
    { apply bytes_eqb_eq in E5. subst. cbn. intros H. inversion H. auto 6. }
    cbn [orb].
    destruct (bytes_eqb lname s_date) eqn:E6.
    { apply bytes_eqb_eq in E6. subst. intros H. inversion H. cbn. auto 7. }
    destruct (bytes_eqb lname s_value) eqn:E7; intros H; inversion H.
    apply bytes_eqb_eq in E7. subst. cbn. auto 8.
  - intros H. cbn in H.
    repeat (destruct H as [H|H]; [inversion H; subst; vm_compute; reflexivity|]). contradiction.
Qed.

Lemma apply_modifier_table d :
  apply_modifier d (of_str "asc") = Some false /\
  apply_modifier d (of_str "desc") = Some true /\
  apply_modifier d (of_str "rev") = Some (negb d) /\
  apply_modifier d (of_str "reverse") = Some (negb d) /\
  (forall s, ~ In s [of_str "asc"; of_str "desc"; of_str "rev"; of_str "reverse"] ->
             apply_modifier d s = None).
Proof.
  repeat split; try reflexivity.
  intros s Hs. unfold apply_modifier.
  destruct (bytes_eqb s s_rev) eqn:E1; [apply bytes_eqb_eq in E1; subst; exfalso; apply Hs; cbn; auto|].
  destruct (bytes_eqb s s_reverse) eqn:E2; [apply bytes_eqb_eq in E2; subst; exfalso; apply Hs; cbn; auto|].
  destruct (bytes_eqb s s_desc) eqn:E3; [apply bytes_eqb_eq in E3; subst; exfalso; apply Hs; cbn; auto|].
  destruct (bytes_eqb s s_asc) eqn:E4; [apply bytes_eqb_eq in E4; subst; exfalso; apply Hs; cbn; auto|].
  reflexivity.
Qed.
