(* C16: the strict reader accepts what the writer renders and returns exactly the members written. *)
From Coq Require Import List NArith ZArith Bool Lia.
From RareV Require Import Base.Hex Base.Num Model.Json Proofs.JsonEscape Proofs.JsonNumber.
Import ListNotations.
Local Open Scope N_scope.

(* values the writer emits bare are numerals accepted by isNumeric *)
Definition wf_val (j : jval) : Prop := match j with JNum lit => is_numeric lit = true | _ => True end.

Lemma wf_infer v : wf_val (infer v).
Proof.
  unfold infer. destruct (is_numeric v) eqn:E; [exact E|].
  destruct (fold_eq w_true v); [exact I|]. destruct (fold_eq w_false v); exact I.
Qed.

Definition delim (c : N) : Prop := c = 44 \/ c = 125.

Lemma delim_follow c : delim c -> num_follow c = true.
Proof. intros [->| ->]; reflexivity. Qed.

Lemma digit_facts b : is_digit b = true -> b =? 34 = false /\ b =? 116 = false /\ b =? 102 = false /\ is_ws b = false.
Proof.
  unfold is_digit, is_ws. intros H. apply andb_true_iff in H as [H1 H2].
  apply N.leb_le in H1. apply N.leb_le in H2.
  repeat split; try (apply N.eqb_neq; lia).
  repeat (apply orb_false_iff; split); apply N.eqb_neq; lia.
Qed.

(* value *)
Lemma read_value_written j c tl : wf_val j -> delim c ->
  read_value (write_val j ++ c :: tl) = Some (j, c :: tl).
Proof.
  intros W D. destruct j as [s|lit|[|]]; cbn [write_val].
  - (* string *)
    cbn [app]. unfold read_value. change (34 =? 34) with true. cbv iota.
    unfold read_string. change (34 =? 34) with true. cbv iota.
    rewrite <- app_assoc. cbn [app]. rewrite read_escape. reflexivity.
  - (* number *)
    cbn in W. destruct (numeric_first_digit _ W) as (b & r & -> & Db).
    destruct (digit_facts _ Db) as (Q & T & F & _).
    unfold read_value. cbn [app]. rewrite Q.
    unfold w_true, w_false. cbn [strip_prefix]. rewrite T, F.
    change (b :: r ++ c :: tl) with ((b :: r) ++ c :: tl).
    rewrite (read_number_numeric _ c tl W (delim_follow _ D)). reflexivity.
  - reflexivity.
  - reflexivity.
Qed.

Lemma write_val_first j : wf_val j -> exists b r, write_val j = b :: r /\ is_ws b = false.
Proof.
  intros W. destruct j as [s|lit|[|]]; cbn [write_val].
  - eexists _, _. split; [reflexivity|reflexivity].
  - cbn in W. destruct (numeric_first_digit _ W) as (b & r & -> & Db).
    exists b, r. split; [reflexivity|]. apply digit_facts. exact Db.
  - eexists _, _. split; reflexivity.
  - eexists _, _. split; reflexivity.
Qed.

Lemma skip_ws_nonws b r : is_ws b = false -> skip_ws (b :: r) = b :: r.
Proof. intros H. cbn [skip_ws]. rewrite H. reflexivity. Qed.

(* member without the leading separator *)
Definition member_core (k : bytes) (j : jval) : bytes := [34] ++ escape k ++ [34; 58; 32] ++ write_val j.

Lemma write_member_core first k j :
  write_member first k j = (if first then [] else [44; 32]) ++ member_core k j.
Proof. reflexivity. Qed.

Lemma read_member_written k j c tl : wf_val j -> delim c ->
  read_member (member_core k j ++ c :: tl) = Some ((k, j), c :: tl).
Proof.
  intros W D. unfold read_member, member_core, read_string.
  cbn [app]. change (34 =? 34) with true. cbv iota.
  rewrite <- !app_assoc. cbn [app]. rewrite read_escape.
  rewrite skip_ws_nonws by reflexivity. cbn [expect]. change (58 =? 58) with true. cbv iota.
  destruct (write_val_first j W) as (b & r & E & Hb).
  assert (S : skip_ws (32 :: write_val j ++ c :: tl) = write_val j ++ c :: tl).
  { cbn [skip_ws]. change (is_ws 32) with true. cbv iota. rewrite E. cbn [app]. apply skip_ws_nonws. exact Hb. }
  rewrite S. rewrite (read_value_written j c tl W D). reflexivity.
Qed.

Lemma write_members_false_cons k j ms :
  write_members false ((k, j) :: ms) = 44 :: 32 :: member_core k j ++ write_members false ms.
Proof. reflexivity. Qed.

Lemma core_first k j : exists r, member_core k j = 34 :: r.
Proof. eexists. reflexivity. Qed.

Lemma read_members_written ms : forall k j fuel tl,
  wf_val j -> Forall (fun m => wf_val (snd m)) ms -> (length ms < fuel)%nat ->
  read_members fuel (member_core k j ++ write_members false ms ++ 125 :: tl) = Some ((k, j) :: ms, tl).
Proof.
  induction ms as [|[k2 j2] ms IH]; intros k j fuel tl W F L.
  - destruct fuel as [|f]; [cbn in L; lia|]. cbn [write_members app read_members].
    rewrite (read_member_written k j 125 tl W (or_intror eq_refl)).
    rewrite skip_ws_nonws by reflexivity.
    change (125 =? 44) with false. change (125 =? 125) with true. reflexivity.
  - destruct fuel as [|f]; [cbn in L; lia|]. rewrite write_members_false_cons.
    cbn [read_members]. cbn [app].
    rewrite (read_member_written k j 44 _ W (or_introl eq_refl)).
    rewrite skip_ws_nonws by reflexivity. change (44 =? 44) with true. cbv iota.
    inversion F as [|? ? W2 F2]; subst. cbn [snd] in W2.
    assert (S : skip_ws (32 :: (member_core k2 j2 ++ write_members false ms) ++ 125 :: tl)
                = member_core k2 j2 ++ write_members false ms ++ 125 :: tl).
    { cbn [skip_ws]. change (is_ws 32) with true. cbv iota. rewrite <- app_assoc.
      destruct (core_first k2 j2) as (r & ->). cbn [app]. apply skip_ws_nonws. reflexivity. }
    rewrite S. rewrite (IH k2 j2 f tl W2 F2); [reflexivity|]. cbn [length] in L. lia.
Qed.

Lemma write_members_len ms : (length ms <= length (write_members false ms))%nat.
Proof.
  induction ms as [|[k j] ms IH]; [cbn; lia|]. rewrite write_members_false_cons.
  cbn [length]. rewrite app_length. lia.
Qed.

(* the object *)
Theorem parse_render ms : Forall (fun m => wf_val (snd m)) ms -> json_parse (render ms) = Some ms.
Proof.
  intros F. unfold json_parse, render. cbn [app].
  rewrite skip_ws_nonws by reflexivity. cbn [expect]. change (123 =? 123) with true. cbv iota.
  destruct ms as [|[k j] ms].
  - reflexivity.
  - inversion F as [|? ? W F2]; subst. cbn [snd] in W.
    cbn [write_members]. rewrite write_member_core. cbn [app].
    destruct (core_first k j) as (r & E).
    assert (S : skip_ws ((member_core k j ++ write_members false ms) ++ [125])
                = member_core k j ++ write_members false ms ++ [125]).
    { rewrite <- app_assoc. rewrite E. cbn [app]. apply skip_ws_nonws. reflexivity. }
    rewrite S. rewrite E at 1. cbn [app]. change (34 =? 125) with false. cbv iota.
    change (34 :: r ++ write_members false ms ++ [125]) with ((34 :: r) ++ write_members false ms ++ [125]).
    rewrite <- E.
    rewrite (read_members_written ms k j _ [] W F2).
    + reflexivity.
    + rewrite !app_length. pose proof (write_members_len ms). lia.
Qed.

Lemma infer_members_wf ms : Forall (fun m => wf_val (snd m)) (infer_members ms).
Proof.
  induction ms as [|[k v] ms IH]; constructor; [apply wf_infer|exact IH].
Qed.

(* ------------------------------------------------------------------ faithfulness *)

Lemma pair_eqb_refl a : pair_eqb a a = true.
Proof. unfold pair_eqb. rewrite !Z.eqb_refl. reflexivity. Qed.

Lemma bytes_eqb_refl a : bytes_eqb a a = true.
Proof. apply bytes_eqb_eq. reflexivity. Qed.

Lemma member_ok_infer v : member_ok_b v (infer v) = true.
Proof.
  unfold infer. destruct (is_numeric v) eqn:N.
  - cbn [member_ok_b]. destruct (dec_val_numeric _ N) as (x & ->). apply pair_eqb_refl.
  - destruct (fold_eq w_true v) eqn:T; [exact T|].
    destruct (fold_eq w_false v) eqn:Fa; [exact Fa|].
    cbn [member_ok_b]. apply bytes_eqb_refl.
Qed.

Lemma members_ok_infer ms : members_ok_b ms (infer_members ms) = true.
Proof.
  induction ms as [|[k v] ms IH]; [reflexivity|].
  cbn [infer_members map members_ok_b fst snd]. rewrite bytes_eqb_refl, member_ok_infer. exact IH.
Qed.

Theorem view_ok_render ms : view_ok_b ms (render (infer_members ms)) = true.
Proof.
  unfold view_ok_b. rewrite (parse_render _ (infer_members_wf ms)). apply members_ok_infer.
Qed.
