(* C13: contextual and date.
   - ByContextualEx after the repairs (C13-contextual-ties, C13-stateful-comparators) is a plain
     function of the two keys, [ctx_lt], and a strict total order on distinct keys;
   - on the sort sets it is calendar position (tables from the translator);
   - as pinned it was neither (refutation theorems about [by_contextual_pinned]);
   - ByDate still carries closure state: refuted on mixed key sets, proved on key sets inside one
     layout (ties allowed) or without any layout. *)
From Coq Require Import List Permutation Sorted Bool NArith ZArith Lia String.
From RareV Require Import Base.Hex Gen.GenSortSets Model.Sort Proofs.SortGeneric Proofs.SortOrders.
Import ListNotations.

(* ---------------------------------------------------------------- lexicographic: rank, then a total order *)
Section Lex.
Variable rank : key -> Z * Z.
Variable f : key -> key -> bool.
Definition lex (a b : key) : bool :=
  if peq (rank a) (rank b) then f a b else plt (rank a) (rank b).
Hypothesis f_irrefl : forall a, f a a = false.
Hypothesis f_trans : forall a b c, f a b = true -> f b c = true -> f a c = true.
Hypothesis f_total : forall a b, kname a <> kname b -> f a b = true \/ f b a = true.

Lemma lex_irrefl a : lex a a = false.
Proof. unfold lex. rewrite peq_refl. apply f_irrefl. Qed.

Lemma lex_trans a b c : lex a b = true -> lex b c = true -> lex a c = true.
Proof.
  unfold lex.
  destruct (peq (rank a) (rank b)) eqn:Exy, (peq (rank b) (rank c)) eqn:Eyz; intros H1 H2.
  - apply peq_eq in Exy, Eyz. rewrite Exy, Eyz, peq_refl. eapply f_trans; eauto.
  - apply peq_eq in Exy. rewrite Exy, Eyz. exact H2.
  - apply peq_eq in Eyz. rewrite <- Eyz, Exy. exact H1.
  - pose proof (plt_trans _ _ _ H1 H2) as H3. rewrite (plt_not_peq _ _ H3). exact H3.
Qed.

Lemma lex_total a b : kname a <> kname b -> lex a b = true \/ lex b a = true.
Proof.
  intros Hne. unfold lex. destruct (peq (rank a) (rank b)) eqn:E.
  - assert (E' : peq (rank b) (rank a) = true) by (apply peq_eq; apply peq_eq in E; auto).
    rewrite E'. now apply f_total.
  - assert (E' : peq (rank b) (rank a) = false).
    { destruct (peq (rank b) (rank a)) eqn:E2; [|reflexivity].
      apply peq_eq in E2. rewrite E2, peq_refl in E. discriminate. }
    rewrite E'. now apply plt_total.
Qed.

Lemma lex_strict l : NoDup (map kname l) -> strict_order_on lex l.
Proof.
  intros Hnd. apply strict_order_intro.
  - apply lex_irrefl.
  - apply lex_trans.
  - intros a b Ia Ib Hab. apply lex_total. intros E. apply Hab.
    exact (NoDup_map_inj kname l Hnd a b Ia Ib E).
Qed.

(* the rank decides whenever it differs *)
Lemma lex_rank a b : plt (rank a) (rank b) = true -> lex a b = true /\ lex b a = false.
Proof.
  intros H. unfold lex. rewrite (plt_not_peq _ _ H). split; [exact H|].
  destruct (peq (rank b) (rank a)) eqn:E.
  - apply peq_eq in E. rewrite E, plt_irrefl in H. discriminate.
  - now apply plt_asym.
Qed.
End Lex.

(* ---------------------------------------------------------------- contextual (repaired) *)
Lemma ctx_lt_lex : ctx_lt = lex ctx_rank by_name_smart.
Proof. reflexivity. Qed.

Lemma ctx_lt_irrefl a : ctx_lt a a = false.
Proof. apply lex_irrefl, smart_irrefl. Qed.
Lemma ctx_lt_trans a b c : ctx_lt a b = true -> ctx_lt b c = true -> ctx_lt a c = true.
Proof. apply lex_trans, smart_trans. Qed.
Lemma ctx_lt_total a b : kname a <> kname b -> ctx_lt a b = true \/ ctx_lt b a = true.
Proof. apply lex_total, smart_total. Qed.

(* irreflexive, asymmetric, transitive, total on every set of keys with distinct names *)
Lemma ctx_lt_strict l : NoDup (map kname l) -> strict_order_on ctx_lt l.
Proof. apply lex_strict; [apply smart_irrefl|apply smart_trans|apply smart_total]. Qed.

(* the comparer built by ByContextualEx(ByNameSmart) IS that function: the answer does not depend
   on the state it is handed and the state is returned unchanged *)
Lemma by_contextual_pure st a b : by_contextual st a b = (ctx_lt a b, st).
Proof.
  unfold by_contextual, by_contextual_ex, ctx_lt, lift, peq, plt.
  destruct (ctx_rank a) as [s0 v0], (ctx_rank b) as [s1 v1]. cbn [fst snd].
  destruct (Z.eqb_spec s0 s1) as [->|Hs]; cbn.
  - rewrite Z.ltb_irrefl. destruct (Z.eqb_spec v0 v1); cbn; reflexivity.
  - rewrite orb_false_r. reflexivity.
Qed.

Lemma srun_contextual : forall qs st,
  fst (srun by_contextual st qs) = map (fun q => ctx_lt (fst q) (snd q)) qs.
Proof.
  induction qs as [|[a b] qs IH]; intros st; cbn; [reflexivity|].
  rewrite by_contextual_pure. specialize (IH st).
  destruct (srun by_contextual st qs) as [xs st2]. cbn in *. now rewrite IH.
Qed.

Lemma sisort_contextual l : NoDup (map kname l) -> forall arr st, Permutation l arr ->
  fst (sisort by_contextual st arr) = isort ctx_lt l.
Proof.
  intros Hnd arr st Hp.
  destruct (sisort_pure by_contextual (fun _ => True) ctx_lt l) with (r := arr) (st := st) as [E _]; auto.
  - intros s a b _ _ _. rewrite by_contextual_pure. auto.
  - intros x Hx. eapply Permutation_in; [apply Permutation_sym; exact Hp|exact Hx].
  - rewrite E. apply isort_perm_invariant; auto.
    + apply (ctx_lt_strict l Hnd).
    + now apply NoDup_map_inv in Hnd.
Qed.

(* ---------------------------------------------------------------- contextual as pinned: refutations *)
Local Open Scope string_scope.
Definition cs0 : cst * unit := (c_init, tt).
Definition kb := mkkey (of_str "b") None FmtErr [].
Definition kwed := mkkey (of_str "wed") None FmtErr [].
Definition kthu := mkkey (of_str "thu") None FmtErr [].

Lemma contextual_pinned_refuted :
  exists l l', NoDup (map kname l) /\ Permutation l l' /\
    fst (sisort by_contextual_pinned cs0 l) <> fst (sisort by_contextual_pinned cs0 l').
Proof.
  exists [kb; kwed; kthu], [kwed; kb; kthu]. split; [|split].
  - repeat constructor; cbn; intuition discriminate.
  - apply perm_swap.
  - vm_compute. discriminate.
Qed.

Lemma contextual_pinned_history_dependent :
  exists a b hist,
    fst (by_contextual_pinned cs0 a b) <>
    fst (by_contextual_pinned (snd (srun by_contextual_pinned cs0 hist)) a b).
Proof. exists kwed, kthu, [(kb, kwed)]. vm_compute. discriminate. Qed.

Definition kmon := mkkey (of_str "mon") None FmtErr [].
Definition kMonday := mkkey (of_str "Monday") None FmtErr [].
Lemma contextual_pinned_tie :
  fst (by_contextual_pinned cs0 kmon kMonday) = false /\ fst (by_contextual_pinned cs0 kMonday kmon) = false.
Proof. vm_compute. auto. Qed.
(* repaired: one of the two is first, always the same one *)
Lemma contextual_tie_broken : ctx_lt kMonday kmon = true /\ ctx_lt kmon kMonday = false.
Proof. vm_compute. auto. Qed.
Local Close Scope string_scope.

(* ---------------------------------------------------------------- date *)
Lemma date_lt_lex i : date_lt i = lex (date_rank i) ctx_lt.
Proof. reflexivity. Qed.

Lemma date_lt_strict i l : NoDup (map kname l) -> strict_order_on (date_lt i) l.
Proof. apply lex_strict; [apply ctx_lt_irrefl|apply ctx_lt_trans|apply ctx_lt_total]. Qed.

Definition ds0 : dst * unit := (d_init, tt).
Definition P_layout (i : nat) (st : dst * unit) : Prop :=
  st = ds0 \/ st = (mkd (Some i) false, tt).

Lemma date_dom_layout_spec i l : date_dom_layout i l = true ->
  forall a, In a l -> kfmt a = FmtOk (Some i) /\ exists t, kdate i a = Some t.
Proof.
  unfold date_dom_layout. intros H a Ia. rewrite forallb_forall in H. specialize (H a Ia).
  apply andb_true_iff in H as [Hf Hd].
  destruct (kfmt a) as [|[j|]]; try discriminate. apply Nat.eqb_eq in Hf. subst j.
  split; [reflexivity|]. destruct (kdate i a); [eauto|discriminate].
Qed.

Lemma date_lt_instants i a b ta tb : kdate i a = Some ta -> kdate i b = Some tb ->
  date_lt i a b = if (ta =? tb)%Z then ctx_lt a b else (ta <? tb)%Z.
Proof.
  intros Ea Eb. unfold date_lt, date_rank, peq, plt. rewrite Ea, Eb. cbn [fst snd].
  destruct (Z.eqb_spec ta tb); cbn; reflexivity.
Qed.

Lemma date_pure_layout i l :
  (forall a, In a l -> kfmt a = FmtOk (Some i) /\ exists t, kdate i a = Some t) ->
  forall st a b, P_layout i st -> In a l -> In b l ->
    fst (by_date_with_contextual st a b) = date_lt i a b /\
    P_layout i (snd (by_date_with_contextual st a b)).
Proof.
  intros Hl st a b Hp Ia Ib.
  destruct (Hl a Ia) as [Fa [ta Ea]]. destruct (Hl b Ib) as [_ [tb Eb]].
  rewrite (date_lt_instants i a b ta tb Ea Eb).
  unfold by_date_with_contextual, by_date.
  destruct Hp as [-> | ->]; cbn -[kdate by_contextual]; rewrite ?Fa; cbn -[kdate by_contextual];
    rewrite Ea, Eb; destruct (Z.eqb_spec ta tb); cbn -[by_contextual];
    rewrite ?by_contextual_pure; cbn; split; auto; right; reflexivity.
Qed.

(* no key has a layout: every comparison goes to the (state-free) contextual comparer *)
Definition P_nolayout (st : dst * unit) : Prop := fst st = d_init \/ fst st = mkd None true.

Lemma date_pure_nolayout l :
  (forall a, In a l -> kfmt a = FmtErr) ->
  forall st a b, P_nolayout st -> In a l -> In b l ->
    fst (by_date_with_contextual st a b) = ctx_lt a b /\
    P_nolayout (snd (by_date_with_contextual st a b)).
Proof.
  intros Hl [d s] a b Hd Ia Ib. unfold P_nolayout in *. cbn [fst] in Hd.
  unfold by_date_with_contextual, by_date.
  destruct Hd as [-> | ->]; cbn -[by_contextual]; rewrite ?(Hl a Ia); cbn -[by_contextual];
    rewrite by_contextual_pure; cbn; auto.
Qed.

Lemma date_dom_none_spec l : date_dom_none l = true -> forall a, In a l -> kfmt a = FmtErr.
Proof.
  unfold date_dom_none. intros H a Ia. rewrite forallb_forall in H. specialize (H a Ia).
  destruct (kfmt a); [reflexivity|discriminate].
Qed.

(* whenever date_pure says the key set is in a state-free domain, the closure decides like that
   pure comparator from its initial state on, in every order of questions, and the pure
   comparator is a strict total order on the key set *)
Lemma date_pure_sound l f : date_pure l = Some f -> NoDup (map kname l) ->
  strict_order_on f l /\
  exists P : dst * unit -> Prop, P ds0 /\
    forall st a b, P st -> In a l -> In b l ->
      fst (by_date_with_contextual st a b) = f a b /\ P (snd (by_date_with_contextual st a b)).
Proof.
  unfold date_pure. destruct l as [|k l'] eqn:El.
  { intros H _. inversion H; subst. split.
    - apply ctx_lt_strict. constructor.
    - exists (fun _ => True). split; auto. intros ? ? ? _ []. }
  rewrite <- El. intros H Hnd.
  destruct (kfmt k) as [|[i|]]; [| |discriminate].
  - destruct (date_dom_none l) eqn:D; [|discriminate]. inversion H; subst f. split.
    + now apply ctx_lt_strict.
    + exists P_nolayout. split; [now left|].
      apply date_pure_nolayout. now apply date_dom_none_spec.
  - destruct (date_dom_layout i l) eqn:D; [|discriminate]. inversion H; subst f. split.
    + now apply date_lt_strict.
    + exists (P_layout i). split; [now left|].
      apply date_pure_layout. apply (date_dom_layout_spec i l D).
Qed.

(* refutation (finding C13-stateful-date): 01/02/2022 and 12/31/2021 in layout 01/02/2006, with a
   key that is not a date *)
Local Open Scope string_scope.
Definition kna := mkkey (of_str "n/a") None FmtErr [None].
Definition kd1 := mkkey (of_str "01/02/2022") None (FmtOk (Some 0%nat)) [Some 1641081600000000000%Z].
Definition kd2 := mkkey (of_str "12/31/2021") None (FmtOk (Some 0%nat)) [Some 1640908800000000000%Z].
Lemma date_refuted :
  exists l l', NoDup (map kname l) /\ Permutation l l' /\
    fst (sisort by_date_with_contextual ds0 l) <> fst (sisort by_date_with_contextual ds0 l').
Proof.
  exists [kna; kd1; kd2], [kd1; kna; kd2]. split; [|split].
  - repeat constructor; cbn; intuition discriminate.
  - apply perm_swap.
  - vm_compute. discriminate.
Qed.
Local Close Scope string_scope.

(* ---------------------------------------------------------------- sorters on items (lookupSorter / BuildSorter) *)
Lemma in_fst_map (its : list item) a : In a its -> In (fst a) (map fst its).
Proof. apply in_map. Qed.

Lemma on_name_strict_from (f : key -> key -> bool) (its : list item) :
  NoDup (map item_name its) -> strict_order_on f (map fst its) -> strict_order_on (on_name f) its.
Proof.
  intros Hnd (Hi & Ha & Ht & Ho).
  assert (Hne : forall a b, In a its -> In b its -> a <> b -> fst a <> fst b).
  { intros a b Ia Ib Hab E. apply Hab. apply (NoDup_map_inj item_name its Hnd a b Ia Ib).
    unfold item_name. now rewrite E. }
  split; [|repeat split]; unfold on_name, lt in *.
  - intros a Ia. apply Hi. now apply in_fst_map.
  - intros a b Ia Ib Hab. apply Ha; auto using in_fst_map.
  - intros a b c Ia Ib Ic Hab Hbc Hac. apply Ht; auto using in_fst_map.
  - intros a b Ia Ib Hab. apply Ho; auto using in_fst_map.
Qed.

Lemma map_fst_names (its : list item) : map kname (map fst its) = map item_name its.
Proof. rewrite map_map. reflexivity. Qed.

Lemma contextual_items_strict l : NoDup (map item_name l) -> strict_order_on (on_name ctx_lt) l.
Proof. apply on_name_strict; [apply ctx_lt_irrefl|apply ctx_lt_trans|apply ctx_lt_total]. Qed.

(* The central fact about a sort mode on a key set in a state-free domain (every key set for
   text, numeric, contextual, value): a strict total order that the sorter follows from its
   initial state on, in every order of questions. *)
Lemma mode_pure_sound m its f : mode_pure m its = Some f -> NoDup (map item_name its) ->
  strict_order_on f its /\
  exists P : sstate -> Prop, P s_init /\
    forall st a b, P st -> In a its -> In b its ->
      fst (mode_cmp m st a b) = f a b /\ P (snd (mode_cmp m st a b)).
Proof.
  intros H Hnd. destruct m; cbn in H.
  - inversion H; subst f. split; [now apply text_items_strict|].
    exists (fun _ => True). cbn. auto.
  - inversion H; subst f. split; [now apply numeric_items_strict|].
    exists (fun _ => True). cbn. auto.
  - inversion H; subst f. split; [now apply contextual_items_strict|].
    exists (fun _ => True). split; [exact I|].
    intros [d c] a b _ _ _. cbn -[by_contextual]. rewrite by_contextual_pure. cbn. auto.
  - destruct (date_pure (map fst its)) as [g|] eqn:E; [|discriminate]. inversion H; subst f.
    destruct (date_pure_sound _ g E) as [Hs [Q [Hq0 Hq]]]; [now rewrite map_fst_names|]. split.
    + now apply on_name_strict_from.
    + exists Q. split; [exact Hq0|].
      intros st a b Hp Ia Ib. unfold mode_cmp, value_nil_sorter, on_name.
      apply Hq; auto using in_fst_map.
  - inversion H; subst f. split; [now apply value_asc_strict|].
    exists (fun _ => True). cbn. auto.
Qed.

Lemma build_cmp_pure m rv its f : mode_pure m its = Some f -> NoDup (map item_name its) ->
  order_on (with_rev rv f) its /\
  exists P : sstate -> Prop, P s_init /\
    forall st a b, P st -> In a its -> In b its ->
      fst (build_cmp (m, rv) st a b) = with_rev rv f a b /\ P (snd (build_cmp (m, rv) st a b)).
Proof.
  intros H Hnd. destruct (mode_pure_sound m its f H Hnd) as [[_ Ho] [P [Hp0 Hp]]]. split.
  - destruct rv; cbn; [now apply reverse_order_on|exact Ho].
  - exists P. split; [exact Hp0|]. intros st a b Hst Ia Ib.
    destruct (Hp st a b Hst Ia Ib) as [E1 E2].
    unfold build_cmp, with_rev, sreverse, reverse. destruct rv; cbn [fst snd]; [|auto].
    destruct (mode_cmp m st a b) as [r st']. cbn in *. subst r. auto.
Qed.

(* every arrangement of the items sorts to the same sequence, the reference sort by the pure order *)
Theorem mode_sort_deterministic m rv its f :
  mode_pure m its = Some f -> NoDup (map item_name its) ->
  forall arr, Permutation its arr ->
    fst (sisort (build_cmp (m, rv)) s_init arr) = isort (with_rev rv f) its.
Proof.
  intros H Hnd arr Hp.
  destruct (build_cmp_pure m rv its f H Hnd) as [Ho [P [Hp0 Hpure]]].
  destruct (sisort_pure (build_cmp (m, rv)) P (with_rev rv f) its Hpure arr s_init Hp0) as [E _].
  { intros x Hx. eapply Permutation_in; [apply Permutation_sym; exact Hp|exact Hx]. }
  rewrite E. apply isort_perm_invariant; auto. now apply items_NoDup.
Qed.

(* ---------------------------------------------------------------- the calendar *)
Lemma lookup_In (s : sortset) n p : lookup s n = Some p -> In (n, p) s.
Proof.
  induction s as [|[k v] r IH]; cbn; [discriminate|].
  destruct (bytes_eqb k n) eqn:E.
  - apply bytes_eqb_eq in E. subst. intros H. inversion H. now left.
  - intros H. right. now apply IH.
Qed.

(* consequences of calendar_table_ok, entry by entry *)
Lemma calendar_entry names tbl n p : calendar_table_ok names tbl = true -> lookup tbl n = Some p ->
  (0 <= p < Z.of_nat (List.length names))%Z /\ is_prefix n (nth (Z.to_nat p) names []) = true.
Proof.
  unfold calendar_table_ok. intros H Hl. apply andb_true_iff in H as [H _].
  rewrite forallb_forall in H. specialize (H (n, p) (lookup_In _ _ _ Hl)). cbn in H.
  repeat (apply andb_true_iff in H as [H ?]).
  apply Z.leb_le in H. apply Z.ltb_lt in H3. auto.
Qed.

(* the generated tables against the calendar (recomputed whenever the tables change) *)
Lemma sortSets_order : sortSets = [set_weekdays; set_months].
Proof. reflexivity. Qed.
Lemma weekdays_table_ok : calendar_table_ok weekday_names set_weekdays = true.
Proof. vm_compute. reflexivity. Qed.
Lemma months_table_ok : calendar_table_ok month_names set_months = true.
Proof. vm_compute. reflexivity. Qed.
(* table names are lower-case (reachable after strings.ToLower) and the two sets are disjoint *)
Lemma tables_lowercase :
  forallb (fun e : bytes * Z => bytes_eqb (lower (fst e)) (fst e)) (set_weekdays ++ set_months) = true.
Proof. vm_compute. reflexivity. Qed.
Lemma tables_disjoint :
  forallb (fun e : bytes * Z => match lookup set_weekdays (fst e) with None => true | Some _ => false end)
          set_months = true.
Proof. vm_compute. reflexivity. Qed.

Lemma rank_weekday a pa : lookup set_weekdays (lower (kname a)) = Some pa -> ctx_rank a = (0%Z, pa).
Proof.
  intros H. unfold ctx_rank, set_pos. rewrite sortSets_order. cbn [set_pos_from]. now rewrite H.
Qed.
Lemma rank_month a pa : lookup set_months (lower (kname a)) = Some pa -> ctx_rank a = (1%Z, pa).
Proof.
  intros H. unfold ctx_rank, set_pos. rewrite sortSets_order. cbn [set_pos_from].
  pose proof tables_disjoint as D. rewrite forallb_forall in D.
  specialize (D _ (lookup_In _ _ _ H)). cbn [fst] in D.
  destruct (lookup set_weekdays (lower (kname a))); [discriminate|]. now rewrite H.
Qed.
Lemma rank_other a :
  lookup set_weekdays (lower (kname a)) = None -> lookup set_months (lower (kname a)) = None ->
  ctx_rank a = ((-1)%Z, 0%Z).
Proof.
  intros H1 H2. unfold ctx_rank, set_pos. rewrite sortSets_order. cbn [set_pos_from]. now rewrite H1, H2.
Qed.

Lemma ctx_lt_same_set s a b pa pb : ctx_rank a = (s, pa) -> ctx_rank b = (s, pb) ->
  ctx_lt a b = if (pa =? pb)%Z then by_name_smart a b else (pa <? pb)%Z.
Proof.
  intros Ra Rb. unfold ctx_lt, peq, plt. rewrite Ra, Rb. cbn [fst snd].
  rewrite Z.eqb_refl, Z.ltb_irrefl. cbn. destruct (pa =? pb)%Z; reflexivity.
Qed.

(* weekday names and abbreviations, in any letter case: ordered by the day of the week; several
   spellings of one day by the numeric/text fallback *)
Theorem contextual_weekdays a b pa pb :
  lookup set_weekdays (lower (kname a)) = Some pa ->
  lookup set_weekdays (lower (kname b)) = Some pb ->
  ctx_lt a b = (if (pa =? pb)%Z then by_name_smart a b else (pa <? pb)%Z) /\
  (0 <= pa < 7)%Z /\ is_prefix (lower (kname a)) (nth (Z.to_nat pa) weekday_names []) = true.
Proof.
  intros Ha Hb. split.
  - apply (ctx_lt_same_set 0%Z); now apply rank_weekday.
  - exact (calendar_entry _ _ _ _ weekdays_table_ok Ha).
Qed.

(* month names and abbreviations: ordered by the month of the year *)
Theorem contextual_months a b pa pb :
  lookup set_months (lower (kname a)) = Some pa ->
  lookup set_months (lower (kname b)) = Some pb ->
  ctx_lt a b = (if (pa =? pb)%Z then by_name_smart a b else (pa <? pb)%Z) /\
  (0 <= pa < 12)%Z /\ is_prefix (lower (kname a)) (nth (Z.to_nat pa) month_names []) = true.
Proof.
  intros Ha Hb. split.
  - apply (ctx_lt_same_set 1%Z); now apply rank_month.
  - exact (calendar_entry _ _ _ _ months_table_ok Ha).
Qed.

(* keys outside every set first (among themselves: the numeric order), then weekdays, then months *)
Theorem contextual_classes a b :
  (fst (ctx_rank a) < fst (ctx_rank b))%Z -> ctx_lt a b = true /\ ctx_lt b a = false.
Proof.
  intros H. rewrite ctx_lt_lex. apply lex_rank.
  unfold plt. apply orb_true_iff. left. now apply Z.ltb_lt.
Qed.
Theorem contextual_others a b : ctx_rank a = ((-1)%Z, 0%Z) -> ctx_rank b = ((-1)%Z, 0%Z) ->
  ctx_lt a b = by_name_smart a b.
Proof. intros Ra Rb. rewrite (ctx_lt_same_set _ a b 0%Z 0%Z Ra Rb). reflexivity. Qed.

(* ---------------------------------------------------------------- the independent calendar check is implied *)
Lemma calendar_entry_len names tbl n p : calendar_table_ok names tbl = true -> lookup tbl n = Some p ->
  (3 <= List.length n)%nat.
Proof.
  unfold calendar_table_ok. intros H Hl. apply andb_true_iff in H as [H _].
  rewrite forallb_forall in H. specialize (H (n, p) (lookup_In _ _ _ Hl)). cbn in H.
  repeat (apply andb_true_iff in H as [H ?]). now apply Nat.leb_le.
Qed.

Lemma prefix_first3 n x : is_prefix n x = true -> (3 <= List.length n)%nat -> firstn 3 x = firstn 3 n.
Proof.
  destruct n as [|a [|b [|c n']]]; cbn [List.length]; try lia. intros H _.
  destruct x as [|x1 [|x2 [|x3 x']]]; cbn in H; try discriminate;
    repeat (apply andb_true_iff in H as [? H]); try discriminate.
  repeat match goal with E : (_ =? _)%N = true |- _ => apply N.eqb_eq in E end. subst. reflexivity.
Qed.

Lemma cal_idx_from_spec : forall names k n q,
  (q < List.length names)%nat -> (3 <= List.length n)%nat ->
  is_prefix n (nth q names []) = true ->
  (forall i, (i < q)%nat -> is_prefix n (nth i names []) = false) ->
  cal_idx_from k names n = Some (k + q)%nat.
Proof.
  induction names as [|x r IH]; intros k n q Hq Hn Hp Hfirst; cbn in Hq; [lia|].
  cbn [cal_idx_from]. apply Nat.leb_le in Hn as Hn'. rewrite Hn'. cbn [andb].
  destruct q as [|q].
  - cbn in Hp. rewrite Hp. f_equal. lia.
  - pose proof (Hfirst 0%nat ltac:(lia)) as H0. cbn in H0. rewrite H0. cbn in Hp.
    rewrite (IH (S k) n q); [f_equal; lia|lia|assumption|assumption|].
    intros i Hi. apply (Hfirst (S i)). lia.
Qed.

Lemma cal_idx_table names tbl n p :
  calendar_table_ok names tbl = true -> NoDup (map (firstn 3) names) -> lookup tbl n = Some p ->
  cal_idx_from 0 names n = Some (Z.to_nat p) /\ (0 <= p)%Z.
Proof.
  intros Hok Hnd Hl.
  destruct (calendar_entry names tbl n p Hok Hl) as [[Hp0 Hp1] Hpre].
  pose proof (calendar_entry_len names tbl n p Hok Hl) as Hlen.
  split; [|exact Hp0].
  assert (Hq0 : (Z.to_nat p < List.length names)%nat) by lia.
  apply (cal_idx_from_spec names 0 n (Z.to_nat p) Hq0 Hlen Hpre).
  intros i Hi. apply not_true_is_false. intros E.
  assert (Hq : (Z.to_nat p < List.length names)%nat) by lia.
  pose proof (prefix_first3 _ _ E Hlen) as E1. pose proof (prefix_first3 _ _ Hpre Hlen) as E2.
  assert (Ei : i = Z.to_nat p).
  { apply (proj1 (NoDup_nth (map (firstn 3) names) []) Hnd).
    - rewrite map_length. eapply Nat.lt_trans; [exact Hi|exact Hq].
    - rewrite map_length. exact Hq.
    - assert (Mi : forall q, nth q (map (firstn 3) names) [] = firstn 3 (nth q names []))
        by (intros q; exact (map_nth (firstn 3) names [] q)).
      rewrite !Mi. etransitivity; [exact E1|symmetry; exact E2]. }
  lia.
Qed.

Lemma weekday_names_first3 : NoDup (map (firstn 3) weekday_names).
Proof. repeat constructor; cbn; intuition discriminate. Qed.
Lemma month_names_first3 : NoDup (map (firstn 3) month_names).
Proof. repeat constructor; cbn; intuition discriminate. Qed.

Lemma rank_weekday_inv a : fst (ctx_rank a) = 0%Z ->
  lookup set_weekdays (lower (kname a)) = Some (snd (ctx_rank a)).
Proof.
  unfold ctx_rank, set_pos. rewrite sortSets_order. cbn [set_pos_from].
  destruct (lookup set_weekdays (lower (kname a))); cbn [fst snd Z.of_nat Pos.of_succ_nat]; [reflexivity|].
  destruct (lookup set_months (lower (kname a))); cbn [fst snd Z.of_nat Pos.of_succ_nat]; intros H; discriminate H.
Qed.
Lemma rank_month_inv a : fst (ctx_rank a) = 1%Z ->
  lookup set_months (lower (kname a)) = Some (snd (ctx_rank a)).
Proof.
  unfold ctx_rank, set_pos. rewrite sortSets_order. cbn [set_pos_from].
  destruct (lookup set_weekdays (lower (kname a))); cbn [fst snd Z.of_nat Pos.of_succ_nat]; [intros H; discriminate H|].
  destruct (lookup set_months (lower (kname a))); cbn [fst snd Z.of_nat Pos.of_succ_nat]; [reflexivity|intros H; discriminate H].
Qed.

(* the calendar index of a member is its table position *)
Lemma cal_of_spec k s i : cal_of k = Some (s, i) ->
  s = fst (ctx_rank k) /\ i = Z.to_nat (snd (ctx_rank k)) /\ (0 <= snd (ctx_rank k))%Z.
Proof.
  unfold cal_of.
  destruct (Z.eqb_spec (fst (ctx_rank k)) 0) as [E0|_].
  - destruct (cal_idx_table _ _ _ _ weekdays_table_ok weekday_names_first3 (rank_weekday_inv k E0)) as [C Hp].
    rewrite C. intros H. inversion H. auto.
  - destruct (Z.eqb_spec (fst (ctx_rank k)) 1) as [E1|_].
    + destruct (cal_idx_table _ _ _ _ months_table_ok month_names_first3 (rank_month_inv k E1)) as [C Hp].
      rewrite C. intros H. inversion H. auto.
    + cbn. discriminate.
Qed.

Lemma cal_ok_sound m rv its f a b : mode_pure m its = Some f ->
  with_rev rv f a b = true -> cal_ok m rv a b = true.
Proof.
  intros Hm Hg. destruct m; try reflexivity. cbn in Hm. inversion Hm; subst f. clear Hm.
  unfold cal_ok.
  destruct (cal_of (fst a)) as [[s i]|] eqn:Ca; [|reflexivity].
  destruct (cal_of (fst b)) as [[t j]|] eqn:Cb; [|reflexivity].
  apply cal_of_spec in Ca as (Es & Ei & Hpa). apply cal_of_spec in Cb as (Et & Ej & Hpb).
  destruct (Z.eqb_spec s t) as [Est|]; [|reflexivity]. cbn [negb orb].
  destruct (Nat.eqb_spec i j) as [|Hij]; [reflexivity|]. cbn [orb].
  destruct (ctx_rank (fst a)) as [sa pa] eqn:Ra, (ctx_rank (fst b)) as [sb pb] eqn:Rb.
  cbn [fst snd] in *. subst s t sb.
  assert (Hne : pa <> pb) by (intros ->; apply Hij; congruence).
  assert (Hc : ctx_lt (fst a) (fst b) = (pa <? pb)%Z).
  { rewrite (ctx_lt_same_set sa (fst a) (fst b) pa pb Ra Rb).
    destruct (Z.eqb_spec pa pb); [contradiction|reflexivity]. }
  assert (Hlt : (i <? j)%nat = (pa <? pb)%Z).
  { subst i j. destruct (Z.ltb_spec pa pb), (Nat.ltb_spec (Z.to_nat pa) (Z.to_nat pb)); auto; lia. }
  rewrite Hlt. unfold with_rev, reverse, on_name in Hg. destruct rv; cbn.
  - rewrite Hc in Hg. apply negb_true_iff in Hg. now rewrite Hg.
  - rewrite Hc in Hg. now rewrite Hg.
Qed.
