(* C13: the comparators with closure state (ByContextualEx, ByDate).
   - refuted: the full statement (every arrangement sorts to the same sequence) fails on mixed key sets;
   - partial: on key sets inside one sort set / one date layout / with no member at all the closure
     decides like a pure strict total order, whatever it was asked before;
   - the pure order on the sort sets is calendar position (tables from the translator). *)
From Coq Require Import List Permutation Sorted Bool NArith ZArith Lia String.
From RareV Require Import Base.Hex Gen.GenSortSets Model.Sort Proofs.SortGeneric Proofs.SortOrders.
Import ListNotations.

(* ---------------------------------------------------------------- small facts *)
Lemma opt_nat_eqb_eq a b : opt_nat_eqb a b = true -> a = b.
Proof.
  destruct a, b; cbn; try discriminate; auto. intros H. apply Nat.eqb_eq in H. now subst.
Qed.
Lemma opt_Z_eqb_refl a : opt_Z_eqb a a = true.
Proof. destruct a; cbn; auto. apply Z.eqb_refl. Qed.

Lemma nodupb_inj {A B} (eqb : B -> B -> bool) (g : A -> B) :
  (forall v, eqb v v = true) ->
  forall l, nodupb eqb (map g l) = true -> forall a b, In a l -> In b l -> g a = g b -> a = b.
Proof.
  intros Hr. induction l as [|x r IH]; intros Hn a b Ia Ib E; [contradiction|].
  cbn in Hn. apply andb_true_iff in Hn as [Hn1 Hn2]. apply negb_true_iff in Hn1.
  assert (Hx : forall c, In c r -> g x = g c -> False).
  { intros c Ic Ec.
    assert (existsb (eqb (g x)) (map g r) = true); [|congruence].
    apply existsb_exists. exists (g c). split; [now apply in_map|]. rewrite Ec. apply Hr. }
  destruct Ia as [->|Ia], Ib as [->|Ib]; auto.
  - exfalso. eapply Hx; eauto.
  - exfalso. eapply Hx; eauto.
Qed.

Lemma infer_from_spec : forall sets k low i, infer_from k sets low = Some i ->
  (k <= i)%nat /\ exists p, lookup (nth (i - k) sets []) low = Some p.
Proof.
  induction sets as [|s r IH]; intros k low i H; cbn in H; [discriminate|].
  destruct (lookup s low) as [p|] eqn:E.
  - inversion H; subst. split; [lia|]. rewrite Nat.sub_diag. cbn. eauto.
  - apply IH in H as [Hle [p Hp]]. split; [lia|]. exists p.
    replace (i - k)%nat with (S (i - S k)) by lia. exact Hp.
Qed.
Lemma infer_kpos a i : infer (kname a) = Some i -> exists p, kpos i a = Some p.
Proof.
  unfold infer, kpos, set_at. intros H. apply infer_from_spec in H as [_ [p Hp]].
  rewrite Nat.sub_0_r in Hp. eauto.
Qed.

(* ---------------------------------------------------------------- contextual: one sort set *)
Definition cs0 : cst * unit := (c_init, tt).
Definition P_set (i : nat) (st : cst * unit) : Prop := st = cs0 \/ st = (mkc (Some i) false, tt).
Definition P_none (st : cst * unit) : Prop := st = cs0 \/ st = (mkc None true, tt).

Lemma ctx_pure_set i l :
  (forall a, In a l -> infer (kname a) = Some i) ->
  forall st a b, P_set i st -> In a l -> In b l ->
    fst (by_contextual st a b) = pos_lt i a b /\ P_set i (snd (by_contextual st a b)).
Proof.
  intros Hl st a b Hp Ia Ib.
  destruct (infer_kpos a i (Hl a Ia)) as [pa Ea]. destruct (infer_kpos b i (Hl b Ib)) as [pb Eb].
  unfold by_contextual, by_contextual_ex, pos_lt.
  destruct Hp as [-> | ->]; cbn -[kpos infer]; rewrite ?(Hl a Ia); cbn -[kpos infer];
    rewrite Ea, Eb; cbn; split; auto; right; reflexivity.
Qed.

Lemma ctx_pure_none l :
  (forall a, In a l -> infer (kname a) = None) ->
  forall st a b, P_none st -> In a l -> In b l ->
    fst (by_contextual st a b) = by_name_smart a b /\ P_none (snd (by_contextual st a b)).
Proof.
  intros Hl st a b Hp Ia Ib.
  unfold by_contextual, by_contextual_ex, lift.
  destruct Hp as [-> | ->]; cbn -[infer by_name_smart]; rewrite ?(Hl a Ia); cbn -[infer by_name_smart];
    split; auto; right; reflexivity.
Qed.

Lemma ctx_dom_set_spec i l : ctx_dom_set i l = true ->
  (forall a, In a l -> infer (kname a) = Some i) /\
  (forall a b, In a l -> In b l -> kpos i a = kpos i b -> a = b).
Proof.
  unfold ctx_dom_set. intros H. apply andb_true_iff in H as [H1 H2]. split.
  - intros a Ia. rewrite forallb_forall in H1. apply opt_nat_eqb_eq. now apply H1.
  - apply (nodupb_inj opt_Z_eqb (kpos i) opt_Z_eqb_refl l H2).
Qed.
Lemma ctx_dom_none_spec l : ctx_dom_none l = true -> forall a, In a l -> infer (kname a) = None.
Proof.
  unfold ctx_dom_none. intros H a Ia. rewrite forallb_forall in H. apply opt_nat_eqb_eq. now apply H.
Qed.

(* position order is a strict total order on a key set inside one sort set *)
Lemma pos_lt_strict i l : ctx_dom_set i l = true -> strict_order_on (pos_lt i) l.
Proof.
  intros H. destruct (ctx_dom_set_spec i l H) as [Hm Hinj].
  apply strict_order_intro; unfold pos_lt.
  - intros a. destruct (kpos i a); auto. apply Z.ltb_irrefl.
  - intros a b c. destruct (kpos i a), (kpos i b), (kpos i c); try discriminate.
    rewrite !Z.ltb_lt. lia.
  - intros a b Ia Ib Hab.
    destruct (infer_kpos a i (Hm a Ia)) as [pa Ea]. destruct (infer_kpos b i (Hm b Ib)) as [pb Eb].
    assert (pa <> pb) by (intros ->; apply Hab, Hinj; congruence).
    rewrite Ea, Eb, !Z.ltb_lt. lia.
Qed.

(* ---------------------------------------------------------------- date *)
Definition P_layout (i : nat) (st : dst * (cst * unit)) : Prop :=
  st = (d_init, cs0) \/ st = (mkd (Some i) false, cs0).

Lemma date_dom_layout_spec i l : date_dom_layout i l = true ->
  (forall a, In a l -> kfmt a = FmtOk (Some i) /\ exists t, kdate i a = Some t) /\
  (forall a b, In a l -> In b l -> kdate i a = kdate i b -> a = b).
Proof.
  unfold date_dom_layout. intros H. apply andb_true_iff in H as [H1 H2]. split.
  - intros a Ia. rewrite forallb_forall in H1. specialize (H1 a Ia).
    apply andb_true_iff in H1 as [Hf Hd].
    destruct (kfmt a) as [|[j|]]; try discriminate. apply Nat.eqb_eq in Hf. subst j.
    split; [reflexivity|]. destruct (kdate i a); [eauto|discriminate].
  - apply (nodupb_inj opt_Z_eqb (kdate i) opt_Z_eqb_refl l H2).
Qed.

Lemma date_pure_layout i l :
  (forall a, In a l -> kfmt a = FmtOk (Some i) /\ exists t, kdate i a = Some t) ->
  forall st a b, P_layout i st -> In a l -> In b l ->
    fst (by_date_with_contextual st a b) = date_lt i a b /\
    P_layout i (snd (by_date_with_contextual st a b)).
Proof.
  intros Hl st a b Hp Ia Ib.
  destruct (Hl a Ia) as [Fa [ta Ea]]. destruct (Hl b Ib) as [_ [tb Eb]].
  unfold by_date_with_contextual, by_date, date_lt.
  destruct Hp as [-> | ->]; cbn -[kdate]; rewrite ?Fa; cbn -[kdate]; rewrite Ea, Eb; cbn;
    split; auto; right; reflexivity.
Qed.

Lemma date_lt_strict i l : date_dom_layout i l = true -> strict_order_on (date_lt i) l.
Proof.
  intros H. destruct (date_dom_layout_spec i l H) as [Hm Hinj].
  apply strict_order_intro; unfold date_lt.
  - intros a. destruct (kdate i a); auto. apply Z.ltb_irrefl.
  - intros a b c. destruct (kdate i a), (kdate i b), (kdate i c); try discriminate.
    rewrite !Z.ltb_lt. lia.
  - intros a b Ia Ib Hab.
    destruct (Hm a Ia) as [_ [ta Ea]]. destruct (Hm b Ib) as [_ [tb Eb]].
    assert (ta <> tb) by (intros ->; apply Hab, Hinj; congruence).
    rewrite Ea, Eb, !Z.ltb_lt. lia.
Qed.

(* no key has a layout: ByDate hands every comparison to its fallback *)
Definition P_nolayout (Q : cst * unit -> Prop) (st : dst * (cst * unit)) : Prop :=
  (fst st = d_init \/ fst st = mkd None true) /\ Q (snd st).

Lemma date_pure_nolayout (Q : cst * unit -> Prop) (f : key -> key -> bool) l :
  (forall a, In a l -> kfmt a = FmtErr) ->
  (forall st a b, Q st -> In a l -> In b l ->
     fst (by_contextual st a b) = f a b /\ Q (snd (by_contextual st a b))) ->
  forall st a b, P_nolayout Q st -> In a l -> In b l ->
    fst (by_date_with_contextual st a b) = f a b /\
    P_nolayout Q (snd (by_date_with_contextual st a b)).
Proof.
  intros Hl Hin [d s] a b [Hd Hq] Ia Ib. cbn [fst snd] in Hd, Hq.
  destruct (Hin s a b Hq Ia Ib) as [E1 E2].
  unfold by_date_with_contextual, by_date.
  destruct Hd as [-> | ->]; cbn -[by_contextual]; rewrite ?(Hl a Ia); cbn -[by_contextual];
    destruct (by_contextual s a b) as [r s']; cbn in *; (split; [assumption|]);
    (split; [right; reflexivity|assumption]).
Qed.

Lemma date_dom_none_spec l : date_dom_none l = true -> forall a, In a l -> kfmt a = FmtErr.
Proof.
  unfold date_dom_none. intros H a Ia. rewrite forallb_forall in H. specialize (H a Ia).
  destruct (kfmt a); [reflexivity|discriminate].
Qed.

(* ---------------------------------------------------------------- packaged: ctx_pure / date_pure *)
(* whenever ctx_pure says the key set is in a state-free domain, the closure decides like that
   pure comparator from its initial state on, in every order of questions, and the pure
   comparator is a strict total order on the key set *)
Lemma ctx_pure_sound l f : ctx_pure l = Some f -> NoDup (map kname l) ->
  strict_order_on f l /\
  exists P : cst * unit -> Prop, P cs0 /\
    forall st a b, P st -> In a l -> In b l ->
      fst (by_contextual st a b) = f a b /\ P (snd (by_contextual st a b)).
Proof.
  unfold ctx_pure. destruct l as [|k l'] eqn:El.
  { intros H _. inversion H; subst. split.
    - apply by_name_smart_strict. constructor.
    - exists (fun _ => True). split; auto. intros ? ? ? _ []. }
  rewrite <- El. intros H Hnd.
  destruct (infer (kname k)) as [i|].
  - destruct (ctx_dom_set i l) eqn:D; [|discriminate]. inversion H; subst f. split.
    + now apply pos_lt_strict.
    + exists (P_set i). split; [now left|].
      apply ctx_pure_set. apply (ctx_dom_set_spec i l D).
  - destruct (ctx_dom_none l) eqn:D; [|discriminate]. inversion H; subst f. split.
    + now apply by_name_smart_strict.
    + exists P_none. split; [now left|].
      apply ctx_pure_none. now apply ctx_dom_none_spec.
Qed.

Lemma date_pure_sound l f : date_pure l = Some f -> NoDup (map kname l) ->
  strict_order_on f l /\
  exists P : dst * (cst * unit) -> Prop, P (d_init, cs0) /\
    forall st a b, P st -> In a l -> In b l ->
      fst (by_date_with_contextual st a b) = f a b /\ P (snd (by_date_with_contextual st a b)).
Proof.
  unfold date_pure. destruct l as [|k l'] eqn:El.
  { intros H _. inversion H; subst. split.
    - apply by_name_smart_strict. constructor.
    - exists (fun _ => True). split; auto. intros ? ? ? _ []. }
  rewrite <- El. intros H Hnd.
  destruct (kfmt k) as [|[i|]]; [| |discriminate].
  - destruct (date_dom_none l) eqn:D; [|discriminate].
    destruct (ctx_pure_sound l f H Hnd) as [Hs [Q [Hq0 Hq]]]. split; [exact Hs|].
    exists (P_nolayout Q). split; [split; [now left|exact Hq0]|].
    apply date_pure_nolayout; auto. now apply date_dom_none_spec.
  - destruct (date_dom_layout i l) eqn:D; [|discriminate]. inversion H; subst f. split.
    + now apply date_lt_strict.
    + exists (P_layout i). split; [now left|].
      apply date_pure_layout. apply (date_dom_layout_spec i l D).
Qed.

(* ---------------------------------------------------------------- sorters on items (lookupSorter / BuildSorter) *)
Lemma in_fst_map (its : list item) a : In a its -> In (fst a) (map fst its).
Proof. apply in_map. Qed.

Lemma on_name_strict_from (f : key -> key -> bool) (its : list item) :
  NoDup (map item_name its) -> strict_order_on f (map fst its) -> strict_order_on (on_name f) its.
Proof.
  intros Hnd (Hi & Ha & Ht & Ho).
  assert (Hne : forall a b, In a its -> In b its -> a <> b -> fst a <> fst b).
  { intros a b Ia Ib Hab E. apply Hab. apply (NoDup_map_inj item_name its Hnd a b Ia Ib).
    unfold item_name. now rewrite E. }
  split; [|repeat split]; unfold on_name, lt in *.
  - intros a Ia. apply Hi. now apply in_fst_map.
  - intros a b Ia Ib Hab. apply Ha; auto using in_fst_map.
  - intros a b c Ia Ib Ic Hab Hbc Hac. apply Ht; auto using in_fst_map.
  - intros a b Ia Ib Hab. apply Ho; auto using in_fst_map.
Qed.

Lemma map_fst_names (its : list item) : map kname (map fst its) = map item_name its.
Proof. rewrite map_map. reflexivity. Qed.

(* The central fact about a sort mode on a key set in a state-free domain: a strict total order
   that the sorter follows from its initial state on, in every order of questions. *)
Lemma mode_pure_sound m its f : mode_pure m its = Some f -> NoDup (map item_name its) ->
  strict_order_on f its /\
  exists P : sstate -> Prop, P s_init /\
    forall st a b, P st -> In a its -> In b its ->
      fst (mode_cmp m st a b) = f a b /\ P (snd (mode_cmp m st a b)).
Proof.
  intros H Hnd. destruct m; cbn in H.
  - inversion H; subst f. split; [now apply text_items_strict|].
    exists (fun _ => True). cbn. auto.
  - inversion H; subst f. split; [now apply numeric_items_strict|].
    exists (fun _ => True). cbn. auto.
  - destruct (ctx_pure (map fst its)) as [g|] eqn:E; [|discriminate]. inversion H; subst f.
    destruct (ctx_pure_sound _ g E) as [Hs [Q [Hq0 Hq]]]; [now rewrite map_fst_names|]. split.
    + now apply on_name_strict_from.
    + exists (fun st => Q (snd st)). split; [exact Hq0|].
      intros [d c] a b Hp Ia Ib. cbn [snd] in Hp.
      destruct (Hq c (fst a) (fst b) Hp (in_fst_map _ _ Ia) (in_fst_map _ _ Ib)) as [E1 E2].
      cbn. destruct (by_contextual c (fst a) (fst b)) as [r c']. cbn in *. auto.
  - destruct (date_pure (map fst its)) as [g|] eqn:E; [|discriminate]. inversion H; subst f.
    destruct (date_pure_sound _ g E) as [Hs [Q [Hq0 Hq]]]; [now rewrite map_fst_names|]. split.
    + now apply on_name_strict_from.
    + exists Q. split; [exact Hq0|].
      intros st a b Hp Ia Ib. unfold mode_cmp, value_nil_sorter, on_name.
      apply Hq; auto using in_fst_map.
  - inversion H; subst f. split; [now apply value_asc_strict|].
    exists (fun _ => True). cbn. auto.
Qed.

Lemma build_cmp_pure m rv its f : mode_pure m its = Some f -> NoDup (map item_name its) ->
  order_on (with_rev rv f) its /\
  exists P : sstate -> Prop, P s_init /\
    forall st a b, P st -> In a its -> In b its ->
      fst (build_cmp (m, rv) st a b) = with_rev rv f a b /\ P (snd (build_cmp (m, rv) st a b)).
Proof.
  intros H Hnd. destruct (mode_pure_sound m its f H Hnd) as [[_ Ho] [P [Hp0 Hp]]]. split.
  - destruct rv; cbn; [now apply reverse_order_on|exact Ho].
  - exists P. split; [exact Hp0|]. intros st a b Hst Ia Ib.
    destruct (Hp st a b Hst Ia Ib) as [E1 E2].
    unfold build_cmp, with_rev, sreverse, reverse. destruct rv; cbn [fst snd]; [|auto].
    destruct (mode_cmp m st a b) as [r st']. cbn in *. subst r. auto.
Qed.

(* every arrangement of the items sorts to the same sequence, the reference sort by the pure order *)
Theorem mode_sort_deterministic m rv its f :
  mode_pure m its = Some f -> NoDup (map item_name its) ->
  forall arr, Permutation its arr ->
    fst (sisort (build_cmp (m, rv)) s_init arr) = isort (with_rev rv f) its.
Proof.
  intros H Hnd arr Hp.
  destruct (build_cmp_pure m rv its f H Hnd) as [Ho [P [Hp0 Hpure]]].
  destruct (sisort_pure (build_cmp (m, rv)) P (with_rev rv f) its Hpure arr s_init Hp0) as [E _].
  { intros x Hx. eapply Permutation_in; [apply Permutation_sym; exact Hp|exact Hx]. }
  rewrite E. apply isort_perm_invariant; auto. now apply items_NoDup.
Qed.

(* ---------------------------------------------------------------- refutations (finding #19b) *)
Local Open Scope string_scope.
Definition kb := mkkey (of_str "b") None FmtErr [].
Definition kwed := mkkey (of_str "wed") None FmtErr [].
Definition kthu := mkkey (of_str "thu") None FmtErr [].

Lemma contextual_refuted :
  exists l l', NoDup (map kname l) /\ Permutation l l' /\
    fst (sisort by_contextual cs0 l) <> fst (sisort by_contextual cs0 l').
Proof.
  exists [kb; kwed; kthu], [kwed; kb; kthu]. split; [|split].
  - repeat constructor; cbn; intuition discriminate.
  - apply perm_swap.
  - vm_compute. discriminate.
Qed.

(* the same question is answered differently depending on what was asked before *)
Lemma contextual_history_dependent :
  exists a b hist,
    fst (by_contextual cs0 a b) <> fst (by_contextual (snd (srun by_contextual cs0 hist)) a b).
Proof. exists kwed, kthu, [(kb, kwed)]. vm_compute. discriminate. Qed.

(* dates: 01/02/2022 and 12/31/2021 in layout 01/02/2006, with a key that is not a date *)
Definition kna := mkkey (of_str "n/a") None FmtErr [None].
Definition kd1 := mkkey (of_str "01/02/2022") None (FmtOk (Some 0%nat)) [Some 1641081600000000000%Z].
Definition kd2 := mkkey (of_str "12/31/2021") None (FmtOk (Some 0%nat)) [Some 1640908800000000000%Z].
Lemma date_refuted :
  exists l l', NoDup (map kname l) /\ Permutation l l' /\
    fst (sisort by_date_with_contextual (d_init, cs0) l) <>
    fst (sisort by_date_with_contextual (d_init, cs0) l').
Proof.
  exists [kna; kd1; kd2], [kd1; kna; kd2]. split; [|split].
  - repeat constructor; cbn; intuition discriminate.
  - apply perm_swap.
  - vm_compute. discriminate.
Qed.

(* two spellings of one position: neither is less (recorded as C13-contextual-ties) *)
Definition kmon := mkkey (of_str "mon") None FmtErr [].
Definition kMonday := mkkey (of_str "Monday") None FmtErr [].
Lemma contextual_tie :
  fst (by_contextual cs0 kmon kMonday) = false /\ fst (by_contextual cs0 kMonday kmon) = false.
Proof. vm_compute. auto. Qed.

(* ---------------------------------------------------------------- the calendar *)
Lemma lookup_In (s : sortset) n p : lookup s n = Some p -> In (n, p) s.
Proof.
  induction s as [|[k v] r IH]; cbn; [discriminate|].
  destruct (bytes_eqb k n) eqn:E.
  - apply bytes_eqb_eq in E. subst. intros H. inversion H. now left.
  - intros H. right. now apply IH.
Qed.

(* consequences of calendar_table_ok, entry by entry *)
Lemma calendar_entry names tbl n p : calendar_table_ok names tbl = true -> lookup tbl n = Some p ->
  (0 <= p < Z.of_nat (List.length names))%Z /\ is_prefix n (nth (Z.to_nat p) names []) = true.
Proof.
  unfold calendar_table_ok. intros H Hl. apply andb_true_iff in H as [H _].
  rewrite forallb_forall in H. specialize (H (n, p) (lookup_In _ _ _ Hl)). cbn in H.
  repeat (apply andb_true_iff in H as [H ?]).
  apply Z.leb_le in H. apply Z.ltb_lt in H3. auto.
Qed.

(* the generated tables against the calendar (recomputed whenever the tables change) *)
Lemma sortSets_order : sortSets = [set_weekdays; set_months].
Proof. reflexivity. Qed.
Lemma weekdays_table_ok : calendar_table_ok weekday_names set_weekdays = true.
Proof. vm_compute. reflexivity. Qed.
Lemma months_table_ok : calendar_table_ok month_names set_months = true.
Proof. vm_compute. reflexivity. Qed.
(* table names are lower-case (reachable after strings.ToLower) and the two sets are disjoint *)
Lemma tables_lowercase :
  forallb (fun e : bytes * Z => bytes_eqb (lower (fst e)) (fst e)) (set_weekdays ++ set_months) = true.
Proof. vm_compute. reflexivity. Qed.
Lemma tables_disjoint :
  forallb (fun e : bytes * Z => match lookup set_weekdays (fst e) with None => true | Some _ => false end)
          set_months = true.
Proof. vm_compute. reflexivity. Qed.

Lemma ctx_fresh_in_set i a b pa pb :
  infer (kname a) = Some i -> kpos i a = Some pa -> kpos i b = Some pb ->
  fst (by_contextual cs0 a b) = (pa <? pb)%Z.
Proof.
  intros Hi Ha Hb. unfold by_contextual, by_contextual_ex, cs0, c_init.
  cbn -[kpos infer]. rewrite Hi. cbn -[kpos infer]. rewrite Ha, Hb. reflexivity.
Qed.

(* weekday names and abbreviations, in any letter case: ordered by the day of the week *)
Theorem contextual_weekdays a b pa pb :
  lookup set_weekdays (lower (kname a)) = Some pa ->
  lookup set_weekdays (lower (kname b)) = Some pb ->
  fst (by_contextual cs0 a b) = (pa <? pb)%Z /\
  (0 <= pa < 7)%Z /\ is_prefix (lower (kname a)) (nth (Z.to_nat pa) weekday_names []) = true.
Proof.
  intros Ha Hb. split.
  - apply (ctx_fresh_in_set 0); unfold infer, kpos, set_at; rewrite sortSets_order; cbn [nth infer_from]; auto.
    now rewrite Ha.
  - exact (calendar_entry _ _ _ _ weekdays_table_ok Ha).
Qed.

(* month names and abbreviations: ordered by the month of the year *)
Theorem contextual_months a b pa pb :
  lookup set_months (lower (kname a)) = Some pa ->
  lookup set_months (lower (kname b)) = Some pb ->
  fst (by_contextual cs0 a b) = (pa <? pb)%Z /\
  (0 <= pa < 12)%Z /\ is_prefix (lower (kname a)) (nth (Z.to_nat pa) month_names []) = true.
Proof.
  intros Ha Hb. split.
  - apply (ctx_fresh_in_set 1); unfold infer, kpos, set_at; rewrite sortSets_order; cbn [nth infer_from]; auto.
    pose proof tables_disjoint as D. rewrite forallb_forall in D.
    specialize (D _ (lookup_In _ _ _ Ha)). cbn [fst] in D.
    destruct (lookup set_weekdays (lower (kname a))); [discriminate|]. now rewrite Ha.
  - exact (calendar_entry _ _ _ _ months_table_ok Ha).
Qed.
