(* C07 — the splitter for an arbitrary delimiter: Next() cuts at the first occurrence of the whole
   delimiter; for a one-byte delimiter it is the byte cut used by the counters. *)
From Coq Require Import List NArith ZArith Bool Lia.
From RareV Require Import Base.Hex Base.Num Model.Agg.
Import ListNotations.

Lemma is_pre_spec d : forall s r, is_pre d s = Some r <-> s = d ++ r.
Proof.
  induction d as [|x d IH]; intros s r; cbn [is_pre app].
  - split; [intros [= ->]; reflexivity | intros ->; reflexivity].
  - destruct s as [|y s]; [split; discriminate|].
    destruct (N.eqb x y) eqn:E.
    + apply N.eqb_eq in E. subst y. rewrite IH. split; [intros ->; reflexivity | intros [= ->]; reflexivity].
    + split; [discriminate|]. intros [= -> _]. rewrite N.eqb_refl in E. discriminate.
Qed.

Lemma is_pre_nil_none d : d <> [] -> is_pre d [] = None.
Proof. destruct d; [congruence | reflexivity]. Qed.

(* one-byte delimiter: the byte cut *)
Theorem cutd_one : forall b s, cutd [b] s = cut b s.
Proof.
  intros b s. induction s as [|x r IH]; [reflexivity|].
  cbn [cutd cut is_pre]. rewrite (N.eqb_sym b x). destruct (N.eqb x b); [reflexivity|].
  rewrite IH. reflexivity.
Qed.

(* soundness: a cut is at an occurrence of the whole delimiter, and no occurrence starts earlier *)
Theorem cutd_some : forall d s p r, d <> [] -> cutd d s = (p, Some r) ->
  s = p ++ d ++ r /\ forall i, (i < length p)%nat -> is_pre d (skipn i s) = None.
Proof.
  intros d s. induction s as [|b s IH]; intros p r Hd H.
  - cbn [cutd] in H. destruct d; [congruence | discriminate].
  - cbn [cutd] in H. destruct (is_pre d (b :: s)) as [rest|] eqn:E.
    + inversion H; subst. apply is_pre_spec in E. split; [exact E | intros i Hi; cbn in Hi; lia].
    + destruct (cutd d s) as [p' q] eqn:C. inversion H; subst.
      destruct (IH p' r Hd eq_refl) as [E1 E2]. split; [cbn [app]; f_equal; exact E1|].
      intros [|j] Hj; [exact E | cbn [skipn]; apply E2; cbn in Hj; lia].
Qed.
Theorem cutd_none : forall d s p, d <> [] -> cutd d s = (p, None) ->
  p = s /\ forall i, is_pre d (skipn i s) = None.
Proof.
  intros d s. induction s as [|b s IH]; intros p Hd H.
  - cbn [cutd] in H. destruct d as [|x d]; [congruence|]. inversion H. split; [reflexivity|].
    intros i. rewrite skipn_nil. reflexivity.
  - cbn [cutd] in H. destruct (is_pre d (b :: s)) as [rest|] eqn:E; [discriminate|].
    destruct (cutd d s) as [p' q] eqn:C. inversion H; subst.
    destruct (IH p' Hd eq_refl) as [E1 E2]. split; [f_equal; exact E1|].
    intros [|j]; [exact E | cbn [skipn]; apply E2].
Qed.
(* completeness: the first occurrence is where the cut is *)
Theorem cutd_complete : forall d x r, d <> [] ->
  (forall i, (i < length x)%nat -> is_pre d (skipn i (x ++ d ++ r)) = None) ->
  cutd d (x ++ d ++ r) = (x, Some r).
Proof.
  intros d x r Hd. induction x as [|b x IH]; intros H.
  - cbn [app]. destruct d as [|y d]; [congruence|]. cbn [app cutd].
    assert (E : is_pre (y :: d) (y :: d ++ r) = Some r) by (apply is_pre_spec; reflexivity).
    rewrite E. reflexivity.
  - pose proof (H O ltac:(cbn; lia)) as H0. cbn [skipn app] in H0.
    cbn [app cutd]. rewrite H0. rewrite IH; [reflexivity|].
    intros i Hi. apply (H (S i)). cbn. lia.
Qed.

(* the table's fields: with a, b free of (first-occurrence) delimiters, "a d b d v" parses to column a,
   row b and increment atoi v (v up to the next delimiter); "a d b" to (a, b, 1); "a" to (a, "", 1) *)
Definition dfree (d x : bytes) (rest : bytes) : Prop :=
  forall i, (i < length x)%nat -> is_pre d (skipn i (x ++ d ++ rest)) = None.
Theorem parse3_three : forall d a b v, d <> [] ->
  dfree d a (b ++ d ++ v) -> dfree d b v -> (forall i, is_pre d (skipn i v) = None) ->
  parse3 d (a ++ d ++ b ++ d ++ v) = match atoi v with Some z => Some (a, b, z) | None => None end.
Proof.
  intros d a b v Hd Ha Hb Hv. unfold parse3. rewrite (cutd_complete d a (b ++ d ++ v) Hd Ha).
  cbn [spd_next]. rewrite (cutd_complete d b v Hd Hb).
  destruct (cutd d v) as [p q] eqn:C. destruct q as [r|].
  - destruct (cutd_some d v p r Hd C) as [E _]. specialize (Hv (length p)).
    rewrite E, skipn_app, skipn_all, Nat.sub_diag in Hv. cbn [skipn app] in Hv.
    assert (X : is_pre d (d ++ r) = Some r) by (apply is_pre_spec; reflexivity). congruence.
  - destruct (cutd_none d v p Hd C) as [-> _]. reflexivity.
Qed.
Theorem parse3_two : forall d a b, d <> [] ->
  dfree d a b -> (forall i, is_pre d (skipn i b) = None) ->
  parse3 d (a ++ d ++ b) = Some (a, b, 1%Z).
Proof.
  intros d a b Hd Ha Hb. unfold parse3. rewrite (cutd_complete d a b Hd Ha). cbn [spd_next].
  destruct (cutd d b) as [p q] eqn:C. destruct q as [r|].
  - destruct (cutd_some d b p r Hd C) as [E _]. specialize (Hb (length p)).
    rewrite E, skipn_app, skipn_all, Nat.sub_diag in Hb. cbn [skipn app] in Hb.
    assert (X : is_pre d (d ++ r) = Some r) by (apply is_pre_spec; reflexivity). congruence.
  - destruct (cutd_none d b p Hd C) as [-> _]. reflexivity.
Qed.
Theorem parse3_one : forall d a, d <> [] -> (forall i, is_pre d (skipn i a) = None) ->
  parse3 d a = Some (a, [], 1%Z).
Proof.
  intros d a Hd Ha. unfold parse3. destruct (cutd d a) as [p q] eqn:C. destruct q as [r|].
  - destruct (cutd_some d a p r Hd C) as [E _]. specialize (Ha (length p)).
    rewrite E, skipn_app, skipn_all, Nat.sub_diag in Ha. cbn [skipn app] in Ha.
    assert (X : is_pre d (d ++ r) = Some r) by (apply is_pre_spec; reflexivity). congruence.
  - destruct (cutd_none d a p Hd C) as [-> _]. reflexivity.
Qed.
