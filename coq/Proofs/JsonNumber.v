(* C16: a text that isNumeric accepts is a number of the RFC 8259 grammar (read back literally by
   the reader) and has a decimal value. *)
From Coq Require Import List NArith ZArith Bool Lia.
From RareV Require Import Base.Hex Base.Num Model.Json.
Import ListNotations.
Local Open Scope N_scope.


Lemma span_digits_app d c tl :
  forallb is_digit d = true -> is_digit c = false -> span_digits (d ++ c :: tl) = (d, c :: tl).
Proof.
  intros H C. induction d as [|b d IH]; cbn [app span_digits].
  - rewrite C. reflexivity.
  - cbn [forallb] in H. apply andb_true_iff in H as [H1 H2]. rewrite H1, (IH H2). reflexivity.
Qed.

Lemma span_digits_all d : forallb is_digit d = true -> span_digits d = (d, []).
Proof.
  intros H. induction d as [|b d IH]; [reflexivity|]. cbn [span_digits].
  cbn [forallb] in H. apply andb_true_iff in H as [H1 H2]. rewrite H1, (IH H2). reflexivity.
Qed.

Definition frac_ok (f : bytes) : Prop :=
  f = [] \/ exists g, f = 46 :: g /\ g <> [] /\ forallb is_digit g = true.

Lemma digit_not_dot b : is_digit b = true -> b =? 46 = false.
Proof.
  unfold is_digit. intros H. apply andb_true_iff in H as [H _]. apply N.leb_le in H.
  apply N.eqb_neq. lia.
Qed.

Lemma num_scan_false s : num_scan false s = true ->
  exists d f, s = d ++ f /\ forallb is_digit d = true /\ frac_ok f.
Proof.
  induction s as [|b r IH]; intros H.
  - exists [], []. repeat split. now left.
  - cbn [num_scan] in H. destruct (b =? 46) eqn:E.
    + apply N.eqb_eq in E. subst b. exists [], (46 :: r). repeat split. right.
      exists r. destruct r; [discriminate|]. repeat split; [discriminate|exact H].
    + destruct (is_digit b) eqn:D; [|discriminate].
      destruct (IH H) as (d & f & -> & Hd & Hf). exists (b :: d), f. repeat split; auto.
      cbn [forallb]. rewrite D, Hd. reflexivity.
Qed.

Lemma num_scan_true s : num_scan true s = true ->
  exists b r, s = b :: r /\ is_digit b = true /\ num_scan false r = true.
Proof.
  destruct s as [|b r]; cbn [num_scan]; [discriminate|].
  destruct (b =? 46); [discriminate|]. destruct (is_digit b) eqn:D; [|discriminate].
  intros H. exists b, r. auto.
Qed.

(* shape of an accepted text: one digit, more digits, optional fraction; a leading 0 stands alone *)
Lemma is_numeric_shape s : is_numeric s = true ->
  exists b d f, s = b :: d ++ f /\ is_digit b = true /\ forallb is_digit d = true /\ frac_ok f /\
                (b = 48 -> d = []).
Proof.
  unfold is_numeric. intros H. apply andb_true_iff in H as [Z H].
  destruct (num_scan_true _ H) as (b & r & -> & Db & Hr).
  destruct (num_scan_false _ Hr) as (d & f & -> & Hd & Hf).
  exists b, d, f. repeat split; auto.
  intros ->. destruct d as [|x d]; [reflexivity|]. exfalso.
  cbn [leading_zero app] in Z. cbn [forallb] in Hd. apply andb_true_iff in Hd as [Dx _].
  rewrite (digit_not_dot _ Dx) in Z. discriminate.
Qed.

Lemma follow_parts c : num_follow c = true ->
  is_digit c = false /\ c =? 46 = false /\ (c =? 101) || (c =? 69) = false.
Proof.
  unfold num_follow. intros H. repeat (apply andb_true_iff in H as [H ?]).
  repeat match goal with X : negb _ = true |- _ => apply negb_true_iff in X end.
  repeat split; auto. rewrite H0, H1. reflexivity.
Qed.

Lemma read_frac_ok f c tl : frac_ok f -> num_follow c = true -> read_frac (f ++ c :: tl) = Some (f, c :: tl).
Proof.
  intros [->|(g & -> & Hne & Hg)] Hc; destruct (follow_parts _ Hc) as (C1 & C2 & C3).
  - cbn [app read_frac]. rewrite C2. reflexivity.
  - cbn [app read_frac]. change (46 =? 46) with true. cbv iota.
    rewrite (span_digits_app g c tl Hg C1). destruct g; [congruence|reflexivity].
Qed.

Lemma read_exp_none c tl : num_follow c = true -> read_exp (c :: tl) = Some ([], c :: tl).
Proof.
  intros Hc. destruct (follow_parts _ Hc) as (C1 & C2 & C3). cbn [read_exp]. rewrite C3. reflexivity.
Qed.

Lemma digit_not_minus b : is_digit b = true -> b =? 45 = false.
Proof.
  unfold is_digit. intros H. apply andb_true_iff in H as [H _]. apply N.leb_le in H.
  apply N.eqb_neq. lia.
Qed.

(* the writer's bare numerals are RFC 8259 numbers: the reader takes exactly the text and stops *)
Theorem read_number_numeric s c tl :
  is_numeric s = true -> num_follow c = true -> read_number (s ++ c :: tl) = Some (s, c :: tl).
Proof.
  intros H Hc. destruct (is_numeric_shape _ H) as (b & d & f & -> & Db & Hd & Hf & Hz).
  destruct (follow_parts _ Hc) as (C1 & C2 & C3).
  unfold read_number. cbn [app]. rewrite (digit_not_minus _ Db).
  assert (RI : read_int (b :: (d ++ f) ++ c :: tl) = Some (b :: d, f ++ c :: tl)).
  { unfold read_int. destruct (b =? 48) eqn:E.
    - apply N.eqb_eq in E. rewrite (Hz E). cbn [app]. subst b. reflexivity.
    - rewrite Db. rewrite <- app_assoc.
      destruct Hf as [->|(g & -> & _ & _)].
      + cbn [app]. rewrite (span_digits_app d c tl Hd C1). reflexivity.
      + cbn [app]. rewrite (span_digits_app d 46 _ Hd); reflexivity. }
  rewrite RI. rewrite (read_frac_ok f c tl Hf Hc). rewrite (read_exp_none c tl Hc).
  cbn [app]. rewrite app_nil_r. reflexivity.
Qed.

Lemma follow_comma : num_follow 44 = true. Proof. reflexivity. Qed.
Lemma follow_brace : num_follow 125 = true. Proof. reflexivity. Qed.

(* ... and alone they are a complete number *)
Lemma numeric_first_digit s : is_numeric s = true -> exists b r, s = b :: r /\ is_digit b = true.
Proof.
  intros H. destruct (is_numeric_shape _ H) as (b & d & f & -> & Db & _). eauto.
Qed.

(* every accepted text has a decimal value *)
Theorem dec_val_numeric s : is_numeric s = true -> exists v, dec_val s = Some v.
Proof.
  intros H. destruct (is_numeric_shape _ H) as (b & d & f & -> & Db & Hd & Hf & Hz).
  unfold dec_val. rewrite (digit_not_minus _ Db).
  assert (P : b =? 43 = false).
  { unfold is_digit in Db. apply andb_true_iff in Db as [Db _]. apply N.leb_le in Db. apply N.eqb_neq. lia. }
  rewrite P.
  assert (Hbd : forallb is_digit (b :: d) = true) by (cbn [forallb]; rewrite Db, Hd; reflexivity).
  destruct Hf as [->|(g & -> & Hne & Hg)].
  - rewrite app_nil_r. rewrite (span_digits_all _ Hbd). cbn [app]. rewrite app_nil_r. eexists. reflexivity.
  - change (b :: d ++ 46 :: g) with ((b :: d) ++ 46 :: g).
    rewrite (span_digits_app (b :: d) 46 g Hbd eq_refl).
    change (46 =? 46) with true. cbv iota. rewrite (span_digits_all _ Hg). cbn [app]. eexists. reflexivity.
Qed.
