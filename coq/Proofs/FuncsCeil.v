(* C11: ceil / floor on the exact value of the float64 argument; bytesize never prints a negative size. *)
From Coq Require Import List NArith ZArith Lia Bool.
From RareV Require Import Base.Hex Base.Res Base.Num Gen.GenC11 Model.Humanize Model.CsvItem Model.Funcs Proofs.NumProof Proofs.FuncsArith.
Import ListNotations.
Local Open Scope Z_scope.

(* FFin m e denotes m * 2^e.  For e >= 0 it is the integer m * 2^e; for e < 0, with d = 2^(-e):
   floor r satisfies r*d <= m < (r+1)*d and ceil r satisfies (r-1)*d < m <= r*d *)
Theorem ffloor_spec_proof : forall m e,
  (0 <= e -> ffloor m e = m * 2 ^ e /\ fceil m e = m * 2 ^ e) /\
  (e < 0 -> let d := 2 ^ (- e) in
            ffloor m e * d <= m < (ffloor m e + 1) * d /\
            (fceil m e - 1) * d < m <= fceil m e * d).
Proof.
  intros m e. unfold ffloor, fceil. split.
  - intros H. apply Z.leb_le in H. rewrite H. auto.
  - intros H. assert (E : (0 <=? e) = false) by (apply Z.leb_gt; exact H). rewrite E. cbn zeta.
    assert (Hd : 0 < 2 ^ (- e)) by (apply Z.pow_pos_nonneg; lia).
    set (d := 2 ^ (- e)) in *.
    pose proof (Z.div_mod m d ltac:(lia)). pose proof (Z.mod_pos_bound m d Hd).
    pose proof (Z.div_mod (- m) d ltac:(lia)). pose proof (Z.mod_pos_bound (- m) d Hd).
    split; nia.
Qed.

Theorem ceilfloor_law_proof : forall up a,
  (a_f a = None -> f_ceilfloor up [a] = Ok ErrorNum) /\
  (forall m e, a_f a = Some (FFin m e) ->
     let r := if up then fceil m e else ffloor m e in
     f_ceilfloor up [a] = Ok (if in_int64 r then itoa r else ErrorValue)) /\
  (forall v, a_f a = Some v -> (v = FNaN \/ v = FNegInf \/ v = FPosInf) -> f_ceilfloor up [a] = Ok ErrorValue).
Proof.
  intros up a. unfold f_ceilfloor. repeat split.
  - intros ->. reflexivity.
  - intros m e ->. cbn [f_to_int]. destruct (in_int64 _); reflexivity.
  - intros v -> [->|[->| ->]]; reflexivity.
Qed.

(* the behaviour as found (int64 conversion of an out-of-range float) printed a wrong number:
   for 2^100 the text of MinInt64, which is a number and is not 2^100 *)
Theorem ceil_asfound_refuted_proof :
  fceil 1 100 = 2 ^ 100 /\ in_int64 (fceil 1 100) = false /\
  atoi (itoa min_int64) = Some min_int64 /\ min_int64 <> fceil 1 100.
Proof. vm_compute. repeat split; discriminate. Qed.

(* bytesize / bytesizesi (after repair C11-bytesize-uint64-wrap): for every uint64 text the size is
   never negative, provided the mantissa text Go prints for a non-negative float is not negative *)
Lemma itoa_nonneg_head z : 0 <= z -> is_prefix [45%N] (itoa z) = false.
Proof.
  intros H. destruct z as [|p|p]; [reflexivity| |lia]. cbn [itoa].
  destruct (utoa_cons (N.pos p)) as (d & r & E & Hd). rewrite E. cbn [is_prefix].
  destruct (45 =? d)%N eqn:E45; [|reflexivity]. apply N.eqb_eq in E45. subst. discriminate.
Qed.

Lemma is_prefix_app_nonempty (x : N) a b : a <> [] -> is_prefix [x] (a ++ b) = is_prefix [x] a.
Proof. destruct a; [congruence|reflexivity]. Qed.

Theorem bytesize_nonneg_proof : forall u step delim units mant,
  is_prefix [45%N] mant = false -> mant <> [] ->
  is_prefix [45%N] (unitize (Z.of_N u) step delim units mant) = false.
Proof.
  intros u step delim units mant Hm Hne. unfold unitize.
  destruct ((- step <? Z.of_N u) && (Z.of_N u <? step)).
  - rewrite is_prefix_app_nonempty by apply itoa_nonempty. apply itoa_nonneg_head. lia.
  - rewrite is_prefix_app_nonempty by exact Hne. exact Hm.
Qed.

(* precision arguments (after repair C11-precision-unbounded): a constant precision beyond
   maxPrecision gives <VALUE> before anything is formatted *)
Theorem precision_law_proof : forall a p pv orc, static_int p = Some pv -> maxPrecision < pv ->
  f_round [a; p] orc = Ok ErrorValue /\
  (forall un step delim units, f_unitize un step delim units [a; p] orc = Ok ErrorValue) /\
  f_percent [a; p] orc = Ok ErrorValue /\
  (forall x, f_percent [a; p; x] orc = Ok ErrorValue) /\
  (forall x y, f_percent [a; p; x; y] orc = Ok ErrorValue).
Proof.
  intros a p pv orc Hp Hgt.
  assert (E : precision_ok pv = false) by (unfold precision_ok; apply Z.leb_gt; exact Hgt).
  unfold f_round, f_unitize, f_percent. rewrite Hp, E. repeat split; reflexivity.
Qed.

(* comparison of finite values is invariant under a common rescaling by 2^k: it is the order of the
   rationals m * 2^e, not of a particular representation *)
Theorem fcompare_scale_proof : forall m1 e1 m2 e2 e0, e0 <= Z.min e1 e2 ->
  fcompare (FFin m1 e1) (FFin m2 e2) = Some (m1 * 2 ^ (e1 - e0) ?= m2 * 2 ^ (e2 - e0)).
Proof.
  intros m1 e1 m2 e2 e0 H. cbn [fcompare]. f_equal.
  set (e := Z.min e1 e2) in *. set (k := e - e0).
  assert (Hk : 0 <= k) by (unfold k; lia).
  replace (e1 - e0) with ((e1 - e) + k) by (unfold k; lia).
  replace (e2 - e0) with ((e2 - e) + k) by (unfold k; lia).
  rewrite !Z.pow_add_r by (unfold e; lia). rewrite !Z.mul_assoc.
  apply Zmult_compare_compat_r. apply Z.lt_gt. apply Z.pow_pos_nonneg; lia.
Qed.
