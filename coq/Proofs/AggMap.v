(* C07 — generic facts: byte-string order, sorted association lists, usort, wrap64 sums. *)
From Coq Require Import List NArith ZArith Bool Lia Sorted Permutation.
From RareV Require Import Base.Hex Base.Num Model.Agg.
Import ListNotations.
Local Open Scope Z_scope.

(* ------------------------------------------------------------------ bcmp *)
Lemma bcmp_refl a : bcmp a a = Eq.
Proof. induction a as [|x a IH]; cbn; [reflexivity|]. rewrite N.compare_refl. exact IH. Qed.

Lemma bcmp_eq a : forall b, bcmp a b = Eq -> a = b.
Proof.
  induction a as [|x a IH]; intros [|y b]; cbn; intros H; try reflexivity; try discriminate.
  destruct (N.compare x y) eqn:E; try discriminate.
  apply N.compare_eq in E. subst. f_equal. apply IH. exact H.
Qed.

Lemma bcmp_antisym a : forall b, bcmp b a = CompOpp (bcmp a b).
Proof.
  induction a as [|x a IH]; intros [|y b]; cbn; try reflexivity.
  rewrite (N.compare_antisym x y). destruct (N.compare x y); cbn; auto.
Qed.

Lemma bcmp_lt_trans a : forall b c, bcmp a b = Lt -> bcmp b c = Lt -> bcmp a c = Lt.
Proof.
  induction a as [|x a IH]; intros [|y b] [|z c]; cbn; intros H1 H2; try reflexivity; try discriminate.
  destruct (N.compare x y) eqn:E1; try discriminate.
  - apply N.compare_eq in E1. subst y.
    destruct (N.compare x z) eqn:E2; try discriminate; try reflexivity. eapply IH; eauto.
  - destruct (N.compare y z) eqn:E2; try discriminate.
    + apply N.compare_eq in E2. subst z. rewrite E1. reflexivity.
    + rewrite N.compare_lt_iff in *. assert (H : (x < z)%N) by lia.
      apply N.compare_lt_iff in H. rewrite H. reflexivity.
Qed.

Lemma beq_refl a : beq a a = true.
Proof. unfold beq. rewrite bcmp_refl. reflexivity. Qed.
Lemma beq_eq a b : beq a b = true -> a = b.
Proof. unfold beq. destruct (bcmp a b) eqn:E; try discriminate. intros _. apply bcmp_eq. exact E. Qed.
Lemma beq_neq a b : a <> b -> beq a b = false.
Proof. intros H. destruct (beq a b) eqn:E; [|reflexivity]. apply beq_eq in E. contradiction. Qed.
Lemma beq_sym a b : beq a b = beq b a.
Proof.
  destruct (beq a b) eqn:E.
  - apply beq_eq in E. subst. symmetry. apply beq_refl.
  - destruct (beq b a) eqn:E'; [|reflexivity]. apply beq_eq in E'. subst. rewrite beq_refl in E. discriminate.
Qed.
Lemma beq_iff a b : beq a b = true <-> a = b.
Proof. split; [apply beq_eq | intros ->; apply beq_refl]. Qed.
Lemma bytes_dec (a b : bytes) : {a = b} + {a <> b}.
Proof. destruct (beq a b) eqn:E; [left; apply beq_eq; exact E | right; intros ->; rewrite beq_refl in E; discriminate]. Qed.

Lemma bcmp_gt_lt a b : bcmp a b = Gt -> bcmp b a = Lt.
Proof. intros H. rewrite bcmp_antisym, H. reflexivity. Qed.
Lemma bltP_irrefl a : ~ bltP a a.
Proof. unfold bltP. rewrite bcmp_refl. discriminate. Qed.
Lemma blt_true a b : blt a b = true <-> bltP a b.
Proof. unfold blt, bltP. destruct (bcmp a b); split; intros; congruence. Qed.

(* ------------------------------------------------------------------ sorted key lists *)
Definition ksorted (l : list bytes) : Prop := StronglySorted bltP l.

Lemma ksorted_cons_inv k l : ksorted (k :: l) -> ksorted l /\ Forall (bltP k) l.
Proof. intros H. inversion H; subst. split; assumption. Qed.
Lemma ksorted_notin k l : ksorted (k :: l) -> ~ In k l.
Proof.
  intros H Hin. apply ksorted_cons_inv in H as [_ HF].
  rewrite Forall_forall in HF. apply (bltP_irrefl k). apply HF. exact Hin.
Qed.
Lemma ksorted_NoDup l : ksorted l -> NoDup l.
Proof.
  induction l as [|k l IH]; intros H; constructor.
  - apply ksorted_notin. exact H.
  - apply IH. apply ksorted_cons_inv in H. tauto.
Qed.

Lemma In_uins x k l : In x (uins k l) <-> x = k \/ In x l.
Proof.
  induction l as [|y l IH]; cbn.
  - intuition.
  - destruct (bcmp k y) eqn:E; cbn.
    + apply bcmp_eq in E. subst. intuition.
    + intuition.
    + rewrite IH. intuition.
Qed.

Lemma uins_sorted k l : ksorted l -> ksorted (uins k l).
Proof.
  induction l as [|y l IH]; cbn; intros H.
  - repeat constructor.
  - destruct (bcmp k y) eqn:E.
    + exact H.
    + constructor; [exact H|]. pose proof (ksorted_cons_inv _ _ H) as [_ HF].
      constructor; [exact E|]. rewrite Forall_forall in *. intros z Hz.
      eapply bcmp_lt_trans; [exact E | apply HF; exact Hz].
    + pose proof (ksorted_cons_inv _ _ H) as [Hs HF]. constructor; [apply IH; exact Hs|].
      rewrite Forall_forall in *. intros z Hz. apply In_uins in Hz as [->|Hz].
      * apply bcmp_gt_lt. exact E.
      * apply HF. exact Hz.
Qed.

Lemma usort_sorted l : ksorted (usort l).
Proof. induction l; cbn; [constructor | apply uins_sorted; assumption]. Qed.
Lemma In_usort x l : In x (usort l) <-> In x l.
Proof. induction l as [|y l IH]; cbn; [tauto|]. rewrite In_uins, IH. intuition. Qed.

Lemma ksorted_ext l1 : forall l2, ksorted l1 -> ksorted l2 -> (forall x, In x l1 <-> In x l2) -> l1 = l2.
Proof.
  induction l1 as [|a l1 IH]; intros [|b l2] H1 H2 Hext.
  - reflexivity.
  - exfalso. apply (proj2 (Hext b)). left. reflexivity.
  - exfalso. apply (proj1 (Hext a)). left. reflexivity.
  - pose proof (ksorted_cons_inv _ _ H1) as [Hs1 HF1]. pose proof (ksorted_cons_inv _ _ H2) as [Hs2 HF2].
    rewrite Forall_forall in HF1, HF2.
    assert (a = b).
    { destruct (proj1 (Hext a) (or_introl eq_refl)) as [E|Hin]; [congruence|].
      destruct (proj2 (Hext b) (or_introl eq_refl)) as [E|Hin']; [congruence|].
      exfalso. apply (bltP_irrefl a). eapply bcmp_lt_trans; [apply HF1; exact Hin' | apply HF2; exact Hin]. }
    subst b. f_equal. apply IH; auto. intros x. split; intros Hx.
    + destruct (proj1 (Hext x) (or_intror Hx)) as [E|]; [|assumption].
      subst x. exfalso. apply (ksorted_notin _ _ H1). exact Hx.
    + destruct (proj2 (Hext x) (or_intror Hx)) as [E|]; [|assumption].
      subst x. exfalso. apply (ksorted_notin _ _ H2). exact Hx.
Qed.

Lemma usort_perm l1 l2 : Permutation l1 l2 -> usort l1 = usort l2.
Proof.
  intros HP. apply ksorted_ext; try apply usort_sorted.
  intros x. rewrite !In_usort. split; apply Permutation_in; [exact HP | apply Permutation_sym; exact HP].
Qed.
Lemma usort_id l : ksorted l -> usort l = l.
Proof. intros H. apply ksorted_ext; [apply usort_sorted | exact H | intros x; apply In_usort]. Qed.

Lemma mem_In k l : mem k l = true <-> In k l.
Proof.
  unfold mem. rewrite existsb_exists. split.
  - intros (x & Hx & E). apply beq_eq in E. subst. exact Hx.
  - intros H. exists k. split; [exact H | apply beq_refl].
Qed.

(* ------------------------------------------------------------------ association lists *)
Section AMap.
  Context {V : Type}.
  Implicit Types m : amap V.

  Definition asorted m : Prop := ksorted (map fst m).

  Lemma keys_aupd k f m : map fst (aupd k f m) = uins k (map fst m).
  Proof.
    induction m as [|[k' v] m IH]; cbn; [reflexivity|].
    destruct (bcmp k k'); cbn; [reflexivity | reflexivity | rewrite IH; reflexivity].
  Qed.
  Lemma aupd_sorted k f m : asorted m -> asorted (aupd k f m).
  Proof. unfold asorted. rewrite keys_aupd. apply uins_sorted. Qed.

  Lemma afind_none_notin k m : afind k m = None <-> ~ In k (map fst m).
  Proof.
    induction m as [|[k' v] m IH]; cbn; [tauto|].
    destruct (beq k k') eqn:E.
    - apply beq_eq in E. subst. split; [discriminate | intros H; exfalso; apply H; left; reflexivity].
    - rewrite IH. split; [intros H [E'|H']; [subst; rewrite beq_refl in E; discriminate | tauto] | tauto].
  Qed.
  Lemma afind_some_in k m v : afind k m = Some v -> In (k, v) m.
  Proof.
    induction m as [|[k' v'] m IH]; cbn; [discriminate|].
    destruct (beq k k') eqn:E.
    - apply beq_eq in E. subst. intros [= ->]. left. reflexivity.
    - intros H. right. apply IH. exact H.
  Qed.
  Lemma afind_in_sorted k v m : asorted m -> In (k, v) m -> afind k m = Some v.
  Proof.
    unfold asorted. induction m as [|[k' v'] m IH]; cbn; intros Hs Hin; [contradiction|].
    destruct Hin as [E|Hin].
    - inversion E; subst. rewrite beq_refl. reflexivity.
    - destruct (beq k k') eqn:E.
      + apply beq_eq in E. subst. exfalso. apply (ksorted_notin _ _ Hs).
        apply (in_map fst) in Hin. exact Hin.
      + apply IH; [apply ksorted_cons_inv in Hs; tauto | exact Hin].
  Qed.

  Lemma afind_aupd_same k f m : asorted m -> afind k (aupd k f m) = Some (f (afind k m)).
  Proof.
    unfold asorted. induction m as [|[k' v] m IH]; cbn; intros Hs.
    - rewrite beq_refl. reflexivity.
    - destruct (bcmp k k') eqn:E; cbn.
      + apply bcmp_eq in E. subst. rewrite !beq_refl. reflexivity.
      + assert (B : beq k k' = false) by (unfold beq; rewrite E; reflexivity).
        rewrite beq_refl, B. f_equal. f_equal. symmetry. apply afind_none_notin.
        intros Hin. apply ksorted_cons_inv in Hs as [_ HF]. rewrite Forall_forall in HF.
        specialize (HF _ Hin). unfold bltP in HF.
        rewrite bcmp_antisym, E in HF. discriminate.
      + assert (B : beq k k' = false) by (unfold beq; rewrite E; reflexivity).
        rewrite B. apply IH. apply ksorted_cons_inv in Hs. tauto.
  Qed.
  Lemma afind_aupd_other k k2 f m : k2 <> k -> afind k2 (aupd k f m) = afind k2 m.
  Proof.
    intros Hne. induction m as [|[k' v] m IH]; cbn.
    - rewrite beq_neq by exact Hne. reflexivity.
    - destruct (bcmp k k') eqn:E; cbn.
      + apply bcmp_eq in E. subst k'. rewrite (beq_neq k2 k) by exact Hne. reflexivity.
      + rewrite (beq_neq k2 k) by exact Hne. reflexivity.
      + rewrite IH. reflexivity.
  Qed.

  Lemma amap_ext m1 : forall m2, asorted m1 -> asorted m2 -> (forall k, afind k m1 = afind k m2) -> m1 = m2.
  Proof.
    intros m2 H1 H2 Hext.
    assert (Hk : map fst m1 = map fst m2).
    { apply ksorted_ext; auto. intros x. split; intros Hx.
      - destruct (afind x m2) eqn:E; [apply afind_some_in in E; apply (in_map fst) in E; exact E|].
        rewrite <- Hext in E. apply afind_none_notin in E. contradiction.
      - destruct (afind x m1) eqn:E; [apply afind_some_in in E; apply (in_map fst) in E; exact E|].
        rewrite Hext in E. apply afind_none_notin in E. contradiction. }
    revert m2 H1 H2 Hext Hk. induction m1 as [|[k v] m1 IH]; intros [|[k2 v2] m2] H1 H2 Hext Hk; cbn in Hk; try discriminate; [reflexivity|].
    inversion Hk; subst. pose proof (Hext k2) as E. cbn in E. rewrite beq_refl in E. inversion E; subst.
    f_equal. apply IH.
    - unfold asorted in *. cbn in H1. apply ksorted_cons_inv in H1. tauto.
    - unfold asorted in *. cbn in H2. apply ksorted_cons_inv in H2. tauto.
    - intros x. pose proof (Hext x) as Ex. cbn in Ex. destruct (beq x k2) eqn:B; [|exact Ex].
      apply beq_eq in B. subst x.
      assert (N1 : ~ In k2 (map fst m1)) by (apply ksorted_notin; exact H1).
      assert (N2 : ~ In k2 (map fst m2)) by (apply ksorted_notin; exact H2).
      apply afind_none_notin in N1, N2. congruence.
    - assumption.
  Qed.

  (* a map given by a function over a key list *)
  Lemma afind_tab (f : bytes -> V) k l :
    afind k (map (fun x => (x, f x)) l) = if mem k l then Some (f k) else None.
  Proof.
    induction l as [|y l IH]; cbn; [reflexivity|].
    destruct (beq k y) eqn:E; cbn.
    - apply beq_eq in E. subst. reflexivity.
    - exact IH.
  Qed.
  Lemma keys_tab (f : bytes -> V) l : map fst (map (fun x => (x, f x)) l) = l.
  Proof. rewrite map_map. cbn. apply map_id. Qed.

  Lemma afind_aremove k k2 m : afind k2 (aremove k m) = if beq k2 k then None else afind k2 m.
  Proof.
    induction m as [|[k' v] m IH]; cbn.
    - destruct (beq k2 k); reflexivity.
    - destruct (beq k k') eqn:E.
      + apply beq_eq in E. subst k'. rewrite IH. destruct (beq k2 k); reflexivity.
      + cbn. rewrite IH. destruct (beq k2 k) eqn:E2.
        * apply beq_eq in E2. subst k2. rewrite E. reflexivity.
        * reflexivity.
  Qed.
End AMap.

(* ------------------------------------------------------------------ wrap64 *)
Lemma wrap64_idem a b : wrap64 (wrap64 a + b) = wrap64 (a + b).
Proof.
  unfold wrap64. f_equal.
  replace ((a + 2 ^ 63) mod 2 ^ 64 - 2 ^ 63 + b + 2 ^ 63) with ((a + 2 ^ 63) mod 2 ^ 64 + b) by ring.
  replace (a + b + 2 ^ 63) with ((a + 2 ^ 63) + b) by ring.
  rewrite Zplus_mod_idemp_l. reflexivity.
Qed.
Lemma wrap64_idem_r a b : wrap64 (a + wrap64 b) = wrap64 (a + b).
Proof. rewrite Z.add_comm, wrap64_idem, Z.add_comm. reflexivity. Qed.
Lemma wrap64_small z : in_int64 z = true -> wrap64 z = z.
Proof.
  unfold in_int64, min_int64, max_int64, wrap64. intros H.
  apply andb_true_iff in H as [H1 H2]. apply Z.leb_le in H1, H2.
  rewrite Z.mod_small; lia.
Qed.
Lemma wrap64_0 : wrap64 0 = 0.
Proof. reflexivity. Qed.
Lemma add64_wrap a b : add64 (wrap64 a) b = wrap64 (a + b).
Proof. unfold add64. apply wrap64_idem. Qed.

Lemma zsum_app a b : zsum (a ++ b) = zsum a + zsum b.
Proof. unfold zsum. induction a; cbn; [reflexivity|]. rewrite IHa. ring. Qed.
Lemma zsum_perm a b : Permutation a b -> zsum a = zsum b.
Proof. unfold zsum. induction 1; cbn; try lia. Qed.
