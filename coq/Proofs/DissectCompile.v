(* C12 — the pattern compiler: it always terminates within its fuel, the name table lists the
   non-skipped tokens in order without duplicates. *)
From Coq Require Import List NArith Bool Arith Lia.
From RareV Require Import Base.Hex Model.Dissect Proofs.DissectSearch.
Import ListNotations.

(* ---------- fuel ---------- *)

Lemma cloop_fuel f : forall fuel expr prefix parts names,
  length expr < fuel -> cloop f fuel expr prefix parts names <> inr None.
Proof.
  induction fuel as [|fuel IH]; intros expr prefix parts names Hl; [lia|].
  cbn [cloop].
  destruct (index_of fold_id PB expr) as [start|] eqn:Es; [|discriminate].
  apply index_of_bound in Es. cbn [PB length] in Es.
  destruct (index_of fold_id CB (skipn (start + 2) expr)) as [stop|]; [|discriminate].
  destruct (until_end _) as [e|]; [|discriminate].
  destruct (key_flags _) as [name skip].
  assert (Hlen : length (skipn e (skipn (stop + 1) (skipn (start + 2) expr))) < fuel).
  { rewrite !skipn_length. lia. }
  destruct skip; [apply IH; auto|].
  destruct (name_in name names); [discriminate|apply IH; auto].
Qed.

Theorem compile_total_proof ic f pat : compile_f ic f pat <> CFuel.
Proof.
  unfold compile_f. pose proof (cloop_fuel f (S (length pat)) pat [] [] []) as H.
  destruct (cloop f (S (length pat)) pat [] [] []) as [e|[[[p parts] names]|]]; try discriminate.
  exfalso. apply H; auto.
Qed.

(* ---------- an invariant of the loop ---------- *)

Lemma cloop_inv f (P : list token -> list bytes -> Prop) :
  (forall parts names name u, P parts names -> P (parts ++ [mkTok name u true]) names) ->
  (forall parts names name u, P parts names -> name_in name names = false ->
                              P (parts ++ [mkTok name u false]) (names ++ [name])) ->
  forall fuel expr prefix parts names p' parts' names',
    P parts names ->
    cloop f fuel expr prefix parts names = inr (Some (p', parts', names')) -> P parts' names'.
Proof.
  intros Hskip Hname. induction fuel as [|fuel IH]; intros expr prefix parts names p' parts' names' HP H;
    [discriminate|].
  cbn [cloop] in H.
  destruct (index_of fold_id PB expr) as [start|].
  2:{ inversion H; subst. auto. }
  destruct (index_of fold_id CB (skipn (start + 2) expr)) as [stop|]; [|discriminate].
  destruct (until_end _) as [e|]; [|discriminate].
  destruct (key_flags _) as [name skip].
  destruct skip.
  - eapply IH; [|exact H]. apply Hskip; auto.
  - destruct (name_in name names) eqn:En; [discriminate|].
    eapply IH; [|exact H]. apply Hname; auto.
Qed.

Lemma name_in_false n names : name_in n names = false -> ~ In n names.
Proof.
  unfold name_in. intros H Hin.
  assert (existsb (bytes_eqb n) names = true).
  { apply existsb_exists. exists n. split; auto. apply bytes_eqb_eq. reflexivity. }
  congruence.
Qed.

Lemma name_in_true n names : name_in n names = true -> In n names.
Proof.
  unfold name_in. intros H. apply existsb_exists in H as (x & Hx & He).
  apply bytes_eqb_eq in He. subst. auto.
Qed.

(* groupNames/groupCount: exactly the non-skipped tokens, in order, pairwise distinct *)
Theorem compile_names_proof ic f pat d :
  compile_f ic f pat = COk d ->
  d_names d = map t_name (nonskip (d_tokens d)) /\ NoDup (d_names d).
Proof.
  unfold compile_f.
  destruct (cloop f (S (length pat)) pat [] [] []) as [e|[[[p parts] names]|]] eqn:E; try discriminate.
  intros [= <-]. cbn [d_names d_tokens].
  eapply (cloop_inv f (fun parts names => names = map t_name (nonskip parts) /\ NoDup names)) in E; auto.
  - intros parts0 names0 name u [-> Hnd]. unfold nonskip. rewrite filter_app. cbn. rewrite app_nil_r. auto.
  - intros parts0 names0 name u [-> Hnd] Hin. unfold nonskip in *. rewrite filter_app. cbn.
    rewrite map_app. cbn. split; auto.
    apply NoDup_rev in Hnd. rewrite <- (rev_involutive (_ ++ [name])). apply NoDup_rev.
    rewrite rev_app_distr. cbn. constructor; auto.
    rewrite <- in_rev. apply name_in_false; auto.
  - cbn. split; auto. constructor.
Qed.
