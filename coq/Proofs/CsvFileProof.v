From Coq Require Import List NArith Bool Lia.
From RareV Require Import Base.Hex Model.CsvFile.
Import ListNotations.
Local Open Scope N_scope.

Section Proof.
Variable extra : bytes -> bool.

Lemma special_false b : special b = false -> (b =? DQ) = false /\ (b =? COMMA) = false /\ (b =? LF) = false /\ (b =? CR) = false.
Proof. unfold special. intros H. repeat (apply orb_false_iff in H as [H ?]). auto. Qed.

Lemma run_unquoted f : forall rest cur rec done, existsb special f = false ->
  rdf (f ++ rest) UQ cur rec done = rdf rest UQ (rev f ++ cur) rec done.
Proof.
  induction f as [|b f IH]; intros rest cur rec done H; [reflexivity|].
  cbn [existsb] in H. apply orb_false_iff in H as [Hb Hf]. destruct (special_false _ Hb) as (A & B & C & D).
  cbn [app rdf]. rewrite A, B, C, D. rewrite IH by assumption. cbn [rev]. rewrite <- app_assoc. reflexivity.
Qed.

Lemma run_quoted f : forall rest cur rec done,
  rdf (dbl f ++ DQ :: rest) QT cur rec done = rdf rest QQ (rev f ++ cur) rec done.
Proof.
  induction f as [|b f IH]; intros rest cur rec done.
  - cbn [dbl app rdf rev]. rewrite N.eqb_refl. reflexivity.
  - cbn [dbl]. destruct (b =? DQ) eqn:E.
    + apply N.eqb_eq in E. subst b. cbn [app rdf]. rewrite ?N.eqb_refl. cbn [rdf]. rewrite ?N.eqb_refl.
      rewrite IH. cbn [rev]. rewrite <- app_assoc. reflexivity.
    + cbn [app rdf]. rewrite E. rewrite IH. cbn [rev]. rewrite <- app_assoc. reflexivity.
Qed.

(* one field followed by a comma / by the record terminator *)
Lemma field_comma f rest rec done :
  rdf (field_out extra f ++ COMMA :: rest) FS [] rec done = rdf rest FS [] (f :: rec) done.
Proof.
  unfold field_out. destruct (needs_quotes extra f) eqn:Q.
  - cbn [app rdf]. rewrite N.eqb_refl. rewrite <- app_assoc. cbn [app]. rewrite run_quoted.
    cbn [rdf]. change (COMMA =? DQ) with false. cbn iota. rewrite N.eqb_refl, app_nil_r, rev_involutive. reflexivity.
  - destruct f as [|b f]; [cbn [app rdf]; change (COMMA =? DQ) with false; cbn iota; rewrite N.eqb_refl; reflexivity|].
    cbn [needs_quotes] in Q. apply orb_false_iff in Q as [Q _]. cbn [existsb] in Q.
    apply orb_false_iff in Q as [Hb Hf]. destruct (special_false _ Hb) as (A & B & C & D).
    cbn [app rdf]. rewrite A, B, C, D. rewrite run_unquoted by assumption.
    cbn [rdf]. change (COMMA =? DQ) with false. cbn iota. rewrite N.eqb_refl.
    replace (rev (rev f ++ [b])) with (b :: f) by (rewrite rev_app_distr, rev_involutive; reflexivity). reflexivity.
Qed.

Lemma field_lf f rest rec done :
  rdf (field_out extra f ++ LF :: rest) FS [] rec done = rdf rest FS [] [] (rev (f :: rec) :: done).
Proof.
  unfold field_out. destruct (needs_quotes extra f) eqn:Q.
  - cbn [app rdf]. rewrite N.eqb_refl. rewrite <- app_assoc. cbn [app]. rewrite run_quoted.
    cbn [rdf]. change (LF =? DQ) with false. change (LF =? COMMA) with false. cbn iota. rewrite N.eqb_refl, app_nil_r, rev_involutive. reflexivity.
  - destruct f as [|b f]; [cbn [app rdf]; change (LF =? DQ) with false; change (LF =? COMMA) with false; cbn iota; rewrite N.eqb_refl; reflexivity|].
    cbn [needs_quotes] in Q. apply orb_false_iff in Q as [Q _]. cbn [existsb] in Q.
    apply orb_false_iff in Q as [Hb Hf]. destruct (special_false _ Hb) as (A & B & C & D).
    cbn [app rdf]. rewrite A, B, C, D. rewrite run_unquoted by assumption.
    cbn [rdf]. change (LF =? DQ) with false. change (LF =? COMMA) with false. cbn iota. rewrite N.eqb_refl.
    replace (rev (rev f ++ [b])) with (b :: f) by (rewrite rev_app_distr, rev_involutive; reflexivity). reflexivity.
Qed.

Lemma record_read fs : fs <> [] -> forall rest rec done,
  rdf (fields_out extra fs ++ rest) FS [] rec done = rdf rest FS [] [] ((rev rec ++ fs) :: done).
Proof.
  induction fs as [|f fs IH]; intros Hne rest rec done; [congruence|].
  destruct fs as [|g fs].
  - cbn [fields_out]. rewrite <- app_assoc. cbn [app]. rewrite field_lf. cbn [rev]. reflexivity.
  - change (fields_out extra (f :: g :: fs)) with (field_out extra f ++ COMMA :: fields_out extra (g :: fs)).
    rewrite <- app_assoc. cbn [app]. rewrite field_comma. rewrite IH by discriminate.
    cbn [rev]. rewrite <- app_assoc. reflexivity.
Qed.

Lemma file_read rows : Forall (fun r => r <> []) rows -> forall done,
  rdf (csv_write extra rows) FS [] [] done = Some (rev done ++ rows).
Proof.
  induction rows as [|r rows IH]; intros Hall done.
  - cbn. rewrite app_nil_r. reflexivity.
  - inversion Hall; subst. unfold csv_write. cbn [map concat]. rewrite record_read by assumption.
    cbn [rev app]. unfold csv_write in IH. rewrite IH by assumption. cbn [rev]. rewrite <- app_assoc. reflexivity.
Qed.

(* the export parses back to exactly the rows written, whatever bytes the fields contain *)
Theorem csv_roundtrip rows : Forall (fun r => r <> []) rows -> csv_read (csv_write extra rows) = Some rows.
Proof. intros H. unfold csv_read. rewrite file_read by assumption. reflexivity. Qed.
End Proof.
