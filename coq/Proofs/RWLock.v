(* sync.RWMutex as the Go runtime implements it (writer preference): a goroutine that calls Lock first
   announces itself (later RLock calls block from then on) and proceeds once the current readers have left.
   Consequence used by C05's translator obligation [sync_reentrant = []]: a goroutine that holds the read
   lock and asks for it AGAIN while a writer is announced is stuck for ever, and so is the writer -
   whatever the other goroutines do. (pkg/logger: a logging call nested in another logging call, with
   helpers.RunAggregationLoop's DeferLogs arriving in between, would hang the reader goroutine before its
   deferred wg.Done: the batch channel never closes and the final render never happens.) *)
From Coq Require Import List Arith Bool Lia.
Import ListNotations.

Record rw := { readers : list nat;      (* goroutines holding the read lock, with multiplicity *)
               writer  : option nat;    (* holder of the write lock *)
               waiting : list nat }.    (* goroutines inside Lock, announced, not yet holding *)

Inductive act := ARLock | ARUnlock | AAnnounce | AAcquire | AUnlock.

Fixpoint remove1 (g : nat) (l : list nat) : list nat :=
  match l with [] => [] | x :: t => if Nat.eqb x g then t else x :: remove1 g t end.

(* step s g a = Some s' : goroutine g can perform a now; None: g is blocked (or the call is illegal) *)
Definition step (s : rw) (g : nat) (a : act) : option rw :=
  match a with
  | ARLock => match writer s, waiting s with
              | None, [] => Some {| readers := g :: readers s; writer := None; waiting := [] |}
              | _, _ => None end
  | ARUnlock => if existsb (Nat.eqb g) (readers s)
                then Some {| readers := remove1 g (readers s); writer := writer s; waiting := waiting s |} else None
  | AAnnounce => Some {| readers := readers s; writer := writer s; waiting := waiting s ++ [g] |}
  | AAcquire => match writer s, readers s with
                | None, [] => if existsb (Nat.eqb g) (waiting s)
                              then Some {| readers := []; writer := Some g; waiting := remove1 g (waiting s) |} else None
                | _, _ => None end
  | AUnlock => match writer s with
               | Some h => if Nat.eqb h g then Some {| readers := readers s; writer := None; waiting := waiting s |} else None
               | None => None end
  end.

(* the situation: g holds the read lock and is about to RLock again; w is announced *)
Definition stuck (g w : nat) (s : rw) : Prop := In g (readers s) /\ In w (waiting s) /\ writer s = None.

Lemma in_remove1_other : forall (x g : nat) l, x <> g -> In x l -> In x (remove1 g l).
Proof.
  intros x g l Hne; induction l as [|y t IH]; simpl; intros Hin; [exact Hin|].
  destruct (Nat.eqb_spec y g) as [->|Hy].
  - destruct Hin as [->|Hin]; [congruence|exact Hin].
  - destruct Hin as [->|Hin]; [left; reflexivity|right; apply IH; exact Hin].
Qed.

(* neither g's second RLock nor w's acquisition is enabled *)
Lemma stuck_blocked : forall g w s, stuck g w s -> step s g ARLock = None /\ step s w AAcquire = None.
Proof.
  intros g w s (Hg & Hw & Hwr); unfold step; rewrite Hwr; split.
  - destruct (waiting s); [destruct Hw|reflexivity].
  - destruct (readers s); [destruct Hg|reflexivity].
Qed.

(* and no action of any OTHER goroutine changes that *)
Lemma stuck_preserved : forall g w s h a s', stuck g w s -> h <> g -> h <> w -> step s h a = Some s' -> stuck g w s'.
Proof.
  intros g w s h a s' (Hg & Hw & Hwr) Hhg Hhw Hs; unfold step in Hs; rewrite Hwr in Hs.
  destruct a.
  - destruct (waiting s); [destruct Hw|discriminate].
  - destruct (existsb (Nat.eqb h) (readers s)); [|discriminate]. injection Hs as <-.
    repeat split; simpl; auto. apply in_remove1_other; auto.
  - injection Hs as <-. repeat split; simpl; auto. apply in_or_app; left; exact Hw.
  - destruct (readers s); [destruct Hg|discriminate].
  - discriminate.
Qed.

(* for ever: after any sequence of actions of other goroutines, both are still blocked *)
Fixpoint run (s : rw) (l : list (nat * act)) : option rw :=
  match l with [] => Some s | (h, a) :: t => match step s h a with Some s' => run s' t | None => None end end.

Theorem reentrant_rlock_deadlocks : forall g w l s s',
  stuck g w s -> Forall (fun p => fst p <> g /\ fst p <> w) l -> run s l = Some s' ->
  step s' g ARLock = None /\ step s' w AAcquire = None.
Proof.
  intros g w l; induction l as [|[h a] t IH]; simpl; intros s s' Hst Hall Hrun.
  - injection Hrun as <-. apply stuck_blocked; exact Hst.
  - inversion Hall as [|p q [Hg Hw] Hall']; subst. simpl in Hg, Hw.
    destruct (step s h a) as [s1|] eqn:E; [|discriminate].
    apply (IH s1 s'); auto. eapply stuck_preserved; eauto.
Qed.

(* the situation is reachable: g RLocks, w announces *)
Example stuck_reachable : exists s, run {| readers := []; writer := None; waiting := [] |} [(1, ARLock); (2, AAnnounce)] = Some s /\ stuck 1 2 s.
Proof. eexists; split; [reflexivity|]. unfold stuck; simpl; auto. Qed.
