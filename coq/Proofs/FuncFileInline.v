(* C10: a call of a funcs-file function equals its body with the arguments substituted. *)
From Coq Require Import List NArith ZArith Bool Arith Lia.
From RareV Require Import Base.Hex Base.Res Base.Num Model.Tmpl Model.Funcs Model.Eff Model.Optimize Model.FuncFile
                          Proofs.EffProof Proofs.OptimizeProof.
Import ListNotations.

(* ---- more algebra of concatenation ---- *)
Lemma mconcat_app l1 l2 : meq (mconcat (l1 ++ l2)) (mapp (mconcat l1) (mconcat l2)).
Proof.
  induction l1 as [|s r IH]; simpl app.
  - apply meq_sym. apply mapp_nil_l.
  - change (mconcat (s :: r ++ l2)) with (mapp s (mconcat (r ++ l2))).
    change (mconcat (s :: r)) with (mapp s (mconcat r)).
    eapply meq_trans; [apply mapp_meq; [apply meq_refl|apply IH]|]. apply meq_sym, mapp_assoc.
Qed.

Lemma mconcat_single s : meq (mconcat [s]) s.
Proof. change (mconcat [s]) with (mapp s (Ret [])). apply mapp_nil_r. Qed.

Lemma subst_mapp h a b : meq (subst_match h (mapp a b)) (mapp (subst_match h a) (subst_match h b)).
Proof.
  unfold mapp. eapply meq_trans; [apply subst_bind|]. apply bind_meq; [apply meq_refl|]. intros x.
  eapply meq_trans; [apply subst_bind|]. apply bind_meq; [apply meq_refl|]. intros y. apply meq_refl.
Qed.

Lemma subst_mconcat h l : meq (subst_match h (mconcat l)) (mconcat (map (subst_match h) l)).
Proof.
  induction l as [|s r IH]; simpl map.
  - apply meq_refl.
  - change (mconcat (s :: r)) with (mapp s (mconcat r)).
    change (mconcat (subst_match h s :: map (subst_match h) r))
      with (mapp (subst_match h s) (mconcat (map (subst_match h) r))).
    eapply meq_trans; [apply subst_mapp|]. apply mapp_meq; [apply meq_refl|apply IH].
Qed.

(* a lazy sub-context inside a lazy sub-context *)
Lemma lazy_args_subst A X i :
  meq (subst_match (lazy_args A) (lazy_args X i)) (lazy_args (map (with_args A) X) i).
Proof.
  unfold lazy_args. destruct (i <? 0)%Z; [apply meq_refl|].
  generalize (Z.to_nat i) as n. induction X as [|x r IH]; intros n; destruct n; simpl; try apply meq_refl.
  apply IH.
Qed.

Lemma with_args_with_args {T} A X (m : M T) :
  meq (with_args A (with_args X m)) (with_args (map (with_args A) X) m).
Proof.
  unfold with_args at 1 2. eapply meq_trans; [apply subst_subst|].
  apply subst_meq; [|apply meq_refl]. intros i. apply lazy_args_subst.
Qed.

(* the substituted argument list of a call, as a top-level function *)
Fixpoint sub_args_from (E : env) (args : list tmpl) (mask : nat -> bool) (j : nat) (l : list tmpl) : list tmpl :=
  match l with
  | [] => []
  | a :: r => (if mask j then a else flat_map (subst_piece E args) a) :: sub_args_from E args mask (S j) r
  end.
Lemma subst_piece_call E args f xs :
  subst_piece E args (PCall f xs) = [PCall f (sub_args_from E args (mask_of E f) 0 xs)].
Proof.
  simpl. f_equal. f_equal. generalize 0%nat. induction xs; intros j; simpl; auto. rewrite IHxs. reflexivity.
Qed.

Section Inline.
  Variable c0 : Z.
  Variable E : env.
  Hypothesis GE : env_good c0 E.
  (* the helpers of the table do not touch the context with GetMatch (true of std_env: stdlib_ntm) *)
  Hypothesis NT : forall f h, lookup E f = Some (FHelper h) -> forall v, ntm (h_body h c0 v).
  Variable args : list tmpl.

  Let ps := piece_stage false c0 E.
  Let ast := arg_stage false c0 E.
  Let A := map ast args.
  Let sub := subst_piece E args.

  (* what the constructor of a helper learns about its arguments is the same before and after the
     substitution (it is for every helper that does not inspect its arguments, and whenever the
     inspected arguments do not mention {i}) *)
  Definition call_stable (f : bytes) (xs : list tmpl) : Prop :=
    match lookup E f with
    | Some (FHelper h) =>
        h_body h c0 (map (static c0) (map ast xs))
        = h_body h c0 (map (static c0) (map ast (sub_args_from E args (h_mask h) 0 xs)))
    | _ => True
    end.

  Fixpoint iok (p : piece) : Prop :=
    match p with
    | PCall f xs =>
        call_stable f xs /\
        (fix go (j : nat) (l : list tmpl) : Prop :=
           match l with
           | [] => True
           | a :: r => (mask_of E f j = false ->
                        (fix all (t : tmpl) : Prop := match t with [] => True | q :: t' => iok q /\ all t' end) a)
                       /\ go (S j) r
           end) 0%nat xs
    | _ => True
    end.
  Fixpoint iok_all (t : tmpl) : Prop := match t with [] => True | q :: t' => iok q /\ iok_all t' end.
  Fixpoint iok_args (mask : nat -> bool) (j : nat) (l : list tmpl) : Prop :=
    match l with
    | [] => True
    | a :: r => (mask j = false -> iok_all a) /\ iok_args mask (S j) r
    end.
  Lemma iok_call f xs : iok (PCall f xs) <-> call_stable f xs /\ iok_args (mask_of E f) 0 xs.
  Proof.
    cbn [iok].
    assert (Hall : forall t,
      (fix all (t : tmpl) : Prop := match t with [] => True | q :: t' => iok q /\ all t' end) t <-> iok_all t).
    { induction t; simpl; tauto. }
    assert (Hargs : forall l j,
      (fix go (j : nat) (l : list tmpl) : Prop :=
         match l with
         | [] => True
         | a :: r => (mask_of E f j = false ->
                      (fix all (t : tmpl) : Prop := match t with [] => True | q :: t' => iok q /\ all t' end) a)
                     /\ go (S j) r
         end) j l <-> iok_args (mask_of E f) j l).
    { induction l; intros j; [simpl; tauto|].
      specialize (IHl (S j)). specialize (Hall a). cbn [iok_args]. tauto. }
    specialize (Hargs xs 0%nat). tauto.
  Qed.

  Definition P (p : piece) : Prop := iok p -> meq (with_args A (ps p)) (mconcat (map ps (sub p))).

  Lemma seq_inline (t : tmpl) : Forall P t -> iok_all t ->
    meq (with_args A (mconcat (map ps t))) (mconcat (map ps (flat_map sub t))).
  Proof.
    induction 1 as [|p r Hp _ IH]; intros Hok.
    - simpl. apply meq_refl.
    - destruct Hok as [Hp' Hr]. simpl map. simpl flat_map. rewrite map_app.
      change (mconcat (ps p :: map ps r)) with (mapp (ps p) (mconcat (map ps r))).
      eapply meq_trans; [apply subst_mapp|].
      eapply meq_trans; [|apply meq_sym, mconcat_app].
      apply mapp_meq; [apply Hp; auto|apply IH; auto].
  Qed.

  Lemma args_inline mask (xs : list tmpl) : Forall (Forall P) xs -> forall j, iok_args mask j xs ->
    Forall2 meq (masked_map mask (with_args A) j (map ast xs)) (map ast (sub_args_from E args mask j xs)).
  Proof.
    induction 1 as [|a r Ha _ IH]; intros j Hok; simpl; constructor.
    - destruct Hok as [Hok _]. destruct (mask j); [apply meq_refl|].
      apply seq_inline; auto.
    - destruct Hok as [_ Hok]. apply IH; auto.
  Qed.

  Lemma nth_ast i : nth i A (Ret []) = ast (nth i args []).
  Proof. unfold A. change (Ret []) with (ast []) at 1. apply map_nth. Qed.

  Lemma piece_inline : forall p, P p.
  Proof.
    apply piece_ind2; unfold P; intros.
    - simpl. apply meq_sym. apply (mconcat_single (Ret s)).
    - (* {i}: the i-th argument, lazily; nothing if there is none *)
      unfold ps, sub. simpl piece_stage. simpl subst_piece.
      change (with_args A (GetMatch i Ret)) with (bind (lazy_args A i) (fun v => Ret v)).
      eapply meq_trans; [apply bind_ret_r|].
      unfold lazy_args. destruct (i <? 0)%Z; [apply meq_refl|].
      rewrite nth_ast. apply meq_refl.
    - simpl. apply meq_sym.
      eapply meq_trans; [apply (mconcat_single (GetKey k Ret))|]. constructor. intros; apply meq_refl.
    - apply iok_call in H0. destruct H0 as [Hst Hargs].
      unfold sub. rewrite subst_piece_call. simpl map.
      eapply meq_trans; [|apply meq_sym, mconcat_single].
      unfold ps. rewrite !piece_stage_call. unfold call_stable in Hst. unfold mask_of in *.
      destruct (lookup E f) as [[h|b]|] eqn:L.
      + (* a helper *)
        simpl ctor_of_def. unfold ctor_of.
        eapply meq_trans; [apply interp_subst; eapply NT; eauto|].
        change (fun a : list piece => mconcat (map (piece_stage false c0 E) a)) with ast.
        change (arg_stage false c0 E) with ast.
        match goal with |- meq _ (interp _ _ ?p') =>
          replace p' with (h_body h c0 (map (static c0) (map ast args0))) by (exact Hst) end.
        apply interp_meq.
        apply args_inline; auto.
      + (* an earlier funcs-file function *)
        simpl ctor_of_def. unfold ufun.
        eapply meq_trans; [apply with_args_with_args|].
        apply with_args_meq; [|apply meq_refl].
        assert (Hm : Forall2 meq (masked_map nomask (with_args A) 0 (map ast args0))
                                 (map ast (sub_args_from E args nomask 0 args0)))
          by (apply args_inline; auto).
        assert (Hid : forall j l, masked_map nomask (with_args A) j l = map (with_args A) l).
        { intros j l; revert j; induction l; intros j; simpl; auto. rewrite IHl. reflexivity. }
        rewrite Hid in Hm. exact Hm.
      + apply meq_refl.
  Qed.

  (* the body in the lazy sub-context of the arguments = the substituted body (plain compilation) *)
  Lemma body_inline_plain (B : tmpl) : iok_all B ->
    meq (with_args A (eval_tmpl false c0 E B)) (eval_tmpl false c0 E (subst_tmpl E args B)).
  Proof.
    intros Hok. apply seq_inline; auto. apply Forall_forall. intros p _. apply piece_inline.
  Qed.

  (* C10_call_inline: in either compilation mode, with the function's body compiled by the
     optimising compiler (as the loader does) *)
  Theorem call_inline o f b (B : tmpl) :
    lookup E f = Some (FUser b) -> meq b (eval_tmpl true c0 E B) -> iok_all B ->
    meq (eval_tmpl o c0 E [PCall f args]) (eval_tmpl o c0 E (subst_tmpl E args B)).
  Proof.
    intros L Hb Hok.
    (* both sides in plain mode *)
    assert (Hl : meq (eval_tmpl o c0 E [PCall f args]) (eval_tmpl false c0 E [PCall f args])).
    { destruct o; [apply eval_opt_sound; auto|apply meq_refl]. }
    assert (Hr : meq (eval_tmpl o c0 E (subst_tmpl E args B)) (eval_tmpl false c0 E (subst_tmpl E args B))).
    { destruct o; [apply eval_opt_sound; auto|apply meq_refl]. }
    eapply meq_trans; [apply Hl|]. eapply meq_trans; [|apply meq_sym, Hr].
    eapply meq_trans; [|apply body_inline_plain; auto].
    change (eval_tmpl false c0 E [PCall f args]) with (mconcat [piece_stage false c0 E (PCall f args)]).
    rewrite piece_stage_call, L.
    simpl ctor_of_def. unfold ufun.
    eapply meq_trans; [apply mconcat_single|].
    apply with_args_meq.
    - unfold A, ast. clear. induction args; simpl; constructor; auto. apply meq_refl.
    - eapply meq_trans; [apply Hb|]. apply eval_opt_sound; auto.
  Qed.
End Inline.
