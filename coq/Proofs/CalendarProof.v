(* C18 — calendar theorems for ALL days, lifted from the era sweep by 400-year periodicity. *)
From Coq Require Import List ZArith NArith Lia Bool.
From RareV Require Import Model.Calendar Model.C18Check Proofs.CalendarSweep.
Local Open Scope Z_scope.

(* ---- periodicity ---- *)
Lemma days_from_civil_shift y m d k :
  days_from_civil (y + 400 * k) m d = days_from_civil y m d + 146097 * k.
Proof.
  unfold days_from_civil.
  set (y1 := if m <=? 2 then y - 1 else y).
  replace (if m <=? 2 then y + 400 * k - 1 else y + 400 * k) with (y1 + k * 400)
    by (unfold y1; destruct (m <=? 2); lia).
  rewrite Z.div_add by lia.
  replace (y1 + k * 400 - (y1 / 400 + k) * 400) with (y1 - y1 / 400 * 400) by lia.
  lia.
Qed.

Lemma year_start_shift y k : year_start (y + 400 * k) = year_start y + 146097 * k.
Proof. apply days_from_civil_shift. Qed.

Lemma is_leap_shift y k : is_leap (y + 400 * k) = is_leap y.
Proof.
  unfold is_leap.
  replace ((y + 400 * k) mod 4) with (y mod 4)
    by (replace (y + 400 * k) with (y + (100 * k) * 4) by lia; now rewrite Z.mod_add by lia).
  replace ((y + 400 * k) mod 100) with (y mod 100)
    by (replace (y + 400 * k) with (y + (4 * k) * 100) by lia; now rewrite Z.mod_add by lia).
  replace ((y + 400 * k) mod 400) with (y mod 400)
    by (replace (y + 400 * k) with (y + k * 400) by lia; now rewrite Z.mod_add by lia).
  reflexivity.
Qed.

Lemma days_in_month_shift y m k : days_in_month (y + 400 * k) m = days_in_month y m.
Proof. unfold days_in_month. now rewrite is_leap_shift. Qed.

Lemma civil_from_days_era z :
  let era := (z + 719468) / 146097 in
  let doe := (z + 719468) mod 146097 in
  civil_from_days z = (let '(y, m, d) := civil_of_doe doe in (y + era * 400, m, d)) /\ 0 <= doe < 146097.
Proof.
  cbv zeta. split.
  - unfold civil_from_days. rewrite Z.mod_eq by lia.
    replace (146097 * ((z + 719468) / 146097)) with ((z + 719468) / 146097 * 146097) by lia.
    reflexivity.
  - apply Z.mod_pos_bound. lia.
Qed.

(* ---- days -> civil -> days, for every day ---- *)
Theorem civil_days_inverse_proof : forall z y m d,
  civil_from_days z = (y, m, d) ->
  days_from_civil y m d = z /\ 1 <= m <= 12 /\ 1 <= d <= days_in_month y m /\
  year_start y <= z < year_start (y + 1) /\ days_from_civil y m 1 <= z.
Proof.
  intros z y m d H.
  destruct (civil_from_days_era z) as [E Hdoe]. cbv zeta in E.
  set (era := (z + 719468) / 146097) in *. set (doe := (z + 719468) mod 146097) in *.
  assert (Hz : z = doe - 719468 + 146097 * era).
  { unfold doe, era. pose proof (Z.div_mod (z + 719468) 146097). lia. }
  pose proof (doe_ok_all doe Hdoe) as Hok. unfold doe_ok in Hok.
  rewrite E in H. destruct (civil_of_doe doe) as [[y0 m0] d0]. inversion H; subst y m d. clear H.
  apply andb_true_iff in Hok as [Hok _].
  repeat (apply andb_true_iff in Hok as [Hok ?]).
  replace (y0 + era * 400) with (y0 + 400 * era) by lia.
  replace (y0 + 400 * era + 1) with (y0 + 1 + 400 * era) by lia.
  rewrite !days_from_civil_shift, !year_start_shift, days_in_month_shift.
  repeat split; lia.
Qed.

Theorem civil_from_days_injective : forall z1 z2, civil_from_days z1 = civil_from_days z2 -> z1 = z2.
Proof.
  intros z1 z2 H. destruct (civil_from_days z1) as [[y m] d] eqn:E1. symmetry in H.
  apply civil_days_inverse_proof in E1. apply civil_days_inverse_proof in H. lia.
Qed.

(* ---- year lengths, for every year ---- *)
Lemma year_length y : year_start (y + 1) - year_start y = if is_leap y then 366 else 365.
Proof.
  set (k := y / 400). set (y0 := y mod 400).
  assert (Hy : y = y0 + 400 * k) by (unfold y0, k; pose proof (Z.div_mod y 400); lia).
  assert (H0 : 0 <= y0 < 400) by (apply Z.mod_pos_bound; lia).
  pose proof (year_ok_all y0 H0) as Hok. unfold year_ok in Hok. apply Z.eqb_eq in Hok.
  rewrite Hy. replace (y0 + 400 * k + 1) with (y0 + 1 + 400 * k) by lia.
  rewrite !year_start_shift, is_leap_shift. lia.
Qed.

Lemma year_start_lt y : year_start y < year_start (y + 1).
Proof. pose proof (year_length y). destruct (is_leap y); lia. Qed.

Lemma year_start_mono a b : a <= b -> year_start a <= year_start b.
Proof.
  intros H. replace b with (a + Z.of_nat (Z.to_nat (b - a))) by lia.
  induction (Z.to_nat (b - a)) as [|n IH]; [replace (a + Z.of_nat 0) with a by lia; lia|].
  replace (a + Z.of_nat (S n)) with (a + Z.of_nat n + 1) by lia.
  pose proof (year_start_lt (a + Z.of_nat n)). lia.
Qed.

Lemma year_start_lt_mono a b : a < b -> year_start a < year_start b.
Proof.
  intros H. pose proof (year_start_mono (a + 1) b ltac:(lia)). pose proof (year_start_lt a). lia.
Qed.

(* the year of a day is determined by the year starts *)
Lemma year_unique z y y' : year_start y <= z < year_start (y + 1) -> year_start y' <= z < year_start (y' + 1) -> y = y'.
Proof.
  intros H1 H2. destruct (Z.lt_trichotomy y y') as [L|[E|L]]; [|exact E|].
  - pose proof (year_start_mono (y + 1) y' ltac:(lia)). lia.
  - pose proof (year_start_mono (y' + 1) y ltac:(lia)). lia.
Qed.

(* ---- weekday ---- *)
Theorem weekday_range_proof day : 0 <= weekday day <= 6.
Proof. unfold weekday. pose proof (Z.mod_pos_bound (day + 4) 7). lia. Qed.

Theorem weekday_succ_proof day : weekday (day + 1) = (weekday day + 1) mod 7.
Proof.
  unfold weekday. rewrite Zplus_mod_idemp_l. f_equal. lia.
Qed.

Theorem weekday_week_proof day k : weekday (day + 7 * k) = weekday day.
Proof. unfold weekday. replace (day + 7 * k + 4) with (day + 4 + k * 7) by lia. apply Z.mod_add. lia. Qed.

(* ---- quarter ---- *)
Theorem quarter_proof : forall m, 1 <= m <= 12 ->
  1 <= quarter m <= 4 /\ (quarter m = 1 <-> 1 <= m <= 3) /\
  3 * quarter m - 2 <= m <= 3 * quarter m.
Proof.
  intros m H. unfold quarter.
  assert (C : m = 1 \/ m = 2 \/ m = 3 \/ m = 4 \/ m = 5 \/ m = 6 \/ m = 7 \/ m = 8 \/ m = 9 \/ m = 10 \/ m = 11 \/ m = 12) by lia.
  repeat (destruct C as [->|C]); try subst m; cbn; lia.
Qed.

Theorem quarter_spec_b_iff m q : 1 <= m <= 12 -> (quarter_spec_b m q = true <-> q = quarter m).
Proof.
  intros H. pose proof (quarter_proof m H) as (H1 & _ & H3). unfold quarter_spec_b.
  rewrite !andb_true_iff, !Z.leb_le. lia.
Qed.

Theorem quarter_go_refuted_proof : exists m, 1 <= m <= 12 /\ ~ (3 * quarter_go m - 2 <= m <= 3 * quarter_go m).
Proof. exists 3. cbn. lia. Qed.

Theorem quarter_go_partial_proof : forall m, 1 <= m <= 12 -> m mod 3 <> 0 -> quarter_go m = quarter m.
Proof.
  intros m H.
  assert (C : m = 1 \/ m = 2 \/ m = 3 \/ m = 4 \/ m = 5 \/ m = 6 \/ m = 7 \/ m = 8 \/ m = 9 \/ m = 10 \/ m = 11 \/ m = 12) by lia.
  repeat (destruct C as [->|C]); try subst m; cbn; intros; try reflexivity; try congruence.
Qed.

(* ---- ISO week ---- *)
Lemma first_thursday_spec y :
  year_start y <= first_thursday y <= year_start y + 6 /\ weekday (first_thursday y) = 4.
Proof.
  unfold first_thursday, weekday. cbv zeta.
  set (j := year_start y).
  pose proof (Z.mod_pos_bound (4 - (j + 4) mod 7) 7 ltac:(lia)).
  split; [lia|].
  pose proof (Z.mod_pos_bound (j + 4) 7 ltac:(lia)).
  pose proof (Z.div_mod (j + 4) 7 ltac:(lia)).
  pose proof (Z.div_mod (4 - (j + 4) mod 7) 7 ltac:(lia)).
  set (a := (j + 4) mod 7) in *.
  assert (Hb : (4 - a) mod 7 = (if a <=? 4 then 4 - a else 11 - a)).
  { destruct (a <=? 4) eqn:E; [apply Z.leb_le in E | apply Z.leb_gt in E].
    - rewrite Z.mod_small; lia.
    - replace (4 - a) with (11 - a + (-1) * 7) by lia. rewrite Z.mod_add by lia. rewrite Z.mod_small; lia. }
  rewrite Hb.
  destruct (a <=? 4) eqn:E.
  - replace (j + (4 - a) + 4) with (4 + (j + 4) / 7 * 7) by lia.
    rewrite Z.mod_add by lia. reflexivity.
  - replace (j + (11 - a) + 4) with (4 + ((j + 4) / 7 + 1) * 7) by lia.
    rewrite Z.mod_add by lia. reflexivity.
Qed.

Lemma iso_thursday_spec day :
  weekday (iso_thursday day) = 4 /\ day - 3 <= iso_thursday day <= day + 3 /\
  (* Monday of the week *) weekday (iso_thursday day - 3) = 1.
Proof.
  unfold iso_thursday, weekday.
  pose proof (Z.mod_pos_bound (day + 4) 7 ltac:(lia)).
  pose proof (Z.div_mod (day + 4) 7 ltac:(lia)).
  set (w := (day + 4) mod 7) in *.
  pose proof (Z.mod_pos_bound (w + 6) 7 ltac:(lia)).
  assert (Hm : (w + 6) mod 7 = if w =? 0 then 6 else w - 1).
  { destruct (w =? 0) eqn:E; [apply Z.eqb_eq in E; subst w; rewrite E; reflexivity|].
    apply Z.eqb_neq in E. replace (w + 6) with (w - 1 + 1 * 7) by lia. rewrite Z.mod_add by lia. apply Z.mod_small. lia. }
  rewrite Hm. split; [|split; [destruct (w =? 0) eqn:E; [apply Z.eqb_eq in E|apply Z.eqb_neq in E]; lia|]].
  - destruct (w =? 0) eqn:E; [apply Z.eqb_eq in E|apply Z.eqb_neq in E].
    + replace (day + (3 - 6) + 4) with (w + 4 + ((day + 4) / 7 - 1) * 7) by lia.
      rewrite Z.mod_add by lia. rewrite E. reflexivity.
    + replace (day + (3 - (w - 1)) + 4) with (4 + ((day + 4) / 7) * 7) by lia.
      rewrite Z.mod_add by lia. reflexivity.
  - destruct (w =? 0) eqn:E; [apply Z.eqb_eq in E|apply Z.eqb_neq in E].
    + replace (day + (3 - 6) - 3 + 4) with (w + 1 + ((day + 4) / 7 - 1) * 7) by lia.
      rewrite Z.mod_add by lia. rewrite E. reflexivity.
    + replace (day + (3 - (w - 1)) - 3 + 4) with (1 + ((day + 4) / 7) * 7) by lia.
      rewrite Z.mod_add by lia. reflexivity.
Qed.

Lemma weekday_eq_diff a b : weekday a = weekday b -> exists k, a = b + 7 * k.
Proof.
  unfold weekday. intros H.
  pose proof (Z.div_mod (a + 4) 7 ltac:(lia)). pose proof (Z.div_mod (b + 4) 7 ltac:(lia)).
  exists ((a + 4) / 7 - (b + 4) / 7). lia.
Qed.

(* Go's ISOWeek = the week of the year's first Thursday *)
Theorem isoweek_proof : forall day y w, isoweek day = (y, w) ->
  let th := iso_thursday day in
  year_start y <= th < year_start (y + 1) /\          (* the ISO year is the year of the week's Thursday *)
  th = first_thursday y + 7 * (w - 1) /\              (* it is the w-th Thursday of that year *)
  1 <= w <= 53 /\
  iso_spec_b day y w = true.
Proof.
  intros day y w H th. unfold isoweek in H. fold th in H.
  destruct (civil_from_days th) as [[y' m'] d'] eqn:E. inversion H; subst y' w. clear H.
  apply civil_days_inverse_proof in E as (_ & _ & _ & Hy & _).
  destruct (iso_thursday_spec day) as (Hw & Hr & _). fold th in Hw, Hr.
  destruct (first_thursday_spec y) as (Hf & Hfw).
  destruct (weekday_eq_diff th (first_thursday y) ltac:(congruence)) as [k Hk].
  assert (Hk0 : 0 <= k) by lia.
  assert (Hq : (th - year_start y) / 7 = k).
  { replace (th - year_start y) with (first_thursday y - year_start y + k * 7) by lia.
    rewrite Z.div_add by lia. rewrite Z.div_small; lia. }
  rewrite Hq.
  pose proof (year_length y) as HL.
  assert (Hk52 : k <= 52) by (destruct (is_leap y); lia).
  repeat split; try lia.
  unfold iso_spec_b, week1_monday.
  destruct (first_thursday_spec (y + 1)) as (Hf' & Hfw').
  destruct (weekday_eq_diff (first_thursday (y + 1)) th ltac:(congruence)) as [k' Hk'].
  rewrite !andb_true_iff, !Z.leb_le, !Z.ltb_lt. lia.
Qed.

(* the (year, week) pair satisfying the declarative form is unique *)
Theorem iso_spec_unique : forall day y w y' w',
  iso_spec_b day y w = true -> iso_spec_b day y' w' = true -> y = y' /\ w = w'.
Proof.
  intros day y w y' w' H H'. unfold iso_spec_b in *.
  rewrite !andb_true_iff, !Z.leb_le, !Z.ltb_lt in H, H'.
  assert (M : forall a b, a < b -> week1_monday (a + 1) <= week1_monday b).
  { intros a b L. unfold week1_monday.
    destruct (first_thursday_spec (a + 1)) as (F1 & W1). destruct (first_thursday_spec b) as (F2 & W2).
    destruct (Z.eq_dec (a + 1) b) as [->|N]; [lia|].
    pose proof (year_start_lt_mono (a + 1) b ltac:(lia)).
    destruct (weekday_eq_diff (first_thursday b) (first_thursday (a + 1)) ltac:(congruence)) as [k Hk].
    pose proof (year_length (a + 1)). pose proof (year_start_mono (a + 2) b ltac:(lia)).
    replace (a + 1 + 1) with (a + 2) in * by lia.
    destruct (is_leap (a + 1)); lia. }
  assert (y = y').
  { destruct (Z.lt_trichotomy y y') as [L|[E|L]]; [|exact E|].
    - pose proof (M y y' L). lia.
    - pose proof (M y' y L). lia. }
  subst y'. split; [reflexivity|lia].
Qed.

(* ---- the first day of the month of any day maps back to (y, m, 1) ---- *)
Lemma civil_from_days_shift z k :
  civil_from_days (z + 146097 * k) = let '(y, m, d) := civil_from_days z in (y + 400 * k, m, d).
Proof.
  unfold civil_from_days.
  replace (z + 146097 * k + 719468) with (z + 719468 + k * 146097) by lia.
  rewrite Z.div_add by lia.
  replace (z + 719468 + k * 146097 - ((z + 719468) / 146097 + k) * 146097)
    with (z + 719468 - (z + 719468) / 146097 * 146097) by lia.
  destruct (civil_of_doe _) as [[y m] d]. f_equal. f_equal. lia.
Qed.

Theorem month_start_inverse : forall z y m d,
  civil_from_days z = (y, m, d) -> civil_from_days (days_from_civil y m 1) = (y, m, 1).
Proof.
  intros z y m d H.
  destruct (civil_from_days_era z) as [E Hdoe]. cbv zeta in E.
  set (era := (z + 719468) / 146097) in *. set (doe := (z + 719468) mod 146097) in *.
  pose proof (doe_ok_all doe Hdoe) as Hok. unfold doe_ok in Hok.
  rewrite E in H. destruct (civil_of_doe doe) as [[y0 m0] d0]. inversion H; subst y m d. clear H.
  apply andb_true_iff in Hok as [_ Hok].
  replace (y0 + era * 400) with (y0 + 400 * era) by lia.
  rewrite days_from_civil_shift, civil_from_days_shift.
  destruct (civil_from_days (days_from_civil y0 m0 1)) as [[y1 m1] d1].
  apply andb_true_iff in Hok as [Hok H3]. apply andb_true_iff in Hok as [H1 H2].
  apply Z.eqb_eq in H1, H2, H3. subst. reflexivity.
Qed.
