(* C07 — the repaired Trim's recomputation yields exactly the table determined by the cells. *)
From Coq Require Import List NArith ZArith Bool Lia Sorted Permutation.
From RareV Require Import Base.Hex Base.Num Model.Agg Proofs.AggMap Proofs.AggCounter Proofs.AggTableWf
  Proofs.AggTable Proofs.AggTableTot Proofs.AggTrim Proofs.AggLawDefs.
Import ListNotations.
Local Open Scope Z_scope.

Lemma fold_left_flat_map {A B S} (f : S -> B -> S) (g : A -> list B) l : forall s,
  fold_left (fun m a => fold_left f (g a) m) l s = fold_left f (flat_map g l) s.
Proof.
  induction l as [|a l IH]; intros s; cbn [fold_left flat_map]; [reflexivity|].
  rewrite fold_left_app. apply IH.
Qed.

Lemma fold_aupd_items kv :
  fold_left (fun m (cl : bytes * Z) => aupd (fst cl) (addo (snd cl)) m) kv [] = spec_counter_items kv.
Proof.
  induction kv as [|[k v] kv IH] using rev_ind; [reflexivity|].
  rewrite fold_left_app. cbn [fold_left fst snd]. rewrite IH. apply spec_items_snoc.
Qed.

Lemma sum_for_sorted c (cells : amap Z) : asorted cells -> sum_for c cells = dflt (afind c cells).
Proof.
  unfold asorted. induction cells as [|[k v] r IH]; intros Hs; [reflexivity|].
  cbn [map fst] in Hs. pose proof (ksorted_cons_inv _ _ Hs) as [Hr _].
  unfold sum_for. cbn [filter fst afind]. destruct (beq c k) eqn:E.
  - apply beq_eq in E. subst c. cbn [map snd zsum fold_right dflt].
    fold (zsum (map snd (filter (fun p : bytes * Z => beq k (fst p)) r))).
    change (zsum (map snd (filter (fun p : bytes * Z => beq k (fst p)) r))) with (sum_by (beq k) r).
    rewrite sum_by_none; [lia|]. intros x Hx. apply beq_neq. intros ->.
    apply (ksorted_notin _ _ Hs). apply in_map. exact Hx.
  - apply IH. exact Hr.
Qed.

Lemma sum_for_app c (a b : list (bytes * Z)) : sum_for c (a ++ b) = sum_for c a + sum_for c b.
Proof. unfold sum_for. rewrite filter_app, map_app, zsum_app. reflexivity. Qed.

Lemma sum_for_flat c (cs : cellmap) : (forall r cells, In (r, cells) cs -> asorted cells) ->
  sum_for c (flat_map (fun rw : bytes * amap Z => snd rw) cs) = colsum c cs.
Proof.
  unfold colsum. induction cs as [|[r cells] cs IH]; intros H; [reflexivity|].
  cbn [flat_map map snd zsum fold_right]. rewrite sum_for_app.
  rewrite (sum_for_sorted c cells) by (apply (H r); left; reflexivity).
  fold (zsum (map (fun rw : bytes * amap Z => dflt (afind c (snd rw))) cs)).
  rewrite IH; [reflexivity|]. intros r' c' Hin. apply (H r'). right. exact Hin.
Qed.

Lemma keys_flat (cs : cellmap) : map fst (flat_map (fun rw : bytes * amap Z => snd rw) cs) = allcols cs.
Proof. unfold allcols. induction cs as [|[r cells] cs IH]; [reflexivity|]. cbn [flat_map]. rewrite map_app, IH. reflexivity. Qed.

Lemma cells_of_sorted_rows (t : table) :
  (forall r cells, In (r, cells) (cells_of t) -> asorted cells) <->
  (forall r cells sm, In (r, (cells, sm)) (t_rows t) -> asorted cells).
Proof.
  unfold cells_of. split; intros H.
  - intros r cells sm Hin. apply (H r). apply in_map_iff. exists (r, (cells, sm)). split; [reflexivity | exact Hin].
  - intros r cells Hin. apply in_map_iff in Hin as ([r' [cells' sm]] & E & Hin). inversion E; subst. eapply H; eauto.
Qed.

Theorem recompute_rebuild : forall t,
  (forall r cells, In (r, cells) (cells_of t) -> asorted cells) ->
  recompute t = rebuild (cells_of t) (t_errors t).
Proof.
  intros t Hs. unfold recompute, rebuild. f_equal.
  - unfold cells_of. rewrite map_map. apply map_ext. intros [r [cells sm]]. cbn [fst snd].
    change 0 with (wrap64 0) at 1. rewrite fold_add64. reflexivity.
  - unfold recompute_cols.
    rewrite (fold_left_flat_map (fun m (cl : bytes * Z) => aupd (fst cl) (addo (snd cl)) m) (fun rw : bytes * trow => fst (snd rw))).
    rewrite fold_aupd_items.
    assert (F : flat_map (fun rw : bytes * trow => fst (snd rw)) (t_rows t)
                = flat_map (fun rw : bytes * amap Z => snd rw) (cells_of t)).
    { unfold cells_of. induction (t_rows t) as [|[r [cells sm]] l IH]; [reflexivity|]. cbn [flat_map map fst snd]. rewrite IH. reflexivity. }
    rewrite F. unfold spec_counter_items. rewrite keys_flat. apply map_ext.
    intros c. f_equal. f_equal. apply sum_for_flat. exact Hs.
Qed.

Lemma trim_col_errors pred t c : t_errors (trim_col pred t c) = t_errors t.
Proof. reflexivity. Qed.
Lemma trim_order_errors pred order : forall t, t_errors (trim_order pred order t) = t_errors t.
Proof.
  unfold trim_order. induction order as [|c order IH]; intros t; cbn [fold_left]; [reflexivity|].
  rewrite IH. apply trim_col_errors.
Qed.
