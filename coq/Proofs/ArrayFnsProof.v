(* C17: the evaluator of Model/ArrayFns.v (Go control flow) equals the list specification; the
   per-helper statements of the property; well-formedness of the produced lists. *)
From Coq Require Import List NArith ZArith Bool Arith Lia ZifyBool.
From RareV Require Import Base.Hex Base.Num Model.Splitter Model.ArrayFns Gen.GenC17
  Proofs.SplitterProof Proofs.ArrayFnsOps Proofs.ArrayFnsLoops.
Import ListNotations.

Lemma fold_left_ext {A B} (f g : A -> B -> A) : (forall a b, f a b = g a b) ->
  forall l a, fold_left f l a = fold_left g l a.
Proof. intros H. induction l as [|x l IH]; intros a; cbn; [reflexivity|]. now rewrite H, IH. Qed.

(* ------------------------------------------------------------------ eval = spec *)
Theorem eval_spec : forall e c, eval e c = spec e c.
Proof.
  fix IH 1. intros e c. destruct e; cbn [eval spec]; try reflexivity.
  - (* Cat *) f_equal. revert es. fix IHl 1. intros [|x r]; [reflexivity|]. cbn [map]. f_equal; [apply IH|apply IHl].
  - now rewrite !IH.
  - now rewrite !IH.
  - now rewrite !IH.
  - now rewrite !IH.
  - now rewrite !IH.
  - now rewrite !IH.
  - (* Arr *) rewrite op_arr_spec. f_equal. revert es. fix IHl 1. intros [|x r]; [reflexivity|]. cbn [map]. f_equal; [apply IH|apply IHl].
  - now rewrite op_len_spec, IH.
  - now rewrite op_split_spec, IH.
  - now rewrite op_join_spec, IH.
  - now rewrite op_select_spec, IH.
  - now rewrite op_slice_spec, IH.
  - rewrite op_map_spec, IH. unfold spec_map. f_equal. apply map_ext. intros x. apply IH.
  - rewrite op_filter_spec, IH. unfold spec_filter. f_equal. apply filter_ext. intros x. now rewrite IH.
  - rewrite op_reduce_spec, IH. unfold spec_reduce. destruct init; apply fold_left_ext; intros; apply IH.
  - now rewrite op_in_spec, IH.
  - now rewrite op_range_spec, !IH.
  - rewrite op_for_spec, IH. unfold spec_for.
    rewrite (for_list_ext _ _ (fun v k => spec e2 (subctx c v k)) _ (fun v k => spec e3 (subctx c v k))); [reflexivity| |]; intros; apply IH.
Qed.

Theorem check_sound e c : C17_check e c (model e c) = true.
Proof. unfold C17_check, model. rewrite eval_spec. now apply bytes_eqb_eq. Qed.

(* ------------------------------------------------------------------ NUL-freeness *)
Lemma nul_freeb_spec s : nul_freeb s = true <-> nul_free s.
Proof.
  unfold nul_freeb, nul_free. rewrite negb_true_iff. split.
  - intros H Hi. assert (existsb (N.eqb NUL) s = true); [|congruence].
    apply existsb_exists. exists NUL. split; [exact Hi|apply N.eqb_refl].
  - intros H. destruct (existsb (N.eqb NUL) s) eqn:E; [|reflexivity].
    apply existsb_exists in E as (x & Hx & Ex). apply N.eqb_eq in Ex. subst. contradiction.
Qed.

Lemma in_join d : forall l x b, In x l -> In b x -> In b (join d l).
Proof.
  induction l as [|y l IH]; intros x b Hx Hb; [destruct Hx|].
  destruct l as [|z l].
  - destruct Hx as [->|[]]. exact Hb.
  - rewrite join_cons by discriminate. destruct Hx as [->|Hx].
    + apply in_or_app. now left.
    + apply in_or_app. right. apply in_or_app. right. now apply (IH x).
Qed.

Lemma split_nul_free d s : d <> [] -> nul_free s -> Forall nul_free (split d s).
Proof.
  intros dne Hs. apply Forall_forall. intros x Hx Hn. apply Hs.
  rewrite <- (join_split d dne s). now apply (in_join d _ x).
Qed.

Lemma join_nul_free d : forall l, Forall nul_free l -> nul_free d -> nul_free (join d l).
Proof.
  induction l as [|x l IH]; intros F Hd; [intros []|].
  inversion F; subst. destruct l as [|y l]; [assumption|].
  rewrite join_cons by discriminate. intros Hi.
  apply in_app_or in Hi as [Hi|Hi]; [contradiction|].
  apply in_app_or in Hi as [Hi|Hi]; [contradiction|]. now apply IH.
Qed.

Lemma split0_nul_free s : Forall nul_free (split0 s).
Proof. apply split_single_free. Qed.

Lemma split0_join0 l : l <> [] -> Forall nul_free l -> split0 (join0 l) = l.
Proof. apply split_join_single. Qed.

Lemma join0_split0 s : join0 (split0 s) = s.
Proof. apply join_split. discriminate. Qed.

Lemma split0_join0_flat : forall l, l <> [] -> split0 (join0 l) = flat_map split0 l.
Proof.
  induction l as [|x l IH]; intros H; [congruence|].
  destruct l as [|y l].
  - cbn. now rewrite app_nil_r.
  - unfold join0. rewrite join_cons by discriminate. unfold split0. rewrite split_single_app.
    cbn [flat_map]. f_equal. apply IH. discriminate.
Qed.

(* ------------------------------------------------------------------ the property, helper by helper *)
Section Helpers.
  Variable c : ctx.

  Theorem T_split a d : d <> [] -> eval (ASplit a d) c = join0 (split d (eval a c)).
  Proof. intros H. cbn [eval]. rewrite op_split_spec. unfold spec_split. destruct d; [congruence|reflexivity]. Qed.

  Theorem T_split_empty_delim a : eval (ASplit a []) c = ErrorEmpty.
  Proof. reflexivity. Qed.

  Theorem T_join a d : eval (AJoin a d) c = join d (split0 (eval a c)).
  Proof. cbn [eval]. now rewrite op_join_spec. Qed.

  (* @join after @split gives the string back *)
  Theorem T_join_split a d : d <> [] -> nul_free (eval a c) -> eval (AJoin (ASplit a d) d) c = eval a c.
  Proof.
    intros dne Hn. rewrite T_join, T_split by assumption.
    rewrite split0_join0; [now apply join_split|now apply split_nonempty|now apply split_nul_free].
  Qed.

  (* @split after @join gives the list back exactly when its elements are clean w.r.t. the delimiter *)
  Theorem T_split_join a d : d <> [] -> nul_free d ->
    (eval (ASplit (AJoin a d) d) c = eval a c <-> clean_list d (split0 (eval a c))).
  Proof.
    intros dne dnf. rewrite T_split, T_join by assumption. split.
    - intros H. apply (split_join_iff d dne).
      apply (f_equal split0) in H.
      rewrite split0_join0 in H; [exact H|now apply split_nonempty|].
      apply split_nul_free; [assumption|]. apply join_nul_free; [apply split0_nul_free|assumption].
    - intros C. rewrite (proj2 (split_join_iff d dne _) C). apply join0_split0.
  Qed.
End Helpers.

Section Helpers2.
  Variable c : ctx.

  (* "" has length 0 (documented); any other value has as many elements as NUL separators + 1 *)
  Theorem T_len a : eval (ALen a) c =
    itoa (Z.of_nat (match eval a c with [] => 0 | v => length (split0 v) end)).
  Proof. cbn [eval]. rewrite op_len_spec. unfold spec_len. destruct (eval a c); reflexivity. Qed.

  Theorem T_len_list a l : Forall nul_free l -> eval a c = join0 l -> eval a c <> [] ->
    eval (ALen a) c = itoa (Z.of_nat (length l)).
  Proof.
    intros F E Hne. rewrite T_len. destruct (eval a c) as [|b v] eqn:Ev; [congruence|].
    cbv iota. rewrite E. destruct l as [|x l]; [discriminate|].
    rewrite split0_join0; [reflexivity|discriminate|assumption].
  Qed.

  Theorem T_map a f : eval (AMap a f) c = join0 (map (fun x => eval f (subctx c x [])) (split0 (eval a c))).
  Proof. cbn [eval]. now rewrite op_map_spec. Qed.

  Theorem T_filter a f :
    eval (AFilter a f) c = join0 (filter (fun x => truthy (eval f (subctx c x []))) (split0 (eval a c))).
  Proof. cbn [eval]. now rewrite op_filter_spec. Qed.

  Theorem T_reduce a f init : eval (AReduce a f init) c =
    let l := split0 (eval a c) in
    let step := fun memo x => eval f (subctx c memo x) in
    match init with
    | [] => fold_left step (tl l) (hd [] l)
    | _ => fold_left step l init
    end.
  Proof. cbn [eval]. now rewrite op_reduce_spec. Qed.

  Theorem T_select a i : eval (ASelect a i) c =
    let l := split0 (eval a c) in
    let n := Z.of_nat (length l) in
    let j := if (i <? 0)%Z then (i + n)%Z else i in
    if ((0 <=? j) && (j <? n))%Z then nth (Z.to_nat j) l [] else [].
  Proof. cbn [eval]. now rewrite op_select_spec. Qed.

  Theorem T_slice a start len : eval (ASlice a start len) c =
    let l := split0 (eval a c) in
    let n := Z.of_nat (length l) in
    let st := if (start <? 0)%Z then Z.max 0 (start + n) else start in
    let r := skipn (Z.to_nat st) l in
    join0 (if (len <? 0)%Z then r else firstn (Z.to_nat len) r).
  Proof.
    cbn [eval]. rewrite op_slice_spec. unfold spec_slice, slice_list, norm_index. cbn zeta.
    destruct (start <? 0)%Z eqn:E; [reflexivity|]. now replace (Z.max 0 start) with start by lia.
  Qed.

  Theorem T_in a set : set <> [] -> Forall nul_free set ->
    eval (AIn a set) c = truthy_str (existsb (bytes_eqb (eval a c)) set).
  Proof. intros Hs F. cbn [eval]. rewrite op_in_spec. unfold spec_in. now rewrite split0_join0. Qed.

  Theorem T_in_iff a set : set <> [] -> Forall nul_free set ->
    (eval (AIn a set) c = TruthyVal <-> In (eval a c) set) /\
    (eval (AIn a set) c = FalsyVal <-> ~ In (eval a c) set).
  Proof.
    intros Hs F. rewrite T_in by assumption.
    assert (Hx : existsb (bytes_eqb (eval a c)) set = true <-> In (eval a c) set).
    { rewrite existsb_exists. split.
      - intros (x & Hx & E). apply bytes_eqb_eq in E. now subst.
      - intros H. exists (eval a c). split; [assumption|now apply bytes_eqb_eq]. }
    destruct (existsb (bytes_eqb (eval a c)) set); cbn [truthy_str]; unfold TruthyVal, FalsyVal.
    - split; split.
      + intros _. now apply Hx.
      + reflexivity.
      + discriminate.
      + intros H. exfalso. apply H. now apply Hx.
    - split; split.
      + discriminate.
      + intros H. apply Hx in H. discriminate.
      + intros _ H. apply Hx in H. discriminate.
      + reflexivity.
  Qed.

  (* @range where int64 overflow is impossible ([range_no_wrap]: stop + incr - 1 <= MaxInt64 for a positive
     increment, MinInt64 <= stop + incr + 1 for a negative one): <VALUE> for a zero increment, a wrong
     direction, or more than maxRangeElements elements; else the arithmetic progression *)
  Theorem T_range s e i start stop incr :
    atoi (eval s c) = Some start -> atoi (eval e c) = Some stop -> atoi (eval i c) = Some incr ->
    range_no_wrap start stop incr = true ->
    eval (ARange s e i) c =
    if ((incr =? 0) || (incr >? 0) && (start >? stop) || (incr <? 0) && (start <? stop))%Z then ErrorValue
    else if (range_countZ start stop incr >? MaxRangeElements)%Z then ErrorValue
    else join0 (map itoa (progression (range_count start stop incr) start incr)).
  Proof.
    intros H1 H2 H3 G. cbn [eval]. rewrite op_range_spec. unfold spec_range, spec_range_cap. now rewrite H1, H2, H3, G.
  Qed.

  (* @range in general: the value is what the (wrapping, capped) loop of the code yields; the loop always ends *)
  Theorem T_range_any s e i start stop incr :
    atoi (eval s c) = Some start -> atoi (eval e c) = Some stop -> atoi (eval i c) = Some incr ->
    range_valid start stop incr ->
    exists r, range_run MaxRangeElements start stop incr = Some r /\ eval (ARange s e i) c = r.
  Proof.
    intros H1 H2 H3 V. pose proof (range_fuel_enough MaxRangeElements start stop incr max_range_nonneg V) as Hf.
    destruct (range_run MaxRangeElements start stop incr) as [r|] eqn:E; [|congruence].
    exists r. split; [reflexivity|]. cbn [eval]. unfold op_range, op_range_cap. rewrite H1, H2, H3.
    destruct V as (Vn & V1 & V2).
    replace (incr =? 0)%Z with false by lia.
    replace ((incr >? 0) && (start >? stop))%Z with false by lia.
    replace ((incr <? 0) && (start <? stop))%Z with false by lia. now rewrite E.
  Qed.

  Theorem T_range_bad s e i :
    atoi (eval s c) = None \/ atoi (eval e c) = None \/ atoi (eval i c) = None ->
    eval (ARange s e i) c = ErrorNum.
  Proof.
    intros H. cbn [eval]. rewrite op_range_spec. unfold spec_range, spec_range_cap.
    destruct (atoi (eval s c)); [|reflexivity]. destruct (atoi (eval e c)); [|reflexivity].
    destruct (atoi (eval i c)); [|reflexivity]. destruct H as [H|[H|H]]; discriminate.
  Qed.

  (* @for: v_0 = start, v_(k+1) = incr with {0} = v_k and {1} = k; elements are emitted while the
     condition (same bindings) is truthy, within MAX_ITERATIONS rounds and MAX_OUTPUT_BYTES of output *)
  Section ForThm.
    Variables s x i : expr.
    Let cond := fun v k => eval x (subctx c v k).
    Let incr := fun v k => eval i (subctx c v k).
    Let vals := fun n => map (for_val incr (eval s c) dec_zero) (seq 0 n).

    Theorem T_for n : n <= iter_cap ->
      (forall k, k < n -> for_cond cond incr (eval s c) dec_zero k = true) ->
      for_cond cond incr (eval s c) dec_zero n = false ->
      (Z.of_nat (length (join0 (vals n))) <= ForMaxOutputBytes)%Z ->
      eval (AFor s x i) c = join0 (vals n).
    Proof.
      intros Hn Ht Hs Hb. cbn [eval]. rewrite op_for_spec. unfold spec_for.
      fold cond incr. rewrite (for_list_stops ForMaxOutputBytes cond incr n); [reflexivity|lia|assumption|assumption|].
      rewrite for_len_joined. exact Hb.
    Qed.

    Theorem T_for_inf :
      (forall k, k <= iter_cap -> for_cond cond incr (eval s c) dec_zero k = true) ->
      eval (AFor s x i) c = ForInfMarker.
    Proof.
      intros Ht. cbn [eval]. rewrite op_for_spec. unfold spec_for. fold cond incr.
      rewrite for_list_runs; [reflexivity|]. intros k Hk. apply Ht. lia.
    Qed.

    Theorem T_for_inf_bytes m :
      (forall k, k <= m -> for_cond cond incr (eval s c) dec_zero k = true) ->
      (Z.of_nat (length (join0 (vals (S m)))) > ForMaxOutputBytes)%Z ->
      eval (AFor s x i) c = ForInfMarker.
    Proof.
      intros Ht Hb. cbn [eval]. rewrite op_for_spec. unfold spec_for. fold cond incr.
      rewrite (for_list_bytes ForMaxOutputBytes cond incr m); [reflexivity|assumption|].
      rewrite for_len_joined. exact Hb.
    Qed.
  End ForThm.

  (* {@ a b ...} / {$ a b ...}: the arguments' lists one after the other *)
  Theorem T_concat b es : es <> [] ->
    eval (Arr b es) c = join0 (map (fun e => eval e c) es) /\
    split0 (eval (Arr b es) c) = flat_map (fun e => split0 (eval e c)) es.
  Proof.
    intros H. cbn [eval]. rewrite op_arr_spec. split; [reflexivity|].
    rewrite split0_join0_flat by (destruct es; [congruence|discriminate]).
    now rewrite flat_map_concat_map, map_map, <- flat_map_concat_map.
  Qed.
End Helpers2.

Theorem T_subcontext c v0 v1 k :
  get_match (subctx c v0 v1) 0 = v0 /\ get_match (subctx c v0 v1) 1 = v1 /\
  (forall i, (i < 0 \/ i >= 2)%Z -> get_match (subctx c v0 v1) i = []) /\
  get_key (subctx c v0 v1) k = get_key c k.
Proof.
  repeat split. intros i Hi. unfold get_match, subctx. cbn [c_match].
  destruct (i <? 0)%Z eqn:E; [reflexivity|].
  assert (H : exists m, Z.to_nat i = S (S m)) by (exists (Z.to_nat i - 2); lia).
  destruct H as (m & ->). cbn. now destruct m.
Qed.
