(* C14 — laws of Model/Scale.v: unit interval, monotonicity, bucket / length ranges.
   All statements are for an arbitrary monotone mapper and an arbitrary monotone rounding that
   fixes 0, 1 and the integers below 2^53 and keeps positive values positive. *)
From Coq Require Import List ZArith QArith Qround Qabs Bool Lia Lqa.
From RareV Require Import Base.Num Model.Scale.
Import ListNotations.
Local Open Scope Q_scope.

(* ---------- truncation ---------- *)
Lemma qtrunc_floor q : 0 <= q -> qtrunc q = Qfloor q.
Proof.
  destruct q as [n d]. unfold Qle, qtrunc, Qfloor. simpl. intros H.
  rewrite Z.mul_1_r in H. apply Z.quot_div_nonneg; lia.
Qed.

Lemma qtrunc_nonneg q : 0 <= q -> (0 <= qtrunc q)%Z.
Proof.
  intros H. rewrite qtrunc_floor by assumption.
  change 0%Z with (Qfloor 0). apply Qfloor_resp_le. assumption.
Qed.

Lemma qtrunc_le_Z q k : 0 <= q -> q <= inject_Z k -> (qtrunc q <= k)%Z.
Proof.
  intros H0 H. rewrite qtrunc_floor by assumption.
  rewrite <- (Qfloor_Z k). apply Qfloor_resp_le. assumption.
Qed.

Lemma qtrunc_mono p q : 0 <= p -> p <= q -> (qtrunc p <= qtrunc q)%Z.
Proof.
  intros H0 H. rewrite !qtrunc_floor by lra. apply Qfloor_resp_le. assumption.
Qed.

Lemma qtrunc_nonpos q : q <= 0 -> (qtrunc q <= 0)%Z.
Proof.
  destruct q as [n d]. unfold Qle, qtrunc. simpl. rewrite Z.mul_1_r. intros H.
  apply Z.quot_le_upper_bound; lia.
Qed.

Definition small_int (k : Z) : Prop := (0 <= k <= 2 ^ 53)%Z.

Section Laws.
  Variable m : Z -> Q.
  Variable rnd : Q -> Q.
  Hypothesis m_mono : forall a b, (a <= b)%Z -> m a <= m b.
  Hypothesis rnd_mono : forall x y, x <= y -> rnd x <= rnd y.
  Hypothesis rnd_0 : rnd 0 == 0.
  Hypothesis rnd_1 : rnd 1 == 1.
  Hypothesis rnd_pos : forall x, 0 < x -> 0 < rnd x.
  Hypothesis rnd_int : forall k, small_int k -> rnd (inject_Z k) == inject_Z k.

  Lemma rnd_compat x y : x == y -> rnd x == rnd y.
  Proof. intros H. apply Qle_antisym; apply rnd_mono; rewrite H; apply Qle_refl. Qed.

  Lemma rnd_nonneg x : 0 <= x -> 0 <= rnd x.
  Proof. intros H. rewrite <- rnd_0. apply rnd_mono. assumption. Qed.

  Lemma remap_bounds mn mx v : (mn <= mx)%Z -> (mn <= v <= mx)%Z ->
    fst (remap m mn mx) <= m v /\ m v <= snd (remap m mn mx).
  Proof.
    intros Hle Hv. unfold remap. cbn [fst snd]. split.
    - apply Qle_trans with (m mn). apply Qfloor_le. apply m_mono. lia.
    - destruct (Z.leb_spec mx mn) as [H|H].
      + destruct (Z.ltb_spec mn max_int64).
        * apply Qle_trans with (m (mn + 1)%Z). apply m_mono. lia. apply Qle_ceiling.
        * apply Qle_trans with (m mn). apply m_mono. lia. apply Qle_ceiling.
      + apply Qle_trans with (m mx). apply m_mono. lia. apply Qle_ceiling.
  Qed.

  (* the quotient of the general branch *)
  Lemma quot_unit a lo hi : lo <= a -> a <= hi -> ~ lo == hi ->
    0 <= rnd (rnd (a - lo) / rnd (hi - lo)) <= 1.
  Proof.
    intros H1 H2 Hne.
    assert (Hd : 0 < hi - lo).
    { destruct (Qlt_le_dec lo hi) as [L|L]. lra. exfalso. apply Hne. lra. }
    assert (Hd' : 0 < rnd (hi - lo)) by (apply rnd_pos; assumption).
    assert (Hn : 0 <= rnd (a - lo)) by (apply rnd_nonneg; lra).
    assert (Hnd : rnd (a - lo) <= rnd (hi - lo)) by (apply rnd_mono; lra).
    split.
    - apply rnd_nonneg. apply Qle_shift_div_l. assumption. lra.
    - rewrite <- rnd_1. apply rnd_mono. apply Qle_shift_div_r. assumption. lra.
  Qed.

  Theorem scale_unit v mn mx : 0 <= scale m rnd v mn mx <= 1.
  Proof.
    unfold scale.
    destruct (Z.ltb_spec mx mn). lra.
    destruct (Z.ltb_spec v mn). lra.
    destruct (Z.ltb_spec mx v). lra.
    destruct (remap m mn mx) as [lo hi] eqn:E.
    destruct (Qeq_bool lo hi) eqn:Q. lra.
    pose proof (remap_bounds mn mx v ltac:(lia) ltac:(lia)) as [B1 B2]. rewrite E in B1, B2. cbn in B1, B2.
    apply quot_unit; try assumption. intro Heq. apply Qeq_bool_iff in Heq. congruence.
  Qed.

  Theorem scale_mono v v' mn mx : (v <= v')%Z ->
    scale m rnd v mn mx <= scale m rnd v' mn mx.
  Proof.
    intros Hv.
    pose proof (scale_unit v mn mx) as U. pose proof (scale_unit v' mn mx) as U'.
    unfold scale in *.
    destruct (Z.ltb_spec mx mn). lra.
    destruct (Z.ltb_spec v mn).
    { destruct (Z.ltb_spec v' mn). lra. apply U'. }
    destruct (Z.ltb_spec v' mn). lia.
    destruct (Z.ltb_spec mx v).
    { destruct (Z.ltb_spec mx v'). lra. lia. }
    destruct (Z.ltb_spec mx v'). apply U.
    destruct (remap m mn mx) as [lo hi] eqn:E.
    destruct (Qeq_bool lo hi) eqn:Q. lra.
    pose proof (remap_bounds mn mx v ltac:(lia) ltac:(lia)) as [B1 B2]. rewrite E in B1, B2. cbn in B1, B2.
    assert (Hne : ~ lo == hi) by (intro Heq; apply Qeq_bool_iff in Heq; congruence).
    assert (Hd : 0 < hi - lo).
    { destruct (Qlt_le_dec lo hi) as [L|L]. lra. exfalso. apply Hne. lra. }
    assert (Hd' : 0 < rnd (hi - lo)) by (apply rnd_pos; assumption).
    apply rnd_mono.
    assert (Hn : rnd (m v - lo) <= rnd (m v' - lo)).
    { apply rnd_mono. pose proof (m_mono v v' Hv). lra. }
    unfold Qdiv. apply Qmult_le_compat_r. assumption.
    apply Qlt_le_weak. apply Qinv_lt_0_compat. assumption.
  Qed.

  (* ---------- Bucket / LengthVal ---------- *)
  Lemma scaled_int_bounds k u : small_int k -> 0 <= u <= 1 ->
    0 <= rnd (u * inject_Z k) <= inject_Z k.
  Proof.
    intros Hk [H0 H1].
    assert (Hk0 : 0 <= inject_Z k).
    { change 0 with (inject_Z 0). rewrite <- Zle_Qle. apply Hk. }
    split.
    - apply rnd_nonneg. apply Qmult_le_0_compat; assumption.
    - rewrite <- (rnd_int k Hk) at 2. apply rnd_mono.
      rewrite <- (Qmult_1_l (inject_Z k)) at 2. apply Qmult_le_compat_r; assumption.
  Qed.

  Theorem length_val_range len u : small_int len -> 0 <= u <= 1 ->
    (0 <= length_val rnd len u <= len)%Z.
  Proof.
    intros Hk Hu. unfold length_val. destruct (scaled_int_bounds len u Hk Hu) as [A B]. split.
    - apply qtrunc_nonneg. assumption.
    - apply qtrunc_le_Z; assumption.
  Qed.

  Theorem length_val_mono len u u' : small_int len -> 0 <= u -> u <= u' ->
    (length_val rnd len u <= length_val rnd len u')%Z.
  Proof.
    intros Hk H0 Hu. unfold length_val.
    assert (Hk0 : 0 <= inject_Z len).
    { change 0 with (inject_Z 0). rewrite <- Zle_Qle. apply Hk. }
    apply qtrunc_mono.
    - apply rnd_nonneg. apply Qmult_le_0_compat; assumption.
    - apply rnd_mono. apply Qmult_le_compat_r; assumption.
  Qed.

  Theorem bucket_range n u : small_int (n - 1) -> 0 <= u <= 1 ->
    (0 <= bucket rnd n u <= n - 1)%Z.
  Proof. intros Hk Hu. exact (length_val_range (n - 1) u Hk Hu). Qed.

  Theorem bucket_mono n u u' : small_int (n - 1) -> 0 <= u -> u <= u' ->
    (bucket rnd n u <= bucket rnd n u')%Z.
  Proof. intros Hk H0 Hu. exact (length_val_mono (n - 1) u u' Hk H0 Hu). Qed.

  (* a negative magnitude (not produced by [scale] under [no_wrap]) selects nothing positive *)
  Lemma length_val_nonpos len u : (0 <= len)%Z -> u <= 0 -> (length_val rnd len u <= 0)%Z.
  Proof.
    intros Hk Hu. unfold length_val. apply qtrunc_nonpos.
    rewrite <- rnd_0. apply rnd_mono.
    assert (Hk0 : 0 <= inject_Z len).
    { change 0 with (inject_Z 0). rewrite <- Zle_Qle. assumption. }
    setoid_replace 0 with (0 * inject_Z len) by ring.
    apply Qmult_le_compat_r; assumption.
  Qed.

  (* ---------- ScaleKeys ---------- *)
  Variable un : Q -> Q.
  Lemma dedup_adj_length l : (length (dedup_adj l) <= length l)%nat.
  Proof.
    induction l as [|a [|b r] IH]; simpl; try lia.
    destruct (a =? b)%Z; simpl in *; lia.
  Qed.
  Lemma dedup_adj_nonempty l : l <> [] -> dedup_adj l <> [].
  Proof.
    induction l as [|a [|b r] IH]; simpl; intros H; try congruence.
    destruct (a =? b)%Z. apply IH. discriminate. discriminate.
  Qed.
  Lemma dedup_adj_head l : forall y, exists r, dedup_adj (y :: l) = y :: r.
  Proof.
    induction l as [|z l IH]; intros y.
    - exists []. reflexivity.
    - change (dedup_adj (y :: z :: l)) with (if (y =? z)%Z then dedup_adj (z :: l) else y :: dedup_adj (z :: l)).
      destruct (Z.eqb_spec y z). subst. apply IH. eexists. reflexivity.
  Qed.
  Fixpoint no_adj (l : list Z) : Prop :=
    match l with a :: r => match r with b :: _ => a <> b /\ no_adj r | [] => True end | [] => True end.
  Lemma dedup_no_adj l : no_adj (dedup_adj l).
  Proof.
    induction l as [|a l IH]. exact I.
    destruct l as [|b t]. exact I.
    change (dedup_adj (a :: b :: t)) with (if (a =? b)%Z then dedup_adj (b :: t) else a :: dedup_adj (b :: t)).
    destruct (Z.eqb_spec a b). exact IH.
    destruct (dedup_adj_head t b) as [r Hr]. rewrite Hr in *.
    split; assumption.
  Qed.

  Theorem scale_keys_length buckets mn mx :
    (length (scale_keys m rnd un buckets mn mx) <= buckets)%nat.
  Proof.
    unfold scale_keys. destruct (remap m mn mx) as [lo hi].
    eapply Nat.le_trans. apply dedup_adj_length. rewrite map_length, seq_length. lia.
  Qed.

  Theorem scale_keys_nonempty buckets mn mx : (0 < buckets)%nat ->
    scale_keys m rnd un buckets mn mx <> [].
  Proof.
    intros H. unfold scale_keys. destruct (remap m mn mx) as [lo hi].
    apply dedup_adj_nonempty. destruct buckets. lia. simpl. discriminate.
  Qed.

  Theorem scale_keys_no_adjacent_dup buckets mn mx : no_adj (scale_keys m rnd un buckets mn mx).
  Proof. unfold scale_keys. destruct (remap m mn mx) as [lo hi]. apply dedup_no_adj. Qed.
End Laws.

(* exact arithmetic is an instance of the rounding hypotheses (non-vacuity), and so is the
   linear mapper *)
Lemma id_rnd_ok :
  (forall x y : Q, x <= y -> (fun q => q) x <= (fun q => q) y) /\
  (fun q : Q => q) 0 == 0 /\ (fun q : Q => q) 1 == 1 /\
  (forall x : Q, 0 < x -> 0 < (fun q => q) x) /\
  (forall k, small_int k -> (fun q : Q => q) (inject_Z k) == inject_Z k).
Proof. repeat split; intros; try assumption; try reflexivity. Qed.

Lemma lin_mono : forall a b, (a <= b)%Z -> inject_Z a <= inject_Z b.
Proof. intros. rewrite <- Zle_Qle. assumption. Qed.

