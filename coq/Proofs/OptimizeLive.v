(* C10: {time live} / {time delta} are never folded, {time now} is a compile-time constant;
   typed arguments: the marker of a constant that does not parse. *)
From Coq Require Import List NArith ZArith Bool Arith Lia String.
From RareV Require Import Base.Hex Base.Res Base.Num Gen.GenC11 Model.Tmpl Model.Funcs Model.Eff Model.Optimize
                          Proofs.EffProof Proofs.OptimizeProof.
Import ListNotations.
Local Notation length := List.length.

Definition time_call (w : string) : tmpl := [PCall (nm "time") [[PLit (nm w)]]].
(* the stage {time live} / {time delta} compiles to (repaired touch) *)
Definition live_stage : stage := GetKey [] (fun _ => Now (fun t => Ret (itoa t))).
Definition delta_stage (c0 : Z) : stage := GetKey [] (fun _ => Now (fun t => Ret (itoa (t - c0)))).
(* the pinned code *)
Definition live_pinned : stage := GetMatch (-1) (fun _ => Now (fun t => Ret (itoa t))).

Lemma time_live_stage o c0 : meq (eval_tmpl o c0 std_env (time_call "live")) live_stage.
Proof.
  destruct o.
  - (* the optimiser keeps the stage *)
    change (eval_tmpl true c0 std_env (time_call "live")) with (mapp live_stage (Ret [])).
    apply mapp_nil_r.
  - change (eval_tmpl false c0 std_env (time_call "live")) with (mapp live_stage (Ret [])).
    apply mapp_nil_r.
Qed.

Lemma time_delta_stage o c0 : meq (eval_tmpl o c0 std_env (time_call "delta")) (delta_stage c0).
Proof.
  destruct o.
  - change (eval_tmpl true c0 std_env (time_call "delta")) with (mapp (delta_stage c0) (Ret [])).
    apply mapp_nil_r.
  - change (eval_tmpl false c0 std_env (time_call "delta")) with (mapp (delta_stage c0) (Ret [])).
    apply mapp_nil_r.
Qed.

(* not frozen: the probe sees a look-up, in both modes, and also inside any nesting of sub-contexts
   (funcs-file functions, binders), because a key look-up is passed on by every sub-context *)
Theorem live_not_frozen o c0 :
  static c0 (eval_tmpl o c0 std_env (time_call "live")) = None
  /\ static c0 (eval_tmpl o c0 std_env (time_call "delta")) = None.
Proof.
  rewrite (static_meq _ _ c0 (time_live_stage o c0)), (static_meq _ _ c0 (time_delta_stage o c0)).
  split; reflexivity.
Qed.

Theorem live_not_frozen_in_subcontext h c0 :
  static c0 (subst_match h live_stage) = None /\ static c0 (subst_match h (delta_stage c0)) = None.
Proof. split; reflexivity. Qed.

(* and it does follow the clock *)
Theorem live_follows_clock o c0 c clk :
  fst (run (eval_tmpl o c0 std_env (time_call "live")) c clk) = itoa clk
  /\ fst (run (eval_tmpl o c0 std_env (time_call "delta")) c clk) = itoa (clk - c0).
Proof.
  rewrite (run_meq _ _ (time_live_stage o c0)), (run_meq _ _ (time_delta_stage o c0)).
  split; reflexivity.
Qed.

(* {time now}: the clock is read when the expression is compiled, in both modes *)
Theorem now_is_compile_time o c0 c clk :
  run (eval_tmpl o c0 std_env (time_call "now")) c clk = (itoa c0, O).
Proof.
  assert (Hm : meq (eval_tmpl o c0 std_env (time_call "now")) (Ret (itoa c0))).
  { destruct o.
    - change (eval_tmpl true c0 std_env (time_call "now"))
        with (mconcat (optimize c0 [Ret (itoa c0)])).
      eapply meq_trans; [apply optimize_sound; repeat constructor|].
      change (mconcat [Ret (itoa c0)]) with (mapp (Ret (itoa c0)) (Ret [])). apply mapp_nil_r.
    - change (eval_tmpl false c0 std_env (time_call "now")) with (mapp (Ret (itoa c0)) (Ret [])).
      apply mapp_nil_r. }
  rewrite (run_meq _ _ Hm). reflexivity.
Qed.

(* the pinned touch (GetMatch(-1)) is answered locally by a sub-context: inside a funcs-file
   function the probe sees nothing and the live value is frozen at the compile-time clock *)
Theorem live_pinned_frozen_in_function :
  exists c0 args v, static c0 (with_args args live_pinned) = Some v
                    /\ exists c clk, fst (run (with_args args live_pinned) c clk) <> v.
Proof.
  exists 1000%Z, [Ret [49%N]], (itoa 1000). split; [reflexivity|].
  exists monitor, 1001%Z. vm_compute. discriminate.
Qed.

(* ---- typed arguments (stagesTypedEval.go) ---- *)
Lemma existsb_nth {A} (f : A -> bool) (l : list A) d i : (i < length l)%nat -> f (nth i l d) = true -> existsb f l = true.
Proof.
  revert i. induction l; intros i Hi Hf; simpl in *; [lia|].
  destruct i; [rewrite Hf; reflexivity|]. rewrite (IHl i); auto; [apply orb_true_r|lia].
Qed.

(* compile time: a constant argument that does not parse makes the constructor report an error *)
Theorem typed_args_compile_time f c0 (l : list (M bytes)) i s :
  (2 <= length l)%nat -> (i < length l)%nat -> static c0 (nth i l (Ret [])) = Some s -> atoi s = None ->
  exists q, h_body (H (p_ifold f)) c0 (map (static c0) l) = Err q.
Proof.
  intros L2 Li Hs Ha.
  cbn [h_body H]. unfold p_ifold, argc, atleast. rewrite map_length.
  replace (2 <=? length l)%nat with true by (symmetry; apply Nat.leb_le; auto).
  replace (const_bad (map (static c0) l)) with true; [eexists; reflexivity|].
  symmetry. unfold const_bad. apply existsb_nth with (d := None) (i := i).
  - rewrite map_length; auto.
  - rewrite (nth_indep _ None (static c0 (Ret ([] : bytes)))) by (rewrite map_length; auto).
    rewrite (map_nth (static c0)).
    match goal with |- match ?x with _ => _ end = _ => replace x with (Some s) by (symmetry; exact Hs) end.
    rewrite Ha. reflexivity.
Qed.

(* ... and pre-parsing the constant operands never changes the stage: it is the stage that parses every
   operand at run time, left to right (same value, same marker, same look-ups) *)
Definition no_view (l : list (M bytes)) : view := map (fun _ => None) l.

Lemma vstat_no_view l i : vstat (no_view l) i = None.
Proof. unfold vstat, no_view. revert i. induction l; intros i; destruct i; simpl; auto. Qed.

Lemma vstat_static c0 (l : list (M bytes)) : forall i s,
  vstat (map (static c0) l) i = Some s -> static c0 (nth i l (Ret [])) = Some s.
Proof.
  unfold vstat. induction l; intros i s; destruct i; simpl; try discriminate; auto.
Qed.

Lemma typed_int_insensitive c0 (l : list (M bytes)) i k k' :
  Forall kg l -> (forall o, meq (interp nomask l (k o)) (interp nomask l (k' o))) ->
  meq (interp nomask l (typed_int (map (static c0) l) i k)) (interp nomask l (typed_int (no_view l) i k')).
Proof.
  intros K Hk. unfold typed_int. rewrite vstat_no_view.
  destruct (vstat (map (static c0) l) i) as [s|] eqn:E.
  - apply vstat_static in E. cbn [interp nomask].
    rewrite (static_is_ret _ _ _ (kg_nth l i K) E). simpl. apply Hk.
  - cbn [interp nomask]. apply bind_meq; [apply meq_refl|]. intros x. apply Hk.
Qed.

Lemma ifold_run_insensitive f c0 (l : list (M bytes)) : Forall kg l -> forall is_ acc,
  meq (interp nomask l (ifold_run f (map (static c0) l) is_ acc))
      (interp nomask l (ifold_run f (no_view l) is_ acc)).
Proof.
  intros K. induction is_ as [|i r IH]; intros acc; cbn [ifold_run].
  - apply meq_refl.
  - apply typed_int_insensitive; auto. intros [x|]; [|apply meq_refl].
    destruct (iop f acc x); [apply IH|apply meq_refl].
Qed.

Theorem typed_args_insensitive f c0 (l : list (M bytes)) : Forall kg l ->
  meq (ctor_of c0 (H (p_ifold f)) l) (interp nomask l (p_ifold f (no_view l))).
Proof.
  intros K. unfold ctor_of. cbn [h_mask h_body H]. unfold p_ifold, argc.
  unfold no_view at 1. rewrite !map_length.
  destruct (atleast 2 (length l)); [|apply meq_refl].
  assert (Hq : forall q, meq (interp nomask l (if const_bad (map (static c0) l) then Err q else q)) (interp nomask l q))
    by (intros q; destruct (const_bad _); apply meq_refl).
  eapply meq_trans; [apply Hq|].
  replace (const_bad (no_view l)) with false.
  - apply typed_int_insensitive; auto. intros [a|]; [|apply meq_refl].
    unfold no_view at 2. rewrite map_length. apply ifold_run_insensitive; auto.
  - unfold no_view, const_bad. clear. induction l; simpl; auto.
Qed.

(* run time: the same text arriving from the context yields the same marker *)
Theorem typed_args_run_time f v i r acc (l : list stage) c clk s :
  vstat v i = None -> fst (run (nth i l (Ret [])) c clk) = s -> atoi s = None ->
  fst (run (interp nomask l (ifold_run f v (i :: r) acc)) c clk) = ErrorNum.
Proof.
  intros Hv Hs Ha. cbn [ifold_run]. unfold typed_int. rewrite Hv. cbn [interp nomask].
  rewrite run_bind. destruct (run (nth i l (Ret [])) c clk) as [a n]. simpl in Hs. subst a.
  rewrite Ha. reflexivity.
Qed.
