(* C14 — bars, palette indices and visible lengths (Model/Render.v, termunicode part). *)
From Coq Require Import List ZArith NArith QArith Bool Lia Lqa.
From RareV Require Import Base.Hex Base.Num Base.Res Gen.GenPalette Model.Scale Model.Render Proofs.ScaleProof.
Import ListNotations.
Local Open Scope Z_scope.

(* ---------- StrLen ---------- *)
Lemma sl_app : forall a b inc, sl inc (a ++ b) = (sl inc a + sl (sl_state inc a) b)%nat.
Proof.
  induction a as [|r t IH]; intros b inc; simpl. reflexivity.
  destruct (r =? ESC)%N. apply IH.
  destruct inc; simpl.
  - destruct (r =? CH_m)%N; apply IH.
  - rewrite IH. reflexivity.
Qed.
Lemma sl_state_app : forall a b inc, sl_state inc (a ++ b) = sl_state (sl_state inc a) b.
Proof.
  induction a as [|r t IH]; intros b inc; simpl. reflexivity.
  destruct (r =? ESC)%N. apply IH.
  destruct (inc && (r =? CH_m)%N); apply IH.
Qed.
Lemma sl_repeat c n : c <> ESC -> sl false (repeat c n) = n /\ sl_state false (repeat c n) = false.
Proof.
  intros H. induction n as [|n [IH1 IH2]]; simpl. auto.
  destruct (N.eqb_spec c ESC). contradiction. simpl. rewrite IH1, IH2. auto.
Qed.

(* an SGR code: invisible, and leaves the scanner outside a code *)
Definition code_ok (c : str) : bool := Nat.eqb (sl false c) 0 && negb (sl_state false c).
Lemma code_ok_spec c : code_ok c = true -> sl false c = 0%nat /\ sl_state false c = false.
Proof.
  unfold code_ok. intros H. apply andb_prop in H as [A B].
  apply Nat.eqb_eq in A. apply negb_true_iff in B. auto.
Qed.

(* closed: scanning the string from outside a code ends outside a code *)
Definition closed (col : bool) (s : str) : Prop := col = true -> sl_state false s = false.

Lemma str_len_app col a b : closed col a -> str_len col (a ++ b) = str_len col a + str_len col b.
Proof.
  unfold str_len, closed. destruct col; intros H.
  - rewrite sl_app, H by reflexivity. lia.
  - rewrite app_length. lia.
Qed.
Lemma closed_app col a b : closed col a -> closed col b -> closed col (a ++ b).
Proof. unfold closed. intros Ha Hb E. rewrite sl_state_app, Ha by assumption. auto. Qed.
Lemma closed_nil col : closed col []. Proof. intros _. reflexivity. Qed.
Lemma str_len_nil col : str_len col [] = 0. Proof. unfold str_len. destruct col; reflexivity. Qed.

Lemma rep_length n c : lenZ (rep n c) = Z.max 0 n.
Proof. unfold lenZ, rep. rewrite repeat_length. lia. Qed.
Lemma str_len_rep col n c : c <> ESC -> str_len col (rep n c) = Z.max 0 n /\ closed col (rep n c).
Proof.
  intros H. unfold str_len, closed, rep. destruct (sl_repeat c (Z.to_nat n) H) as [A B].
  destruct col.
  - rewrite A. split. lia. auto.
  - rewrite repeat_length. split. lia. discriminate.
Qed.

(* cwrite with an SGR code keeps the visible length of the body *)
Lemma reset_ok : code_ok col_Reset = true. Proof. vm_compute. reflexivity. Qed.
Lemma cwrite_len col c body : code_ok c = true -> closed col body ->
  str_len col (cwrite col c body) = str_len col body /\ closed col (cwrite col c body).
Proof.
  intros Hc Hb. apply code_ok_spec in Hc as [C1 C2].
  destruct (code_ok_spec _ reset_ok) as [R1 R2].
  unfold cwrite, str_len, closed in *. destruct col; [|auto].
  specialize (Hb eq_refl).
  rewrite !sl_app, !sl_state_app, C1, C2, Hb, R1. split. f_equal. lia. intros _. exact R2.
Qed.

(* ---------- palette facts (translator obligations, by computation) ---------- *)
Lemma group_colors_ok : forallb code_ok col_GroupColors = true. Proof. vm_compute. reflexivity. Qed.
Lemma heat_colors_ok : forallb code_ok heatmapColors = true. Proof. vm_compute. reflexivity. Qed.
Lemma group_colors_len : length col_GroupColors <> 0%nat. Proof. vm_compute. discriminate. Qed.
Lemma bar_ascii_len : length barAscii <> 0%nat. Proof. vm_compute. discriminate. Qed.
Lemma bar_ascii_no_esc : forallb (fun c => negb (c =? ESC)%N) barAscii = true. Proof. vm_compute. reflexivity. Qed.
Lemma blocks_no_esc : fullBlock <> ESC /\ nonUnicodeBlock <> ESC /\ heatmapNonUnicode <> ESC.
Proof. repeat split; vm_compute; discriminate. Qed.
Lemma bar_unicode_len : lenZ barUnicode = 9. Proof. vm_compute. reflexivity. Qed.
Lemma heat_ascii_cells : forallb (fun s => Nat.eqb (length s) 1 && Nat.eqb (sl false s) 1 && negb (sl_state false s)) heatmapAscii = true.
Proof. vm_compute. reflexivity. Qed.
Lemma palette_sizes : lenZ heatmapColors = 16 /\ lenZ heatmapAscii = 10 /\ lenZ sparkBlocks = 9 /\ lenZ sparkAscii = 4.
Proof. repeat split; vm_compute; reflexivity. Qed.

Lemma nth_mod_some {A} (l : list A) i : length l <> 0%nat -> exists x, nth_error l (i mod length l) = Some x /\ In x l.
Proof.
  intros H. destruct (nth_error l (i mod length l)) eqn:E.
  - exists a. split. reflexivity. eapply nth_error_In; eauto.
  - apply nth_error_None in E. pose proof (Nat.mod_upper_bound i (length l) H). lia.
Qed.

Lemma group_color_ok i : exists c, group_color i = Ok c /\ code_ok c = true.
Proof.
  unfold group_color. destruct (nth_mod_some col_GroupColors i group_colors_len) as [c [E I]].
  rewrite E. exists c. split. reflexivity.
  pose proof group_colors_ok as G. rewrite forallb_forall in G. auto.
Qed.

(* ---------- barWriteRunes ---------- *)
(* #15 repaired: never a panic, whatever the maximum *)
Theorem bar_runes_total c val maxVal maxLen limit : bar_runes c val maxVal maxLen limit <> Panic.
Proof. unfold bar_runes. discriminate. Qed.

Lemma bar_blocks_le val maxVal maxLen : 0 <= maxLen -> bar_blocks val maxVal maxLen <= maxLen.
Proof.
  intros H. unfold bar_blocks. destruct (Z.leb_spec maxVal 0). assumption.
  rewrite <- (Z.quot_mul maxLen maxVal) at 2 by lia.
  apply Z.quot_le_mono. lia. nia.
Qed.
Lemma bar_blocks_mono v v' maxVal maxLen : 0 <= maxLen -> v <= v' ->
  bar_blocks v maxVal maxLen <= bar_blocks v' maxVal maxLen.
Proof.
  intros H Hv. unfold bar_blocks. destruct (Z.leb_spec maxVal 0). lia.
  apply Z.quot_le_mono. lia. nia.
Qed.
Lemma bar_blocks_nonneg v maxVal maxLen : 0 <= maxLen -> 0 <= v -> 0 <= bar_blocks v maxVal maxLen.
Proof.
  intros H Hv. unfold bar_blocks. destruct (Z.leb_spec maxVal 0). lia.
  apply Z.quot_pos. nia. lia.
Qed.

(* what the repair of #15 changed: exactly the maxima <= 0 (a limit of the whole width is no limit) *)
Theorem bar_runes_repair c val maxVal maxLen : 0 <= maxLen ->
  (0 < maxVal -> bar_runes_unrepaired c val maxVal maxLen = bar_runes c val maxVal maxLen maxLen) /\
  (maxVal = 0 -> bar_runes_unrepaired c val maxVal maxLen = Panic).
Proof.
  intros HL. unfold bar_runes_unrepaired, bar_runes, bar_written. split; intros H.
  - pose proof (bar_blocks_le val maxVal maxLen HL) as B. unfold bar_blocks in *.
    destruct (Z.eqb_spec maxVal 0). lia. destruct (Z.leb_spec maxVal 0). lia.
    f_equal. unfold rep. f_equal. lia.
  - subst. reflexivity.
Qed.

(* 0 <= |bar| <= len (and <= the limit), monotone in the value *)
Theorem bar_runes_bounds c val maxVal maxLen limit s : 0 <= maxLen ->
  bar_runes c val maxVal maxLen limit = Ok s -> 0 <= lenZ s <= maxLen /\ lenZ s <= Z.max 0 limit.
Proof.
  intros H E. unfold bar_runes, bar_written in E. inversion E; subst. rewrite rep_length.
  pose proof (bar_blocks_le val maxVal maxLen H). lia.
Qed.
Theorem bar_runes_mono c v v' maxVal maxLen limit s s' : 0 <= maxLen -> v <= v' ->
  bar_runes c v maxVal maxLen limit = Ok s -> bar_runes c v' maxVal maxLen limit = Ok s' -> lenZ s <= lenZ s'.
Proof.
  intros H Hv E E'. unfold bar_runes, bar_written in *. inversion E; inversion E'; subst. rewrite !rep_length.
  pose proof (bar_blocks_mono v v' maxVal maxLen H Hv). lia.
Qed.

(* ---------- stacked bars ---------- *)
(* the visible width: what each segment writes, given what is left of the bar *)
Fixpoint stk_sum (maxVal maxLen remaining : Z) (vals : list Z) : Z :=
  match vals with
  | [] => 0
  | v :: r => bar_written v maxVal maxLen remaining +
              stk_sum maxVal maxLen (remaining - bar_written v maxVal maxLen remaining) r
  end.
(* the sum of the individually scaled segments (no cut) *)
Definition seg_sum (maxVal maxLen : Z) (vals : list Z) : Z :=
  fold_right (fun v a => Z.max 0 (bar_blocks v maxVal maxLen) + a) 0 vals.

Lemma bar_written_rep_len v maxVal maxLen remaining :
  Z.max 0 (bar_written v maxVal maxLen remaining) = bar_written v maxVal maxLen remaining.
Proof. unfold bar_written. lia. Qed.

Lemma bar_stacked_from_len col uni maxVal maxLen : forall vals i remaining,
  exists s, bar_stacked_from col uni i maxVal maxLen remaining vals = Ok s /\
            str_len col s = stk_sum maxVal maxLen remaining vals /\ closed col s.
Proof.
  destruct blocks_no_esc as [F [NB _]].
  induction vals as [|v r IH]; intros i remaining; cbn [bar_stacked_from stk_sum].
  - exists []. split. reflexivity. split. apply str_len_nil. apply closed_nil.
  - destruct (IH (S i) (remaining - bar_written v maxVal maxLen remaining)) as [rest [Er [Lr Cr]]].
    rewrite Er. clear IH.
    destruct col.
    + destruct (group_color_ok i) as [c [Ec Okc]]. rewrite Ec. cbn [rbind bar_runes].
      set (ch := if uni then fullBlock else nonUnicodeBlock).
      assert (Hch : ch <> ESC) by (unfold ch; destruct uni; assumption).
      destruct (str_len_rep true (bar_written v maxVal maxLen remaining) ch Hch) as [L C].
      rewrite bar_written_rep_len in L.
      destruct (cwrite_len true c _ Okc C) as [L2 C2].
      eexists. split. reflexivity. split.
      * rewrite str_len_app by assumption. rewrite L2, L, Lr. reflexivity.
      * apply closed_app; assumption.
    + destruct (nth_mod_some barAscii i bar_ascii_len) as [ch [E I]]. rewrite E. cbn [rbind bar_runes].
      assert (Hch : ch <> ESC).
      { pose proof bar_ascii_no_esc as G. rewrite forallb_forall in G. specialize (G ch I).
        apply negb_true_iff in G. apply N.eqb_neq in G. assumption. }
      destruct (str_len_rep false (bar_written v maxVal maxLen remaining) ch Hch) as [L C].
      rewrite bar_written_rep_len in L.
      eexists. split. reflexivity. split.
      * rewrite str_len_app by assumption. rewrite L, Lr. reflexivity.
      * apply closed_app; assumption.
Qed.

Theorem bar_stacked_total col uni maxVal maxLen vals : bar_stacked col uni maxVal maxLen vals <> Panic.
Proof.
  unfold bar_stacked. destruct (bar_stacked_from_len col uni maxVal maxLen vals 0%nat maxLen) as [s [E _]].
  rewrite E. discriminate.
Qed.

(* whatever the values and the maximum: the segments fit into what is left *)
Lemma stk_sum_bound maxVal maxLen : forall vals remaining,
  0 <= stk_sum maxVal maxLen remaining vals <= Z.max 0 remaining.
Proof.
  induction vals as [|v r IH]; intros remaining; cbn [stk_sum]. lia.
  specialize (IH (remaining - bar_written v maxVal maxLen remaining)).
  unfold bar_written in *. lia.
Qed.

(* "bars never exceed their maximum width", stacked, for ALL integers (values, maximum) *)
Theorem bar_stacked_bounds col uni maxVal maxLen vals s : 0 <= maxLen ->
  bar_stacked col uni maxVal maxLen vals = Ok s -> 0 <= str_len col s <= maxLen.
Proof.
  intros HL E. unfold bar_stacked in E.
  destruct (bar_stacked_from_len col uni maxVal maxLen vals 0%nat maxLen) as [s' [E' [L _]]].
  rewrite E in E'. inversion E'; subst s'. rewrite L.
  pose proof (stk_sum_bound maxVal maxLen vals maxLen). lia.
Qed.

(* and the cut does not bite in the regular case: with non-negative values whose total the
   maximum bounds (what BarGraph draws when no value is negative) every segment has its own
   proportional length floor(v * len / max) *)
Lemma seg_sum_cons maxVal maxLen v r :
  seg_sum maxVal maxLen (v :: r) = Z.max 0 (bar_blocks v maxVal maxLen) + seg_sum maxVal maxLen r.
Proof. reflexivity. Qed.
Lemma seg_sum_nonneg maxVal maxLen r : 0 <= seg_sum maxVal maxLen r.
Proof. induction r as [|v r IH]. unfold seg_sum; simpl; lia. rewrite seg_sum_cons. lia. Qed.
Lemma stk_sum_exact maxVal maxLen : forall vals remaining,
  seg_sum maxVal maxLen vals <= remaining -> stk_sum maxVal maxLen remaining vals = seg_sum maxVal maxLen vals.
Proof.
  induction vals as [|v r IH]; intros remaining H; cbn [stk_sum]. reflexivity.
  rewrite seg_sum_cons in *. pose proof (seg_sum_nonneg maxVal maxLen r) as N.
  assert (W : bar_written v maxVal maxLen remaining = Z.max 0 (bar_blocks v maxVal maxLen)).
  { unfold bar_written. lia. }
  rewrite W, IH. reflexivity. lia.
Qed.
Lemma seg_sum_bound maxVal maxLen : 0 <= maxLen -> 0 < maxVal -> forall vals,
  Forall (fun v => 0 <= v) vals ->
  seg_sum maxVal maxLen vals * maxVal <= fold_right Z.add 0 vals * maxLen.
Proof.
  intros HL HM. induction 1 as [|v r Hv Hr IH]. simpl. lia.
  rewrite seg_sum_cons. cbn [fold_right].
  assert (B : Z.max 0 (bar_blocks v maxVal maxLen) * maxVal <= v * maxLen).
  { pose proof (bar_blocks_nonneg v maxVal maxLen HL Hv).
    unfold bar_blocks in *. destruct (Z.leb_spec maxVal 0). lia.
    rewrite Z.max_r by assumption.
    assert (Q : Z.quot (Z.min v maxVal * maxLen) maxVal * maxVal <= Z.min v maxVal * maxLen).
    { rewrite Z.mul_comm. apply Z.mul_quot_le. nia. lia. }
    nia. }
  nia.
Qed.
Theorem bar_stacked_proportional col uni maxVal maxLen vals s : 0 <= maxLen -> 0 < maxVal ->
  Forall (fun v => 0 <= v) vals -> fold_right Z.add 0 vals <= maxVal ->
  bar_stacked col uni maxVal maxLen vals = Ok s -> str_len col s = seg_sum maxVal maxLen vals.
Proof.
  intros HL HM Hv Hs E. unfold bar_stacked in E.
  destruct (bar_stacked_from_len col uni maxVal maxLen vals 0%nat maxLen) as [s' [E' [L _]]].
  rewrite E in E'. inversion E'; subst s'. rewrite L. apply stk_sum_exact.
  pose proof (seg_sum_bound maxVal maxLen HL HM vals Hv). nia.
Qed.

(* ---------- BarWrite ---------- *)
Section BarWrite.
  Variable rnd : Q -> Q.
  Hypothesis rnd_mono : forall x y, (x <= y)%Q -> (rnd x <= rnd y)%Q.
  Hypothesis rnd_0 : (rnd 0 == 0)%Q.
  Hypothesis rnd_int : forall k, small_int k -> (rnd (inject_Z k) == inject_Z k)%Q.

  (* no index outside barUnicode, for any magnitude at all *)
  Theorem bar_write_total uni u len : bar_write uni rnd u len <> Panic.
  Proof.
    unfold bar_write. destruct uni; [|discriminate].
    rewrite bar_unicode_len.
    set (rb := length_val rnd (len * 9) u).
    set (full := if (9 <=? rb) && (0 <? 9) then rb / 9 else 0).
    destruct (Z.ltb_spec 0 (rb - full * 9)); [|discriminate].
    assert (R : rb - full * 9 < 9).
    { unfold full. destruct (Z.leb_spec 9 rb); simpl.
      - pose proof (Z.mod_pos_bound rb 9 ltac:(lia)). rewrite Z.mod_eq in H1 by lia. lia.
      - lia. }
    destruct (nth_error barUnicode (Z.to_nat (rb - full * 9))) eqn:E. discriminate.
    apply nth_error_None in E. pose proof bar_unicode_len as L. unfold lenZ in L. lia.
  Qed.

  Lemma bar_write_len uni u len s : bar_write uni rnd u len = Ok s ->
    lenZ s = if uni then let rb := length_val rnd (len * 9) u in (if 9 <=? rb then rb / 9 else 0) +
                                 (if 0 <? rb - (if 9 <=? rb then rb / 9 else 0) * 9 then 1 else 0)
             else Z.max 0 (length_val rnd len u).
  Proof.
    unfold bar_write. destruct uni.
    - rewrite bar_unicode_len. cbv zeta.
      set (rb := length_val rnd (len * 9) u).
      replace ((9 <=? rb) && (0 <? 9)) with (9 <=? rb) by (rewrite andb_true_r; reflexivity).
      set (full := if 9 <=? rb then rb / 9 else 0).
      assert (F : 0 <= full).
      { unfold full. destruct (Z.leb_spec 9 rb). apply Z.div_pos; lia. lia. }
      destruct (Z.ltb_spec 0 (rb - full * 9)).
      + destruct (nth_error barUnicode _); intros E; inversion E; subst.
        unfold lenZ. rewrite app_length. simpl. fold (lenZ (rep full fullBlock)).
        pose proof (rep_length full fullBlock) as RL. unfold lenZ in RL. lia.
      + intros E; inversion E; subst. rewrite rep_length. lia.
    - intros E; inversion E; subst. apply rep_length.
  Qed.

  (* 0 <= |bar| <= len for a magnitude in [0,1] ... *)
  Theorem bar_write_bounds uni u len s : small_int (len * 9) -> (0 <= u <= 1)%Q ->
    bar_write uni rnd u len = Ok s -> 0 <= lenZ s <= len.
  Proof.
    intros Hs Hu E. rewrite (bar_write_len uni u len s E).
    assert (Hl : small_int len) by (unfold small_int in *; lia).
    destruct uni.
    - cbv zeta. pose proof (length_val_range rnd rnd_mono rnd_0 rnd_int (len * 9) u Hs Hu) as R.
      set (rb := length_val rnd (len * 9) u) in *.
      destruct (Z.leb_spec 9 rb).
      + pose proof (Z.div_mod rb 9 ltac:(lia)). pose proof (Z.mod_pos_bound rb 9 ltac:(lia)).
        destruct (Z.ltb_spec 0 (rb - rb / 9 * 9)); lia.
      + destruct (Z.ltb_spec 0 (rb - 0 * 9)); unfold small_int in Hl; lia.
    - pose proof (length_val_range rnd rnd_mono rnd_0 rnd_int len u Hl Hu). lia.
  Qed.

  Lemma ceil9_spec x :
    (if 9 <=? x then x / 9 else 0) + (if 0 <? x - (if 9 <=? x then x / 9 else 0) * 9 then 1 else 0)
    = if x <=? 0 then 0 else (x + 8) / 9.
  Proof.
    destruct (Z.leb_spec 9 x); destruct (Z.leb_spec x 0); try lia.
    - destruct (Z.ltb_spec 0 (x - x / 9 * 9)); Z.div_mod_to_equations; lia.
    - destruct (Z.ltb_spec 0 (x - 0 * 9)); lia.
    - destruct (Z.ltb_spec 0 (x - 0 * 9)); Z.div_mod_to_equations; lia.
  Qed.

  (* ... and the bar grows with the magnitude *)
  Theorem bar_write_mono uni u u' len s s' : small_int (len * 9) -> (0 <= u)%Q -> (u <= u')%Q ->
    bar_write uni rnd u len = Ok s -> bar_write uni rnd u' len = Ok s' -> lenZ s <= lenZ s'.
  Proof.
    intros Hs H0 Hu E E'. rewrite (bar_write_len _ _ _ _ E), (bar_write_len _ _ _ _ E').
    assert (Hl : small_int len) by (unfold small_int in *; lia).
    destruct uni.
    - cbv zeta. pose proof (length_val_mono rnd rnd_mono rnd_0 (len * 9) u u' Hs H0 Hu) as M.
      rewrite !ceil9_spec.
      set (a := length_val rnd (len * 9) u) in *. set (b := length_val rnd (len * 9) u') in *.
      destruct (Z.leb_spec a 0); destruct (Z.leb_spec b 0); try lia.
      + apply Z.div_pos; lia.
      + apply Z.div_le_mono; lia.
    - pose proof (length_val_mono rnd rnd_mono rnd_0 len u u' Hl H0 Hu). lia.
  Qed.

  (* ---------- HeatWrite / SparkWrite: the palette index is in range ---------- *)
  Lemma nth_in_range {A} (l : list A) z : 0 <= z <= lenZ l - 1 -> exists x, nth_error l (Z.to_nat z) = Some x /\ In x l.
  Proof.
    intros H. destruct (nth_error l (Z.to_nat z)) eqn:E.
    - exists a. split. reflexivity. eapply nth_error_In; eauto.
    - apply nth_error_None in E. unfold lenZ in H. lia.
  Qed.

  Theorem heat_write_cell col uni u : (0 <= u <= 1)%Q ->
    exists s, heat_write col uni rnd u = Ok s /\ str_len col s = 1 /\ closed col s.
  Proof.
    intros Hu. unfold heat_write, heat_idx. destruct palette_sizes as [P1 [P2 _]].
    destruct blocks_no_esc as [F [_ NH]].
    destruct col.
    - rewrite P1. pose proof (bucket_range rnd rnd_mono rnd_0 rnd_int 16 u ltac:(unfold small_int; simpl; lia) Hu) as R.
      destruct (Z.ltb_spec (bucket rnd 16 u) 0). lia.
      destruct (nth_in_range heatmapColors (bucket rnd 16 u) ltac:(rewrite P1; lia)) as [hc [E I]].
      rewrite E. eexists. split. reflexivity.
      pose proof heat_colors_ok as G. rewrite forallb_forall in G. specialize (G hc I).
      set (ch := if uni then fullBlock else heatmapNonUnicode).
      assert (Hch : ch <> ESC) by (unfold ch; destruct uni; assumption).
      unfold wrap.
      replace (ends_reset [ch]) with false by (unfold ends_reset; simpl; reflexivity).
      destruct (str_len_rep true 1 ch Hch) as [L C]. change (rep 1 ch) with [ch] in *.
      destruct (cwrite_len true hc [ch] G C) as [L2 C2]. unfold cwrite in *.
      split. rewrite L2, L. reflexivity. assumption.
    - rewrite P2. pose proof (bucket_range rnd rnd_mono rnd_0 rnd_int 10 u ltac:(unfold small_int; simpl; lia) Hu) as R.
      destruct (Z.ltb_spec (bucket rnd 10 u) 0). lia.
      destruct (nth_in_range heatmapAscii (bucket rnd 10 u) ltac:(rewrite P2; lia)) as [s [E I]].
      rewrite E. exists s. split. reflexivity.
      pose proof heat_ascii_cells as G. rewrite forallb_forall in G. specialize (G s I).
      apply andb_prop in G as [G _]. apply andb_prop in G as [G1 _]. apply Nat.eqb_eq in G1.
      unfold str_len, closed. rewrite G1. split. reflexivity. discriminate.
  Qed.

  Theorem spark_write_cell uni u : (0 <= u <= 1)%Q ->
    exists r, spark_write uni rnd u = Ok [r].
  Proof.
    intros Hu. unfold spark_write, spark_idx. destruct palette_sizes as [_ [_ [P3 P4]]].
    destruct uni.
    - rewrite P3. pose proof (bucket_range rnd rnd_mono rnd_0 rnd_int 9 u ltac:(unfold small_int; simpl; lia) Hu) as R.
      destruct (Z.ltb_spec (bucket rnd 9 u) 0). lia.
      destruct (nth_in_range sparkBlocks (bucket rnd 9 u) ltac:(rewrite P3; lia)) as [r [E _]].
      rewrite E. exists r. reflexivity.
    - rewrite P4. pose proof (bucket_range rnd rnd_mono rnd_0 rnd_int 4 u ltac:(unfold small_int; simpl; lia) Hu) as R.
      destruct (Z.ltb_spec (bucket rnd 4 u) 0). lia.
      destruct (nth_in_range sparkAscii (bucket rnd 4 u) ltac:(rewrite P4; lia)) as [r [E _]].
      rewrite E. exists r. reflexivity.
  Qed.
End BarWrite.
