(* C07 — the boolean form used on the implementation's outputs accepts what the model produces
   (history kinds whose observables are compared exactly). *)
From Coq Require Import List NArith ZArith QArith Bool Lia Permutation.
From RareV Require Import Base.Hex Base.Num Base.Res Model.Agg Model.Welford Corr.C07Case
  Proofs.AggMap Proofs.AggCounter Proofs.AggTable Proofs.AggSubkey Proofs.AggAccum Proofs.AggLawDefs Proofs.AggLaw.
Import ListNotations.

Lemma scan_prefixes {S X} (f : S -> X -> S) h : forall s, scan f h s = map (fun p => fold_left f p s) (prefixes h).
Proof.
  induction h as [|x h IH]; intros s; cbn [scan prefixes map fold_left]; [reflexivity|].
  rewrite IH, map_map. reflexivity.
Qed.

Lemma list_eqb_refl {A} (eqb : A -> A -> bool) l : (forall x, In x l -> eqb x x = true) -> list_eqb eqb l l = true.
Proof.
  induction l as [|x l IH]; intros H; cbn; [reflexivity|].
  rewrite (H x) by (left; reflexivity). apply IH. intros y Hy. apply H. right. exact Hy.
Qed.
Lemma bytes_eqb_refl b : bytes_eqb b b = true.
Proof. apply bytes_eqb_eq. reflexivity. Qed.
Lemma bl_eqb_refl l : bl_eqb l l = true.
Proof. apply list_eqb_refl. intros; apply bytes_eqb_refl. Qed.
Lemma Zl_eqb_refl l : Zl_eqb l l = true.
Proof. apply list_eqb_refl. intros; apply Z.eqb_refl. Qed.

Lemma tobs_eqb_refl t : tobs_eqb t t = true.
Proof.
  unfold tobs_eqb. rewrite bl_eqb_refl, !Zl_eqb_refl, !Z.eqb_refl, !N.eqb_refl.
  rewrite list_eqb_refl; [reflexivity|]. intros x _. rewrite bytes_eqb_refl, Z.eqb_refl, Zl_eqb_refl. reflexivity.
Qed.

Definition exact_obs (o : obs) : Prop := match o with ONm _ => False | _ => True end.
Lemma obs_eqb_refl o : exact_obs o -> obs_eqb o o = true.
Proof.
  destruct o; cbn; intros H; try contradiction.
  - rewrite !N.eqb_refl, Z.eqb_refl, list_eqb_refl; [reflexivity|]. intros x _. rewrite bytes_eqb_refl, Z.eqb_refl. reflexivity.
  - rewrite bl_eqb_refl, N.eqb_refl, list_eqb_refl; [reflexivity|]. intros x _. rewrite bytes_eqb_refl, Z.eqb_refl, Zl_eqb_refl. reflexivity.
  - apply tobs_eqb_refl.
  - rewrite N.eqb_refl, list_eqb_refl; [reflexivity|]. intros x _. rewrite bytes_eqb_refl, bl_eqb_refl. reflexivity.
Qed.
Lemma oeqb_refl l : (forall o, In o l -> exact_obs o) -> oeqb l l = true.
Proof. intros H. apply list_eqb_refl. intros o Ho. apply obs_eqb_refl, H, Ho. Qed.

Definition exact_kind (i : cin) : Prop :=
  match i with
  | INum _ _ _ _ => False
  | IPerm _ h1 h2 => Permutation h1 h2
  | _ => True
  end.

Theorem check_sound_proof : forall i, exact_kind i -> check i (model i) = true.
Proof.
  intros [h|h|d h|d h p h2 p2|bad d h|k r ps h|k h1 h2] G; cbn [exact_kind] in G; try contradiction; cbn [check model].
  - rewrite scan_prefixes, map_map.
    rewrite (map_ext (fun p => oC (spec_counter p)) (fun p => oC (fold_left c_sample p c0))).
    + apply oeqb_refl. intros o Ho. apply in_map_iff in Ho as (p & <- & _). unfold oC. cbn. exact I.
    + intros p. rewrite <- counter_fold_proof. reflexivity.
  - rewrite scan_prefixes, map_map.
    rewrite (map_ext (fun p => oS (spec_subkey p)) (fun p => oS (fold_left s_sample p s0))).
    + apply oeqb_refl. intros o Ho. apply in_map_iff in Ho as (p & <- & _). exact I.
    + intros p. rewrite <- subkey_fold_proof. reflexivity.
  - rewrite scan_prefixes, map_map.
    rewrite (map_ext (fun p => oT (spec_table d p)) (fun p => oT (fold_left (t_sample d) p t0))).
    + apply oeqb_refl. intros o Ho. apply in_map_iff in Ho as (p & <- & _). exact I.
    + intros p. rewrite <- table_fold_proof. reflexivity.
  - change t0 with (rebuild [] 0%N). rewrite (scan_opm d _ [] 0%N cs_ok_nil), skipn_map, map_map.
    apply oeqb_refl. intros o Ho. apply in_map_iff in Ho as (st & <- & _). exact I.
  - rewrite scan_prefixes, map_map.
    rewrite (map_ext (fun p => oA (spec_accum expr (eval_expr bad) d p)) (fun p => oA (fold_left (a_sample expr (eval_expr bad) d) p []))).
    + apply oeqb_refl. intros o Ho. apply in_map_iff in Ho as (p & <- & _). exact I.
    + intros p. rewrite <- accum_fold_proof. reflexivity.
  - destruct k as [|[q|q|]]; cbv beta iota.
    + rewrite (counter_perm_proof h1 h2 G). apply obs_eqb_refl. unfold oC. cbn. exact I.
    + rewrite (table_perm_proof [0%N] h1 h2 G). apply obs_eqb_refl. exact I.
    + rewrite (table_perm_proof [0%N] h1 h2 G). apply obs_eqb_refl. exact I.
    + rewrite (subkey_perm_proof h1 h2 G). apply obs_eqb_refl. exact I.
Qed.
