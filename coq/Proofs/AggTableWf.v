(* C07 — well-formedness of a table state (what the fold over Sample establishes; Trim's hypothesis). *)
From Coq Require Import List NArith ZArith Bool.
From RareV Require Import Base.Hex Base.Num Model.Agg Proofs.AggMap.
Import ListNotations.

Definition t_wf (t : table) : Prop :=
  asorted (t_rows t) /\ asorted (t_cols t) /\
  (* every row has sorted, non-empty cells, all in known columns *)
  (forall r cells sm, In (r, (cells, sm)) (t_rows t) ->
     asorted cells /\ cells <> [] /\ forall c, In c (map fst cells) -> In c (map fst (t_cols t))) /\
  (* every column has a cell *)
  (forall c, In c (map fst (t_cols t)) ->
     exists r cells sm, In (r, (cells, sm)) (t_rows t) /\ In c (map fst cells)).

(* the totals are those of the cells *)
Definition t_totals_ok (t : table) : Prop :=
  (forall r cells sm, In (r, (cells, sm)) (t_rows t) -> sm = wrap64 (zsum (map snd cells))) /\
  (forall c v, In (c, v) (t_cols t) ->
     v = wrap64 (zsum (map (fun rw : bytes * trow => t_value (snd rw) c) (t_rows t)))).
