(* C11 proofs, part 1: bucketing, clamp, expbucket, integer folds, error markers. *)
From Coq Require Import List NArith ZArith Lia Bool ZifyN ZifyNat ZifyBool.
From RareV Require Import Base.Hex Base.Res Base.Num Gen.GenC11 Model.Humanize Model.CsvItem Model.Funcs Proofs.NumProof.
Import ListNotations.
Local Open Scope Z_scope.

Lemma in_int64_iff z : in_int64 z = true <-> min_int64 <= z <= max_int64.
Proof. unfold in_int64. rewrite andb_true_iff, !Z.leb_le. tauto. Qed.

Lemma wrap64_id z : min_int64 <= z <= max_int64 -> wrap64 z = z.
Proof.
  unfold wrap64, min_int64, max_int64. intros H.
  rewrite Z.mod_small by lia. lia.
Qed.

Lemma atoi_range s z : atoi s = Some z -> min_int64 <= z <= max_int64.
Proof. intros H. apply in_int64_iff. eapply atoi_in_range; eauto. Qed.

(* ---- truncated vs floor division ---- *)
Lemma quot_floor_neg_exact v s : 0 < s -> v < 0 -> Z.rem v s = 0 -> Z.quot v s * s = s * (v / s).
Proof.
intros. 
pose proof (Z.quot_rem' v s). pose proof (Z.div_mod v s ltac:(lia)). pose proof (Z.mod_pos_bound v s ltac:(lia)).
rewrite H1 in H2.
assert (v mod s = 0). { assert (s * (Z.quot v s - v / s) = v mod s) by lia. assert (Z.quot v s - v / s = 0 \/ Z.quot v s - v / s >= 1 \/ Z.quot v s - v / s <= -1) by lia. nia. }
nia.
Qed.
Lemma quot_floor_neg_inexact v s : 0 < s -> v < 0 -> Z.rem v s <> 0 -> Z.quot v s * s - s = s * (v / s).
Proof.
intros. 
pose proof (Z.quot_rem' v s). pose proof (Z.div_mod v s ltac:(lia)). pose proof (Z.mod_pos_bound v s ltac:(lia)).
pose proof (Z.rem_bound_pos_neg v s ltac:(lia) ltac:(lia)).
assert (s * (Z.quot v s - 1 - v / s) = v mod s - Z.rem v s - s) by lia.
assert (Z.quot v s - 1 - v / s = 0 \/ Z.quot v s - 1 - v / s >= 1 \/ Z.quot v s - 1 - v / s <= -1) by lia. nia.
Qed.
Lemma quot_floor_nonneg v s : 0 < s -> 0 <= v -> Z.quot v s * s = s * (v / s).
Proof. intros. rewrite Z.quot_div_nonneg by lia. lia. Qed.
Lemma floor_bounds v s : 0 < s -> s * (v / s) <= v < s * (v / s) + s.
Proof. intros. pose proof (Z.div_mod v s ltac:(lia)). pose proof (Z.mod_pos_bound v s ltac:(lia)). lia. Qed.
Lemma quot_abs_le x y : y <> 0 -> Z.abs (Z.quot x y) <= Z.abs x.
Proof.
  intros. rewrite <- Z.quot_abs by lia. rewrite Z.quot_div_nonneg by lia.
  apply Z.div_le_upper_bound; nia.
Qed.
Lemma quot_abs_half x y : 2 <= Z.abs y -> 2 * Z.abs (Z.quot x y) <= Z.abs x.
Proof.
  intros. rewrite <- Z.quot_abs by lia. rewrite Z.quot_div_nonneg by lia.
  pose proof (Z.div_mod (Z.abs x) (Z.abs y) ltac:(lia)). pose proof (Z.mod_pos_bound (Z.abs x) (Z.abs y) ltac:(lia)).
  assert (0 <= Z.abs x / Z.abs y) by (apply Z.div_pos; lia). nia.
Qed.

(* ---- bucket ---- *)
Lemma bucket_val_spec v s :
  0 < s -> min_int64 + s <= v -> v <= max_int64 -> bucket_val v s = spec_bucket v s.
Proof.
  intros Hs Hlo Hhi. unfold bucket_val, spec_bucket.
  destruct (v <? 0) eqn:Hn; cbn [andb].
  - apply Z.ltb_lt in Hn. destruct (Z.rem v s =? 0) eqn:Hr; cbn [negb].
    + apply Z.eqb_eq in Hr. apply quot_floor_neg_exact; assumption.
    + apply Z.eqb_neq in Hr.
      rewrite quot_floor_neg_inexact by assumption. apply wrap64_id.
      pose proof (floor_bounds v s Hs). unfold min_int64, max_int64 in *. lia.
  - apply Z.ltb_ge in Hn. apply quot_floor_nonneg; assumption.
Qed.

Lemma spec_bucket_law v s : 0 < s ->
  (s | spec_bucket v s) /\ spec_bucket v s <= v < spec_bucket v s + s.
Proof.
  intros Hs. unfold spec_bucket. split.
  - exists (v / s). lia.
  - apply floor_bounds. exact Hs.
Qed.

(* uniqueness: the law determines the bucket *)
Lemma bucket_unique v s b b' : 0 < s ->
  (s | b) -> b <= v < b + s -> (s | b') -> b' <= v < b' + s -> b = b'.
Proof.
  intros Hs [k ->] H1 [k' ->] H2. assert (k = k') by nia. subst. reflexivity.
Qed.

Theorem bucket_law_proof : forall c0 a sz fa fs v s,
  atoi a = Some v -> atoi sz = Some s -> 0 < s -> min_int64 + s <= v ->
  exists b, f_bucket [A c0 a fa; A true sz fs] = Ok (itoa b) /\ atoi (itoa b) = Some b /\
            (s | b) /\ b <= v < b + s.
Proof.
  intros c0 a sz fa fs v s Ha Hsz Hs Hlo.
  pose proof (atoi_range _ _ Ha) as Rv.
  exists (spec_bucket v s).
  pose proof (spec_bucket_law v s Hs) as [Hd Hb].
  split; [|split; [|split; assumption]].
  - unfold f_bucket, with_bucket, static_int. cbn [a_const a_val]. rewrite Hsz.
    assert (E : (s <=? 0) = false) by (apply Z.leb_gt; lia). rewrite E, Ha.
    rewrite bucket_val_spec by lia. reflexivity.
  - apply atoi_itoa. apply in_int64_iff. unfold min_int64, max_int64 in *. lia.
Qed.

Theorem bucketrange_law_proof : forall c0 a sz fa fs v s,
  atoi a = Some v -> atoi sz = Some s -> 0 < s -> min_int64 + s <= v ->
  spec_bucket v s + s - 1 <= max_int64 ->
  f_bucketrange [A c0 a fa; A true sz fs] =
    Ok (itoa (spec_bucket v s) ++ [32; 45; 32]%N ++ itoa (spec_bucket v s + s - 1)).
Proof.
  intros c0 a sz fa fs v s Ha Hsz Hs Hlo Hhi.
  pose proof (atoi_range _ _ Ha) as Rv.
  pose proof (spec_bucket_law v s Hs) as [Hd Hb].
  unfold f_bucketrange, with_bucket, static_int. cbn [a_const a_val]. rewrite Hsz.
  assert (E : (s <=? 0) = false) by (apply Z.leb_gt; lia). rewrite E, Ha.
  rewrite bucket_val_spec by lia.
  replace (spec_bucket v s + (s - 1)) with (spec_bucket v s + s - 1) by lia.
  rewrite wrap64_id by (unfold min_int64, max_int64 in *; lia). reflexivity.
Qed.

(* validation: size must be a constant positive integer, the value an integer *)
Theorem bucket_markers_proof : forall a b,
  (static_int b = None -> f_bucket [a; b] = Ok ErrorNum) /\
  (forall s, static_int b = Some s -> s <= 0 -> f_bucket [a; b] = Ok ErrorValue) /\
  (forall s, static_int b = Some s -> 0 < s -> atoi (a_val a) = None -> f_bucket [a; b] = Ok ErrorNum).
Proof.
  intros a b. unfold f_bucket, with_bucket. repeat split.
  - intros ->. reflexivity.
  - intros s -> H. apply Z.leb_le in H. rewrite H. reflexivity.
  - intros s -> H Hn. assert (E : (s <=? 0) = false) by (apply Z.leb_gt; lia). rewrite E, Hn. reflexivity.
Qed.

(* ---- clamp ---- *)
Theorem clamp_law_proof : forall a lo hi v l h,
  atoi (a_val a) = Some v -> static_int lo = Some l -> static_int hi = Some h ->
  (l <= v <= h -> f_clamp [a; lo; hi] = Ok (a_val a)) /\
  (v < l -> f_clamp [a; lo; hi] = Ok [109; 105; 110]%N) /\
  (l <= v -> h < v -> f_clamp [a; lo; hi] = Ok [109; 97; 120]%N) /\
  (f_clamp [a; lo; hi] = Ok (a_val a) <-> l <= v <= h).
Proof.
  intros a lo hi v l h Ha Hl Hh. unfold f_clamp. rewrite Hl, Hh, Ha.
  destruct (v <? l) eqn:E1; [apply Z.ltb_lt in E1|apply Z.ltb_ge in E1];
  (destruct (v >? h) eqn:E2; [apply Z.gtb_lt in E2|rewrite Z.gtb_ltb in E2; apply Z.ltb_ge in E2]).
  all: repeat split; intros; try lia; try reflexivity.
  all: unfold ok in *.
  all: try (match goal with H : Ok _ = Ok _ |- _ => inversion H as [H']; rewrite <- H' in Ha; vm_compute in Ha; discriminate end).
Qed.

(* ---- expbucket ---- *)
Lemma pow10_le_spec : forall fuel v p j,
  p = 10 ^ j -> 0 <= j -> p <= v -> v < p * 10 ^ Z.of_nat fuel ->
  exists k, 0 <= k /\ pow10_le fuel v p = 10 ^ k /\ 10 ^ k <= v < 10 ^ (k + 1).
Proof.
  induction fuel as [|f IH]; intros v p j Hp Hj Hle Hlt.
  - cbn in Hlt. lia.
  - cbn [pow10_le]. assert (Hp0 : 0 < p) by (subst; apply Z.pow_pos_nonneg; lia).
    destruct (10 <=? v / p) eqn:E.
    + apply Z.leb_le in E.
      apply (IH v (p * 10) (j + 1)).
      * subst. rewrite Z.pow_add_r by lia. reflexivity.
      * lia.
      * Z.to_euclidean_division_equations. nia.
      * rewrite Nat2Z.inj_succ, Z.pow_succ_r in Hlt by lia. lia.
    + apply Z.leb_gt in E. exists j. split; [lia|]. split; [exact Hp|].
      rewrite Z.pow_add_r by lia. change (10 ^ 1) with 10. subst.
      split; [lia|]. Z.to_euclidean_division_equations. nia.
Qed.

Theorem expbucket_law_proof : forall c0 a fa v,
  atoi a = Some v -> 1 <= v ->
  exists k, 0 <= k /\ f_expbucket [A c0 a fa] = Ok (itoa (10 ^ k)) /\ 10 ^ k <= v < 10 ^ (k + 1).
Proof.
  intros c0 a fa v Ha Hv. pose proof (atoi_range _ _ Ha) as R.
  destruct (pow10_le_spec 19 v 1 0) as (k & Hk & E & Hb); try reflexivity; try lia.
  { unfold max_int64 in R. change (1 * 10 ^ Z.of_nat 19) with 10000000000000000000. lia. }
  exists k. split; [exact Hk|]. split; [|exact Hb].
  unfold f_expbucket. cbn [a_val]. rewrite Ha. unfold expbucket_val.
  assert (E0 : (v <=? 0) = false) by (apply Z.leb_gt; lia). rewrite E0, E. reflexivity.
Qed.

(* ---- integer folds ---- *)
(* the fold the documentation describes, with zero divisors made explicit *)
Fixpoint ifold_spec (f : fn) (acc : Z) (zs : list Z) : option Z :=
  match zs with
  | [] => Some acc
  | z :: r => match iop f acc z with Some x => ifold_spec f x r | None => None end
  end.

Definition parses (args : list arg) (zs : list Z) : Prop :=
  Forall2 (fun a z => atoi (a_val a) = Some z) args zs.

Lemma ifold_loop_spec f : forall rest zs acc, parses rest zs ->
  ifold_loop f acc rest = Ok (match ifold_spec f acc zs with Some r => itoa r | None => ErrorValue end).
Proof.
  induction rest as [|a r IH]; intros zs acc H; inversion H; subst; cbn [ifold_loop ifold_spec].
  - reflexivity.
  - rewrite H2. destruct (iop f acc y); [apply IH; assumption|reflexivity].
Qed.

Lemma parses_no_const_bad args zs : parses args zs -> existsb const_bad_int args = false.
Proof.
  induction 1 as [|a z args zs Ha _ IH]; [reflexivity|].
  cbn [existsb]. rewrite IH. unfold const_bad_int. rewrite Ha. cbn. rewrite andb_false_r. reflexivity.
Qed.

Theorem ifold_law_proof : forall f a0 a1 rest z0 z1 zs,
  parses (a0 :: a1 :: rest) (z0 :: z1 :: zs) ->
  f_ifold f (a0 :: a1 :: rest) =
    Ok (match ifold_spec f z0 (z1 :: zs) with Some r => itoa r | None => ErrorValue end).
Proof.
  intros f a0 a1 rest z0 z1 zs H. unfold f_ifold.
  inversion H; subst. rewrite H3.
  apply ifold_loop_spec. assumption.
Qed.

(* a non-integer operand never yields a number: the result is one of the two markers *)
Lemma ifold_loop_bad f : forall rest acc,
  (exists a, In a rest /\ atoi (a_val a) = None) ->
  ifold_loop f acc rest = Ok ErrorNum \/ ifold_loop f acc rest = Ok ErrorValue.
Proof.
  induction rest as [|a r IH]; intros acc [x [Hin Hx]]; [destruct Hin|].
  cbn [ifold_loop]. destruct (atoi (a_val a)) eqn:E; [|left; reflexivity].
  destruct (iop f acc z); [|right; reflexivity].
  apply IH. destruct Hin as [->|Hin]; [congruence|]. exists x. auto.
Qed.

Theorem ifold_bad_operand_proof : forall f args,
  (exists a, In a args /\ atoi (a_val a) = None) ->
  f_ifold f args = Ok ErrorNum \/ f_ifold f args = Ok ErrorValue \/ f_ifold f args = Ok ErrorArgCount.
Proof.
  intros f args H. unfold f_ifold. destruct args as [|a0 [|a1 rest]]; auto.
  destruct (atoi (a_val a0)) eqn:E0; auto.
  destruct (ifold_loop_bad f (a1 :: rest) z) as [H1|H1]; auto.
  destruct H as [x [[->|Hin] Hx]]; [congruence|]. exists x. auto.
Qed.

(* without division the marker is exactly <BAD-TYPE> *)
Lemma ifold_loop_bad_nodiv f : f <> Divi -> f <> Modi -> forall rest acc,
  (exists a, In a rest /\ atoi (a_val a) = None) -> ifold_loop f acc rest = Ok ErrorNum.
Proof.
  intros Hd Hm. induction rest as [|a r IH]; intros acc [x [Hin Hx]]; [destruct Hin|].
  cbn [ifold_loop]. destruct (atoi (a_val a)) eqn:E; [|reflexivity].
  assert (exists y, iop f acc z = Some y) as [y ->] by (destruct f; cbn; eauto; congruence).
  apply IH. destruct Hin as [->|Hin]; [congruence|]. exists x. auto.
Qed.

Theorem ifold_badtype_proof : forall f a0 a1 rest, f <> Divi -> f <> Modi ->
  (exists a, In a (a0 :: a1 :: rest) /\ atoi (a_val a) = None) ->
  f_ifold f (a0 :: a1 :: rest) = Ok ErrorNum.
Proof.
  intros f a0 a1 rest Hd Hm H. unfold f_ifold.
  destruct (atoi (a_val a0)) eqn:E0; [|reflexivity].
  apply ifold_loop_bad_nodiv; auto.
  destruct H as [x [[->|Hin] Hx]]; [congruence|]. exists x. auto.
Qed.

(* the FIRST failing operand decides, whatever follows and whether operands are constants or groups:
   after operands that parse and fold without a zero divisor, a non-integer gives <BAD-TYPE> and
   (divi, modi) a zero gives <VALUE> *)
Lemma ifold_loop_app f : forall pre zs acc acc' post, parses pre zs -> ifold_spec f acc zs = Some acc' ->
  ifold_loop f acc (pre ++ post) = ifold_loop f acc' post.
Proof.
  induction pre as [|a r IH]; intros zs acc acc' post H S; inversion H; subst; cbn [app ifold_loop ifold_spec] in *.
  - inversion S. reflexivity.
  - rewrite H2. destruct (iop f acc y); [|discriminate]. eapply IH; eauto.
Qed.

Theorem ifold_first_failure_proof : forall f a0 pre z0 zs acc a post,
  atoi (a_val a0) = Some z0 -> parses pre zs -> ifold_spec f z0 zs = Some acc ->
  (atoi (a_val a) = None -> f_ifold f (a0 :: pre ++ a :: post) = Ok ErrorNum) /\
  (atoi (a_val a) = Some 0 -> f = Divi \/ f = Modi -> f_ifold f (a0 :: pre ++ a :: post) = Ok ErrorValue) /\
  (atoi (a_val a0) = Some z0 -> forall b rest, atoi (a_val b) = None -> f_ifold f (b :: a0 :: rest) = Ok ErrorNum).
Proof.
  intros f a0 pre z0 zs acc a post H0 Hp Hs.
  assert (Shape : forall l, f_ifold f (a0 :: pre ++ a :: l) = ifold_loop f acc (a :: l)).
  { intros l. unfold f_ifold. destruct (pre ++ a :: l) eqn:E; [destruct pre; discriminate|].
    rewrite H0, <- E. eapply ifold_loop_app; eauto. }
  repeat split.
  - intros Ha. rewrite Shape. cbn [ifold_loop]. rewrite Ha. reflexivity.
  - intros Ha Hf. rewrite Shape. cbn [ifold_loop]. rewrite Ha. destruct Hf as [-> | ->]; reflexivity.
  - intros _ b rest Hb. unfold f_ifold. rewrite Hb. reflexivity.
Qed.

(* readable instances of the fold *)
Fixpoint partial_sums_in_range (acc : Z) (zs : list Z) : Prop :=
  match zs with
  | [] => True
  | z :: r => min_int64 <= acc + z <= max_int64 /\ partial_sums_in_range (acc + z) r
  end.

Theorem sumi_spec_proof : forall zs acc, partial_sums_in_range acc zs ->
  ifold_spec Sumi acc zs = Some (fold_left Z.add zs acc).
Proof.
  induction zs as [|z r IH]; intros acc H; cbn [ifold_spec fold_left]; [reflexivity|].
  destruct H as [H1 H2]. cbn [iop]. rewrite wrap64_id by exact H1. apply IH. exact H2.
Qed.

Theorem maxi_spec_proof : forall zs acc, ifold_spec Maxi acc zs = Some (fold_left Z.max zs acc).
Proof.
  induction zs as [|z r IH]; intros acc; cbn [ifold_spec fold_left iop]; [reflexivity|].
  rewrite IH. do 2 f_equal. rewrite Z.gtb_ltb. destruct (z <? acc) eqn:E; [apply Z.ltb_lt in E|apply Z.ltb_ge in E]; lia.
Qed.

Theorem mini_spec_proof : forall zs acc, ifold_spec Mini acc zs = Some (fold_left Z.min zs acc).
Proof.
  induction zs as [|z r IH]; intros acc; cbn [ifold_spec fold_left iop]; [reflexivity|].
  rewrite IH. do 2 f_equal. destruct (acc <? z) eqn:E; [apply Z.ltb_lt in E|apply Z.ltb_ge in E]; lia.
Qed.

(* division: truncated quotient / remainder of the sign of the dividend; zero divisor gives the marker *)
Theorem divi_two_proof : forall a b x y, parses [a; b] [x; y] ->
  f_ifold Divi [a; b] = Ok (if y =? 0 then ErrorValue
                            else if (x =? min_int64) && (y =? -1) then itoa min_int64
                            else itoa (Z.quot x y)) /\
  f_ifold Modi [a; b] = Ok (if y =? 0 then ErrorValue else itoa (Z.rem x y)).
Proof.
  intros a b x y H. rewrite !(ifold_law_proof _ a b [] x y []) by exact H.
  inversion H as [|? ? ? ? Hx H']; subst. inversion H' as [|? ? ? ? Hy _]; subst.
  apply atoi_range in Hx. apply atoi_range in Hy.
  cbn [ifold_spec iop]. destruct (y =? 0) eqn:E0; [split; reflexivity|]. apply Z.eqb_neq in E0.
  split; [|reflexivity]. do 1 f_equal.
  destruct ((x =? min_int64) && (y =? -1)) eqn:E.
  - apply andb_true_iff in E as [E1 E2]. apply Z.eqb_eq in E1, E2. subst. reflexivity.
  - f_equal. apply wrap64_id.
    apply andb_false_iff in E.
    pose proof (quot_abs_le x y E0) as Hq.
    unfold min_int64, max_int64 in *.
    destruct E as [E|E]; apply Z.eqb_neq in E.
    + lia.
    + destruct (Z.eq_dec y 1) as [->|Hy1]; [rewrite Z.quot_1_r; lia|].
      pose proof (quot_abs_half x y ltac:(lia)). lia.
Qed.

(* the error markers are not numbers, and differ from each other *)
Theorem markers_not_numbers_proof :
  atoi ErrorNum = None /\ atoi ErrorArgCount = None /\ atoi ErrorConst = None /\ atoi ErrorValue = None /\
  atou ErrorNum = None /\ ErrorNum <> [] /\ ErrorArgCount <> [] /\ ErrorValue <> [] /\ ErrorConst <> [].
Proof. vm_compute. repeat split; discriminate. Qed.
