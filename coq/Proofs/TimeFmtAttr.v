(* C18 — the boolean forms for timeattr and buckettime accept what the models produce. *)
From Coq Require Import List ZArith NArith Lia Bool String.
From RareV Require Import Base.Hex Base.Num Gen.GenTime Model.Calendar Model.TimeFmt Model.C18Check.
From RareV Require Import Proofs.CalendarSweep Proofs.CalendarProof Proofs.NumProof.
Import ListNotations.
Local Open Scope Z_scope.

Lemma beq_refl a : bytes_eqb a a = true.
Proof. apply bytes_eqb_eq. reflexivity. Qed.

(* the ISO year is the civil year or one of its neighbours *)
Lemma iso_year_near day cy cm cd y w :
  civil_from_days day = (cy, cm, cd) -> isoweek day = (y, w) -> y = cy - 1 \/ y = cy \/ y = cy + 1.
Proof.
  intros Hc Hi. apply civil_days_inverse_proof in Hc as (_ & _ & _ & Hcy & _).
  destruct (isoweek_proof _ _ _ Hi) as (Hy & _). cbv zeta in Hy.
  destruct (iso_thursday_spec day) as (_ & Hr & _).
  destruct (Z_lt_le_dec y (cy - 1)) as [L|G].
  - exfalso. pose proof (year_start_mono (y + 1) (cy - 1) ltac:(lia)).
    pose proof (year_length (cy - 1)). replace (cy - 1 + 1) with cy in * by lia.
    destruct (is_leap (cy - 1)); lia.
  - destruct (Z_lt_le_dec (cy + 1) y) as [L|G'].
    + exfalso. pose proof (year_start_mono (cy + 2) y ltac:(lia)).
      pose proof (year_length (cy + 1)). replace (cy + 1 + 1) with (cy + 2) in * by lia.
      destruct (is_leap (cy + 1)); lia.
    + lia.
Qed.

Lemma span_nodash_digits ds : Forall (fun b => is_digit b = true) ds ->
  forall rest, span_nodash (ds ++ 45%N :: rest) = (ds, 45%N :: rest).
Proof.
  induction 1 as [|d ds Hd _ IH]; intros rest.
  - reflexivity.
  - cbn [app span_nodash].
    replace (d =? 45)%N with false.
    + rewrite IH. reflexivity.
    + symmetry. apply N.eqb_neq. apply is_digit_range in Hd. lia.
Qed.

Lemma Forall_rev' {A} (P : A -> Prop) l : Forall P l -> Forall P (rev l).
Proof. intros H. apply Forall_forall. intros x Hx. apply in_rev in Hx. revert x Hx. apply Forall_forall. exact H. Qed.

Lemma split_yearweek y w : 0 <= w -> split_last_dash (itoa y ++ [45%N] ++ itoa w) = Some (itoa y, itoa w).
Proof.
  intros Hw. unfold split_last_dash.
  assert (Hd : Forall (fun b => is_digit b = true) (itoa w)).
  { destruct w as [|p|p]; cbn [itoa]; [repeat constructor|apply utoa_digits|lia]. }
  rewrite !rev_app_distr. cbn [rev app]. rewrite <- app_assoc. cbn [app].
  rewrite span_nodash_digits by (apply Forall_rev'; exact Hd).
  rewrite !rev_involutive. reflexivity.
Qed.

Lemma small_int64 z : -100000 <= z <= 100000 -> in_int64 z = true.
Proof. intros H. unfold in_int64, min_int64, max_int64. apply andb_true_iff. split; apply Z.leb_le; lia. Qed.

Lemma year_in_range t off cy cm cd :
  in_range t off = true -> civil_from_days ((t + off) / 86400) = (cy, cm, cd) -> 0 <= cy < 10000.
Proof.
  intros Hr Hc. unfold in_range in Hr. apply andb_true_iff in Hr as [Hlo Hhi].
  apply Z.leb_le in Hlo. apply Z.ltb_lt in Hhi.
  apply civil_days_inverse_proof in Hc as (_ & _ & _ & Hy & _).
  assert (L0 : year_start 0 * 86400 = lo_local) by reflexivity.
  assert (L1 : year_start 10000 * 86400 = hi_local) by reflexivity.
  pose proof (Z.div_mod (t + off) 86400 ltac:(lia)). pose proof (Z.mod_pos_bound (t + off) 86400 ltac:(lia)).
  split.
  - destruct (Z_lt_le_dec cy 0) as [L|]; [|lia]. pose proof (year_start_mono (cy + 1) 0 ltac:(lia)). lia.
  - destruct (Z_lt_le_dec cy 10000) as [|L]; [lia|]. pose proof (year_start_mono 10000 cy ltac:(lia)). lia.
Qed.

Lemma attr_keys_cases key : existsb (bytes_eqb key) timeAttrKeys = true ->
  key = s2b "QUARTER" \/ key = s2b "WEEK" \/ key = s2b "WEEKDAY" \/ key = s2b "YEARWEEK".
Proof.
  intros H. unfold timeAttrKeys in H. cbn [existsb] in H.
  repeat (apply orb_true_iff in H as [H|H];
          [apply bytes_eqb_eq in H; subst key;
           first [left; reflexivity | right; left; reflexivity | right; right; left; reflexivity | right; right; right; reflexivity]|]).
  discriminate.
Qed.

Theorem check_attr_sound : forall arg attr off,
  (forall t, atoi arg = Some t -> in_range t off = true) ->
  C18_check_attr arg attr off (kf_timeattr arg attr off) = true.
Proof.
  intros arg attr off Hrange. unfold C18_check_attr, kf_timeattr. cbv zeta.
  destruct (existsb (bytes_eqb (upper attr)) timeAttrKeys) eqn:Hk; cbn [negb]; [|apply beq_refl].
  destruct (atoi arg) as [t|] eqn:Ea; [|apply beq_refl].
  specialize (Hrange t eq_refl).
  unfold local_secs. set (day := (t + off) / 86400).
  destruct (civil_from_days day) as [[cy cm] cd] eqn:Hc.
  assert (Hm : c_month (civil_of t 0 off []) = cm /\ c_wday (civil_of t 0 off []) = weekday day).
  { unfold civil_of, local_secs. fold day. rewrite Hc. cbn. auto. }
  destruct Hm as [Hm Hw].
  pose proof (year_in_range t off cy cm cd Hrange Hc) as Hcy.
  pose proof Hc as Hc'. apply civil_days_inverse_proof in Hc' as (_ & Hmr & _).
  destruct (isoweek day) as [y w] eqn:Hi.
  destruct (isoweek_proof _ _ _ Hi) as (_ & _ & Hwr & Hspec).
  pose proof (iso_year_near _ _ _ _ _ _ Hc Hi) as Hnear.
  apply attr_keys_cases in Hk. destruct Hk as [K|[K|[K|K]]]; rewrite K.
  - (* QUARTER *)
    change (attr_value (s2b "QUARTER") (civil_of t 0 off []) day) with (Some (itoa (quarter (c_month (civil_of t 0 off []))))).
    rewrite Hm.
    change (check_attr_key (s2b "QUARTER") day cy cm (itoa (quarter cm)))
      with (match atoi (itoa (quarter cm)) with
            | Some q => quarter_spec_b cm q && bytes_eqb (itoa (quarter cm)) (itoa q) | None => false end).
    pose proof (quarter_proof cm Hmr) as (Hq & _).
    rewrite atoi_itoa by (apply small_int64; lia).
    rewrite (proj2 (quarter_spec_b_iff cm (quarter cm) Hmr) eq_refl), beq_refl. reflexivity.
  - (* WEEK *)
    change (attr_value (s2b "WEEK") (civil_of t 0 off []) day) with (Some (itoa (snd (isoweek day)))).
    rewrite Hi. cbn [snd].
    change (check_attr_key (s2b "WEEK") day cy cm (itoa w))
      with (match atoi (itoa w) with
            | Some w' => existsb (fun y => iso_spec_b day y w') [cy - 1; cy; cy + 1] && bytes_eqb (itoa w) (itoa w')
            | None => false end).
    rewrite atoi_itoa by (apply small_int64; lia). rewrite beq_refl, andb_true_r.
    cbn [existsb]. destruct Hnear as [->|[->| ->]]; rewrite Hspec; rewrite ?orb_true_r; reflexivity.
  - (* WEEKDAY *)
    change (attr_value (s2b "WEEKDAY") (civil_of t 0 off []) day) with (Some (itoa (c_wday (civil_of t 0 off [])))).
    rewrite Hw.
    change (check_attr_key (s2b "WEEKDAY") day cy cm (itoa (weekday day)))
      with (match atoi (itoa (weekday day)) with
            | Some w' => (0 <=? w') && (w' <=? 6) && ((day + 4 - w') mod 7 =? 0) && bytes_eqb (itoa (weekday day)) (itoa w')
            | None => false end).
    pose proof (weekday_range_proof day) as Hwd.
    rewrite atoi_itoa by (apply small_int64; lia). rewrite beq_refl, andb_true_r.
    apply andb_true_iff. split; [apply andb_true_iff; split; apply Z.leb_le; lia|].
    apply Z.eqb_eq. unfold weekday.
    pose proof (Z.div_mod (day + 4) 7 ltac:(lia)).
    replace (day + 4 - (day + 4) mod 7) with ((day + 4) / 7 * 7) by lia. apply Z.mod_mul. lia.
  - (* YEARWEEK *)
    change (attr_value (s2b "YEARWEEK") (civil_of t 0 off []) day)
      with (Some (itoa (fst (isoweek day)) ++ [45%N] ++ itoa (snd (isoweek day)))).
    rewrite Hi. cbn [fst snd].
    change (check_attr_key (s2b "YEARWEEK") day cy cm (itoa y ++ [45%N] ++ itoa w))
      with (match split_last_dash (itoa y ++ [45%N] ++ itoa w) with
            | Some (ys, ws) =>
                match atoi ys, atoi ws with
                | Some y', Some w' => iso_spec_b day y' w' && bytes_eqb (itoa y ++ [45%N] ++ itoa w) (itoa y' ++ [45%N] ++ itoa w')
                | _, _ => false end
            | None => false end).
    rewrite split_yearweek by lia.
    rewrite !atoi_itoa by (apply small_int64; lia). rewrite Hspec, beq_refl. reflexivity.
Qed.

(* buckettime: the documented names select the documented precision *)
Lemma is_partial_lower_idem b : lower (lower b) = lower b.
Proof.
  unfold lower. rewrite map_map. apply map_ext. intros c.
  destruct ((65 <=? c)%N && (c <=? 90)%N) eqn:E; [|rewrite E; reflexivity].
  apply andb_true_iff in E as [E1 E2]. apply N.leb_le in E1, E2.
  replace ((c + 32 <=? 90)%N) with false; [rewrite andb_false_r; reflexivity|]. symmetry. apply N.leb_gt. lia.
Qed.

Lemma bucket_layout_lower b : bucket_layout b = bucket_layout (lower b).
Proof. unfold bucket_layout. rewrite is_partial_lower_idem. reflexivity. Qed.

Lemma assoc_b_in k L : forall l, assoc_b k L = Some l -> In (k, l) L.
Proof.
  induction L as [|[k' v] L IH]; intros l H; [discriminate|].
  cbn [assoc_b] in H. destruct (bytes_eqb k' k) eqn:E.
  - apply bytes_eqb_eq in E. subst k'. inversion H. left. reflexivity.
  - right. apply IH. exact H.
Qed.

Lemma doc_buckets_ok :
  forallb (fun p => match bucket_layout (fst p) with Some l => bytes_eqb (snd p) l | None => false end) doc_buckets = true.
Proof. vm_compute. reflexivity. Qed.

Lemma doc_bucket_layout b l : assoc_b (lower b) doc_buckets = Some l -> bucket_layout b = Some l.
Proof.
  intros H. rewrite bucket_layout_lower. apply assoc_b_in in H.
  pose proof (proj1 (forallb_forall _ _) doc_buckets_ok _ H) as Hp. cbn [fst snd] in Hp.
  destruct (bucket_layout (lower b)) as [l'|]; [|discriminate].
  apply bytes_eqb_eq in Hp. subst. reflexivity.
Qed.

Theorem check_bucket_sound : forall str b fmt names lo fo,
  C18_check_bucket str b fmt names lo fo (kf_buckettime str b fmt names lo fo) = true.
Proof.
  intros. unfold C18_check_bucket. rewrite beq_refl. cbn [andb].
  destruct (assoc_b (lower b) doc_buckets) as [l|] eqn:E; [|reflexivity].
  rewrite (doc_bucket_layout b l E). apply beq_refl.
Qed.
