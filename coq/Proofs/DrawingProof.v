(* C08: proofs about Model/Drawing.v (repeat, color, bar). *)
From Coq Require Import List NArith ZArith Bool Lia.
From RareV Require Import Base.Hex Base.Res Base.Num Gen.GenC11 Gen.GenFuncs Model.Ctx Model.Funcs Model.Drawing.
Import ListNotations.
Local Open Scope Z_scope.

Lemma blen_nonneg s : 0 <= blen s.
Proof. unfold blen. lia. Qed.

Lemma rep_bytes_length n s : length (rep_bytes n s) = (n * length s)%nat.
Proof. induction n; cbn [rep_bytes]; [reflexivity|]. rewrite app_length, IHn. lia. Qed.

(* ---- strings.Repeat ---- *)
Lemma go_repeat_ok s count : 0 <= count -> blen s * count <= max_int64 -> go_repeat s count <> Panic.
Proof.
  intros Hc Hm. unfold go_repeat.
  destruct (count =? 0) eqn:E0; [discriminate|].
  destruct (count =? 1) eqn:E1; [discriminate|].
  destruct (count <? 0) eqn:En; [apply Z.ltb_lt in En; lia|].
  apply Z.eqb_neq in E0.
  assert (Hle : blen s <= max_int64 / count).
  { apply Z.div_le_lower_bound; lia. }
  destruct (max_int64 / count <? blen s) eqn:Eo; [apply Z.ltb_lt in Eo; lia|destruct s; discriminate].
Qed.

Lemma go_repeat_length s count out : go_repeat s count = Ok out -> 0 <= count -> blen out = blen s * count.
Proof.
  unfold go_repeat. intros H Hc.
  destruct (count =? 0) eqn:E0.
  { apply Z.eqb_eq in E0. inversion H. subst. unfold blen. cbn. lia. }
  destruct (count =? 1) eqn:E1.
  { apply Z.eqb_eq in E1. inversion H. subst. lia. }
  destruct (count <? 0); [discriminate|].
  destruct (max_int64 / count <? blen s); [discriminate|].
  destruct s as [|b s']; inversion H; [unfold blen; cbn; lia|].
  unfold blen. rewrite rep_bytes_length. lia.
Qed.

Lemma cap_le_max : repeat_cap <= max_int64.
Proof. vm_compute. discriminate. Qed.

(* the guard of the repaired kfRepeat implies the precondition of strings.Repeat *)
Lemma repeat_guard s count :
  (count <? 0) || (repeat_cap <? count) || (repeat_cap <? blen s * count) = false ->
  0 <= count /\ blen s * count <= repeat_cap.
Proof.
  intros H. apply orb_false_iff in H as [H H3]. apply orb_false_iff in H as [H1 H2].
  apply Z.ltb_ge in H1, H2, H3. split; assumption.
Qed.

Theorem repeat_total args : f_repeat true args <> Panic.
Proof.
  unfold f_repeat. destruct args as [|c [|n [|x r]]]; try discriminate.
  destruct (a_const c); [|discriminate].
  destruct (atoi (a_val n)) as [count|]; [|discriminate].
  cbn [andb].
  destruct ((count <? 0) || (repeat_cap <? count) || (repeat_cap <? blen (a_val c) * count)) eqn:G; [discriminate|].
  apply repeat_guard in G as [G1 G2]. apply go_repeat_ok; [assumption|]. pose proof cap_le_max. lia.
Qed.

(* the code as pinned: a negative count panics (at compile time when it is a constant) *)
Theorem repeat_pinned_refuted : exists args, f_repeat false args = Panic.
Proof. exists [A true [97%N] None; A false [45%N; 49%N] None]. vm_compute. reflexivity. Qed.

(* ... and the repaired helper never builds more than the cap *)
Theorem repeat_bounded args out : f_repeat true args = Ok out -> blen out <= repeat_cap.
Proof.
  unfold f_repeat. destruct args as [|c [|n [|x r]]];
    try (intros H; inversion H; vm_compute; discriminate).
  destruct (a_const c); [|intros H; inversion H; vm_compute; discriminate].
  destruct (atoi (a_val n)) as [count|]; [|intros H; inversion H; vm_compute; discriminate].
  cbn [andb].
  destruct ((count <? 0) || (repeat_cap <? count) || (repeat_cap <? blen (a_val c) * count)) eqn:G;
    [intros H; inversion H; vm_compute; discriminate|].
  apply repeat_guard in G as [G1 G2]. intros H. apply go_repeat_length in H; lia.
Qed.

(* ---- color ---- *)
Lemma go_slice_ok s lo hi : 0 <= lo <= hi -> hi <= blen s -> go_slice s lo hi <> Panic.
Proof.
  intros H1 H2. unfold go_slice. unfold blen in H2.
  replace ((0 <=? lo) && (lo <=? hi) && (hi <=? Z.of_nat (length s))) with true; [discriminate|].
  symmetry. rewrite !andb_true_iff, !Z.leb_le. lia.
Qed.

Theorem color_wrap_total enabled code s : color_wrap enabled code s <> Panic.
Proof.
  unfold color_wrap. destruct (negb enabled); [discriminate|]. cbv zeta.
  destruct (blen s <? blen colorReset) eqn:E; [discriminate|]. apply Z.ltb_ge in E.
  pose proof (blen_nonneg colorReset).
  destruct (go_slice s (blen s - blen colorReset) (blen s)) eqn:G.
  - cbn. discriminate.
  - exfalso. revert G. apply go_slice_ok; lia.
Qed.

Theorem color_total enabled args : f_color enabled args <> Panic.
Proof.
  unfold f_color. destruct args as [|n [|c [|x r]]]; try discriminate.
  destruct (a_const n); [|discriminate].
  destruct (assoc_bytes (lower_name (a_val n)) colorMap); [apply color_wrap_total|discriminate].
Qed.

(* ---- bar ---- *)
Lemma barUnicode_len : Z.of_nat (length barUnicode) = barUnicodeLen /\ 0 < barUnicodeLen.
Proof. vm_compute. split; reflexivity. Qed.

Theorem bar_write_total unicode blocks : bar_write unicode blocks <> Panic.
Proof.
  unfold bar_write. destruct unicode; [|discriminate]. cbv zeta.
  destruct barUnicode_len as [HL Hpos].
  set (rem := if blocks <? barUnicodeLen then blocks else blocks mod barUnicodeLen).
  assert (Hr : rem < barUnicodeLen).
  { unfold rem. destruct (blocks <? barUnicodeLen) eqn:E; [apply Z.ltb_lt in E; lia|].
    apply Z.mod_pos_bound. lia. }
  destruct (0 <? rem) eqn:E0; [|discriminate]. apply Z.ltb_lt in E0.
  destruct (nth_error barUnicode (Z.to_nat rem)) eqn:N; [discriminate|].
  apply nth_error_None in N. lia.
Qed.

Theorem bar_total fixed unicode args blocks : f_bar fixed unicode args blocks <> Panic.
Proof.
  assert (B : forall v mx ln scal,
    (match static_int mx with
     | None => Ok ErrorNum
     | Some _ =>
         match static_int ln with
         | None => Ok ErrorNum
         | Some maxLen =>
             if fixed && ((maxLen <? 0) || (bar_cap <? maxLen)) then Ok ErrorValue
             else
               let run := match atoi (a_val v) with None => Ok ErrorNum | Some _ => bar_write unicode blocks end in
               match scal with
               | None => run
               | Some s => if a_const s then (if scaler_ok (a_val s) then run else Ok M_ErrorEnum) else Ok ErrorConst
               end
         end
     end) <> Panic).
  { intros v mx ln scal. destruct (static_int mx); [|discriminate]. destruct (static_int ln); [|discriminate].
    destruct (fixed && _); [discriminate|]. cbv zeta.
    assert (R : match atoi (a_val v) with None => Ok ErrorNum | Some _ => bar_write unicode blocks end <> Panic).
    { destruct (atoi (a_val v)); [apply bar_write_total|discriminate]. }
    destruct scal as [s|]; [|exact R]. destruct (a_const s); [|discriminate]. destruct (scaler_ok (a_val s)); [exact R|discriminate]. }
  unfold f_bar. destruct args as [|v [|mx [|ln [|s [|x r]]]]]; try discriminate.
  - exact (B v mx ln None).
  - exact (B v mx ln (Some s)).
Qed.

(* non-numeric operands: exactly the documented marker *)
Theorem repeat_marker fixed c n : a_const c = true -> atoi (a_val n) = None -> f_repeat fixed [c; n] = Ok ErrorNum.
Proof. intros Hc Hn. unfold f_repeat. rewrite Hc, Hn. reflexivity. Qed.

Theorem bar_marker fixed unicode v mx ln blocks m l :
  static_int mx = Some m -> static_int ln = Some l -> 0 <= l <= bar_cap -> atoi (a_val v) = None ->
  f_bar fixed unicode [v; mx; ln] blocks = Ok ErrorNum.
Proof.
  intros Hm Hl Hb Hv. unfold f_bar. rewrite Hm, Hl, Hv.
  replace ((l <? 0) || (bar_cap <? l)) with false.
  - rewrite andb_false_r. reflexivity.
  - symmetry. apply orb_false_iff. split; [apply Z.ltb_ge|apply Z.ltb_ge]; lia.
Qed.
