(* C11: select picks the i-th field of delimiter-separated plain words. *)
From Coq Require Import List NArith ZArith Lia Bool ZifyN ZifyNat ZifyBool.
From RareV Require Import Base.Hex Base.Res Base.Num Gen.GenC11 Model.Humanize Model.CsvItem Model.Funcs.
Import ListNotations.
Local Open Scope N_scope.

Definition plain_char (c : N) : bool := negb (is_sel_delim c) && negb (c =? 34).
Definition plain_word (w : bytes) : Prop := w <> [] /\ forallb plain_char w = true.

Definition extract (s : bytes) (p : nat * option nat) : bytes :=
  match p with
  | (ws, Some e) => firstn (e - ws) (skipn ws s)
  | (ws, None) => skipn ws s
  end.

Lemma select_field_extract s idx : select_field s idx = extract s (sel_loop s 0 idx 0 0 false false).
Proof. unfold select_field, extract. destruct (sel_loop s 0 idx 0 0 false false) as [ws [e|]]; reflexivity. Qed.

Lemma plain_char_inv c : plain_char c = true -> is_sel_delim c = false /\ (c =? 34) = false.
Proof. unfold plain_char. rewrite andb_true_iff, !negb_true_iff. tauto. Qed.

(* scanning the rest of a word *)
Lemma scan_word : forall w rest i idx cur ws,
  forallb plain_char w = true ->
  sel_loop (w ++ rest) i idx cur ws false false = sel_loop rest (i + length w) idx cur ws false false.
Proof.
  induction w as [|c w IH]; intros rest i idx cur ws H.
  - cbn [app length]. rewrite Nat.add_0_r. reflexivity.
  - cbn [forallb] in H. apply andb_true_iff in H as [Hc Hw]. destruct (plain_char_inv _ Hc) as [H1 H2].
    cbn [app sel_loop andb negb orb]. rewrite H1, H2. cbn [orb]. rewrite IH by exact Hw.
    cbn [length]. f_equal. lia.
Qed.

(* a word that starts after a delimiter *)
Lemma start_word : forall w rest i idx cur ws, plain_word w ->
  sel_loop (w ++ rest) i idx cur ws true false = sel_loop rest (i + length w) idx (cur + 1)%Z i false false.
Proof.
  intros [|c w] rest i idx cur ws [Hne H]; [congruence|].
  cbn [forallb] in H. apply andb_true_iff in H as [Hc Hw]. destruct (plain_char_inv _ Hc) as [H1 H2].
  cbn [app sel_loop andb negb orb]. rewrite H1, H2. cbn [orb]. rewrite scan_word by exact Hw.
  cbn [length]. f_equal. lia.
Qed.

Definition tail_of (d : N) (more : list bytes) : bytes :=
  match more with [] => [] | _ => d :: join d more end.

Lemma join_cons d w more : join d (w :: more) = w ++ tail_of d more.
Proof. destruct more; cbn [join tail_of]; [rewrite app_nil_r|]; reflexivity. Qed.

Lemma extract_word (pre wk post : bytes) :
  firstn (length pre + length wk - length pre) (skipn (length pre) (pre ++ wk ++ post)) = wk.
Proof.
  rewrite skipn_app, skipn_all, Nat.sub_diag. cbn [skipn app].
  replace (length pre + length wk - length pre)%nat with (length wk + 0)%nat by lia.
  rewrite firstn_app_2. cbn. apply app_nil_r.
Qed.

Lemma end_of_word d : is_sel_delim d = true -> forall more pre wk k idx,
  Forall plain_word more -> (k <= idx)%Z ->
  extract (pre ++ wk ++ tail_of d more)
          (sel_loop (tail_of d more) (length pre + length wk) idx k (length pre) false false)
  = nth (Z.to_nat (idx - k)) (wk :: more) [].
Proof.
  intros Hd. induction more as [|w' more' IH]; intros pre wk k idx Hw Hk.
  - cbn [tail_of sel_loop]. destruct (k =? idx)%Z eqn:E.
    + apply Z.eqb_eq in E. subst. rewrite Z.sub_diag. cbn [Z.to_nat nth extract].
      rewrite app_nil_r, skipn_app, skipn_all, Nat.sub_diag. reflexivity.
    + apply Z.eqb_neq in E. cbn [extract]. cbn [Nat.sub firstn].
      destruct (Z.to_nat (idx - k)) as [|[|n]] eqn:En; [lia|reflexivity|reflexivity].
  - inversion Hw as [|? ? Hw' Hmore]; subst.
    change (tail_of d (w' :: more')) with (d :: join d (w' :: more')). rewrite join_cons.
    cbn [sel_loop andb negb orb]. rewrite Hd. cbn [orb].
    destruct (k =? idx)%Z eqn:E.
    + apply Z.eqb_eq in E. subst. rewrite Z.sub_diag. cbn [Z.to_nat nth extract]. apply extract_word.
    + apply Z.eqb_neq in E. rewrite start_word by exact Hw'.
      specialize (IH (pre ++ wk ++ [d]) w' (k + 1)%Z idx Hmore ltac:(lia)).
      replace (length (pre ++ wk ++ [d])) with (S (length pre + length wk)) in IH
        by (rewrite !app_length; cbn [length]; lia).
      replace (pre ++ wk ++ d :: w' ++ tail_of d more') with ((pre ++ wk ++ [d]) ++ w' ++ tail_of d more')
        by (rewrite <- !app_assoc; reflexivity).
      rewrite IH.
      replace (Z.to_nat (idx - k)) with (S (Z.to_nat (idx - (k + 1)))) by lia. reflexivity.
Qed.

(* select on words joined by one delimiter (space, tab, newline or NUL): the idx-th word, "" beyond *)
Theorem select_law_proof : forall d words idx,
  is_sel_delim d = true -> Forall plain_word words -> words <> [] -> (0 <= idx)%Z ->
  select_field (join d words) idx = nth (Z.to_nat idx) words [].
Proof.
  intros d [|w0 more] idx Hd Hw Hne Hidx; [congruence|].
  inversion Hw as [|? ? [Hn0 Hp0] Hmore]; subst.
  rewrite select_field_extract, join_cons. rewrite scan_word by exact Hp0.
  pose proof (end_of_word d Hd more [] w0 0%Z idx Hmore Hidx) as E.
  cbn [app length Nat.add] in E. rewrite Z.sub_0_r in E. exact E.
Qed.

(* ---- general form: words separated by non-empty runs of delimiters ---- *)
Definition delim_run (d : bytes) : Prop := d <> [] /\ forallb is_sel_delim d = true.

Definition tail_runs (rest : list (bytes * bytes)) : bytes :=
  concat (map (fun p => fst p ++ snd p) rest).

Lemma run_true : forall d rest i idx cur ws, forallb is_sel_delim d = true -> (cur =? idx)%Z = false ->
  sel_loop (d ++ rest) i idx cur ws true false = sel_loop rest (i + length d) idx cur ws true false.
Proof.
  induction d as [|c d IH]; intros rest i idx cur ws H Hne.
  - cbn [app length]. rewrite Nat.add_0_r. reflexivity.
  - cbn [forallb] in H. apply andb_true_iff in H as [Hc Hd].
    cbn [app sel_loop andb negb orb]. rewrite Hc, Hne. cbn [orb]. rewrite IH by assumption.
    cbn [length]. f_equal. lia.
Qed.

Lemma end_of_word_runs : forall rest pre wk k idx,
  Forall (fun p => delim_run (fst p) /\ plain_word (snd p)) rest -> (k <= idx)%Z ->
  extract (pre ++ wk ++ tail_runs rest)
          (sel_loop (tail_runs rest) (length pre + length wk) idx k (length pre) false false)
  = nth (Z.to_nat (idx - k)) (wk :: map snd rest) [].
Proof.
  induction rest as [|[d w'] rest' IH]; intros pre wk k idx Hr Hk.
  - cbn [tail_runs map concat sel_loop]. destruct (k =? idx)%Z eqn:E.
    + apply Z.eqb_eq in E. subst. rewrite Z.sub_diag. cbn [Z.to_nat nth extract].
      rewrite app_nil_r, skipn_app, skipn_all, Nat.sub_diag. reflexivity.
    + apply Z.eqb_neq in E. cbn [extract]. cbn [Nat.sub firstn].
      destruct (Z.to_nat (idx - k)) as [|[|n]] eqn:En; [lia|reflexivity|reflexivity].
  - inversion Hr as [|? ? [[Hdn Hd] Hw'] Hrest]; subst. cbn [fst snd] in *.
    change (tail_runs ((d, w') :: rest')) with ((d ++ w') ++ tail_runs rest'). rewrite <- app_assoc.
    destruct d as [|c d]; [congruence|]. cbn [forallb] in Hd. apply andb_true_iff in Hd as [Hc Hd].
    cbn [app sel_loop andb negb orb]. rewrite Hc. cbn [orb].
    destruct (k =? idx)%Z eqn:E.
    + apply Z.eqb_eq in E. subst. rewrite Z.sub_diag. cbn [Z.to_nat nth extract map]. apply extract_word.
    + rewrite run_true by assumption. rewrite start_word by exact Hw'.
      apply Z.eqb_neq in E.
      specialize (IH (pre ++ wk ++ c :: d) w' (k + 1)%Z idx Hrest ltac:(lia)).
      replace (length (pre ++ wk ++ c :: d)) with (S (length pre + length wk) + length d)%nat in IH
        by (rewrite !app_length; cbn [length]; lia).
      replace (pre ++ wk ++ c :: d ++ w' ++ tail_runs rest') with ((pre ++ wk ++ c :: d) ++ w' ++ tail_runs rest')
        by (rewrite <- !app_assoc; reflexivity).
      rewrite IH. cbn [map].
      replace (Z.to_nat (idx - k)) with (S (Z.to_nat (idx - (k + 1)))) by lia. reflexivity.
Qed.

(* select on words separated by arbitrary non-empty runs of delimiters (space, tab, newline, NUL):
   the idx-th word, and the empty string beyond the last *)
Theorem select_runs_law_proof : forall w0 rest idx,
  plain_word w0 -> Forall (fun p => delim_run (fst p) /\ plain_word (snd p)) rest -> (0 <= idx)%Z ->
  select_field (w0 ++ tail_runs rest) idx = nth (Z.to_nat idx) (w0 :: map snd rest) [].
Proof.
  intros w0 rest idx [Hn0 Hp0] Hr Hidx.
  rewrite select_field_extract. rewrite scan_word by exact Hp0.
  pose proof (end_of_word_runs rest [] w0 0%Z idx Hr Hidx) as E.
  cbn [app length Nat.add] in E. rewrite Z.sub_0_r in E. exact E.
Qed.

(* a leading delimiter makes field 0 empty (the words then count from 1) *)
Theorem select_leading_delim_proof : forall c s, is_sel_delim c = true -> select_field (c :: s) 0 = [].
Proof.
  intros c s Hc. unfold select_field. cbn [sel_loop andb negb orb]. rewrite Hc. reflexivity.
Qed.
