(* C12 — what {0} spans: the matched region of the line is the leading literal followed, for each
   token, by its value and its delimiter; it ends with the last token's delimiter. *)
From Coq Require Import List NArith Bool Arith Lia.
From RareV Require Import Base.Hex Model.Dissect Proofs.DissectSearch Proofs.DissectFind Proofs.IntPoolProof.
Import ListNotations.

(* text = v1 ++ u1' ++ v2 ++ u2' ++ ... where ui' folds to the i-th token's delimiter *)
Inductive body_of (f : N -> N) : list token -> bytes -> Prop :=
| b_nil : body_of f [] []
| b_cons : forall t ts v u' rest,
    map f u' = t_until t -> body_of f ts rest -> body_of f (t :: ts) (v ++ u' ++ rest).

Lemma skipn_len_app2 {A} (a b : list A) : skipn (length a) (a ++ b) = b.
Proof. induction a; cbn; auto. Qed.

Lemma scan_span f line : forall toks s caps e,
  s <= length line -> scan f toks line s = Some (caps, e) ->
  s <= e /\ body_of f toks (firstn (e - s) (skipn s line)).
Proof.
  induction toks as [|t ts IH]; intros s caps e Hs H.
  - cbn in H. inversion H; subst. rewrite Nat.sub_diag. split; [lia|constructor].
  - rewrite scan_cons in H. destruct (until_off f t line s) as [off|] eqn:Eo; [|discriminate].
    pose proof (until_off_bound _ _ _ _ _ Hs Eo) as Hb.
    destruct (scan f ts line (s + off + length (t_until t))) as [[caps' e']|] eqn:Es; [|discriminate].
    inversion H; subst; clear H.
    destruct (scan_chain _ _ _ _ _ _ Hb Es) as (_ & He & _).
    destruct (IH _ _ _ Hb Es) as [Hle Hbody]. split; [lia|].
    apply until_off_spec in Eo as [[U Hl]|[U Hf]]; auto.
    + (* no delimiter: the value is the rest of the line *)
      rewrite U in *. cbn [length] in *.
      assert (e = length line) by lia. subst e.
      rewrite firstn_all2 by (rewrite skipn_length; lia).
      replace (skipn s line) with (skipn s line ++ [] ++ firstn (length line - (s + off + 0)) (skipn (s + off + 0) line)).
      * constructor; auto.
      * rewrite (@skipn_all2 _ (s + off + 0) line) by lia. rewrite firstn_nil. cbn. apply app_nil_r.
    + destruct Hf as [(a & m & b & Hsk & Ha & Hm) _].
      assert (Hml : length m = length (t_until t)) by (rewrite <- Hm, map_length; reflexivity).
      assert (Hrest : skipn (s + off + length (t_until t)) line = b).
      { rewrite <- Nat.add_assoc, skipn_add, Hsk, <- Ha, <- Hml.
        rewrite skipn_add, skipn_len_app2, skipn_len_app2. reflexivity. }
      rewrite Hrest in Hbody. rewrite Hsk.
      replace (e - s) with (length a + (length m + (e - (s + off + length (t_until t))))) by lia.
      rewrite firstn_app_2, firstn_app_2. constructor; auto.
Qed.

(* C12 {0}: line = pre ++ p' ++ body ++ post with |pre| = s0 (the first occurrence of the leading
   literal), p' the text matching the leading literal, body the tokens' values each followed by its
   delimiter, and e the offset at which body ends *)
Theorem span_proof f d line s0 e caps :
  find_f f d line = Some (s0 :: e :: caps) ->
  exists pre p' body post,
    line = pre ++ p' ++ body ++ post /\ length pre = s0 /\ map f p' = d_prefix d /\
    body_of f (d_tokens d) body /\ e = s0 + length p' + length body.
Proof.
  rewrite find_f_unfold.
  destruct (index_of f (d_prefix d) line) as [s|] eqn:Ep; [|discriminate].
  pose proof (index_of_bound _ _ _ _ Ep) as Hb.
  destruct (scan f (d_tokens d) line (s + length (d_prefix d))) as [[caps' e']|] eqn:Es; [|discriminate].
  intros [= <- <- <-].
  apply index_of_some in Ep as [(pre & p' & b & Hline & Hpre & Hp) _].
  assert (Hpl : length p' = length (d_prefix d)) by (rewrite <- Hp, map_length; reflexivity).
  destruct (scan_chain _ _ _ _ _ _ Hb Es) as (_ & He & _).
  destruct (scan_span _ _ _ _ _ _ Hb Es) as [Hle Hbody].
  assert (Hsk : skipn (s + length (d_prefix d)) line = b).
  { rewrite Hline, <- Hpre, <- Hpl, skipn_add, skipn_len_app2, skipn_len_app2. reflexivity. }
  rewrite Hsk in Hbody.
  exists pre, p', (firstn (e' - (s + length (d_prefix d))) b), (skipn (e' - (s + length (d_prefix d))) b).
  rewrite firstn_skipn. repeat split; auto.
  rewrite firstn_length. assert (length b = length line - (s + length (d_prefix d))).
  { rewrite <- Hsk, skipn_length. reflexivity. }
  lia.
Qed.
