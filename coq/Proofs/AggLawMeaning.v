(* C07 — the table law: what [rebuild] means.  The table rebuilt from a cell map has as row sums,
   column totals, column set and grand total exactly those of the cells; it is well-formed; and
   rebuilding commutes with Trim's specification ([cs_trim] on cells = [spec_trim] on tables). *)
From Coq Require Import List NArith ZArith Bool Lia Sorted Permutation.
From RareV Require Import Base.Hex Base.Num Model.Agg Proofs.AggMap Proofs.AggCounter Proofs.AggTableWf
  Proofs.AggTable Proofs.AggTableTot Proofs.AggTrim Proofs.AggLawDefs.
Import ListNotations.
Local Open Scope Z_scope.

(* ------------------------------------------------------------------ unfolding rebuild / cs_trim *)
Definition rrow (rw : bytes * amap Z) : bytes * trow :=
  (fst rw, (snd rw, wrap64 (zsum (map snd (snd rw))))).
Definition trim_row (pred : bytes -> bytes -> Z -> bool) (rw : bytes * amap Z) : bytes * amap Z :=
  (fst rw, filter (fun cl : bytes * Z => negb (pred (fst cl) (fst rw) (snd cl))) (snd rw)).

Lemma rebuild_rows cs e : t_rows (rebuild cs e) = map rrow cs.
Proof. reflexivity. Qed.
Lemma rebuild_cols cs e :
  t_cols (rebuild cs e) = map (fun c => (c, wrap64 (colsum c cs))) (usort (allcols cs)).
Proof. reflexivity. Qed.
Lemma cs_trim_unfold pred cs :
  cs_trim pred cs = filter (fun rw : bytes * amap Z => negb (is_nil (snd rw))) (map (trim_row pred) cs).
Proof. reflexivity. Qed.

Lemma In_rrow r cells sm cs :
  In (r, (cells, sm)) (map rrow cs) -> In (r, cells) cs /\ sm = wrap64 (zsum (map snd cells)).
Proof.
  intros H. apply in_map_iff in H as ([r' c'] & E & Hin). unfold rrow in E. cbn [fst snd] in E.
  inversion E; subst. split; [exact Hin | reflexivity].
Qed.

Lemma In_allcols c cs :
  In c (allcols cs) <-> exists r cells, In (r, cells) cs /\ In c (map fst cells).
Proof.
  unfold allcols. rewrite in_flat_map. split.
  - intros ([r cells] & H1 & H2). exists r, cells. split; assumption.
  - intros (r & cells & H1 & H2). exists (r, cells). split; assumption.
Qed.

Lemma filter_map_swap {A B} (p : B -> bool) (f : A -> B) l :
  filter p (map f l) = map f (filter (fun x => p (f x)) l).
Proof.
  induction l as [|a l IH]; cbn [map filter]; [reflexivity|].
  destruct (p (f a)); cbn [map]; rewrite IH; reflexivity.
Qed.

(* ------------------------------------------------------------------ 4. cells of the rebuilt table *)
Theorem cells_of_rebuild : forall cs e, cells_of (rebuild cs e) = cs.
Proof.
  intros cs e. unfold cells_of. rewrite rebuild_rows, map_map.
  rewrite (map_ext _ (fun x => x)); [apply map_id|]. intros [r cells]. reflexivity.
Qed.

Theorem cells_spec_trim : forall pred cs e, cells_of (spec_trim pred (rebuild cs e)) = cs_trim pred cs.
Proof.
  intros pred cs e. unfold cells_of. rewrite spec_trim_rows, cells_filter_nonempty, rebuild_rows.
  rewrite cs_trim_unfold. f_equal. rewrite !map_map. apply map_ext. intros [r cells]. reflexivity.
Qed.

Theorem cs_ok_trim : forall pred cs, cs_ok cs -> cs_ok (cs_trim pred cs).
Proof.
  intros pred cs [Hs Hr]. rewrite cs_trim_unfold. split.
  - apply filter_asorted. unfold asorted in *. rewrite map_map. cbn [trim_row fst]. exact Hs.
  - intros r cells Hin. apply filter_In in Hin as [Hin Hne].
    apply in_map_iff in Hin as ([r0 cells0] & E & Hin). unfold trim_row in E. cbn [fst snd] in E.
    inversion E; subst. split.
    + apply filter_asorted. apply (Hr _ _ Hin).
    + intros E0. cbn [snd] in Hne. rewrite E0 in Hne. discriminate.
Qed.

(* ------------------------------------------------------------------ 3. well-formedness *)
Theorem rebuild_wf : forall cs e, cs_ok cs -> t_wf (rebuild cs e) /\ t_totals_ok (rebuild cs e).
Proof.
  intros cs e [Hs Hr]. split; [split; [|split; [|split]]|split]; rewrite ?rebuild_rows, ?rebuild_cols.
  - unfold asorted in *. rewrite map_map. cbn [rrow fst]. exact Hs.
  - unfold asorted. rewrite keys_tab. apply usort_sorted.
  - intros r cells sm Hin. apply In_rrow in Hin as [Hin _]. destruct (Hr _ _ Hin) as [H1 H2].
    split; [exact H1|]. split; [exact H2|]. intros c Hc. rewrite keys_tab. apply In_usort.
    apply In_allcols. exists r, cells. split; assumption.
  - intros c Hc. rewrite keys_tab in Hc. apply (proj1 (In_usort _ _)) in Hc.
    apply In_allcols in Hc as (r & cells & Hin & Hc).
    exists r, cells, (wrap64 (zsum (map snd cells))). split; [|exact Hc].
    apply in_map_iff. exists (r, cells). split; [reflexivity | exact Hin].
  - intros r cells sm Hin. apply In_rrow in Hin as [_ E]. exact E.
  - intros c v Hin. apply in_map_iff in Hin as (c' & E & _). inversion E; subst.
    unfold colsum. rewrite map_map. reflexivity.
Qed.

(* ------------------------------------------------------------------ 2. the meaning of rebuild *)
Theorem rebuild_meaning : forall cs e, cs_ok cs -> let t := rebuild cs e in
  (forall r cells sm, In (r, (cells, sm)) (t_rows t) -> sm = wrap64 (zsum (map snd cells)) /\ In (r, cells) cs) /\
  (forall c, afind c (t_cols t) = if mem c (allcols cs) then Some (wrap64 (colsum c cs)) else None) /\
  (forall c, In c (map fst (t_cols t)) <-> exists r cells, In (r, cells) cs /\ In c (map fst cells)) /\
  map fst (t_cols t) = usort (allcols cs) /\ t_errors t = e.
Proof.
  intros cs e _ t. unfold t. rewrite rebuild_rows, rebuild_cols. split; [|split; [|split; [|split]]].
  - intros r cells sm H. apply In_rrow in H. tauto.
  - intros c. rewrite afind_tab. rewrite (mem_ext c (usort (allcols cs)) (allcols cs)) by apply In_usort. reflexivity.
  - intros c. rewrite keys_tab, In_usort. apply In_allcols.
  - apply keys_tab.
  - reflexivity.
Qed.

(* ------------------------------------------------------------------ 1. the grand total *)
Lemma zsum_map_zero {A} (l : list A) : zsum (map (fun _ => 0) l) = 0.
Proof. induction l as [|x l IH]; [reflexivity|]. cbn [map zsum fold_right] in *. unfold zsum in IH. rewrite IH. reflexivity. Qed.

(* one row: summing its cells over any duplicate-free key list that covers its keys *)
Lemma row_sum_keys (cells : amap Z) : forall L, asorted cells -> NoDup L ->
  (forall c, In c (map fst cells) -> In c L) ->
  zsum (map (fun c => dflt (afind c cells)) L) = zsum (map snd cells).
Proof.
  induction cells as [|[k v] cells IH]; intros L Hs Hnd Hin.
  - cbn [afind dflt map]. apply zsum_map_zero.
  - unfold asorted in Hs. cbn [map fst] in Hs.
    assert (Hk : afind k cells = None) by (apply afind_none_notin; apply (ksorted_notin _ _ Hs)).
    assert (E : forall c, dflt (afind c ((k, v) :: cells)) = (if beq c k then v else 0) + dflt (afind c cells)).
    { intros c. cbn [afind]. destruct (beq c k) eqn:B.
      - apply beq_eq in B. subst c. rewrite Hk. cbn [dflt]. lia.
      - lia. }
    rewrite (map_ext _ _ E), zsum_map_add.
    rewrite sum_indicator; [|exact Hnd | apply Hin; left; reflexivity].
    rewrite IH; [| apply ksorted_cons_inv in Hs; apply Hs | exact Hnd | intros c Hc; apply Hin; right; exact Hc].
    cbn [map snd zsum fold_right]. reflexivity.
Qed.

Lemma colsum_total cs : forall L, (forall r cells, In (r, cells) cs -> asorted cells) -> NoDup L ->
  (forall c, In c (allcols cs) -> In c L) ->
  zsum (map (fun c => colsum c cs) L) = zsum (map (fun rw : bytes * amap Z => zsum (map snd (snd rw))) cs).
Proof.
  induction cs as [|[r cells] cs IH]; intros L Hs Hnd Hin.
  - rewrite (map_ext (fun c => colsum c []) (fun _ => 0) (fun _ => eq_refl)). apply zsum_map_zero.
  - assert (E : forall c, colsum c ((r, cells) :: cs) = dflt (afind c cells) + colsum c cs) by reflexivity.
    rewrite (map_ext _ _ E), zsum_map_add.
    rewrite row_sum_keys;
      [| apply (Hs r); left; reflexivity | exact Hnd
       | intros c Hc; apply Hin; unfold allcols; cbn [flat_map snd]; apply in_or_app; left; exact Hc].
    rewrite IH;
      [| intros r' c' H'; apply (Hs r'); right; exact H' | exact Hnd
       | intros c Hc; apply Hin; unfold allcols; cbn [flat_map snd]; apply in_or_app; right; exact Hc].
    reflexivity.
Qed.

Theorem rebuild_sum : forall cs e, cs_ok cs ->
  t_sum (rebuild cs e) = wrap64 (zsum (map (fun rw : bytes * amap Z => zsum (map snd (snd rw))) cs)).
Proof.
  intros cs e [_ Hr]. unfold t_sum. rewrite rebuild_cols, map_map. cbn [snd].
  change 0 with (wrap64 0) at 1. rewrite fold_add64. cbn [Z.add].
  rewrite (wrap64_zsum_map (fun c => colsum c cs)). f_equal.
  apply colsum_total.
  - intros r cells Hin. apply (Hr _ _ Hin).
  - apply ksorted_NoDup, usort_sorted.
  - intros c Hc. apply In_usort. exact Hc.
Qed.

(* ------------------------------------------------------------------ 5. rebuild commutes with Trim's specification *)
Lemma table_eta t : t = mkT (t_rows t) (t_cols t) (t_errors t).
Proof. destruct t; reflexivity. Qed.

Lemma spec_trim_rebuild_rows pred cs e :
  t_rows (spec_trim pred (rebuild cs e)) = map rrow (cs_trim pred cs).
Proof.
  rewrite spec_trim_rows, rebuild_rows, cs_trim_unfold.
  rewrite (filter_map_swap _ (trim_row pred)). rewrite !map_map. rewrite filter_map_swap. reflexivity.
Qed.

Lemma trim_cols_keys pred cs :
  filter (fun c => existsb (fun rw : bytes * trow =>
                              match afind c (fst (snd rw)) with Some _ => true | None => false end)
                           (map rrow (cs_trim pred cs)))
         (usort (allcols cs)) = usort (allcols (cs_trim pred cs)).
Proof.
  apply ksorted_ext; [apply ksorted_filter, usort_sorted | apply usort_sorted |].
  intros x. rewrite filter_In, !In_usort, existsb_exists. split.
  - intros (_ & rw & Hrw & Hf). apply in_map_iff in Hrw as ([r cells] & <- & Hin).
    cbn [rrow fst snd] in Hf. apply In_allcols. exists r, cells. split; [exact Hin|].
    destruct (afind x cells) eqn:E; [|discriminate]. apply afind_some_in in E.
    apply (in_map fst) in E. exact E.
  - intros H. apply In_allcols in H as (r & cells & Hin & Hc). split.
    + pose proof Hin as Hin'. rewrite cs_trim_unfold in Hin'. apply filter_In in Hin' as [Hin' _].
      apply in_map_iff in Hin' as ([r0 cells0] & E & Hin0). unfold trim_row in E. cbn [fst snd] in E.
      inversion E; subst. apply In_allcols. exists r, cells0. split; [exact Hin0|].
      apply in_map_iff in Hc as (cl & <- & Hcl). apply filter_In in Hcl as [Hcl _]. apply in_map. exact Hcl.
    + exists (rrow (r, cells)). split; [apply in_map; exact Hin|]. cbn [rrow fst snd].
      destruct (afind x cells) eqn:E; [reflexivity|]. apply afind_none_notin in E. contradiction.
Qed.

Lemma spec_trim_rebuild_cols pred cs e :
  t_cols (spec_trim pred (rebuild cs e)) = t_cols (rebuild (cs_trim pred cs) e).
Proof.
  rewrite spec_trim_cols, spec_trim_rebuild_rows, !rebuild_cols.
  rewrite filter_map_swap, map_map. cbn [fst]. rewrite trim_cols_keys.
  apply map_ext. intros c. unfold colsum. rewrite map_map. reflexivity.
Qed.

(* holds for every cell map; [cs_ok] is not needed *)
Theorem rebuild_spec_trim_gen : forall pred cs e,
  rebuild (cs_trim pred cs) e = spec_trim pred (rebuild cs e).
Proof.
  intros pred cs e. rewrite (table_eta (spec_trim pred (rebuild cs e))).
  rewrite spec_trim_rebuild_rows, spec_trim_rebuild_cols. reflexivity.
Qed.

Theorem rebuild_spec_trim : forall pred cs e, cs_ok cs ->
  rebuild (cs_trim pred cs) e = spec_trim pred (rebuild cs e).
Proof. intros pred cs e _. apply rebuild_spec_trim_gen. Qed.
