(* C02: every consumed match carries the identity of a true input line. *)
From Coq Require Import List NArith ZArith Arith Lia Bool Permutation.
From RareV Require Import Base.Hex Base.Res Model.Lines Model.Batch Model.Pipeline Model.Ctx Model.Extract
  Proofs.PipelineProof Proofs.PipelineEnd Proofs.ExtractProof.
Import ListNotations.

Section Fields.
Variable names : list (bytes * Z).
Variable extract : ktmpl.
Variable igs : list ktmpl.
Variable orc : lineid -> option (list Z).
Variable c : cfg.
Notation classify := (classify_of names extract igs orc).

Lemma in_seq_keys m ids : In m (seq_keys mtch classify ids) ->
  exists id, In id ids /\ classify id = Mat m.
Proof.
  unfold seq_keys. rewrite in_flat_map. intros (id & Hin & Hk). exists id. split; [exact Hin|].
  unfold key_of in Hk. destruct (classify id); try contradiction. destruct Hk as [->|[]]. reflexivity.
Qed.

Theorem consumed_true ds nw s m : cfg_ok c -> nw >= 1 ->
  reach mtch classify c (init mtch (map source_of ds) nw) s -> (forall s', ~ step mtch classify c s s') ->
  In m (consumed mtch s) ->
  In (e_src m, e_no m, e_line m) (flat_map true_lines ds) /\ orc (e_src m, e_no m, e_line m) = Some (e_ix m).
Proof.
  intros Hc Hn Hr Ht Hin.
  destruct (end_to_end mtch classify c ds nw s Hc Hn Hr Ht) as (_ & Hp & _).
  apply (Permutation_in _ Hp) in Hin. apply in_seq_keys in Hin as (id & Hid & Hcl).
  unfold classify_of in Hcl. destruct (process names extract igs id (orc id)) as [cl|] eqn:E; cbn [cls_of] in Hcl; [|discriminate].
  subst cl. destruct (process_fields names extract igs orc id m E) as (F & G). rewrite F. split; assumption.
Qed.

(* the true 1-based line number: the text of a consumed match is the line at that position *)
Lemma numbered_nth src ls : forall start n l, In (src, n, l) (numbered src start ls) ->
  (start <= n)%N /\ nth_error ls (N.to_nat (n - start)) = Some l.
Proof.
  induction ls as [|x ls IH]; intros start n l Hin; [contradiction|]. cbn [numbered] in Hin. destruct Hin as [H|H].
  - inversion H; subst. split; [lia|]. rewrite N.sub_diag. reflexivity.
  - apply IH in H as (A & B). split; [lia|].
    replace (N.to_nat (n - start)) with (S (N.to_nat (n - N.succ start))) by lia. exact B.
Qed.
End Fields.
