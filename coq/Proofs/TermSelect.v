(* C20 — which writer a command gets (Model/Term.v select_writer, BuildVTerm / IsPipedOutput). *)
From Coq Require Import List NArith ZArith Bool Arith.
From RareV Require Import Base.Hex Base.Res Gen.GenTerm Model.Trim Model.Term Proofs.TrimStore.
Import ListNotations.

Lemma select_not_chardev : forall k snap, is_char_device k = false -> select_writer k snap = WBuffered.
Proof. intros k snap H. unfold select_writer, is_piped_output. rewrite H. rewrite orb_true_r. reflexivity. Qed.

Lemma select_snapshot : forall k, select_writer k true = WBuffered.
Proof. reflexivity. Qed.

Lemma select_live_inv : forall k snap, select_writer k snap = WLive -> snap = false /\ is_char_device k = true.
Proof. intros k [] H; destruct k; cbn in H; try discriminate; auto. Qed.

Lemma select_never_null : forall k snap, select_writer k snap <> WNull.
Proof. intros k snap. unfold select_writer. destruct (snap || is_piped_output k)%bool; discriminate. Qed.

Lemma select_terminal : select_writer OTerminal false = WLive.
Proof. reflexivity. Qed.

(* the one deviation from "anything but a terminal gets the buffered writer" *)
Lemma select_chardev_only : forall k, is_terminal k = false -> select_writer k false = WLive -> k = OCharDev.
Proof. intros [] H1 H2; cbn in *; try discriminate; reflexivity. Qed.

Lemma select_args : forall noout csv snap k,
  select_from_args noout csv snap k = if (noout || csv)%bool then WNull else select_writer k snap.
Proof. reflexivity. Qed.

Lemma color_off_not_chardev : forall k, is_char_device k = false -> color_default k = false.
Proof. intros k H. unfold color_default, is_piped_output. rewrite H. reflexivity. Qed.

(* what arrives when standard output is not a character device *)
Lemma session_not_chardev : forall c k snap ups, is_char_device k = false ->
  session_output c (select_writer k snap) ups =
  Ok (flat_map (fun l => write_line_no_wrap (autotrim c) (cols c) (last_write l ups) ++ [10%N])
               (seq 0 (line_count 0 ups))).
Proof.
  intros c k snap ups H. rewrite (select_not_chardev k snap H). unfold session_output.
  rewrite C20_buffered_same_proof. reflexivity.
Qed.

(* start-up configuration (linetrim.go init) *)
Lemma default_cfg_env : forall k win e e', default_cfg k win e = default_cfg k win e'.
Proof. reflexivity. Qed.

Lemma default_cfg_not_terminal : forall k win e, is_terminal k = false ->
  default_cfg k win e = mkcfg false DefaultCols.
Proof. intros k win e H. unfold default_cfg. rewrite H. reflexivity. Qed.

Lemma default_cfg_terminal : forall win e, default_cfg OTerminal win e = mkcfg true win.
Proof. reflexivity. Qed.

Lemma not_chardev_not_terminal : forall k, is_char_device k = false -> is_terminal k = false.
Proof. intros [] H; cbn in *; try discriminate; reflexivity. Qed.

(* a standard output that is not a character device receives the final lines UNTRIMMED,
   whatever the window size and the environment *)
Lemma session_untrimmed : forall k win e snap ups, is_char_device k = false ->
  session_output (default_cfg k win e) (select_writer k snap) ups =
  Ok (flat_map (fun l => last_write l ups ++ [10%N]) (seq 0 (line_count 0 ups))).
Proof.
  intros k win e snap ups H.
  rewrite (default_cfg_not_terminal k win e (not_chardev_not_terminal k H)).
  rewrite (session_not_chardev _ k snap ups H). reflexivity.
Qed.
