(* Composition of the pipeline theorem with the batch cutter (Model/Batch.v) and the line scanner
   (C04): read chunking, buffer size, batch size and the time-flush decisions are further
   universally quantified parameters of the end-to-end statement. *)
From Coq Require Import List NArith Arith Lia Permutation Bool.
From RareV Require Import Base.Hex Model.Lines Model.Batch Model.Pipeline
  Proofs.LinesProof Proofs.LinesErr Proofs.LinesTotal Proofs.LinesMain Proofs.BatchProof Proofs.PipelineProof.
Import ListNotations.

(* one input as the outside world gives it: name, whether it can be opened, its bytes, how the OS
   chunks the reads (script), the scanner's buffer size, batch size and time-flush decisions *)
Record indesc := { d_name : bytes; d_ok : bool; d_bytes : list byte; d_script : script;
                   d_bufsize : nat; d_batch : nat; d_flush : list bool }.

Definition scanned (d : indesc) : obs :=
  match run (d_bufsize d) (d_script d) (d_bytes d) with
  | Some o => o
  | None => mkobs [] [] 0 0 []     (* impossible: run_total *)
  end.

(* what the reader goroutine of this input does: scan lines, cut them into batches *)
Definition source_of (d : indesc) : source :=
  (d_ok d, negb (Nat.eqb (o_nerr (scanned d)) 0), cut (d_name d) (d_batch d) (d_flush d) (o_ret (scanned d))).

(* the true lines of an input: the line segments of the bytes its reader delivered, numbered from 1 *)
Definition true_lines (d : indesc) : list lineid :=
  if d_ok d then numbered (d_name d) 1%N (lines_spec (o_del (scanned d))) else [].

Lemma scanned_spec d : o_ret (scanned d) = lines_spec (o_del (scanned d)).
Proof.
  unfold scanned. destruct (C04_scanner_proof (d_bufsize d) (d_script d) (d_bytes d)) as (o & Ho & A & _).
  rewrite Ho. exact A.
Qed.

Theorem input_of_sources ds : input_of (map source_of ds) = flat_map true_lines ds.
Proof.
  unfold input_of. induction ds as [|d ds IH]; [reflexivity|].
  cbn [map flat_map]. rewrite IH. f_equal. unfold source_of, true_lines. cbn [fst snd].
  destruct (d_ok d); [|reflexivity]. rewrite cut_ids, scanned_spec. reflexivity.
Qed.

Section End2End.
Variable K : Type.
Variable classify : lineid -> cls K.
Variable c : cfg.

Theorem end_to_end ds nw s : cfg_ok c -> nw >= 1 ->
  reach K classify c (init K (map source_of ds) nw) s -> (forall s', ~ step K classify c s s') ->
  cdone K s = true /\
  Permutation (consumed K s) (seq_keys K classify (flat_map true_lines ds)) /\
  cR K s = length (flat_map true_lines ds) /\
  cM K s = list_sum (map (isM K classify) (flat_map true_lines ds)) /\
  cI K s = list_sum (map (isI K classify) (flat_map true_lines ds)) /\
  errs K s = errors_of (map source_of ds).
Proof.
  intros Hc Hn Hr Ht. rewrite <- input_of_sources.
  destruct (pipeline_final K classify c _ _ _ Hc Hn Hr Ht) as (A & B & C & D & E & F & _).
  repeat split; assumption.
Qed.
End End2End.
