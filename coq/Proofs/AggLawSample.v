(* C07 — the table law, Sample step: one Sample on the table rebuilt from a cell map is the table
   rebuilt from the cell map after the straightforward cell update. *)
From Coq Require Import List NArith ZArith Bool Lia.
From RareV Require Import Base.Hex Base.Num Model.Agg Proofs.AggMap Proofs.AggCounter Proofs.AggLawDefs.
Import ListNotations.
Local Open Scope Z_scope.

(* ------------------------------------------------------------------ small unfolding facts *)
Lemma zsum_cons x l : zsum (x :: l) = x + zsum l.
Proof. reflexivity. Qed.
Lemma colsum_nil c : colsum c [] = 0.
Proof. reflexivity. Qed.
Lemma colsum_cons c r cells (cs : cellmap) :
  colsum c ((r, cells) :: cs) = dflt (afind c cells) + colsum c cs.
Proof. reflexivity. Qed.
Lemma allcols_cons r (cells : amap Z) (cs : cellmap) :
  allcols ((r, cells) :: cs) = map fst cells ++ allcols cs.
Proof. reflexivity. Qed.

Lemma aupd_nonnil {V} k (f : option V -> V) m : aupd k f m <> [].
Proof. destruct m as [|[k' x] m]; cbn; [discriminate|]. destruct (bcmp k k'); discriminate. Qed.

(* where the entries of an updated map come from *)
Lemma In_aupd {V} k (f : option V -> V) m k2 x :
  In (k2, x) (aupd k f m) ->
  In (k2, x) m \/ x = f None \/ exists y, In (k, y) m /\ x = f (Some y).
Proof.
  induction m as [|[k' y] m IH]; cbn.
  - intros [E|[]]. inversion E; subst. right. left. reflexivity.
  - destruct (bcmp k k') eqn:E; cbn.
    + apply bcmp_eq in E. subst k'. intros [E|H].
      * inversion E; subst. right. right. exists y. split; [left; reflexivity | reflexivity].
      * left. right. exact H.
    + intros [E'|H].
      * inversion E'; subst. right. left. reflexivity.
      * left. exact H.
    + intros [E'|H].
      * left. left. exact E'.
      * destruct (IH H) as [H1|[H1|(y0 & H1 & H2)]].
        -- left. right. exact H1.
        -- right. left. exact H1.
        -- right. right. exists y0. split; [right; exact H1 | exact H2].
Qed.

(* ------------------------------------------------------------------ cs_ok is kept *)
Lemma cs_ok_sample : forall cs c r v, cs_ok cs -> cs_ok (cs_sample_item cs c r v).
Proof.
  intros cs c r v [Hs Hrows]. unfold cs_sample_item. split.
  - apply aupd_sorted. exact Hs.
  - intros r' cells Hin. apply In_aupd in Hin as [Hin|[E|(y & Hin & E)]].
    + apply (Hrows _ _ Hin).
    + subst cells. split; [|apply aupd_nonnil].
      apply aupd_sorted. unfold asorted. cbn. constructor.
    + subst cells. split; [|apply aupd_nonnil].
      apply aupd_sorted. apply (Hrows _ _ Hin).
Qed.

(* ------------------------------------------------------------------ rows *)
(* the sum of a row's cells after one addition (no sortedness needed) *)
Lemma zsum_aupd c v (cells : amap Z) :
  wrap64 (zsum (map snd (aupd c (addo v) cells))) = wrap64 (zsum (map snd cells) + v).
Proof.
  induction cells as [|[k' x] cells IH].
  - cbn [aupd map snd]. rewrite !zsum_cons. unfold addo, add64, dflt.
    rewrite wrap64_idem. f_equal. unfold zsum. cbn [map fold_right]. ring.
  - cbn [aupd]. destruct (bcmp c k') eqn:E.
    + cbn [map snd]. rewrite !zsum_cons. unfold addo, add64, dflt.
      rewrite wrap64_idem. f_equal. ring.
    + cbn [map snd]. rewrite !zsum_cons. unfold addo, add64, dflt.
      rewrite wrap64_idem. f_equal. ring.
    + cbn [map snd]. rewrite !zsum_cons.
      rewrite <- wrap64_idem_r. cbn [map snd] in IH. rewrite IH.
      rewrite wrap64_idem_r. f_equal. ring.
Qed.

(* updating a map of images = image of the updated map *)
Lemma aupd_map {A B} (g : A -> B) k (F : option B -> B) (F' : option A -> A) (m : amap A) :
  (forall o, F (option_map g o) = g (F' o)) ->
  aupd k F (map (fun kv : bytes * A => (fst kv, g (snd kv))) m)
  = map (fun kv : bytes * A => (fst kv, g (snd kv))) (aupd k F' m).
Proof.
  intros HF. induction m as [|[k' x] m IH].
  - cbn. rewrite <- (HF None). reflexivity.
  - cbn [map fst snd aupd]. destruct (bcmp k k') eqn:E.
    + cbn [map fst snd]. rewrite <- (HF (Some x)). reflexivity.
    + cbn [map fst snd]. rewrite <- (HF None). reflexivity.
    + cbn [map fst snd]. rewrite IH. reflexivity.
Qed.

Definition rowimg (cells : amap Z) : trow := (cells, wrap64 (zsum (map snd cells))).

Lemma rebuild_rows cs e :
  t_rows (rebuild cs e) = map (fun kv : bytes * amap Z => (fst kv, rowimg (snd kv))) cs.
Proof. reflexivity. Qed.

Lemma rows_sample cs e c r v :
  t_rows (t_sample_item (rebuild cs e) c r v) = t_rows (rebuild (cs_sample_item cs c r v) e).
Proof.
  rewrite (rebuild_rows (cs_sample_item cs c r v)).
  unfold t_sample_item. cbn [t_rows]. rewrite (rebuild_rows cs e).
  unfold cs_sample_item. apply aupd_map.
  intros [cells|]; cbn [option_map]; unfold rowimg.
  - rewrite add64_wrap, zsum_aupd. reflexivity.
  - rewrite zsum_aupd. unfold add64. cbn [map]. reflexivity.
Qed.

(* ------------------------------------------------------------------ columns *)
Lemma allcols_sample cs c r v x :
  In x (allcols (cs_sample_item cs c r v)) <-> x = c \/ In x (allcols cs).
Proof.
  unfold cs_sample_item. induction cs as [|[r' cells] cs IH].
  - cbn. intuition.
  - cbn [aupd]. destruct (bcmp r r') eqn:E.
    + rewrite !allcols_cons, !in_app_iff, keys_aupd, In_uins. tauto.
    + rewrite !allcols_cons, !in_app_iff. cbn. intuition auto.
    + rewrite !allcols_cons, !in_app_iff, IH. tauto.
Qed.

Lemma colsum_sample_other cs c r v c' :
  c' <> c -> colsum c' (cs_sample_item cs c r v) = colsum c' cs.
Proof.
  intros Hne. unfold cs_sample_item. induction cs as [|[r' cells] cs IH].
  - cbn [aupd]. rewrite colsum_cons, colsum_nil. cbn [afind]. rewrite (beq_neq c' c) by exact Hne.
    reflexivity.
  - cbn [aupd]. destruct (bcmp r r') eqn:E.
    + rewrite !colsum_cons, afind_aupd_other by exact Hne. reflexivity.
    + rewrite !colsum_cons. cbn [afind]. rewrite (beq_neq c' c) by exact Hne. reflexivity.
    + rewrite !colsum_cons, IH. reflexivity.
Qed.

Lemma colsum_sample_same cs c r v :
  (forall r' cells, In (r', cells) cs -> asorted cells) ->
  wrap64 (colsum c (cs_sample_item cs c r v)) = wrap64 (colsum c cs + v).
Proof.
  unfold cs_sample_item. induction cs as [|[r' cells] cs IH]; intros Hrows.
  - cbn [aupd]. rewrite colsum_cons, colsum_nil. cbn [afind]. rewrite beq_refl.
    unfold addo, add64, dflt. rewrite wrap64_idem. f_equal. ring.
  - cbn [aupd]. destruct (bcmp r r') eqn:E.
    + rewrite !colsum_cons, afind_aupd_same by (apply (Hrows r'); left; reflexivity).
      unfold addo, add64. cbn [dflt]. rewrite wrap64_idem. f_equal. ring.
    + rewrite !colsum_cons. cbn [afind]. rewrite beq_refl.
      unfold addo, add64. cbn [dflt]. rewrite wrap64_idem. f_equal. ring.
    + rewrite !colsum_cons. rewrite <- wrap64_idem_r, IH.
      * rewrite wrap64_idem_r. f_equal. ring.
      * intros r2 cells2 Hin. apply (Hrows r2). right. exact Hin.
Qed.

Lemma colsum_notin cs c : ~ In c (allcols cs) -> colsum c cs = 0.
Proof.
  induction cs as [|[r' cells] cs IH]; intros Hn; [reflexivity|].
  rewrite allcols_cons, in_app_iff in Hn. rewrite colsum_cons, IH by tauto.
  assert (E : afind c cells = None) by (apply afind_none_notin; tauto).
  rewrite E. reflexivity.
Qed.

Lemma rebuild_cols_sorted cs e : asorted (t_cols (rebuild cs e)).
Proof. unfold rebuild, asorted. cbn [t_cols]. rewrite keys_tab. apply usort_sorted. Qed.

Lemma afind_rebuild_cols cs e k :
  afind k (t_cols (rebuild cs e)) = if mem k (allcols cs) then Some (wrap64 (colsum k cs)) else None.
Proof.
  unfold rebuild. cbn [t_cols]. rewrite (afind_tab (fun c => wrap64 (colsum c cs))).
  rewrite (mem_ext k (usort (allcols cs)) (allcols cs)) by apply In_usort. reflexivity.
Qed.

Lemma cols_sample cs e c r v :
  cs_ok cs ->
  t_cols (t_sample_item (rebuild cs e) c r v) = t_cols (rebuild (cs_sample_item cs c r v) e).
Proof.
  intros [Hs Hrows]. unfold t_sample_item. cbn [t_cols].
  apply amap_ext.
  - apply aupd_sorted. apply rebuild_cols_sorted.
  - apply rebuild_cols_sorted.
  - intros k. rewrite (afind_rebuild_cols (cs_sample_item cs c r v)).
    destruct (bytes_dec k c) as [->|Hne].
    + rewrite afind_aupd_same by apply rebuild_cols_sorted.
      rewrite afind_rebuild_cols.
      assert (M : mem c (allcols (cs_sample_item cs c r v)) = true).
      { apply mem_In. apply allcols_sample. left. reflexivity. }
      rewrite M. f_equal.
      rewrite colsum_sample_same by (intros r' cells Hin; apply (Hrows _ _ Hin)).
      destruct (mem c (allcols cs)) eqn:M0; unfold addo; cbn [dflt].
      * apply add64_wrap.
      * assert (Z0 : colsum c cs = 0).
        { apply colsum_notin. intros Hin. apply mem_In in Hin. congruence. }
        rewrite Z0. reflexivity.
    + rewrite afind_aupd_other by exact Hne. rewrite afind_rebuild_cols.
      rewrite (mem_ext k (allcols (cs_sample_item cs c r v)) (allcols cs)).
      * rewrite colsum_sample_other by exact Hne. reflexivity.
      * rewrite allcols_sample. tauto.
Qed.

(* ------------------------------------------------------------------ the step *)
Lemma rebuild_sample : forall cs e c r v, cs_ok cs ->
  t_sample_item (rebuild cs e) c r v = rebuild (cs_sample_item cs c r v) e.
Proof.
  intros cs e c r v Hok.
  pose proof (rows_sample cs e c r v) as HR.
  pose proof (cols_sample cs e c r v Hok) as HC.
  destruct (t_sample_item (rebuild cs e) c r v) as [rows cols errs] eqn:ET.
  assert (HE : errs = e).
  { change errs with (t_errors (mkT rows cols errs)). rewrite <- ET. reflexivity. }
  cbn [t_rows t_cols] in HR, HC. subst rows cols errs.
  unfold rebuild. reflexivity.
Qed.
