(* Escapes outside braces: the escaped rendering of any string evaluates to that string. *)
From Coq Require Import List NArith ZArith Bool Lia Arith.
From RareV Require Import Base.Res Base.Hex Base.Num Model.IsSpace Model.Tmpl Model.TmplPrint Proofs.TmplFuel.
Import ListNotations.
Local Open Scope N_scope.

Lemma eqb_lit_false a b : a <> b -> (a =? b) = false.
Proof. apply N.eqb_neq. Qed.

Section Esc.
  Variable fixed : bool.
  Variable fs : fenv.
  Variable rec : str -> result (tmpl * list cerr).

  (* an escaped pair, at any depth *)
  Lemma scan_pair i start depth sb stages errs c rest :
    scan fixed fs rec i start depth sb stages errs (92 :: c :: rest)
    = scan fixed fs rec (i + 2) start depth (sb ++ [unescape c]) stages errs rest.
  Proof. reflexivity. Qed.

  (* a rune that is none of backslash and braces, at any depth *)
  Lemma scan_plain i start depth sb stages errs c rest :
    c <> 92 -> c <> 123 -> c <> 125 ->
    scan fixed fs rec i start depth sb stages errs (c :: rest)
    = scan fixed fs rec (i + 1) start depth (sb ++ [c]) stages errs rest.
  Proof.
    intros H1 H2 H3. cbn [scan]. rewrite !eqb_lit_false by assumption. reflexivity.
  Qed.

  Lemma scan_esc : forall s i start depth sb stages errs rest,
    scan fixed fs rec i start depth sb stages errs (esc s ++ rest)
    = scan fixed fs rec (i + N.of_nat (length (esc s))) start depth (sb ++ s) stages errs rest.
  Proof.
    induction s as [|a s IH]; intros i start depth sb stages errs rest.
    - cbn. rewrite app_nil_r, N.add_0_r. reflexivity.
    - change (esc (a :: s)) with (esc1 a ++ esc s). rewrite <- app_assoc.
      assert (Hgo : forall x, sb ++ a :: s = (sb ++ [x]) ++ s -> x = a -> True) by auto. clear Hgo.
      unfold esc1.
      destruct ((a =? 92) || (a =? 123) || (a =? 125)) eqn:Hsp.
      { cbn [app]. rewrite scan_pair, IH.
        assert (Hu : unescape a = a).
        { repeat (apply orb_true_iff in Hsp; destruct Hsp as [Hsp|Hsp]);
            apply N.eqb_eq in Hsp; subst a; reflexivity. }
        rewrite Hu. f_equal.
        - rewrite ?app_length. cbn [length]. lia.
        - rewrite <- app_assoc. reflexivity. }
      apply orb_false_iff in Hsp as [Hsp H125]. apply orb_false_iff in Hsp as [H92 H123].
      apply N.eqb_neq in H92, H123, H125.
      destruct (a =? 10) eqn:H10; [apply N.eqb_eq in H10; subst a|];
        [|destruct (a =? 13) eqn:H13; [apply N.eqb_eq in H13; subst a|];
          [|destruct (a =? 9) eqn:H9; [apply N.eqb_eq in H9; subst a|]]].
      + cbn [app]. rewrite scan_pair, IH. change (unescape 110) with 10. f_equal.
        * rewrite ?app_length. cbn [length]. lia.
        * rewrite <- app_assoc. reflexivity.
      + cbn [app]. rewrite scan_pair, IH. change (unescape 114) with 13. f_equal.
        * rewrite ?app_length. cbn [length]. lia.
        * rewrite <- app_assoc. reflexivity.
      + cbn [app]. rewrite scan_pair, IH. change (unescape 116) with 9. f_equal.
        * rewrite ?app_length. cbn [length]. lia.
        * rewrite <- app_assoc. reflexivity.
      + cbn [app]. rewrite scan_plain by assumption. rewrite IH. f_equal.
        * rewrite ?app_length. cbn [length]. lia.
        * rewrite <- app_assoc. reflexivity.
  Qed.
End Esc.

Lemma flush_lit s : s <> [] -> flush s = [PLit s].
Proof. destruct s; [congruence|reflexivity]. Qed.

(* for any string s: Compile(esc s) is the single literal s (no stage at all for the empty string) *)
Theorem escape_roundtrip fixed fs s : compile_gen fixed fs (esc s) = Ok (flush s, []).
Proof.
  rewrite compile_unfold. rewrite <- (app_nil_r (esc s)). rewrite scan_esc. reflexivity.
Qed.

(* backslash followed by any rune c, between escaped text: c itself, except n r t (LF CR TAB) *)
Theorem backslash_any fixed fs s c s' :
  compile_gen fixed fs (esc s ++ 92 :: c :: esc s') = Ok ([PLit (s ++ unescape c :: s')], []).
Proof.
  rewrite compile_unfold, scan_esc, scan_pair.
  rewrite <- (app_nil_r (esc s')), scan_esc. cbn [scan app].
  rewrite <- app_assoc. cbn [app]. rewrite flush_lit; [reflexivity|].
  destruct s; discriminate.
Qed.

Lemma unescape_other c : c <> 110 -> c <> 114 -> c <> 116 -> unescape c = c.
Proof. intros. unfold unescape. rewrite !eqb_lit_false by assumption. reflexivity. Qed.

(* defect #1: a template that ends in an unpaired backslash *)
Theorem trailing_backslash_repaired fs s :
  compile fs (esc s ++ [92]) = Ok ([PLit (s ++ [92])], []).
Proof.
  unfold compile. rewrite compile_unfold, scan_esc. cbn [scan]. change (92 =? 92) with true. cbn [scan app].
  rewrite flush_lit; [reflexivity|]. destruct s; discriminate.
Qed.

Theorem trailing_backslash_pinned fs s : compile_pinned fs (esc s ++ [92]) = Panic.
Proof.
  unfold compile_pinned. rewrite compile_unfold, scan_esc. reflexivity.
Qed.
