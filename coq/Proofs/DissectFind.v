(* C12 — FindSubmatchIndex equals the declarative specification; offsets are ordered and within
   the line; skipped tokens consume without capturing. *)
From Coq Require Import List NArith Bool Arith Lia.
From RareV Require Import Base.Hex Model.Dissect Proofs.DissectSearch.
Import ListNotations.

(* the offset at which a token's value ends, relative to [s] *)
Definition until_off (f : N -> N) (t : token) (line : bytes) (s : nat) : option nat :=
  match t_until t with
  | [] => Some (length line - s)
  | u => index_of f u (skipn s line)
  end.

Lemma scan_cons f t ts line s :
  scan f (t :: ts) line s =
  match until_off f t line s with
  | None => None
  | Some off =>
      match scan f ts line (s + off + length (t_until t)) with
      | None => None
      | Some (caps, stop) => Some (capture t s (s + off) ++ caps, stop)
      end
  end.
Proof. reflexivity. Qed.

Lemma until_off_spec f t line s off :
  s <= length line ->
  (until_off f t line s = Some off <->
   (t_until t = [] /\ s + off = length line) \/
   (t_until t <> [] /\ first_occ f (t_until t) (skipn s line) off)).
Proof.
  intros Hs. unfold until_off. destruct (t_until t) as [|u us] eqn:U.
  - split.
    + intros [= <-]. left. split; auto. lia.
    + intros [[_ H]|[H _]]; [f_equal; lia|congruence].
  - rewrite index_of_some. split.
    + intros H. right. split; auto. discriminate.
    + intros [[H _]|[_ H]]; [discriminate|auto].
Qed.

Lemma until_off_bound f t line s off :
  s <= length line -> until_off f t line s = Some off -> s + off + length (t_until t) <= length line.
Proof.
  intros Hs. unfold until_off. destruct (t_until t) as [|u us] eqn:U.
  - intros [= <-]. cbn. lia.
  - intros H. apply index_of_bound in H. rewrite skipn_length in H. lia.
Qed.

(* ---------- scan = scan_spec ---------- *)

Lemma scan_sound f line : forall toks s caps e,
  s <= length line -> scan f toks line s = Some (caps, e) -> scan_spec f line toks s caps e.
Proof.
  induction toks as [|t ts IH]; intros s caps e Hs H.
  - cbn in H. inversion H; subst. constructor.
  - rewrite scan_cons in H. destruct (until_off f t line s) as [off|] eqn:Eo; [|discriminate].
    pose proof (until_off_bound _ _ _ _ _ Hs Eo) as Hb.
    destruct (scan f ts line (s + off + length (t_until t))) as [[caps' e']|] eqn:Es; [|discriminate].
    inversion H; subst. apply IH in Es; auto.
    apply until_off_spec in Eo as [[U Hl]|[U Hf]]; auto.
    + rewrite U in Es. cbn in Es. replace (s + off + 0) with (length line) in Es by lia.
      rewrite Hl. apply ss_rest; auto.
    + apply ss_delim; auto.
Qed.

Lemma scan_complete f line : forall toks s caps e,
  s <= length line -> scan_spec f line toks s caps e -> scan f toks line s = Some (caps, e).
Proof.
  intros toks s caps e Hs H. induction H as [s|t ts s caps e U H IH|t ts s off caps e U Hf H IH].
  - reflexivity.
  - rewrite scan_cons.
    assert (Eo : until_off f t line s = Some (length line - s)).
    { apply until_off_spec; auto. left. split; auto. lia. }
    rewrite Eo, U. cbn [length]. replace (s + (length line - s) + 0) with (length line) by lia.
    rewrite IH by lia. replace (s + (length line - s)) with (length line) by lia. reflexivity.
  - rewrite scan_cons.
    assert (Eo : until_off f t line s = Some off).
    { apply until_off_spec; auto. }
    rewrite Eo. rewrite IH; auto. eapply until_off_bound; eauto.
Qed.

Lemma prefix_search_eq f d line :
  (match d_prefix d with [] => Some 0 | p => index_of f p line end) = index_of f (d_prefix d) line.
Proof. destruct (d_prefix d); auto. rewrite index_of_empty. reflexivity. Qed.

Lemma find_f_unfold f d line :
  find_f f d line =
  match index_of f (d_prefix d) line with
  | None => None
  | Some s0 =>
      match scan f (d_tokens d) line (s0 + length (d_prefix d)) with
      | None => None
      | Some (caps, stop) => Some (s0 :: stop :: caps)
      end
  end.
Proof. unfold find_f. rewrite prefix_search_eq. reflexivity. Qed.

Lemma find_match f d line r : find_f f d line = Some r <-> match_spec f d line r.
Proof.
  rewrite find_f_unfold. unfold match_spec. split.
  - destruct (index_of f (d_prefix d) line) as [s0|] eqn:Ep; [|discriminate].
    pose proof (index_of_bound _ _ _ _ Ep) as Hb.
    destruct (scan f (d_tokens d) line (s0 + length (d_prefix d))) as [[caps e]|] eqn:Es; [|discriminate].
    intros [= <-]. exists s0, caps, e. repeat split.
    + apply index_of_some in Ep as [H _]; auto.
    + apply index_of_some in Ep as [_ H]; auto.
    + apply scan_sound; auto.
  - intros (s0 & caps & e & -> & Hf & Hs).
    pose proof (occurs_bound _ _ _ _ (proj1 Hf)) as Hb.
    apply index_of_some in Hf. rewrite Hf.
    apply scan_complete in Hs; auto. rewrite Hs. reflexivity.
Qed.

(* C12_find_spec *)
Theorem find_spec_proof f d line r : find_f f d line = r <-> dissect_spec f d line r.
Proof.
  destruct r as [r|]; cbn.
  - apply find_match.
  - split.
    + intros H r Hr. apply find_match in Hr. congruence.
    + intros H. destruct (find_f f d line) as [r|] eqn:E; auto.
      apply find_match in E. exfalso; eapply H; eauto.
Qed.

(* the specification determines the result *)
Lemma match_spec_fun f d line r1 r2 : match_spec f d line r1 -> match_spec f d line r2 -> r1 = r2.
Proof. intros H1 H2. apply find_match in H1, H2. congruence. Qed.

(* ---------- offsets ordered and within the line ---------- *)

Lemma chainb_weaken lo lo' l hi : lo' <= lo -> chainb lo l hi = true -> chainb lo' l hi = true.
Proof.
  destruct l as [|x r]; cbn.
  - rewrite !Nat.leb_le. lia.
  - rewrite !andb_true_iff, !Nat.leb_le. intros ? [? ?]. split; auto. lia.
Qed.

Lemma scan_chain f line : forall toks s caps e,
  s <= length line -> scan f toks line s = Some (caps, e) ->
  chainb s caps e = true /\ e <= length line /\ length caps = 2 * length (nonskip toks).
Proof.
  induction toks as [|t ts IH]; intros s caps e Hs H.
  - cbn in H. inversion H; subst. cbn. rewrite Nat.leb_le. lia.
  - rewrite scan_cons in H. destruct (until_off f t line s) as [off|] eqn:Eo; [|discriminate].
    pose proof (until_off_bound _ _ _ _ _ Hs Eo) as Hb.
    destruct (scan f ts line (s + off + length (t_until t))) as [[caps' e']|] eqn:Es; [|discriminate].
    inversion H; subst. apply IH in Es as (Hc & He & Hl); auto.
    split; [|split]; auto.
    + unfold capture. destruct (t_skip t); cbn.
      * eapply chainb_weaken; [|eauto]. lia.
      * rewrite !andb_true_iff, !Nat.leb_le. repeat split; try lia.
        eapply chainb_weaken; [|eauto]. lia.
    + unfold nonskip in *. cbn [filter]. unfold capture.
      destruct (t_skip t); cbn [negb app length]; lia.
Qed.

(* C12_offsets_ordered: s0 <= c1 <= c2 <= ... <= e <= |line|; one pair per non-skipped token;
   everything after the matched prefix *)
Theorem offsets_ordered_proof f d line s0 e caps :
  find_f f d line = Some (s0 :: e :: caps) ->
  chainb (s0 + length (d_prefix d)) caps e = true /\ e <= length line /\
  length caps = 2 * length (nonskip (d_tokens d)).
Proof.
  rewrite find_f_unfold.
  destruct (index_of f (d_prefix d) line) as [s|] eqn:Ep; [|discriminate].
  pose proof (index_of_bound _ _ _ _ Ep) as Hb.
  destruct (scan f (d_tokens d) line (s + length (d_prefix d))) as [[caps' e']|] eqn:Es; [|discriminate].
  intros [= <- <- <-]. eapply scan_chain; eauto.
Qed.

Lemma find_shape f d line r : find_f f d line = Some r -> exists s0 e caps, r = s0 :: e :: caps.
Proof.
  rewrite find_f_unfold.
  destruct (index_of f (d_prefix d) line) as [s|]; [|discriminate].
  destruct (scan f (d_tokens d) line (s + length (d_prefix d))) as [[caps' e']|]; [|discriminate].
  intros [= <-]. eauto.
Qed.

Theorem result_ok_proof f d line r :
  find_f f d line = Some r -> result_okb (length line) (length (nonskip (d_tokens d))) r = true.
Proof.
  intros H. destruct (find_shape _ _ _ _ H) as (s0 & e & caps & ->).
  apply offsets_ordered_proof in H as (Hc & He & Hl). cbn.
  rewrite !andb_true_iff, Nat.leb_le, Nat.eqb_eq. repeat split; auto.
  eapply chainb_weaken; [|eauto]. lia.
Qed.

(* ---------- skipped tokens consume without capturing ---------- *)

Definition unskip (t : token) : token := mkTok (t_name t) (t_until t) false.

(* keep the spans of the tokens that are not flagged *)
Fixpoint select (flags : list bool) (spans : list nat) : list nat :=
  match flags, spans with
  | sk :: fl, a :: b :: r => (if sk then [] else [a; b]) ++ select fl r
  | _, _ => []
  end.

Lemma until_off_unskip f t line s : until_off f (unskip t) line s = until_off f t line s.
Proof. reflexivity. Qed.

(* matching with skip flags = matching with every token captured, then dropping the flagged spans;
   in particular the final offset and every later capture are those of the unflagged pattern *)
Theorem skip_consume_proof f line : forall toks s,
  scan f toks line s =
  match scan f (map unskip toks) line s with
  | None => None
  | Some (all, e) => Some (select (map t_skip toks) all, e)
  end.
Proof.
  induction toks as [|t ts IH]; intros s.
  - reflexivity.
  - cbn [map]. rewrite !scan_cons, until_off_unskip.
    destruct (until_off f t line s) as [off|]; auto.
    change (t_until (unskip t)) with (t_until t). rewrite IH.
    destruct (scan f (map unskip ts) line (s + off + length (t_until t))) as [[all e]|]; reflexivity.
Qed.

(* a skipped token contributes no offsets: the match continues after its delimiter *)
Theorem skip_token_proof f t ts line s off :
  t_skip t = true -> until_off f t line s = Some off ->
  scan f (t :: ts) line s = scan f ts line (s + off + length (t_until t)).
Proof.
  intros Hk Ho. rewrite scan_cons, Ho. unfold capture. rewrite Hk.
  destruct (scan f ts line (s + off + length (t_until t))) as [[c e]|]; reflexivity.
Qed.
