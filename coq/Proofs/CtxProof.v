From Coq Require Import List NArith ZArith Bool Arith Lia.
From RareV Require Import Base.Hex Base.Res Base.Num Model.Ctx Model.Color.
Import ListNotations.
Local Open Scope Z_scope.

Lemma pair_ind (P : list Z -> Prop) :
  P [] -> (forall a, P [a]) -> (forall a b r, P r -> P (a :: b :: r)) -> forall l, P l.
Proof.
  intros H0 H1 H2. fix IH 1. intros [|a [|b r]]; [exact H0|apply H1|apply H2, IH].
Qed.

Lemma go_slice_ok s lo hi : 0 <= lo -> lo <= hi -> hi <= Z.of_nat (length s) ->
  go_slice s lo hi = Ok (firstn (Z.to_nat (hi - lo)) (skipn (Z.to_nat lo) s)).
Proof.
  intros A B C. unfold go_slice.
  destruct (0 <=? lo) eqn:E1; [|lia]. destruct (lo <=? hi) eqn:E2; [|lia]. destruct (hi <=? _) eqn:E3; [|lia]. reflexivity.
Qed.

(* ---- GetMatch ---- *)
Lemma znth_cons2 a b r i : 2 <= i -> znth (a :: b :: r) i = znth r (i - 2).
Proof.
  intros H. unfold znth. replace (Z.to_nat i) with (S (S (Z.to_nat (i - 2)))) by lia. reflexivity.
Qed.

Lemma get_match_0 line s e r :
  get_match line (s :: e :: r) 0 = if (s <? 0) || (e <? 0) then Ok [] else go_slice line s e.
Proof.
  unfold get_match. change (0 * 2) with 0. change (0 + 1) with 1.
  destruct (Z.leb_spec (Z.of_nat (length (s :: e :: r))) 1) as [H|H]; [cbn [length] in H; lia|].
  change (0 <? 0) with false. cbn [orb]. unfold znth. change (Z.to_nat 0) with 0%nat. change (Z.to_nat 1) with 1%nat.
  reflexivity.
Qed.

Theorem get_match_spec line : forall ix i, valid_idxs line ix = true -> 0 <= i ->
  get_match line ix i = Ok (group_spec line ix (Z.to_nat i)).
Proof.
  unfold valid_idxs. intros ix. induction ix as [| a | s e r IH] using pair_ind; intros i Hv Hi.
  - unfold get_match. cbn [length]. destruct (i * 2 <? 0) eqn:E; cbn [orb]; [reflexivity|].
    destruct (Z.leb_spec (Z.of_nat 0) (i * 2 + 1)); [|lia]. destruct (Z.to_nat i); reflexivity.
  - discriminate.
  - cbn [valid_pairs] in Hv. apply andb_true_iff in Hv as [Hp Hr].
    destruct (Z.eq_dec i 0) as [->|Hne].
    + rewrite get_match_0. change (Z.to_nat 0) with 0%nat. cbn [group_spec].
      destruct ((s <? 0) || (e <? 0)) eqn:Eneg; [reflexivity|].
      apply orb_false_iff in Eneg as [A B]. apply Z.ltb_ge in A, B.
      apply orb_true_iff in Hp as [Hp|Hp].
      * apply andb_true_iff in Hp as [X _]. apply Z.eqb_eq in X. lia.
      * apply andb_true_iff in Hp as [Hp C]. apply andb_true_iff in Hp as [_ D].
        apply Z.leb_le in C, D. apply go_slice_ok; lia.
    + replace (Z.to_nat i) with (S (Z.to_nat (i - 1))) by lia. cbn [group_spec].
      rewrite <- (IH (i - 1) Hr) by lia.
      unfold get_match. cbn [length].
      replace ((i - 1) * 2) with (i * 2 - 2) by lia.
      replace (i * 2 <? 0) with false by (symmetry; apply Z.ltb_ge; lia).
      replace (i * 2 - 2 <? 0) with false by (symmetry; apply Z.ltb_ge; lia). cbn [orb].
      replace (Z.of_nat (S (S (length r))) <=? i * 2 + 1) with (Z.of_nat (length r) <=? i * 2 - 2 + 1)
        by (destruct (Z.leb_spec (Z.of_nat (length r)) (i * 2 - 2 + 1)); symmetry; [apply Z.leb_le|apply Z.leb_gt]; lia).
      destruct (Z.of_nat (length r) <=? i * 2 - 2 + 1); [reflexivity|].
      rewrite !znth_cons2 by lia. replace (i * 2 + 1 - 2) with (i * 2 - 2 + 1) by lia. reflexivity.
Qed.

(* never panics; out-of-range and negative group numbers read as empty *)
Theorem get_match_total line ix i : valid_idxs line ix = true -> get_match line ix i <> Panic.
Proof.
  intros Hv. destruct (Z.ltb_spec i 0).
  - unfold get_match. replace (i * 2 <? 0) with true by (symmetry; apply Z.ltb_lt; lia). discriminate.
  - rewrite get_match_spec by assumption. discriminate.
Qed.

Theorem get_match_negative line ix i : i < 0 -> get_match line ix i = Ok [].
Proof. intros H. unfold get_match. replace (i * 2 <? 0) with true by (symmetry; apply Z.ltb_lt; lia). reflexivity. Qed.

Theorem get_match_beyond line ix i : Z.of_nat (length ix) <= i * 2 + 1 -> get_match line ix i = Ok [].
Proof.
  intros H. unfold get_match. replace (Z.of_nat (length ix) <=? i * 2 + 1) with true by (symmetry; apply Z.leb_le; lia).
  rewrite orb_true_r. reflexivity.
Qed.

(* ---- WrapIndices / strip ---- *)
Lemma strip_plain a : forall b, no_esc a = true -> strip_go false (a ++ b) = a ++ strip_go false b.
Proof.
  induction a as [|x a IH]; intros b H; [reflexivity|]. cbn [no_esc forallb] in H.
  apply andb_true_iff in H as [Hx Ha]. cbn [app strip_go]. destruct (x =? 27)%N; [discriminate|].
  f_equal. apply IH. exact Ha.
Qed.

Lemma strip_body c : forall b, sgr_body c = true -> strip_go true (c ++ b) = strip_go false b.
Proof.
  induction c as [|x c IH]; intros b H; [discriminate|]. cbn [sgr_body] in H. destruct c as [|y c].
  - apply N.eqb_eq in H. subst x. reflexivity.
  - apply andb_true_iff in H as [H Hc]. apply andb_true_iff in H as [H1 H2].
    cbn [app strip_go]. destruct (x =? 27)%N; [discriminate|]. destruct (x =? 109)%N; [discriminate|].
    apply (IH b Hc).
Qed.

Lemma strip_code c b : is_sgr c = true -> strip_go false (c ++ b) = strip_go false b.
Proof.
  destruct c as [|x c]; [discriminate|]. cbn [is_sgr]. intros H. apply andb_true_iff in H as [H1 H2].
  cbn [app strip_go]. rewrite H1. apply strip_body. exact H2.
Qed.

Lemma no_esc_app a b : no_esc (a ++ b) = no_esc a && no_esc b.
Proof. apply forallb_app. Qed.
Lemma no_esc_firstn n l : no_esc l = true -> no_esc (firstn n l) = true.
Proof. intros H. rewrite <- (firstn_skipn n l), no_esc_app in H. apply andb_true_iff in H. tauto. Qed.
Lemma no_esc_skipn n l : no_esc l = true -> no_esc (skipn n l) = true.
Proof. intros H. rewrite <- (firstn_skipn n l), no_esc_app in H. apply andb_true_iff in H. tauto. Qed.

Lemma skipn_skipn' {A} (n m : nat) (l : list A) : skipn n (skipn m l) = skipn (m + n) l.
Proof. revert l; induction m as [|m IH]; intros l; simpl; [reflexivity|]. destruct l; [now rewrite !skipn_nil | apply IH]. Qed.

Lemma skipn_split (s : bytes) a b : (a <= b)%nat ->
  skipn a s = firstn (b - a) (skipn a s) ++ skipn b s.
Proof.
  intros H. rewrite <- (firstn_skipn (b - a) (skipn a s)) at 1. f_equal.
  rewrite skipn_skipn'. f_equal. lia.
Qed.

Section WrapProof.
Variable colors : list bytes.
Variable reset : bytes.
Hypothesis colors_ne : colors <> [].
Hypothesis colors_sgr : forallb is_sgr colors = true.
Hypothesis reset_sgr : is_sgr reset = true.

Lemma color_sgr i : is_sgr (nth (i mod length colors)%nat colors []) = true.
Proof.
  rewrite forallb_forall in colors_sgr. apply colors_sgr. apply nth_In.
  apply Nat.mod_upper_bound. destruct colors; [congruence|discriminate].
Qed.

Lemma wrap_go_strip s : no_esc s = true -> forall groups last i,
  0 <= last <= zlen s -> valid_pairs (zlen s) groups = true ->
  exists w, wrap_go colors reset s last i groups = Ok w /\ strip_sgr w = skipn (Z.to_nat last) s.
Proof.
  intros Hs groups. induction groups as [| a | st en r IH] using pair_ind; intros last i Hl Hv.
  - cbn [wrap_go]. destruct (last <? zlen s) eqn:E.
    + apply Z.ltb_lt in E. unfold zlen in *. rewrite go_slice_ok by lia. eexists. split; [reflexivity|].
      rewrite firstn_all2 by (rewrite skipn_length; lia).
      unfold strip_sgr. rewrite <- (app_nil_r (skipn _ s)) at 1. rewrite strip_plain by (apply no_esc_skipn; exact Hs).
      cbn [strip_go]. apply app_nil_r.
    + apply Z.ltb_ge in E. unfold zlen in *. exists []. split; [reflexivity|].
      rewrite skipn_all2 by lia. reflexivity.
  - discriminate.
  - cbn [valid_pairs] in Hv. apply andb_true_iff in Hv as [Hp Hr]. cbn [wrap_go].
    destruct ((0 <=? st) && (0 <=? en) && (st <? en) && (last <=? st)) eqn:C.
    + apply andb_true_iff in C as [C C4]. apply andb_true_iff in C as [C C3]. apply andb_true_iff in C as [C1 C2].
      apply Z.leb_le in C1, C2, C4. apply Z.ltb_lt in C3.
      assert (en <= zlen s) as Hen.
      { apply orb_true_iff in Hp as [Hp|Hp].
        - apply andb_true_iff in Hp as [X _]. apply Z.eqb_eq in X. lia.
        - apply andb_true_iff in Hp as [_ X]. apply Z.leb_le in X. exact X. }
      unfold zlen in *.
      rewrite !go_slice_ok by lia. cbn [rbind].
      destruct (IH en (S i)) as (w & Hw & Hws); [unfold zlen; lia|exact Hr|].
      rewrite Hw. cbn [rbind]. eexists. split; [reflexivity|].
      unfold strip_sgr in *.
      rewrite strip_plain by (apply no_esc_firstn, no_esc_skipn; exact Hs).
      rewrite strip_code by apply color_sgr.
      rewrite strip_plain by (apply no_esc_firstn, no_esc_skipn; exact Hs).
      rewrite strip_code by exact reset_sgr. rewrite Hws.
      replace (Z.to_nat (st - last)) with (Z.to_nat st - Z.to_nat last)%nat by lia.
      replace (Z.to_nat (en - st)) with (Z.to_nat en - Z.to_nat st)%nat by lia.
      rewrite <- (skipn_split s (Z.to_nat st) (Z.to_nat en)) by lia.
      rewrite <- (skipn_split s (Z.to_nat last) (Z.to_nat st)) by lia.
      reflexivity.
    + apply IH; assumption.
Qed.

(* default `filter` output with the colour codes removed is the matched line, byte for byte *)
Theorem wrap_indices_identity s groups : no_esc s = true -> valid_idxs s groups = true ->
  exists w, wrap_indices colors reset s groups = Ok w /\ strip_sgr w = s.
Proof.
  intros Hs Hv. unfold wrap_indices. destruct ((length groups =? 0)%nat || Nat.odd (length groups)).
  - exists s. split; [reflexivity|]. unfold strip_sgr. rewrite <- (app_nil_r s) at 1.
    rewrite strip_plain by exact Hs. apply app_nil_r.
  - destruct (wrap_go_strip s Hs groups 0 0%nat) as (w & Hw & Hws); [unfold zlen; lia|exact Hv|].
    exists w. split; [exact Hw|exact Hws].
Qed.
End WrapProof.
