(* C02: with one reader at a time and one worker, matches are consumed in input order. *)
From Coq Require Import List NArith Arith Lia Bool.
From RareV Require Import Base.Hex Model.Batch Model.Pipeline Proofs.PipelineProof.
Import ListNotations.

Section Order.
Variable K : Type.
Variable classify : lineid -> cls K.
Variable c : cfg.
Hypothesis one_reader : nreaders c = 1.

Notation state := (state K).
Notation step := (step K classify c).
Notation key_of := (key_of K classify).

(* the lines of the readers that precede the first sending reader *)
Fixpoint pre_send_lines (r : list rstate) : list lineid :=
  match r with
  | [] => []
  | RSend _ _ :: _ => []
  | x :: r' => r_lines x ++ pre_send_lines r'
  end.

Definition Ord (input : list lineid) (s : state) : Prop :=
  processed K s ++ flat_map (w_lines K) (wk K s) ++ flat_map b_ids (ch K s) ++ flat_map r_lines (rd K s) = input /\
  consumed K s ++ concat (rch K s) ++ flat_map (w_out K) (wk K s) = flat_map key_of (processed K s) /\
  (n_send (rd K s) >= 1 -> pre_send_lines (rd K s) = []) /\
  n_send (rd K s) <= 1 /\ sema K s = n_send (rd K s) /\ length (wk K s) = 1.

Lemma one_mid {A} (w1 : list A) x w2 : length (w1 ++ x :: w2) = 1 -> w1 = [] /\ w2 = [].
Proof. rewrite app_length. cbn. destruct w1, w2; cbn; intros; try lia; auto. Qed.

Lemma n_send_cons x r : n_send (x :: r) = (match x with RSend _ _ => 1 | _ => 0 end) + n_send r.
Proof. change (x :: r) with ([] ++ x :: r). rewrite n_send_mid. cbn. lia. Qed.

Lemma no_new_nosend_lines r : no_new r -> n_send r = 0 -> flat_map r_lines r = [].
Proof.
  induction r as [|x r IH]; intros Hn Hs; [reflexivity|]. inversion Hn; subst.
  rewrite n_send_cons in Hs. destruct x; [contradiction|lia|]. cbn. apply IH; [assumption|lia].
Qed.

Lemma pre_mid r1 x r2 : n_send r1 = 0 ->
  pre_send_lines (r1 ++ x :: r2) =
  flat_map r_lines r1 ++ match x with RSend _ _ => [] | _ => r_lines x ++ pre_send_lines r2 end.
Proof.
  induction r1 as [|a r1 IH]; intros Hs.
  - cbn [app flat_map]. destruct x; reflexivity.
  - rewrite n_send_cons in Hs. destruct a; try lia; cbn [app pre_send_lines flat_map]; rewrite IH by lia; rewrite <- ?app_assoc; reflexivity.
Qed.

Ltac norm := repeat rewrite ?flat_map_app, ?concat_app, ?app_nil_r, <- ?app_assoc in *;
             cbn [flat_map concat app w_lines w_out r_lines numbered b_ids b_src b_start b_lines] in *;
             repeat rewrite ?flat_map_app, ?concat_app, ?app_nil_r, <- ?app_assoc in *.

Lemma ord_step input s s' : Ord input s -> step s s' -> Ord input s'.
Proof.
  intros (HL & HK & HP & HN & HS & HW) Hst. revert HL.
  inversion Hst; subst; intros HL; unfold Ord; cbn [rd sema ch closed wk rch rclosed consumed cdone processed] in *.
  - (* racq_ok *)
    match goal with H : rd K s = _ |- _ => rewrite H in * end.
    rewrite n_send_mid in *. cbn in HN, HS |- *.
    assert (n_send r1 = 0 /\ n_send r2 = 0) as (Z1 & Z2) by lia.
    repeat split; try lia; try assumption.
    + rewrite !flat_map_app in *. cbn [flat_map r_lines] in *. exact HL.
    + intros _. rewrite pre_mid by assumption. rewrite app_nil_r. apply no_new_nosend_lines; assumption.
  - (* racq_fail *)
    match goal with H : rd K s = _ |- _ => rewrite H in * end.
    rewrite n_send_mid in *. cbn in HN, HS |- *.
    repeat split; try lia; try assumption.
    rewrite !flat_map_app in *. cbn [flat_map r_lines] in *. exact HL.
  - (* rsend *)
    match goal with H : rd K s = _ |- _ => rewrite H in * end.
    rewrite n_send_mid in *. cbn in HN, HS |- *.
    assert (n_send r1 = 0 /\ n_send r2 = 0) as (Z1 & Z2) by lia.
    assert (flat_map r_lines r1 = []) as E1.
    { specialize (HP ltac:(lia)). rewrite pre_mid in HP by assumption. rewrite app_nil_r in HP. exact HP. }
    repeat split; try lia; try assumption.
    + rewrite <- HL. norm. rewrite E1. cbn [app]. reflexivity.
    + intros _. rewrite pre_mid by assumption. rewrite app_nil_r. exact E1.
  - (* rfin *)
    match goal with H : rd K s = _ |- _ => rewrite H in * end.
    rewrite n_send_mid in *. cbn in HN, HS |- *.
    repeat split; try lia; try assumption.
    rewrite !flat_map_app in *. cbn [flat_map r_lines] in *. exact HL.
  - (* close *) repeat split; assumption.
  - (* wrecv *)
    match goal with H : wk K s = _ |- _ => rewrite H in * end.
    match goal with H : ch K s = _ |- _ => rewrite H in * end.
    destruct (one_mid _ _ _ HW) as (-> & ->). cbn [app] in *.
    repeat split; try assumption. rewrite <- HL. norm. reflexivity.
  - (* wexit *)
    match goal with H : wk K s = _ |- _ => rewrite H in * end.
    destruct (one_mid _ _ _ HW) as (-> & ->). cbn [app] in *.
    repeat split; assumption.
  - (* wline *)
    match goal with H : wk K s = _ |- _ => rewrite H in * end.
    destruct (one_mid _ _ _ HW) as (-> & ->). cbn [app] in *.
    repeat split; try assumption.
    + rewrite <- HL. norm. reflexivity.
    + rewrite flat_map_app. cbn [flat_map]. rewrite app_nil_r, <- HK. norm. reflexivity.
  - (* wsend *)
    match goal with H : wk K s = _ |- _ => rewrite H in * end.
    destruct (one_mid _ _ _ HW) as (-> & ->). cbn [app] in *.
    repeat split; try assumption. rewrite <- HK. norm. reflexivity.
  - (* wskip *)
    match goal with H : wk K s = _ |- _ => rewrite H in * end.
    destruct (one_mid _ _ _ HW) as (-> & ->). cbn [app] in *.
    repeat split; try assumption.
  - (* rclose *) repeat split; assumption.
  - (* crecv *)
    match goal with H : rch K s = _ |- _ => rewrite H in * end.
    repeat split; try assumption. rewrite <- HK. norm. reflexivity.
  - (* cdone *) repeat split; assumption.
Qed.

Lemma init_ord srcs : Ord (input_of srcs) (init K srcs 1).
Proof.
  unfold Ord, init; cbn [rd sema ch closed wk rch rclosed consumed cdone processed repeat].
  assert (E1 : flat_map r_lines (map (fun x : source => RNew (fst (fst x)) (snd (fst x)) (snd x)) srcs) = input_of srcs).
  { unfold input_of. induction srcs as [|[[ok e] bs] srcs IH]; simpl; [reflexivity|]. rewrite IH. destruct ok; reflexivity. }
  assert (E2 : n_send (map (fun x : source => RNew (fst (fst x)) (snd (fst x)) (snd x)) srcs) = 0).
  { clear E1. induction srcs as [|x srcs IH]; [reflexivity|]. cbn [map]. rewrite n_send_cons, IH. reflexivity. }
  rewrite E1, E2. cbn. repeat split; auto; lia.
Qed.

Lemma reach_ord srcs s : reach K classify c (init K srcs 1) s -> Ord (input_of srcs) s.
Proof. induction 1 as [|s0 s1 Hr IH Hst]; [apply init_ord|]. eapply ord_step; eauto. Qed.

(* one reader at a time, one worker: the consumer receives the matches in input order *)
Theorem ordered_final srcs s : chcap c >= 1 -> rcap c >= 1 ->
  reach K classify c (init K srcs 1) s -> (forall s', ~ step s s') ->
  consumed K s = seq_keys K classify (input_of srcs).
Proof.
  intros Hc1 Hc2 Hr Hterm.
  destruct (reach_ord _ _ Hr) as (HL & HK & _).
  assert (cfg_ok c) as Hcfg by (unfold cfg_ok; lia).
  destruct (pipeline_final K classify c srcs 1 s Hcfg (le_n 1) Hr Hterm) as (Hd & _).
  destruct (reach_inv K classify c srcs 1 s (le_n 1) Hr) as (_ & (_ & Hc & Hw & Hrcl & Hcd) & Hne).
  destruct (Hcd Hd) as (Hrc & Hrch). pose proof (Hrcl Hrc) as Hall.
  assert (Hin : In WDone (wk K s)).
  { destruct (wk K s) as [|x w]; [congruence|]. inversion Hall; subst. now left. }
  destruct (Hw Hin) as (Hcl & Hch). pose proof (Hc Hcl) as Hallr.
  destruct (all_done_w_lines K _ Hall) as (Hwl & Hwo).
  destruct (all_done_r_lines _ Hallr) as (Hrl & _).
  rewrite Hwl, Hch, Hrl in HL. cbn in HL. rewrite app_nil_r in HL.
  rewrite Hrch, Hwo in HK. cbn in HK. rewrite app_nil_r in HK.
  unfold seq_keys. rewrite <- HL. exact HK.
Qed.
End Order.
