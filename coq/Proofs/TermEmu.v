(* C20 — the reference terminal (Model/Term.v): what each emitted command does to the screen.
   Part 1 of the proof of C20_screen_latest: list updates, printing a run of cells, the parser
   on well-formed text, and the escape sequences of cursor.go (from Gen/GenTerm.v). *)
From Coq Require Import List NArith ZArith Bool Arith Lia.
From RareV Require Import Base.Hex Base.Num Gen.GenTerm Model.Trim Model.Term.
Import ListNotations.

(* ---------------------------------------------------------------- upd / put / overwrite *)
Lemma nth_nil {A} (d : A) n : nth n [] d = d.
Proof. destruct n; reflexivity. Qed.

Lemma nth_upd {A} (d : A) : forall n l f k,
  nth k (upd d l n f) d = if Nat.eqb k n then f (nth n l d) else nth k l d.
Proof.
  induction n as [|n IH]; intros l f k.
  - destruct l as [|x r]; destruct k as [|k]; cbn; try reflexivity. apply nth_nil.
  - destruct l as [|x r]; destruct k as [|k]; cbn [upd nth Nat.eqb]; try reflexivity.
    + rewrite IH. rewrite !nth_nil. reflexivity.
    + rewrite IH. reflexivity.
Qed.

Lemma length_upd {A} (d : A) : forall n l f, length (upd d l n f) = Nat.max (length l) (S n).
Proof.
  induction n as [|n IH]; intros l f; destruct l as [|x r]; cbn [upd length]; try reflexivity.
  - lia.
  - rewrite IH. cbn. lia.
  - rewrite IH. lia.
Qed.

Lemma put_app : forall pre row x, put (pre ++ row) (length pre) x = pre ++ x :: tl row.
Proof.
  unfold put. induction pre as [|y pre IH]; intros row x; cbn.
  - destruct row; reflexivity.
  - f_equal. apply IH.
Qed.

(* printing the cells v from column col on *)
Fixpoint overwrite (row : list N) (col : nat) (v : list N) : list N :=
  match v with
  | [] => row
  | x :: v' => overwrite (put row col x) (S col) v'
  end.

Lemma skipn_S_tl {A} : forall n (l : list A), skipn (S n) l = skipn n (tl l).
Proof. intros n [|x r]; cbn; [destruct n|]; reflexivity. Qed.

Lemma overwrite_app : forall v pre row,
  overwrite (pre ++ row) (length pre) v = pre ++ v ++ skipn (length v) row.
Proof.
  induction v as [|x v IH]; intros pre row; cbn [overwrite].
  - reflexivity.
  - rewrite put_app.
    replace (pre ++ x :: tl row) with ((pre ++ [x]) ++ tl row) by (rewrite <- app_assoc; reflexivity).
    replace (S (length pre)) with (length (pre ++ [x])) by (rewrite app_length; cbn; lia).
    rewrite IH. rewrite <- app_assoc. cbn [app length]. rewrite skipn_S_tl. reflexivity.
Qed.

Lemma overwrite_then_erase : forall v row, firstn (length v) (overwrite row 0 v) = v.
Proof.
  intros v row. change row with ([] ++ row) at 1. change 0 with (@length N []).
  rewrite overwrite_app. cbn [app]. rewrite firstn_app, Nat.sub_diag, firstn_all. cbn.
  apply app_nil_r.
Qed.

Lemma upd_ext {A} (d : A) : forall n l f g, (forall x, f x = g x) -> upd d l n f = upd d l n g.
Proof.
  induction n as [|n IH]; intros l f g H; destruct l as [|x r]; cbn [upd]; rewrite ?H; try reflexivity.
  - f_equal. apply IH. exact H.
  - f_equal. apply IH. exact H.
Qed.

Lemma overwrite_nil : forall v, overwrite [] 0 v = v.
Proof.
  intros v. change (@nil N) with (@nil N ++ @nil N) at 1. change 0 with (@length N []).
  rewrite overwrite_app. cbn [app]. rewrite skipn_nil. apply app_nil_r.
Qed.

Section Emu.
Variable tc : tcfg.

Lemma run_app e a b : run tc e (a ++ b) = run tc (run tc e a) b.
Proof. unfold run. apply fold_left_app. Qed.

(* ---------------------------------------------------------------- a run of printed cells *)
Lemma prints_ext : forall v s, ccol s + length v <= width tc ->
  let s' := fold_left (print tc) v s in
  crow s' = crow s /\ ccol s' = ccol s + length v /\ cvis s' = cvis s /\ hides s' = hides s /\
  forall l, nth l (rows s') [] =
            if Nat.eqb l (crow s) then overwrite (nth (crow s) (rows s) []) (ccol s) v
            else nth l (rows s) [].
Proof.
  induction v as [|x v IH]; intros s Hw; cbn [fold_left overwrite].
  - cbn zeta. split; [reflexivity|]. split; [cbn; lia|]. split; [reflexivity|]. split; [reflexivity|].
    intros l. destruct (Nat.eqb_spec l (crow s)); [subst|]; reflexivity.
  - cbn [length] in Hw.
    assert (Hlt : (ccol s <? width tc) = true) by (apply Nat.ltb_lt; lia).
    assert (Hp : print tc s x =
                 mkscr (upd [] (rows s) (crow s) (fun row => put row (ccol s) x)) (crow s) (S (ccol s)) (cvis s) (hides s))
      by (unfold print; rewrite Hlt; reflexivity).
    rewrite Hp. clear Hp.
    set (s1 := mkscr _ _ _ _ _).
    destruct (IH s1) as (H1 & H2 & H3 & H4 & H5); [subst s1; cbn; lia|].
    cbn zeta. rewrite H1, H2, H3, H4. subst s1. cbn [crow ccol cvis hides rows] in *.
    split; [reflexivity|]. split; [cbn [length]; lia|]. split; [reflexivity|]. split; [reflexivity|].
    intros l. rewrite H5. rewrite !nth_upd. rewrite Nat.eqb_refl.
    destruct (Nat.eqb l (crow s)); reflexivity.
Qed.

Lemma prints_len : forall v s, ccol s + length v <= width tc ->
  length (rows (fold_left (print tc) v s)) <= Nat.max (length (rows s)) (S (crow s)).
Proof.
  induction v as [|x v IH]; intros s Hw; cbn [fold_left].
  - lia.
  - cbn [length] in Hw.
    assert (Hlt : (ccol s <? width tc) = true) by (apply Nat.ltb_lt; lia).
    assert (Hp : print tc s x =
                 mkscr (upd [] (rows s) (crow s) (fun row => put row (ccol s) x)) (crow s) (S (ccol s)) (cvis s) (hides s))
      by (unfold print; rewrite Hlt; reflexivity).
    rewrite Hp. clear Hp. set (s1 := mkscr _ _ _ _ _).
    pose proof (IH s1) as H. subst s1. cbn [rows crow ccol] in H.
    rewrite length_upd in H. lia.
Qed.

Lemma erase0_ext : forall s l,
  nth l (rows (erase_line tc 0 s)) [] =
  if Nat.eqb l (crow s) then firstn (ecol tc s) (nth (crow s) (rows s) []) else nth l (rows s) [].
Proof. intros s l. cbn. apply nth_upd. Qed.

(* ---------------------------------------------------------------- the parser on well-formed text *)
Definition st_rel (st : wst) (p : pst) : Prop :=
  match st with WG => p = Ground | WE => p = Esc | WC => exists ps, p = Csi ps end.

Lemma printable_facts x : printable x = true ->
  N.eqb x 10 = false /\ N.eqb x 13 = false.
Proof.
  unfold printable. intros H. apply andb_true_iff in H as [H _]. apply andb_true_iff in H as [H _].
  apply N.leb_le in H. split; apply N.eqb_neq; lia.
Qed.

Lemma sgr_param_range x : sgr_param x = true -> (N.leb 48 x && N.leb x 63)%bool = true.
Proof.
  unfold sgr_param. intros H. apply orb_true_iff in H as [H|H].
  - apply andb_true_iff in H as [H1 H2]. apply N.leb_le in H1, H2.
    apply andb_true_iff. split; apply N.leb_le; lia.
  - apply N.eqb_eq in H. subst x. reflexivity.
Qed.

Lemma run_wf_text : forall l st s p, wf_go st l = true -> st_rel st p ->
  run tc (s, p) l =
  (fold_left (print tc) (visible_go (match st with WG => false | _ => true end) l) s, Ground).
Proof.
  induction l as [|x r IH]; intros st s p H R.
  - destruct st; cbn in H; try discriminate. cbn in R. subst p. reflexivity.
  - destruct st; cbn [wf_go] in H; cbn in R.
    + subst p. cbn [visible_go]. destruct (N.eqb x 27) eqn:E.
      * change (run tc (s, Ground) (x :: r)) with (run tc (step tc (s, Ground) x) r).
        cbn [step]. rewrite E. apply (IH WE); [exact H | reflexivity].
      * apply andb_true_iff in H as [Hp H]. destruct (printable_facts x Hp) as [E1 E2].
        change (run tc (s, Ground) (x :: r)) with (run tc (step tc (s, Ground) x) r).
        cbn [step]. rewrite E, E1, E2, Hp. cbn [fold_left].
        apply (IH WG); [exact H | reflexivity].
    + subst p. apply andb_true_iff in H as [E H]. cbn [visible_go].
      change (run tc (s, Esc) (x :: r)) with (run tc (step tc (s, Esc) x) r).
      cbn [step]. rewrite E. apply N.eqb_eq in E. subst x. cbn [N.eqb negb].
      change (negb (N.eqb 91 109)) with true.
      apply (IH WC); [exact H | exists []; reflexivity].
    + destruct R as [ps ->]. cbn [visible_go].
      change (run tc (s, Csi ps) (x :: r)) with (run tc (step tc (s, Csi ps) x) r).
      destruct (N.eqb x 109) eqn:E.
      * apply N.eqb_eq in E. subst x. cbn. apply (IH WG); [exact H | reflexivity].
      * apply andb_true_iff in H as [Hp H]. cbn [step]. rewrite (sgr_param_range x Hp). cbn [negb].
        apply (IH WC); [exact H | eexists; reflexivity].
Qed.

Lemma run_text : forall t s, wf_text t = true ->
  run tc (s, Ground) (render_cmd (Text t)) = (interp tc s (Text t), Ground).
Proof. intros t s H. apply (run_wf_text t WG s Ground H). reflexivity. Qed.

(* ---------------------------------------------------------------- the sequences of cursor.go *)
(* Each of these is proved by evaluating the parser on the regenerated constants: a changed
   sequence in cursor.go (or a changed step in goTo) breaks the proof. *)
Lemma run_lf s : run tc (s, Ground) (render_cmd LF) = (interp tc s LF, Ground).
Proof. reflexivity. Qed.
Lemma run_cr s : run tc (s, Ground) (render_cmd CR) = (interp tc s CR, Ground).
Proof. reflexivity. Qed.
Lemma run_up1 s : run tc (s, Ground) (render_cmd (Up 1%N)) = (cursor_up tc 1 s, Ground).
Proof. reflexivity. Qed.
Lemma ecol_0 : forall s, ccol s = 0 -> ecol tc s = 0.
Proof.
  intros s H. unfold ecol. rewrite H. destruct (dec tc); cbn [andb]; [|reflexivity].
  destruct (Nat.leb_spec (width tc) 0); lia.
Qed.

Lemma erase2_at0 : forall s, ccol s = 0 -> erase_line tc 2 s = erase_line tc 0 s.
Proof.
  intros s H. unfold erase_line. rewrite (ecol_0 s H). reflexivity.
Qed.

(* The writer erases with the cursor at column 0 (right after CR).  There "erase to end of line"
   (ESC[0K, ESC[K) and "erase the whole line" (ESC[2K) do the same, and the proof accepts either
   sequence in cursor.go. *)
Lemma run_erase_at0 s : ccol s = 0 ->
  run tc (s, Ground) (render_cmd EraseEOL) = (interp tc s EraseEOL, Ground).
Proof.
  intros H.
  first [ reflexivity
        | change (run tc (s, Ground) (render_cmd EraseEOL)) with (erase_line tc 2 s, Ground);
          cbn [interp]; rewrite (erase2_at0 s H); reflexivity ].
Qed.
Lemma run_hide s : run tc (s, Ground) (render_cmd HideCur) = (interp tc s HideCur, Ground).
Proof. reflexivity. Qed.
Lemma run_show s : run tc (s, Ground) (render_cmd ShowCur) = (interp tc s ShowCur, Ground).
Proof. reflexivity. Qed.

(* the general statement: rendering then parsing is the command-level semantics *)
Definition cmd_ok (c : cmd) : Prop :=
  match c with Text t => wf_text t = true | Up n => n = 1%N | EraseEOL => False | _ => True end.

Lemma run_render_cmd : forall c s, cmd_ok c ->
  run tc (s, Ground) (render_cmd c) = (interp tc s c, Ground).
Proof.
  intros [t| | |n| | |] s H; cbn in H.
  - apply run_text. exact H.
  - apply run_lf.
  - apply run_cr.
  - subst n. apply run_up1.
  - destruct H.
  - apply run_hide.
  - apply run_show.
Qed.

Lemma run_render_cmd_at : forall c s,
  match c with Text t => wf_text t = true | Up n => n = 1%N | EraseEOL => ccol s = 0 | _ => True end ->
  run tc (s, Ground) (render_cmd c) = (interp tc s c, Ground).
Proof.
  intros c s H. destruct c; try (apply run_render_cmd; exact H).
  apply run_erase_at0. exact H.
Qed.

Lemma run_render : forall cs s, Forall cmd_ok cs ->
  run tc (s, Ground) (render cs) = (fold_left (interp tc) cs s, Ground).
Proof.
  induction cs as [|c cs IH]; intros s H.
  - reflexivity.
  - inversion H as [|? ? Hc Hcs]; subst. unfold render. cbn [flat_map fold_left].
    rewrite run_app, run_render_cmd by exact Hc. apply IH. exact Hcs.
Qed.

(* ---------------------------------------------------------------- goTo *)
Lemma lf_k : forall k s,
  exists c', fold_left (interp tc) (repeat LF k) s = mkscr (rows s) (crow s + k) c' (cvis s) (hides s).
Proof.
  induction k as [|k IH]; intros s.
  - exists (ccol s). destruct s; cbn. rewrite Nat.add_0_r. reflexivity.
  - cbn [repeat fold_left]. destruct (IH (interp tc s LF)) as [c' H]. exists c'. rewrite H.
    cbn. f_equal. lia.
Qed.

Lemma up_k : forall k s,
  exists c', fold_left (interp tc) (repeat (Up 1%N) k) s = mkscr (rows s) (crow s - k) c' (cvis s) (hides s).
Proof.
  induction k as [|k IH]; intros s.
  - exists (ccol s). destruct s; cbn. rewrite Nat.sub_0_r. reflexivity.
  - cbn [repeat fold_left]. destruct (IH (interp tc s (Up 1%N))) as [c' H]. exists c'. rewrite H.
    cbn. f_equal. lia.
Qed.

Lemma goto_effect : forall a b s,
  fold_left (interp tc) (repeat LF a ++ repeat (Up 1%N) b ++ [CR]) s
  = mkscr (rows s) (crow s + a - b) 0 (cvis s) (hides s).
Proof.
  intros a b s. rewrite !fold_left_app. destruct (lf_k a s) as [c' H]. rewrite H.
  destruct (up_k b (mkscr (rows s) (crow s + a) c' (cvis s) (hides s))) as [c'' H']. rewrite H'.
  reflexivity.
Qed.

Lemma goto_cmd_ok a b : Forall cmd_ok (repeat LF a ++ repeat (Up 1%N) b ++ [CR]).
Proof.
  apply Forall_app. split; [|apply Forall_app; split].
  - apply Forall_forall. intros c H. apply repeat_spec in H. subst. exact I.
  - apply Forall_forall. intros c H. apply repeat_spec in H. subst. reflexivity.
  - repeat constructor.
Qed.

End Emu.
