(* C10: the function table after loading a functions file is well-behaved; the inlining theorem
   applies to it; the recorded exception. *)
From Coq Require Import List NArith ZArith Bool Arith Lia String.
From RareV Require Import Base.Hex Base.Res Base.Num Model.Tmpl Model.Funcs Model.Eff Model.Optimize Model.FuncFile
                          Proofs.EffProof Proofs.OptimizeProof Proofs.FuncFileInline.
Import ListNotations.
Local Notation concat := List.concat.

Definition env_ntm (c0 : Z) (E : env) : Prop :=
  forall f h, lookup E f = Some (FHelper h) -> forall v, ntm (h_body h c0 v).

Lemma std_env_ntm c0 : env_ntm c0 std_env.
Proof.
  intros f h L v. destruct (lookup_std_env f _ L) as [n [h' [Eq Hin]]]. inversion Eq; subst.
  eapply stdlib_ntm; eauto.
Qed.

Lemma env_ntm_cons_user c0 E f b : env_ntm c0 E -> env_ntm c0 ((f, FUser b) :: E).
Proof.
  intros N g h. unfold lookup. simpl. destruct (bytes_eqb f g); [discriminate|]. apply N.
Qed.

(* createAndAddFunc keeps the table well-behaved: a registered body is a compiled template *)
Lemma install_good c0 defs : forall E bodies, env_good c0 E -> env_ntm c0 E ->
  let '(E', _, _) := install c0 E bodies defs in env_good c0 E' /\ env_ntm c0 E'.
Proof.
  induction defs as [|[name body] r IH]; intros E bodies G N; simpl; auto.
  destruct (compile (fenv_of true c0 E) body) as [[t [|e es]]|].
  - apply IH.
    + apply env_good_cons; auto. simpl. apply ufun_good. apply eval_kg; auto.
    + apply env_ntm_cons_user; auto.
  - specialize (IH E bodies G N). destruct (install c0 E bodies r) as [[E' b'] n]. auto.
  - specialize (IH E bodies G N). destruct (install c0 E bodies r) as [[E' b'] n]. auto.
Qed.

Theorem load_file_good c0 text :
  let '(E, _, _) := load_file c0 text in env_good c0 E /\ env_ntm c0 E.
Proof. unfold load_file. apply install_good; [apply std_env_good|apply std_env_ntm]. Qed.

(* optimisation is sound with any functions file loaded *)
Theorem loaded_opt_sound c0 text t :
  let '(E, _, _) := load_file c0 text in meq (eval_tmpl true c0 E t) (eval_tmpl false c0 E t).
Proof.
  pose proof (load_file_good c0 text) as G. destruct (load_file c0 text) as [[E b] n].
  destruct G as [G _]. apply eval_opt_sound; auto.
Qed.

(* a compiled template depends on the table only through the names it calls *)
Fixpoint names (p : piece) : list bytes :=
  match p with
  | PCall f xs => f :: concat (map (fun a => concat (map names a)) xs)
  | _ => []
  end.
Definition names_tmpl (t : tmpl) : list bytes := concat (map names t).

Lemma piece_stage_ext o c0 E E' : forall p,
  (forall g, In g (names p) -> lookup E g = lookup E' g) -> piece_stage o c0 E p = piece_stage o c0 E' p.
Proof.
  apply (piece_ind2 (fun p => (forall g, In g (names p) -> lookup E g = lookup E' g) ->
                              piece_stage o c0 E p = piece_stage o c0 E' p)); intros; try reflexivity.
  rewrite !piece_stage_call. rewrite <- (H0 f) by (simpl; auto).
  assert (Hargs : map (arg_stage o c0 E) args = map (arg_stage o c0 E') args).
  { assert (Hn : forall g, In g (concat (map (fun a => concat (map names a)) args)) -> lookup E g = lookup E' g)
      by (intros g Hg; apply H0; simpl; auto).
    clear H0. induction H as [|a r Ha _ IH]; simpl; auto.
    rewrite IH by (intros g Hg; apply Hn; simpl; apply in_or_app; auto).
    f_equal. unfold arg_stage. f_equal. f_equal.
    assert (Hna : forall g, In g (concat (map names a)) -> lookup E g = lookup E' g)
      by (intros g Hg; apply Hn; simpl; apply in_or_app; auto).
    clear Hn IH. induction Ha as [|q t Hq _ IHt]; simpl; auto.
    rewrite Hq by (intros g Hg; apply Hna; simpl; apply in_or_app; auto).
    rewrite IHt by (intros g Hg; apply Hna; simpl; apply in_or_app; auto). reflexivity. }
  rewrite Hargs. reflexivity.
Qed.

Lemma eval_tmpl_ext o c0 E E' t :
  (forall g, In g (names_tmpl t) -> lookup E g = lookup E' g) -> eval_tmpl o c0 E t = eval_tmpl o c0 E' t.
Proof.
  intros Hn. unfold eval_tmpl, compiled. f_equal. f_equal.
  induction t as [|q t IH]; simpl; auto.
  rewrite (piece_stage_ext o c0 E E' q) by (intros g Hg; apply Hn; unfold names_tmpl; simpl; apply in_or_app; auto).
  rewrite IH by (intros g Hg; apply Hn; unfold names_tmpl; simpl; apply in_or_app; auto). reflexivity.
Qed.

(* the hypotheses of the inlining theorem are satisfiable: a later definition calling an earlier
   one, a key passing through and a binder shadowing {0} *)
Local Open Scope string_scope.
Definition b_double : tmpl := [PCall (of_str "sumi") [[PMatch 0]; [PMatch 0]]].
Definition env1 : env := (of_str "double", FUser (eval_tmpl true 1000 std_env b_double)) :: std_env.
Definition b_quad : tmpl :=
  [PCall (of_str "double") [[PCall (of_str "double") [[PMatch 0]]]]; PKey (of_str "k");
   PCall (of_str "@map") [[PMatch 1]; [PLit (of_str "x"); PMatch 0]]].
Definition env2 : env := (of_str "quad", FUser (eval_tmpl true 1000 env1 b_quad)) :: env1.
Definition ex_args : list tmpl := [[PLit (of_str "2"); PMatch 1]; [PCall (of_str "@") [[PLit (of_str "a")]; [PMatch 0]]]].

Lemma env2_good : env_good 1000 env2 /\ env_ntm 1000 env2.
Proof.
  assert (G1 : env_good 1000 env1).
  { apply env_good_cons; [|apply std_env_good]. apply ufun_good, eval_kg, std_env_good. }
  split.
  - apply env_good_cons; auto. apply ufun_good, eval_kg; auto.
  - apply env_ntm_cons_user, env_ntm_cons_user, std_env_ntm.
Qed.

Example call_inline_example o :
  meq (eval_tmpl o 1000 env2 [PCall (of_str "quad") ex_args])
      (eval_tmpl o 1000 env2 (subst_tmpl env2 ex_args b_quad)).
Proof.
  destruct env2_good as [G N].
  assert (Hb : eval_tmpl true 1000 env1 b_quad = eval_tmpl true 1000 env2 b_quad).
  { apply eval_tmpl_ext. unfold names_tmpl. simpl. intros g Hg.
    repeat (destruct Hg as [<-|Hg]; [reflexivity|]). contradiction. }
  eapply (call_inline 1000 env2 G N ex_args o (of_str "quad") _ b_quad); [reflexivity| |].
  - rewrite <- Hb. apply meq_refl.
  - vm_compute. repeat split; intros; try discriminate.
Qed.

(* the substituted body really is what one would write by hand *)
Example subst_example :
  subst_tmpl env2 ex_args b_quad =
  [PCall (of_str "double") [[PCall (of_str "double") [[PLit (of_str "2"); PMatch 1]]]]; PKey (of_str "k");
   PCall (of_str "@map") [[PCall (of_str "@") [[PLit (of_str "a")]; [PMatch 0]]]; [PLit (of_str "x"); PMatch 0]]].
Proof. vm_compute. reflexivity. Qed.

(* Recorded exception (known finding C10-const-param-in-function): a parameter read with
   EvalStageIndexOrDefault takes its default inside a function body, so without the stability
   hypothesis the call and the substituted body differ *)
Definition rx_env : env := fst (fst (load_file 1000 (of_str "r {@reduce {0} {sumi {0} {1}} {1}}" ++ [10%N])%list)).
Definition rx_body : tmpl :=
  match compile (fenv_of true 1000 rx_env) (of_str "{@reduce {0} {sumi {0} {1}} {1}}") with
  | Ok (t, _) => t | Panic => [] end.
Definition rx_args : list tmpl := [[PCall (of_str "@") [[PLit (of_str "1")]; [PLit (of_str "2")]]]; [PLit (of_str "10")]].
Theorem call_inline_unrestricted_refuted :
  exists c clk,
    fst (run (eval_tmpl true 1000 rx_env [PCall (of_str "r") rx_args]) c clk)
    <> fst (run (eval_tmpl true 1000 rx_env (subst_tmpl rx_env rx_args rx_body)) c clk).
Proof. exists monitor, 1000%Z. vm_compute. discriminate. Qed.
