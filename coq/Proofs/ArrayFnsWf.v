(* C17: the lists the helpers produce are well formed: splitting the result on NUL gives exactly the
   elements of the specified list (no separator that does not delimit an element). *)
From Coq Require Import List NArith ZArith Bool Arith Lia ZifyBool.
From RareV Require Import Base.Hex Base.Num Model.Splitter Model.ArrayFns Gen.GenC17
  Proofs.SplitterProof Proofs.ArrayFnsOps Proofs.ArrayFnsLoops Proofs.ArrayFnsProof.
Import ListNotations.

(* expressions whose value never contains a NUL when the context's values do not *)
Fixpoint nul_safe (e : expr) : bool :=
  match e with
  | Lit s => nul_freeb s
  | Arg _ | Key _ => true
  | Cat es => forallb nul_safe es
  | SEq _ _ | SNot _ | SLen _ | SSumi _ _ | ALen _ | AIn _ _ | ASelect _ _ => true
  | SPrefix a _ => nul_safe a
  | SIf _ a b => nul_safe a && nul_safe b
  | _ => false
  end.

Definition keys_nf (c : ctx) : Prop := Forall (fun p => nul_free (snd p)) (c_keys c).
Definition ctx_nf (c : ctx) : Prop := Forall nul_free (c_match c) /\ keys_nf c.

Lemma nul_free_nil : nul_free [].
Proof. intros []. Qed.

Lemma truthy_str_nf b : nul_free (truthy_str b).
Proof. destruct b; vm_compute; intuition discriminate. Qed.

Lemma subctx_nf c v0 v1 : keys_nf c -> nul_free v0 -> nul_free v1 -> ctx_nf (subctx c v0 v1).
Proof. intros K H0 H1. split; [|exact K]. cbn. repeat constructor; assumption. Qed.

Lemma get_match_nf c i : ctx_nf c -> nul_free (get_match c i).
Proof.
  intros [M _]. unfold get_match. destruct (i <? 0)%Z; [apply nul_free_nil|].
  destruct (nth_in_or_default (Z.to_nat i) (c_match c) []) as [H | ->]; [|apply nul_free_nil].
  rewrite Forall_forall in M. now apply M.
Qed.

Lemma get_key_nf c k : ctx_nf c -> nul_free (get_key c k).
Proof.
  intros [_ K]. unfold get_key. destruct (find _ (c_keys c)) as [p|] eqn:E; [|apply nul_free_nil].
  apply find_some in E as [E _]. unfold keys_nf in K. rewrite Forall_forall in K. now apply K.
Qed.

Lemma concat_nf l : Forall nul_free l -> nul_free (concat l).
Proof.
  induction 1 as [|x l Hx _ IH]; [apply nul_free_nil|]. cbn. intros H. apply in_app_or in H as [H|H]; contradiction.
Qed.

Lemma select_nf v i : nul_free (spec_select v i).
Proof.
  unfold spec_select. destruct (_ && _)%bool; [|apply nul_free_nil].
  destruct (nth_in_or_default (Z.to_nat (norm_index (Z.of_nat (length (split0 v))) i)) (split0 v) []) as [H | ->]; [|apply nul_free_nil].
  pose proof (split0_nul_free v) as F. rewrite Forall_forall in F. now apply F.
Qed.

Theorem nul_safe_free : forall e c, nul_safe e = true -> ctx_nf c -> nul_free (eval e c).
Proof.
  fix IH 1. intros e c S C. destruct e; cbn [nul_safe] in S; try discriminate; cbn [eval].
  - now apply nul_freeb_spec.
  - now apply get_match_nf.
  - now apply get_key_nf.
  - apply concat_nf. revert es S. fix IHl 1. intros [|x r] S; [constructor|].
    cbn [forallb] in S. apply andb_true_iff in S as [S1 S2]. cbn [map]. constructor; [now apply IH|now apply IHl].
  - apply truthy_str_nf.
  - apply truthy_str_nf.
  - apply andb_true_iff in S as [S1 S2]. destruct (truthy (eval e1 c)); now apply IH.
  - unfold s_prefix. destruct (is_prefix _ _); [now apply IH|apply nul_free_nil].
  - apply itoa_nul_free.
  - unfold s_sumi. destruct (atoi _); [destruct (atoi _)|]; try apply itoa_nul_free; vm_compute; intuition discriminate.
  - rewrite op_len_spec. apply itoa_nul_free.
  - rewrite op_select_spec. apply select_nf.
  - unfold op_in. apply truthy_str_nf.
Qed.

Lemma Forall_sub {A} (P : A -> Prop) l l' : (forall x, In x l' -> In x l) -> Forall P l -> Forall P l'.
Proof. intros H F. rewrite Forall_forall in *. auto. Qed.

Lemma in_firstn {A} n (l : list A) x : In x (firstn n l) -> In x l.
Proof. intros H. rewrite <- (firstn_skipn n l). apply in_or_app. now left. Qed.
Lemma in_skipn {A} n (l : list A) x : In x (skipn n l) -> In x l.
Proof. intros H. rewrite <- (firstn_skipn n l). apply in_or_app. now right. Qed.

Section Wf.
  Variable c : ctx.

  (* the encoding cannot tell the empty list from the list holding one empty element *)
  Theorem W_empty_encoding : join0 [] = join0 [[]] /\ split0 [] = [[]].
  Proof. split; reflexivity. Qed.

  Theorem W_split a d : d <> [] -> nul_free (eval a c) ->
    split0 (eval (ASplit a d) c) = split d (eval a c).
  Proof.
    intros dne Hn. rewrite T_split by assumption.
    apply split0_join0; [now apply split_nonempty|now apply split_nul_free].
  Qed.

  Theorem W_map a f : nul_safe f = true -> keys_nf c ->
    split0 (eval (AMap a f) c) = map (fun x => eval f (subctx c x [])) (split0 (eval a c)).
  Proof.
    intros S K. rewrite T_map. apply split0_join0.
    - pose proof (split_nonempty [NUL] (eval a c)) as H. unfold split0. destruct (split [NUL] (eval a c)); [congruence|discriminate].
    - pose proof (split0_nul_free (eval a c)) as F. induction F as [|x l Hx _ IH]; [constructor|].
      cbn [map]. constructor; [|exact IH]. apply nul_safe_free; [exact S|]. apply subctx_nf; [exact K|exact Hx|apply nul_free_nil].
  Qed.

  Theorem W_filter a f :
    let r := filter (fun x => truthy (eval f (subctx c x []))) (split0 (eval a c)) in
    r <> [] -> split0 (eval (AFilter a f) c) = r.
  Proof.
    intros r Hr. rewrite T_filter. apply split0_join0; [exact Hr|].
    apply (Forall_sub _ (split0 (eval a c))); [|apply split0_nul_free].
    intros x Hx. now apply filter_In in Hx as [Hx _].
  Qed.

  Theorem W_slice a start len :
    let l := split0 (eval a c) in
    let r := slice_list l start len in
    r <> [] -> split0 (eval (ASlice a start len) c) = r.
  Proof.
    intros l r Hr. cbn [eval]. rewrite op_slice_spec. unfold spec_slice. fold l. fold r.
    apply split0_join0; [exact Hr|].
    apply (Forall_sub _ l); [|apply split0_nul_free].
    intros x Hx. unfold r, slice_list in Hx. destruct (len <? 0)%Z.
    - now apply in_skipn in Hx.
    - apply in_firstn in Hx. now apply in_skipn in Hx.
  Qed.

  Theorem W_range s e i start stop incr :
    atoi (eval s c) = Some start -> atoi (eval e c) = Some stop -> atoi (eval i c) = Some incr ->
    range_no_wrap start stop incr = true -> in_range start stop incr = true ->
    (range_countZ start stop incr <= MaxRangeElements)%Z ->
    split0 (eval (ARange s e i) c) = map itoa (progression (range_count start stop incr) start incr).
  Proof.
    intros H1 H2 H3 G R Hc. rewrite (T_range c s e i start stop incr H1 H2 H3 G).
    unfold in_range in R.
    replace ((incr =? 0) || (incr >? 0) && (start >? stop) || (incr <? 0) && (start <? stop))%Z with false by lia.
    replace (range_countZ start stop incr >? MaxRangeElements)%Z with false by lia.
    apply split0_join0.
    - unfold range_count. destruct (range_countZ_step _ _ _ R) as [Hs Hp]. rewrite Hs.
      replace (Z.to_nat (range_countZ (start + incr) stop incr + 1)) with (S (Z.to_nat (range_countZ (start + incr) stop incr))) by lia.
      discriminate.
    - apply Forall_forall. intros x Hx. apply in_map_iff in Hx as (z & <- & _). apply itoa_nul_free.
  Qed.

  Theorem W_concat b es : es <> [] ->
    split0 (eval (Arr b es) c) = flat_map (fun e => split0 (eval e c)) es.
  Proof. intros H. now apply T_concat. Qed.
End Wf.

(* ------------------------------------------------------------------ @for *)
Definition dec_ok (d : list N) : Prop := Forall (fun b => 48 <= b)%N d.

Lemma dec_succ_ok : forall d, dec_ok d -> dec_ok (dec_succ d).
Proof.
  induction d as [|b r IH]; intros H; cbn [dec_succ].
  - repeat constructor. discriminate.
  - inversion H; subst. destruct (b =? 57)%N; constructor; try lia; [now apply IH|assumption].
Qed.

Lemma dec_str_nf d : dec_ok d -> nul_free (dec_str d).
Proof.
  intros H Hi. unfold dec_str in Hi. apply in_rev in Hi. unfold dec_ok in H. rewrite Forall_forall in H.
  apply H in Hi. unfold NUL in Hi. lia.
Qed.

Lemma for_state_nf (incr : bytes -> bytes -> bytes) :
  (forall a b, nul_free a -> nul_free b -> nul_free (incr a b)) ->
  forall k v d, nul_free v -> dec_ok d ->
  nul_free (fst (for_state incr k v d)) /\ dec_ok (snd (for_state incr k v d)).
Proof.
  intros Hi. induction k as [|k IH]; intros v d Hv Hd; cbn [for_state]; [now split|].
  apply IH; [apply Hi; [assumption|now apply dec_str_nf]|now apply dec_succ_ok].
Qed.

Theorem W_for c s x i n : 1 <= n <= iter_cap ->
  let cond := fun v k => eval x (subctx c v k) in
  let incr := fun v k => eval i (subctx c v k) in
  let vals := map (for_val incr (eval s c) dec_zero) (seq 0 n) in
  (forall k, k < n -> for_cond cond incr (eval s c) dec_zero k = true) ->
  for_cond cond incr (eval s c) dec_zero n = false ->
  (Z.of_nat (length (join0 vals)) <= ForMaxOutputBytes)%Z ->
  nul_free (eval s c) -> nul_safe i = true -> keys_nf c ->
  split0 (eval (AFor s x i) c) = vals.
Proof.
  intros Hn cond incr vals Ht Hs Hb Hv Si K.
  rewrite (T_for c s x i n); [|lia|exact Ht|exact Hs|exact Hb]. fold incr. fold vals.
  apply split0_join0.
  - unfold vals. destruct n; [lia|]. discriminate.
  - apply Forall_forall. intros y Hy. apply in_map_iff in Hy as (k & <- & _). unfold for_val.
    apply for_state_nf; [|exact Hv|repeat constructor; discriminate].
    intros a b Ha Hb'. unfold incr. apply nul_safe_free; [exact Si|now apply subctx_nf].
Qed.
