package pipe

// The aggregation loop (cmd/helpers/updatingAggregator.go) with a monitoring aggregator and a
// render probe: every entry/exit is stamped by one global atomic counter (C05).

import (
	"fmt"
	"runtime"
	"sort"
	"sync"
	"sync/atomic"
	"time"

	"rare/cmd/helpers"

	. "verifh/lib"
)

type LoopEvent struct {
	Seq     int64            `json:"seq"`
	Kind    string           `json:"kind"` // sin sout rin rout
	Snap    map[string]int64 `json:"snap,omitempty"`
	Matched uint64           `json:"matched,omitempty"`
}

type LoopResult struct {
	Completed bool        `json:"completed"`
	Note      string      `json:"note,omitempty"`
	Events    []LoopEvent `json:"events"`
	Overlap   int         `json:"overlap_detected_by_probe"`
}

type monitorAgg struct {
	seq    *int64
	mu     sync.Mutex // protects events only (never held across a yield)
	events *[]LoopEvent
	counts map[string]int64 // deliberately unsynchronised: the loop must serialise access
	inside int32
	over   *int32
	rng    *Rng
	delay  time.Duration // optional: time spent inside every Sample
}

func (m *monitorAgg) add(kind string, snap map[string]int64, matched uint64) {
	n := atomic.AddInt64(m.seq, 1)
	m.mu.Lock()
	*m.events = append(*m.events, LoopEvent{Seq: n, Kind: kind, Snap: snap, Matched: matched})
	m.mu.Unlock()
}

func (m *monitorAgg) Sample(element string) {
	if atomic.AddInt32(&m.inside, 1) != 1 {
		atomic.AddInt32(m.over, 1)
	}
	m.add("sin", nil, 0)
	if m.delay > 0 {
		time.Sleep(m.delay)
	} else if m.rng.Chance(1, 6) {
		runtime.Gosched()
	}
	m.counts[element]++
	m.add("sout", nil, 0)
	atomic.AddInt32(&m.inside, -1)
}
func (m *monitorAgg) ParseErrors() uint64 { return 0 }

// RunLoopDir runs the real RunAggregationLoop over the real pipeline.
func RunLoopDir(cfg Config, sources []Source, dir string, renderDelayUs, sampleDelayUs int) (res LoopResult) {
	done := make(chan LoopResult, 1)
	go func() {
		defer func() {
			if e := recover(); e != nil {
				done <- LoopResult{Completed: false, Note: fmt.Sprint("panic: ", e)}
			}
		}()
		bl, err := build(cfg, sources, dir)
		if err != nil {
			done <- LoopResult{Completed: false, Note: err.Error()}
			return
		}
		var seq int64
		var over int32
		var events []LoopEvent
		agg := &monitorAgg{seq: &seq, events: &events, counts: map[string]int64{}, over: &over, rng: bl.rng.Fork(), delay: time.Duration(sampleDelayUs) * time.Microsecond}
		render := func() {
			if atomic.AddInt32(&agg.inside, 1) != 1 {
				atomic.AddInt32(&over, 1)
			}
			agg.add("rin", nil, 0)
			if renderDelayUs > 0 {
				time.Sleep(time.Duration(renderDelayUs) * time.Microsecond)
			}
			snap := map[string]int64{}
			for k, v := range agg.counts {
				snap[k] = v
			}
			matched := bl.ex.MatchedLines()
			_ = helpers.FWriteExtractorSummary(bl.ex, 0) // what the real renderers print
			_ = bl.batcher.StatusString()
			agg.add("rout", snap, matched)
			atomic.AddInt32(&agg.inside, -1)
		}
		helpers.RunAggregationLoop(bl.ex, agg, render)
		sort.Slice(events, func(i, j int) bool { return events[i].Seq < events[j].Seq })
		done <- LoopResult{Completed: true, Events: events, Overlap: int(over)}
	}()
	select {
	case r := <-done:
		return r
	case <-time.After(60 * time.Second):
		return LoopResult{Completed: false, Note: "aggregation loop did not terminate within 60s (deadlock?)"}
	}
}
