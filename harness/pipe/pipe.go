// Package pipe drives the real extraction pipeline (pkg/extractor/batchers + pkg/extractor) on
// generated inputs with scripted readers, oracle-checked matchers and seeded delays, and records
// everything the C01/C02 theorems talk about.
package pipe

import (
	"bytes"
	"compress/gzip"
	"encoding/hex"
	"errors"
	"fmt"
	"io"
	"os"
	"os/exec"
	"path/filepath"
	"regexp"
	"runtime"
	"sort"
	"sync"
	"sync/atomic"
	"syscall"
	"time"

	"rare/cmd/helpers"
	"rare/pkg/color"
	"rare/pkg/extractor"
	"rare/pkg/extractor/batchers"
	"rare/pkg/matchers"
	"rare/pkg/matchers/dissect"
	"rare/pkg/matchers/fastregex"

	. "verifh/lib"
)

type Step struct {
	Want int `json:"want"`
	Kind int `json:"kind"` // 0 nil, 1 EOF, 2 injected error
	Wait int `json:"wait_ms,omitempty"`
}

type Source struct {
	Name    string `json:"name"`
	Stream  string `json:"stream_hex"`
	Missing bool   `json:"missing,omitempty"` // files mode: the path does not exist
	Gz      bool   `json:"gz,omitempty"`      // files mode with Gunzip: the file holds the gzip encoding of the stream
	Fifo    bool   `json:"fifo,omitempty"`    // files mode: the path is a named pipe (stat size 0, not seekable); a writer delivers the stream once
	Script  []Step `json:"script,omitempty"`  // reader mode
}

type Config struct {
	Mode      string   `json:"mode"` // "files" | "reader"
	Batch     int      `json:"batch"`
	Workers   int      `json:"workers"`
	Readers   int      `json:"readers"`
	Buffer    int      `json:"buffer"`
	Matcher   string   `json:"matcher"` // "colon" | "always" | "default" (matchers.AlwaysMatch) | "re:<regex>" | "dissect:<pattern>" | "dissecti:<pattern>"
	Extract   string   `json:"extract"`
	Ignore    []string `json:"ignore"`
	DelaySeed uint64   `json:"delay_seed"`
	HoldAll   bool     `json:"hold_all"`         // consumer keeps every match and re-reads it after GC
	Gunzip    bool     `json:"gunzip,omitempty"` // files mode: -z (gzip files are decoded, plain files are read as they are)
	Cli       bool     `json:"cli,omitempty"`    // files mode, regex / dissect matcher: also run `rare filter` (the binary) on the same files
}

type MatchObs struct {
	Src       int    `json:"src"` // index into sources, -1 if the name is unknown
	SrcName   string `json:"src_name"`
	LineNo    uint64 `json:"line_no"`
	Line      string `json:"line_hex"`
	LineAfter string `json:"line_after_hex"`
	Indices   []int  `json:"indices"`
	IdxAfter  []int  `json:"indices_after"`
	Extracted string `json:"extracted_hex"`
	Wrapped   string `json:"filter_output_hex"` // what `rare filter` prints for this match with colour on
}

type Result struct {
	Completed bool   `json:"completed"`
	Note      string `json:"note,omitempty"`
	R, M, I   uint64
	ReadErrs  int        `json:"read_errors"`
	Matches   []MatchObs `json:"matches"`                  // consumption order
	Cli       []string   `json:"cli_stdout_hex,omitempty"` // `rare filter` stdout without and with --color (one reader, one worker)
	Delivered []string   `json:"delivered_hex"`            // reader mode: bytes the scripted reader handed over
	ReadErr   []bool     `json:"read_err"`                 // per source: stream ended in an injected error
	LogTotal  int        `json:"matcher_calls"`
	Summary   string     `json:"summary"`
}

var colorMu sync.Mutex // color.Enabled is a package-level switch

// ---------- oracle matchers ----------

// ColonIndices: no match if the line contains '!'; group 1 = text before the first ':',
// group 2 = text after it (absent when there is no ':').
func ColonIndices(b []byte) []int {
	for _, c := range b {
		if c == '!' {
			return nil
		}
	}
	for i, c := range b {
		if c == ':' {
			return []int{0, len(b), 0, i, i + 1, len(b)}
		}
	}
	return []int{0, len(b), 0, len(b), -1, -1}
}

type recMatcher struct {
	inner func(b []byte) []int
	names map[string]int
	calls *int64
	rng   *Rng
	fac   *recFactory
}

// a panic of the matcher under test happens on a worker goroutine and would take the whole harness
// down; it is recorded (first one wins) and reported as the outcome of this case, with its input
func (m *recMatcher) FindSubmatchIndex(b []byte) (ix []int) {
	atomic.AddInt64(m.calls, 1)
	if m.rng != nil && m.rng.Chance(1, 40) {
		runtime.Gosched()
	}
	defer func() {
		if e := recover(); e != nil {
			m.fac.mu.Lock()
			if m.fac.panicNote == "" {
				m.fac.panicNote = fmt.Sprintf("matcher panicked on line %q: %v", b, e)
			}
			m.fac.mu.Unlock()
			ix = nil
		}
	}()
	ix = m.inner(b)
	for i := 0; i+1 < len(ix); i += 2 {
		lo, hi := ix[i], ix[i+1]
		if !(lo == -1 && hi == -1) && !(0 <= lo && lo <= hi && hi <= len(b)) {
			// indices outside the line would crash the worker goroutine in BuildKey: record and drop the match
			panic(fmt.Sprintf("indices %v outside the line (length %d)", ix, len(b)))
		}
	}
	return ix
}
func (m *recMatcher) SubexpNameTable() map[string]int { return m.names }

type recFactory struct {
	mk    func() (func(b []byte) []int, map[string]int)
	calls int64
	mu    sync.Mutex
	seed  uint64
	n     uint64

	panicNote string
}

func (f *recFactory) CreateInstance() matchers.Matcher {
	fn, names := f.mk()
	f.mu.Lock()
	f.n++
	r := NewRng(f.seed + f.n)
	f.mu.Unlock()
	return &recMatcher{inner: fn, names: names, calls: &f.calls, rng: r, fac: f}
}

// Oracle returns, independently of the pipeline, the index list the selected matcher yields for a
// line (Go's regexp package is the oracle for regex matchers) and the name table.
func Oracle(kind string) (func(b []byte) []int, map[string]int, error) {
	switch {
	case kind == "colon":
		return ColonIndices, map[string]int{"k": 1, "rest": 2}, nil
	case kind == "always" || kind == "default":
		return func(b []byte) []int { return []int{0, len(b)} }, map[string]int{}, nil
	case len(kind) > 3 && kind[:3] == "re:":
		re, err := regexp.Compile(kind[3:])
		if err != nil {
			return nil, nil, err
		}
		names := map[string]int{}
		for i, n := range re.SubexpNames() {
			if n != "" {
				names[n] = i
			}
		}
		return func(b []byte) []int { return re.FindSubmatchIndex(b) }, names, nil
	}
	if re, ok := DissectOracles[kind]; ok { // a dissect pattern with a regular expression of the same meaning
		return Oracle("re:" + re)
	}
	return nil, nil, fmt.Errorf("no oracle for matcher %q", kind)
}

func factoryFor(kind string, seed uint64) (*recFactory, error) {
	switch {
	case kind == "colon" || kind == "always":
		fn, names, _ := Oracle(kind)
		return &recFactory{seed: seed, mk: func() (func(b []byte) []int, map[string]int) { return fn, names }}, nil
	case kind == "default": // the matcher the commands use when neither -m nor -d is given
		return &recFactory{seed: seed, mk: func() (func(b []byte) []int, map[string]int) {
			inst := (&matchers.AlwaysMatch{}).CreateInstance()
			return inst.FindSubmatchIndex, inst.SubexpNameTable()
		}}, nil
	case len(kind) > 3 && kind[:3] == "re:":
		c, err := fastregex.CompileEx(kind[3:], false)
		if err != nil {
			return nil, err
		}
		return &recFactory{seed: seed, mk: func() (func(b []byte) []int, map[string]int) {
			inst := c.CreateInstance()
			return inst.FindSubmatchIndex, inst.SubexpNameTable()
		}}, nil
	case len(kind) > 9 && kind[:9] == "dissecti:": // --ignore-case
		d, err := dissect.CompileEx(kind[9:], true)
		if err != nil {
			return nil, err
		}
		return &recFactory{seed: seed, mk: func() (func(b []byte) []int, map[string]int) {
			inst := d.CreateInstance()
			return inst.FindSubmatchIndex, inst.SubexpNameTable()
		}}, nil
	case len(kind) > 8 && kind[:8] == "dissect:":
		d, err := dissect.Compile(kind[8:])
		if err != nil {
			return nil, err
		}
		return &recFactory{seed: seed, mk: func() (func(b []byte) []int, map[string]int) {
			inst := d.CreateInstance()
			return inst.FindSubmatchIndex, inst.SubexpNameTable()
		}}, nil
	}
	return nil, fmt.Errorf("unknown matcher %q", kind)
}

// DissectOracles: dissect patterns used by the pipeline cases and a regular expression with the same
// leftmost / first-occurrence meaning and the same group names (Go's regexp is the oracle).
var DissectOracles = map[string]string{
	"dissect:%{a} %{b}":      `^(?P<a>[^ ]*) (?P<b>.*)$`,
	"dissect:k=%{v};":        `k=(?P<v>[^;]*);`,
	"dissect:%{a}:%{b}:%{c}": `^(?P<a>[^:]*):(?P<b>[^:]*):(?P<c>.*)$`,
	// --ignore-case folds ASCII letters only (documented in pkg/matchers/dissect/case.go): explicit classes,
	// not (?i), whose Unicode folding would also accept the Kelvin sign for k and the long s for s
	"dissecti:k=%{v};":                    `[kK]=(?P<v>[^;]*);`,
	"dissecti:ID=%{id} user=%{u};":        `[iI][dD]=(?P<id>.*?) [uU][sS][eE][rR]=(?P<u>.*?);`,
	"dissecti:ID=%{Id} user=%{userName};": `[iI][dD]=(?P<Id>.*?) [uU][sS][eE][rR]=(?P<userName>.*?);`,
	"dissect:%{Method} %{Path}":           `^(?P<Method>[^ ]*) (?P<Path>.*)$`,
	// literals that overlap themselves (first occurrence = shortest leading token)
	"dissecti:%{task}==>%{state}": `(?s)^(?P<task>.*?)==>(?P<state>.*)$`,
	"dissect:%{task}==>%{state}":  `(?s)^(?P<task>.*?)==>(?P<state>.*)$`,
	"dissecti:%{h}::1 %{rest}":    `(?s)^(?P<h>.*?)::1 (?P<rest>.*)$`,
	"dissecti:%{x}aab%{y}":        `(?s)^(?P<x>.*?)[aA][aA][bB](?P<y>.*)$`,
}

// ---------- scripted reader ----------
var ErrInjected = errors.New("injected read error")

// the identity of an injected failure varies with its position (any non-EOF error is a read error)
var errKinds = []error{ErrInjected, io.ErrUnexpectedEOF, io.ErrClosedPipe, io.ErrNoProgress, io.ErrShortBuffer, syscall.EIO,
	fmt.Errorf("read tcp 10.0.0.1:514: %w", io.EOF), &os.PathError{Op: "read", Path: "/var/log/app.log", Err: io.EOF}, errors.New("EOF")}

type scriptReader struct {
	script    []Step
	stream    []byte
	pos, k    int
	delivered []byte
	failed    bool
	reads     int
	rng       *Rng
}

func (r *scriptReader) Read(p []byte) (int, error) {
	r.reads++
	if r.reads > len(r.script)+len(r.stream)+10000 {
		panic("runaway reader loop")
	}
	want, kind, wait := len(r.stream), 1, 0
	if r.k < len(r.script) {
		want, kind, wait = r.script[r.k].Want, r.script[r.k].Kind, r.script[r.k].Wait
		r.k++
	} else if r.pos < len(r.stream) {
		kind = 0 // keep delivering until the stream is exhausted, then EOF
	}
	if wait > 0 {
		time.Sleep(time.Duration(wait) * time.Millisecond)
	} else if r.rng != nil && r.rng.Chance(1, 10) {
		runtime.Gosched()
	}
	n := want
	if len(p) < n {
		n = len(p)
	}
	if len(r.stream)-r.pos < n {
		n = len(r.stream) - r.pos
	}
	copy(p, r.stream[r.pos:r.pos+n])
	r.delivered = append(r.delivered, r.stream[r.pos:r.pos+n]...)
	r.pos += n
	switch kind {
	case 0:
		return n, nil
	case 1:
		return n, io.EOF
	default:
		r.failed = true
		return n, errKinds[(r.pos+len(r.script))%len(errKinds)]
	}
}
func (r *scriptReader) Close() error { return nil }

// Run executes one pipeline configuration to completion (or reports that it did not complete).
func RunDir(cfg Config, sources []Source, dir string) (res Result) {
	done := make(chan Result, 1)
	go func() {
		defer func() {
			if e := recover(); e != nil {
				done <- Result{Completed: false, Note: fmt.Sprint("panic: ", e)}
			}
		}()
		done <- run(cfg, sources, dir)
	}()
	select {
	case r := <-done:
		return r
	case <-time.After(60 * time.Second):
		return Result{Completed: false, Note: "pipeline did not terminate within 60s (deadlock?)"}
	}
}

type built struct {
	batcher *batchers.Batcher
	ex      *extractor.Extractor
	readers []*scriptReader
	nameIdx map[string]int
	fac     *recFactory
	rng     *Rng
	fifos   []string
	fifoWg  sync.WaitGroup
}

// releaseFifos lets the writers of named pipes that the code under test never opened finish
func (b *built) releaseFifos() {
	for _, p := range b.fifos {
		if fd, err := syscall.Open(p, syscall.O_RDONLY|syscall.O_NONBLOCK, 0); err == nil {
			defer syscall.Close(fd)
		}
	}
	done := make(chan struct{})
	go func() { b.fifoWg.Wait(); close(done) }()
	select {
	case <-done:
	case <-time.After(5 * time.Second):
	}
}

func build(cfg Config, sources []Source, dir string) (*built, error) {
	fac, err := factoryFor(cfg.Matcher, cfg.DelaySeed)
	if err != nil {
		return nil, err
	}
	b := &built{fac: fac, rng: NewRng(cfg.DelaySeed), nameIdx: map[string]int{}}
	switch cfg.Mode {
	case "reader":
		s := sources[0]
		stream, _ := hex.DecodeString(s.Stream)
		rd := &scriptReader{script: s.Script, stream: stream, rng: b.rng.Fork()}
		b.readers = append(b.readers, rd)
		b.nameIdx[s.Name] = 0
		b.batcher = batchers.OpenReaderToChan(s.Name, rd, cfg.Batch, cfg.Buffer)
	default:
		names := make(chan string, len(sources))
		for i, s := range sources {
			p := filepath.Join(dir, s.Name)
			if !s.Missing {
				bs, _ := hex.DecodeString(s.Stream)
				if s.Gz && cfg.Gunzip {
					var zb bytes.Buffer
					zw := gzip.NewWriter(&zb)
					zw.Write(bs)
					zw.Close()
					bs = zb.Bytes()
				}
				if s.Fifo {
					if err := syscall.Mkfifo(p, 0o644); err != nil {
						return nil, err
					}
					b.fifos = append(b.fifos, p)
					b.fifoWg.Add(1)
					go func(p string, bs []byte) {
						defer b.fifoWg.Done()
						if f, err := os.OpenFile(p, os.O_WRONLY, 0); err == nil { // blocks until the pipe is opened for reading
							f.Write(bs)
							f.Close()
						}
					}(p, bs)
				} else if err := os.WriteFile(p, bs, 0o644); err != nil {
					return nil, err
				}
			}
			b.nameIdx[p] = i
			names <- p
		}
		close(names)
		b.batcher = batchers.OpenFilesToChan(names, cfg.Gunzip, cfg.Readers, cfg.Batch, cfg.Buffer)
	}
	var ignore extractor.IgnoreSet
	if len(cfg.Ignore) > 0 {
		ignore, err = extractor.NewIgnoreExpressions(cfg.Ignore...)
		if err != nil {
			return nil, fmt.Errorf("ignore: %v", err)
		}
	}
	b.ex, err = extractor.New(b.batcher.BatchChan(), &extractor.Config{
		Matcher: fac, Extract: cfg.Extract, Workers: cfg.Workers, Ignore: ignore,
	})
	if err != nil {
		return nil, fmt.Errorf("extract: %v", err)
	}
	return b, nil
}

func run(cfg Config, sources []Source, dir string) Result {
	var res Result
	bl, err := build(cfg, sources, dir)
	if err != nil {
		return Result{Completed: false, Note: err.Error()}
	}
	batcher, ex, readers, nameIdx, fac, rng := bl.batcher, bl.ex, bl.readers, bl.nameIdx, bl.fac, bl.rng
	type held struct {
		m    extractor.Match
		line []byte
		idx  []int
	}
	var all []held
	crng := rng.Fork()
	for batch := range ex.ReadChan() {
		for _, m := range batch {
			all = append(all, held{m: m, line: []byte(m.Line), idx: append([]int(nil), m.Indices...)})
		}
		if crng.Chance(1, 8) {
			runtime.Gosched()
		}
	}
	// hold every match across garbage collections, then read it again
	runtime.GC()
	runtime.GC()
	for _, h := range all {
		src, ok := nameIdx[h.m.Source]
		if !ok {
			src = -1
		}
		name := h.m.Source
		if cfg.Mode != "reader" {
			name = filepath.Base(name)
		}
		res.Matches = append(res.Matches, MatchObs{
			Src: src, SrcName: name, LineNo: h.m.LineNumber,
			Line: hex.EncodeToString(h.line), LineAfter: hex.EncodeToString([]byte(h.m.Line)),
			Indices: h.idx, IdxAfter: append([]int(nil), h.m.Indices...),
			Extracted: hex.EncodeToString([]byte(h.m.Extracted)),
		})
	}
	res.R, res.M, res.I = ex.ReadLines(), ex.MatchedLines(), ex.IgnoredLines()
	res.ReadErrs = batcher.ReadErrors()
	func() {
		colorMu.Lock()
		defer func() { // WrapIndices panics on indices that are no longer those of the line (a held match overwritten):
			color.Enabled = false // the lock must not stay held, and the panic is this case's outcome
			colorMu.Unlock()
		}()
		color.Enabled = false
		res.Summary = helpers.FWriteExtractorSummary(ex, 0)
		// cmd/filter.go: a single pair highlights the whole match, otherwise the groups are highlighted
		color.Enabled = true
		for i := range res.Matches {
			m := all[i].m
			groups := m.Indices
			if len(groups) != 2 {
				groups = groups[2:]
			}
			res.Matches[i].Wrapped = hex.EncodeToString([]byte(color.WrapIndices(m.Line, groups)))
		}
	}()
	res.LogTotal = int(atomic.LoadInt64(&fac.calls))
	for _, rd := range readers {
		res.Delivered = append(res.Delivered, hex.EncodeToString(rd.delivered))
		res.ReadErr = append(res.ReadErr, rd.failed)
	}
	bl.releaseFifos()
	if cfg.Cli && cfg.Mode != "reader" && len(bl.fifos) == 0 {
		res.Cli = runCli(cfg, sources, dir)
	}
	res.Completed = true
	fac.mu.Lock()
	if fac.panicNote != "" {
		res.Completed = false
		res.Note = fac.panicNote
	}
	fac.mu.Unlock()
	return res
}

// ---------- the `rare` binary ----------
var rareOnce sync.Once
var rareBin, rareErr string

// RareBin builds the rare binary from the tree under test once per harness run.
func RareBin() (string, string) {
	rareOnce.Do(func() {
		repo := os.Getenv("VERIF_REPO")
		if repo == "" {
			repo = "/repo"
		}
		rareBin = filepath.Join(Workdir(), fmt.Sprintf("rare-pipe-%d", os.Getpid()))
		cmd := exec.Command("go", "build", "-o", rareBin, ".")
		cmd.Dir = repo
		cmd.Env = append(os.Environ(), "GOFLAGS=-mod=mod", "GOPROXY=off", "GOSUMDB=off", "GOTOOLCHAIN=local")
		if out, err := cmd.CombinedOutput(); err != nil {
			rareErr = err.Error() + ": " + string(out)
		}
	})
	return rareBin, rareErr
}

// runCli: `rare [--color] filter <matcher> --workers 1 --readers 1 …files` — what the command prints for the same
// files (standard output only; the summary goes to standard error)
func runCli(cfg Config, sources []Source, dir string) []string {
	bin, berr := RareBin()
	if berr != "" {
		return []string{hex.EncodeToString([]byte("BUILD FAILED: " + berr))}
	}
	var margs []string
	switch {
	case len(cfg.Matcher) > 3 && cfg.Matcher[:3] == "re:":
		margs = []string{"-m", cfg.Matcher[3:]}
	case len(cfg.Matcher) > 9 && cfg.Matcher[:9] == "dissecti:":
		margs = []string{"-d", cfg.Matcher[9:], "-I"}
	case len(cfg.Matcher) > 8 && cfg.Matcher[:8] == "dissect:":
		margs = []string{"-d", cfg.Matcher[8:]}
	case cfg.Matcher == "default":
		margs = nil
	default:
		return nil
	}
	var out []string
	for _, colour := range []bool{false, true} {
		args := []string{}
		if colour {
			args = append(args, "--color")
		}
		args = append(args, "filter")
		args = append(args, margs...)
		args = append(args, "--workers", "1", "--readers", "1", "--batch", fmt.Sprint(cfg.Batch), "--batch-buffer", fmt.Sprint(cfg.Buffer))
		if cfg.Gunzip {
			args = append(args, "-z")
		}
		for _, s := range sources {
			args = append(args, filepath.Join(dir, s.Name))
		}
		cmd := exec.Command(bin, args...)
		var stdout bytes.Buffer
		cmd.Stdout = &stdout
		done := make(chan error, 1)
		if err := cmd.Start(); err != nil {
			out = append(out, hex.EncodeToString([]byte("START FAILED: "+err.Error())))
			continue
		}
		go func() { done <- cmd.Wait() }()
		select {
		case <-done:
		case <-time.After(30 * time.Second):
			cmd.Process.Kill()
			stdout.WriteString("\nTIMEOUT")
		}
		out = append(out, hex.EncodeToString(stdout.Bytes()))
	}
	return out
}

// SortMatches orders matches by (source index, line number) — the canonical order compared with the model.
func SortMatches(ms []MatchObs) []MatchObs {
	out := append([]MatchObs(nil), ms...)
	sort.SliceStable(out, func(i, j int) bool {
		if out[i].Src != out[j].Src {
			return out[i].Src < out[j].Src
		}
		return out[i].LineNo < out[j].LineNo
	})
	return out
}
