package pipe

import (
	"bytes"
	"encoding/hex"
	"encoding/json"
	"fmt"
	"os"
	"path/filepath"
	"sort"
	"strings"
	"sync"

	. "verifh/lib"
)

// KPiece mirrors Model/Extract.v kpiece: the fragment of the expression language the pipeline cases use.
type KPiece struct {
	Kind string `json:"kind"` // lit group src line arr name
	Text string `json:"text,omitempty"`
	Idx  int    `json:"idx,omitempty"`
}

func tmplString(t []KPiece) string {
	var sb strings.Builder
	for _, p := range t {
		switch p.Kind {
		case "lit":
			sb.WriteString(p.Text) // generators only use characters that need no escaping
		case "group":
			fmt.Fprintf(&sb, "{%d}", p.Idx)
		case "src":
			sb.WriteString("{src}")
		case "line":
			sb.WriteString("{line}")
		case "arr":
			sb.WriteString("{@}")
		case "name":
			sb.WriteString("{" + p.Text + "}")
		case "eqline":
			fmt.Fprintf(&sb, "{eq {line} %d}", p.Idx)
		}
	}
	return sb.String()
}
func tmplCoq(t []KPiece) string {
	ps := make([]string, len(t))
	for i, p := range t {
		switch p.Kind {
		case "lit":
			ps[i] = "L " + HS(p.Text)
		case "group":
			ps[i] = fmt.Sprintf("KGroup %s%%Z", Z(int64(p.Idx)))
		case "src":
			ps[i] = "KSrc"
		case "line":
			ps[i] = "KLine"
		case "arr":
			ps[i] = "KArr"
		case "name":
			ps[i] = "Nm " + HS(p.Text)
		case "eqline":
			ps[i] = fmt.Sprintf("KEqLine %d%%N", p.Idx)
		}
	}
	return CoqList(ps)
}

type PipeIn struct {
	Cfg     Config     `json:"cfg"`
	Sources []Source   `json:"sources"`
	Extract []KPiece   `json:"extract_tmpl"`
	Ignore  [][]KPiece `json:"ignore_tmpl"`
	// ProjectLines > 0 (one file source, C02 only): the pipeline runs on the whole stream and every match is held to
	// the end, but only the first ProjectLines lines and their matches are handed to Coq (a projection of the
	// observation: what is compared is still the true source, number, text, groups and held values of those lines)
	ProjectLines int `json:"project_lines,omitempty"`
}

func zlist(ix []int) string {
	ps := make([]string, len(ix))
	for i, v := range ix {
		ps[i] = Z(int64(v))
	}
	return "[" + strings.Join(ps, ";") + "]%Z"
}

// SplitLines is the harness's own reading of "lines of a byte stream" (used only to align the
// matcher oracle with lines; Coq recomputes the lines with lines_spec and any disagreement shows).
func SplitLines(b []byte) [][]byte {
	var out [][]byte
	for len(b) > 0 {
		i := bytes.IndexByte(b, '\n')
		if i < 0 {
			out = append(out, b)
			break
		}
		l := b[:i]
		if len(l) > 0 && l[len(l)-1] == '\r' {
			l = l[:len(l)-1]
		}
		out = append(out, l)
		b = b[i+1:]
	}
	return out
}

// Prepare fills the expression strings of the configuration from the templates.
func Prepare(in *PipeIn) {
	in.Cfg.Extract = tmplString(in.Extract)
	in.Cfg.Ignore = nil
	for _, ig := range in.Ignore {
		in.Cfg.Ignore = append(in.Cfg.Ignore, tmplString(ig))
	}
}

// InputCoq prints the Coq term of a case input. For a scripted reader the stream is what the reader
// actually delivered (res), or the whole stream when res is nil.
func InputCoq(in PipeIn, dir string, res *Result) (string, int) {
	oracle, names, _ := Oracle(in.Cfg.Matcher)
	var srcs, orc []string
	total := 0
	for i, s := range in.Sources {
		name := s.Name
		if in.Cfg.Mode != "reader" {
			name = filepath.Join(dir, s.Name)
		}
		stream, _ := hex.DecodeString(s.Stream)
		rerr := false
		if res != nil && in.Cfg.Mode == "reader" && res.Completed && i < len(res.Delivered) {
			stream, _ = hex.DecodeString(res.Delivered[i])
			rerr = res.ReadErr[i]
		}
		srcs = append(srcs, fmt.Sprintf("S %s %s %s %s", HS(name), B(!s.Missing), RL(stream), B(rerr)))
		if !s.Missing {
			for _, l := range SplitLines(stream) {
				total++
				if ix := oracle(l); ix == nil {
					orc = append(orc, "None")
				} else {
					orc = append(orc, "Some "+zlist(ix))
				}
			}
		}
	}
	var nms []string
	for k, v := range names {
		nms = append(nms, fmt.Sprintf("nm %s %d%%Z", HS(k), v))
	}
	sortStrings(nms)
	igs := make([]string, len(in.Ignore))
	for i, ig := range in.Ignore {
		igs[i] = tmplCoq(ig)
	}
	ordered := in.Cfg.Workers == 1 && (in.Cfg.Readers == 1 || len(in.Sources) == 1)
	inCoq := fmt.Sprintf("{| i_srcs := %s; i_names := %s; i_extract := %s; i_ignore := %s; i_oracle := %s; i_cfg := (%d,%d,%d,%d); i_ordered := %s |}",
		CoqList(srcs), CoqList(nms), tmplCoq(in.Extract), CoqList(igs), CoqList(orc),
		in.Cfg.Batch, in.Cfg.Workers, in.Cfg.Readers, in.Cfg.Buffer, B(ordered))
	return inCoq, total
}

// RunLoopFor runs the aggregation loop for a pipeline input.
func RunLoopFor(in PipeIn, dir string, renderDelayUs, sampleDelayUs int) LoopResult {
	Prepare(&in)
	return RunLoopDir(in.Cfg, in.Sources, dir, renderDelayUs, sampleDelayUs)
}

// MakeCase runs the pipeline and prints the Coq term for (input, observed output).
func MakeCase(in PipeIn, workdir string, caseNo int) Case {
	Prepare(&in)
	dir := filepath.Join(workdir, fmt.Sprintf("pipe%06d", caseNo))
	res := runIn(in, dir)
	full := in
	if in.ProjectLines > 0 && in.Cfg.Mode != "reader" && len(in.Sources) == 1 && res.Completed {
		stream, _ := hex.DecodeString(in.Sources[0].Stream)
		cut, n := len(stream), 0
		for i, c := range stream {
			if c == '\n' {
				n++
				if n == in.ProjectLines {
					cut = i + 1
					break
				}
			}
		}
		in.Sources = []Source{in.Sources[0]}
		in.Sources[0].Stream = hex.EncodeToString(stream[:cut])
		var keep []MatchObs
		for _, m := range res.Matches {
			if int(m.LineNo) <= in.ProjectLines {
				keep = append(keep, m)
			}
		}
		res.Matches = keep
		res.Cli = nil
	}
	inCoq, total := InputCoq(in, dir, &res)
	in = full

	var sorted, order []string
	fullName := func(m MatchObs) string {
		if in.Cfg.Mode != "reader" {
			return filepath.Join(dir, m.SrcName)
		}
		return m.SrcName
	}
	for _, m := range SortMatches(res.Matches) {
		l, _ := hex.DecodeString(m.Line)
		l2, _ := hex.DecodeString(m.LineAfter)
		k, _ := hex.DecodeString(m.Extracted)
		w, _ := hex.DecodeString(m.Wrapped)
		sorted = append(sorted, fmt.Sprintf("Mt %s %d %s %s %s %s %s %s", HS(fullName(m)), m.LineNo, RL(l), RL(l2), zlist(m.Indices), zlist(m.IdxAfter), RL(k), RL(w)))
	}
	for _, m := range res.Matches {
		order = append(order, fmt.Sprintf("od %s %d", HS(fullName(m)), m.LineNo))
	}
	var cli []string
	for _, c := range res.Cli {
		b, _ := hex.DecodeString(c)
		cli = append(cli, "rl "+RL(b))
	}
	outCoq := fmt.Sprintf("{| o_completed := %s; o_R := %d; o_M := %d; o_I := %d; o_errs := %d; o_summary := unhex %s; o_sorted := %s; o_order := %s; o_cli := "+CoqList(cli)+" |}",
		B(res.Completed), res.R, res.M, res.I, res.ReadErrs, HS(res.Summary), CoqList(sorted), CoqList(order))

	// boundary classes
	tags := []string{"mode=" + in.Cfg.Mode, fmt.Sprintf("workers=%d", in.Cfg.Workers), fmt.Sprintf("batch=%d", in.Cfg.Batch),
		fmt.Sprintf("readers=%d", in.Cfg.Readers), fmt.Sprintf("buffer=%d", in.Cfg.Buffer), fmt.Sprintf("sources=%d", len(in.Sources))}
	nontriv := false
	add := func(t string) { tags = append(tags, t); nontriv = true }
	if total > in.Cfg.Batch {
		add("several-batches")
	}
	if in.Cfg.Batch > 1 && total%in.Cfg.Batch != 0 && total > 0 {
		add("partial-final-batch")
	}
	for _, s := range in.Sources {
		b, _ := hex.DecodeString(s.Stream)
		if s.Missing {
			add("missing-file")
		}
		if in.Cfg.Gunzip && !s.Missing {
			if s.Gz {
				add("gunzip:gzip-file")
			} else {
				add("gunzip:plain-file")
			}
		}
		if len(b) > 0 && b[len(b)-1] != '\n' {
			add("no-trailing-newline")
		}
		if bytes.Contains(b, []byte("\r\n")) {
			add("crlf")
		}
		if bytes.Contains(b, []byte("\n\n")) {
			add("empty-line")
		}
		if len(b) > 131072 {
			add("input-longer-than-read-buffer")
			if b[131071] == '\n' {
				add("line-ends-on-read-buffer-boundary")
			}
		}
		for _, st := range s.Script {
			if st.Kind == 2 {
				add("injected-read-error")
			}
			if st.Wait >= 250 {
				add("time-flush")
			}
		}
	}
	if in.Cfg.Workers > 1 && total > in.Cfg.Batch {
		add("workers-race")
	}
	tags = dedup(tags)
	desc := map[string]any{"input": in, "impl": summarize(res)}
	kb, _ := json.Marshal(in)
	return Case{Coq: "(" + inCoq + ",\n   " + outCoq + ")", Desc: desc, Key: string(kb), Nontrivial: nontriv, Tags: tags}
}

func summarize(r Result) map[string]any {
	m := map[string]any{"completed": r.Completed, "note": r.Note, "read": r.R, "matched": r.M, "ignored": r.I,
		"read_errors": r.ReadErrs, "summary": r.Summary, "matches": len(r.Matches), "matcher_calls": r.LogTotal}
	if len(r.Matches) > 0 {
		n := len(r.Matches)
		if n > 5 {
			n = 5
		}
		m["first_matches"] = r.Matches[:n]
	}
	return m
}

func runIn(in PipeIn, dir string) Result {
	if in.Cfg.Mode != "reader" {
		if err := os.MkdirAll(dir, 0o755); err != nil {
			return Result{Completed: false, Note: err.Error()}
		}
		defer os.RemoveAll(dir)
	}
	return RunDir(in.Cfg, in.Sources, dir)
}

// Dedup removes repeated strings, keeping the first occurrence.
func Dedup(xs []string) []string { return dedup(xs) }

func dedup(xs []string) []string {
	seen := map[string]bool{}
	var out []string
	for _, x := range xs {
		if !seen[x] {
			seen[x] = true
			out = append(out, x)
		}
	}
	return out
}
func sortStrings(xs []string) {
	for i := 1; i < len(xs); i++ {
		for j := i; j > 0 && xs[j] < xs[j-1]; j-- {
			xs[j], xs[j-1] = xs[j-1], xs[j]
		}
	}
}

// MakeCases runs many cases on a small pool of goroutines (each pipeline is independent).
func MakeCases(ins []PipeIn, workdir string) []Case {
	out := make([]Case, len(ins))
	var wg sync.WaitGroup
	sem := make(chan struct{}, 8)
	for i := range ins {
		wg.Add(1)
		sem <- struct{}{}
		go func(i int) {
			defer wg.Done()
			defer func() { <-sem }()
			out[i] = MakeCase(ins[i], workdir, i)
		}(i)
	}
	wg.Wait()
	return out
}

func Workdir() string {
	w := os.Getenv("VERIF_WORK")
	if w == "" {
		w = filepath.Join(os.TempDir(), "verifh")
	}
	os.MkdirAll(w, 0o755)
	return w
}

// ---------- generators ----------
var lineAlpha = []byte("aabbc:: !\t x0\xc3\xa9\xff")

// white space as Go's unicode.IsSpace sees it (what strings.TrimSpace removes, so what Truthy ignores), and
// look-alikes that are NOT white space: zero width space, BOM, Mongolian vowel separator, truncated sequences
var uniSpaces = []string{"\u00a0", "\u0085", "\u1680", "\u2003", "\u2009", "\u2028", "\u2029", "\u202f", "\u205f", "\u3000", " ", "\t"}
var notSpaces = []string{"\u200b", "\ufeff", "\u180e", "\xc2", "\xe2\x80", "\xe3\x80", "\xa0", "\u2060"}

func genLine(r *Rng, maxLen int) []byte {
	if r.Chance(1, 7) { // key, colon, then a value made of non-ASCII white space only - or nearly
		b := []byte{lineAlpha[r.Intn(5)], ':'}
		for i, k := 0, 1+r.Intn(3); i < k; i++ {
			b = append(b, Pick(r, uniSpaces)...)
		}
		if r.Chance(1, 3) {
			b = append(b, Pick(r, notSpaces)...)
		}
		return b
	}
	n := r.Intn(maxLen + 1)
	if r.Chance(1, 6) {
		n = 0
	}
	b := make([]byte, n)
	for i := range b {
		b[i] = lineAlpha[r.Intn(len(lineAlpha))]
	}
	return b
}

func genStream(r *Rng, nlines int, mk func() []byte) []byte {
	var b []byte
	for i := 0; i < nlines; i++ {
		b = append(b, mk()...)
		last := i == nlines-1
		switch {
		case last && r.Chance(1, 3): // no trailing newline
		case r.Chance(1, 5):
			b = append(b, '\r', '\n')
		case r.Chance(1, 12): // doubly converted line ends, progress output: only ONE carriage return belongs to the terminator
			b = append(b, '\r', '\r', '\n')
		case r.Chance(1, 40):
			b = append(b, '\r', '\r', '\r', '\n')
		default:
			b = append(b, '\n')
		}
	}
	return b
}

func genCfg(r *Rng) Config {
	return Config{
		Batch:     Pick(r, []int{1, 1, 2, 3, 7, 1000}),
		Workers:   Pick(r, []int{1, 1, 2, 3, 4, 8}),
		Readers:   Pick(r, []int{1, 1, 2, 3, 4}),
		Buffer:    Pick(r, []int{1, 1, 2, 4}),
		DelaySeed: r.U64(),
	}
}

func genScript(r *Rng, stream []byte) []Step {
	var sc []Step
	pos := 0
	for pos < len(stream) && len(sc) < 400 {
		w := 1 + r.Intn(40)
		if r.Chance(1, 4) {
			w = len(stream)
		}
		sc = append(sc, Step{Want: w})
		pos += w
	}
	return sc
}

// GenC01 aims at counters and key multisets: colon matcher, ignore and empty-key classes.
func GenC01(r *Rng, n int, tier string) []PipeIn {
	var ins []PipeIn
	for len(ins) < n {
		cfg := genCfg(r)
		cfg.Matcher = "colon"
		in := PipeIn{Cfg: cfg}
		switch r.Intn(4) {
		case 0:
			in.Extract = []KPiece{{Kind: "group", Idx: 1}}
		case 1:
			in.Extract = []KPiece{{Kind: "name", Text: "k"}}
		case 2:
			in.Extract = []KPiece{{Kind: "group", Idx: 1}, {Kind: "lit", Text: "="}, {Kind: "group", Idx: 2}}
		default:
			in.Extract = []KPiece{{Kind: "group", Idx: 1}, {Kind: "group", Idx: 7}}
		}
		if r.Chance(3, 4) {
			in.Ignore = [][]KPiece{{{Kind: "group", Idx: 2}}}
			if r.Chance(1, 4) {
				in.Ignore = append([][]KPiece{{{Kind: "group", Idx: 5}}}, in.Ignore...)
			}
		}
		if r.Chance(1, 3) { // ignore expressions that depend on the POSITION of the line ({line}), alone or before the others
			pos := [][]KPiece{{{Kind: "eqline", Idx: 1 + r.Intn(4)}}}
			if r.Bool() {
				pos = append(pos, []KPiece{{Kind: "eqline", Idx: 1 + r.Intn(12)}})
			}
			in.Ignore = append(pos, in.Ignore...)
		}
		maxLines := 30
		if r.Chance(1, 10) {
			maxLines = 300
		}
		if r.Chance(1, 3) { // stdin-like: one scripted reader, time-flush loop
			in.Cfg.Mode = "reader"
			stream := genStream(r, r.Intn(maxLines+1), func() []byte { return genLine(r, 12) })
			sc := genScript(r, stream)
			switch r.Intn(6) {
			case 0: // injected error at the end, with the last data
				if len(sc) > 0 {
					sc[len(sc)-1].Kind = 2
				} else {
					sc = append(sc, Step{Want: 0, Kind: 2})
				}
			case 1: // injected error somewhere in the middle
				if len(sc) > 1 {
					sc = sc[:1+r.Intn(len(sc)-1)]
					sc[len(sc)-1].Kind = 2
				}
			}
			in.Sources = []Source{{Name: "<stdin>", Stream: hex.EncodeToString(stream), Script: sc}}
		} else {
			in.Cfg.Mode = "files"
			in.Cfg.Gunzip = r.Chance(1, 4) // -z: gzip files decoded (compress/gzip is an oracle), plain files read from their first byte
			ns := 1 + r.Intn(6)
			for i := 0; i < ns; i++ {
				s := Source{Name: fmt.Sprintf("f%d.log", i)}
				if r.Chance(1, 12) {
					s.Missing = true
				} else {
					s.Stream = hex.EncodeToString(genStream(r, r.Intn(maxLines+1), func() []byte { return genLine(r, 12) }))
					s.Gz = in.Cfg.Gunzip && r.Bool()
					// a named pipe among the inputs (rare histo <(cmd) app.log): reports size 0, cannot be rewound
					s.Fifo = r.Chance(1, 8) // also plain content under -z: the gzip probe cannot rewind a pipe
				}
				in.Sources = append(in.Sources, s)
			}
		}
		ins = append(ins, in)
	}
	// a line longer than the read-ahead buffer (128 KiB), and slow readers that force the 250 ms flush
	big := append(bytes.Repeat([]byte("a"), 140000), []byte(":\nb:\nlast")...)
	ins[0] = PipeIn{Cfg: Config{Mode: "files", Batch: 2, Workers: 2, Readers: 1, Buffer: 1, Matcher: "colon", DelaySeed: 7},
		Extract: []KPiece{{Kind: "group", Idx: 1}}, Sources: []Source{{Name: "big.log", Stream: hex.EncodeToString(big)}, {Name: "small.log", Stream: hex.EncodeToString([]byte("x:\ny: z\n"))}}}
	if len(ins) > 3 { // 1024 lines of 128 bytes fill the 128 KiB read buffer exactly: the newline of line 1024 is its last byte
		ins[2] = alignedCase("colon", []KPiece{{Kind: "group", Idx: 1}}, func(c byte) []byte {
			return append(bytes.Repeat([]byte{c}, 126), ':', '\n')
		})
	}
	if len(ins) > 5 {
		// one line of 2.3 MiB (18 read buffers) between short ones: still one line, and the lines after it keep their numbers
		huge := append([]byte("first:\nk:"), bytes.Repeat([]byte("a"), 2300000)...)
		huge = append(huge, []byte("\nafter:\nlast:")...)
		ins[3] = PipeIn{Cfg: Config{Mode: "files", Batch: 1000, Workers: 2, Readers: 1, Buffer: 1, Matcher: "colon", DelaySeed: 13},
			Extract: []KPiece{{Kind: "line"}, {Kind: "lit", Text: "="}, {Kind: "group", Idx: 1}},
			Sources: []Source{{Name: "huge.log", Stream: hex.EncodeToString(huge)}}}
	}
	if len(ins) > 2 {
		st := []byte("a:\nb:\nc:\nd:\ne")
		ins[1] = PipeIn{Cfg: Config{Mode: "reader", Batch: 1000, Workers: 2, Readers: 1, Buffer: 1, Matcher: "colon", DelaySeed: 9},
			Extract: []KPiece{{Kind: "line"}, {Kind: "lit", Text: "="}, {Kind: "group", Idx: 1}},
			Sources: []Source{{Name: "<stdin>", Stream: hex.EncodeToString(st), Script: []Step{{Want: 3}, {Want: 3, Wait: 300}, {Want: 4}, {Want: 2, Wait: 300}, {Want: 5}}}}}
	}
	return ins
}

var c02Regexes = []string{
	`(\w+)=(\d+)?`,
	`(?P<key>[a-z]+):(?P<val>\d+)`,
	`(a|(b))c`,
	`(x)?(y)?z`,
	`^(\S+) (\S+)`,
	`((a+)(b+))+`,
	`(?P<first>\w)\w*(?P<last>\w)`,
	`b*`,
	// nothing but literal characters and capture groups (a regexp whose literal prefix is "complete")
	`(ab)`,
	`(?P<key>a)(b)c`,
	`x=(1)`,
	`%`,
}
var c02Alpha = []byte("aabbcxyz  :=019\t-\xc3\xa9%%")

// GenC02 aims at match fields: regex matchers with optional/nested/alternated/named groups.
func GenC02(r *Rng, n int, tier string) []PipeIn {
	var ins []PipeIn
	for len(ins) < n {
		cfg := genCfg(r)
		cfg.Matcher = "re:" + Pick(r, c02Regexes)
		if r.Chance(1, 8) {
			cfg.Matcher = Pick(r, []string{"always", "default", "default"})
		} else if r.Chance(1, 5) {
			cfg.Matcher = Pick(r, []string{"dissect:%{a} %{b}", "dissect:k=%{v};", "dissect:%{a}:%{b}:%{c}", "dissecti:k=%{v};", "dissecti:ID=%{id} user=%{u};", "dissecti:ID=%{id} user=%{u};",
				// literals that overlap themselves: a partial occurrence right before the real one (===> / :::1 / aab) must not hide it
				"dissecti:%{task}==>%{state}", "dissecti:%{h}::1 %{rest}", "dissect:%{task}==>%{state}", "dissecti:%{x}aab%{y}",
				// key names with upper-case letters: --ignore-case folds the literals, never the names
				"dissecti:ID=%{Id} user=%{userName};", "dissecti:ID=%{Id} user=%{userName};", "dissect:%{Method} %{Path}"})
		}
		cfg.HoldAll = true
		in := PipeIn{Cfg: cfg}
		in.Extract = []KPiece{{Kind: "src"}, {Kind: "lit", Text: "|"}, {Kind: "line"}, {Kind: "lit", Text: "|"}, {Kind: "group", Idx: 0},
			{Kind: "lit", Text: "|"}, {Kind: "group", Idx: 1}, {Kind: "lit", Text: "|"}, {Kind: "group", Idx: 2}, {Kind: "lit", Text: "|"},
			{Kind: "group", Idx: 3}, {Kind: "lit", Text: "|"}, {Kind: "group", Idx: 9}, {Kind: "lit", Text: "|"}, {Kind: "arr"}}
		switch r.Intn(3) {
		case 0:
			in.Extract = append(in.Extract, KPiece{Kind: "lit", Text: "|"}, KPiece{Kind: "name", Text: "key"}, KPiece{Kind: "name", Text: "last"})
		case 1:
			in.Extract = append(in.Extract, KPiece{Kind: "lit", Text: "|"}, KPiece{Kind: "name", Text: "nosuch"})
		}
		// the matcher's own group names, exactly as written in the pattern, and a wrong-case spelling (never a key)
		if _, names, err := Oracle(cfg.Matcher); err == nil && len(names) > 0 && r.Chance(2, 3) {
			var ns []string
			for n := range names {
				ns = append(ns, n)
			}
			sort.Strings(ns)
			for _, n := range ns {
				in.Extract = append(in.Extract, KPiece{Kind: "lit", Text: "|"}, KPiece{Kind: "name", Text: n})
			}
			if w := strings.ToLower(ns[0]); w != ns[0] {
				in.Extract = append(in.Extract, KPiece{Kind: "lit", Text: "|"}, KPiece{Kind: "name", Text: w})
			}
		}
		mk := func() []byte {
			n := r.Intn(14)
			b := make([]byte, n)
			for i := range b {
				b[i] = c02Alpha[r.Intn(len(c02Alpha))]
			}
			return b
		}
		if strings.HasPrefix(cfg.Matcher, "dissecti:") {
			// lines for the ignore-case dissect patterns: the literals in random ASCII case, surrounded by
			// runes whose Unicode lower-casing changes their byte length or that fold onto ASCII letters
			// (Kelvin sign, dotted capital I, long s), invalid UTF-8 and ordinary text
			pieces := []string{"ID=", "id=", "Id=", " user=", " USER=", " uSeR=", ";", "k=", "K=", "\xe2\x84\xaa", "\xc4\xb0", "\xc5\xbf", "\xff", "\xc3\xa9",
				"5", "Bob", " ", "x", "\xe2\x84\xaa=", "\xc5\xbfer=", "ID", "user"}
			mk = func() []byte {
				var b []byte
				for i, n := 0, r.Intn(9); i < n; i++ {
					b = append(b, pieces[r.Intn(len(pieces))]...)
				}
				return b
			}
		}
		if strings.Contains(cfg.Matcher, "==>") || strings.Contains(cfg.Matcher, "::1") || strings.Contains(cfg.Matcher, "aab") {
			pieces := []string{"=", "==", "==>", "===>", "=>", " ", "link", "done", "warn", ":", "::", "::1", ":::1", " ", "1", "a", "aa", "aab", "AAB", "aAab", "b", "=>=", "==>>"}
			mk = func() []byte {
				var b []byte
				for i, n := 0, r.Intn(8); i < n; i++ {
					b = append(b, pieces[r.Intn(len(pieces))]...)
				}
				return b
			}
		}
		maxLines := 25
		if r.Chance(1, 10) {
			maxLines = 200
		}
		if r.Chance(1, 3) {
			in.Cfg.Mode = "reader"
			stream := genStream(r, r.Intn(maxLines+1), mk)
			in.Sources = []Source{{Name: "<stdin>", Stream: hex.EncodeToString(stream), Script: genScript(r, stream)}}
		} else {
			in.Cfg.Mode = "files"
			in.Cfg.Cli = true // default `rare filter` output of the real command, without and with colour
			in.Cfg.Gunzip = r.Chance(1, 5)
			ns := 1 + r.Intn(4)
			for i := 0; i < ns; i++ {
				in.Sources = append(in.Sources, Source{Name: fmt.Sprintf("in%d.txt", i), Stream: hex.EncodeToString(genStream(r, r.Intn(maxLines+1), mk)), Gz: in.Cfg.Gunzip && r.Bool()})
			}
		}
		ins = append(ins, in)
	}
	if len(ins) > 6 {
		// one line of 1.2 MiB between short ones: its text, number and groups, and the numbers of the lines after it
		long := append([]byte("a=1\nkey=12 "), bytes.Repeat([]byte("z"), 1200000)...)
		long = append(long, []byte("\nb=2\nc=3")...)
		ins[5] = PipeIn{Cfg: Config{Mode: "files", Batch: 1000, Workers: 2, Readers: 1, Buffer: 1, Matcher: "re:" + c02Regexes[0], DelaySeed: 17, HoldAll: true, Cli: true},
			Extract: []KPiece{{Kind: "src"}, {Kind: "lit", Text: "|"}, {Kind: "line"}, {Kind: "lit", Text: "|"}, {Kind: "group", Idx: 1}, {Kind: "lit", Text: "|"}, {Kind: "group", Idx: 2}},
			Sources: []Source{{Name: "long.txt", Stream: hex.EncodeToString(long)}}}
	}
	if len(ins) > 2 {
		ins[1] = alignedCase("re:"+c02Regexes[0], []KPiece{{Kind: "line"}, {Kind: "lit", Text: "|"}, {Kind: "group", Idx: 1}, {Kind: "lit", Text: "|"}, {Kind: "group", Idx: 2}}, func(c byte) []byte {
			return append(bytes.Repeat([]byte{c}, 120), []byte("=123456\n")...)
		})
		ins[1].Cfg.HoldAll = true
	}
	if len(ins) > 3 { // a dissect matcher (pooled index slices, one instance per worker) under many workers and small batches
		var b []byte
		for i := 0; i < 1400; i++ {
			b = append(b, []byte(fmt.Sprintf("w%d v%d\n", i%7, i))...)
		}
		ins[2] = PipeIn{Cfg: Config{Mode: "files", Batch: 5, Workers: 8, Readers: 1, Buffer: 4, Matcher: "dissect:%{a} %{b}", DelaySeed: 5, HoldAll: true},
			Extract: []KPiece{{Kind: "name", Text: "a"}, {Kind: "lit", Text: "|"}, {Kind: "group", Idx: 2}},
			Sources: []Source{{Name: "many.log", Stream: hex.EncodeToString(b)}}}
	}
	if len(ins) > 8 { // one worker producing more than 5 x 1024 dissect results, every match held until the end (pooled index blocks must never be reused)
		var b []byte
		for i := 0; i < 5300; i++ {
			b = append(b, []byte(fmt.Sprintf("%d %d\n", i%10, i))...)
		}
		ins[7] = PipeIn{ProjectLines: 300, Cfg: Config{Mode: "files", Batch: 1000, Workers: 1, Readers: 1, Buffer: 1, Matcher: "dissect:%{a} %{b}", DelaySeed: 19, HoldAll: true},
			Extract: []KPiece{{Kind: "group", Idx: 2}},
			Sources: []Source{{Name: "held.log", Stream: hex.EncodeToString(b)}}}
	}
	if len(ins) > 1 { // time-flush path: line numbers across timer-forced batches
		st := []byte("k=1\nq=\nzz=22\nw=3\nlast=9")
		ins[0] = PipeIn{Cfg: Config{Mode: "reader", Batch: 1000, Workers: 1, Readers: 1, Buffer: 1, Matcher: "re:" + c02Regexes[0], DelaySeed: 3, HoldAll: true},
			Extract: []KPiece{{Kind: "line"}, {Kind: "lit", Text: ":"}, {Kind: "group", Idx: 1}, {Kind: "lit", Text: ":"}, {Kind: "group", Idx: 2}},
			Sources: []Source{{Name: "<stdin>", Stream: hex.EncodeToString(st), Script: []Step{{Want: 4}, {Want: 3, Wait: 300}, {Want: 6}, {Want: 4, Wait: 300}, {Want: 8}}}}}
	}
	return ins
}

// alignedCase: a file whose lines are 128 bytes long, so that a line ends exactly on the last byte of the
// 128 KiB read-ahead buffer and more input follows (the boundary where a read buffer could be reused).
func alignedCase(matcher string, extract []KPiece, line func(c byte) []byte) PipeIn {
	var b []byte
	for i := 0; i < 1024; i++ {
		b = append(b, line('a')...)
	}
	for i := 0; i < 700; i++ {
		b = append(b, line('c')...)
	}
	return PipeIn{Cfg: Config{Mode: "files", Batch: 1000, Workers: 2, Readers: 1, Buffer: 2, Matcher: matcher, DelaySeed: 11},
		Extract: extract, Sources: []Source{{Name: "aligned.log", Stream: hex.EncodeToString(b)}}}
}

const Header = "From Coq Require Import List NArith ZArith String.\nFrom RareV Require Import Base.Hex Model.Extract Corr.PipeCase.\nImport ListNotations.\nOpen Scope N_scope. Open Scope string_scope.\n"
