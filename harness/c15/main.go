package main

// C15: pkg/followreader (notify and poll) on real temporary files under $VERIF_WORK, driven by generated
// writer histories with seeded timing.  One merged log per case: the writer logs an operation BEFORE it
// performs it, the reader logs a chunk AFTER Read returned it; Coq replays the log on the specification
// automaton of Model/Follow.v (spec_run) and compares the delivered stream / the way the stream ended with
// the functional projection of the model.

import (
	"encoding/hex"
	"encoding/json"
	"fmt"
	"io"
	"os"
	"path/filepath"
	"strconv"
	"sync"
	"sync/atomic"
	"time"

	"rare/pkg/extractor"
	"rare/pkg/extractor/batchers"
	"rare/pkg/followreader"
	. "verifh/lib"
)

type c15Op struct {
	Name   string `json:"name,omitempty"` // op sibling: the other directory entry, relative to the followed file's directory
	Op     string `json:"op"` // sibling (Data = make-remove | write | rename | dir; another entry of the directory, never the followed path) | append | remove | create | pause (append Data, then the consumer stays outside Read once it has delivered everything) | resume
	Data   string `json:"data_hex,omitempty"`
	WaitUs int    `json:"wait_us"` // sleep before the operation
	Sync   bool   `json:"sync"`    // wait until everything written so far was delivered, before the operation
}
type c15In struct {
	Poll     bool    `json:"poll"`
	Reopen   bool    `json:"reopen"`
	Tail     bool    `json:"tail"`
	C0       *string `json:"c0_hex"` // content of the file when the reader is created; null = no file
	Buf      int     `json:"buf"`
	Attempts int     `json:"read_attempts"`
	Script   []c15Op `json:"script"`
	Class    string  `json:"class"`
	RemoveKind string `json:"remove_kind,omitempty"` // symlinked name (symfile | symfar | symchain): "" / target = remove (re-create) the file the link points to; link = remove the link (re-create: a new file and a new link to it)
	PathForm string  `json:"path_form,omitempty"` // how the followed path is spelled (the writer always uses the plain absolute path): "" | clean | dot | dslash | updown | relative | dotrel | symdir
	Batch    int     `json:"batch,omitempty"` // via batcher: batch size (0 = 1: every line is a full batch; larger: partial batches leave on the 250 ms flush)
	Via      string  `json:"via,omitempty"` // "" = followreader.New directly; "batcher" = batchers.TailFilesToChan (batch size 1)
}
type c15Ent struct {
	K int    `json:"k"` // 0 append 1 remove 2 create 3 data 4 eof 5 sibling activity
	D string `json:"d,omitempty"`
}
type c15Out struct {
	Delivered string   `json:"delivered_hex"`
	Term      int      `json:"term"` // 0 blocked at the end, 1 EOF, 2 other (error, stall, runaway)
	Log       []c15Ent `json:"log"`
	Nudges    int      `json:"nudges"`
	Note      string   `json:"note,omitempty"`
}

var caseSeq int64

func workDir() string {
	d := os.Getenv("VERIF_WORK")
	if d == "" {
		d = os.TempDir()
	}
	d = filepath.Join(d, fmt.Sprintf("c15files-%d", os.Getpid()))
	os.MkdirAll(d, 0o755)
	return d
}

type runner struct {
	mu        sync.Mutex
	log       []c15Ent
	delivered []byte
	written   int // bytes the reader has to deliver (after the start position)
	ended     bool
	term      int
	note      string
}

func (r *runner) drained() bool {
	r.mu.Lock()
	defer r.mu.Unlock()
	return len(r.delivered) >= r.written || r.ended
}

const stallLimit = 2500 * time.Millisecond

// followPath spells the name handed to followreader.New / TailFilesToChan.  All forms denote the same file.
func followPath(dir, form string, writer *string) (string, error) {
	const name = "followed.log"
	switch form {
	case "", "clean":
		return dir + "/" + name, nil
	case "dot":
		return dir + "/./" + name, nil
	case "dslash":
		return dir + "//" + name, nil
	case "updown":
		if err := os.MkdirAll(filepath.Join(dir, "sub"), 0o755); err != nil {
			return "", err
		}
		return dir + "/sub/../" + name, nil
	case "relative", "dotrel":
		cwd, err := os.Getwd()
		if err != nil {
			return "", err
		}
		rel, err := filepath.Rel(cwd, filepath.Join(dir, name))
		if err != nil {
			return "", err
		}
		if form == "dotrel" {
			return "./" + rel, nil
		}
		return rel, nil
	case "symfile", "symfar", "symchain": // the followed NAME is a symbolic link to the file (same directory / another directory / two links)
		target := filepath.Join(dir, "target.log")
		if form != "symfile" {
			if err := os.MkdirAll(filepath.Join(dir, "elsewhere"), 0o755); err != nil {
				return "", err
			}
			target = filepath.Join(dir, "elsewhere", "target.log")
		}
		first := target
		if form == "symchain" {
			first = filepath.Join(dir, "hop.log")
			if err := os.Symlink(target, first); err != nil {
				return "", err
			}
		}
		if err := os.Symlink(first, filepath.Join(dir, name)); err != nil {
			return "", err
		}
		*writer = target
		return filepath.Join(dir, name), nil
	case "symdir": // the directory is reached through a symbolic link
		realDir := filepath.Join(dir, "real")
		if err := os.MkdirAll(realDir, 0o755); err != nil {
			return "", err
		}
		if err := os.Symlink("real", filepath.Join(dir, "link")); err != nil {
			return "", err
		}
		*writer = filepath.Join(realDir, name)
		return filepath.Join(dir, "link", name), nil
	}
	return "", fmt.Errorf("unknown path form %q", form)
}

// siblingAct touches another entry of the followed file's directory (errors are ignored: it is noise).
func siblingAct(dir, action, name string) {
	p := filepath.Join(dir, name)
	write := func(q string) {
		os.MkdirAll(filepath.Dir(q), 0o755)
		if f, err := os.OpenFile(q, os.O_CREATE|os.O_APPEND|os.O_WRONLY, 0o644); err == nil {
			f.Write([]byte("sibling\n"))
			f.Close()
		}
	}
	switch action {
	case "write":
		write(p)
	case "make-remove":
		write(p)
		os.Remove(p)
	case "rename":
		write(p)
		q := filepath.Join(filepath.Dir(p), "moved-"+filepath.Base(p))
		os.Rename(p, q)
		os.Remove(q)
	case "dir":
		os.MkdirAll(p, 0o755)
		write(filepath.Join(p, "followed.log"))
		os.RemoveAll(p)
	}
}

// names related to the followed name "followed.log": it is a proper suffix / prefix of them, or they are the same
// name one level down
var siblingNames = []string{"old-followed.log", "xfollowed.log", "followed.log.1", "followed.log~", "followed",
	"sibdir/followed.log", "followed.log.d"}

var pathForms = []string{"clean", "dot", "dslash", "updown", "relative", "dotrel", "symdir", "symfile", "symfar", "symchain"}

func isSymName(form string) bool { return form == "symfile" || form == "symfar" || form == "symchain" }

func c15Run(in c15In) (out c15Out) {
	dir := filepath.Join(workDir(), fmt.Sprintf("case%d", atomic.AddInt64(&caseSeq, 1)))
	os.MkdirAll(dir, 0o755)
	defer os.RemoveAll(dir)
	path := filepath.Join(dir, "followed.log") // the writer's name of the file
	follow, ferr := followPath(dir, in.PathForm, &path)
	if ferr != nil {
		return c15Out{Term: 2, Note: "setup: " + ferr.Error()}
	}
	sibDir := filepath.Dir(path) // siblings live next to the followed NAME
	linkRemoval := isSymName(in.PathForm) && in.RemoveKind == "link"
	if isSymName(in.PathForm) {
		sibDir = dir
	}
	incarnation := 0
	if in.C0 != nil {
		b, _ := hex.DecodeString(*in.C0)
		if err := os.WriteFile(path, b, 0o644); err != nil {
			return c15Out{Term: 2, Note: "setup: " + err.Error()}
		}
	}
	R := &runner{}
	if in.C0 != nil && !in.Tail {
		R.written = len(*in.C0) / 2
	}
	done := make(chan struct{})
	var stop, pauseReq int32
	parkedCh := make(chan struct{}, 1)
	resumeCh := make(chan struct{}, 1)
	var fr followreader.FollowReader
	var pr *followreader.PollingFollowReader
	if in.Via == "batcher" {
		// the glue of pkg/extractor/batchers/tailBatcher.go: New, Drain iff tail, line scanner, batches of one line
		names := make(chan string, 1)
		names <- follow
		close(names)
		bsz := in.Batch
		if bsz <= 0 {
			bsz = 1
		}
		b := batchers.TailFilesToChan(names, bsz, 4, in.Reopen, in.Poll, in.Tail)
		t0 := time.Now()
		for b.ActiveFileCount() == 0 && b.ReadErrors() == 0 && time.Since(t0) < stallLimit {
			time.Sleep(100 * time.Microsecond)
		}
		if b.ActiveFileCount() == 0 {
			return c15Out{Term: 2, Note: "TailFilesToChan: the file was not opened"}
		}
		go func() {
			defer close(done)
			// The consumer is a little behind and HOLDS every batch it received (as the extractor workers do while
			// they process it): the lines are logged when received, the delivered stream is what the held batches
			// contain at the very end.
			var held [][]extractor.BString
			for batch := range b.BatchChan() {
				held = append(held, batch.Batch)
				R.mu.Lock()
				var whole []byte
				for _, line := range batch.Batch {
					l := append(append([]byte(nil), line...), '\n')
					if bsz == 1 {
						R.log = append(R.log, c15Ent{3, hex.EncodeToString(l)})
					}
					whole = append(whole, l...)
					R.delivered = append(R.delivered, l...)
				}
				if bsz > 1 && len(whole) > 0 { // one entry per batch
					R.log = append(R.log, c15Ent{3, hex.EncodeToString(whole)})
				}
				R.mu.Unlock()
				if bsz > 1 {
					time.Sleep(2 * time.Millisecond)
				}
			}
			var final []byte
			for _, hb := range held {
				for _, line := range hb {
					final = append(append(final, line...), '\n')
				}
			}
			R.mu.Lock()
			R.delivered = final
			R.log = append(R.log, c15Ent{K: 4})
			R.ended, R.term = true, 1
			R.mu.Unlock()
		}()
	} else {
		var err error
		fr, err = followreader.New(follow, in.Reopen, in.Poll)
		if err != nil {
			return c15Out{Term: 2, Note: "New: " + err.Error()}
		}
		if p, ok := fr.(*followreader.PollingFollowReader); ok {
			pr = p
			pr.PollDelay = time.Millisecond
			if in.Attempts > 0 {
				pr.ReadAttempts = in.Attempts
			}
		}
		if in.Tail && in.C0 != nil {
			if err := fr.Drain(); err != nil {
				fr.Close()
				return c15Out{Term: 2, Note: "Drain: " + err.Error()}
			}
		}
		go func() {
			defer close(done)
			defer func() {
				if e := recover(); e != nil {
					R.mu.Lock()
					R.ended, R.term, R.note = true, 2, fmt.Sprint("panic: ", e)
					R.mu.Unlock()
				}
			}()
			buf := make([]byte, in.Buf)
			for reads := 0; ; reads++ {
				n, err := fr.Read(buf)
				if atomic.LoadInt32(&stop) != 0 {
					return
				}
				R.mu.Lock()
				if n > 0 {
					R.log = append(R.log, c15Ent{3, hex.EncodeToString(buf[:n])})
					R.delivered = append(R.delivered, buf[:n]...)
				}
				if err == io.EOF {
					R.log = append(R.log, c15Ent{K: 4})
					R.ended, R.term = true, 1
				} else if err != nil {
					R.ended, R.term, R.note = true, 2, "Read: "+err.Error()
				} else if n == 0 || reads > 100000 || len(R.delivered) > 1<<20 {
					R.ended, R.term, R.note = true, 2, "Read returned (0, nil) or runaway"
				}
				e := R.ended
				park := !e && atomic.LoadInt32(&pauseReq) == 1 && len(R.delivered) >= R.written
				R.mu.Unlock()
				if e {
					return
				}
				if park { // the consumer is outside Read until the writer says resume
					atomic.StoreInt32(&pauseReq, 2)
					parkedCh <- struct{}{}
					<-resumeCh
				}
			}
		}()
	}

	appendFile := func(b []byte) error {
		f, err := os.OpenFile(path, os.O_APPEND|os.O_WRONLY, 0o644)
		if err != nil {
			return err
		}
		_, err = f.Write(b)
		f.Close()
		return err
	}
	removes := 0
	nudges := 0
	waitDrain := func() bool {
		t0 := time.Now()
		lastNudge := t0
		for !R.drained() {
			time.Sleep(100 * time.Microsecond)
			if time.Since(t0) > stallLimit {
				return false
			}
			// notify + re-open: a re-created file is only looked at on the next write event (the select
			// takes eventWrite and eventDelete in either order); scope note of the property, not a defect.
			// The writer then appends one more byte (part of the recorded history).
			// TailFilesToChan with a real batch size: lines wait in the partial batch until a line arrives at least 250 ms
			// after the previous flush (and the consumer's lag delays that flush): the writer appends one more line
			if in.Via == "batcher" && in.Batch > 1 && nudges < 6 && time.Since(lastNudge) > 350*time.Millisecond {
				R.mu.Lock()
				R.log = append(R.log, c15Ent{0, "7e0a"})
				R.written += 2
				R.mu.Unlock()
				nudges++
				lastNudge = time.Now()
				if err := appendFile([]byte{0x7e, 0x0a}); err != nil {
					return false
				}
			}
			if !in.Poll && in.Reopen && removes > 0 && nudges < 12 && time.Since(lastNudge) > 120*time.Millisecond {
				R.mu.Lock()
				R.log = append(R.log, c15Ent{0, "7e"})
				R.written++
				R.mu.Unlock()
				nudges++
				lastNudge = time.Now()
				if err := appendFile([]byte{0x7e}); err != nil {
					return false
				}
			}
		}
		return true
	}
	fail := func(msg string) {
		R.mu.Lock()
		if R.note == "" {
			R.note = msg
		}
		if R.term == 0 {
			R.term = 2
		}
		R.mu.Unlock()
	}
	ok := true
	paused := false
	for _, op := range in.Script {
		if (op.Op == "pause" || op.Op == "resume") && in.Via != "" {
			continue
		}
		if op.WaitUs > 0 {
			time.Sleep(time.Duration(op.WaitUs) * time.Microsecond)
		}
		if (op.Sync && !paused) || op.Op == "remove" {
			if !waitDrain() {
				fail("stalled: written bytes not delivered within the limit")
				ok = false
				break
			}
		}
		var err error
		switch op.Op {
		case "append":
			b, _ := hex.DecodeString(op.Data)
			R.mu.Lock()
			R.log = append(R.log, c15Ent{0, op.Data})
			if in.Reopen || removes == 0 { // plain follow: nothing written after the removal has to be delivered
				R.written += len(b)
			}
			R.mu.Unlock()
			err = appendFile(b)
		case "remove":
			R.mu.Lock()
			if len(R.delivered) != R.written { // cannot happen after waitDrain unless bytes were duplicated
				R.mu.Unlock()
				fail("delivered more than was written")
				ok = false
				break
			}
			R.log = append(R.log, c15Ent{K: 1})
			R.mu.Unlock()
			removes++
			// "removal of the file" for a symlinked name: the name stops resolving to the file - the target is removed
			// (the link dangles) or the link itself is removed
			if linkRemoval {
				err = os.Remove(follow)
			} else {
				err = os.Remove(path)
			}
		case "pause":
			// wake a Read that is blocked, then keep the consumer outside Read: whatever the writer does until
			// "resume" is pending all at once when Read is called again (the select order is then arbitrary)
			b, _ := hex.DecodeString(op.Data)
			if len(b) > 0 {
				R.mu.Lock()
				R.log = append(R.log, c15Ent{0, op.Data})
				if in.Reopen || removes == 0 { // plain follow: nothing written after the removal has to be delivered
					R.written += len(b)
				}
				R.mu.Unlock()
			}
			atomic.StoreInt32(&pauseReq, 1)
			if len(b) > 0 {
				err = appendFile(b)
			}
			if paused { // already outside Read: let the consumer read what has piled up, it parks again once drained -
				// the notifications of everything it has just read are still waiting
				paused = false
				resumeCh <- struct{}{}
			}
			if err == nil {
				select {
				case <-parkedCh:
					paused = true
				case <-done:
				case <-time.After(stallLimit):
					fail("stalled: the consumer did not drain before the pause")
					ok = false
				}
			}
		case "resume":
			if paused {
				paused = false
				atomic.StoreInt32(&pauseReq, 0)
				resumeCh <- struct{}{}
			}
		case "sibling":
			R.mu.Lock()
			R.log = append(R.log, c15Ent{K: 5})
			R.mu.Unlock()
			siblingAct(sibDir, op.Data, op.Name)
		case "create":
			R.mu.Lock()
			R.log = append(R.log, c15Ent{K: 2})
			R.mu.Unlock()
			if linkRemoval { // a new file under a new name, and a new link to it
				incarnation++
				path = fmt.Sprintf("%s.%d", path, incarnation)
			}
			var f *os.File
			f, err = os.OpenFile(path, os.O_CREATE|os.O_EXCL|os.O_WRONLY, 0o644)
			if err == nil {
				f.Close()
				if linkRemoval {
					os.Remove(follow) // a dangling link left from the start (file missing at start)
					err = os.Symlink(path, follow)
				}
			}
		}
		if err != nil {
			fail("writer: " + err.Error())
			ok = false
		}
		if !ok {
			break
		}
	}
	if paused {
		paused = false
		atomic.StoreInt32(&pauseReq, 0)
		resumeCh <- struct{}{}
	}
	if ok && !waitDrain() {
		fail("stalled: written bytes not delivered within the limit")
		ok = false
	}
	expectEOF := !in.Reopen && removes > 0
	if ok && expectEOF {
		eofLimit := stallLimit
		if in.Via == "batcher" && in.Poll { // PollDelay cannot be shortened through TailFilesToChan: 5 x 250 ms before the Stat
			eofLimit = 2 * stallLimit
		}
		select {
		case <-done:
		case <-time.After(eofLimit):
			fail("no EOF after the removal within the limit")
		}
	} else if ok {
		// the reader has to stay blocked: nothing more may arrive and the stream may not end
		grace := 15 * time.Millisecond
		if in.Poll {
			grace = 30 * time.Millisecond
		}
		select {
		case <-done:
		case <-time.After(grace):
		}
	}
	atomic.StoreInt32(&stop, 1)
	R.mu.Lock()
	out = c15Out{Delivered: hex.EncodeToString(R.delivered), Term: R.term, Log: append([]c15Ent(nil), R.log...), Nudges: nudges, Note: R.note}
	R.mu.Unlock()
	if pr != nil {
		pr.PollDelay = time.Hour // a Read still inside its loop goes to sleep for good
	}
	if fr != nil {
		fr.Close()
	}
	return out
}

// entCoq prints log entries; an entry of more than 2000 bytes is printed as consecutive entries of the same kind
// (appending / delivering a string in pieces is the same for the specification; Coq cannot parse huge literals)
func entCoq(es []c15Ent) string {
	var ps []string
	for _, e := range es {
		for _, piece := range hexPieces(e.D) {
			ps = append(ps, fmt.Sprintf("(%d,\"%s\")", e.K, piece))
		}
	}
	return CoqList(ps)
}
func hexPieces(h string) []string {
	if len(h) <= 4000 {
		return []string{h}
	}
	var out []string
	for len(h) > 0 {
		k := len(h)
		if k > 4000 {
			k = 4000
		}
		out = append(out, h[:k])
		h = h[k:]
	}
	return out
}

// record k of the batcher-big cases: 64 bytes, numbered
func bigRecord(k int) []byte {
	sb := []byte(fmt.Sprintf("%08d:", k))
	for j := 0; j < 54; j++ {
		sb = append(sb, byte('a'+(k+j)%26))
	}
	return append(sb, '\n')
}

// recode shortens the streams of the batcher-big cases for the Coq side: every 64-byte piece that is exactly record k
// becomes the 4 bytes ff k2 k1 k0, anything else stays as it is.  The same injective recoding is applied to what was
// written and to what was delivered (the file contains ASCII only, so ff marks a token), equality and the prefix
// relation between the two are preserved in both directions.
func recode(h string) string {
	b, err := hex.DecodeString(h)
	if err != nil {
		return h
	}
	var out []byte
	for len(b) > 0 {
		n := 64
		if len(b) < n {
			n = len(b)
		}
		piece := b[:n]
		b = b[n:]
		k := -1
		if n == 64 {
			if v, err := strconv.Atoi(string(piece[:8])); err == nil && v >= 0 && v < 1<<24 && string(bigRecord(v)) == string(piece) {
				k = v
			}
		}
		if k >= 0 {
			out = append(out, 0xff, byte(k>>16), byte(k>>8), byte(k))
		} else {
			out = append(out, piece...)
		}
	}
	return hex.EncodeToString(out)
}

func c15Case(in c15In) Case {
	out := c15Run(in)
	raw := out
	if in.Class == "batcher-big" { // Coq sees the recoded streams; the JSON description keeps the real bytes (shortened)
		rc := c15Out{Delivered: recode(out.Delivered), Term: out.Term, Nudges: out.Nudges, Note: out.Note}
		for _, e := range out.Log {
			rc.Log = append(rc.Log, c15Ent{e.K, recode(e.D)})
		}
		out = rc
		if in.C0 != nil {
			c := recode(*in.C0)
			in2 := in
			in2.C0 = &c
			return c15CaseOf(in, in2, out, raw)
		}
	}
	return c15CaseOf(in, in, out, raw)
}

// in: the real input (description, replay); cin/out: what is printed for Coq; raw: the real output
func c15CaseOf(orig, in c15In, out, raw c15Out) Case {
	var hist []c15Ent
	removes, creates, appends := 0, 0, 0
	for _, e := range out.Log {
		if e.K <= 2 || e.K == 5 {
			hist = append(hist, e)
		}
		switch e.K {
		case 0:
			appends++
		case 1:
			removes++
		case 2:
			creates++
		}
	}
	has0, c0 := "false", ""
	if in.C0 != nil {
		has0, c0 = "true", *in.C0
	}
	coq := fmt.Sprintf("c %s %s %s %s \"%s\" %s \"%s\" %d %s", B(in.Poll), B(in.Reopen), B(in.Tail), has0, c0,
		entCoq(hist), out.Delivered, out.Term, entCoq(out.Log))
	if len(out.Delivered) > 4000 { // the delivered stream in pieces
		qs := hexPieces(out.Delivered)
		for i := range qs {
			qs[i] = "\"" + qs[i] + "\""
		}
		coq = fmt.Sprintf("cL %s %s %s %s \"%s\" %s %s %d %s", B(in.Poll), B(in.Reopen), B(in.Tail), has0, c0,
			entCoq(hist), CoqList(qs), out.Term, entCoq(out.Log))
	}
	mode := "notify"
	if in.Poll {
		mode = "poll"
	}
	pf := in.PathForm
	if pf == "" {
		pf = "clean"
	}
	tags := []string{"mode:" + mode, "class:" + in.Class, "path:" + pf}
	for _, op := range in.Script {
		if op.Op == "sibling" {
			tags = append(tags, "siblings")
			break
		}
	}
	if in.Via != "" {
		tags = append(tags, "via:"+in.Via)
	}
	if in.Reopen {
		tags = append(tags, "reopen")
	}
	if in.Tail {
		tags = append(tags, "tail")
	}
	if removes > 0 {
		tags = append(tags, "removal")
	}
	if creates > 0 {
		tags = append(tags, "re-created")
	}
	if out.Nudges > 0 {
		tags = append(tags, "nudged")
	}
	if out.Term == 1 {
		tags = append(tags, "ended-EOF")
	}
	// domain of the recorded defect, decided from the input alone: notify + re-open and the removal of a file
	// the reader need not have open, i.e. one created by the script that never received a byte (a file with
	// delivered content, and the file present at New, are open; C15_prefix_asfound_partial covers those)
	inDomain := false
	initial, bytesIn := in.C0 != nil, 0
	for _, op := range in.Script {
		switch op.Op {
		case "create":
			initial, bytesIn = false, 0
		case "append", "pause":
			bytesIn += len(op.Data) / 2
		case "remove":
			if !initial && bytesIn == 0 {
				inDomain = true
			}
		}
	}
	if !in.Poll && in.Reopen && inDomain {
		tags = append(tags, "kf:C15-notify-stale-delete")
	}
	if isSymName(in.PathForm) { // (inotify mode: the input class of the fixed finding C15-notify-symlink)
		tags = append(tags, "symlinked-name")
	}
	for _, op := range in.Script {
		if op.Op == "pause" {
			tags = append(tags, "consumer-paused")
			break
		}
	}
	// plain follow and the path is re-created after the removal
	seenRemove, recreated := false, false
	for _, op := range in.Script {
		if op.Op == "remove" {
			seenRemove = true
		} else if op.Op == "create" && seenRemove {
			recreated = true
		}
	}
	if !in.Reopen && recreated {
		tags = append(tags, "plain-recreated") // (polling: the input class of the fixed finding C15-poll-plain-recreate)
	}
	kb, _ := json.Marshal(orig)
	return Case{
		Coq:        coq,
		Desc:       map[string]any{"input": orig, "output": raw},
		Key:        string(kb),
		Nontrivial: appends >= 2 || removes > 0,
		Tags:       tags,
	}
}

// ---------------------------------------------------------------- generators

type gen struct {
	r    *Rng
	next byte
}

func (g *gen) data(n int) string {
	b := make([]byte, n)
	for i := range b {
		b[i] = 'a' + g.next%26
		if g.next%26 == 25 && g.r.Chance(1, 2) {
			b[i] = '\n'
		}
		g.next++
	}
	return hex.EncodeToString(b)
}
func (g *gen) wait() int {
	return Pick(g.r, []int{0, 0, 0, 20, 80, 300, 1000, 2500})
}

// plain follow, after the removal: the path is re-created (at once, or after 1..50 ms; empty, or with content).
// The stream has to end all the same and nothing of the new file is delivered.
func (g *gen) recreate(in *c15In) {
	r := g.r
	if in.Reopen || r.Chance(1, 4) {
		return
	}
	in.Script = append(in.Script, c15Op{Op: "create", WaitUs: Pick(r, []int{0, 0, 0, 1000, 5000, 20000, 50000})})
	if r.Chance(1, 2) {
		in.Script = append(in.Script, c15Op{Op: "append", Data: g.data(r.Range(1, 9)), WaitUs: Pick(r, []int{0, 0, 300, 3000})})
	}
}

// one case of a class; budget = number of writer operations
func (g *gen) mk(class string, poll, reopen, tail bool, budget int) c15In {
	r := g.r
	in := c15In{Poll: poll, Reopen: reopen, Tail: tail, Class: class,
		Buf: Pick(r, []int{1, 2, 3, 7, 64, 4096}), Attempts: Pick(r, []int{1, 2, 5})}
	size := 0 // absolute size of the file at the path
	if class == "missing-at-start" {
		in.C0 = nil
	} else {
		n := r.Range(0, 12)
		if class == "batcher-big" {
			n = 0
		}
		if class == "rotate" || class == "double-rotate" || class == "paused-rotate" || class == "lagging-burst" {
			n = r.Range(2, 12)
		}
		s := g.data(n)
		in.C0 = &s
		size = n
	}
	add := func(op c15Op) { in.Script = append(in.Script, op) }
	app := func(n int, sync bool) {
		add(c15Op{Op: "append", Data: g.data(n), WaitUs: g.wait(), Sync: sync})
		size += n
	}
	switch class {
	case "in-place":
		for i := 0; i < budget; i++ {
			app(r.Range(1, 9), r.Chance(1, 5))
		}
	case "burst": // back-to-back appends, no waiting: coalesced events, reads racing with writes
		for i := 0; i < budget; i++ {
			add(c15Op{Op: "append", Data: g.data(r.Range(1, 40))})
		}
	case "batcher": // through TailFilesToChan: newline-terminated appends, removal at the end (the stream has to end)
		in.Via = "batcher"
		ls := g.data(r.Range(0, 10)) + "0a"
		in.C0 = &ls
		for i := 0; i < budget%8+1; i++ {
			add(c15Op{Op: "append", Data: g.data(r.Range(0, 9)) + "0a", WaitUs: g.wait(), Sync: r.Chance(1, 4)})
		}
		add(c15Op{Op: "remove", WaitUs: g.wait()})
	case "batcher-big": // TailFilesToChan, 64-byte numbered records; the bytes read reach the end of the 128 KiB read-ahead
		// buffer exactly at a record boundary (2048 records) while earlier lines are still held by the consumer
		in.Via, in.Batch = "batcher", 64
		rec := func(from, to int) string {
			var sb []byte
			for k := from; k < to; k++ {
				sb = append(sb, bigRecord(k)...)
			}
			return hex.EncodeToString(sb)
		}
		first := r.Range(1, 8)
		ls := rec(0, first)
		in.C0 = &ls
		const total = 2148 // 2048 records fill the buffer, 100 more follow
		cuts := []int{first, first + r.Range(300, 900), first + r.Range(1000, 1700), total}
		for k := 0; k+1 < len(cuts); k++ {
			add(c15Op{Op: "append", Data: rec(cuts[k], cuts[k+1]), WaitUs: Pick(r, []int{0, 0, 300, 2500})})
		}
		// exactly one more record after the flush timeout: it takes everything held so far with it
		add(c15Op{Op: "append", Data: rec(total, total+1), WaitUs: r.Range(300000, 400000)})
		add(c15Op{Op: "remove", WaitUs: g.wait()})
	case "batcher-burst": // TailFilesToChan with a real batch size: a partial batch leaves on the 250 ms flush (it is
		// triggered by the first line of the burst), the rest of the burst is scanned right behind it
		in.Via, in.Batch = "batcher", 64
		ls := g.data(r.Range(0, 10)) + "0a"
		in.C0 = &ls
		lines := func(k int) string {
			d := ""
			for ; k > 0; k-- {
				d += g.data(r.Range(1, 8)) + "0a"
			}
			return d
		}
		for round := r.Range(2, 3); round > 0; round-- {
			add(c15Op{Op: "append", Data: lines(r.Range(1, 3)), WaitUs: g.wait()})
			add(c15Op{Op: "append", Data: lines(r.Range(2, 6)), WaitUs: r.Range(300000, 400000)})
		}
		// exactly one line: it is the one that triggers the timed flush of everything held so far
		add(c15Op{Op: "append", Data: hex.EncodeToString([]byte{'e', 'n', 'd', byte('0' + r.Intn(10)), '\n'}), WaitUs: r.Range(300000, 400000)})
		add(c15Op{Op: "remove", WaitUs: g.wait()})
	case "remove-at-end":
		for i := 0; i < budget-1; i++ {
			app(r.Range(1, 9), r.Chance(1, 5))
		}
		add(c15Op{Op: "remove", WaitUs: g.wait()})
		g.recreate(&in)
	case "missing-at-start":
		add(c15Op{Op: "create", WaitUs: g.wait()})
		for i := 0; i < budget-1; i++ {
			app(r.Range(1, 9), r.Chance(1, 5))
		}
	case "paused-rotate": // the consumer is outside Read while the writer removes (after drain), re-creates and
		// writes: delete, create and write notifications are all pending when Read is called again
		rounds := 4
		if !reopen {
			rounds = 1
		}
		for round := 0; round < rounds; round++ {
			if r.Chance(1, 2) {
				app(r.Range(1, 6), false)
			}
			n := r.Range(1, 3)
			if size+n < 2 {
				n = 2
			}
			add(c15Op{Op: "pause", Data: g.data(n), WaitUs: g.wait()})
			size += n
			prev := size
			add(c15Op{Op: "remove", WaitUs: Pick(r, []int{0, 0, 50, 300})})
			if !reopen { // plain follow: the stream has to end when reading resumes, also when the path exists again by then
				g.recreate(&in)
				add(c15Op{Op: "resume", WaitUs: Pick(r, []int{200, 1000, 3000})})
				break
			}
			add(c15Op{Op: "create", WaitUs: Pick(r, []int{0, 0, 50})})
			size = 0
			first := r.Range(1, 6)
			if poll && first >= prev {
				first = prev - 1
			}
			add(c15Op{Op: "append", Data: g.data(first), WaitUs: Pick(r, []int{0, 0, 50})})
			size += first
			add(c15Op{Op: "resume", WaitUs: Pick(r, []int{300, 1000, 2000, 4000})}) // time for the watcher goroutine to forward everything
			app(r.Range(1, 6), true)
		}
	case "lagging-burst": // burst-then-remove behind a lagging consumer: 20-40 separate small appends while the consumer is
		// outside Read (one notification each piles up), ONE big Read delivers them all, the consumer stays outside
		// Read, the file is removed (re-open: re-created and appended to), then the consumer resumes: the delete
		// (create / write) notification must not be lost behind the stale write notifications
		in.Buf = 4096
		if r.Chance(1, 2) {
			app(r.Range(1, 6), false)
		}
		add(c15Op{Op: "pause", Data: g.data(r.Range(1, 3)), WaitUs: g.wait()})
		size += len(in.Script[len(in.Script)-1].Data) / 2
		for k := r.Range(20, 40); k > 0; k-- {
			n := r.Range(1, 9)
			add(c15Op{Op: "append", Data: g.data(n), WaitUs: Pick(r, []int{200, 300, 500})})
			size += n
		}
		add(c15Op{Op: "pause", WaitUs: Pick(r, []int{300, 1000})}) // read the burst in one go, then stay outside Read
		prev := size
		add(c15Op{Op: "remove", WaitUs: Pick(r, []int{0, 50, 300})})
		if !reopen {
			g.recreate(&in)
			add(c15Op{Op: "resume", WaitUs: Pick(r, []int{200, 1000, 3000})})
			break
		}
		add(c15Op{Op: "create", WaitUs: Pick(r, []int{0, 0, 50})})
		size = 0
		first := r.Range(1, 6)
		if poll && first >= prev {
			first = prev - 1
		}
		add(c15Op{Op: "append", Data: g.data(first), WaitUs: Pick(r, []int{0, 0, 50})})
		size += first
		add(c15Op{Op: "resume", WaitUs: Pick(r, []int{300, 1000, 2000})})
		app(r.Range(1, 6), true)
	case "rotate": // remove after drain, re-create, continue; several times
		left := budget
		for left > 3 {
			k := r.Range(0, 3)
			for i := 0; i < k; i++ {
				app(r.Range(1, 9), r.Chance(1, 5))
			}
			if size < 2 {
				app(2, false)
			}
			prev := size
			add(c15Op{Op: "remove", WaitUs: g.wait()})
			add(c15Op{Op: "create", WaitUs: g.wait()})
			size = 0
			// polling: the new file has to be noticed while shorter than what was read from the old one
			first := r.Range(1, 6)
			if poll && first >= prev {
				first = prev - 1
			}
			app(first, false)
			if poll { // drained = noticed
				app(r.Range(1, 9), true)
			} else {
				app(r.Range(1, 9), r.Chance(1, 3))
			}
			left -= k + 5
		}
	case "double-rotate": // remove, create, remove, create faster than the events are handled / the poller looks
		for round := 0; round < 3; round++ {
			app(r.Range(1, 5), false)
			prev := size
			add(c15Op{Op: "remove", WaitUs: g.wait()})
			add(c15Op{Op: "create"})
			add(c15Op{Op: "remove", WaitUs: Pick(r, []int{0, 0, 20, 40, 80})})
			add(c15Op{Op: "create"})
			size = 0
			first := r.Range(1, 6)
			if poll && first >= prev {
				first = prev - 1
			}
			app(first, false)
			in.Script[len(in.Script)-1].WaitUs = 0
			app(r.Range(1, 6), true)
		}
	}
	return in
}

func c15Plan(r *Rng, n int, notify bool) []c15In {
	g := &gen{r: r}
	var ins []c15In
	classes := []struct {
		name         string
		poll, reopen bool
	}{
		{"in-place", false, false}, {"in-place", true, false}, {"in-place", false, true}, {"in-place", true, true},
		{"burst", false, false}, {"burst", true, true},
		{"remove-at-end", false, false}, {"remove-at-end", true, false},
		{"rotate", false, true}, {"rotate", true, true},
		{"missing-at-start", false, true}, {"missing-at-start", true, true},
		{"double-rotate", false, true}, {"double-rotate", false, true},
		{"double-rotate", true, true}, {"batcher", false, false},
		{"paused-rotate", false, true}, {"paused-rotate", false, true}, {"paused-rotate", false, true},
		{"paused-rotate", true, true}, {"paused-rotate", false, false},
		{"batcher-burst", false, false}, {"paused-rotate", true, false}, {"remove-at-end", false, false},
		{"lagging-burst", false, false}, {"lagging-burst", false, true}, {"lagging-burst", true, false}, {"lagging-burst", true, true},
	}
	formOff := r.Intn(len(pathForms))
	for i := 0; len(ins) < n; i++ {
		c := classes[i%len(classes)]
		if !notify && !c.poll {
			c.poll = true
		}
		tail := r.Chance(1, 3) && c.name != "missing-at-start"
		if c.name == "batcher-burst" {
			tail = (i/len(classes))%2 == 1
		}
		if c.name == "batcher" { // alternate, so that both branches of tailBatcher.go are taken in every run
			tail = (i/len(classes))%2 == 0
		}
		if i >= n-2 && n >= 8 { // two fixed-shape cases per run: a stream that crosses the scanner's 128 KiB buffer on a record boundary
			c.name, c.poll, c.reopen = "batcher-big", (i == n-1) || !notify, false
			tail = false
		}
		in := g.mk(c.name, c.poll, c.reopen, tail, r.Range(4, 24))
		// every class meets every spelling of the path over the cycles (and over the seeds)
		in.PathForm = pathForms[(i+i/len(classes)+formOff)%len(pathForms)]
		if in.Poll && !in.Reopen && in.Via == "" && (i/len(classes))%4 != 3 {
			// plain polling compares the path with the open file when it looks (os.Stat follows links): make sure
			// symlinked names meet this branch in every run
			in.PathForm = []string{"symfile", "symfar", "symchain"}[(i/len(classes)+i)%3]
		}
		if isSymName(in.PathForm) && r.Bool() {
			in.RemoveKind = "link"
		}
		// other entries of the directory are created / written / removed / renamed in between
		for k := r.Range(1, 5); k > 0 && len(in.Script) < 34; k-- {
			op := c15Op{Op: "sibling", Name: Pick(r, siblingNames), WaitUs: g.wait(),
				Data: Pick(r, []string{"make-remove", "make-remove", "write", "rename", "dir"})}
			at := r.Intn(len(in.Script) + 1)
			in.Script = append(in.Script[:at], append([]c15Op{op}, in.Script[at:]...)...)
		}
		ins = append(ins, in)
	}
	return ins
}

func inotifyWorks() bool {
	dir := workDir()
	p := filepath.Join(dir, "probe")
	os.WriteFile(p, nil, 0o644)
	defer os.Remove(p)
	fr, err := followreader.New(p, false, false)
	if err != nil {
		return false
	}
	fr.Close()
	return true
}

func c15Gen(r *Rng, n int, tier string) []Case {
	notify := inotifyWorks()
	ins := c15Plan(r, n, notify)
	cases := make([]Case, len(ins))
	par := 8
	sem := make(chan struct{}, par)
	var wg sync.WaitGroup
	for i := range ins {
		wg.Add(1)
		sem <- struct{}{}
		go func(i int) {
			defer wg.Done()
			defer func() { <-sem }()
			cases[i] = c15Case(ins[i])
		}(i)
	}
	wg.Wait()
	if !notify {
		for i := range cases {
			cases[i].Tags = append(cases[i].Tags, "inotify-unavailable:poll-only")
		}
	}
	os.RemoveAll(workDir())
	return cases
}

func main() {
	Main(&Prop{
		Name:   "C15",
		Header: "From Coq Require Import List NArith String.\nFrom RareV Require Import Corr.C15Case.\nImport ListNotations.\nOpen Scope N_scope. Open Scope string_scope.\n",
		Rule: "real followreader.New (notify via inotify, poll with PollDelay 1 ms and ReadAttempts in {1,2,5}) on a temporary file; seeded writer histories of 4..30 operations " +
			"(classes: in-place appends with seeded pauses 0..2.5 ms and occasional wait-for-drain; burst of back-to-back appends; removal after drain at the end (plain follow: EOF expected); " +
			"rotation = remove after drain, re-create, append (polling: first append shorter than the removed file and drained before the next); file missing at start with re-open; " +
			"every class x spelling of the followed path {clean absolute, dir/./f, dir//f, dir/sub/../f, relative to the working directory, ./relative, through a symlinked directory, the name itself a symbolic link to the file in the same directory / in another directory / through two links} (the writer uses the real name; " +
			"for a symlinked name removal = the name stops resolving to the file: the target is removed and later re-created, or the link is removed and later re-created pointing to a new file - both are generated, for notify and poll; plain polling classes get a symlinked name in three of four cycles); " +
			"1..5 operations on OTHER entries of the directory (old-followed.log, xfollowed.log, followed.log.1, followed.log~, followed, sibdir/followed.log, directory followed.log.d: create+remove, write, rename, directory with a file) inserted at random positions of every script; " +
			"plain follow: after the removal the path is re-created at once or after 1..50 ms, empty or with content (the stream has to end, nothing of the new file is delivered; notify and poll); " +
			"batcher-burst: TailFilesToChan with batch size 64, [1-3 lines, 300-400 ms, burst of 2-6 lines] x 2-3, the consumer holds every batch and re-reads all of them at the end; " +
			"batcher-big (the last two cases of every run, notify and poll): TailFilesToChan with batch size 64, 2149 numbered 64-byte records appended in three large writes + one, so that the bytes read end exactly at the end of the scanner's 128 KiB buffer on a record boundary, the consumer holds every batch and re-reads all of them at the end; for Coq both the written and the delivered stream of these two cases are recoded record-wise (64-byte record k -> ff + 3 bytes, anything else unchanged); " +
			"lagging-burst: 20-40 separate small appends 200-500 us apart while the consumer is outside Read, one Read with a 4096-byte buffer delivers them all, the consumer stays outside Read while the file is removed (re-open: re-created and appended to) and then resumes - notify plain / re-open, poll as control; " +
			"double rotation remove/create/remove/create without pauses (an empty middle file: with notify re-open the domain of finding C15-notify-stale-delete); " +
			"paused consumer: the consumer leaves Read after draining, the writer removes, re-creates and appends, the consumer resumes after 0.3..4 ms so that delete, create and write notifications are pending together and the select serves them in arbitrary order, 4 rounds per case) x {notify, poll} x {re-open, plain} x {tail, from start}, read buffer in {1,2,3,7,64,4096}. " +
			"distinct = distinct (flags, initial content, script with timing); non-trivial = at least two appends or a removal. " +
			"If inotify is not available every case runs in poll mode and is tagged inotify-unavailable:poll-only.",
		Gen: c15Gen,
		Replay: func(d json.RawMessage) (Case, error) {
			var doc struct {
				Input c15In `json:"input"`
			}
			if err := json.Unmarshal(d, &doc); err != nil {
				return Case{}, err
			}
			if doc.Input.Buf <= 0 {
				doc.Input.Buf = 64
			}
			c := c15Case(doc.Input)
			os.RemoveAll(workDir())
			return c, nil
		},
		Shard: 40,
	})
}

