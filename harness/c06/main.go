package main

// C06: named inputs are each read once, decoded faithfully, and failures are reported.
// CLI level: the `rare` binary is built from the tree under test ($VERIF_REPO, default /repo) and
// run on real temporary directory trees; the oracles of the model (os.Stat, filepath.Glob, directory
// order, compress/gzip) are filled by calling the Go library independently on the same tree.

import (
	"bytes"
	"compress/gzip"
	"encoding/csv"
	"encoding/hex"
	"encoding/json"
	"errors"
	"fmt"
	"io"
	"os"
	"os/exec"
	"path/filepath"
	"sort"
	"strconv"
	"strings"
	"sync"
	"syscall"
	"time"

	"rare/cmd/helpers"
	"rare/pkg/extractor/batchers"
	"rare/pkg/logger"

	"github.com/urfave/cli/v2"
	. "verifh/lib"
)

const kfBadPattern = "C06-bad-pattern"
const kfGunzipRewind = "C06-gunzip-rewind"

type c06Ent struct {
	Path string `json:"path"`           // relative to the tree root, '/' separated
	Dir  bool   `json:"dir,omitempty"`  // directory (else regular file)
	Fifo bool   `json:"fifo,omitempty"` // named pipe: a writer writes data_hex into it once, when somebody opens it for reading
	Data string `json:"data_hex"`       // bytes on disk
	Kind string `json:"kind,omitempty"` // how the bytes were made (plain, gz, gz-trunc, ...): documentation only
}
type c06In struct {
	Tree      []c06Ent `json:"tree"`
	Args      []string `json:"args"`
	Recursive bool     `json:"recursive"`
	Gunzip    bool     `json:"gunzip"`
	Readers   int      `json:"readers"`
	Workers   int      `json:"workers"`
	Batch     int      `json:"batch"`
	Stdin     string   `json:"stdin_hex"`
	// how standard input ends: "" = EOF after stdin_hex; "dir" = rare's stdin is a directory handle (every read
	// fails with EISDIR; stdin_hex must be empty); "reader" = library level: batchers.OpenReaderToChan("<stdin>", r)
	// + helpers.DetermineErrorState with a reader that delivers stdin_hex in chunks and then fails (mode 0 only)
	StdinFail string `json:"stdin_fail,omitempty"`
	Chunk     int    `json:"chunk,omitempty"`     // "reader": bytes per Read
	ErrWith   bool   `json:"err_with_data,omitempty"` // "reader": the error comes together with the last bytes
	NoFail    bool   `json:"no_fail,omitempty"`   // "reader": control, the reader ends with io.EOF
	Aligned   *c06Aligned `json:"aligned,omitempty"` // one large input of fixed-width numbered records (tree / stdin_hex are derived)
	Nofile    int      `json:"nofile,omitempty"` // > 0: rare runs with this descriptor limit (ulimit -n, soft and hard)
	Mode      int      `json:"mode"` // 0 filter (all lines), 1 filter -m '^.*Q.*$', 2 an aggregating command keyed by source, the line as increment
	Agg       int      `json:"agg,omitempty"` // mode 2: 0 histo, 1 table, 2 bargraph, 3 heatmap, 4 spark, 5 reduce (counts the matches)
	Csv       int      `json:"csv,omitempty"` // mode 2: 0 no export, 1 `--csv -`, 2 `-o <file>`
	Q         int      `json:"q"`    // the byte Q of mode 1
}
// Fixed-width records "0000001.....\n": with a width that divides the 128 KiB read-ahead buffer a newline is exactly
// the last byte of a full buffer and more input follows; every record carries its own number, so a lost or repeated
// line is visible. form: plain | plain-z (plain file under -z) | gz-z (its gzip under -z) | stdin
type c06Aligned struct {
	Records int    `json:"records"`
	Width   int    `json:"width"`
	Form    string `json:"form"`
}

type c06Line struct {
	Src  string `json:"src_hex"`
	No   uint64 `json:"line"`
	Text string `json:"text_hex"`
}
type c06Out struct {
	Lines  []c06Line `json:"lines"`
	Exit   int       `json:"exit"` // -1 = did not finish within the time limit
	Nlog   int       `json:"log_lines"`
	Stderr string    `json:"stderr,omitempty"`
	// aligned cases: the lines are summarised instead of listed
	NLines  int      `json:"lines_total,omitempty"`
	Summary string   `json:"summary,omitempty"`
}

// ---------------------------------------------------------------- building and running rare
var rareBin string
var hangs int

func workdir() string {
	w := os.Getenv("VERIF_WORK")
	if w == "" {
		w = filepath.Join(os.TempDir(), "verifh")
	}
	w = filepath.Join(w, "c06")
	os.MkdirAll(w, 0o755)
	return w
}

func buildRare() string {
	if rareBin != "" {
		return rareBin
	}
	repo := os.Getenv("VERIF_REPO")
	if repo == "" {
		repo = "/repo"
	}
	out := filepath.Join(workdir(), "rare")
	cmd := exec.Command("go", "build", "-o", out, ".")
	cmd.Dir = repo
	cmd.Env = append(os.Environ(), "GOFLAGS=-mod=mod", "GOPROXY=off", "GOSUMDB=off", "GOTOOLCHAIN=local", "CGO_ENABLED=0")
	done := make(chan error, 1)
	var buf bytes.Buffer
	cmd.Stdout, cmd.Stderr = &buf, &buf
	if err := cmd.Start(); err != nil {
		fmt.Fprintln(os.Stderr, "c06: cannot start go build:", err)
		os.Exit(2)
	}
	go func() { done <- cmd.Wait() }()
	select {
	case err := <-done:
		if err != nil {
			fmt.Fprintf(os.Stderr, "c06: building rare from %s failed: %v\n%s\n", repo, err, buf.String())
			os.Exit(2)
		}
	case <-time.After(10 * time.Minute):
		cmd.Process.Kill()
		fmt.Fprintln(os.Stderr, "c06: building rare timed out")
		os.Exit(2)
	}
	rareBin = out
	return out
}

func makeTree(root string, tree []c06Ent) error {
	os.RemoveAll(root)
	if err := os.MkdirAll(root, 0o755); err != nil {
		return err
	}
	for _, e := range tree {
		p := filepath.Join(root, filepath.FromSlash(e.Path))
		if e.Dir {
			if err := os.MkdirAll(p, 0o755); err != nil {
				return err
			}
			continue
		}
		if err := os.MkdirAll(filepath.Dir(p), 0o755); err != nil {
			return err
		}
		if e.Fifo {
			if err := syscall.Mkfifo(p, 0o644); err != nil {
				return err
			}
			continue
		}
		data, _ := hex.DecodeString(e.Data)
		if err := os.WriteFile(p, data, 0o644); err != nil {
			return err
		}
	}
	return nil
}

// ---- named pipes: one writer per FIFO; it blocks until somebody opens the pipe for reading
type fifoWriters struct {
	wg    sync.WaitGroup
	mu    sync.Mutex
	paths []string
	done  map[string]bool
}

func startWriters(root string, tree []c06Ent) *fifoWriters {
	w := &fifoWriters{done: map[string]bool{}}
	for _, e := range tree {
		if !e.Fifo {
			continue
		}
		p := filepath.Join(root, filepath.FromSlash(e.Path))
		data, _ := hex.DecodeString(e.Data)
		w.paths = append(w.paths, p)
		w.wg.Add(1)
		go func() {
			defer w.wg.Done()
			if f, err := os.OpenFile(p, os.O_WRONLY, 0); err == nil {
				f.Write(data) // EPIPE when the reader goes away early
				f.Close()
			}
			w.mu.Lock()
			w.done[p] = true
			w.mu.Unlock()
		}()
	}
	return w
}

// finish releases the writers of pipes nobody opened (a reader that opens without blocking and closes again)
func (w *fifoWriters) finish() {
	for _, p := range w.paths {
		w.mu.Lock()
		d := w.done[p]
		w.mu.Unlock()
		if !d {
			if fd, err := syscall.Open(p, syscall.O_RDONLY|syscall.O_NONBLOCK, 0); err == nil {
				time.Sleep(20 * time.Millisecond)
				syscall.Close(fd)
			}
		}
	}
	ch := make(chan bool, 1)
	go func() { w.wg.Wait(); ch <- true }()
	select {
	case <-ch:
	case <-time.After(3 * time.Second):
	}
}

// the paths GlobExpand would send (no file is opened): used only to keep every pipe mentioned at most once,
// since a pipe, unlike a file, cannot be read twice
func mentionCounts(root string, in c06In) map[string]int {
	cnt := map[string]int{}
	if useStdin(in) {
		return cnt
	}
	cwd, _ := os.Getwd()
	os.Chdir(root)
	defer os.Chdir(cwd)
	for _, a := range in.Args {
		if fi, err := os.Stat(a); in.Recursive && err == nil && fi.IsDir() {
			filepath.Walk(a, func(p string, info os.FileInfo, err error) error {
				if err == nil && !info.IsDir() {
					cnt[filepath.Clean(p)]++
				}
				return nil
			})
			continue
		}
		if ms, err := filepath.Glob(a); err == nil && len(ms) > 0 {
			for _, m := range ms {
				cnt[filepath.Clean(m)]++
			}
		} else {
			cnt[filepath.Clean(a)]++
		}
	}
	return cnt
}

// prepare builds the tree; pipes mentioned more than once become regular files (in the returned description too)
func prepare(root string, in c06In) (c06In, *fifoWriters, map[string]int) {
	hasFifo := false
	for _, e := range in.Tree {
		hasFifo = hasFifo || e.Fifo
	}
	die := func(err error) {
		fmt.Fprintln(os.Stderr, "c06: cannot build tree:", err)
		os.Exit(2)
	}
	if err := makeTree(root, in.Tree); err != nil {
		die(err)
	}
	cnt := map[string]int{}
	if hasFifo {
		cnt = mentionCounts(root, in)
		tree := append([]c06Ent(nil), in.Tree...)
		changed := false
		for i, e := range tree {
			if e.Fifo && cnt[e.Path] > 1 {
				tree[i].Fifo, changed = false, true
			}
		}
		if changed {
			in.Tree = tree
			if err := makeTree(root, in.Tree); err != nil {
				die(err)
			}
		}
	}
	return in, startWriters(root, in.Tree), cnt
}

// the second component of the model's mode: the byte Q (mode 1) or command + 8 * csv kind (mode 2)
func modeArg(in c06In) int {
	if in.Mode == 2 {
		return in.Agg + 8*in.Csv
	}
	return in.Q
}

var aggNames = []string{"histo", "table", "bargraph", "heatmap", "spark", "reduce"}

func useStdin(in c06In) bool { return len(in.Args) == 0 || in.Args[0] == "-" }

func runRare(root string, in c06In) c06Out {
	csvFile := ""
	args := []string{"--nocolor"}
	switch in.Mode {
	case 0:
		args = append(args, "filter", "-e", "{src}:{line}:{0}")
	case 1:
		args = append(args, "filter", "-m", "^.*"+string(rune(in.Q))+".*$", "-e", "{src}:{line}:{0}")
	default:
		switch in.Agg {
		case 0:
			args = append(args, "histo", "-e", "{src}", "-e", "{0}")
		case 1, 3, 4:
			args = append(args, []string{"", "table", "", "heatmap", "spark"}[in.Agg], "-e", "c", "-e", "{src}", "-e", "{0}")
		case 2:
			args = append(args, "bargraph", "-e", "{src}", "-e", "k", "-e", "{0}")
		default:
			args = append(args, "reduce", "-e", "{src}", "-g", "src={0}", "-a", "n={sumi {.} 1}")
		}
		switch in.Csv {
		case 0:
			args = append(args, "--noout")
		case 1:
			args = append(args, "--csv", "-")
		default:
			csvFile = filepath.Join(workdir(), fmt.Sprintf("export%d.csv", caseNo))
			os.Remove(csvFile)
			defer os.Remove(csvFile)
			args = append(args, "-o", csvFile)
		}
	}
	args = append(args, "--readers", strconv.Itoa(in.Readers), "--workers", strconv.Itoa(in.Workers), "--batch", strconv.Itoa(in.Batch))
	if in.Gunzip {
		args = append(args, "-z")
	}
	if in.Recursive {
		args = append(args, "-R")
	}
	args = append(args, in.Args...)
	cmd := exec.Command(buildRare(), args...)
	if in.Nofile > 0 {
		// every input is closed when it has been read: the number of inputs is not bounded by the descriptor limit
		cmd = exec.Command("sh", append([]string{"-c", fmt.Sprintf("ulimit -n %d && exec \"$0\" \"$@\"", in.Nofile), buildRare()}, args...)...)
	}
	cmd.Dir = root
	stdin, _ := hex.DecodeString(in.Stdin)
	if in.StdinFail == "dir" {
		// `rare ... < some/directory`: the handle opens, read(2) fails with EISDIR
		dh, err := os.Open(root)
		if err != nil {
			return c06Out{Exit: -2, Stderr: err.Error()}
		}
		defer dh.Close()
		cmd.Stdin = dh
	} else {
		cmd.Stdin = bytes.NewReader(stdin)
	}
	var so, se bytes.Buffer
	cmd.Stdout, cmd.Stderr = &so, &se
	out := c06Out{}
	if err := cmd.Start(); err != nil {
		out.Exit = -2
		out.Stderr = err.Error()
		return out
	}
	done := make(chan error, 1)
	go func() { done <- cmd.Wait() }()
	limit := 10 * time.Second
	if hangs >= 3 {
		limit = 2 * time.Second
	}
	select {
	case err := <-done:
		if err != nil {
			var ee *exec.ExitError
			if errors.As(err, &ee) {
				out.Exit = ee.ExitCode()
			} else {
				out.Exit = -2
			}
		}
	case <-time.After(limit):
		cmd.Process.Kill()
		<-done
		hangs++
		out.Exit = -1
	}
	if in.Mode != 2 {
		text := so.String()
		text = strings.TrimSuffix(text, "\n")
		if text != "" {
			for _, l := range strings.Split(text, "\n") {
				out.Lines = append(out.Lines, parseLine(l))
			}
		}
		sort.Slice(out.Lines, func(i, j int) bool { return lineLess(out.Lines[i], out.Lines[j]) })
	} else if in.Csv != 0 {
		// the csv export: a header row, then one row "key,value" per key; observed as (key, 0, value)
		data := so.Bytes()
		if in.Csv == 2 {
			data, _ = os.ReadFile(csvFile)
		}
		rows, err := csv.NewReader(bytes.NewReader(data)).ReadAll()
		if err != nil {
			out.Lines = append(out.Lines, c06Line{Src: "", No: 0, Text: hex.EncodeToString(data)}) // not csv: equals no model row
		} else if len(rows) > 0 { // (a table without columns has an empty header line, which is no record)
			for _, r := range rows[1:] {
				if len(r) == 2 {
					out.Lines = append(out.Lines, c06Line{Src: hex.EncodeToString([]byte(r[0])), No: 0, Text: hex.EncodeToString([]byte(r[1]))})
				} else {
					out.Lines = append(out.Lines, c06Line{Src: "", No: uint64(len(r)), Text: hex.EncodeToString([]byte(strings.Join(r, ",")))})
				}
			}
		}
		sort.Slice(out.Lines, func(i, j int) bool { return lineLess(out.Lines[i], out.Lines[j]) })
	}
	for _, l := range strings.Split(se.String(), "\n") {
		if strings.HasPrefix(l, "[Log] ") {
			out.Nlog++
		}
	}
	sl := strings.Split(strings.TrimSuffix(se.String(), "\n"), "\n")
	sort.Strings(sl) // readers log concurrently: the order is not an observable
	st := strings.Join(sl, "\n")
	if len(st) > 600 {
		st = st[:600] + "…"
	}
	out.Stderr = st
	return out
}

// "{src}:{line}:{0}" (generated names contain no ':')
func parseLine(l string) c06Line {
	i := strings.IndexByte(l, ':')
	if i >= 0 {
		j := strings.IndexByte(l[i+1:], ':')
		if j >= 0 {
			if no, err := strconv.ParseUint(l[i+1:i+1+j], 10, 64); err == nil {
				return c06Line{Src: hex.EncodeToString([]byte(l[:i])), No: no, Text: hex.EncodeToString([]byte(l[i+2+j:]))}
			}
		}
	}
	return c06Line{Src: "", No: 0, Text: hex.EncodeToString([]byte(l))} // not in the expected format: cannot equal any model line
}
func lineLess(a, b c06Line) bool {
	if a.Src != b.Src {
		x, _ := hex.DecodeString(a.Src)
		y, _ := hex.DecodeString(b.Src)
		return bytes.Compare(x, y) < 0
	}
	if a.No != b.No {
		return a.No < b.No
	}
	x, _ := hex.DecodeString(a.Text)
	y, _ := hex.DecodeString(b.Text)
	return bytes.Compare(x, y) < 0
}

// ---------------------------------------------------------------- library level: standard input that fails while being read
var errInjected = errors.New("input/output error (injected)")

type failReader struct {
	data     []byte
	pos      int
	chunk    int
	errWith  bool
	noFail   bool
	finished bool
}

func (r *failReader) end() error {
	r.finished = true
	if r.noFail {
		return io.EOF
	}
	return errInjected
}
func (r *failReader) Read(p []byte) (int, error) {
	if r.finished || r.pos >= len(r.data) {
		return 0, r.end()
	}
	n := r.chunk
	if n <= 0 || n > len(p) {
		n = len(p)
	}
	if n > len(r.data)-r.pos {
		n = len(r.data) - r.pos
	}
	copy(p, r.data[r.pos:r.pos+n])
	r.pos += n
	if r.pos >= len(r.data) && r.errWith {
		return n, r.end()
	}
	return n, nil
}
func (r *failReader) Close() error { return nil }

type matchedCount uint64

func (m matchedCount) MatchedLines() uint64 { return uint64(m) }

// The stdin reader of BuildBatcherFromArguments (OpenReaderToChan under the name "<stdin>") over a failing
// reader, every line counted as a match, then DetermineErrorState and main's reporting of its message.
func runLib(in c06In) c06Out {
	data, _ := hex.DecodeString(in.Stdin)
	out := c06Out{}
	logger.DeferLogs()
	b := batchers.OpenReaderToChan("<stdin>", &failReader{data: data, chunk: in.Chunk, errWith: in.ErrWith, noFail: in.NoFail}, in.Batch, 2)
	done := make(chan bool, 1)
	var lines []c06Line
	go func() {
		for batch := range b.BatchChan() {
			for i, l := range batch.Batch {
				lines = append(lines, c06Line{Src: hex.EncodeToString([]byte(batch.Source)), No: batch.BatchStart + uint64(i), Text: hex.EncodeToString(l)})
			}
		}
		done <- true
	}()
	select {
	case <-done:
	case <-time.After(10 * time.Second):
		hangs++
		out.Exit = -1
		return out
	}
	sort.Slice(lines, func(i, j int) bool { return lineLess(lines[i], lines[j]) })
	out.Lines = lines
	if err := helpers.DetermineErrorState(b, matchedCount(len(lines)), nil); err != nil {
		if msg := err.Error(); msg != "" { // main.go main
			logger.Print(msg)
		}
		if v, ok := err.(cli.ExitCoder); ok {
			out.Exit = v.ExitCode()
		} else {
			out.Exit = helpers.ExitCodeInvalidUsage
		}
	}
	// the deferred log buffer is written to whatever os.Stderr is when logging becomes immediate again
	tmp, err := os.CreateTemp(workdir(), "log")
	if err == nil {
		saved := os.Stderr
		os.Stderr = tmp
		logger.ImmediateLogs()
		os.Stderr = saved
		tmp.Close()
		txt, _ := os.ReadFile(tmp.Name())
		os.Remove(tmp.Name())
		for _, l := range strings.Split(string(txt), "\n") {
			if strings.HasPrefix(l, "[Log] ") {
				out.Nlog++
			}
		}
		out.Stderr = strings.TrimSuffix(string(txt), "\n")
	}
	return out
}

// ---------------------------------------------------------------- oracles (independent library calls)
type oracle struct {
	fs       []string // Coq pairs
	fsSeen   map[string]bool
	glob     []string
	globSeen map[string]bool
	gz       []string
	gzSeen   map[string]bool
	gunzip   bool
	badPat   bool
	info     map[string]int
	fifo     map[string][]byte // cleaned relative path -> what its writer writes
}

func gunzipOracle(c []byte) string {
	zr, err := gzip.NewReader(bytes.NewReader(c))
	if err != nil {
		return "None"
	}
	data, err := io.ReadAll(zr)
	return fmt.Sprintf("(Some (%s,%s))", H(data), B(err != nil))
}

func (o *oracle) file(c []byte) string {
	if o.gunzip && !o.gzSeen[string(c)] {
		o.gzSeen[string(c)] = true
		o.gz = append(o.gz, fmt.Sprintf("(%s,%s)", H(c), gunzipOracle(c)))
	}
	return "f " + H(c)
}

// subtree in the order filepath.Walk visits a directory: os.ReadDir sorts by name
func (o *oracle) subtree(p string, deep bool) string {
	if !deep {
		return "d []"
	}
	ents, err := os.ReadDir(p)
	if err != nil {
		return "d []"
	}
	var parts []string
	for _, e := range ents {
		q := filepath.Join(p, e.Name())
		var t string
		if e.IsDir() {
			t = o.subtree(q, true)
		} else if e.Type()&os.ModeNamedPipe != 0 {
			t = o.file(o.fifo[filepath.Clean(q)])
		} else {
			c, _ := os.ReadFile(q)
			t = o.file(c)
		}
		parts = append(parts, fmt.Sprintf("(%s,%s)", HS(e.Name()), t))
	}
	return "d " + CoqList(parts)
}

// os.Stat of a path as written (relative to the current directory = tree root)
func (o *oracle) stat(p string, deep bool) {
	if o.fsSeen[p] {
		return
	}
	o.fsSeen[p] = true
	fi, err := os.Stat(p)
	switch {
	case err != nil:
		o.fs = append(o.fs, fmt.Sprintf("(%s,None)", HS(p)))
		o.info["missing"]++
	case fi.IsDir():
		o.fs = append(o.fs, fmt.Sprintf("(%s,Some (%s))", HS(p), o.subtree(p, deep)))
		o.info["dir"]++
	case fi.Mode()&os.ModeNamedPipe != 0:
		o.fs = append(o.fs, fmt.Sprintf("(%s,Some (%s))", HS(p), o.file(o.fifo[filepath.Clean(p)])))
		o.info["file"]++
	default:
		c, _ := os.ReadFile(p)
		o.fs = append(o.fs, fmt.Sprintf("(%s,Some (%s))", HS(p), o.file(c)))
		o.info["file"]++
	}
}

func computeOracles(root string, in c06In) *oracle {
	o := &oracle{fsSeen: map[string]bool{}, globSeen: map[string]bool{}, gzSeen: map[string]bool{}, gunzip: in.Gunzip, info: map[string]int{}, fifo: map[string][]byte{}}
	for _, e := range in.Tree {
		if e.Fifo {
			o.fifo[e.Path], _ = hex.DecodeString(e.Data)
		}
	}
	if useStdin(in) {
		return o
	}
	cwd, _ := os.Getwd()
	os.Chdir(root)
	defer os.Chdir(cwd)
	for _, a := range in.Args {
		o.stat(a, in.Recursive)
		fi, err := os.Stat(a)
		if in.Recursive && err == nil && fi.IsDir() {
			o.info["walked"]++
			continue
		}
		if o.globSeen[a] {
			o.info["dup-arg"]++
			continue
		}
		o.globSeen[a] = true
		ms, err := filepath.Glob(a)
		if err != nil {
			o.glob = append(o.glob, fmt.Sprintf("(%s,None)", HS(a)))
			o.badPat = true
			continue
		}
		o.glob = append(o.glob, fmt.Sprintf("(%s,Some %s)", HS(a), HLS(ms)))
		if len(ms) >= 2 {
			o.info["glob>=2"]++
		}
		if len(ms) == 0 && strings.ContainsAny(a, "*?[") {
			o.info["glob-nomatch"]++
		}
		for _, m := range ms {
			o.stat(m, in.Recursive)
		}
	}
	return o
}

// ---------------------------------------------------------------- large aligned inputs
func alignedContent(a *c06Aligned) []byte {
	var b bytes.Buffer
	for i := 1; i <= a.Records; i++ {
		fmt.Fprintf(&b, "%07d", i)
		b.WriteString(strings.Repeat(".", a.Width-8))
		b.WriteByte('\n')
	}
	return b.Bytes()
}

func c06CaseAligned(in c06In) Case {
	caseNo++
	a := in.Aligned
	content := alignedContent(a)
	disk, name := content, "aligned.log"
	full := in
	full.Aligned = nil
	full.Gunzip = strings.HasSuffix(a.Form, "-z")
	if a.Form == "gz-z" || a.Form == "fifo-gz-z" {
		disk, name = gz(content), "aligned.log.gz"
	}
	isFifo := strings.HasPrefix(a.Form, "fifo")
	fromStdin := a.Form == "stdin"
	if fromStdin {
		full.Args, full.Stdin = nil, hex.EncodeToString(content)
	} else {
		full.Args = []string{name}
		full.Tree = []c06Ent{{Path: name, Data: hex.EncodeToString(disk), Fifo: isFifo}}
	}
	root := filepath.Join(workdir(), fmt.Sprintf("t%d", caseNo))
	full, writers, _ := prepare(root, full)
	defer os.RemoveAll(root)
	out := runRare(root, full)
	writers.finish()

	gzo := "None"
	if full.Gunzip {
		if zr, err := gzip.NewReader(bytes.NewReader(disk)); err == nil {
			data, rerr := io.ReadAll(zr)
			gzo = fmt.Sprintf("(Some (%s,%s))", RL(data), B(rerr != nil))
		}
	}
	lines := make([]string, len(out.Lines))
	once, wrong := 0, []uint64{}
	seen := map[string]int{}
	for i, l := range out.Lines {
		t, _ := hex.DecodeString(l.Text)
		lines[i] = fmt.Sprintf("(\"%s\",%d,%s)", l.Src, l.No, RL(t))
		seen[string(t)]++
		if len(t) < 7 || string(t[:7]) != fmt.Sprintf("%07d", l.No) {
			if len(wrong) < 8 {
				wrong = append(wrong, l.No)
			}
		}
	}
	for _, k := range seen {
		if k == 1 {
			once++
		}
	}
	coq := fmt.Sprintf("cr %s %s %s %s %s %d %d %d %s %s %d", HS(name), RL(disk), B(full.Gunzip), gzo, B(fromStdin),
		in.Batch, in.Mode, in.Q, CoqList(lines), Z(int64(out.Exit)), out.Nlog)
	// the description keeps a summary, not 3000 lines (documentation only; the comparison is done in Coq on the full lines)
	out.NLines = len(out.Lines)
	out.Summary = fmt.Sprintf("%d lines printed, %d distinct texts printed exactly once, first line numbers whose text carries another record number: %v", len(out.Lines), once, wrong)
	out.Lines = nil
	kb, _ := json.Marshal(in)
	tags := []string{fmt.Sprintf("exit=%d", out.Exit), "aligned-records:" + a.Form, fmt.Sprintf("aligned:%dx%d,batch=%d", a.Records, a.Width, in.Batch)}
	if a.Form == "fifo-z" {
		tags = append(tags, "fifo:-z-not-gzip", "kf:"+kfGunzipRewind)
	}
	return Case{Coq: coq, Desc: map[string]any{"input": in, "impl": out}, Key: string(kb),
		Nontrivial: a.Width > 8 && 131072%a.Width == 0 && a.Records*a.Width > 131072, Tags: tags}
}

func alignedCases() []c06In {
	var out []c06In
	// batch 100000: every line is still held by the reader's unsent batch when the buffer boundary is crossed
	for _, f := range []string{"plain", "plain-z", "gz-z", "stdin"} {
		out = append(out, c06In{Aligned: &c06Aligned{Records: 1300, Width: 128, Form: f}, Readers: 1, Workers: 1, Batch: 100000, Q: 'Q'})
	}
	// the default batch size with several workers: 24 lines are held unsent at the first boundary and the next read refills the whole buffer
	out = append(out, c06In{Aligned: &c06Aligned{Records: 2200, Width: 128, Form: "plain"}, Readers: 2, Workers: 3, Batch: 1000, Q: 'Q'})
	// the same records (> 128 KiB) through a named pipe: plain, plain under -z (the probe's bytes must not be lost), gzip under -z
	for _, f := range []string{"fifo", "fifo-z", "fifo-gz-z"} {
		out = append(out, c06In{Aligned: &c06Aligned{Records: 1300, Width: 128, Form: f}, Readers: 1, Workers: 2, Batch: 1000, Q: 'Q'})
	}
	return out
}

// ---------------------------------------------------------------- one case
var caseNo int

func c06Case(in c06In) Case {
	if in.Aligned != nil {
		return c06CaseAligned(in)
	}
	caseNo++
	root := filepath.Join(workdir(), fmt.Sprintf("t%d", caseNo))
	in, writers, mcount := prepare(root, in)
	defer os.RemoveAll(root)
	var out c06Out
	if in.StdinFail == "reader" {
		out = runLib(in)
	} else {
		out = runRare(root, in)
	}
	writers.finish()
	o := computeOracles(root, in)

	lines := make([]string, len(out.Lines))
	for i, l := range out.Lines {
		lines[i] = fmt.Sprintf("(\"%s\",%d,\"%s\")", l.Src, l.No, l.Text)
	}
	stdinFails := in.StdinFail == "dir" || (in.StdinFail == "reader" && !in.NoFail)
	coq := fmt.Sprintf("c %s %s %s %s %s %s %d \"%s\" %s %d %d %s %s %d",
		CoqList(o.fs), CoqList(o.glob), CoqList(o.gz), HLS(in.Args), B(in.Recursive), B(in.Gunzip),
		in.Batch, in.Stdin, B(stdinFails), in.Mode, modeArg(in), CoqList(lines), Z(int64(out.Exit)), out.Nlog)

	tags := []string{fmt.Sprintf("exit=%d", out.Exit), fmt.Sprintf("readers=%d", in.Readers), fmt.Sprintf("mode=%d", in.Mode)}
	if in.Mode == 2 && in.Agg >= 0 && in.Agg < len(aggNames) {
		tags = append(tags, "agg:"+aggNames[in.Agg], fmt.Sprintf("csv=%d", in.Csv))
		if in.Csv != 0 {
			tags = append(tags, fmt.Sprintf("csv-export,exit=%d", out.Exit))
		}
	}
	nontrivial := false
	add := func(t string, nt bool) {
		tags = append(tags, t)
		if nt {
			nontrivial = true
		}
	}
	if useStdin(in) {
		add("stdin", true)
		if len(in.Args) > 0 {
			add("stdin-dash", false)
		}
		switch {
		case in.StdinFail == "dir":
			add("stdin-fails:directory-handle", true)
		case in.StdinFail == "reader" && in.NoFail:
			add("stdin-reader:eof(control)", false)
		case in.StdinFail == "reader":
			add("stdin-fails:reader-after-k-lines", true)
			if in.ErrWith {
				add("stdin-fails:error-with-data", false)
			}
		}
	} else {
		if in.Recursive {
			add("-R", false)
		}
		if o.info["walked"] > 0 {
			add("walk", true)
		}
		if o.info["glob>=2"] > 0 {
			add("glob>=2", true)
		}
		if o.info["glob-nomatch"] > 0 {
			add("glob-nomatch->literal", true)
		}
		if o.info["missing"] > 0 {
			add("missing-path", len(in.Args) > 1)
		}
		if o.info["dir"] > o.info["walked"] {
			add("dir-opened-as-file", true)
		}
		seen := map[string]bool{}
		for _, a := range in.Args {
			if seen[a] {
				add("duplicate-arg", true)
				break
			}
			seen[a] = true
		}
		if in.Recursive && o.info["walked"] > 0 {
			names := map[string]bool{}
			for _, e := range in.Tree {
				names[e.Path] = true
			}
			named, matching := false, false
			for _, e := range in.Tree {
				base := e.Path[strings.LastIndexByte(e.Path, '/')+1:]
				if !strings.ContainsAny(base, "*?[\\") {
					continue
				}
				named = true
				under := false
				for _, a := range in.Args {
					if strings.HasPrefix(e.Path, strings.TrimSuffix(a, "/")+"/") {
						under = true
					}
				}
				if ms, err := filepath.Glob(filepath.Join(root, e.Path)); under && (err != nil || len(ms) != 1 || ms[0] != filepath.Join(root, e.Path)) {
					matching = true
				}
			}
			if named {
				add("pattern-named-entry-in-tree", false)
			}
			if matching {
				add("walked-name-is-a-pattern-matching-a-sibling", true)
			}
		}
		if o.badPat {
			add("bad-pattern", true)
			add("kf:"+kfBadPattern, false)
		}
		for _, a := range in.Args[1:] {
			if a == "-" {
				add("dash-not-first", false)
			}
		}
	}
	for _, e := range in.Tree {
		if !e.Fifo || mcount[e.Path] != 1 {
			continue
		}
		how := "fifo:glob-match"
		for _, a := range in.Args {
			if filepath.Clean(a) == e.Path {
				how = "fifo:argument"
			} else if fi, err := os.Stat(filepath.Join(root, a)); in.Recursive && err == nil && fi.IsDir() && strings.HasPrefix(e.Path, filepath.Clean(a)+"/") {
				how = "fifo:below--R-directory"
			}
		}
		add(how, true)
		data, _ := hex.DecodeString(e.Data)
		if in.Gunzip {
			if _, err := gzip.NewReader(bytes.NewReader(data)); err != nil {
				add("fifo:-z-not-gzip", true)
				if len(data) > 0 { // the rewind after the failed gzip probe is a Seek, which a pipe refuses
					add("kf:"+kfGunzipRewind, false)
				}
			} else {
				add("fifo:-z-gzip", true)
			}
		}
	}
	if in.Gunzip {
		add("-z", false)
		kinds := map[string]bool{}
		for _, e := range in.Tree {
			if !e.Dir && e.Kind != "" {
				kinds[e.Kind] = true
			}
		}
		for k := range kinds {
			if k != "plain" {
				nontrivial = true
			}
		}
		ks := make([]string, 0, len(kinds))
		for k := range kinds {
			ks = append(ks, k)
		}
		sort.Strings(ks)
		for _, k := range ks {
			tags = append(tags, "z:"+k)
		}
	}
	if in.Nofile > 0 {
		add(fmt.Sprintf("more-inputs-than-descriptors(limit=%d)", in.Nofile), true)
	}
	if out.Exit == 2 && len(out.Lines) > 0 {
		add("failure+other-inputs-read", true)
	}
	kb, _ := json.Marshal(in)
	return Case{Coq: coq, Desc: map[string]any{"input": in, "impl": out}, Key: string(kb), Nontrivial: nontrivial, Tags: tags}
}

// ---------------------------------------------------------------- generators
var words = []string{"a", "bQ", "Q", "12", "-7", "+3", "x y", "", "err:1", "9223372036854775808", "zz\r", "Qq", "0"}

func genText(r *Rng, numeric bool) []byte {
	n := r.Intn(7)
	if r.Chance(1, 8) {
		n = 0
	}
	var b []byte
	for i := 0; i < n; i++ {
		var w string
		if numeric && !r.Chance(1, 6) {
			w = strconv.Itoa(r.Intn(40) - 5)
		} else {
			w = Pick(r, words)
		}
		b = append(b, w...)
		if r.Chance(1, 7) {
			b = append(b, '\r')
		}
		if i+1 < n || !r.Chance(1, 4) {
			b = append(b, '\n')
		}
	}
	return b
}

func gz(data []byte) []byte {
	var buf bytes.Buffer
	w := gzip.NewWriter(&buf)
	w.Write(data)
	w.Close()
	return buf.Bytes()
}

// bytes on disk for one regular file
func genFile(r *Rng, numeric bool) (string, []byte) {
	text := genText(r, numeric)
	switch r.Intn(14) {
	case 0, 1, 2, 3, 4:
		return "plain", text
	case 5:
		return "empty", nil
	case 6, 7:
		return "gz", gz(text)
	case 8: // truncated: inside the header, inside the body, or inside the trailer
		g := gz(text)
		return "gz-trunc", g[:r.Intn(len(g))]
	case 9: // checksum / length trailer damaged
		g := gz(text)
		g[len(g)-1-r.Intn(8)] ^= 0x5a
		return "gz-badtrailer", g
	case 10: // deflate body damaged
		g := gz(append(text, genText(r, numeric)...))
		if len(g) > 19 {
			g[10+r.Intn(len(g)-18)] ^= byte(1 << r.Intn(8))
		}
		return "gz-badbody", g
	case 11:
		return "gz-multi", append(gz(text), gz(genText(r, numeric))...)
	case 12:
		return "gz-trailing-garbage", append(gz(text), "trailing\n"...)
	default: // longer than the 4096-byte buffer the gzip probe fills
		var b []byte
		for len(b) < 4200+r.Intn(1500) {
			b = append(b, strings.Repeat(Pick(r, []string{"k", "Q", "7"}), 90+r.Intn(40))...)
			b = append(b, '\n')
		}
		return "plain>4096", b
	}
}

var fileNames = []string{"a.log", "b.log", "c.gz", "x", "y.txt", "q[1]", "s*r", "m.log.gz", "n1", "n2"}
var dirNames = []string{"d", "sub", "e", "logs", "z.d"}

// a name that is a glob pattern next to a sibling that the name matches when (wrongly) read as a pattern:
// the walk of -R must emit each under its own name exactly once; as a command-line argument the pattern semantics apply
var patternPairs = [][2]string{
	{"x[1].log", "x1.log"}, {"s*.txt", "sab.txt"}, {"w?.txt", "wa.txt"}, {"r[a-c].log", "rb.log"}, {`a\*b`, "a*b"}, {"*", "zz"},
}
var patternDirPairs = [][2]string{{"g[1]", "g1"}, {"h*", "hx"}}
var malformedNames = []string{"k[", "m[a-", `t\`}

func markedFile(path string) c06Ent { // distinct non-empty content: reading the wrong file or one file twice shows in the lines
	return c06Ent{Path: path, Data: hex.EncodeToString([]byte("in " + path + "\nQ 2\n")), Kind: "plain"}
}

func genTree(r *Rng, numeric bool) []c06Ent {
	var tree []c06Ent
	var fill func(prefix string, depth int)
	fill = func(prefix string, depth int) {
		nf := r.Intn(4)
		used := map[string]bool{}
		for i := 0; i < nf; i++ {
			n := Pick(r, fileNames)
			if used[n] {
				continue
			}
			used[n] = true
			kind, data := genFile(r, numeric)
			tree = append(tree, c06Ent{Path: prefix + n, Data: hex.EncodeToString(data), Kind: kind})
		}
		if r.Chance(1, 9) && !used["pipe"] {
			used["pipe"] = true
			kind, data := genFile(r, numeric)
			if len(data) > 3000 {
				kind, data = "plain", genText(r, numeric)
			}
			tree = append(tree, c06Ent{Path: prefix + "pipe", Data: hex.EncodeToString(data), Kind: kind, Fifo: true})
		}
		if r.Chance(1, 3) {
			pp := Pick(r, patternPairs)
			if !used[pp[0]] && !used[pp[1]] {
				used[pp[0]], used[pp[1]] = true, true
				tree = append(tree, markedFile(prefix+pp[0]), markedFile(prefix+pp[1]))
			}
		}
		if r.Chance(1, 12) {
			n := Pick(r, malformedNames)
			if !used[n] {
				used[n] = true
				tree = append(tree, markedFile(prefix+n))
			}
		}
		if depth < 3 && r.Chance(1, 8) {
			dp := Pick(r, patternDirPairs)
			if !used[dp[0]] && !used[dp[1]] {
				used[dp[0]], used[dp[1]] = true, true
				tree = append(tree, c06Ent{Path: prefix + dp[0], Dir: true}, markedFile(prefix+dp[0]+"/f.log"),
					c06Ent{Path: prefix + dp[1], Dir: true}, markedFile(prefix+dp[1]+"/f.log"))
			}
		}
		if depth < 3 {
			nd := r.Intn(3)
			if depth == 0 && nd == 0 {
				nd = 1
			}
			for i := 0; i < nd; i++ {
				n := Pick(r, dirNames)
				if used[n] {
					continue
				}
				used[n] = true
				tree = append(tree, c06Ent{Path: prefix + n, Dir: true})
				fill(prefix+n+"/", depth+1)
			}
		}
	}
	fill("", 0)
	return tree
}

var badPatterns = []string{"a[", "d/[", "[]", "x[a-", "sub\\"}

func genArgs(r *Rng, tree []c06Ent, recursive bool) []string {
	var files, dirs []string
	for _, e := range tree {
		if e.Dir {
			dirs = append(dirs, e.Path)
		} else {
			files = append(files, e.Path)
		}
	}
	n := 1 + r.Intn(4)
	dirHi := 18 // without -R a directory argument is just a failing input: rarer
	if recursive {
		dirHi = 28
	}
	var args []string
	for i := 0; i < n; i++ {
		k := r.Intn(40)
		switch {
		case k < 16 && len(files) > 0:
			args = append(args, Pick(r, files))
		case k >= 16 && k < dirHi && len(dirs) > 0:
			d := Pick(r, dirs)
			if r.Chance(1, 5) {
				d += "/"
			}
			args = append(args, d)
		case k >= 24 && k < 32:
			base := ""
			if len(dirs) > 0 && r.Chance(2, 3) {
				base = Pick(r, dirs) + "/"
			}
			args = append(args, base+Pick(r, []string{"*", "*.log", "*.gz", "*.log", "?", "[a-c]*", "*/*", "n?", "nomatch*"}))
		case k >= 32 && k < 34:
			args = append(args, Pick(r, []string{"nope", "d/nope.log", "missing/x", "a.log/"}))
		case k >= 34 && k < 36 && len(args) > 0:
			args = append(args, Pick(r, args)) // a duplicate mention
		case k == 36:
			args = append(args, Pick(r, badPatterns))
		case k == 37 && i > 0:
			args = append(args, "-")
		case (k == 38 || k == 39) && len(files) > 0:
			// the same file spelled in ways a lexical clean-up would change: some open (./f, d//f, dir/../f), some must not (nodir/../f, f/.)
			f := Pick(r, files)
			forms := []string{"./" + f, "nodir/../" + f, f + "/.", strings.Replace(f, "/", "//", 1)}
			if len(dirs) > 0 {
				forms = append(forms, Pick(r, dirs)+"/../"+f)
			}
			args = append(args, Pick(r, forms))
		default:
			if len(files) > 0 {
				args = append(args, Pick(r, files))
			} else {
				args = append(args, "nope")
			}
		}
	}
	return args
}

func genIn(r *Rng) c06In {
	in := c06In{Readers: 1 + r.Intn(4), Workers: 1 + r.Intn(3), Batch: Pick(r, []int{1, 2, 3, 1000}), Q: 'Q'}
	switch r.Intn(10) {
	case 0, 1:
		in.Mode = 1
	case 2, 3, 4:
		in.Mode, in.Agg, in.Csv = 2, r.Intn(6), r.Intn(3)
	}
	in.Tree = genTree(r, in.Mode == 2)
	in.Gunzip = r.Chance(2, 5)
	in.Recursive = r.Chance(1, 2)
	switch r.Intn(12) {
	case 0: // no argument: standard input
		in.Stdin = hex.EncodeToString(genText(r, in.Mode == 2))
		if !r.Chance(1, 4) {
			in.Gunzip = false
		}
		genStdinFailure(r, &in)
	case 1: // "-" first (whatever follows is not read)
		in.Args = append([]string{"-"}, genArgs(r, in.Tree, in.Recursive)[:r.Intn(2)]...)
		in.Stdin = hex.EncodeToString(genText(r, in.Mode == 2))
		if !r.Chance(1, 4) {
			in.Gunzip = false
		}
		genStdinFailure(r, &in)
	default:
		in.Args = genArgs(r, in.Tree, in.Recursive)
	}
	return in
}

// standard input that fails while being read: a directory handle at CLI level (nothing delivered), or at library
// level a reader that fails after its k lines
func genStdinFailure(r *Rng, in *c06In) {
	switch r.Intn(6) {
	case 0, 1:
		in.StdinFail, in.Stdin = "dir", ""
	case 2, 3, 4:
		if in.Gunzip { // the -z usage error is decided before anything is read: CLI only
			return
		}
		in.StdinFail, in.Mode = "reader", 0
		in.Chunk = Pick(r, []int{0, 1, 3, 7})
		in.ErrWith = r.Chance(1, 3)
		in.NoFail = r.Chance(1, 6)
	}
}

// a small fixed scope first: every argument form x -z x -R on one fixed tree
func fixedCases() []c06In {
	text := []byte("a\nbQ\r\nlast")
	g := gz([]byte("zip1\nQzip2\n"))
	tree := []c06Ent{
		{Path: "a.log", Data: hex.EncodeToString(text), Kind: "plain"},
		{Path: "c.gz", Data: hex.EncodeToString(g), Kind: "gz"},
		{Path: "t.gz", Data: hex.EncodeToString(g[:len(g)-9]), Kind: "gz-trunc"},
		{Path: "empty", Data: "", Kind: "empty"},
		{Path: "d", Dir: true},
		{Path: "d/x", Data: hex.EncodeToString([]byte("1\n2\n")), Kind: "plain"},
		{Path: "d/sub", Dir: true},
		{Path: "d/sub/y.log", Data: hex.EncodeToString([]byte("deep\n")), Kind: "plain"},
		{Path: "d/sub/e", Dir: true},
	}
	argsets := [][]string{
		{"a.log"}, {"a.log", "a.log"}, {"*"}, {"d"}, {"d/"}, {"d", "d/sub"}, {"nope", "a.log"}, {"d/*"}, {"*.gz", "c.gz"},
		{"empty"}, {"a[", "a.log"}, {"a.log", "-"}, {"t.gz", "a.log", "c.gz", "d/x"}, {"nomatch*"}, {"d/sub/e"},
		{"./a.log", "d//x"}, {"nodir/../a.log"}, {"a.log/."}, {"d/../a.log", "d/sub/../x"}, {"d/sub/../../a.log", "./*.gz"},
	}
	var out []c06In
	for _, as := range argsets {
		for _, z := range []bool{false, true} {
			for _, rec := range []bool{false, true} {
				out = append(out, c06In{Tree: tree, Args: as, Gunzip: z, Recursive: rec, Readers: 1 + len(out)%4, Workers: 2, Batch: 2, Q: 'Q', Mode: (len(out) / 7) % 2})
			}
		}
	}
	for _, m := range []int{0, 1, 2} {
		out = append(out, c06In{Tree: tree, Args: nil, Stdin: hex.EncodeToString([]byte("5\nQ\n\n7")), Readers: 2, Workers: 2, Batch: 1, Q: 'Q', Mode: m})
		out = append(out, c06In{Tree: tree, Args: []string{"-", "a.log"}, Stdin: hex.EncodeToString([]byte("5\n6\n")), Readers: 1, Workers: 1, Batch: 1000, Q: 'Q', Mode: m})
		out = append(out, c06In{Tree: tree, Args: []string{"d/x", "d/x"}, Readers: 3, Workers: 1, Batch: 1000, Q: 'Q', Mode: m})
	}
	out = append(out, c06In{Tree: tree, Args: nil, Gunzip: true, Stdin: "61", Readers: 1, Workers: 1, Batch: 1, Q: 'Q'})
	// standard input that fails while being read: both spellings, CLI (directory handle) and library level
	for _, as := range [][]string{nil, {"-"}, {"-", "a.log"}} {
		for _, m := range []int{0, 1, 2} {
			out = append(out, c06In{Tree: tree, Args: as, StdinFail: "dir", Readers: 1, Workers: 1, Batch: 1000, Q: 'Q', Mode: m})
		}
		out = append(out, c06In{Tree: tree, Args: as, StdinFail: "dir", Gunzip: true, Readers: 1, Workers: 1, Batch: 1000, Q: 'Q'})
		for _, st := range []string{"", "6c310a", "6c310a6c320a", "6c310a6c320a7061727469616c"} {
			for _, ew := range []bool{false, true} {
				out = append(out, c06In{Tree: tree, Args: as, Stdin: st, StdinFail: "reader", ErrWith: ew, Chunk: 2, Readers: 1, Workers: 1, Batch: 2, Q: 'Q'})
			}
		}
		out = append(out, c06In{Tree: tree, Args: as, Stdin: "6c310a", StdinFail: "reader", NoFail: true, Readers: 1, Workers: 1, Batch: 2, Q: 'Q'})
	}
	return out
}

// names that are glob patterns below a -R directory, next to the siblings they would match
func patternCases() []c06In {
	var tree []c06Ent
	tree = append(tree, c06Ent{Path: "top", Dir: true}, c06Ent{Path: "top/p", Dir: true}, c06Ent{Path: "top/p/n", Dir: true})
	for _, prefix := range []string{"top/p/", "top/p/n/"} {
		for _, pp := range patternPairs {
			tree = append(tree, markedFile(prefix+pp[0]), markedFile(prefix+pp[1]))
		}
	}
	for _, dp := range patternDirPairs {
		tree = append(tree, c06Ent{Path: "top/" + dp[0], Dir: true}, markedFile("top/"+dp[0]+"/f.log"),
			c06Ent{Path: "top/" + dp[1], Dir: true}, markedFile("top/"+dp[1]+"/f.log"))
	}
	tree = append(tree, markedFile("top/p/k["))
	argsets := [][]string{
		{"top/p/n"}, {"top/p"}, {"top"}, {"top/p/"},
		{"top/p/n", "top/p/n/x[1].log"}, {"top/p/n", "top/p/n/s*.txt"}, {"top/p/n/w?.txt", "top/p/n"}, {"top/p/n/r[a-c].log"},
		{`top/p/n/a\*b`, "top/p/n"}, {"top/g[1]", "top/g1"}, {"top/h*"}, {"top/p/n/*"}, {"top/p/k[", "top/p/n"},
	}
	var out []c06In
	for i, as := range argsets {
		for _, rec := range []bool{true, false} {
			out = append(out, c06In{Tree: tree, Args: as, Recursive: rec, Readers: 1 + i%4, Workers: 1 + i%3, Batch: 1000, Q: 'Q', Mode: (i / 5) % 2})
		}
	}
	return out
}

// named pipes as argument, as glob match and below a -R directory, with and without -z
func fifoCases() []c06In {
	medium := bytes.Repeat([]byte("a line of a pipe Q\n"), 280) // > 4096 bytes: more than one buffer of the gzip probe
	contents := []struct {
		kind string
		data []byte
	}{
		{"plain", []byte("a\nb\nc\n")}, {"plain", []byte("ab")}, {"empty", nil}, {"plain", medium},
		{"gz", gz([]byte("zipped\nQ in a pipe\n"))}, {"gz-trunc", gz([]byte("zipped\n"))[:7]}, {"gz-trunc", gz(medium)[:40]},
	}
	var out []c06In
	for i, c := range contents {
		tree := []c06Ent{
			{Path: "q", Dir: true}, {Path: "q/a.log", Data: hex.EncodeToString([]byte("file\n")), Kind: "plain"},
			{Path: "q/p", Data: hex.EncodeToString(c.data), Kind: c.kind, Fifo: true},
			{Path: "q/sub", Dir: true}, {Path: "q/sub/b.log", Data: hex.EncodeToString([]byte("1\n2\n")), Kind: "plain"},
		}
		for j, as := range [][]string{{"q/p"}, {"q/a.log", "q/p"}, {"q/*"}, {"q/?"}, {"q"}, {"q/sub", "q/p"}} {
			for _, z := range []bool{false, true} {
				rec := len(as) == 1 && as[0] == "q" || j == 5
				out = append(out, c06In{Tree: tree, Args: as, Gunzip: z, Recursive: rec, Readers: 1 + (i+j)%3, Workers: 1 + j%2, Batch: 1000, Q: 'Q', Mode: (i + j) % 2})
			}
		}
	}
	return out
}

// more inputs than descriptors: 130 small files, rare limited to 40 open descriptors
func manyFilesCases() []c06In {
	var tree []c06Ent
	tree = append(tree, c06Ent{Path: "many", Dir: true})
	for i := 0; i < 130; i++ {
		tree = append(tree, c06Ent{Path: fmt.Sprintf("many/f%03d", i), Data: hex.EncodeToString([]byte(fmt.Sprintf("Q%d\n", i))), Kind: "plain"})
	}
	var out []c06In
	for _, rd := range []int{1, 3} {
		out = append(out, c06In{Tree: tree, Args: []string{"many/*"}, Readers: rd, Workers: 2, Batch: 1000, Q: 'Q', Nofile: 40})
		out = append(out, c06In{Tree: tree, Args: []string{"many"}, Recursive: true, Readers: rd, Workers: 1, Batch: 1, Q: 'Q', Mode: 1, Nofile: 40})
		out = append(out, c06In{Tree: tree, Args: []string{"nope", "many/*", "many/f0*"}, Gunzip: true, Readers: rd, Workers: 2, Batch: 1000, Q: 'Q', Nofile: 40})
	}
	return out
}

// the six aggregating commands with and without the csv export x (failed input, unparsable increment, nothing matched, all fine)
func csvCases() []c06In {
	tree := []c06Ent{
		{Path: "good.log", Data: hex.EncodeToString([]byte("5\n-2\n7\n")), Kind: "plain"},
		{Path: "bad.log", Data: hex.EncodeToString([]byte("5\nx\n3\n")), Kind: "plain"},
		{Path: "empty.log", Data: "", Kind: "empty"},
	}
	var out []c06In
	for agg := 0; agg < 6; agg++ {
		for csvKind := 0; csvKind < 3; csvKind++ {
			for k, as := range [][]string{{"nope", "good.log"}, {"bad.log", "good.log"}, {"empty.log"}, {"good.log"}, {"good.log", "good.log", "bad.log", "nope"}} {
				if csvKind == 0 && k == 4 {
					continue
				}
				out = append(out, c06In{Tree: tree, Args: as, Readers: 1 + (agg+k)%3, Workers: 1 + k%2, Batch: 1000, Q: 'Q', Mode: 2, Agg: agg, Csv: csvKind})
			}
		}
		out = append(out, c06In{Tree: tree, Args: nil, Stdin: hex.EncodeToString([]byte("4\nx\n")), Readers: 1, Workers: 1, Batch: 1000, Q: 'Q', Mode: 2, Agg: agg, Csv: 1})
		out = append(out, c06In{Tree: tree, Args: nil, StdinFail: "dir", Readers: 1, Workers: 1, Batch: 1000, Q: 'Q', Mode: 2, Agg: agg, Csv: 2})
	}
	return out
}

func gen(r *Rng, n int, tier string) []Case {
	buildRare()
	var cases []Case
	for _, in := range fixedCases() {
		cases = append(cases, c06Case(in))
	}
	for _, in := range alignedCases() {
		cases = append(cases, c06Case(in))
	}
	for _, in := range patternCases() {
		cases = append(cases, c06Case(in))
	}
	for _, in := range fifoCases() {
		cases = append(cases, c06Case(in))
	}
	for _, in := range manyFilesCases() {
		cases = append(cases, c06Case(in))
	}
	for _, in := range csvCases() {
		cases = append(cases, c06Case(in))
	}
	for len(cases) < n {
		cases = append(cases, c06Case(genIn(r.Fork())))
	}
	return cases
}

func main() {
	Main(&Prop{
		Name:   "C06",
		Header: "From Coq Require Import List NArith ZArith String.\nFrom RareV Require Import Corr.C06Case.\nImport ListNotations.\nLocal Open Scope string_scope.\nLocal Open Scope N_scope.\n",
		Rule: "the rare binary built from the tree under test, run (filter -e '{src}:{line}:{0}', filter -m '^.*Q.*$', and the aggregating commands histo / table / bargraph / heatmap / spark / reduce keyed by source with the line as increment, without export, with --csv - and with -o <file>: exit status and the rows of the export are compared) in real temporary trees: " +
			"a fixed scope (20 argument lists x -z x -R on one tree with plain / gzip / truncated gzip / empty files and nested directories, stdin forms, 26 argument lists x -R over a tree of pattern-named files and directories next to the siblings their names match as patterns (x[1].log+x1.log, s*.txt+sab.txt, w?.txt+wa.txt, r[a-c].log+rb.log, a\\*b+a*b, *+zz, g[1]/+g1/, h*/+hx/, malformed k[), walked directly, from a parent, and mixed with the same names as command-line patterns; 84 named-pipe cases (7 contents: 6 bytes, 2 bytes, empty, > 4096 bytes, gzip, gzip cut inside its header, gzip cut inside its body; as argument, next to a file, as glob match, below a -R directory; x -z) with a writer goroutine per pipe; 96 cases of the six aggregating commands x {no export, --csv -, -o file} x {missing input next to a good one, unparsable increment, nothing matched, all fine, duplicates + failure} and on (failing) standard input; 6 cases of 130-230 small inputs read with a descriptor limit of 40 (ulimit -n; --readers 1 and 3; glob, -R, -z over plain files): every input is closed when read, so all lines are present and there is no read error; 8 large single-input cases of fixed-width numbered records (1300 x 128 bytes as plain file, plain under -z, gzip under -z, standard input, with --batch 100000 so that every line is still held when the buffer is refilled; 2200 x 128 bytes with the default batch and 3 workers; 1300 x 128 bytes through a named pipe: plain, plain under -z, gzip under -z): a newline is exactly the last byte of a full 128 KiB read-ahead buffer and every record must be printed exactly once under its own line number; standard input failing while read: directory handle at CLI level, and at library level batchers.OpenReaderToChan + helpers.DetermineErrorState over a reader that fails after 0-3 lines) then seeded random trees (depth <= 3, names incl. glob metacharacters, a named pipe in 1 directory of 9 (made a regular file when the arguments mention it more than once: a pipe cannot be read twice), pattern-named entries paired with a sibling the name matches (1 directory in 3), malformed-pattern names, " +
			"files: plain, empty, gzip, truncated gzip (header/body/trailer), damaged trailer, damaged deflate body, multi-member, trailing garbage, plain > 4096 bytes) x 1-4 arguments (file, directory with or without trailing slash, glob, missing path, " +
			"duplicate, malformed pattern, the same file spelled with ./ // dir/.. missing/.. or a trailing /. , '-' first or later, none) x -z x -R x --readers 1-4 x --workers 1-3 x --batch {1,2,3,1000}. Oracles: os.Stat, filepath.Glob, os.ReadDir order, compress/gzip called by the harness on the same tree. " +
			"distinct = distinct (tree, arguments, flags, stdin); non-trivial = at least one of: a named pipe that is read, a directory walked by -R, a walked entry whose name read as a pattern would match something else, a glob with >= 2 matches, a pattern without match taken literally, a missing path next to other arguments, " +
			"a directory opened as a file, a duplicate mention, a malformed pattern, -z over a file that is not plain text, standard input (ending normally, or failing while being read: directory handle / failing reader), a failed input next to inputs whose lines were printed.",
		Gen: gen,
		Replay: func(d json.RawMessage) (Case, error) {
			var doc struct {
				Input c06In `json:"input"`
			}
			if err := json.Unmarshal(d, &doc); err != nil {
				return Case{}, err
			}
			if doc.Input.Readers == 0 {
				doc.Input.Readers = 1
			}
			if doc.Input.Workers == 0 {
				doc.Input.Workers = 1
			}
			if doc.Input.Batch == 0 {
				doc.Input.Batch = 1000
			}
			if doc.Input.Q == 0 {
				doc.Input.Q = 'Q'
			}
			return c06Case(doc.Input), nil
		},
		Shard: 25,
	})
}
