package main

import (
	"fmt"
	"os"
	"path/filepath"
	"sync"
	"time"

	"rare/pkg/followreader"
)

func appendTo(p string, s string) {
	f, err := os.OpenFile(p, os.O_APPEND|os.O_WRONLY, 0644)
	if err != nil {
		panic(err)
	}
	f.WriteString(s)
	f.Close()
}
func create(p string) {
	f, err := os.OpenFile(p, os.O_CREATE|os.O_EXCL|os.O_WRONLY, 0644)
	if err != nil {
		panic(err)
	}
	f.Close()
}

func trial(dir string, i int, gap time.Duration) string {
	p := filepath.Join(dir, fmt.Sprintf("f%d", i))
	create(p)
	appendTo(p, "AAAA")
	r, err := followreader.New(p, true, false)
	if err != nil {
		return "ERR " + err.Error()
	}
	var mu sync.Mutex
	var got []byte
	done := make(chan struct{})
	go func() {
		buf := make([]byte, 100)
		for {
			n, err := r.Read(buf)
			mu.Lock()
			got = append(got, buf[:n]...)
			mu.Unlock()
			if err != nil {
				close(done)
				return
			}
		}
	}()
	time.Sleep(20 * time.Millisecond)
	os.Remove(p)
	create(p)
	time.Sleep(gap)
	os.Remove(p)
	create(p)
	appendTo(p, "xyz")
	time.Sleep(30 * time.Millisecond)
	appendTo(p, "!")
	time.Sleep(30 * time.Millisecond)
	r.Close()
	appendTo(p, "?")
	select {
	case <-done:
	case <-time.After(500 * time.Millisecond):
	}
	mu.Lock()
	defer mu.Unlock()
	return string(got)
}

func main() {
	dir := os.Args[1]
	res := map[string]int{}
	for i := 0; i < 200; i++ {
		res[trial(dir, i, time.Duration(i%5)*20*time.Microsecond)]++
	}
	fmt.Println(res)
}
