package main

// C12: pkg/matchers/dissect CompileEx / DissectInstance.FindSubmatchIndex (+ case.go, slicepool.IntPool)
// against coq/Model/Dissect.v, IntPool.v, DissectRun.v.

import (
	"encoding/hex"
	"encoding/json"
	"errors"
	"bytes"
	"context"
	"fmt"
	"os"
	"os/exec"
	"sort"
	"strings"
	"sync"
	"time"

	"rare/pkg/matchers"
	"rare/pkg/matchers/dissect"
	. "verifh/lib"
)

type c12In struct {
	Mode    int      `json:"mode"` // 0 case-sensitive only, 1 ignore-case only, 2 both
	Pattern string   `json:"pattern_hex"`
	Lines   []string `json:"lines_hex"`
	// concurrent case: one line list per instance (all instances from one factory); Lines is unused
	Workers [][]string `json:"workers_lines_hex,omitempty"`
	// readable copies (not used by replay)
	PatternText string `json:"pattern_text,omitempty"`
}

type c12Name struct {
	Name string `json:"name_hex"`
	Idx  int    `json:"index"`
}

type c12Outcome struct {
	Run    bool      `json:"run"`
	Panic  string    `json:"panic,omitempty"`
	Err    int       `json:"compile_error"` // 0 none, 1 unclosed, 2 sequential, 3 key conflict, 7 other
	Names  []c12Name `json:"names,omitempty"`
	Ret    [][]int   `json:"results_at_return"` // nil entry = no match
	End    [][]int   `json:"results_at_end"`
	Hidden int       `json:"results_elided,omitempty"`
	// results whose re-read value differs from the value at return (must be 0)
	Altered      int `json:"results_altered_after_return"`
	FirstAltered int `json:"first_altered_index,omitempty"`
	// calls that panicked (recovered; such a call's result is recorded as [-1])
	CallPanics int    `json:"calls_panicked,omitempty"`
	PanicText  string `json:"first_call_panic,omitempty"`
}

// one instance of a concurrent case: used interleaved with the others in one goroutine, and
// (a fresh instance) in its own goroutine at the same time as the others
type c12WorkerOut struct {
	Inter c12Out `json:"interleaved"`
	Par   c12Out `json:"parallel"`
}

type c12Out struct {
	CS c12Outcome `json:"case_sensitive"`
	IC c12Outcome `json:"ignore_case"`
}

var c12Panicked = []int{-1} // recorded result of a call that panicked (never a valid result)

// FindSubmatchIndex under recover: a panic is the call's outcome, not the harness's
func matchSafe(m matchers.Matcher, line []byte) (r []int, msg string) {
	defer func() {
		if e := recover(); e != nil {
			r, msg = nil, "panic: "+fmt.Sprint(e)
		}
	}()
	return m.FindSubmatchIndex(line), ""
}

func newInstanceSafe(f matchers.Factory) (m matchers.Matcher, msg string) {
	defer func() {
		if e := recover(); e != nil {
			m, msg = nil, "panic: "+fmt.Sprint(e)
		}
	}()
	return f.CreateInstance(), ""
}

// compile once; the factory is what cmd/helpers hands to the extractor (matchers.ToFactory)
func c12Compile(pat string, ic bool) (f matchers.Factory, out c12Outcome) {
	out.Run = true
	defer func() {
		if e := recover(); e != nil {
			f, out = nil, c12Outcome{Run: true, Panic: fmt.Sprint(e)}
		}
	}()
	d, err := dissect.CompileEx(pat, ic)
	if err != nil {
		switch {
		case errors.Is(err, dissect.ErrorUnclosedToken):
			out.Err = 1
		case errors.Is(err, dissect.ErrorSequentialToken):
			out.Err = 2
		case errors.Is(err, dissect.ErrorKeyConflict):
			out.Err = 3
		default:
			out.Err = 7
		}
		return nil, out
	}
	return matchers.ToFactory(d), out
}

func c12Names(m matchers.Matcher) (ns []c12Name) {
	for k, v := range m.SubexpNameTable() {
		ns = append(ns, c12Name{hex.EncodeToString([]byte(k)), v})
	}
	sort.Slice(ns, func(i, j int) bool {
		if ns[i].Idx != ns[j].Idx {
			return ns[i].Idx < ns[j].Idx
		}
		return ns[i].Name < ns[j].Name
	})
	return
}

func sameInts(a, b []int) bool {
	if (a == nil) != (b == nil) || len(a) != len(b) {
		return false
	}
	for i := range a {
		if a[i] != b[i] {
			return false
		}
	}
	return true
}

// one instance's bookkeeping: every returned slice is kept and re-read at the end
type c12Held struct {
	out  c12Outcome
	held [][]int
}

func newHeld(n int) *c12Held {
	h := &c12Held{held: make([][]int, n)}
	h.out.Run = true
	h.out.Ret = make([][]int, n)
	h.out.End = make([][]int, n)
	return h
}

func (h *c12Held) call(m matchers.Matcher, i int, line []byte) {
	r, msg := matchSafe(m, line)
	if msg != "" {
		if h.out.CallPanics == 0 {
			h.out.PanicText = msg
		}
		h.out.CallPanics++
		h.out.Ret[i] = c12Panicked
		return
	}
	h.held[i] = r
	if r != nil {
		h.out.Ret[i] = append([]int{}, r...)
	}
}

func (h *c12Held) reread() {
	for i, r := range h.held {
		if sameInts(h.out.Ret[i], c12Panicked) {
			h.out.End[i] = c12Panicked
			continue
		}
		if r != nil {
			h.out.End[i] = append([]int{}, r...)
			if !sameInts(h.out.End[i], h.out.Ret[i]) {
				if h.out.Altered == 0 {
					h.out.FirstAltered = i
				}
				h.out.Altered++
			}
		}
	}
}

// SEQUENCE: one Dissect compiled once, ONE instance, every line in order, every returned slice
// re-read after the last call
func c12RunMode(pat string, lines [][]byte, ic bool) (out c12Outcome) {
	f, out := c12Compile(pat, ic)
	if f == nil {
		return out
	}
	inst, msg := newInstanceSafe(f)
	if inst == nil {
		return c12Outcome{Run: true, Panic: msg}
	}
	h := newHeld(len(lines))
	h.out.Names = c12Names(inst)
	for i, l := range lines {
		h.call(inst, i, l)
	}
	h.reread()
	return h.out
}

// CONCURRENT: one Dissect compiled once, one factory, one instance per worker.
// Phase 1 (deterministic): the instances are used interleaved (round-robin) in one goroutine.
// Phase 2: a fresh instance per goroutine (created inside it, as extractor.asyncWorker does), all
// started together, each matching its own lines for several rounds. Reported per line: the round-0
// result, unless some round returned (or some slice re-read as) something else - then that value.
func c12RunWorkersMode(pat string, workers [][][]byte, ic bool) (inter, par []c12Outcome) {
	W := len(workers)
	inter, par = make([]c12Outcome, W), make([]c12Outcome, W)
	f, out := c12Compile(pat, ic)
	if f == nil {
		for k := range workers {
			inter[k], par[k] = out, out
		}
		return
	}
	// phase 1
	insts := make([]matchers.Matcher, W)
	hs := make([]*c12Held, W)
	maxLen := 0
	for k := range workers {
		var msg string
		insts[k], msg = newInstanceSafe(f)
		hs[k] = newHeld(len(workers[k]))
		if insts[k] == nil {
			hs[k].out = c12Outcome{Run: true, Panic: msg}
			continue
		}
		hs[k].out.Names = c12Names(insts[k])
		if len(workers[k]) > maxLen {
			maxLen = len(workers[k])
		}
	}
	for j := 0; j < maxLen; j++ {
		for k := range workers {
			if insts[k] != nil && j < len(workers[k]) {
				hs[k].call(insts[k], j, workers[k][j])
			}
		}
	}
	for k := range workers {
		if insts[k] != nil {
			hs[k].reread()
		}
		inter[k] = hs[k].out
	}
	// phase 2
	start := make(chan struct{})
	var wg sync.WaitGroup
	for k := range workers {
		wg.Add(1)
		go func(k int) {
			defer wg.Done()
			defer func() { // anything outside the guarded calls
				if e := recover(); e != nil {
					par[k] = c12Outcome{Run: true, Panic: fmt.Sprint(e)}
				}
			}()
			lines := workers[k]
			<-start
			inst, msg := newInstanceSafe(f)
			if inst == nil {
				par[k] = c12Outcome{Run: true, Panic: msg}
				return
			}
			rounds := 1
			if len(lines) > 0 {
				rounds = 1 + 1500/len(lines)
			}
			first := newHeld(len(lines))
			first.out.Names = c12Names(inst)
			var later []*c12Held
			for rd := 0; rd < rounds; rd++ {
				h := first
				if rd > 0 {
					h = newHeld(len(lines))
					later = append(later, h)
				}
				for i, l := range lines {
					h.call(inst, i, l)
				}
			}
			first.reread()
			res := first.out
			for _, h := range later {
				h.reread()
				for i := range lines {
					if !sameInts(h.out.Ret[i], first.out.Ret[i]) && sameInts(res.Ret[i], first.out.Ret[i]) {
						res.Ret = append([][]int{}, res.Ret...)
						res.Ret[i] = h.out.Ret[i]
						if res.Ret[i] == nil {
							res.Ret[i] = []int{-2} // a later round missed where round 0 matched
						}
					}
					if !sameInts(h.out.End[i], first.out.End[i]) && sameInts(res.End[i], first.out.End[i]) {
						res.End = append([][]int{}, res.End...)
						res.End[i] = h.out.End[i]
						if res.End[i] == nil {
							res.End[i] = []int{-2}
						}
					}
				}
				res.Altered += h.out.Altered
				res.CallPanics += h.out.CallPanics
				if res.PanicText == "" {
					res.PanicText = h.out.PanicText
				}
			}
			par[k] = res
		}(k)
	}
	close(start)
	wg.Wait()
	return
}

// The concurrent runs happen in a child process (this binary, mode "c12-workers"): instances that
// wrongly share state can corrupt memory under a race, which ends in a fatal runtime error that no
// recover() catches. A child that dies is recorded as the outcome "did not complete" of every
// instance of the case; the harness itself goes on.
func c12RunWorkers(in c12In) []c12WorkerOut {
	crashed := func(msg string) []c12WorkerOut {
		outs := make([]c12WorkerOut, len(in.Workers))
		p := c12Outcome{Run: true, Panic: msg}
		for k := range outs {
			if in.Mode != 1 {
				outs[k].Inter.CS, outs[k].Par.CS = p, p
			}
			if in.Mode != 0 {
				outs[k].Inter.IC, outs[k].Par.IC = p, p
			}
		}
		return outs
	}
	inb, _ := json.Marshal(in)
	ctx, cancel := context.WithTimeout(context.Background(), 60*time.Second)
	defer cancel()
	cmd := exec.CommandContext(ctx, os.Args[0], "c12-workers")
	cmd.Stdin = bytes.NewReader(inb)
	var stdout, stderr bytes.Buffer
	cmd.Stdout, cmd.Stderr = &stdout, &stderr
	if err := cmd.Run(); err != nil {
		first := strings.SplitN(strings.TrimSpace(stderr.String()), "\n", 2)[0]
		if len(first) > 200 {
			first = first[:200]
		}
		return crashed(fmt.Sprintf("concurrent run died (%v): %s", err, first))
	}
	var outs []c12WorkerOut
	if err := json.Unmarshal(stdout.Bytes(), &outs); err != nil || len(outs) != len(in.Workers) {
		return crashed("concurrent run produced no result")
	}
	return outs
}

func c12RunWorkersDirect(in c12In) []c12WorkerOut {
	pat, _ := hex.DecodeString(in.Pattern)
	workers := make([][][]byte, len(in.Workers))
	for k, ls := range in.Workers {
		workers[k] = make([][]byte, len(ls))
		for i, l := range ls {
			workers[k][i], _ = hex.DecodeString(l)
		}
	}
	outs := make([]c12WorkerOut, len(workers))
	if in.Mode != 1 {
		inter, par := c12RunWorkersMode(string(pat), workers, false)
		for k := range outs {
			outs[k].Inter.CS, outs[k].Par.CS = inter[k], par[k]
		}
	}
	if in.Mode != 0 {
		inter, par := c12RunWorkersMode(string(pat), workers, true)
		for k := range outs {
			outs[k].Inter.IC, outs[k].Par.IC = inter[k], par[k]
		}
	}
	return outs
}

func c12Run(in c12In) c12Out {
	pat, _ := hex.DecodeString(in.Pattern)
	lines := make([][]byte, len(in.Lines))
	for i, l := range in.Lines {
		lines[i], _ = hex.DecodeString(l)
	}
	var out c12Out
	if in.Mode != 1 {
		out.CS = c12RunMode(string(pat), lines, false)
	}
	if in.Mode != 0 {
		out.IC = c12RunMode(string(pat), lines, true)
	}
	return out
}

// a long text as a Coq list of string literals of at most 2000 characters
func chunks(t string) string {
	var ps []string
	for len(t) > 2000 {
		ps = append(ps, "\""+t[:2000]+"\"")
		t = t[2000:]
	}
	ps = append(ps, "\""+t+"\"")
	return "[" + strings.Join(ps, ";") + "]"
}

// results as one text: "-" = nil, else offsets separated by ','; every result terminated by ';'
func coqRes(rs [][]int) string {
	var sb strings.Builder
	for _, r := range rs {
		if r == nil {
			sb.WriteString("-")
		} else {
			for j, v := range r {
				if j > 0 {
					sb.WriteString(",")
				}
				sb.WriteString(fmt.Sprint(v))
			}
		}
		sb.WriteString(";")
	}
	return chunks(sb.String())
}

// long sequences: tables of distinct lines / results, one character ('0'+index) per call; only when
// both tables have at most 75 entries (otherwise the plain form is used)
func coqCompact(in c12In, out c12Out) (string, bool) {
	const maxTbl = 75
	lidx := map[string]int{}
	var ltbl []string
	var seq strings.Builder
	for _, l := range in.Lines {
		i, ok := lidx[l]
		if !ok {
			i = len(ltbl)
			lidx[l] = i
			ltbl = append(ltbl, "\""+l+"\"")
		}
		seq.WriteByte(byte('0' + i))
	}
	if len(ltbl) > maxTbl {
		return "", false
	}
	ridx := map[string]int{}
	var rtbl []string
	code := func(rs [][]int) string {
		var sb strings.Builder
		for _, r := range rs {
			k := "Nil"
			if r != nil {
				ps := make([]string, len(r))
				for j, v := range r {
					ps[j] = Z(int64(v))
				}
				k = "S_ [" + strings.Join(ps, ";") + "]"
			}
			i, ok := ridx[k]
			if !ok {
				i = len(rtbl)
				ridx[k] = i
				rtbl = append(rtbl, k)
			}
			sb.WriteByte(byte('0' + i%200))
		}
		return sb.String()
	}
	type enc struct{ ret, end string }
	encs := map[*c12Outcome]enc{}
	for _, o := range []*c12Outcome{&out.CS, &out.IC} {
		if o.Run && o.Panic == "" && o.Err == 0 {
			encs[o] = enc{code(o.Ret), code(o.End)}
		}
	}
	if len(rtbl) > maxTbl {
		return "", false
	}
	oc := func(o *c12Outcome) string {
		e, ok := encs[o]
		if !ok {
			return coqOutcome(*o)
		}
		ns := make([]string, len(o.Names))
		for i, n := range o.Names {
			ns[i] = fmt.Sprintf("(\"%s\",%s)", n.Name, Z(int64(n.Idx)))
		}
		return "(KL " + CoqList(ns) + " " + CoqList(rtbl) + " " + chunks(e.ret) + " " + chunks(e.end) + ")"
	}
	return fmt.Sprintf("cL %d \"%s\" %s %s %s %s", in.Mode, in.Pattern, CoqList(ltbl), chunks(seq.String()), oc(&out.CS), oc(&out.IC)), true
}

func coqOutcome(o c12Outcome) string {
	switch {
	case !o.Run:
		return "NO"
	case o.Panic != "":
		return "P"
	case o.Err != 0:
		return fmt.Sprintf("(E %d)", o.Err)
	}
	ns := make([]string, len(o.Names))
	for i, n := range o.Names {
		ns[i] = fmt.Sprintf("(\"%s\",%s)", n.Name, Z(int64(n.Idx)))
	}
	return "(K " + CoqList(ns) + " " + coqRes(o.Ret) + " " + coqRes(o.End) + ")"
}

// ---- the pattern as the (repaired) compiler reads it: literals, and the domains of the known findings ----
type c12Shape struct {
	prefix   string
	untils   []string
	keys     []string
	errStop  bool // walk ended at an unclosed or sequential token
	pctSplit bool // some trailing literal contains a '%' that does not start "%{"  (defect #24)
}

func c12Shape_(p string) (s c12Shape) {
	start := strings.Index(p, "%{")
	if start < 0 {
		s.prefix = p
		return
	}
	s.prefix = p[:start]
	for {
		p = p[start+2:]
		stop := strings.Index(p, "}")
		if stop < 0 {
			s.errStop = true
			return
		}
		s.keys = append(s.keys, p[:stop])
		p = p[stop+1:]
		i1, i2 := strings.Index(p, "%"), strings.Index(p, "%{")
		if i1 != i2 {
			s.pctSplit = true
		}
		if i2 == 0 {
			s.errStop = true
			return
		}
		if i2 < 0 {
			s.untils = append(s.untils, p)
			return
		}
		s.untils = append(s.untils, p[:i2])
		p = p[i2:]
		start = 0
	}
}

func nonASCII(s string) bool {
	for i := 0; i < len(s); i++ {
		if s[i] >= 0x80 {
			return true
		}
	}
	return false
}

func c12Case(in c12In) Case {
	patb, _ := hex.DecodeString(in.Pattern)
	pat := string(patb)
	var out c12Out
	var coq string
	var implDesc any
	lines := in.Lines
	if len(in.Workers) > 0 {
		// concurrent case: a group of runs, two per instance; for the tags, all workers flattened
		wouts := c12RunWorkers(in)
		var items []string
		lines = nil
		merge := func(dst *c12Outcome, src c12Outcome) {
			if !dst.Run {
				*dst = src
				dst.Ret = append([][]int{}, src.Ret...)
				return
			}
			dst.Ret = append(dst.Ret, src.Ret...)
			if dst.Panic == "" {
				dst.Panic = src.Panic
			}
			dst.CallPanics += src.CallPanics
		}
		for k, wo := range wouts {
			for _, o := range []c12Out{wo.Inter, wo.Par} {
				items = append(items, fmt.Sprintf("one %d \"%s\" %s %s %s", in.Mode, in.Pattern, q(in.Workers[k]), coqOutcome(o.CS), coqOutcome(o.IC)))
			}
			lines = append(lines, in.Workers[k]...)
			merge(&out.CS, wo.Inter.CS)
			merge(&out.IC, wo.Inter.IC)
		}
		coq = "cG " + CoqList(items)
		implDesc = wouts
	} else {
		out = c12Run(in)
		coq = fmt.Sprintf("c %d \"%s\" %s %s %s", in.Mode, in.Pattern, q(in.Lines), coqOutcome(out.CS), coqOutcome(out.IC))
		if len(in.Lines) > 500 {
			if cc, ok := coqCompact(in, out); ok {
				coq = cc
			}
		}
	}

	sh := c12Shape_(pat)
	tags := []string{fmt.Sprintf("mode=%d", in.Mode)}
	litNonASCII := nonASCII(sh.prefix)
	for _, u := range sh.untils {
		litNonASCII = litNonASCII || nonASCII(u)
	}
	// domains of the known findings, decided from the input alone
	if in.Mode != 0 && litNonASCII {
		tags = append(tags, "kf:C12-ignorecase-fold")
	}
	if sh.pctSplit {
		tags = append(tags, "kf:C12-literal-percent")
	}
	ntok := len(sh.keys)
	switch {
	case ntok == 0:
		tags = append(tags, "tokens=0")
	case ntok == 1:
		tags = append(tags, "tokens=1")
	case ntok <= 3:
		tags = append(tags, "tokens=2-3")
	default:
		tags = append(tags, "tokens>=4")
	}
	skip := false
	for _, k := range sh.keys {
		if k == "" || k[0] == '?' {
			skip = true
		}
	}
	if skip {
		tags = append(tags, "skipped-token")
	}
	if sh.prefix != "" {
		tags = append(tags, "prefix")
	}
	if len(sh.untils) > 0 && sh.untils[len(sh.untils)-1] == "" {
		tags = append(tags, "last-token-to-eol")
	}
	if litNonASCII {
		tags = append(tags, "multibyte-literal")
	}
	ref := out.CS
	if !ref.Run {
		ref = out.IC
	}
	switch ref.Err {
	case 1:
		tags = append(tags, "err=unclosed")
	case 2:
		tags = append(tags, "err=sequential")
	case 3:
		tags = append(tags, "err=conflict")
	}
	if ref.Panic != "" || out.CS.CallPanics+out.IC.CallPanics > 0 {
		tags = append(tags, "impl-panic")
	}
	if len(in.Workers) > 0 {
		tags = append(tags, "concurrent-instances", fmt.Sprintf("workers=%d", len(in.Workers)))
	} else if len(in.Lines) >= 8 && len(in.Lines) < 3000 {
		tags = append(tags, "sequence-8..60")
	}
	matched, missed, icAdds := 0, 0, 0
	for i := range ref.Ret {
		if ref.Ret[i] != nil {
			matched++
		} else {
			missed++
		}
		if out.CS.Run && out.IC.Run && i < len(out.IC.Ret) && out.CS.Ret[i] == nil && out.IC.Ret[i] != nil {
			icAdds++
		}
	}
	if matched > 0 {
		tags = append(tags, "some-line-matches")
	}
	if missed > 0 {
		tags = append(tags, "some-line-misses")
	}
	if icAdds > 0 {
		tags = append(tags, "ignore-case-adds-match")
	}
	if len(lines) >= 3000 {
		tags = append(tags, "sequence>=3000(pool refills)")
	}
	// searching restarts: a delimiter occurs more than once in a line
	restart := false
	for _, lh := range lines[:min(len(lines), 50)] {
		lb, _ := hex.DecodeString(lh)
		for _, u := range sh.untils {
			if u != "" && strings.Count(string(lb), u) >= 2 {
				restart = true
			}
		}
		if sh.prefix != "" && strings.Count(string(lb), sh.prefix) >= 2 {
			restart = true
		}
	}
	if restart {
		tags = append(tags, "literal-occurs-twice")
	}
	// keep descriptions of very long sequences readable: elide results in the JSON (the Coq term has all)
	if implDesc == nil {
		desc := out
		if len(in.Lines) > 200 {
			desc.CS = elide(desc.CS)
			desc.IC = elide(desc.IC)
		}
		implDesc = desc
	}
	in.PatternText = fmt.Sprintf("%q", pat)
	kb, _ := json.Marshal(struct {
		M int
		P string
		L []string
		W [][]string
	}{in.Mode, in.Pattern, in.Lines, in.Workers})
	nontrivial := ref.Err != 0 || (ntok >= 1 && matched > 0 && (ntok >= 2 || skip || sh.prefix != "" || restart))
	return Case{Coq: coq, Desc: map[string]any{"input": in, "impl": implDesc}, Key: string(kb), Nontrivial: nontrivial, Tags: tags}
}

func elide(o c12Outcome) c12Outcome {
	if len(o.Ret) > 200 {
		o.Hidden = len(o.Ret) - 200
		o.Ret = o.Ret[:200]
		o.End = o.End[:200]
	}
	return o
}

// lines as one text: hex of each line, each terminated by ';'
func q(xs []string) string {
	var sb strings.Builder
	for _, x := range xs {
		sb.WriteString(x)
		sb.WriteString(";")
	}
	return chunks(sb.String())
}

// ---------------------------------------------------------------- generators

var c12Alpha = []string{"a", "b", "A", "\xc3\xa9", "%", " "}
var c12Extra = []string{";", "B", "\xc3\x89", "{", "}", "?", "Z", "[", "@", "z"}

func c12Lit(r *Rng, lo, hi int) string {
	n := r.Range(lo, hi)
	var sb strings.Builder
	for i := 0; i < n; i++ {
		if r.Chance(1, 14) {
			sb.WriteString(Pick(r, c12Extra))
		} else {
			sb.WriteString(Pick(r, c12Alpha))
		}
	}
	return sb.String()
}

// ASCII-only literal (keeps the case out of the domain of the ignore-case finding)
func c12LitASCII(r *Rng, lo, hi int, pct bool) string {
	al := []string{"a", "b", "A", " ", ";", "B", "Z", "z", "-"}
	if pct {
		al = append(al, "%")
	}
	n := r.Range(lo, hi)
	var sb strings.Builder
	for i := 0; i < n; i++ {
		sb.WriteString(Pick(r, al))
	}
	return sb.String()
}

type c12Pat struct {
	prefix string
	keys   []string
	untils []string
	text   string
}

func c12Pattern(r *Rng) c12Pat {
	var p c12Pat
	flavour := r.Intn(10) // 0-3: ASCII without '%' in literals (outside both finding domains), 4-5: ASCII with '%', else full alphabet
	lit := func(lo, hi int) string {
		switch {
		case flavour < 4:
			return c12LitASCII(r, lo, hi, false)
		case flavour < 6:
			return c12LitASCII(r, lo, hi, true)
		}
		return c12Lit(r, lo, hi)
	}
	if r.Chance(3, 5) {
		p.prefix = lit(1, 4)
	}
	ntok := r.Range(1, 5)
	if r.Chance(1, 20) {
		ntok = 0
	}
	nameNo := 0
	var used []string
	for i := 0; i < ntok; i++ {
		var key string
		switch x := r.Intn(10); {
		case x < 6:
			key = fmt.Sprintf("k%d", nameNo)
			nameNo++
			if r.Chance(1, 8) {
				key = Pick(r, []string{"a", "A", "\xc3\xa9", "a b", "%", "k?"})
			}
			if len(used) > 0 && r.Chance(1, 16) {
				key = Pick(r, used) // key conflict
			}
			used = append(used, key)
		case x < 8:
			key = "?" + Pick(r, []string{"s", "k0", "", "?"})
		default:
			key = ""
		}
		var until string
		if i+1 < ntok {
			until = lit(1, 4)
			if r.Chance(1, 25) {
				until = "" // sequential tokens
			}
		} else if r.Chance(1, 2) {
			until = lit(1, 4)
		}
		p.keys = append(p.keys, key)
		p.untils = append(p.untils, until)
	}
	var sb strings.Builder
	sb.WriteString(p.prefix)
	for i := range p.keys {
		sb.WriteString("%{" + p.keys[i] + "}" + p.untils[i])
	}
	p.text = sb.String()
	if r.Chance(1, 25) { // unclosed token
		cut := strings.LastIndex(p.text, "}")
		if cut >= 0 {
			p.text = p.text[:cut]
		} else {
			p.text += "%{"
		}
	}
	if r.Chance(1, 30) {
		p.text += Pick(r, []string{"%", "%{", "%%", "}", "%}", "{"})
	}
	return p
}

func c12VaryCase(r *Rng, s string, how int) string {
	if how == 0 {
		return s
	}
	b := []byte(s)
	for i := 0; i < len(b); i++ {
		c := b[i]
		flip := how == 2 || r.Bool()
		switch {
		case flip && c >= 'a' && c <= 'z':
			b[i] = c - 32
		case flip && c >= 'A' && c <= 'Z':
			b[i] = c + 32
		case flip && c == 0xa9 && i > 0 && b[i-1] == 0xc3: // é -> É
			b[i] = 0x89
		case flip && c == 0x89 && i > 0 && b[i-1] == 0xc3:
			b[i] = 0xa9
		}
	}
	return string(b)
}

// a line built from the pattern: fillers that contain delimiters, overlap the prefix, or miss a delimiter
func c12Line(r *Rng, p c12Pat) []byte {
	switch x := r.Intn(20); {
	case x == 0: // arbitrary bytes
		b := make([]byte, r.Intn(14))
		for i := range b {
			b[i] = byte(r.Intn(256))
		}
		return b
	case x == 1: // alphabet soup
		return []byte(c12Lit(r, 0, 12))
	case x == 2:
		return nil
	}
	how := 0
	if r.Chance(2, 5) {
		how = 1 + r.Intn(2)
	}
	omit := -2
	if r.Chance(1, 7) {
		omit = r.Range(-1, len(p.untils)-1) // -1: omit the prefix
	}
	var sb strings.Builder
	// leading junk, possibly a partial prefix (overlap) or the prefix in another case
	switch r.Intn(5) {
	case 0:
		sb.WriteString(c12Lit(r, 0, 3))
	case 1:
		if len(p.prefix) > 0 {
			sb.WriteString(p.prefix[:r.Intn(len(p.prefix))+0])
		}
	case 2:
		if len(p.prefix) > 0 {
			sb.WriteString(p.prefix[:len(p.prefix)-1] + p.prefix[:r.Intn(len(p.prefix))])
		}
	case 3:
		sb.WriteString(c12VaryCase(r, p.prefix, 2))
	}
	if omit != -1 {
		sb.WriteString(c12VaryCase(r, p.prefix, how))
	}
	for i, u := range p.untils {
		// filler
		switch r.Intn(8) {
		case 0:
		case 1, 2:
			sb.WriteString(c12Lit(r, 0, 5))
		case 3: // partial delimiter, then more text
			if len(u) > 0 {
				sb.WriteString(u[:r.Intn(len(u))] + c12Lit(r, 0, 2))
			}
		case 4: // a complete earlier occurrence of this delimiter (in some case variant)
			sb.WriteString(c12Lit(r, 0, 2) + c12VaryCase(r, u, r.Intn(3)) + c12Lit(r, 0, 2))
		case 5: // the next token's delimiter
			if i+1 < len(p.untils) {
				sb.WriteString("x" + p.untils[i+1])
			}
		case 6: // the prefix again
			sb.WriteString(p.prefix + "a")
		default:
			sb.WriteString(Pick(r, []string{"v", "123", "val ue", "AbA"}))
		}
		if omit != i {
			sb.WriteString(c12VaryCase(r, u, how))
		} else if len(u) > 1 && r.Bool() {
			sb.WriteString(u[:len(u)-1])
		}
	}
	if r.Chance(1, 2) {
		sb.WriteString(c12Lit(r, 0, 3))
	}
	return []byte(sb.String())
}

// a sequence with history for ONE instance: repeats of the previous / an earlier line, a line
// shorter or longer than the previous one, same length with one byte changed, fresh lines
func c12Sequence(r *Rng, p c12Pat, n int) [][]byte {
	var ls [][]byte
	for len(ls) < n {
		var l []byte
		x := r.Intn(11)
		if len(ls) == 0 {
			x = 0
		}
		var prev []byte
		if len(ls) > 0 {
			prev = ls[len(ls)-1]
		}
		switch {
		case x < 4:
			l = c12Line(r, p)
		case x == 4:
			l = append([]byte{}, prev...)
		case x == 5:
			l = append([]byte{}, ls[r.Intn(len(ls))]...)
		case x == 6: // shorter: a proper prefix of the previous line
			l = append([]byte{}, prev[:r.Intn(len(prev)+1)]...)
		case x == 7: // longer: the previous line plus more
			l = append(append([]byte{}, prev...), []byte(c12Lit(r, 1, 4))...)
		case x == 8: // longer: the previous line twice
			l = append(append([]byte{}, prev...), prev...)
		case x == 9: // same length, one byte changed
			l = append([]byte{}, prev...)
			if len(l) > 0 {
				i := r.Intn(len(l))
				switch {
				case l[i] >= 'a' && l[i] <= 'z':
					l[i] -= 32
				case l[i] >= 'A' && l[i] <= 'Z':
					l[i] += 32
				default:
					l[i] = Pick(r, []byte{'a', 'b', ' ', ';', 'x'})
				}
			}
		default: // shorter: the previous line without its first bytes
			l = append([]byte{}, prev[min(len(prev), r.Intn(3)+1):]...)
		}
		ls = append(ls, l)
	}
	return ls
}

func hexAll(ls [][]byte) []string {
	out := make([]string, len(ls))
	for i, l := range ls {
		out[i] = hex.EncodeToString(l)
	}
	return out
}

// several instances of one compiled pattern, each with its own lines
func c12Concurrent(r *Rng, p c12Pat, pat string, mode int) Case {
	w := r.Range(2, 4)
	if r.Chance(1, 6) {
		w = r.Range(5, 8)
	}
	ws := make([][]string, w)
	for k := range ws {
		ws[k] = hexAll(c12Sequence(r, p, r.Range(2, 12)))
	}
	return c12Case(c12In{Mode: mode, Pattern: hex.EncodeToString([]byte(pat)), Workers: ws})
}

// ---- bytewise literals: the specification is "first occurrence of the literal's BYTES" ----
// literal atoms: single ASCII byte, multi-byte runes, U+FFFD, lone invalid bytes, truncated prefixes
var c12ByteAtoms = []string{
	" ", ";", "|", "a", // single ASCII byte
	"\xc3\xa9", "\xe2\x94\x82", "\xf0\x9f\x98\x80", // e-acute, box-drawing bar, 4-byte rune
	"\xef\xbf\xbd",                 // U+FFFD itself
	"\xff", "\xc3", "\x80", "\xfe", // lone invalid bytes (lead byte without continuation, stray continuation)
	"\xe2\x94", "\xf0\x9f", "\xef\xbf", // truncated multi-byte prefixes
}

// other invalid / confusable sequences that are NOT the literal: they surround it in the lines
var c12ByteNoise = []string{
	"\xe9", "\x80", "\xbf", "\xc3", "\xff", "\xfe", "\xc0\xaf", "\xed\xa0\x80", "\xf0\x9f", "\xe2\x94", "\xef\xbf", "\xef\xbf\xbd",
	"\xc3\xa9", "\xe2\x94\x82", "caf", "x", " ", "=", "ok", "\xf4\x90\x80\x80", "\xbd",
}

func c12ByteLit(r *Rng) string {
	switch r.Intn(10) {
	case 0, 1, 2, 3, 4, 5: // exactly one atom: "one rune" (or one invalid byte) literals
		return Pick(r, c12ByteAtoms)
	case 6, 7: // mixtures
		return Pick(r, c12ByteAtoms) + Pick(r, c12ByteAtoms)
	default:
		return Pick(r, c12ByteAtoms) + Pick(r, []string{"a", " ", "="}) + Pick(r, c12ByteAtoms)
	}
}

func c12ByteNoiseStr(r *Rng, lo, hi int) string {
	var sb strings.Builder
	for i, n := 0, r.Range(lo, hi); i < n; i++ {
		sb.WriteString(Pick(r, c12ByteNoise))
	}
	return sb.String()
}

// pattern with such literals as leading, inner and trailing literal
func c12BytePattern(r *Rng) c12Pat {
	var p c12Pat
	if r.Chance(1, 2) {
		p.prefix = c12ByteLit(r)
	}
	ntok := r.Range(1, 3)
	for i := 0; i < ntok; i++ {
		key := fmt.Sprintf("k%d", i)
		if r.Chance(1, 5) {
			key = Pick(r, []string{"", "?s"})
		}
		until := ""
		if i+1 < ntok || r.Chance(2, 3) {
			until = c12ByteLit(r)
		}
		p.keys = append(p.keys, key)
		p.untils = append(p.untils, until)
	}
	var sb strings.Builder
	sb.WriteString(p.prefix)
	for i := range p.keys {
		sb.WriteString("%{" + p.keys[i] + "}" + p.untils[i])
	}
	p.text = sb.String()
	return p
}

// a line for such a pattern: the literals present or absent, with OTHER invalid sequences (and
// look-alikes: U+FFFD where the literal is \xff, a stray byte where it is U+FFFD, a prefix of the
// literal) before, between and after them
func c12ByteLine(r *Rng, p c12Pat) []byte {
	var sb strings.Builder
	omit := -2
	if r.Chance(1, 3) {
		omit = r.Range(-1, len(p.untils)-1)
	}
	sb.WriteString(c12ByteNoiseStr(r, 0, 3))
	if omit != -1 {
		sb.WriteString(p.prefix)
	} else if len(p.prefix) > 1 && r.Bool() {
		sb.WriteString(p.prefix[:len(p.prefix)-1])
	}
	for i, u := range p.untils {
		sb.WriteString(c12ByteNoiseStr(r, 0, 4))
		if len(u) > 1 && r.Chance(1, 4) { // a truncated copy of the delimiter first
			sb.WriteString(u[:r.Range(1, len(u)-1)] + Pick(r, []string{"", "x", "\xe9"}))
		}
		if omit != i {
			sb.WriteString(u)
		}
	}
	sb.WriteString(c12ByteNoiseStr(r, 0, 3))
	return []byte(sb.String())
}

func c12ByteCase(r *Rng) Case {
	p := c12BytePattern(r)
	n := r.Range(2, 8)
	lines := make([][]byte, n)
	for i := range lines {
		lines[i] = c12ByteLine(r, p)
	}
	mode := 0 // the case-sensitive search is the one that is bytewise on both sides; also both modes
	switch r.Intn(6) {
	case 0:
		mode = 1
	case 1, 2:
		mode = 2
	}
	c := c12MkCase(mode, p.text, lines)
	c.Tags = append(c.Tags, "bytewise-literals(U+FFFD/invalid-bytes)")
	return c
}

// ---- ASCII bytes that differ only in bit 0x20: only A-Z / a-z are a case pair ----
// '@'/'`', '['/'{', '\\'/'|', ']'/'}', '^'/'~', '_'/DEL are NOT; ignore-case must keep them apart
var c12PairBytes = []byte{'@', '`', '[', '{', '\\', '|', ']', '}', '^', '~', '_', 0x7f}
var c12PairOther = []byte{'a', 'A', 'z', 'Z', 'm', 'M', ' ', '0', ':', '"', '='}

func c12PairLit(r *Rng) string {
	n := r.Range(1, 3)
	b := make([]byte, n)
	for i := range b {
		if i == 0 || r.Chance(1, 2) {
			b[i] = Pick(r, c12PairBytes)
		} else {
			b[i] = Pick(r, c12PairOther)
		}
	}
	if r.Chance(1, 3) { // exactly one punctuation byte: the commonest delimiter shape
		b = b[:1]
	}
	return string(b)
}

// the same text with bit 0x20 flipped in its letters and in its A..z punctuation (all or some)
func c12Partner(r *Rng, s string, all bool) string {
	b := []byte(s)
	for i, c := range b {
		if (c >= '@' && c <= 0x7f) && (all || r.Bool()) {
			b[i] = c ^ 0x20
		}
	}
	return string(b)
}

func c12PairCase(r *Rng) Case {
	var p c12Pat
	if r.Chance(3, 5) {
		p.prefix = c12PairLit(r)
	}
	ntok := r.Range(1, 3)
	for i := 0; i < ntok; i++ {
		key := fmt.Sprintf("k%d", i)
		if r.Chance(1, 6) {
			key = ""
		}
		until := ""
		if i+1 < ntok || r.Chance(2, 3) {
			until = c12PairLit(r)
		}
		p.keys = append(p.keys, key)
		p.untils = append(p.untils, until)
	}
	var sb strings.Builder
	sb.WriteString(p.prefix)
	for i := range p.keys {
		sb.WriteString("%{" + p.keys[i] + "}" + p.untils[i])
	}
	p.text = sb.String()
	fill := func() string {
		return Pick(r, []string{"", "x", "12:00", "svc", "A b", "warn", "\"v\":1"})
	}
	lines := make([][]byte, r.Range(2, 7))
	for i := range lines {
		var lb strings.Builder
		omit := -2
		if r.Chance(1, 4) {
			omit = r.Range(-1, len(p.untils)-1)
		}
		lits := append([]string{p.prefix}, p.untils...)
		for j, lit := range lits {
			if j > 0 {
				lb.WriteString(fill())
			}
			if lit == "" {
				continue
			}
			// the 0x20-partner of the literal at or before the real one
			switch r.Intn(4) {
			case 0:
				lb.WriteString(c12Partner(r, lit, true) + fill())
			case 1:
				lb.WriteString(fill() + c12Partner(r, lit, false) + fill())
			}
			if omit != j-1 {
				if r.Chance(1, 3) {
					lb.WriteString(c12VaryCase(r, lit, 1)) // letters in the other case: a genuine ignore-case match
				} else {
					lb.WriteString(lit)
				}
			}
		}
		lb.WriteString(fill())
		lines[i] = []byte(lb.String())
	}
	mode := 2
	if r.Chance(1, 3) {
		mode = 1
	}
	c := c12MkCase(mode, p.text, lines)
	c.Tags = append(c.Tags, "bit-0x20-pairs([{ \\\\| ]} ^~ _DEL @`)")
	return c
}

// exhaustive: every ASCII byte b as a one-byte pattern, every ASCII byte c as the line "c" and as the
// line "c b" (candidate before the real literal), ignore-case. Per the model, ignore-case matches
// at c iff lower(b) = lower(c).
func c12Sweep() []Case {
	var cases []Case
	for b := 0; b < 128; b++ {
		lines := make([][]byte, 0, 256)
		for c := 0; c < 128; c++ {
			lines = append(lines, []byte{byte(c)}, []byte{byte(c), byte(b)})
		}
		cs := c12MkCase(1, string([]byte{byte(b)}), lines)
		cs.Tags = append(cs.Tags, "sweep(one-byte literal x candidate byte)")
		cases = append(cases, cs)
	}
	return cases
}

// ---- sweep over the NUMBER of captured tokens (result length 2n+2), every run ----
// n = 1..40 captured tokens; variant 0: all captured, ',' delimiters; variant 1: mixed delimiters
// (space, ", ", multi-byte bar, "=>") with skipped %{} / %{?x} tokens interleaved (captured != total).
// Lines: two that match, one that misses the last delimiter, one that misses the leading literal.
func c12CountSweep() []Case {
	var cases []Case
	delims := []string{" ", ", ", "\xe2\x94\x82", "=>", ";", "|"}
	for n := 1; n <= 40; n++ {
		for variant := 0; variant < 2; variant++ {
			prefix := ""
			if variant == 1 {
				prefix = "["
			} else if n%2 == 0 {
				prefix = ">"
			}
			var keys, untils []string
			for i := 0; i < n; i++ {
				if variant == 1 && (i%3 == 1 || (n == 16 && i == 0)) { // a skipped token before this captured one
					keys = append(keys, []string{"", "?x"}[i%2])
					untils = append(untils, delims[(i+1)%len(delims)])
				}
				keys = append(keys, fmt.Sprintf("k%d", i))
				if variant == 0 {
					untils = append(untils, ",")
				} else {
					untils = append(untils, delims[i%len(delims)])
				}
			}
			untils[len(untils)-1] = ";" // the last token has a delimiter a line can miss
			var pat strings.Builder
			pat.WriteString(prefix)
			for i := range keys {
				pat.WriteString("%{" + keys[i] + "}" + untils[i])
			}
			build := func(val func(i int) string, dropLast, dropPrefix bool) []byte {
				var sb strings.Builder
				sb.WriteString("zz")
				if !dropPrefix {
					sb.WriteString(prefix)
				}
				for i := range keys {
					sb.WriteString(val(i))
					if !(dropLast && i == len(keys)-1) {
						sb.WriteString(untils[i])
					}
				}
				sb.WriteString("tail")
				return []byte(sb.String())
			}
			v1 := func(i int) string { return fmt.Sprintf("v%d", i) }
			v2 := func(i int) string { return strings.Repeat("w", i%4) }
			lines := [][]byte{build(v1, false, false), build(v2, false, false), build(v1, true, false)}
			if prefix != "" {
				lines = append(lines, build(v1, false, true))
			}
			c := c12MkCase(2, pat.String(), lines)
			c.Tags = append(c.Tags, "sweep(captured tokens 1..40)")
			cases = append(cases, c)
		}
	}
	return cases
}

func c12Mode(r *Rng) int {
	switch x := r.Intn(10); {
	case x < 6:
		return 2
	case x < 8:
		return 0
	}
	return 1
}

func c12MkCase(mode int, pat string, lines [][]byte) Case {
	ls := make([]string, len(lines))
	for i, l := range lines {
		ls[i] = hex.EncodeToString(l)
	}
	return c12Case(c12In{Mode: mode, Pattern: hex.EncodeToString([]byte(pat)), Lines: ls})
}

// >= 3000 lines on one instance (the pool refills after every 1024 successful prefix searches)
func c12Long(r *Rng, tier string) Case {
	// the model simulates the heap for every call (cost ~ calls x block size = calls x (2*named+2)*1024)
	maxNamed := 1
	if tier == "thorough" {
		maxNamed = 2
	}
	var p c12Pat
	for {
		p = c12Pattern(r)
		s := c12Shape_(p.text)
		named := 0
		for _, k := range s.keys {
			if k != "" && k[0] != '?' {
				named++
			}
		}
		seen := map[string]bool{}
		dup := false
		for _, k := range s.keys {
			if k != "" && k[0] != '?' {
				dup = dup || seen[k]
				seen[k] = true
			}
		}
		if !s.errStop && !dup && len(s.keys) >= 1 && named <= maxNamed && !s.pctSplit && !nonASCII(p.text) {
			break
		}
	}
	pool := make([][]byte, 24)
	for i := range pool {
		pool[i] = c12Line(r, p)
	}
	n := 3000 + r.Intn(300)
	if tier == "thorough" {
		n = 3000 + r.Intn(3000)
	}
	lines := make([][]byte, n)
	fresh := 0
	for i := range lines {
		if fresh < 40 && r.Chance(1, 60) { // at most 24+40 distinct lines: the compact case form applies
			lines[i] = c12Line(r, p)
			fresh++
		} else {
			lines[i] = pool[r.Intn(len(pool))]
		}
	}
	return c12MkCase(r.Intn(2), p.text, lines) // one mode: the model simulates the heap for every call
}

func c12Fixed() []Case {
	mk := func(mode int, pat string, lines ...string) Case {
		ls := make([][]byte, len(lines))
		for i, l := range lines {
			ls[i] = []byte(l)
		}
		return c12MkCase(mode, pat, ls)
	}
	return []Case{
		mk(2, "%{val};%{};%{?skip} - %{val2}", "Hello;a;b - there", "hello;a;b - ", "x"),
		mk(2, "", "hello", ""),
		mk(2, "test", "hello there", "atest", "tEst", "TEST1"),
		mk(2, "mid %{val};%{val2} after", "string with mid 123;456 after k", "string with MID 123;456 AFTER k", ""),
		mk(0, "\xc3\xa9%{x};", "\xc3\xa9abc;", "\xc3\x89abc;"),
		mk(1, "\xc3\xa9%{x};", "\xc3\xa9abc;", "\xc3\x89abc;"),
		mk(2, "%{a} 50% %{b}", "x 50% y", "x 50 y"),
		mk(2, "%{a}%x%{b}", "1%x2"),
		mk(2, "unclosed %{"), mk(2, "a %{a} %{a}"), mk(2, "a %{a}%{b}"), mk(2, "a %{a} %{?a} %{} %{}"),
		mk(2, "ab%{x}ab%{y}", "aabab1ab2", "abab", "ab", "ABxaB", "aab"),
		mk(2, "%{x}aa", "aaa", "aa", "a", "baAa"),
		mk(2, "[%{x}]@%{y}Z", "[1]@2z", "{1}`2z", "[1]@2Z"),
		// bytewise search: literal U+FFFD / a lone invalid byte, lines with other invalid sequences
		mk(0, "%{k0}\xef\xbf\xbd%{k1}", "user=bob\xef\xbf\xbdok", "caf\xe9 au lait\xef\xbf\xbdok", "caf\xe9 au lait", "ab\xff", "\xc3(\xef\xbf\xbdx"),
		mk(2, "\xef\xbf\xbd%{k0} %{k1}", "\x80junk \xef\xbf\xbdkey value", "\xf0\x9f junk and no replacement"),
		mk(0, "%{k0}\xff%{k1}", "a\xef\xbf\xbdb", "a\x80b\xffc", "\xff", "a\xc3\xa9\xffz"),
		mk(2, "%{a}\xc3%{b}\x80", "x\xc3\xa9\xc3y\x80", "\xe9\xc3\x80", "\x80\xc3"),
		// bytes that differ only in bit 0x20 but are not a case pair
		mk(2, "[%{ts}] %{msg}", "{\"svc\":\"A\"} [12:00] Started", "{x} [y] z", "[Y] Z"),
		mk(2, "lvl|%{l}", "LVL\\warn", "LVL|warn", "lvl\\x lvl|y"),
		mk(1, "%{a}_%{b}^%{c}@", "1\x7f2_3~4^5`6@", "1_2^3`"),
		// one instance, history: match, miss, shorter, longer, repeat
		mk(2, "a=%{x};b=%{y} ", "a=1;b=2 ", "nothing", "a=1;b= ", "zz a=123456;b=7890 tail", "a=1;b=2 ", "A=1;B=2 ", "a=1;b=2 "),
		// instances of one factory used at once
		c12Case(c12In{Mode: 2, Pattern: hex.EncodeToString([]byte("k=%{k} v=%{v};")), Workers: [][]string{
			hexAll([][]byte{[]byte("k=a v=1;"), []byte("k=bb v=22;"), []byte("nope")}),
			hexAll([][]byte{[]byte("xx k=ccc v=333; tail"), []byte("K=d V=4;")}),
			hexAll([][]byte{[]byte("k= v=;"), []byte("k=e v=5;"), []byte("k=e v=5;"), []byte("")}),
		}}),
	}
}

func c12Gen(r *Rng, n int, tier string) []Case {
	// lib.NewRng(seed) and NewRng(seed+1) are the same SplitMix64 stream shifted by one draw; decorrelate
	r = r.Fork()
	cases := append(c12Fixed(), c12Sweep()...)
	cases = append(cases, c12CountSweep()...)
	nlong := 2
	if tier == "thorough" {
		nlong = 12
	}
	longAt := map[int]bool{}
	for i := 0; i < nlong; i++ {
		longAt[len(cases)+5+i*(n/nlong)] = true
	}
	target := len(cases) + n
	for len(cases) < target {
		if longAt[len(cases)] {
			cases = append(cases, c12Long(r.Fork(), tier))
			continue
		}
		p := c12Pattern(r)
		pat := p.text
		if r.Chance(1, 25) { // malformed stream: pattern soup
			var sb strings.Builder
			for i, k := 0, r.Intn(8); i < k; i++ {
				sb.WriteString(Pick(r, []string{"%{", "}", "%", "a", "?", "k", " ", "\xc3\xa9", "%{a}", "%{}", "{"}))
			}
			pat = sb.String()
		}
		switch x := r.Intn(100); {
		case x >= 88:
			cases = append(cases, c12ByteCase(r))
		case x >= 78:
			cases = append(cases, c12PairCase(r))
		case x < 8:
			cases = append(cases, c12Concurrent(r, p, pat, c12Mode(r)))
		case x < 18:
			cases = append(cases, c12MkCase(c12Mode(r), pat, c12Sequence(r, p, r.Range(8, 60))))
		default:
			nl := r.Range(1, 6)
			lines := make([][]byte, nl)
			for i := range lines {
				lines[i] = c12Line(r, p)
			}
			cases = append(cases, c12MkCase(c12Mode(r), pat, lines))
		}
	}
	return cases
}

func main() {
	if len(os.Args) >= 2 && os.Args[1] == "c12-workers" { // child: one concurrent case, JSON in/out
		var in c12In
		if err := json.NewDecoder(os.Stdin).Decode(&in); err != nil {
			fmt.Fprintln(os.Stderr, err)
			os.Exit(2)
		}
		json.NewEncoder(os.Stdout).Encode(c12RunWorkersDirect(in))
		return
	}
	Main(&Prop{
		Name:   "C12",
		Header: "From Coq Require Import List ZArith String.\nFrom RareV Require Import Corr.C12Case.\nImport ListNotations.\nOpen Scope Z_scope. Open Scope string_scope.\n",
		Rule: "fixed cases (the package's test patterns, both findings' witnesses, the three compile errors) followed by seeded random: " +
			"patterns = optional prefix literal + 0..5 tokens (named / ?named / empty; occasional duplicate name, adjacent tokens, unclosed token, trailing junk, pattern soup) with literals of length 0..4 over {a,b,A,e-acute(2 bytes),%,space} (+ rare ; B E-acute { } ? Z [ @ z), 40% ASCII-only without '%', 20% ASCII with '%'; " +
			"1..6 lines per pattern, each built from the pattern (fillers containing a partial/complete/next delimiter or the prefix, case-flipped literals, one delimiter or the prefix omitted, junk before/after) or arbitrary bytes / alphabet soup / empty; mode in {case-sensitive, ignore-case, both}; " +
			"12% BYTEWISE cases: literals (leading, inner, trailing) drawn from {single ASCII byte, multi-byte rune (2/3/4 bytes), U+FFFD, a lone invalid byte ff/c3/80/fe, a truncated multi-byte prefix, mixtures of two or three of these}, 2..8 lines each built from noise over {latin-1 byte, stray continuation bytes, overlong / surrogate / out-of-range sequences, truncated prefixes, U+FFFD, valid runes, ASCII} placed before, between and after the literals, with a literal omitted or truncated in a third of the lines; mostly case-sensitive (the specification is bytewise: first occurrence of the literal's bytes); " +
			"exhaustive sweep (every run): each ASCII byte b as a one-byte pattern x each ASCII byte c as the lines [c] and [c b], ignore-case mode (matches at c iff lower(b)=lower(c)); " +
			"sweep over the number of captured tokens (every run): n = 1..40 captured tokens x {all captured with ',' delimiters; mixed one-/two-/three-byte delimiters with skipped %{} / %{?x} tokens interleaved}, both modes, lines that match (two value sets), miss the last delimiter, miss the leading literal; " +
			"10% BIT-0x20 cases (ignore-case or both): literals of 1..3 bytes over {@ ` [ { \\ | ] } ^ ~ _ DEL} + letters/space/digit/punctuation, lines in which the literal's 0x20-partner (all or some bytes flipped) stands at or before the real literal, the literal in the other letter case, or omitted; " +
			"2 (quick) / 12 (thorough) sequences of >= 3000 lines on one instance with every result re-read after the last call; " +
			"10% SEQUENCE cases: one compiled pattern, one instance, 8..60 lines with history (fresh / exact repeat of the previous or an earlier line / proper prefix or suffix of the previous (shorter) / previous plus text or doubled (longer) / same length with one byte changed), every returned slice re-read after the last call, each result compared with the model of that line alone; " +
			"8% CONCURRENT cases: one compiled pattern, matchers.ToFactory, 2..8 instances each with its own 2..12-line sequence: first used interleaved round-robin in one goroutine, then a fresh instance per goroutine (created inside it, released together) matching its lines for 1+1500/len rounds; per line the round-0 result is reported unless any round returned, or any held slice later re-read as, something else (then that value); every instance run is compared with the model of its own lines alone. " +
			"Every FindSubmatchIndex / CreateInstance / CompileEx call runs under recover; a panicking call is recorded as result [-1] (never valid). " +
			"distinct = distinct (mode, pattern, lines); non-trivial = a compile error, or a pattern with >= 1 token that matches at least one line and has >= 2 tokens, a skipped token, a prefix, or a literal occurring twice in a line.",
		Gen: c12Gen,
		Replay: func(d json.RawMessage) (Case, error) {
			var doc struct {
				Input c12In `json:"input"`
			}
			if err := json.Unmarshal(d, &doc); err != nil {
				return Case{}, err
			}
			return c12Case(doc.Input), nil
		},
		Shard: 96,
	})
}
