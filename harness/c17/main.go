package main

// C17: array helpers of pkg/expressions/stdlib (funcsRange.go, kfJoin, Splitter, sub-context pool)
// driven through the public API: stdlib.NewStdKeyBuilder().Compile(template).BuildKey(ctx).
// Every case is an expression AST (mirrors coq/Model/ArrayFns.v `expr`) + a context; the harness
// prints the AST in rare's template syntax for the implementation and as a Coq term for the model.

import (
	"encoding/hex"
	"encoding/json"
	"fmt"
	"sort"
	"strings"
	"sync"
	"time"
	"unicode/utf8"

	"rare/pkg/expressions"
	"rare/pkg/expressions/stdlib"
	. "verifh/lib"
)

// ---------------------------------------------------------------- AST
type Expr struct {
	Op   string   `json:"op"`
	S    string   `json:"s,omitempty"`   // hex: literal text / key name / delimiter / initial value
	I    int64    `json:"i,omitempty"`   // index / start
	J    int64    `json:"j,omitempty"`   // length
	B    bool     `json:"b,omitempty"`   // Arr: {$ ..} instead of {@ ..}
	Q    bool     `json:"q,omitempty"`   // print choice only: quote the argument when possible / use the short form
	Set  []string `json:"set,omitempty"` // hex elements (@in)
	Args []*Expr  `json:"args,omitempty"`
}

func lit(s string) *Expr          { return &Expr{Op: "lit", S: hex.EncodeToString([]byte(s))} }
func arg(i int64) *Expr           { return &Expr{Op: "arg", I: i} }
func key(k string) *Expr          { return &Expr{Op: "key", S: hex.EncodeToString([]byte(k))} }
func fn(op string, a ...*Expr) *Expr { return &Expr{Op: op, Args: a} }
func (e *Expr) str() string       { b, _ := hex.DecodeString(e.S); return string(b) }

// template text of e as a function argument
func (e *Expr) tmplArg() string {
	switch e.Op {
	case "lit":
		return `"` + e.str() + `"`
	case "cat":
		inner := e.tmplCat()
		if inner == "" {
			return `""`
		}
		if e.Q && !strings.Contains(inner, `"`) {
			return `"` + inner + `"`
		}
		return inner
	}
	t := e.tmplCall()
	if e.Q && !strings.Contains(t, `"`) {
		return `"` + t + `"`
	}
	return t
}

func (e *Expr) tmplCat() string {
	var sb strings.Builder
	for _, p := range e.Args {
		if p.Op == "lit" {
			sb.WriteString(p.str())
		} else if p.Op == "cat" {
			sb.WriteString(p.tmplCat())
		} else {
			sb.WriteString(p.tmplCall())
		}
	}
	return sb.String()
}

// template text at the top level of a template (text outside braces is literal)
func (e *Expr) tmplTop() string {
	switch e.Op {
	case "lit":
		return e.str()
	case "cat":
		return e.tmplCat()
	}
	return e.tmplCall()
}

func (e *Expr) tmplCall() string {
	a := func(i int) string { return e.Args[i].tmplArg() }
	q := func(s string) string { return `"` + s + `"` }
	switch e.Op {
	case "arg":
		return fmt.Sprintf("{%d}", e.I)
	case "key":
		return "{" + e.str() + "}"
	case "eq", "not", "if", "prefix", "len", "sumi", "@len", "@map", "@filter", "@for":
		parts := []string{e.Op}
		for i := range e.Args {
			parts = append(parts, a(i))
		}
		return "{" + strings.Join(parts, " ") + "}"
	case "arr":
		name := "@"
		if e.B {
			name = "$"
		}
		parts := []string{name}
		for i := range e.Args {
			parts = append(parts, a(i))
		}
		return "{" + strings.Join(parts, " ") + "}"
	case "@split", "@join":
		if e.Q && e.str() == " " {
			return "{" + e.Op + " " + a(0) + "}"
		}
		return "{" + e.Op + " " + a(0) + " " + q(e.str()) + "}"
	case "@select":
		if e.Q {
			return fmt.Sprintf("{@select %s \"%d\"}", a(0), e.I)
		}
		return fmt.Sprintf("{@select %s %d}", a(0), e.I)
	case "@slice":
		if e.J < 0 && e.Q {
			return fmt.Sprintf("{@slice %s %d}", a(0), e.I)
		}
		return fmt.Sprintf("{@slice %s %d %d}", a(0), e.I, e.J)
	case "@reduce":
		if e.str() == "" && !e.Q {
			return "{@reduce " + a(0) + " " + a(1) + "}"
		}
		return "{@reduce " + a(0) + " " + a(1) + " " + q(e.str()) + "}"
	case "@in":
		set := `""`
		if len(e.Set) == 1 {
			b, _ := hex.DecodeString(e.Set[0])
			set = q(string(b))
		} else if len(e.Set) > 1 {
			parts := []string{"@"}
			for _, h := range e.Set {
				b, _ := hex.DecodeString(h)
				parts = append(parts, q(string(b)))
			}
			set = "{" + strings.Join(parts, " ") + "}"
		}
		return "{@in " + a(0) + " " + set + "}"
	case "@range":
		s0 := e.Args[0].Op == "lit" && e.Args[0].str() == "0"
		i1 := e.Args[2].Op == "lit" && e.Args[2].str() == "1"
		if e.Q && s0 && i1 {
			return "{@range " + a(1) + "}"
		}
		if e.Q && i1 {
			return "{@range " + a(0) + " " + a(1) + "}"
		}
		return "{@range " + a(0) + " " + a(1) + " " + a(2) + "}"
	}
	panic("tmpl: unknown op " + e.Op)
}

func coqZ(i int64) string {
	if i < 0 {
		return fmt.Sprintf("(%d)%%Z", i)
	}
	return fmt.Sprintf("%d%%Z", i)
}

func (e *Expr) coq() string {
	as := make([]string, len(e.Args))
	for i, x := range e.Args {
		as[i] = "(" + x.coq() + ")"
	}
	h := `"` + e.S + `"`
	switch e.Op {
	case "lit":
		return "L " + h
	case "arg":
		return "G " + coqZ(e.I)
	case "key":
		return "K " + h
	case "cat":
		for i, x := range e.Args {
			as[i] = x.coq()
		}
		return "Cat " + CoqList(as)
	case "eq":
		return "SEq " + as[0] + " " + as[1]
	case "not":
		return "SNot " + as[0]
	case "if":
		return "SIf " + as[0] + " " + as[1] + " " + as[2]
	case "prefix":
		return "SPrefix " + as[0] + " " + as[1]
	case "len":
		return "SLen " + as[0]
	case "sumi":
		return "SSumi " + as[0] + " " + as[1]
	case "arr":
		for i, x := range e.Args {
			as[i] = x.coq()
		}
		return "Arr " + B(e.B) + " " + CoqList(as)
	case "@len":
		return "ALen " + as[0]
	case "@split":
		return "xSplit " + as[0] + " " + h
	case "@join":
		return "xJoin " + as[0] + " " + h
	case "@select":
		return "ASelect " + as[0] + " " + coqZ(e.I)
	case "@slice":
		return "ASlice " + as[0] + " " + coqZ(e.I) + " " + coqZ(e.J)
	case "@map":
		return "AMap " + as[0] + " " + as[1]
	case "@filter":
		return "AFilter " + as[0] + " " + as[1]
	case "@reduce":
		return "xReduce " + as[0] + " " + as[1] + " " + h
	case "@in":
		ps := make([]string, len(e.Set))
		for i, s := range e.Set {
			ps[i] = `"` + s + `"`
		}
		return "xIn " + as[0] + " " + CoqList(ps)
	case "@range":
		return "ARange " + as[0] + " " + as[1] + " " + as[2]
	case "@for":
		return "AFor " + as[0] + " " + as[1] + " " + as[2]
	}
	panic("coq: unknown op " + e.Op)
}

func (e *Expr) walk(f func(x *Expr, inSub bool), inSub bool) {
	f(e, inSub)
	for i, a := range e.Args {
		sub := inSub
		switch e.Op {
		case "@map", "@filter", "@reduce":
			sub = sub || i == 1
		case "@for":
			sub = sub || i >= 1
		}
		a.walk(f, sub)
	}
}

func (e *Expr) depth() int {
	d := 0
	for _, a := range e.Args {
		if x := a.depth(); x > d {
			d = x
		}
	}
	return d + 1
}

// ---------------------------------------------------------------- context
type c17In struct {
	Expr    *Expr             `json:"expr"`
	Matches []string          `json:"matches_hex"`
	Keys    map[string]string `json:"keys_hex"`
	W       int               `json:"goroutines"`
	// shared-state probe: the same compiled expression is evaluated at the same time against this
	// context and against the peers (other matches: other list contents, other named keys)
	Peers []c17Peer `json:"peers,omitempty"`
	Iter  int       `json:"iterations,omitempty"`
	// sequence step: ONE compiled expression is evaluated on History (in order) and then on this
	// context; the observed value is the one of that last evaluation.  The value of a compiled
	// expression on a context must not depend on earlier evaluations.
	History []c17Peer `json:"history,omitempty"`
	Step    int       `json:"step,omitempty"`
	NoOpt   bool      `json:"no_optimize,omitempty"` // NewStdKeyBuilderEx(false): stages are not constant-folded
}
type c17Peer struct {
	Matches []string          `json:"matches_hex"`
	Keys    map[string]string `json:"keys_hex"`
}
type c17Out struct {
	Template  string `json:"template"`
	Completed bool   `json:"completed"`
	Out       string `json:"out_hex"`
	Note      string `json:"note,omitempty"`
}

type mctx struct {
	matches []string
	keys    map[string]string
}

func (m *mctx) GetMatch(idx int) string {
	if idx >= 0 && idx < len(m.matches) {
		return m.matches[idx]
	}
	return ""
}
func (m *mctx) GetKey(k string) string { return m.keys[k] }

var _ expressions.KeyBuilderContext = &mctx{}

func (in *c17In) ctx() *mctx {
	m := &mctx{keys: map[string]string{}}
	for _, h := range in.Matches {
		b, _ := hex.DecodeString(h)
		m.matches = append(m.matches, string(b))
	}
	for k, v := range in.Keys {
		kb, _ := hex.DecodeString(k)
		vb, _ := hex.DecodeString(v)
		m.keys[string(kb)] = string(vb)
	}
	return m
}

type compiled struct {
	kb  *expressions.CompiledKeyBuilder
	ctx *mctx
}

// run f under recover and a deadline (a runaway loop in the implementation must not hang the check)
func guarded(f func() string, limit time.Duration) (res string, ok bool, note string) {
	type r struct {
		s    string
		ok   bool
		note string
	}
	ch := make(chan r, 1)
	go func() {
		defer func() {
			if e := recover(); e != nil {
				ch <- r{"", false, "panic: " + fmt.Sprint(e)}
			}
		}()
		ch <- r{f(), true, ""}
	}()
	select {
	case x := <-ch:
		return x.s, x.ok, x.note
	case <-time.After(limit):
		return "", false, "did not finish within " + limit.String()
	}
}

func c17Compile(in *c17In) (cp *compiled, out c17Out) {
	out.Template = in.Expr.tmplTop()
	var kb *expressions.CompiledKeyBuilder
	_, ok, note := guarded(func() string {
		// compile errors are deliberately ignored: the builder stays usable and its stages then yield
		// the error marker (e.g. <EMPTY> for an empty @split delimiter), which is what the model predicts
		kb, _ = stdlib.NewStdKeyBuilderEx(!in.NoOpt).Compile(out.Template)
		return ""
	}, 60*time.Second)
	if !ok || kb == nil {
		out.Note = "Compile: " + note
		return nil, out
	}
	return &compiled{kb: kb, ctx: in.ctx()}, out
}

func c17Run(in *c17In) (*compiled, c17Out) {
	cp, out := c17Compile(in)
	if cp == nil {
		return nil, out
	}
	s, ok, note := guarded(func() string { return cp.kb.BuildKey(cp.ctx) }, 60*time.Second)
	if !ok {
		out.Note = "BuildKey: " + note
		return cp, out
	}
	if len(s) > 4<<20 {
		// no generated case has a value this long in the model; a case file must stay loadable
		out.Note = fmt.Sprintf("BuildKey returned %d bytes (more than 4 MiB)", len(s))
		return cp, out
	}
	out.Completed, out.Out = true, hex.EncodeToString([]byte(s))
	return cp, out
}

// evaluate every (compiled expression, context) again from w goroutines at once, each goroutine
// walking the cases in its own order; any result different from the sequential one is a failure
func c17Concurrent(r *Rng, cps []*compiled, outs []c17Out, ins []*c17In, heavy []bool) {
	groups := map[int][]int{}
	for i := range cps {
		if cps[i] != nil && outs[i].Completed && !heavy[i] {
			groups[ins[i].W] = append(groups[ins[i].W], i)
		}
	}
	ws := []int{}
	for w := range groups {
		ws = append(ws, w)
	}
	sort.Ints(ws)
	for _, w := range ws {
		idxs := groups[w]
		if w <= 1 {
			continue
		}
		var mu sync.Mutex
		bad := map[int]string{}
		var wg sync.WaitGroup
		for g := 0; g < w; g++ {
			order := append([]int(nil), idxs...)
			gr := r.Fork()
			for i := len(order) - 1; i > 0; i-- {
				j := gr.Intn(i + 1)
				order[i], order[j] = order[j], order[i]
			}
			wg.Add(1)
			go func(order []int) {
				defer wg.Done()
				for rep := 0; rep < 3; rep++ {
					for _, i := range order {
						s, ok, note := guarded(func() string { return cps[i].kb.BuildKey(cps[i].ctx) }, 60*time.Second)
						if !ok || hex.EncodeToString([]byte(s)) != outs[i].Out {
							mu.Lock()
							if !ok {
								bad[i] = "concurrent evaluation: " + note
							} else {
								bad[i] = "concurrent evaluation returned " + hex.EncodeToString([]byte(s)) + ", sequential " + outs[i].Out
							}
							mu.Unlock()
						}
					}
				}
			}(order)
		}
		wg.Wait()
		for i, note := range bad {
			outs[i].Completed, outs[i].Out, outs[i].Note = false, "", note
		}
	}
}

// ---------------------------------------------------------------- known-finding domains (decided from the input alone)
func countNul(s string) int { return strings.Count(s, "\x00") }

// number of elements of the list e evaluates to, when that is evident from the input
func staticLen(e *Expr, m *mctx) (int, bool) {
	switch e.Op {
	case "arg":
		return countNul(m.GetMatch(int(e.I))) + 1, true
	case "arr":
		n := 0
		for _, a := range e.Args {
			switch a.Op {
			case "lit":
				n += countNul(a.str()) + 1
			case "arg":
				n += countNul(m.GetMatch(int(a.I))) + 1
			default:
				return 0, false
			}
		}
		return n, true
	}
	return 0, false
}

func canBeEmpty(e *Expr) bool {
	switch e.Op {
	case "lit":
		return e.S == ""
	case "len", "sumi", "@len":
		return false
	case "cat":
		for _, a := range e.Args {
			if !canBeEmpty(a) {
				return false
			}
		}
		return true
	}
	return true
}

func hasKey(e *Expr) bool {
	found := false
	e.walk(func(x *Expr, _ bool) {
		if x.Op == "key" {
			found = true
		}
	}, false)
	return found
}

func c17Tags(in *c17In) (tags []string, nontrivial bool) {
	m := in.ctx()
	set := map[string]bool{}
	add := func(t string) { set[t] = true }
	add("root=" + in.Expr.Op)
	add(fmt.Sprintf("depth=%d", in.Expr.depth()))
	add(fmt.Sprintf("goroutines=%d", in.W))
	if len(in.Peers) > 0 {
		add("shared-state-probe")
		nontrivial = true
	}
	if in.NoOpt {
		add("no-optimize")
	}
	if in.Step > 0 || len(in.History) > 0 {
		add("sequence-step")
		nontrivial = true
		empty := true
		for _, m := range in.History[0].Matches {
			empty = empty && m == ""
		}
		if empty && len(in.History[0].Keys) == 0 {
			add("sequence:empty-context-first")
		}
		for _, h := range in.History {
			if fmt.Sprint(h.Matches, h.Keys) == fmt.Sprint(in.Matches, in.Keys) {
				add("sequence:context-seen-before")
				break
			}
		}
	}
	in.Expr.walk(func(x *Expr, inSub bool) {
		add("uses:" + x.Op)
		switch x.Op {
		case "@split":
			d := x.str()
			if len(d) > 1 {
				// the defect shows exactly when the delimiter occurs in the string that is split
				switch a := x.Args[0]; {
				case a.Op == "arg" && !inSub:
					if strings.Contains(m.GetMatch(int(a.I)), d) {
						add("kf:C17-splitter-delim-length")
					}
				case a.Op == "lit":
					if strings.Contains(a.str(), d) {
						add("kf:C17-splitter-delim-length")
					}
				default:
					add("kf:C17-splitter-delim-length")
				}
				add("delim:multi-byte")
				nontrivial = true
				if len(d) >= 2 && d[0] == d[len(d)-1] {
					add("delim:self-overlapping")
				}
			}
			if d == "" {
				add("delim:empty")
			}
		case "@join":
			if len(x.str()) != 1 {
				add("delim:multi-byte-or-empty-join")
			}
		case "@slice":
			if x.I < 0 {
				add("index:negative")
				nontrivial = true
				if n, ok := staticLen(x.Args[0], m); !ok || -x.I > int64(n) {
					add("kf:C17-slice-start-below-minus-n")
					if ok {
						add("index:below-minus-n")
					}
				}
			}
			if n, ok := staticLen(x.Args[0], m); ok && (x.I >= int64(n) || (x.J >= 0 && x.I+x.J > int64(n))) {
				add("index:beyond-end")
				nontrivial = true
			}
			if x.J == 0 {
				add("slice:len=0")
			}
		case "@select":
			if x.I < 0 {
				add("index:negative")
				nontrivial = true
			}
			if n, ok := staticLen(x.Args[0], m); ok && (x.I >= int64(n) || -x.I > int64(n)) {
				add("index:out-of-range")
				nontrivial = true
			}
		case "arg":
			if x.I < 0 {
				add("arg:negative")
				if inSub {
					add("kf:C17-subctx-negative-index")
				}
			}
			if inSub && x.I >= 2 {
				add("arg:beyond-subcontext")
			}
		case "@for":
			if hasKey(x.Args[1]) || hasKey(x.Args[2]) {
				add("kf:C17-for-parent-context")
				nontrivial = true
			}
			// the builder stays empty only while every element written so far is empty: the defect needs an empty first element
			if canBeEmpty(x.Args[0]) {
				add("kf:C17-for-leading-empty")
			}
		case "key":
			if inSub {
				add("key-in-sub-expression")
				nontrivial = true
			}
		case "@map", "@filter", "@reduce":
			if inSub {
				add("nested-sub-context")
				nontrivial = true
			}
		}
	}, false)
	for _, h := range in.Matches {
		b, _ := hex.DecodeString(h)
		s := string(b)
		if s == "" {
			add("list:empty-string")
		} else {
			parts := strings.Split(s, "\x00")
			if len(parts) >= 2 {
				nontrivial = true
			}
			for _, p := range parts {
				if p == "" {
					add("list:empty-element")
				}
				if strings.TrimSpace(p) == "" && p != "" {
					add("list:whitespace-element")
				}
				if !utf8.ValidString(p) {
					add("list:invalid-utf8-element")
				}
			}
		}
	}
	for t := range set {
		tags = append(tags, t)
	}
	sort.Strings(tags)
	return
}

func c17Case(in *c17In, out c17Out) Case {
	ms := make([]string, len(in.Matches))
	for i, h := range in.Matches {
		ms[i] = `"` + h + `"`
	}
	ks := []string{}
	names := []string{}
	for k := range in.Keys {
		names = append(names, k)
	}
	sort.Strings(names)
	for _, k := range names {
		ks = append(ks, fmt.Sprintf(`("%s","%s")`, k, in.Keys[k]))
	}
	var coq string
	if out.Completed {
		coq = fmt.Sprintf(`c (%s) %s %s "%s"`, in.Expr.coq(), CoqList(ms), CoqList(ks), out.Out)
	} else {
		coq = fmt.Sprintf(`cN (%s) %s %s`, in.Expr.coq(), CoqList(ms), CoqList(ks))
	}
	tags, nt := c17Tags(in)
	kb, _ := json.Marshal(struct {
		E *Expr
		M []string
		K map[string]string
		H []c17Peer
		N bool
	}{in.Expr, in.Matches, in.Keys, in.History, in.NoOpt})
	return Case{Coq: coq, Desc: map[string]any{"input": in, "impl": out}, Key: string(kb), Nontrivial: nt, Tags: tags}
}

// ---------------------------------------------------------------- generators
var elemAtoms = []string{"a", "b", "c", "ab", "ba", "aa", "1", "2", "10", "-3", " ", "  ", "\t", ":", "::", ",", ";", "-",
	"é", "日", "\u00a0", "\u2003", "\u3000", "\u0085", "\xff", "\xc2", "x y", "", "", "", "0", "7", "abc", "b:"}

func genElem(r *Rng) string {
	switch r.Intn(10) {
	case 0:
		return ""
	case 1, 2:
		return Pick(r, elemAtoms) + Pick(r, elemAtoms)
	case 3:
		return fmt.Sprint(r.Range(-20, 120))
	default:
		return Pick(r, elemAtoms)
	}
}

func genList(r *Rng) []string {
	n := 0
	switch x := r.Intn(12); {
	case x == 0:
		n = 0
	case x <= 2:
		n = 1
	case x <= 9:
		n = r.Range(2, 5)
	default:
		n = r.Range(6, 9)
	}
	l := make([]string, n)
	for i := range l {
		l[i] = genElem(r)
	}
	return l
}

var keyNames = []string{"k", "name", "src", "lim"}
var litAtoms = []string{"a", "b", "ab", "1", "2", "5", "-1", "x", ":", "é", "日", "0", "3", "aa", "-"}
var spaceLits = []string{" ", "\t", "\u00a0", "\u2003", "a b", " a", "", "\u3000 ", "\u0085"}

type gen struct {
	r  *Rng
	in *c17In
	// no array helper nested inside the sub-expressions of @for: on the pinned tree (defect
	// C17-for-parent-context) the stale parent of @for's pooled sub-context can be handed to such a
	// nested helper, whose sub-context then points back at it; the key lookup recurses for ever and the
	// Go runtime aborts the whole process with a stack overflow, which recover() cannot catch
	noNested bool
}

func newGen(r *Rng) *gen {
	g := &gen{r: r, in: &c17In{Keys: map[string]string{}, W: Pick(r, []int{1, 2, 2, 4, 4, 8})}}
	for _, k := range keyNames {
		if r.Chance(3, 4) {
			g.in.Keys[hex.EncodeToString([]byte(k))] = hex.EncodeToString([]byte(genElem(r)))
		}
	}
	if r.Chance(1, 2) {
		g.in.Keys[hex.EncodeToString([]byte("lim"))] = hex.EncodeToString([]byte(fmt.Sprint(r.Range(0, 6))))
	}
	return g
}

// adds a match group holding s and returns {i}
func (g *gen) match(s string) *Expr {
	g.in.Matches = append(g.in.Matches, hex.EncodeToString([]byte(s)))
	return arg(int64(len(g.in.Matches) - 1))
}

func validLit(s string) bool {
	return utf8.ValidString(s) && !strings.ContainsAny(s, "\"\\{}\x00")
}

// an expression evaluating to the NUL-separated encoding of l (or of something close to it)
func (g *gen) listExpr(l []string, depth int) *Expr {
	r := g.r
	switch x := r.Intn(10); {
	case x <= 3 || len(l) == 0:
		return g.match(strings.Join(l, "\x00"))
	case x <= 5: // {@ e0 e1 ...}: literals where possible, match groups otherwise
		as := []*Expr{}
		for _, e := range l {
			if validLit(e) && r.Chance(2, 3) {
				as = append(as, lit(e))
			} else {
				as = append(as, g.match(e))
			}
		}
		return &Expr{Op: "arr", B: r.Chance(1, 3), Args: as}
	case x <= 7: // {@split <joined> "d"}
		d := Pick(r, []string{",", ":", "::", "aa", ", ", "é", "ab", "aba", "--", " ", ";;;", "日"})
		e := &Expr{Op: "@split", S: hex.EncodeToString([]byte(d)), Args: []*Expr{g.match(strings.Join(l, d))}}
		e.Q = r.Bool()
		return e
	case x == 8 && depth > 0: // a slice / filter of a longer list
		inner := g.listExpr(append(append([]string{}, l...), genElem(r)), depth-1)
		return &Expr{Op: "@slice", I: 0, J: int64(len(l)), Args: []*Expr{inner}}
	default:
		n := r.Range(0, 5)
		return &Expr{Op: "@range", Q: r.Bool(), Args: []*Expr{lit("0"), lit(fmt.Sprint(n)), lit("1")}}
	}
}

// scalar sub-expression over {0} {1}, keys of the enclosing match, literals and the modelled scalar helpers
func (g *gen) sub(depth int, inCat bool) *Expr {
	r := g.r
	if depth <= 0 || r.Chance(1, 4) {
		switch x := r.Intn(12); {
		case x <= 3:
			return arg(0)
		case x <= 5:
			return arg(1)
		case x == 6:
			return arg(int64(Pick(r, []int{2, 3, -1, -2, 7})))
		case x <= 8:
			return key(Pick(r, keyNames))
		default:
			if !inCat && r.Chance(1, 4) {
				return lit(Pick(r, spaceLits))
			}
			return lit(Pick(r, litAtoms))
		}
	}
	e := func() *Expr { return g.sub(depth-1, false) }
	var x *Expr
	k := r.Intn(9)
	if k == 7 && g.noNested {
		k = 8
	}
	switch k {
	case 0:
		x = fn("eq", e(), e())
	case 1:
		x = fn("not", e())
	case 2:
		x = fn("if", e(), e(), e())
	case 3:
		x = fn("prefix", e(), e())
	case 4:
		x = fn("len", e())
	case 5:
		x = fn("sumi", e(), e())
	case 6:
		n := r.Range(2, 3)
		x = &Expr{Op: "cat"}
		for i := 0; i < n; i++ {
			x.Args = append(x.Args, g.sub(depth-1, true))
		}
	case 7: // nested array helper inside the sub-expression (sub-context of a sub-context)
		inner := fn(Pick(r, []string{"@map", "@filter"}), fn("@split", arg(0)), g.sub(depth-1, false))
		inner.Args[0].S = hex.EncodeToString([]byte(Pick(r, []string{":", ",", " ", "a"})))
		x = fn("@join", inner)
		x.S = hex.EncodeToString([]byte(Pick(r, []string{":", "+", ""})))
	default:
		x = fn("eq", arg(0), lit(Pick(r, litAtoms)))
	}
	x.Q = r.Chance(1, 3)
	return x
}

func idxFor(r *Rng, n int) int64 { return int64(r.Range(-n-3, n+3)) }

func (g *gen) root(kind string) *Expr {
	r := g.r
	l := genList(r)
	n := len(l)
	if n == 0 {
		n = 1
	}
	switch kind {
	case "@split":
		d := Pick(r, []string{",", ":", "::", "aa", ", ", "é", "ab", "aba", "--", " ", ";;;", "日", "a", "::", "", "abab", "\u00a0"})
		s := strings.Join(l, d)
		if r.Chance(1, 5) { // text around the delimiter that overlaps it
			s = Pick(r, []string{"a", ":", "ab", "-", ""}) + s + Pick(r, []string{"a", ":", "ab", "-", ""})
		}
		return &Expr{Op: "@split", S: hex.EncodeToString([]byte(d)), Q: r.Bool(), Args: []*Expr{g.match(s)}}
	case "@join":
		d := Pick(r, []string{",", ":", "::", "", " ", ", ", "é", "--"})
		return &Expr{Op: "@join", S: hex.EncodeToString([]byte(d)), Q: r.Bool(), Args: []*Expr{g.listExpr(l, 1)}}
	case "splitjoin": // {@join {@split s d} d}
		d := Pick(r, []string{",", ":", "::", "aa", ", ", "é", "ab", "aba", "--"})
		s := strings.Join(l, d)
		sp := &Expr{Op: "@split", S: hex.EncodeToString([]byte(d)), Args: []*Expr{g.match(s)}}
		return &Expr{Op: "@join", S: hex.EncodeToString([]byte(d)), Args: []*Expr{sp}}
	case "joinsplit": // {@split {@join l d} d}
		d := Pick(r, []string{",", ":", "::", "aa", ", ", "é", "ab", "aba", "--"})
		jn := &Expr{Op: "@join", S: hex.EncodeToString([]byte(d)), Args: []*Expr{g.listExpr(l, 0)}}
		return &Expr{Op: "@split", S: hex.EncodeToString([]byte(d)), Args: []*Expr{jn}}
	case "@len":
		return fn("@len", g.listExpr(l, 1))
	case "@select":
		return &Expr{Op: "@select", I: idxFor(r, n), Q: r.Chance(1, 3), Args: []*Expr{g.listExpr(l, 1)}}
	case "@slice":
		e := &Expr{Op: "@slice", I: idxFor(r, n), J: -1, Q: r.Bool(), Args: []*Expr{g.listExpr(l, 1)}}
		if r.Chance(3, 5) {
			e.J = int64(r.Range(0, n+2))
		} else if r.Chance(1, 6) {
			e.J = int64(-r.Range(1, 3))
		}
		return e
	case "@map":
		return fn("@map", g.listExpr(l, 1), g.sub(r.Range(1, 3), false))
	case "@filter":
		return fn("@filter", g.listExpr(l, 1), g.sub(r.Range(1, 3), false))
	case "@reduce":
		e := fn("@reduce", g.listExpr(l, 1), g.sub(r.Range(1, 3), false))
		if r.Chance(1, 2) {
			e.S = hex.EncodeToString([]byte(Pick(r, litAtoms)))
		}
		e.Q = r.Chance(1, 4)
		if r.Chance(1, 3) { // the documented use: sum of numbers
			nums := make([]string, r.Range(0, 5))
			for i := range nums {
				nums[i] = fmt.Sprint(r.Range(-50, 50))
			}
			e.Args[0] = g.listExpr(nums, 0)
			e.Args[1] = fn("sumi", arg(0), arg(1))
			e.Args[1].Q = r.Bool()
		}
		return e
	case "@in":
		e := fn("@in", nil)
		for _, x := range l {
			if validLit(x) {
				e.Set = append(e.Set, hex.EncodeToString([]byte(x)))
			}
		}
		if len(l) > 0 && r.Chance(1, 2) {
			e.Args[0] = g.match(Pick(r, l))
		} else {
			e.Args[0] = g.match(genElem(r))
		}
		return e
	case "@range":
		num := func() *Expr {
			switch r.Intn(8) {
			case 0:
				return g.match(Pick(r, []string{"", "x", "1.5", " 1", "+2", "-0", "0x10", "9223372036854775808"}))
			case 1:
				return g.match(fmt.Sprint(r.Range(-15, 15)))
			default:
				return lit(fmt.Sprint(r.Range(-12, 12)))
			}
		}
		e := fn("@range", num(), num(), num())
		switch r.Intn(4) {
		case 0:
			e.Args[0] = lit("0")
			e.Args[2] = lit("1")
		case 1:
			e.Args[2] = lit("1")
		case 2:
			e.Args[2] = lit(fmt.Sprint(Pick(r, []int{0, 1, 2, 3, -1, -2, 5})))
		}
		e.Q = r.Bool()
		return e
	case "@for":
		lim := r.Range(0, 6)
		var cond, incr, start *Expr
		switch r.Intn(5) {
		case 0: // counter compared with a literal limit, incremented by sumi
			start = lit(fmt.Sprint(r.Range(-2, 2)))
			cond = fn("not", fn("eq", arg(1), lit(fmt.Sprint(lim))))
			incr = fn("sumi", arg(0), lit(fmt.Sprint(r.Range(-2, 3))))
		case 1: // limit from a key of the enclosing match
			g.in.Keys[hex.EncodeToString([]byte("lim"))] = hex.EncodeToString([]byte(fmt.Sprint(lim)))
			start = lit("0")
			cond = fn("not", fn("eq", arg(1), key("lim")))
			incr = fn("sumi", arg(0), arg(0))
		case 2: // growing string, stops when its length reaches the limit; may start empty
			start = lit(Pick(r, []string{"", "", "a", "é"}))
			lim += 2
			cond = fn("not", fn("eq", fn("len", arg(0)), lit(fmt.Sprint(lim))))
			incr = &Expr{Op: "cat", Args: []*Expr{arg(0), lit("a")}}
		case 3: // values that are empty for a while
			start = g.match(Pick(r, []string{"", "", "x"}))
			cond = fn("not", fn("eq", arg(1), lit(fmt.Sprint(lim))))
			incr = fn("if", fn("eq", arg(1), lit(fmt.Sprint(r.Range(0, 3)))), lit("v"), arg(0))
		default:
			start = g.sub(1, false)
			cond = fn("not", fn("eq", arg(1), lit(fmt.Sprint(lim))))
			g.noNested = true
			incr = g.sub(2, false)
			g.noNested = false
		}
		return fn("@for", start, cond, incr)
	case "arr":
		// {@ l1 l2 ...}: concatenation of lists and scalars
		k := r.Range(1, 4)
		e := &Expr{Op: "arr", B: r.Chance(1, 2)}
		for i := 0; i < k; i++ {
			if r.Chance(1, 2) {
				e.Args = append(e.Args, g.listExpr(genList(r), 1))
			} else if r.Chance(1, 2) {
				e.Args = append(e.Args, lit(Pick(r, litAtoms)))
			} else {
				e.Args = append(e.Args, g.match(genElem(r)))
			}
		}
		return e
	case "pipeline": // a chain of helpers over one list
		e := g.listExpr(l, 1)
		for i, k := 0, r.Range(2, 4); i < k; i++ {
			switch r.Intn(4) {
			case 0:
				e = fn("@map", e, g.sub(r.Range(1, 2), false))
			case 1:
				e = fn("@filter", e, g.sub(r.Range(1, 2), false))
			case 2:
				e = &Expr{Op: "@slice", I: idxFor(r, n), J: int64(r.Range(-1, n)), Args: []*Expr{e}}
			default:
				e = &Expr{Op: "arr", Args: []*Expr{e, lit(Pick(r, litAtoms))}}
			}
		}
		switch r.Intn(4) {
		case 0:
			e = fn("@len", e)
		case 1:
			e = &Expr{Op: "@join", S: hex.EncodeToString([]byte(",")), Args: []*Expr{e}}
		case 2:
			e = &Expr{Op: "@select", I: idxFor(r, n), Args: []*Expr{e}}
		}
		if r.Chance(1, 4) {
			e = &Expr{Op: "cat", Args: []*Expr{lit("n="), e, lit(";")}}
		}
		return e
	}
	panic("unknown kind " + kind)
}

var kinds = []string{"@split", "@split", "@join", "splitjoin", "joinsplit", "@len", "@select", "@slice", "@slice", "@map", "@map",
	"@filter", "@filter", "@reduce", "@in", "@range", "@for", "@for", "arr", "pipeline", "pipeline"}

// fixed cases: the documented examples, the known defects, the Unicode white-space table of Truthy, the iteration cap
func c17Fixed(tier string) (ins []*c17In, heavy []bool) {
	mk := func(e *Expr, matches ...string) *c17In {
		in := &c17In{Expr: e, Keys: map[string]string{hex.EncodeToString([]byte("lim")): hex.EncodeToString([]byte("3"))}, W: 2}
		for _, m := range matches {
			in.Matches = append(in.Matches, hex.EncodeToString([]byte(m)))
		}
		return in
	}
	add := func(in *c17In) { ins = append(ins, in); heavy = append(heavy, false) }
	sp := func(a *Expr, d string) *Expr { return &Expr{Op: "@split", S: hex.EncodeToString([]byte(d)), Args: []*Expr{a}} }
	arr := func(xs ...string) *Expr {
		e := &Expr{Op: "arr"}
		for _, x := range xs {
			e.Args = append(e.Args, lit(x))
		}
		return e
	}
	add(mk(sp(lit("a::b"), "::")))
	add(mk(sp(arg(0), "::"), "a::b::::c:"))
	add(mk(sp(arg(0), "aa"), "aaaXaaaaY"))
	add(mk(&Expr{Op: "@slice", I: -10, J: -1, Args: []*Expr{arr("a", "b", "c")}}))
	add(mk(&Expr{Op: "@slice", I: -10, J: 2, Args: []*Expr{arr("a", "b", "c")}}))
	add(mk(&Expr{Op: "@slice", I: -2, J: 1, Args: []*Expr{arr("1", "2", "3", "4")}}))
	add(mk(fn("@map", arr("a", "b"), arg(-1))))
	add(mk(fn("@for", lit("0"), fn("not", fn("eq", arg(0), key("lim"))), fn("sumi", arg(0), lit("1")))))
	add(mk(fn("@for", lit(""), fn("not", fn("eq", arg(1), lit("3"))), &Expr{Op: "cat", Args: []*Expr{arg(0), lit("a")}})))
	add(mk(fn("@for", lit("1"), fn("not", fn("eq", arg(1), lit("5"))), fn("sumi", arg(0), arg(0)))))
	add(mk(fn("@reduce", arr("1", "2", "3"), fn("sumi", arg(0), arg(1)))))
	add(mk(&Expr{Op: "@range", Q: true, Args: []*Expr{lit("0"), lit("5"), lit("1")}}))
	add(mk(&Expr{Op: "@range", Args: []*Expr{lit("1"), lit("10"), lit("2")}}))
	add(mk(fn("@len", arg(0)), ""))
	add(mk(fn("@len", arg(0)), "x"))
	add(mk(fn("@len", arg(0)), "\x00"))
	// Truthy = strings.TrimSpace(s) != "": every white-space rune, neighbours, truncated and invalid encodings
	spaces := []string{"\t", "\n", "\v", "\f", "\r", " ", "\u0085", "\u00a0", "\u1680", "\u2000", "\u2005", "\u200a", "\u2028", "\u2029",
		"\u202f", "\u205f", "\u3000", "\u200b", "\u2007", "\u180e", "\u0084", "\u00a1", "\u167f", "\u1681", "\u1fff", "\u2027", "\u202a",
		"\u202e", "\u2030", "\u205e", "\u2060", "\u2fff", "\u3001", "\ufeff", "\x08", "\x0e", "\x1f", "!", "\xc2", "\xe2\x80", "\xe3\x80",
		"\xa0", "\x85", "\xe2", "\xc2\xc2\xa0", "\u00a0\xc2", " \u3000\t", " \u3000x", "\xe1\x9a", "\xe2\x81\x9f", "\xe2\x81\x9e", "\xe2\x81"}
	for i := 0; i < len(spaces); i += 6 {
		j := i + 6
		if j > len(spaces) {
			j = len(spaces)
		}
		add(mk(fn("@filter", arg(0), arg(0)), strings.Join(spaces[i:j], "\x00")))
		add(mk(fn("@map", arg(0), fn("not", arg(0))), strings.Join(spaces[i:j], "\x00")))
	}
	// @range near the int64 limits with few elements (no overflow possible / overflow possible but not reached)
	rg := func(a, b, c string) *c17In { return mk(fn("@range", arg(0), arg(1), arg(2)), a, b, c) }
	add(rg("9223372036854775000", "9223372036854775500", "300"))
	add(rg("9223372036854775804", "9223372036854775807", "1"))
	add(rg("9223372036854775807", "9223372036854775807", "1"))
	add(rg("-9223372036854775808", "-9223372036854775788", "6"))
	add(rg("-9223372036854775788", "-9223372036854775808", "-7"))
	add(rg("-9000000000000000000", "9000000000000000000", "6000000000000000000"))
	add(rg("9000000000000000000", "-9000000000000000000", "-9000000000000000000"))
	add(rg("0", "9223372036854775807", "9223372036854775807"))
	add(mk(fn("@len", fn("@range", arg(0), arg(1), arg(2))), "-3", "9223372036854775800", "3074457345618258603"))
	// a fast-growing @for value well inside MAX_OUTPUT_BYTES
	add(mk(fn("@len", fn("@for", lit("ab"), fn("not", fn("eq", arg(1), lit("12"))), cat(arg(0), arg(0))))))
	add(mk(&Expr{Op: "@select", I: -1, Args: []*Expr{fn("@map", fn("@for", lit("ab"), fn("not", fn("eq", arg(1), lit("9"))), cat(arg(0), arg(0))), fn("len", arg(0)))}}))
	// the iteration cap of @for (MAX_ITERATIONS, regenerated by the translator): a loop that never ends
	in := mk(fn("@for", lit("x"), lit("1"), arg(0)))
	in.W = 1
	ins = append(ins, in)
	heavy = append(heavy, true)
	// ... and one that stops after exactly 1,000,000 elements (the largest list the pinned cap allows;
	// with another cap the model follows the regenerated constant)
	in = mk(fn("@len", fn("@for", lit("x"), fn("not", fn("eq", arg(1), lit("1000000"))), arg(0))))
	in.W = 1
	ins = append(ins, in)
	heavy = append(heavy, true)
	// @range one element over maxRangeElements (the cap fires in round cap + 1), and an increment that
	// overflows int64 after the only element: the wrapped counter stays below stop until the cap fires
	for _, h := range []*c17In{
		mk(fn("@range", lit("0"), lit("1000001"), lit("1"))),
		rg("9223372036854775806", "9223372036854775807", "5"),
		// @for: 990000 rounds (fewer than MAX_ITERATIONS) of a 70-byte value exceed MAX_OUTPUT_BYTES
		mk(fn("@for", lit("0123456789012345678901234567890123456789012345678901234567890123456789"), fn("not", fn("eq", arg(1), lit("990000"))), arg(0))),
	} {
		h.W = 1
		ins = append(ins, h)
		heavy = append(heavy, true)
	}
	return
}


// ---------------------------------------------------------------- shared-state probes
// One compiled expression, several matches: state that an implementation keeps per compiled
// expression (instead of per evaluation) is invisible to a single goroutine and to goroutines that
// all evaluate the same match; it shows when goroutines evaluate the SAME compiled expression against
// DIFFERENT contexts at the same time ({0}/{1} bindings and the parent match of one evaluation leak
// into another).  Every context of a group is a case of its own (the model predicts its value).

func hx(s string) string { return hex.EncodeToString([]byte(s)) }

// context number v of a probe group: {0} a list of 1-5 marked elements (some with ':'-separated parts),
// {1} a list of numbers, keys k / name / lim
func probeCtx(r *Rng, v int) ([]string, map[string]string) {
	mark := string(rune('p' + v))
	n := r.Range(1, 5)
	l := make([]string, n)
	for i := range l {
		switch r.Intn(5) {
		case 0:
			l[i] = mark + Pick(r, []string{"a", "b", "ab"}) + ":" + mark + Pick(r, []string{"c", "", "1"})
		case 1:
			l[i] = mark
		case 2:
			l[i] = mark + fmt.Sprint(r.Range(0, 99))
		default:
			l[i] = mark + Pick(r, []string{"a", "b", "ab", "ba", "abc", "é"})
		}
	}
	nums := make([]string, r.Range(1, 5))
	for i := range nums {
		nums[i] = fmt.Sprint(r.Range(-50, 50) + 1000*v)
	}
	k := Pick(r, l)
	if r.Chance(1, 3) {
		k = mark
	}
	keys := map[string]string{hx("k"): hx(k), hx("name"): hx(mark + "N"), hx("lim"): hx(fmt.Sprint(r.Range(1, 5)))}
	return []string{hx(strings.Join(l, "\x00")), hx(strings.Join(nums, "\x00"))}, keys
}

func cat(parts ...*Expr) *Expr { return &Expr{Op: "cat", Args: parts} }

// expressions over {0} (list), {1} (numbers) and the keys k, name, lim whose sub-expressions read
// {0}/{1} twice and a named key of the enclosing match
func probeExpr(r *Rng) *Expr {
	L := func() *Expr { return arg(0) }
	mapF := func() *Expr {
		switch r.Intn(4) {
		case 0:
			return cat(arg(0), lit("-"), key("k"), lit("-"), arg(0))
		case 1:
			return fn("if", fn("eq", arg(0), key("k")), key("name"), cat(arg(0), arg(0)))
		case 2:
			return cat(fn("prefix", arg(0), key("k")), lit("/"), arg(0))
		default:
			return cat(fn("eq", cat(arg(0), key("k")), cat(key("k"), arg(0))), arg(0), key("name"))
		}
	}
	pred := func() *Expr {
		switch r.Intn(4) {
		case 0:
			return fn("eq", arg(0), key("k"))
		case 1:
			return fn("not", fn("eq", arg(0), key("k")))
		case 2:
			return fn("prefix", arg(0), key("k"))
		default:
			return fn("if", fn("eq", fn("len", arg(0)), lit("3")), arg(0), fn("eq", cat(arg(0), arg(0)), cat(key("k"), key("k"))))
		}
	}
	red := func() *Expr {
		switch r.Intn(3) {
		case 0:
			return cat(arg(0), lit("+"), arg(1), key("k"))
		case 1:
			return fn("if", fn("prefix", arg(1), key("k")), cat(arg(0), arg(1), arg(1)), cat(arg(0), key("name")))
		default:
			return cat(arg(1), arg(0), arg(1))
		}
	}
	sp := func(a *Expr, d string) *Expr { return &Expr{Op: "@split", S: hx(d), Args: []*Expr{a}} }
	jn := func(a *Expr, d string) *Expr { return &Expr{Op: "@join", S: hx(d), Args: []*Expr{a}} }
	forNoKey := func(start *Expr) *Expr { // no key inside cond/incr: outside the domain of C17-for-parent-context
		return fn("@for", start, fn("not", fn("eq", arg(1), lit(fmt.Sprint(r.Range(1, 4))))), cat(arg(0), lit("."), arg(0)))
	}
	switch r.Intn(12) {
	case 0:
		return fn("@map", L(), mapF())
	case 1:
		return fn("@filter", L(), pred())
	case 2:
		e := fn("@reduce", L(), red())
		if r.Bool() {
			e.S = hx("i")
		}
		return e
	case 3:
		return &Expr{Op: "@reduce", Args: []*Expr{arg(1), fn("sumi", arg(0), arg(1))}}
	case 4: // @for, start from a key (evaluated in the enclosing match), sub-expressions read {0} twice
		return forNoKey(cat(lit("s"), key("name")))
	case 5: // @for whose sub-expressions read a key of the enclosing match
		return fn("@for", cat(lit("s"), key("name")), fn("not", fn("eq", arg(1), key("lim"))), cat(arg(0), key("k")))
	case 6: // a helper nested inside a sub-expression
		return fn("@map", L(), jn(fn("@map", sp(arg(0), ":"), cat(arg(0), key("k"), arg(0))), "+"))
	case 7:
		return fn("@filter", fn("@map", L(), mapF()), pred())
	case 8:
		return fn("@reduce", fn("@filter", L(), pred()), red())
	case 9: // @for inside @map
		return fn("@map", L(), jn(forNoKey(arg(0)), "+"))
	case 10:
		return fn("@map", L(), jn(fn("@filter", sp(arg(0), ":"), fn("not", fn("eq", cat(arg(0), arg(0)), cat(key("k"), key("k"))))), "|"))
	default:
		return &Expr{Op: "arr", Args: []*Expr{fn("@map", L(), mapF()), fn("@filter", L(), pred()), fn("@len", fn("@map", L(), mapF()))}}
	}
}

// ---------------------------------------------------------------- sequences on one compiled expression
// The extractor compiles an expression once and evaluates it for every match.  A group is one
// expression whose arguments come from the match ({0}.. and named keys) and a sequence of 6-9
// contexts: optionally an all-empty context first (like the optimiser's probe), then 3-5 base contexts
// repeated and permuted (same start/stop with different increments, same list again, ...).  Every step
// is a case: input = (expression, that context), observed = what the shared compiled expression
// returned at that step.  The model knows nothing of the history, so any memory in the
// implementation shows as a disagreement with a failing input that carries the history.

func peerOf(ms []string, ks map[string]string) c17Peer { return c17Peer{Matches: ms, Keys: ks} }

func hxs(xs ...string) []string {
	out := make([]string, len(xs))
	for i, x := range xs {
		out[i] = hx(x)
	}
	return out
}

func seqGroup(r *Rng) (e *Expr, base []c17Peer, allowEmpty bool) {
	allowEmpty = true
	sp := func(a *Expr, d string) *Expr { return &Expr{Op: "@split", S: hx(d), Args: []*Expr{a}} }
	jn := func(a *Expr, d string) *Expr { return &Expr{Op: "@join", S: hx(d), Args: []*Expr{a}} }
	nbase := r.Range(3, 5)
	switch r.Intn(10) {
	case 0, 1, 2: // @range with dynamic start / stop / increment
		rng := fn("@range", arg(0), arg(1), arg(2))
		switch r.Intn(8) {
		case 0, 1:
			e = rng
		case 2:
			e = fn("@len", rng)
		case 3:
			e = jn(rng, ",")
		case 4: // the increment is the element of an enclosing @map, the bounds are keys of the match
			e = fn("@map", arg(3), jn(fn("@range", key("k"), key("lim"), arg(0)), ","))
		case 5:
			e = fn("@filter", rng, fn("not", fn("eq", arg(0), key("k"))))
		case 6:
			e = &Expr{Op: "@select", I: int64(r.Range(-3, 3)), Args: []*Expr{rng}}
		default:
			e = fn("@reduce", rng, fn("sumi", arg(0), arg(1)))
		}
		start, stop := r.Range(-5, 5), 0
		up := r.Bool()
		if up {
			stop = start + r.Range(0, 12)
		} else {
			stop = start - r.Range(0, 12)
		}
		for v := 0; v < nbase; v++ {
			st, sp2 := start, stop
			if v == nbase-1 && r.Bool() { // one context with other bounds
				st += r.Range(1, 3)
			}
			incr := r.Range(1, 4)
			if !up {
				incr = -incr
			}
			incrs := []string{}
			for i, k := 0, r.Range(1, 4); i < k; i++ {
				x := r.Range(1, 4)
				if !up {
					x = -x
				}
				incrs = append(incrs, fmt.Sprint(x))
			}
			sIncr := fmt.Sprint(incr)
			if r.Chance(1, 12) {
				sIncr = Pick(r, []string{"0", "x", "", fmt.Sprint(-incr)})
			}
			base = append(base, peerOf(hxs(fmt.Sprint(st), fmt.Sprint(sp2), sIncr, strings.Join(incrs, "\x00")),
				map[string]string{hx("k"): hx(fmt.Sprint(st)), hx("lim"): hx(fmt.Sprint(sp2)), hx("name"): hx("n" + fmt.Sprint(v))}))
		}
	case 3, 4, 5: // @select / @slice / @len / @in / {@ ..} / @split / @join: the list comes from the match
		d := Pick(r, []string{",", ":", "::", "aa", ", ", "é", "ab"})
		switch r.Intn(10) {
		case 0:
			e = &Expr{Op: "@select", I: int64(r.Range(-4, 4)), Args: []*Expr{arg(0)}}
		case 1, 2:
			e = &Expr{Op: "@slice", I: int64(r.Range(-5, 4)), J: int64(r.Range(-1, 4)), Args: []*Expr{arg(0)}}
		case 3:
			e = fn("@len", arg(0))
		case 4:
			e = fn("@in", arg(1))
			for i, k := 0, r.Range(1, 4); i < k; i++ {
				e.Set = append(e.Set, hx(Pick(r, []string{"a", "b", "ab", "1", "2", "é", "x y"})))
			}
		case 5:
			e = &Expr{Op: "arr", B: r.Bool(), Args: []*Expr{arg(0), arg(1), fn("@len", arg(0))}}
		case 6:
			e = sp(arg(2), d)
		case 7:
			e = jn(arg(0), d)
		case 8:
			e = jn(sp(arg(2), d), Pick(r, []string{"+", d}))
		default:
			e = &Expr{Op: "@slice", I: int64(r.Range(-3, 2)), J: int64(r.Range(-1, 3)), Args: []*Expr{sp(arg(2), d)}}
		}
		for v := 0; v < nbase; v++ {
			l := genList(r)
			el := Pick(r, []string{"a", "b", "ab", "1", "2", "é", "x y", ""})
			if len(l) > 0 && r.Bool() {
				el = Pick(r, l)
			}
			base = append(base, peerOf(hxs(strings.Join(l, "\x00"), el, strings.Join(l, d)),
				map[string]string{hx("k"): hx(el)}))
		}
	default: // @map / @filter / @reduce / @for and nestings, bodies reading {0}/{1} and keys of the match
		e = probeExpr(r)
		e.walk(func(x *Expr, _ bool) {
			if x.Op == "@for" && hasKey(x.Args[1]) {
				allowEmpty = false // an empty {lim} makes the loop run to the cap: a million rounds per step
			}
		}, false)
		for v := 0; v < nbase; v++ {
			ms, ks := probeCtx(r, r.Intn(probeContexts))
			base = append(base, peerOf(ms, ks))
		}
	}
	return
}

func c17SeqGroup(r *Rng) []*c17In {
	e, base, allowEmpty := seqGroup(r)
	var seq []c17Peer
	if allowEmpty && r.Bool() {
		empty := make([]string, len(base[0].Matches))
		seq = append(seq, peerOf(empty, map[string]string{}))
	}
	for _, i := range []int{0, 1, 0} { // every base context once at least, one of them again later
		seq = append(seq, base[i%len(base)])
	}
	for i := 2; i < len(base); i++ {
		seq = append(seq, base[i])
	}
	for k := r.Range(1, 3); k > 0; k-- {
		b := Pick(r, base)
		seq = append(seq, b)
		if r.Chance(1, 3) {
			seq = append(seq, b) // the same context twice in a row
		}
	}
	noOpt := r.Bool()
	var group []*c17In
	for j, c := range seq {
		group = append(group, &c17In{Expr: e, Matches: c.Matches, Keys: c.Keys, W: 1, NoOpt: noOpt, Step: j,
			History: append([]c17Peer(nil), seq[:j]...)})
	}
	return group
}

// evaluates one compilation of the group's expression over the whole sequence; a step whose value differs
// from the case's own (fresh compile, single evaluation) value gets the sequence's value as its observable
func c17SeqApply(ins []*c17In, outs []c17Out, idx []int) {
	cp, out := c17Compile(ins[idx[0]])
	if cp == nil {
		for _, i := range idx {
			outs[i].Completed, outs[i].Out, outs[i].Note = false, "", "sequence: "+out.Note
		}
		return
	}
	for j, i := range idx {
		ctx := ins[i].ctx()
		s, ok, note := guarded(func() string { return cp.kb.BuildKey(ctx) }, 60*time.Second)
		got := hex.EncodeToString([]byte(s))
		switch {
		case !ok:
			outs[i].Completed, outs[i].Out = false, ""
			outs[i].Note = fmt.Sprintf("step %d of a sequence on one compiled expression: %s", j, note)
			return // a hung evaluation keeps running: stop using this builder
		case !outs[i].Completed || got != outs[i].Out:
			outs[i].Note = fmt.Sprintf("step %d of a sequence on one compiled expression returned %s; a fresh compilation evaluated once returns %s (%s)", j, got, outs[i].Out, outs[i].Note)
			outs[i].Completed, outs[i].Out = true, got
		}
	}
}

const probeContexts = 4

func c17ProbeGroup(r *Rng) []*c17In {
	e := probeExpr(r)
	iter := 2000 + r.Intn(2000)
	w := Pick(r, []int{2, 4, 8})
	ms := make([][]string, probeContexts)
	ks := make([]map[string]string, probeContexts)
	for v := range ms {
		ms[v], ks[v] = probeCtx(r, v)
	}
	var group []*c17In
	for v := range ms {
		in := &c17In{Expr: e, Matches: ms[v], Keys: ks[v], W: w, Iter: iter}
		for u := range ms {
			if u != v {
				in.Peers = append(in.Peers, c17Peer{Matches: ms[u], Keys: ks[u]})
			}
		}
		group = append(group, in)
	}
	return group
}

// w goroutines evaluate kb at the same time, goroutine g against context g mod len(ctxs), iter times each;
// returns for every context the first result that differs from the sequential one ("" = none)
func c17ProbeRun(kb *expressions.CompiledKeyBuilder, ctxs []*mctx, want []string, w, iter int) []string {
	notes := make([]string, len(ctxs))
	var mu sync.Mutex
	var wg sync.WaitGroup
	start := make(chan struct{})
	if w < 2*len(ctxs) {
		w = 2 * len(ctxs) // every context is evaluated by two goroutines at least
	}
	for g := 0; g < w; g++ {
		wg.Add(1)
		go func(v int) {
			defer wg.Done()
			defer func() {
				if e := recover(); e != nil {
					mu.Lock()
					if notes[v] == "" {
						notes[v] = "concurrent evaluation against different matches: panic: " + fmt.Sprint(e)
					}
					mu.Unlock()
				}
			}()
			<-start
			for i := 0; i < iter; i++ {
				if s := kb.BuildKey(ctxs[v]); s != want[v] {
					mu.Lock()
					if notes[v] == "" {
						notes[v] = "concurrent evaluation of the same compiled expression against different matches returned " +
							hex.EncodeToString([]byte(s)) + ", sequential " + hex.EncodeToString([]byte(want[v]))
					}
					mu.Unlock()
					return
				}
			}
		}(g % len(ctxs))
	}
	done := make(chan struct{})
	go func() { wg.Wait(); close(done) }()
	close(start)
	select {
	case <-done:
	case <-time.After(120 * time.Second):
		mu.Lock()
		for v := range notes {
			if notes[v] == "" {
				notes[v] = "concurrent evaluation did not finish within 120s"
			}
		}
		mu.Unlock()
	}
	mu.Lock()
	defer mu.Unlock()
	return append([]string(nil), notes...)
}

// runs the probe of a group whose members are ins[idx...]; members share the first member's compiled expression
func c17ProbeApply(ins []*c17In, cps []*compiled, outs []c17Out, idx []int) {
	var kb *expressions.CompiledKeyBuilder
	var ctxs []*mctx
	var want []string
	var who []int
	for _, i := range idx {
		if cps[i] == nil || !outs[i].Completed {
			continue
		}
		if kb == nil {
			kb = cps[i].kb
		}
		b, _ := hex.DecodeString(outs[i].Out)
		ctxs, want, who = append(ctxs, cps[i].ctx), append(want, string(b)), append(who, i)
	}
	if len(ctxs) < 2 {
		return
	}
	// sequential sanity with the shared builder (the builder of the first member, every context)
	for j := range ctxs {
		if s, ok, note := guarded(func() string { return kb.BuildKey(ctxs[j]) }, 60*time.Second); !ok || s != want[j] {
			// the value must not depend on which compilation of the expression is used or on what was evaluated before
			outs[who[j]].Completed, outs[who[j]].Out = false, ""
			outs[who[j]].Note = "sequential evaluation with the group's shared compiled expression: " + note + " " + hex.EncodeToString([]byte(s)) + ", own compilation " + hex.EncodeToString([]byte(want[j]))
			return
		}
	}
	t0 := time.Now()
	kb.BuildKey(ctxs[0])
	iter := ins[idx[0]].Iter
	if d := time.Since(t0); d > 200*time.Microsecond { // keep one group below about a second
		iter = int(200*time.Microsecond*time.Duration(iter)/d) + 50
	}
	notes := c17ProbeRun(kb, ctxs, want, ins[idx[0]].W, iter)
	for j, note := range notes {
		if note != "" {
			outs[who[j]].Completed, outs[who[j]].Out, outs[who[j]].Note = false, "", note
		}
	}
}

func c17Gen(r *Rng, n int, tier string) []Case {
	ins, heavy := c17Fixed(tier)
	for len(ins) < n {
		g := newGen(r.Fork())
		g.in.Expr = g.root(Pick(r, kinds))
		if len(g.in.Expr.tmplTop()) > 600 {
			continue
		}
		g.in.NoOpt = r.Chance(1, 4)
		ins = append(ins, g.in)
		heavy = append(heavy, false)
	}
	// the heavy cases (about 10 s of vm_compute each) go to different shards
	{
		var hs, rest []*c17In
		for i, in := range ins {
			if heavy[i] {
				hs = append(hs, in)
			} else {
				rest = append(rest, in)
			}
		}
		ins, heavy = nil, nil
		for i, in := range rest {
			ins, heavy = append(ins, in), append(heavy, false)
			if (i+1)%100 == 60 && len(hs) > 0 {
				ins, heavy = append(ins, hs[0]), append(heavy, true)
				hs = hs[1:]
			}
		}
		for _, in := range hs {
			ins, heavy = append(ins, in), append(heavy, true)
		}
	}
	// shared-state probes: groups of probeContexts cases with one expression
	var groups [][]int
	ngroups := n / 30
	if tier == "thorough" && ngroups > 400 {
		ngroups = 400
	}
	pr := r.Fork()
	for k := 0; k < ngroups; k++ {
		var idx []int
		for _, in := range c17ProbeGroup(pr) {
			idx = append(idx, len(ins))
			ins, heavy = append(ins, in), append(heavy, false)
		}
		groups = append(groups, idx)
	}
	// sequences on one compiled expression
	var seqs [][]int
	sr := r.Fork()
	for k := 0; k < n/25; k++ {
		var idx []int
		for _, in := range c17SeqGroup(sr) {
			idx = append(idx, len(ins))
			ins, heavy = append(ins, in), append(heavy, false)
		}
		seqs = append(seqs, idx)
	}
	cps := make([]*compiled, len(ins))
	outs := make([]c17Out, len(ins))
	for i, in := range ins {
		cps[i], outs[i] = c17Run(in)
	}
	c17Concurrent(r.Fork(), cps, outs, ins, heavy)
	for _, idx := range groups {
		c17ProbeApply(ins, cps, outs, idx)
	}
	for _, idx := range seqs {
		c17SeqApply(ins, outs, idx)
	}
	cases := make([]Case, len(ins))
	for i := range ins {
		cases[i] = c17Case(ins[i], outs[i])
	}
	return cases
}

func main() {
	Main(&Prop{
		Name:   "C17",
		Header: "From Coq Require Import List NArith ZArith String.\nFrom RareV Require Import Model.ArrayFns Corr.C17Case.\nImport ListNotations.\nOpen Scope string_scope.\n",
		Rule: "fixed cases (documented examples, the recorded defects, every Unicode white-space rune and its neighbours through @filter/@map, a never-ending @for hitting MAX_ITERATIONS) followed by seeded random expressions: " +
			"one helper per case (@split @join @len @select @slice @map @filter @reduce @in @range @for {@ ..} {$ ..}, split/join round trips, pipelines of 2-4 helpers) over lists of 0-9 elements " +
			"(empty, white-space-only, numeric, multi-byte, invalid UTF-8 elements) given as a match group, {@ ..} of literals, @split of a joined string, @range or a slice of a longer list; " +
			"delimiters of 0-4 bytes incl. multi-byte runes and self-overlapping ones; indices/lengths in [-n-3, n+3]; sub-expressions over {0} {1} {2..} {-1} named keys literals and eq/not/if/prefix/len/sumi/concatenation nested to depth 3, incl. helpers nested inside a sub-expression; " +
			"each compiled expression is evaluated once sequentially and then 3 times from each of 1-8 goroutines concurrently with all other cases of the run (any differing result fails the case). " +
			"shared-state probes: n/30 groups of 4 cases with ONE compiled expression (@map/@filter/@reduce/@for and nestings whose sub-expressions read {0}/{1} twice and a named key of the enclosing match) and 4 different contexts (different list contents, different keys); 8 goroutines evaluate the shared compiled expression simultaneously, each against its own context, 2000-4000 times, and every result must equal the sequential result for that context. " +
			"sequences: n/25 groups of 6-9 cases with ONE compiled expression (optimised or NewStdKeyBuilderEx(false)) whose arguments come from the match (@range with dynamic start/stop/increment also inside @map, @select/@slice/@len/@in/{@ ..}/@split/@join of a list from the match, @map/@filter/@reduce/@for bodies) evaluated over a sequence of contexts (optionally an all-empty context first, then 3-5 base contexts repeated and permuted: same bounds with another increment, same list again); the observable of step j is what the shared compiled expression returned at step j and must equal the model's value for that context alone; a quarter of the ordinary cases is compiled without the optimiser. " +
			"distinct = distinct (expression, match groups, keys, history); non-trivial = a list of >= 2 elements, a negative or out-of-range index, a multi-byte delimiter, a named key or nested helper inside a sub-expression.",
		Gen: c17Gen,
		Replay: func(d json.RawMessage) (Case, error) {
			var doc struct {
				Input c17In `json:"input"`
			}
			if err := json.Unmarshal(d, &doc); err != nil {
				return Case{}, err
			}
			if doc.Input.Expr == nil {
				return Case{}, fmt.Errorf("replay: no input.expr")
			}
			in := &doc.Input
			cp, out := c17Run(in)
			outs := []c17Out{out}
			if in.W > 1 {
				c17Concurrent(NewRng(1), []*compiled{cp}, outs, []*c17In{in}, []bool{false})
			}
			if len(in.Peers) > 0 && cp != nil && outs[0].Completed {
				// rebuild the group: this context and its peers, one compiled expression; a divergence on any
				// of them fails the replayed case
				ins := []*c17In{in}
				cps := []*compiled{cp}
				for _, p := range in.Peers {
					pin := &c17In{Expr: in.Expr, Matches: p.Matches, Keys: p.Keys, W: in.W, Iter: in.Iter}
					s, ok, _ := guarded(func() string { return cp.kb.BuildKey(pin.ctx()) }, 60*time.Second)
					ins, cps = append(ins, pin), append(cps, &compiled{kb: cp.kb, ctx: pin.ctx()})
					outs = append(outs, c17Out{Completed: ok, Out: hex.EncodeToString([]byte(s))})
				}
				idx := make([]int, len(ins))
				for i := range idx {
					idx[i] = i
				}
				for rep := 0; rep < 5 && outs[0].Completed; rep++ {
					c17ProbeApply(ins, cps, outs, idx)
					for i := 1; i < len(outs); i++ {
						if !outs[i].Completed && outs[i].Note != "" && outs[0].Completed {
							outs[0].Completed, outs[0].Out, outs[0].Note = false, "", "peer context: "+outs[i].Note
						}
					}
				}
			}
			if len(in.History) > 0 {
				// rebuild the sequence: the history contexts, then this one, on one compilation
				seqIns := []*c17In{}
				seqOuts := []c17Out{}
				for j, h := range in.History {
					hin := &c17In{Expr: in.Expr, Matches: h.Matches, Keys: h.Keys, W: 1, NoOpt: in.NoOpt, Step: j}
					_, ho := c17Run(hin)
					seqIns, seqOuts = append(seqIns, hin), append(seqOuts, ho)
				}
				seqIns, seqOuts = append(seqIns, in), append(seqOuts, outs[0])
				idx := make([]int, len(seqIns))
				for i := range idx {
					idx[i] = i
				}
				c17SeqApply(seqIns, seqOuts, idx)
				outs[0] = seqOuts[len(seqOuts)-1]
			}
			return c17Case(in, outs[0]), nil
		},
		Shard: 100,
	})
}
