package main

// C04: pkg/readahead ImmediateReadAhead over a scripted io.Reader.

import (
	"encoding/hex"
	"encoding/json"
	"errors"
	"fmt"
	"io"
	"os"
	"path/filepath"
	"strings"
	"syscall"
	"time"

	"rare/pkg/extractor/batchers"
	"rare/pkg/readahead"
	. "verifh/lib"
)

type c04Step struct {
	Want int `json:"want"`
	Kind int `json:"kind"` // 0 nil, 1 io.EOF, 2 injected error
}
type c04In struct {
	Buffered  bool      `json:"buffered,omitempty"`   // BufferedReadAhead (buf_size = maxBufLen > 1) instead of ImmediateReadAhead
	NoHandler bool      `json:"no_handler,omitempty"` // no OnError callback is registered (a read error must still end the stream)
	Batcher   int       `json:"batcher,omitempty"`    // 1: the file readers' loop (syncReaderToBatcher), 2: the time-flushing loop of OpenReaderToChan; buf_size is then the batchers' own
	BatchSize int       `json:"batch_size,omitempty"`
	BufSize   int       `json:"buf_size"`
	Script    []c04Step `json:"script"`
	Stream    string    `json:"stream_hex"`
}
type c04Out struct {
	Completed bool     `json:"completed"`
	Ret       []string `json:"tokens_at_return_hex"`
	End       []string `json:"tokens_at_end_hex"`
	Nerr      int      `json:"on_error_calls"`
	Rae       int      `json:"reads_after_error"`
	Del       string   `json:"delivered_hex"`
	Note      string   `json:"note,omitempty"`
}

var errInjected = errors.New("injected read error")

// the identity of an injected failure varies (the property speaks of ANY non-EOF read error): chosen
// by the position of the failure, so a case replays exactly
// It includes failures that merely WRAP or resemble io.EOF (a net.OpError around EOF, a PathError, a
// distinct error printing "EOF"): io.Reader signals a clean end with io.EOF itself, everything else is a failure
var errKinds = []error{errInjected, io.ErrUnexpectedEOF, io.ErrClosedPipe, io.ErrNoProgress, io.ErrShortBuffer, syscall.EIO,
	fmt.Errorf("read tcp 10.0.0.1:514: %w", io.EOF), &os.PathError{Op: "read", Path: "/var/log/app.log", Err: io.EOF}, errors.New("EOF"),
	fmt.Errorf("gzip: %w", io.ErrUnexpectedEOF), wrappedErr{io.EOF}}

// an error type with Unwrap only (no Is method), around io.EOF
type wrappedErr struct{ inner error }

func (w wrappedErr) Error() string { return "connection reset: " + w.inner.Error() }
func (w wrappedErr) Unwrap() error { return w.inner }

type scriptReader struct {
	script    []c04Step
	stream    []byte
	pos, k    int
	delivered []byte
	done      bool
	rae       int
	reads     int
	soft      bool
	runaway   bool
}

func (r *scriptReader) Read(p []byte) (int, error) {
	r.reads++
	if r.reads > len(r.script)+len(r.stream)+10000 {
		if r.soft { // called on a goroutine of the code under test: a panic would take the harness down
			r.runaway = true
			return 0, io.EOF
		}
		panic("runaway reader loop")
	}
	if r.done {
		r.rae++
	}
	want, kind := 0, 1
	if r.k < len(r.script) {
		want, kind = r.script[r.k].Want, r.script[r.k].Kind
		r.k++
	}
	n := want
	if len(p) < n {
		n = len(p)
	}
	if len(r.stream)-r.pos < n {
		n = len(r.stream) - r.pos
	}
	copy(p, r.stream[r.pos:r.pos+n])
	r.delivered = append(r.delivered, r.stream[r.pos:r.pos+n]...)
	r.pos += n
	switch kind {
	case 0:
		return n, nil
	case 1:
		r.done = true
		return n, io.EOF
	default:
		r.done = true
		return n, errKinds[(r.pos+len(r.script))%len(errKinds)]
	}
}

func c04Run(in c04In) (out c04Out) {
	stream, _ := hex.DecodeString(in.Stream)
	rd := &scriptReader{script: in.Script, stream: stream}
	defer func() {
		if e := recover(); e != nil {
			out = c04Out{Completed: false, Note: fmt.Sprint(e)}
		}
	}()
	if in.Batcher != 0 {
		return c04RunBatcher(in, rd)
	}
	var ra readahead.Scanner
	nerr := 0
	if in.Buffered {
		b := readahead.NewBuffered(rd, in.BufSize)
		if !in.NoHandler {
			b.OnError(func(error) { nerr++ })
		}
		ra = b
	} else {
		im := readahead.NewImmediate(rd, in.BufSize)
		if !in.NoHandler {
			im.OnError(func(error) { nerr++ })
		}
		ra = im
	}
	var toks, rets [][]byte
	for ra.Scan() {
		t := ra.Bytes()
		toks = append(toks, t)
		rets = append(rets, append([]byte(nil), t...))
		if len(toks) > len(stream)+5 {
			panic("runaway token loop")
		}
	}
	out.Completed = true
	for i := range toks {
		out.Ret = append(out.Ret, hex.EncodeToString(rets[i]))
		out.End = append(out.End, hex.EncodeToString(toks[i]))
	}
	out.Nerr, out.Rae, out.Del = nerr, rd.rae, hex.EncodeToString(rd.delivered)
	return
}

type closer struct{ io.Reader }

func (closer) Close() error { return nil }

// the two scan loops of pkg/extractor/batchers over the same scripted reader: what they put into their
// batches, in order, is what the scanner handed out (held until the end, like the workers hold a batch)
func c04RunBatcher(in c04In, rd *scriptReader) (out c04Out) {
	var b *batchers.Batcher
	rd.soft = true
	if in.Batcher == 3 {
		// a regular file holding the stream, through OpenFilesToChan (which picks the scanner's buffer itself):
		// one read delivers a file shorter than the buffer, the next one is the end
		work := os.Getenv("VERIF_WORK")
		if work == "" {
			work = os.TempDir()
		}
		dir, err := os.MkdirTemp(work, "c04file")
		if err != nil {
			return c04Out{Completed: false, Note: err.Error()}
		}
		defer os.RemoveAll(dir)
		p := filepath.Join(dir, "in.log")
		os.WriteFile(p, rd.stream, 0o644)
		names := make(chan string, 1)
		names <- p
		close(names)
		b = batchers.OpenFilesToChan(names, false, 1, in.BatchSize, 1+in.BatchSize%3)
		rd.delivered = rd.stream
	} else if in.Batcher == 1 {
		b = batchers.VerifSyncReader("src", rd, in.BatchSize, 1+in.BatchSize%3)
	} else {
		b = batchers.OpenReaderToChan("src", closer{rd}, in.BatchSize, 1+in.BatchSize%3)
	}
	var toks, rets [][]byte
	outcome, pv := Guarded(20*time.Second, func() {
		for batch := range b.BatchChan() {
			for _, l := range batch.Batch {
				toks = append(toks, l)
				rets = append(rets, append([]byte(nil), l...))
			}
		}
	})
	if outcome != "ok" || rd.runaway {
		return c04Out{Completed: false, Note: fmt.Sprint(outcome, " ", pv, " runaway reader loop: ", rd.runaway)}
	}
	out.Completed = true
	for i := range toks {
		out.Ret = append(out.Ret, hex.EncodeToString(rets[i]))
		out.End = append(out.End, hex.EncodeToString(toks[i]))
	}
	out.Nerr, out.Rae, out.Del = b.ReadErrors(), rd.rae, hex.EncodeToString(rd.delivered)
	return
}

func c04Case(in c04In) Case {
	out := c04Run(in)
	scr := make([]string, len(in.Script))
	for i, s := range in.Script {
		scr[i] = fmt.Sprintf("(%d,%d)", s.Want, s.Kind)
	}
	q := func(xs []string) string {
		ps := make([]string, len(xs))
		for i, x := range xs {
			ps[i] = "\"" + x + "\""
		}
		return "[" + strings.Join(ps, ";") + "]"
	}
	var coq string
	cname := "c"
	if in.Buffered {
		cname = "cb"
	}
	if out.Completed && in.NoHandler {
		coq = fmt.Sprintf(cname+"q %d %s \"%s\" %s %s %d \"%s\"", in.BufSize, CoqList(scr), in.Stream,
			q(out.Ret), q(out.End), out.Rae, out.Del)
	} else if out.Completed {
		coq = fmt.Sprintf(cname+" %d %s \"%s\" %s %s %d %d \"%s\"", in.BufSize, CoqList(scr), in.Stream,
			q(out.Ret), q(out.End), out.Nerr, out.Rae, out.Del)
	} else {
		coq = fmt.Sprintf(cname+"N %d %s \"%s\"", in.BufSize, CoqList(scr), in.Stream)
	}
	// boundary classes
	stream, _ := hex.DecodeString(in.Stream)
	tags := []string{}
	pos := 0
	cutNL, zero, inj, nerrData := false, false, false, false
	for _, s := range in.Script {
		n := s.Want
		if n == 0 && s.Kind == 0 {
			zero = true
		}
		if s.Kind == 2 {
			inj = true
			if n > 0 {
				nerrData = true
			}
		}
		if pos+n > len(stream) {
			n = len(stream) - pos
		}
		pos += n
		if pos > 0 && pos < len(stream) && (stream[pos] == '\n' || stream[pos-1] == '\n' || stream[pos-1] == '\r') {
			cutNL = true
		}
		if s.Kind != 0 {
			break
		}
	}
	lines := strings.Split(string(stream), "\n")
	long := false
	for _, l := range lines {
		if len(l) >= in.BufSize {
			long = true
		}
	}
	if cutNL {
		tags = append(tags, "chunk-boundary-at-delimiter")
	}
	if zero {
		tags = append(tags, "zero-byte-read")
	}
	if inj {
		tags = append(tags, "injected-error")
	}
	if nerrData {
		tags = append(tags, "error-with-data")
	}
	if long {
		tags = append(tags, "line>=bufsize(regrow)")
	}
	if len(stream) > 0 && stream[len(stream)-1] != '\n' {
		tags = append(tags, "no-trailing-newline")
	}
	if strings.Contains(string(stream), "\r\n") {
		tags = append(tags, "crlf")
	}
	tags = append(tags, fmt.Sprintf("bufsize=%d", in.BufSize))
	if in.NoHandler {
		tags = append(tags, "no-error-callback")
	}
	if in.Buffered {
		tags = append(tags, "scanner=buffered")
	} else {
		tags = append(tags, "scanner=immediate")
	}
	switch {
	case len(stream) == 0:
		tags = append(tags, "len=0")
	case len(stream) <= 16:
		tags = append(tags, "len<=16")
	case len(stream) <= 256:
		tags = append(tags, "len<=256")
	default:
		tags = append(tags, "len>256")
	}
	kb, _ := json.Marshal(in)
	return Case{Coq: coq, Desc: map[string]any{"input": in, "impl": out}, Key: string(kb),
		Nontrivial: len(lines) >= 2 && (cutNL || zero || inj || long), Tags: tags}
}

var c04BufSizes = []int{1, 2, 3, 4, 5, 7, 8, 16, 64, 1024}

func c04Stream(r *Rng, n int) []byte {
	b := make([]byte, n)
	for i := range b {
		switch x := r.Intn(20); {
		case x < 4:
			b[i] = '\n'
		case x < 7:
			b[i] = '\r'
		case x == 7:
			b[i] = 0
		case x == 8:
			b[i] = 0xff
		default:
			b[i] = byte('a' + r.Intn(26))
		}
	}
	// make CRLF pairs more frequent
	for i := 0; i+1 < n; i++ {
		if b[i] == '\r' && r.Chance(1, 2) {
			b[i+1] = '\n'
		}
	}
	// every byte value is content: a sixth of the streams draw some bytes from the whole range ...
	if r.Chance(1, 6) {
		for i := range b {
			if r.Chance(1, 3) {
				b[i] = byte(r.Intn(256))
			}
		}
	}
	// ... and a quarter carry a byte sequence that other tools treat as a marker (byte-order marks, gzip
	// magic, shebang, U+2028) at the very start, at the start of a later line, or at the end
	if n > 0 && r.Chance(1, 4) {
		m := Pick(r, c04Magic)
		at := 0
		switch r.Intn(4) {
		case 1:
			at = n - len(m)
		case 2:
			for i := 0; i+1 < n; i++ {
				if b[i] == '\n' {
					at = i + 1
					break
				}
			}
		}
		if at < 0 {
			at = 0
		}
		copy(b[at:], m) // a marker longer than the stream is cut (a truncated marker is a case too)
	}
	return b
}

var c04Magic = [][]byte{{0xef, 0xbb, 0xbf}, {0xff, 0xfe}, {0xfe, 0xff}, {0x1f, 0x8b, 0x08}, {'#', '!'}, {0xe2, 0x80, 0xa8}, {0xef, 0xbb, 0xbf, '\n'}, {0xef, 0xbb, 0xbf, 0xef, 0xbb, 0xbf}}

func c04Script(r *Rng, stream []byte, bs int) []c04Step {
	n := len(stream)
	var sc []c04Step
	mode := r.Intn(6)
	pos := 0
	maxChunk := 1
	switch mode {
	case 0: // all at once
		maxChunk = n + 1
	case 1: // byte at a time
		maxChunk = 1
	case 2:
		maxChunk = 3
	case 3:
		maxChunk = bs + 2
	default:
		maxChunk = 1 + r.Intn(40)
	}
	for pos < n && len(sc) < 3000 {
		var w int
		switch {
		case mode == 0:
			w = n
		case mode == 5:
			// cut exactly before or after the next delimiter
			j := pos
			for j < n && stream[j] != '\n' && stream[j] != '\r' {
				j++
			}
			w = j - pos + r.Intn(2)
			if w == 0 {
				w = 1
			}
		default:
			w = 1 + r.Intn(maxChunk)
		}
		if r.Chance(1, 12) {
			sc = append(sc, c04Step{0, 0})
		}
		sc = append(sc, c04Step{w, 0})
		pos += w // (the reader may deliver less if the buffer is smaller; later entries make up for it)
	}
	// the reader may hand over fewer bytes than asked (buffer space): add slack reads
	slack := r.Intn(4)
	if bs < 8 {
		slack += n
	}
	for i := 0; i < slack && len(sc) < 6000; i++ {
		sc = append(sc, c04Step{1 + r.Intn(maxChunk), 0})
	}
	// termination
	switch r.Intn(5) {
	case 0: // script simply runs out: (0, EOF) synthesised
	case 1:
		sc = append(sc, c04Step{0, 1})
	case 2: // data together with EOF
		if len(sc) > 0 {
			sc[len(sc)-1].Kind = 1
		}
	case 3: // injected error at a random position, without data
		k := r.Intn(len(sc) + 1)
		sc = append(sc[:k:k], append([]c04Step{{0, 2}}, sc[k:]...)...)
	case 4: // injected error together with data
		if len(sc) > 0 {
			sc[r.Intn(len(sc))].Kind = 2
		} else {
			sc = append(sc, c04Step{3, 2})
		}
	}
	return sc
}

func c04Gen(r *Rng, n int, tier string) []Case {
	var cases []Case
	if tier == "thorough" {
		cases = append(cases, c04Exhaustive(5)...)
	} else {
		cases = append(cases, c04Exhaustive(3)...)
	}
	// one line far longer than the buffer (every power of two up to 4096 x bufSize, and the byte before /
	// after): "for every stream and every buffer size" has no upper bound on the length of a line
	for _, bs := range []int{1, 2, 3} {
		for _, f := range []int{256, 512, 1024, 2048, 4096} {
			for _, d := range []int{-1, 0, 1} {
				if tier != "thorough" && !(f == 1024 || (f == 2048 && d == 0 && bs == 1)) {
					continue // quick tier: around 1024 x bufSize, and one case of 2048
				}
				ln := f*bs + d
				var stream []byte
				stream = append(stream, "x\n"...)
				for i := 0; i < ln; i++ {
					stream = append(stream, byte('a'+i%23))
				}
				switch (f + d + bs) % 3 {
				case 0:
					stream = append(stream, "\r\ntail"...) // CRLF after the long line, unterminated rest
				case 1:
					stream = append(stream, "\nnext\n"...)
				} // case 2: the long line is the unterminated tail
				var sc []c04Step
				for pos := 0; pos < len(stream)+8; pos += bs {
					sc = append(sc, c04Step{bs, 0})
				}
				in := c04In{BufSize: bs, Script: sc, Stream: hex.EncodeToString(stream)}
				if (f+d)%2 == 0 && bs >= 2 {
					in.Buffered = true
				}
				cases = append(cases, c04Case(in))
			}
		}
	}
	base := len(cases)
	for len(cases) < base+n {
		bs := Pick(r, c04BufSizes)
		var ln int
		switch x := r.Intn(20); {
		case x < 2:
			ln = r.Intn(4)
		case x < 12:
			ln = r.Intn(60)
		case x < 17:
			ln = r.Intn(300)
		case x < 19:
			ln = bs*r.Range(1, 4) + r.Range(-1, 1)
			if ln < 0 || ln > 3000 {
				ln = 7
			}
		default:
			ln = 300 + r.Intn(2500)
			if bs < 16 {
				bs = 64
			}
		}
		stream := c04Stream(r, ln)
		in := c04In{BufSize: bs, Script: c04Script(r, stream, bs), Stream: hex.EncodeToString(stream)}
		if r.Chance(1, 3) {
			in.Buffered = true
			if in.BufSize < 2 {
				in.BufSize = 2
			}
		}
		in.NoHandler = r.Chance(1, 5)
		if r.Chance(1, 6) && ln < 3000 {
			// the same stream and script through the batchers' loops (their buffer is ReadAheadBufferSize)
			in.Buffered, in.NoHandler = false, false
			in.Batcher, in.BatchSize, in.BufSize = 1+r.Intn(2), Pick(r, []int{1, 2, 3, 7, 1000}), batchers.ReadAheadBufferSize
			if r.Chance(1, 4) { // ... or as a regular file (empty, a few bytes, a few lines)
				in.Batcher = 3
				if r.Chance(1, 3) {
					stream = stream[:r.Intn(4)%(len(stream)+1)]
					in.Stream = hex.EncodeToString(stream)
				}
				in.Script = []c04Step{{len(stream), 0}}
			}
		}
		cases = append(cases, c04Case(in))
	}
	return cases
}

// every stream of length <= L over {a,\r,\n} x every composition into chunks x bufSize 1..3 x termination kind
func c04Exhaustive(L int) []Case {
	var cases []Case
	alpha := []byte{'a', '\r', '\n'}
	for l := 0; l <= L; l++ {
		total := 1
		for i := 0; i < l; i++ {
			total *= 3
		}
		for code := 0; code < total; code++ {
			s := make([]byte, l)
			c := code
			for i := 0; i < l; i++ {
				s[i] = alpha[c%3]
				c /= 3
			}
			ncomp := 1
			if l > 1 {
				ncomp = 1 << (l - 1)
			}
			for comp := 0; comp < ncomp; comp++ {
				var sc []c04Step
				run := 1
				for i := 1; i <= l; i++ {
					if i == l || comp&(1<<(i-1)) != 0 {
						sc = append(sc, c04Step{run, 0})
						run = 1
					} else {
						run++
					}
				}
				if l == 0 {
					sc = nil
				}
				for bs := 1; bs <= 3; bs++ {
					for term := 0; term < 3; term++ {
						sc2 := append([]c04Step(nil), sc...)
						// slack so that small buffers still see the whole stream
						for i := 0; i < l; i++ {
							sc2 = append(sc2, c04Step{1, 0})
						}
						switch term {
						case 1:
							sc2 = append(sc2, c04Step{0, 2})
						case 2:
							if len(sc) > 0 {
								sc2 = append([]c04Step(nil), sc...)
								sc2[len(sc2)-1].Kind = 2
							} else {
								sc2 = []c04Step{{1, 2}}
							}
						}
						cases = append(cases, c04Case(c04In{BufSize: bs, Script: sc2, Stream: hex.EncodeToString(s)}))
						if bs >= 2 {
							cases = append(cases, c04Case(c04In{Buffered: true, BufSize: bs, Script: sc2, Stream: hex.EncodeToString(s)}))
						}
					}
				}
			}
		}
	}
	return cases
}

func main() {
	Main(&Prop{
		Name:   "C04",
		Header: "From Coq Require Import List NArith String.\nFrom RareV Require Import Corr.C04Case.\nImport ListNotations.\nOpen Scope N_scope. Open Scope string_scope.\n",
		Rule: "exhaustive small scope (all streams over {a,CR,LF} up to length 3 (quick) / 5 (thorough) x all chunk compositions x bufSize 1..3 x {EOF, error without data, error with data}) " +
			"followed by seeded random (stream over weighted alphabet incl. CR LF NUL 0xff, length 0..2800; scripts: all-at-once, byte-at-a-time, small chunks, bufSize-related chunks, cuts exactly before/after delimiters, 0-byte reads, EOF with data, injected error with/without data; bufSize in {1,2,3,4,5,7,8,16,64,1024}). " +
			"distinct = distinct (bufSize, script, stream); non-trivial = at least 2 line segments and at least one of: chunk boundary adjacent to CR/LF, 0-byte read, injected error, a line at least as long as the buffer (regrowth).",
		Gen: c04Gen,
		Replay: func(d json.RawMessage) (Case, error) {
			var doc struct {
				Input c04In `json:"input"`
			}
			if err := json.Unmarshal(d, &doc); err != nil {
				return Case{}, err
			}
			return c04Case(doc.Input), nil
		},
		Shard: 120,
	})
}
