package main

// C20: pkg/multiterm TermWriter (in-place terminal writer), BufferedTerm (through
// cmd/helpers.BuildVTerm) and VirtualTerm, with os.Stdout redirected to a file; the width and
// AutoTrim are set through the verif hook multiterm.VerifSetTermSize.

import (
	"bytes"
	"context"
	"encoding/hex"
	"encoding/json"
	"fmt"
	"io"
	"os"
	"os/exec"
	"strconv"
	"strings"
	"syscall"
	"time"
	"unsafe"
	"unicode/utf8"

	"github.com/urfave/cli/v2"

	"rare/cmd/helpers"
	"rare/pkg/color"
	"rare/pkg/multiterm"
	"rare/pkg/multiterm/termstate"
	. "verifh/lib"
)

type c20Arg struct {
	Kind string `json:"kind"` // "s": string argument, "d": int argument
	S    string `json:"s_hex,omitempty"`
	D    int    `json:"d,omitempty"`
}

// one update. Fmt == nil: WriteForLine(Line, text). Fmt != nil: WriteForLinef(Line, format, args...);
// Text is then fmt.Sprintf(format, args...) as computed by the harness (what the model sees).
type c20Up struct {
	Line int      `json:"line"`
	Text string   `json:"text_hex"`
	Fmt  *string  `json:"format_hex,omitempty"`
	Args []c20Arg `json:"args,omitempty"`
}

func (u c20Up) fmtArgs() (string, []interface{}) {
	fb, _ := hex.DecodeString(*u.Fmt)
	args := make([]interface{}, len(u.Args))
	for i, a := range u.Args {
		if a.Kind == "d" {
			args[i] = a.D
		} else {
			b, _ := hex.DecodeString(a.S)
			args[i] = string(b)
		}
	}
	return string(fb), args
}

// the text the update carries (for a formatted update: recomputed from format and arguments)
func (u c20Up) text() string {
	if u.Fmt == nil {
		b, _ := hex.DecodeString(u.Text)
		return string(b)
	}
	f, args := u.fmtArgs()
	return fmt.Sprintf(f, args...)
}

func (u c20Up) normalized() c20Up {
	u.Text = hex.EncodeToString([]byte(u.text()))
	return u
}

func c20Write(t multiterm.MultilineTerm, u c20Up) {
	if u.Fmt == nil {
		t.WriteForLine(u.Line, u.text())
		return
	}
	f, args := u.fmtArgs()
	t.WriteForLinef(u.Line, f, args...)
}

// the same text through WriteForLinef: cut into pieces, each either literal in the format
// ('%' doubled) or an argument of %s / %v / %d (a piece that is a canonical decimal)
func c20Formatted(r *Rng, line int, text string) c20Up {
	var fb strings.Builder
	var args []c20Arg
	rs := []byte(text)
	pos := 0
	for pos < len(rs) {
		n := 1 + r.Intn(12)
		if pos+n > len(rs) || r.Chance(1, 5) {
			n = len(rs) - pos
		}
		// keep multi-byte runes and digit runs whole
		for pos+n < len(rs) && (rs[pos+n]&0xC0 == 0x80 || (rs[pos+n] >= '0' && rs[pos+n] <= '9' && rs[pos+n-1] >= '0' && rs[pos+n-1] <= '9')) {
			n++
		}
		piece := string(rs[pos : pos+n])
		pos += n
		if d, err := strconv.Atoi(piece); err == nil && strconv.Itoa(d) == piece && r.Chance(2, 3) {
			fb.WriteString("%d")
			args = append(args, c20Arg{Kind: "d", D: d})
			continue
		}
		switch r.Intn(3) {
		case 0:
			fb.WriteString(strings.ReplaceAll(piece, "%", "%%"))
		case 1:
			fb.WriteString("%s")
			args = append(args, c20Arg{Kind: "s", S: hex.EncodeToString([]byte(piece))})
		default:
			fb.WriteString("%v")
			args = append(args, c20Arg{Kind: "s", S: hex.EncodeToString([]byte(piece))})
		}
	}
	f := hex.EncodeToString([]byte(fb.String()))
	u := c20Up{Line: line, Fmt: &f, Args: args}
	if got := u.text(); got != text {
		panic(fmt.Sprintf("harness: Sprintf(%q, ...) = %q, wanted %q", fb.String(), got, text))
	}
	return u.normalized()
}
type c20In struct {
	// kind 4: writer selection. A child process of this binary whose real standard output is
	// Out ("tty" a pty of Cols columns, "null" /dev/null, "pipe", "file" a regular temp file)
	// calls helpers.BuildVTerm(Snapshot) (ViaArgs: helpers.BuildVTermFromArguments on a parsed
	// command line with --snapshot / --noout), drives the history and closes.
	Out      string `json:"stdout,omitempty"`
	Snapshot bool   `json:"snapshot,omitempty"`
	NoOut    bool   `json:"noout,omitempty"`
	ViaArgs  bool   `json:"via_args,omitempty"`
	// environment of the child: nil = variable unset
	EnvColumns *string `json:"env_COLUMNS"`
	EnvLines   *string `json:"env_LINES"`
	Kind int     `json:"kind"` // 0 TermWriter, 1 BufferedTerm (helpers.BuildVTerm(true)), 2 VirtualTerm, 3 TermWriter, histories aimed at the right margin (judged as 0)
	Size int     `json:"size"` // VirtualTerm: NewVirtualTermEx(size, 10)
	Trim bool    `json:"auto_trim"`
	Cols int     `json:"cols"`
	Ups  []c20Up `json:"updates"`
}
type c20Out struct {
	Completed bool     `json:"completed"`
	Segs      []string `json:"segments_hex"` // stdout per call (WriteForLine..., Close) / WriteToOutput
	Lines     []string `json:"lines_hex,omitempty"`
	Count     int      `json:"line_count"`
	Note      string   `json:"note,omitempty"`
	// kind 4, as the child process reports them
	Writer   string `json:"writer,omitempty"`
	Piped    bool   `json:"is_piped_output,omitempty"`
	Color    bool   `json:"color_enabled,omitempty"`
	AutoTrim bool   `json:"auto_trim_seen,omitempty"`
	ColsSeen int    `json:"cols_seen,omitempty"`
}

// ---- kind 4: the child ----

type c20ChildSpec struct {
	Snapshot bool    `json:"snapshot"`
	NoOut    bool    `json:"noout"`
	ViaArgs  bool    `json:"via_args"`
	Ups      []c20Up `json:"updates"`
}
type c20ChildReport struct {
	Writer   string `json:"writer"`
	Piped    bool   `json:"piped"`
	Color    bool   `json:"color"`
	AutoTrim bool   `json:"auto_trim"`
	Cols     int    `json:"cols"`
	Panic    string `json:"panic,omitempty"`
}

// runs with the process-level stdout chosen by the parent; reports on stderr
func c20Child() {
	var spec c20ChildSpec
	rep := c20ChildReport{}
	defer func() {
		if e := recover(); e != nil {
			rep.Panic = fmt.Sprint(e)
		}
		b, _ := json.Marshal(rep)
		os.Stderr.Write(append(b, '\n'))
	}()
	if err := json.Unmarshal([]byte(os.Getenv("C20_SELECT_SPEC")), &spec); err != nil {
		panic(err)
	}
	// what the commands see (package initialisers have run against the real stdout)
	rep.Piped = termstate.IsPipedOutput()
	rep.Color = color.Enabled
	rep.AutoTrim = multiterm.AutoTrim
	rep.Cols = multiterm.TermCols()
	var vt multiterm.MultilineTerm
	if spec.ViaArgs {
		app := cli.NewApp()
		app.Commands = []*cli.Command{{
			Name:  "x",
			Flags: []cli.Flag{helpers.SnapshotFlag, helpers.NoOutFlag, helpers.CSVFlag},
			Action: func(c *cli.Context) error {
				vt = helpers.BuildVTermFromArguments(c)
				return nil
			},
		}}
		args := []string{"rare", "x"}
		if spec.Snapshot {
			args = append(args, "--snapshot")
		}
		if spec.NoOut {
			args = append(args, "--noout")
		}
		if err := app.Run(args); err != nil {
			panic(err)
		}
	} else {
		vt = helpers.BuildVTerm(spec.Snapshot)
	}
	switch vt.(type) {
	case *multiterm.TermWriter:
		rep.Writer = "live"
	case *multiterm.BufferedTerm:
		rep.Writer = "buffered"
	case *multiterm.NullTerm:
		rep.Writer = "null"
	default:
		rep.Writer = fmt.Sprintf("%T", vt)
	}
	for _, u := range spec.Ups {
		c20Write(vt, u)
	}
	vt.Close()
}

// ---- kind 4: the parent ----

// Linux pty through /dev/ptmx (ioctl numbers of linux/amd64 and arm64)
func c20Ioctl(fd uintptr, req uintptr, arg unsafe.Pointer) error {
	if _, _, e := syscall.Syscall(syscall.SYS_IOCTL, fd, req, uintptr(arg)); e != 0 {
		return e
	}
	return nil
}

func c20OpenPty(cols int) (master, slave *os.File, err error) {
	m, err := os.OpenFile("/dev/ptmx", os.O_RDWR|syscall.O_NOCTTY, 0)
	if err != nil {
		return nil, nil, err
	}
	unlock := int32(0)
	if err = c20Ioctl(m.Fd(), syscall.TIOCSPTLCK, unsafe.Pointer(&unlock)); err != nil {
		m.Close()
		return nil, nil, err
	}
	var n uint32
	if err = c20Ioctl(m.Fd(), syscall.TIOCGPTN, unsafe.Pointer(&n)); err != nil {
		m.Close()
		return nil, nil, err
	}
	sl, err := os.OpenFile(fmt.Sprintf("/dev/pts/%d", n), os.O_RDWR|syscall.O_NOCTTY, 0)
	if err != nil {
		m.Close()
		return nil, nil, err
	}
	ws := struct{ Row, Col, X, Y uint16 }{50, uint16(cols), 0, 0}
	if err = c20Ioctl(sl.Fd(), syscall.TIOCSWINSZ, unsafe.Pointer(&ws)); err != nil {
		m.Close()
		sl.Close()
		return nil, nil, err
	}
	return m, sl, nil
}

var c20PtyOK = func() bool {
	m, s, err := c20OpenPty(80)
	if err != nil {
		return false
	}
	m.Close()
	s.Close()
	return true
}

func c20RunSelect(in c20In) (out c20Out) {
	defer func() {
		if e := recover(); e != nil {
			out = c20Out{Completed: false, Note: fmt.Sprint(e)}
		}
	}()
	self, err := os.Executable()
	if err != nil {
		panic(err)
	}
	spec, _ := json.Marshal(c20ChildSpec{Snapshot: in.Snapshot, NoOut: in.NoOut, ViaArgs: in.ViaArgs, Ups: in.Ups})
	ctx, cancel := context.WithTimeout(context.Background(), 30*time.Second)
	defer cancel()
	cmd := exec.CommandContext(ctx, self, "c20-select-child")
	for _, kv := range os.Environ() {
		if !strings.HasPrefix(kv, "COLUMNS=") && !strings.HasPrefix(kv, "LINES=") {
			cmd.Env = append(cmd.Env, kv)
		}
	}
	cmd.Env = append(cmd.Env, "C20_SELECT_SPEC="+string(spec))
	if in.EnvColumns != nil {
		cmd.Env = append(cmd.Env, "COLUMNS="+*in.EnvColumns)
	}
	if in.EnvLines != nil {
		cmd.Env = append(cmd.Env, "LINES="+*in.EnvLines)
	}
	var stderr bytes.Buffer
	cmd.Stderr = &stderr
	var arrived []byte
	switch in.Out {
	case "file":
		f, err := os.CreateTemp(os.Getenv("VERIF_WORK"), "c20-select-*")
		if err != nil {
			f, err = os.CreateTemp("", "c20-select-*")
			if err != nil {
				panic(err)
			}
		}
		defer os.Remove(f.Name())
		defer f.Close()
		cmd.Stdout = f
		if err := cmd.Run(); err != nil {
			panic(fmt.Sprintf("child: %v: %s", err, stderr.String()))
		}
		arrived, err = os.ReadFile(f.Name())
		if err != nil {
			panic(err)
		}
	case "pipe":
		var buf bytes.Buffer
		cmd.Stdout = &buf // os/exec connects the child's stdout to a pipe
		if err := cmd.Run(); err != nil {
			panic(fmt.Sprintf("child: %v: %s", err, stderr.String()))
		}
		arrived = buf.Bytes()
	case "null":
		f, err := os.OpenFile("/dev/null", os.O_WRONLY, 0)
		if err != nil {
			panic(err)
		}
		defer f.Close()
		cmd.Stdout = f
		if err := cmd.Run(); err != nil {
			panic(fmt.Sprintf("child: %v: %s", err, stderr.String()))
		}
	case "tty":
		m, sl, err := c20OpenPty(in.Cols)
		if err != nil {
			panic(err)
		}
		defer m.Close()
		cmd.Stdout = sl
		// The parent keeps the slave open and, once the child has exited, writes a sentinel through
		// it: a pty is a FIFO, so when the sentinel has been read everything the child wrote has
		// been read.  (Closing the slave and reading until EIO is not reliable: bytes written just
		// before the hang-up can still be in the tty's flip buffer and are then dropped — seen once
		// in 16106 cases as a stream that lacked the bytes of Close.)
		sentinel := []byte("\x1e\x1eC20-END-OF-PTY-OUTPUT\x1e\x1e")
		done := make(chan []byte, 1)
		go func() {
			var acc []byte
			b := make([]byte, 4096)
			for {
				n, err := m.Read(b)
				acc = append(acc, b[:n]...)
				if i := bytes.Index(acc, sentinel); i >= 0 {
					done <- acc[:i]
					return
				}
				if err != nil {
					done <- nil // the master failed before the sentinel arrived
					return
				}
			}
		}()
		err = cmd.Run()
		if _, werr := sl.Write(sentinel); werr != nil {
			panic(fmt.Sprintf("harness: writing the pty sentinel: %v", werr))
		}
		select {
		case arrived = <-done:
			if arrived == nil {
				panic("harness: the pty master failed before the end-of-output sentinel arrived")
			}
		case <-time.After(20 * time.Second):
			panic("harness: reading the pty master timed out")
		}
		sl.Close()
		if err != nil {
			panic(fmt.Sprintf("child: %v: %s", err, stderr.String()))
		}
	default:
		panic("unknown stdout kind " + in.Out)
	}
	var rep c20ChildReport
	lines := strings.Split(strings.TrimSpace(stderr.String()), "\n")
	if err := json.Unmarshal([]byte(lines[len(lines)-1]), &rep); err != nil {
		panic(fmt.Sprintf("child report: %v: %q", err, stderr.String()))
	}
	if rep.Panic != "" {
		return c20Out{Completed: false, Note: "child panicked: " + rep.Panic}
	}
	out.Completed = true
	out.Segs = []string{hex.EncodeToString(arrived)}
	out.Writer, out.Piped, out.Color, out.AutoTrim, out.ColsSeen = rep.Writer, rep.Piped, rep.Color, rep.AutoTrim, rep.Cols
	return
}

var c20OutKinds = map[string]int{"tty": 0, "null": 1, "pipe": 2, "file": 4}

func optS(p *string) string {
	if p == nil {
		return "None"
	}
	return "(Some " + HS(*p) + ")"
}

func c20SelectCase(in c20In) Case {
	in.Kind = 4
	in.Ups = c20Normalize(in.Ups)
	out := c20RunSelect(in)
	ups := make([]string, len(in.Ups))
	for i, u := range in.Ups {
		ups[i] = fmt.Sprintf("(%d,\"%s\")", u.Line, u.Text)
	}
	var coq string
	if out.Completed {
		w := map[string]int{"live": 0, "buffered": 1, "null": 2}
		wn, ok := w[out.Writer]
		if !ok {
			wn = 9
		}
		coq = fmt.Sprintf("cS %d %s %s (%d)%%Z %s %s %s \"%s\" %d %s %s %s (%d)%%Z", c20OutKinds[in.Out], B(in.Snapshot), B(in.NoOut),
			in.Cols, optS(in.EnvColumns), optS(in.EnvLines), CoqList(ups), out.Segs[0], wn, B(out.Piped), B(out.Color), B(out.AutoTrim), out.ColsSeen)
	} else {
		coq = fmt.Sprintf("cSP %d %s %s (%d)%%Z %s %s %s", c20OutKinds[in.Out], B(in.Snapshot), B(in.NoOut), in.Cols,
			optS(in.EnvColumns), optS(in.EnvLines), CoqList(ups))
	}
	tags := []string{"kind=writer-selection", "stdout=" + in.Out}
	if in.Snapshot {
		tags = append(tags, "--snapshot")
	}
	if in.NoOut {
		tags = append(tags, "--noout")
	}
	switch {
	case in.EnvColumns == nil:
		tags = append(tags, "COLUMNS unset")
	case *in.EnvColumns == "":
		tags = append(tags, "COLUMNS empty")
	default:
		tags = append(tags, "COLUMNS="+*in.EnvColumns)
		maxVis := 0
		for _, u := range in.Ups {
			b, _ := hex.DecodeString(u.Text)
			if v, _, _, _ := c20Scan(string(b)); v > maxVis {
				maxVis = v
			}
		}
		if c, err := strconv.Atoi(*in.EnvColumns); err == nil && c > 0 && maxVis > c {
			tags = append(tags, "text wider than COLUMNS")
		}
	}
	if in.EnvLines != nil {
		tags = append(tags, "LINES set")
	}
	if in.ViaArgs {
		tags = append(tags, "via=BuildVTermFromArguments")
	} else {
		tags = append(tags, "via=BuildVTerm")
	}
	kb, _ := json.Marshal(in)
	return Case{Coq: coq, Desc: map[string]any{"input": in, "impl": out}, Key: string(kb),
		Nontrivial: len(in.Ups) >= 2 && !in.NoOut, Tags: tags}
}

func c20SelectCases(r *Rng, n int) []Case {
	outs := []string{"file", "pipe", "null"}
	if c20PtyOK() {
		outs = append(outs, "tty")
	}
	h := func(s string) string { return hex.EncodeToString([]byte(s)) }
	demo := []c20Up{{Line: 0, Text: h("first, a rather long text")}, {Line: 1, Text: h("second")}, {Line: 3, Text: h("fourth")}, {Line: 0, Text: h("first")}, {Line: 1, Text: h("second line, grown")}}
	var cases []Case
	for _, o := range outs {
		for _, snap := range []bool{false, true} {
			for _, via := range []bool{false, true} {
				cases = append(cases, c20SelectCase(c20In{Out: o, Cols: 40, Snapshot: snap, ViaArgs: via, Ups: demo}))
			}
		}
		cases = append(cases, c20SelectCase(c20In{Out: o, Cols: 40, NoOut: true, ViaArgs: true, Ups: demo}))
		cases = append(cases, c20SelectCase(c20In{Out: o, Cols: 40, ViaArgs: false, Ups: nil}))
	}
	// the environment as a dimension: COLUMNS / LINES must not change what a non-terminal receives
	// (final lines untrimmed), nor the width a terminal is trimmed at (the tty driver's window size)
	sp := func(v string) *string { return &v }
	wide := []c20Up{{Line: 0, Text: h(strings.Repeat("0123456789", 12))}, {Line: 2, Text: h("short")}, {Line: 1, Text: h("\x1b[31m" + strings.Repeat("abcdefghij", 9) + "\x1b[0m")},
		{Line: 0, Text: h(strings.Repeat("wider than any COLUMNS value ", 4))}}
	envVals := []*string{nil, sp(""), sp("20"), sp("80"), sp("0"), sp("-5"), sp("abc")}
	for _, o := range outs {
		if o == "null" {
			continue
		}
		for _, ev := range envVals {
			cases = append(cases, c20SelectCase(c20In{Out: o, Cols: 30, EnvColumns: ev, Ups: wide}))
		}
		cases = append(cases, c20SelectCase(c20In{Out: o, Cols: 30, EnvLines: sp("5"), Ups: wide}))
		cases = append(cases, c20SelectCase(c20In{Out: o, Cols: 30, EnvColumns: sp("20"), EnvLines: sp("3"), Snapshot: true, ViaArgs: true, Ups: wide}))
	}
	for i := 0; i < n; i++ {
		in := c20In{Out: Pick(r, outs), Cols: r.Range(8, 100), Snapshot: r.Chance(1, 4), ViaArgs: r.Bool()}
		if r.Chance(1, 2) {
			in.EnvColumns = Pick(r, envVals[1:])
			if r.Chance(1, 3) {
				in.EnvColumns = sp(fmt.Sprint(r.Range(1, 40)))
			}
		}
		if r.Chance(1, 4) {
			in.EnvLines = sp(fmt.Sprint(r.Range(-1, 30)))
		}
		k := r.Range(1, 10)
		lines := c20Lines(r, k, r.Range(0, 6))
		sgr, multi := r.Chance(1, 3), r.Chance(1, 3)
		for _, l := range lines {
			vis := r.Intn(30)
			if in.Out == "tty" && r.Chance(1, 3) {
				vis = in.Cols + r.Range(-1, 6)
			}
			if t := c20Text(r, vis, sgr, multi, false); r.Chance(1, 2) {
				in.Ups = append(in.Ups, c20Formatted(r, l, t))
			} else {
				in.Ups = append(in.Ups, c20Up{Line: l, Text: h(t)})
			}
		}
		cases = append(cases, c20SelectCase(in))
	}
	return cases
}

var c20File *os.File

func c20Capture() *os.File {
	if c20File == nil {
		dir := os.Getenv("VERIF_WORK")
		f, err := os.CreateTemp(dir, "c20-stdout-*")
		if err != nil {
			f, err = os.CreateTemp("", "c20-stdout-*")
			if err != nil {
				panic(err)
			}
		}
		os.Remove(f.Name()) // stays open, disappears with the process
		c20File = f
	}
	c20File.Truncate(0)
	c20File.Seek(0, io.SeekStart)
	return c20File
}

func c20Run(in c20In) (out c20Out) {
	f := c20Capture()
	oldStdout := os.Stdout
	prevR, prevC := multiterm.VerifSetTermSize(24, in.Cols)
	prevT := multiterm.AutoTrim
	multiterm.AutoTrim = in.Trim
	os.Stdout = f
	defer func() {
		os.Stdout = oldStdout
		multiterm.VerifSetTermSize(prevR, prevC)
		multiterm.AutoTrim = prevT
		if e := recover(); e != nil {
			out = c20Out{Completed: false, Note: fmt.Sprint(e)}
		}
	}()
	var marks []int64
	mark := func() {
		off, err := f.Seek(0, io.SeekCurrent)
		if err != nil {
			panic(err)
		}
		marks = append(marks, off)
	}
	switch in.Kind {
	case 0, 3:
		t := multiterm.New()
		for _, u := range in.Ups {
			c20Write(t, u)
			mark()
		}
		t.Close()
		mark()
	case 1:
		t := helpers.BuildVTerm(true)
		for _, u := range in.Ups {
			c20Write(t, u)
			mark()
		}
		t.Close()
		mark()
	default:
		t := multiterm.NewVirtualTermEx(in.Size, 10)
		for _, u := range in.Ups {
			c20Write(t, u)
		}
		var buf bytes.Buffer
		t.WriteToOutput(&buf)
		if off, _ := f.Seek(0, io.SeekCurrent); off != 0 {
			panic("VirtualTerm wrote to stdout")
		}
		out.Segs = []string{hex.EncodeToString(buf.Bytes())}
		out.Count = t.LineCount()
		out.Lines = append(out.Lines, hex.EncodeToString([]byte(t.Get(-1))))
		for l := 0; l <= out.Count; l++ {
			out.Lines = append(out.Lines, hex.EncodeToString([]byte(t.Get(l))))
		}
		t.Close()
		if !t.IsClosed() {
			panic("VirtualTerm not closed after Close")
		}
		out.Completed = true
		return
	}
	all := make([]byte, marks[len(marks)-1])
	if _, err := f.ReadAt(all, 0); err != nil && err != io.EOF {
		panic(err)
	}
	prev := int64(0)
	for _, m := range marks {
		out.Segs = append(out.Segs, hex.EncodeToString(all[prev:m]))
		prev = m
	}
	out.Completed = true
	return
}

// ---- classification (from the input alone) ----

// visible runes and well-formedness, as the property's texts: printable runes and ESC [ (digit|;)* m
func c20Scan(s string) (vis int, wf, sgr, multi bool) {
	wf = utf8.ValidString(s)
	rs := []rune(s)
	st := 0
	for _, r := range rs {
		if r >= 0x80 {
			multi = true
		}
		switch st {
		case 0:
			if r == 0x1b {
				st = 1
			} else {
				vis++
				if r < 32 || r == 127 || (r >= 128 && r < 160) {
					wf = false
				}
			}
		case 1:
			if r == '[' {
				st = 2
			} else {
				wf = false
				st = 0
			}
		case 2:
			if r == 'm' {
				st = 0
				sgr = true
			} else if !(r >= '0' && r <= '9' || r == ';') {
				wf = false
				st = 0
			}
		}
	}
	if st != 0 {
		wf = false
	}
	return
}

func c20Normalize(ups []c20Up) []c20Up {
	out := make([]c20Up, len(ups))
	for i, u := range ups {
		out[i] = u.normalized()
	}
	return out
}

func c20Case(in c20In) Case {
	if in.Kind == 4 {
		return c20SelectCase(in)
	}
	in.Ups = c20Normalize(in.Ups)
	out := c20Run(in)
	ups := make([]string, len(in.Ups))
	for i, u := range in.Ups {
		ups[i] = fmt.Sprintf("(%d,\"%s\")", u.Line, u.Text)
	}
	q := func(xs []string) string {
		ps := make([]string, len(xs))
		for i, x := range xs {
			ps[i] = "\"" + x + "\""
		}
		return "[" + strings.Join(ps, ";") + "]"
	}
	cols := fmt.Sprintf("(%d)%%Z", in.Cols)
	var coq string
	switch {
	case !out.Completed:
		coq = fmt.Sprintf("cP %d %d %s %s %s", in.Kind, in.Size, B(in.Trim), cols, CoqList(ups))
	case in.Kind == 0:
		coq = fmt.Sprintf("cT %s %s %s %s", B(in.Trim), cols, CoqList(ups), q(out.Segs))
	case in.Kind == 3:
		coq = fmt.Sprintf("cD %s %s %s %s", B(in.Trim), cols, CoqList(ups), q(out.Segs))
	case in.Kind == 1:
		coq = fmt.Sprintf("cB %s %s %s %s", B(in.Trim), cols, CoqList(ups), q(out.Segs))
	default:
		coq = fmt.Sprintf("cV %d %s %s %s \"%s\" %s %d", in.Size, B(in.Trim), cols, CoqList(ups), out.Segs[0], q(out.Lines), out.Count)
	}

	// boundary classes
	tagset := map[string]bool{}
	tag := func(t string) { tagset[t] = true }
	tag([]string{"kind=TermWriter", "kind=BufferedTerm", "kind=VirtualTerm", "kind=TermWriter(margin)"}[in.Kind])
	if in.Trim {
		tag("trim=on")
	} else {
		tag("trim=off")
	}
	switch {
	case in.Cols <= 0:
		tag("cols<=0")
	case in.Cols == 1:
		tag("cols=1")
	case in.Cols <= 10:
		tag("cols<=10")
	case in.Cols <= 80:
		tag("cols<=80")
	default:
		tag("cols<=120")
	}
	cur, maxl := 0, 0
	lastVis := map[int]int{}
	allWf, allFit := true, true
	for i, u := range in.Ups {
		b, _ := hex.DecodeString(u.Text)
		vis, wf, sgr, multi := c20Scan(string(b))
		if u.Fmt != nil {
			tag("via=WriteForLinef")
			fb, _ := hex.DecodeString(*u.Fmt)
			if strings.Contains(string(fb), "%%") {
				tag("format-literal-%%")
			}
			if strings.Contains(string(fb), "%d") {
				tag("format-%d")
			}
			for _, a := range u.Args {
				ab, _ := hex.DecodeString(a.S)
				if strings.Contains(string(ab), "%") {
					tag("argument-contains-%")
				}
			}
			if in.Trim && vis > in.Cols {
				tag("formatted-text>width(trim on)")
			}
		}
		if !wf {
			allWf = false
			tag("text-not-well-formed")
		}
		if sgr {
			tag("sgr")
		}
		if multi {
			tag("multi-byte")
		}
		if vis == 0 {
			tag("empty-visible-text")
		}
		switch {
		case vis == in.Cols:
			tag("text=width")
		case vis == in.Cols+1:
			tag("text=width+1")
		case vis > in.Cols:
			tag("text>width")
		}
		if vis > in.Cols && !in.Trim {
			allFit = false
		}
		eff := vis
		if in.Trim && eff > in.Cols {
			eff = in.Cols
		}
		if in.Cols >= 1 && eff == in.Cols {
			// the row is filled to the last column (finding C20-dec-margin, repaired)
			tag("emitted-text-fills-row")
		}
		if p, ok := lastVis[u.Line]; ok {
			tag("rewrite")
			if eff < p {
				tag("shrinking-rewrite")
			}
		}
		lastVis[u.Line] = eff
		if i > 0 && u.Line < cur {
			tag("jump-up")
		}
		if u.Line > maxl+1 || (i == 0 && u.Line > 0) {
			tag("gap")
		}
		if u.Line > maxl && i > 0 && cur < maxl {
			tag("jump-past-max-from-above")
		}
		if u.Line == cur && i > 0 {
			tag("same-line-again")
		}
		cur = u.Line
		if u.Line > maxl {
			maxl = u.Line
		}
	}
	if len(in.Ups) == 0 {
		tag("no-updates")
	}
	if allWf && allFit {
		tag("in-theorem-domain")
	} else if allWf {
		tag("does-not-fit(trim off)")
	}
	var tags []string
	for _, t := range []string{"kind=TermWriter", "kind=TermWriter(margin)", "emitted-text-fills-row", "kind=BufferedTerm", "kind=VirtualTerm", "trim=on", "trim=off",
		"via=WriteForLinef", "format-literal-%%", "format-%d", "argument-contains-%", "formatted-text>width(trim on)",
		"cols<=0", "cols=1", "cols<=10", "cols<=80", "cols<=120", "in-theorem-domain", "does-not-fit(trim off)",
		"text-not-well-formed", "sgr", "multi-byte", "empty-visible-text", "text=width", "text=width+1", "text>width",
		"rewrite", "shrinking-rewrite", "jump-up", "gap", "jump-past-max-from-above", "same-line-again", "no-updates"} {
		if tagset[t] {
			tags = append(tags, t)
		}
	}
	nontrivial := len(in.Ups) >= 2 && (tagset["shrinking-rewrite"] || tagset["jump-up"] || tagset["gap"] ||
		tagset["text>width"] || tagset["text=width"] || tagset["text=width+1"] || tagset["sgr"])
	kb, _ := json.Marshal(in)
	return Case{Coq: coq, Desc: map[string]any{"input": in, "impl": out}, Key: string(kb), Nontrivial: nontrivial, Tags: tags}
}

// ---- generators ----

var c20Sgr = []string{"\x1b[31m", "\x1b[0m", "\x1b[1;32m", "\x1b[38;5;208m", "\x1b[m", "\x1b[34;1m", "\x1b[0m"}
var c20Multi = []rune{'é', 'ü', 'ß', 'Ж', '世', '界', '█', '▏', '░', '→', '😀', '𝄞', 0xA0, 0x7FF, 0x800, 0xFFFD, 0x10FFFF}
var c20Bad = []string{"\t", "\x1b", "\x1b[31", "\x1bm", "\x1b[K", "\x1b[2J", "\x1b123m", "\xff", "\xe4\xb8", "\xc0\xaf",
	"\xed\xa0\x80", "\xf4\x90\x80\x80", "\x7f", "\u0085", "\x08", "\x1b[1A", "\x1b[?25l", "\x1b]0;t\x07"}

// a text with exactly `vis` visible runes (well-formed unless bad)
func c20Text(r *Rng, vis int, sgr, multi, bad bool) string {
	var sb strings.Builder
	open := false
	for i := 0; i < vis; i++ {
		if sgr && r.Chance(1, 6) {
			sb.WriteString(Pick(r, c20Sgr))
			open = true
		}
		if bad && r.Chance(1, 8) {
			sb.WriteString(Pick(r, c20Bad))
		}
		switch {
		case multi && r.Chance(1, 3):
			sb.WriteRune(Pick(r, c20Multi))
		case r.Chance(1, 7):
			sb.WriteByte(' ')
		case r.Chance(1, 12):
			sb.WriteByte(Pick(r, []byte("m[;0K|#=~%%7142")))
		default:
			sb.WriteByte(byte('a' + r.Intn(26)))
		}
	}
	if sgr && (open || r.Chance(1, 3)) && r.Chance(3, 4) {
		sb.WriteString("\x1b[0m") // the usual trailing reset
	}
	if bad && (vis == 0 || r.Chance(1, 4)) {
		sb.WriteString(Pick(r, c20Bad))
	}
	return sb.String()
}

func c20Cols(r *Rng) int {
	switch x := r.Intn(20); {
	case x < 3:
		return r.Range(1, 3)
	case x < 8:
		return r.Range(4, 12)
	case x < 13:
		return r.Range(13, 60)
	case x < 15:
		return 80
	case x < 19:
		return r.Range(61, 120)
	default:
		return r.Range(-1, 0)
	}
}

// visible length aimed at the width boundary
func c20Vis(r *Rng, cols int, fit bool) int {
	if cols < 1 {
		if fit {
			return 0
		}
		return r.Intn(4)
	}
	if fit {
		switch r.Intn(6) {
		case 0:
			return cols
		case 1:
			return cols - 1
		case 2:
			return 0
		default:
			return r.Intn(cols + 1)
		}
	}
	switch r.Intn(8) {
	case 0:
		return cols
	case 1:
		return cols + 1
	case 2:
		return cols + r.Range(2, 40)
	case 3:
		return 2*cols + r.Intn(3)
	case 4:
		return 0
	default:
		return r.Intn(cols + 1)
	}
}

func c20Lines(r *Rng, n, maxLine int) []int {
	ls := make([]int, n)
	switch r.Intn(6) {
	case 0: // redraw top to bottom, repeatedly (what the renderers do)
		h := r.Range(1, maxLine+1)
		for i := range ls {
			ls[i] = i % h
		}
	case 1: // bottom-up
		h := r.Range(1, maxLine+1)
		for i := range ls {
			ls[i] = h - 1 - i%h
		}
	case 2: // one line hammered, occasionally another
		a := r.Intn(maxLine + 1)
		for i := range ls {
			ls[i] = a
			if r.Chance(1, 5) {
				ls[i] = r.Intn(maxLine + 1)
			}
		}
	case 3: // growing frontier with jumps back
		top := 0
		for i := range ls {
			if r.Chance(1, 2) {
				top += r.Range(1, 3)
				if top > maxLine {
					top = maxLine
				}
				ls[i] = top
			} else {
				ls[i] = r.Intn(top + 1)
			}
		}
	default:
		for i := range ls {
			ls[i] = r.Intn(maxLine + 1)
		}
	}
	return ls
}

func c20Random(r *Rng) c20In {
	in := c20In{Cols: c20Cols(r), Trim: r.Chance(3, 5)}
	switch x := r.Intn(20); {
	case x < 12:
		in.Kind = 0
	case x < 14:
		in.Kind = 3
		if in.Cols < 1 {
			in.Cols = 1
		}
	case x < 18:
		in.Kind = 1
	default:
		in.Kind = 2
		if r.Chance(1, 3) {
			in.Size = r.Intn(6)
		}
	}
	n := 0
	switch x := r.Intn(10); {
	case x == 0:
		n = r.Intn(2)
	case x < 6:
		n = r.Range(2, 12)
	default:
		n = r.Range(13, 40)
	}
	maxLine := r.Range(0, 11)
	lines := c20Lines(r, n, maxLine)
	fitAll := in.Trim == false && r.Chance(3, 4) // with trim off most histories stay within the width
	sgr := r.Chance(1, 2)
	multi := r.Chance(1, 2)
	bad := r.Chance(1, 10)
	viaF := r.Chance(3, 5) // histories that mix WriteForLine and WriteForLinef
	for _, l := range lines {
		vis := c20Vis(r, in.Cols, fitAll || (in.Trim && r.Chance(1, 2)))
		if in.Kind == 3 && r.Chance(2, 3) { // fill the row to the last column
			vis = in.Cols
			if in.Trim && r.Chance(1, 2) {
				vis += r.Range(0, 5)
			}
		}
		t := c20Text(r, vis, sgr, multi, bad)
		if viaF && r.Chance(2, 3) {
			in.Ups = append(in.Ups, c20Formatted(r, l, t))
		} else {
			in.Ups = append(in.Ups, c20Up{Line: l, Text: hex.EncodeToString([]byte(t))})
		}
	}
	return in
}

// small scope, complete: every history of at most L updates over lines {0,1,2} and four texts
func c20ExhaustiveWriter(L int) []Case {
	texts := []string{"", "a", "abc", "\x1b[1mab\x1b[0m"}
	var cases []Case
	var rec func(pre []c20Up, depth int)
	rec = func(pre []c20Up, depth int) {
		for _, cfg := range []struct {
			trim bool
			cols int
			viaF bool
		}{{true, 2, false}, {false, 3, false}, {true, 2, true}} {
			ups := append([]c20Up(nil), pre...)
			if cfg.viaF {
				if len(ups) == 0 {
					continue
				}
				// every update through WriteForLinef: the text as a %s argument / as the literal format
				for i, u := range ups {
					var f string
					if i%2 == 0 {
						f = hex.EncodeToString([]byte("%s"))
						ups[i] = c20Up{Line: u.Line, Fmt: &f, Args: []c20Arg{{Kind: "s", S: u.Text}}}
					} else {
						tb, _ := hex.DecodeString(u.Text)
						f = hex.EncodeToString([]byte(strings.ReplaceAll(string(tb), "%", "%%")))
						ups[i] = c20Up{Line: u.Line, Fmt: &f}
					}
				}
			}
			cases = append(cases, c20Case(c20In{Kind: 0, Trim: cfg.trim, Cols: cfg.cols, Ups: ups}))
		}
		if depth == L {
			return
		}
		for l := 0; l < 3; l++ {
			for _, t := range texts {
				rec(append(append([]c20Up(nil), pre...), c20Up{Line: l, Text: hex.EncodeToString([]byte(t))}), depth+1)
			}
		}
	}
	rec(nil, 0)
	return cases
}

// small scope, complete: the trim on every text of length <= L over {a, ESC, '[', '1', 'm'} at widths 1..3
func c20ExhaustiveTrim(L int) []Case {
	alpha := []byte{'a', 0x1b, '[', '1', 'm'}
	var texts []string
	for l := 0; l <= L; l++ {
		total := 1
		for i := 0; i < l; i++ {
			total *= len(alpha)
		}
		for code := 0; code < total; code++ {
			b := make([]byte, l)
			c := code
			for i := range b {
				b[i] = alpha[c%len(alpha)]
				c /= len(alpha)
			}
			texts = append(texts, string(b))
		}
	}
	var cases []Case
	for cols := 1; cols <= 3; cols++ {
		for lo := 0; lo < len(texts); lo += 60 {
			hi := lo + 60
			if hi > len(texts) {
				hi = len(texts)
			}
			in := c20In{Kind: 2, Trim: true, Cols: cols}
			for i, t := range texts[lo:hi] {
				in.Ups = append(in.Ups, c20Up{Line: i, Text: hex.EncodeToString([]byte(t))})
			}
			cases = append(cases, c20Case(in))
		}
	}
	return cases
}

func c20Gen(r *Rng, n int, tier string) []Case {
	var cases []Case
	if tier == "thorough" {
		cases = append(cases, c20ExhaustiveWriter(3)...)
		cases = append(cases, c20ExhaustiveTrim(5)...)
	} else {
		cases = append(cases, c20ExhaustiveWriter(2)...)
		cases = append(cases, c20ExhaustiveTrim(4)...)
	}
	// the histories of the package's own tests
	cases = append(cases, c20Case(c20In{Kind: 0, Trim: false, Cols: 80, Ups: []c20Up{
		{Line: 0, Text: hex.EncodeToString([]byte("Hello"))}, {Line: 1, Text: hex.EncodeToString([]byte("you"))},
		{Line: 10, Text: hex.EncodeToString([]byte("There"))}, {Line: 5, Text: hex.EncodeToString([]byte("This is Test"))}}}))
	cases = append(cases, c20Case(c20In{Kind: 2, Trim: true, Cols: 10, Ups: []c20Up{
		{Line: 0, Text: hex.EncodeToString([]byte("hello there this \x1b123m is a longer than 10 char string"))}}}))
	if tier == "thorough" {
		cases = append(cases, c20SelectCases(r.Fork(), 200)...)
	} else {
		cases = append(cases, c20SelectCases(r.Fork(), 24)...)
	}
	base := len(cases)
	for len(cases) < base+n {
		cases = append(cases, c20Case(c20Random(r)))
	}
	return cases
}

func main() {
	if len(os.Args) >= 2 && os.Args[1] == "c20-select-child" {
		c20Child()
		return
	}
	Main(&Prop{
		Name:   "C20",
		Header: "From Coq Require Import List NArith ZArith String.\nFrom RareV Require Import Corr.C20Case.\nImport ListNotations.\nOpen Scope N_scope. Open Scope string_scope.\n",
		Rule: "fixed part: every history of at most 2 (quick) / 3 (thorough) updates over lines {0,1,2} and texts {\"\", a, abc, bold ab} through TermWriter at (trim on, width 2), (trim off, width 3) and (trim on, width 2, every update through WriteForLinef); " +
			"the trim on every text of length <= 4 (quick) / 5 (thorough) over {a, ESC, '[', '1', 'm'} at widths 1..3 (as VirtualTerm lines); the histories of the package's own tests. " +
			"writer selection: a child process of the harness whose real standard output is a regular temp file / a pipe / /dev/null / a pty with a chosen window size (when /dev/ptmx is usable) runs helpers.BuildVTerm(snapshot) or helpers.BuildVTermFromArguments (--snapshot, --noout) and a history, and reports the writer it got, termstate.IsPipedOutput, color.Enabled, AutoTrim and the width as the commands see them; the bytes that arrived are compared with the model's (file, pipe: the buffered writer's final lines; pty: the screen of the reference terminal; /dev/null: nothing is observable, only the consistency of the report is required): every combination over one fixed history plus 24 (quick) / 200 (thorough) seeded ones; the child's environment is a dimension: COLUMNS unset / empty / 20 / 80 / 0 / -5 / abc and LINES, for file, pipe and pty, over a history whose final lines are wider than every COLUMNS value (expected: a non-terminal receives the final lines untrimmed, a pty is trimmed at the window size the tty driver reports, whatever the environment says), and random COLUMNS / LINES in half of the seeded ones. " +
			"seeded part: 60% TermWriter (multiterm.New, os.Stdout redirected to a file, the output of every call recorded separately), 10% TermWriter with every text at least as wide as the terminal (finding C20-dec-margin, repaired: a row filled to the last column), 20% BufferedTerm through helpers.BuildVTerm(true), 10% VirtualTerm (NewVirtualTermEx with initial size 0..5, WriteToOutput into a buffer, Get(-1..LineCount), LineCount); " +
			"widths 1..120 (weighted to 1..3, 4..12, 80) and occasionally 0/-1, AutoTrim on (60%) / off; 0..40 updates over at most 12 lines in five orders (top-to-bottom redraw, bottom-up, one line hammered, growing frontier with jumps back, random); " +
			"texts with a chosen number of visible runes aimed at the width (0, width-1, width, width+1, 2*width, random), ASCII and multi-byte runes (2, 3 and 4 byte encodings, U+FFFD, U+10FFFF), SGR sequences with and without a trailing reset, and in 10% of the histories texts outside the theorem's domain (TAB, lone ESC, unterminated sequence, other CSI sequences, invalid UTF-8, C1 controls). " +
			"the entry point is a dimension: in 60% of the seeded histories (all kinds, also the child-process ones) two thirds of the updates go through WriteForLinef with a format cut from the text at random places, each piece a literal (% doubled), a %s or %v string argument (also pieces containing %) or a %d integer argument; the model sees fmt.Sprintf(format, args...) as computed by the harness. " +
			"The model's and the implementation's per-call outputs are interpreted by the reference terminal of Model/Term.v (with and without ONLCR, idealised and DEC right margin) and the screens compared after every call; the property's boolean form is evaluated on the implementation's output. " +
			"distinct = distinct (kind, size, trim, width, updates); non-trivial = at least 2 updates and at least one of: a rewrite with a shorter text, a jump upwards, a gap, a text of exactly / more than the width, an SGR sequence.",
		Gen: c20Gen,
		Replay: func(d json.RawMessage) (Case, error) {
			var doc struct {
				Input c20In `json:"input"`
			}
			if err := json.Unmarshal(d, &doc); err != nil {
				return Case{}, err
			}
			return c20Case(doc.Input), nil
		},
		Shard: 60,
	})
}
