package main

// C08: no template and no input line can crash expression compilation or evaluation.
// Observable: the outcome of funclib.NewKeyBuilderEx(opt).Compile(template) + BuildKey(context)
// (opt = true and false), as  ok <string> | panic | hang.
//
// Every evaluation happens in a WORKER process (this binary re-executed with the argument
// "worker"): a recovered panic is reported by the worker; a fatal error of the Go runtime (out of
// memory, stack overflow) kills the worker and is reported as panic; no answer within the
// watchdog's time (memory is capped by RLIMIT_AS) is reported as hang.  The parent restarts the
// worker and continues with the next case.

import (
	"bufio"
	"encoding/hex"
	"encoding/json"
	"fmt"
	"go/ast"
	"go/parser"
	"go/token"
	"io"
	"math"
	"os"
	"os/exec"
	"path/filepath"
	"regexp"
	"sort"
	"strconv"
	"strings"
	"sync"
	"syscall"
	"time"

	"rare/pkg/aggregation"
	"rare/pkg/aggregation/sorting"
	"rare/pkg/color"
	"rare/pkg/expressions/funclib"
	"rare/pkg/expressions/stdlib"
	"rare/pkg/multiterm/termscaler"
	"rare/pkg/multiterm/termunicode"
	. "verifh/lib"
)

// ---------------------------------------------------------------- case description (replay format)
type c08Arg struct {
	Const bool   `json:"const"`
	Val   string `json:"val_hex"`
	Text  string `json:"text,omitempty"`
	Raw   string `json:"raw,omitempty"` // a constant argument written verbatim as this expression (e.g. {@ a b c}); val_hex is its value
}
type c08In struct {
	Kind     string            `json:"kind"`                // flat | call | nested | malformed | heavy
	Fn       string            `json:"fn,omitempty"`        // flat / call
	Args     []c08Arg          `json:"args,omitempty"`      // flat / call
	Template string            `json:"template_hex"`        // what is compiled
	Text     string            `json:"template_text"`       // readable copy
	Groups   []string          `json:"groups_hex"`          // context.GetMatch(i)
	Keys     map[string]string `json:"keys,omitempty"`      // context.GetKey(k)
	Color    bool              `json:"color_enabled"`       // color.Enabled
	Unicode  bool              `json:"unicode_enabled"`     // termunicode.UnicodeEnabled
	Compare  bool              `json:"compare,omitempty"`   // flat: output compared with the model
	Blocks   int64             `json:"bar_blocks,omitempty"` // flat bar: termscaler.LengthVal(..) oracle
	Conc     int               `json:"concurrent,omitempty"` // > 0: concurrent mode, this many goroutines x concIters evaluations over concValues(0..concSets-1)
	Accum    string            `json:"accum,omitempty"`      // acc | group | sort: the template is the -a / -g / --sort expression of an AccumulatingGroup, groups_hex are the samples
	Index    *int64            `json:"index,omitempty"`      // accum: the template is exactly {index}
	Expect   string            `json:"expect,omitempty"`     // "inf": an @for that never ends by its condition must yield <INF>
}
type c08Out struct {
	Outcome string `json:"outcome"` // ok | panic | hang
	Out     string `json:"out_hex,omitempty"`
	Len     int    `json:"out_len"`
	Note    string `json:"note,omitempty"`
}
type c08Desc struct {
	Input c08In  `json:"input"`
	Impl  c08Out `json:"impl"`
}

func unhex(s string) string { b, _ := hex.DecodeString(s); return string(b) }
func hx(s string) string    { return hex.EncodeToString([]byte(s)) }

// ---------------------------------------------------------------- worker
type wReq struct {
	Tpl     string            `json:"t"`
	Groups  []string          `json:"g"`
	Keys    map[string]string `json:"k"`
	Color   bool              `json:"c"`
	Unicode bool              `json:"u"`
	Conc    int               `json:"n,omitempty"` // > 0: one compiled expression evaluated by this many goroutines at once (see runConc)
	Accum   string            `json:"a,omitempty"` // "", or acc | group | sort: evaluate Tpl inside an AccumulatingGroup on the samples Groups
}
type wResp struct {
	Outcome string `json:"o"`
	Out     string `json:"s"`
	Note    string `json:"n"`
}

type wCtx struct {
	g []string
	k map[string]string
}

func (c *wCtx) GetMatch(i int) string {
	if i >= 0 && i < len(c.g) {
		return c.g[i]
	}
	return ""
}
func (c *wCtx) GetKey(k string) string { return c.k[k] }

func runOnce(opt bool, req *wReq) (out string, note string, ok bool) {
	defer func() {
		if e := recover(); e != nil {
			ok = false
			note = fmt.Sprintf("panic (optimize=%v): %v", opt, e)
		}
	}()
	groups := make([]string, len(req.Groups))
	for i, g := range req.Groups {
		groups[i] = unhex(g)
	}
	if req.Accum != "" {
		return runAccum(opt, req.Accum, unhex(req.Tpl), groups)
	}
	keys := map[string]string{}
	for k, v := range req.Keys {
		keys[unhex(k)] = unhex(v)
	}
	kb, _ := funclib.NewKeyBuilderEx(opt).Compile(unhex(req.Tpl))
	if kb == nil {
		return "", "Compile returned nil", false
	}
	ctx := &wCtx{groups, keys}
	out = kb.BuildKey(ctx)
	if opt {
		// a second evaluation on the same compiled expression (pooled sub-contexts are reused)
		_ = kb.BuildKey(ctx)
	}
	return out, "", true
}

// ---- concurrent mode: rare's extractor workers share ONE compiled expression.  The template is compiled once
// (optimised, as rare does) and evaluated by `workers` goroutines at the same time, concIters evaluations each, over
// the ordinary values concValues(i).  A panic in a goroutine is recovered and reported; a fatal error of the runtime
// (concurrent map writes, ...) kills this worker process and is reported by the parent.  Outputs are also compared
// with a sequential evaluation of a separately compiled copy (differences are reported in the note).
const concSets = 512
const concIters = 5000

func concValues(i int) []string {
	sec := i % 60
	min := (i / 60) % 60
	return []string{
		fmt.Sprintf("2024-03-%02dT%02d:%02d:%02dZ", 1+i%28, i%24, min, sec), // {0} a timestamp
		strconv.Itoa((i * 37) % 100),                                       // {1} a small integer
		fmt.Sprintf("w%d-x%d", i%7, i%3),                                   // {2} a word
		fmt.Sprintf(`{"a":{"b":%d},"l":[%d,%d]}`, i, i%5, i%11),            // {3} a JSON document
		fmt.Sprintf("%d.%d", i%1500, i%10),                                 // {4} a decimal
		fmt.Sprintf("%dh%dm%ds", i%30, min, sec),                           // {5} a duration
		fmt.Sprintf("/var/log/app%d/file%d.log", i%4, i%9),                 // {6} a path
		fmt.Sprintf("%d", 1700000000+i*61),                                 // {7} unix seconds
	}
}

func runConc(req *wReq) wResp {
	tpl := unhex(req.Tpl)
	keys := map[string]string{}
	for k, v := range req.Keys {
		keys[unhex(k)] = unhex(v)
	}
	sets := make([][]string, concSets)
	for i := range sets {
		sets[i] = concValues(i)
	}
	var seq []string
	note, okSeq := func() (n string, ok bool) {
		defer func() {
			if e := recover(); e != nil {
				n, ok = fmt.Sprintf("panic (sequential): %v", e), false
			}
		}()
		kbs, _ := funclib.NewKeyBuilder().Compile(tpl)
		if kbs == nil {
			return "Compile returned nil", false
		}
		seq = make([]string, concSets)
		for i := range sets {
			seq[i] = kbs.BuildKey(&wCtx{sets[i], keys})
		}
		return "", true
	}()
	if !okSeq {
		return wResp{"panic", "", note}
	}
	kb, _ := funclib.NewKeyBuilder().Compile(tpl)
	var wg sync.WaitGroup
	var mu sync.Mutex
	var panics []string
	differ := 0
	for g := 0; g < req.Conc; g++ {
		wg.Add(1)
		go func(g int) {
			defer wg.Done()
			defer func() {
				if e := recover(); e != nil {
					mu.Lock()
					panics = append(panics, fmt.Sprintf("panic in goroutine %d: %v", g, e))
					mu.Unlock()
				}
			}()
			ctx := &wCtx{k: keys}
			d := 0
			for it := 0; it < concIters; it++ {
				i := (it*req.Conc + g*131 + it/97) % concSets
				ctx.g = sets[i]
				if kb.BuildKey(ctx) != seq[i] {
					d++
				}
			}
			mu.Lock()
			differ += d
			mu.Unlock()
		}(g)
	}
	wg.Wait()
	if len(panics) > 0 {
		return wResp{"panic", "", panics[0]}
	}
	n := ""
	if differ > 0 {
		n = fmt.Sprintf("%d of %d concurrent outputs differ from the sequential ones", differ, req.Conc*concIters)
	}
	return wResp{"ok", hx(seq[0]), n}
}

// the contexts of pkg/aggregation/accumulator.go (rare reduce): the expression is the accumulator (-a), the group
// (-g) or the sort key (--sort) of an AccumulatingGroup that samples the given elements.
// Observable: acc -> the accumulated value of the (only) group; group -> the group keys; sort -> the sorted group keys
func runAccum(opt bool, mode, expr string, samples []string) (string, string, bool) {
	ag := aggregation.NewAccumulatingGroup(funclib.NewKeyBuilderEx(opt))
	var err error
	switch mode {
	case "acc":
		err = ag.AddDataExpr("x", expr, "")
	case "group":
		err = ag.AddGroupExpr("k", expr)
		ag.AddDataExpr("n", "{sumi {.} 1}", "0")
	default:
		ag.AddGroupExpr("k", "{1}")
		ag.AddGroupExpr("j", "{2}")
		ag.AddDataExpr("n", "{sumi {.} 1}", "0")
		err = ag.SetSort(expr)
	}
	note := ""
	if err != nil {
		note = "compile error"
	}
	for _, el := range samples {
		ag.Sample(el)
	}
	gs := ag.Groups(sorting.ByName)
	var parts []string
	for _, g := range gs {
		if mode == "acc" {
			parts = append(parts, strings.Join(ag.Data(g), "\x01"))
		} else {
			parts = append(parts, string(g))
		}
	}
	return strings.Join(parts, "\x01"), note, true
}

func workerMain() {
	// cap the address space: a runaway allocation ends as a fatal error instead of eating the machine
	lim := syscall.Rlimit{Cur: 2 << 30, Max: 2 << 30}
	syscall.Setrlimit(syscall.RLIMIT_AS, &lim)
	in := bufio.NewReaderSize(os.Stdin, 1<<20)
	w := bufio.NewWriter(os.Stdout)
	for {
		line, err := in.ReadBytes('\n')
		if len(line) > 0 {
			var req wReq
			if json.Unmarshal(line, &req) != nil {
				os.Exit(4)
			}
			color.Enabled = req.Color
			termunicode.UnicodeEnabled = req.Unicode
			var resp wResp
			if req.Conc > 0 {
				resp = runConc(&req)
				b, _ := json.Marshal(resp)
				w.Write(b)
				w.WriteByte('\n')
				w.Flush()
				continue
			}
			o1, n1, ok1 := runOnce(true, &req)
			o2, n2, ok2 := runOnce(false, &req)
			switch {
			case !ok1:
				resp = wResp{"panic", "", n1}
			case !ok2:
				resp = wResp{"panic", "", n2}
			default:
				resp = wResp{"ok", hx(o1), ""}
				if o1 != o2 {
					resp.Note = "optimized and unoptimized outputs differ"
				}
			}
			b, _ := json.Marshal(resp)
			w.Write(b)
			w.WriteByte('\n')
			w.Flush()
		}
		if err != nil {
			return
		}
	}
}

type worker struct {
	cmd   *exec.Cmd
	stdin io.WriteCloser
	lines chan []byte
	errb  *strings.Builder
}

var theWorker *worker
var caseTimeout = 12 * time.Second

func startWorker() *worker {
	cmd := exec.Command(os.Args[0], "worker")
	stdin, _ := cmd.StdinPipe()
	stdout, _ := cmd.StdoutPipe()
	errb := &strings.Builder{}
	cmd.Stderr = &tailWriter{sb: errb}
	if err := cmd.Start(); err != nil {
		fmt.Fprintln(os.Stderr, "cannot start worker:", err)
		os.Exit(2)
	}
	w := &worker{cmd: cmd, stdin: stdin, lines: make(chan []byte, 1), errb: errb}
	go func() {
		rd := bufio.NewReaderSize(stdout, 1<<20)
		for {
			l, err := rd.ReadBytes('\n')
			if len(l) > 0 && err == nil {
				w.lines <- l
			}
			if err != nil {
				close(w.lines)
				return
			}
		}
	}()
	return w
}

type tailWriter struct{ sb *strings.Builder }

func (t *tailWriter) Write(p []byte) (int, error) {
	if t.sb.Len() < 600 {
		r := 600 - t.sb.Len()
		if r > len(p) {
			r = len(p)
		}
		t.sb.Write(p[:r])
	}
	return len(p), nil
}

func (w *worker) kill() {
	w.cmd.Process.Kill()
	w.stdin.Close()
	go func() {
		for range w.lines {
		}
	}()
	w.cmd.Wait()
}

func runImpl(in *c08In) c08Out {
	if theWorker == nil {
		theWorker = startWorker()
	}
	w := theWorker
	req := wReq{Tpl: in.Template, Groups: in.Groups, Keys: map[string]string{}, Color: in.Color, Unicode: in.Unicode, Accum: in.Accum, Conc: in.Conc}
	for k, v := range in.Keys {
		req.Keys[hx(k)] = hx(v)
	}
	b, _ := json.Marshal(req)
	b = append(b, '\n')
	if _, err := w.stdin.Write(b); err != nil {
		w.kill()
		theWorker = nil
		return c08Out{Outcome: "panic", Note: "worker not accepting input: " + err.Error()}
	}
	select {
	case l, ok := <-w.lines:
		if !ok {
			w.kill()
			theWorker = nil
			first := strings.SplitN(w.errb.String(), "\n", 2)[0]
			if i := strings.Index(first, "out of memory"); i >= 0 { // the byte counts that follow vary from run to run
				first = first[:i+len("out of memory")]
			}
			return c08Out{Outcome: "panic", Note: "worker died: " + first}
		}
		var r wResp
		json.Unmarshal(l, &r)
		return c08Out{Outcome: r.Outcome, Out: r.Out, Len: len(r.Out) / 2, Note: r.Note}
	case <-time.After(caseTimeout):
		w.kill()
		theWorker = nil
		return c08Out{Outcome: "hang", Note: fmt.Sprintf("no answer within %v", caseTimeout)}
	}
}

// ---------------------------------------------------------------- templates
func constSafe(s string) bool {
	for i := 0; i < len(s); i++ {
		c := s[i]
		if c >= 128 || c < 32 || c == '\\' || c == '"' || c == '{' || c == '}' {
			return false
		}
	}
	return true
}
func bare(s string) bool {
	if s == "" {
		return false
	}
	for i := 0; i < len(s); i++ {
		c := s[i]
		if !(c >= 'a' && c <= 'z' || c >= 'A' && c <= 'Z' || c >= '0' && c <= '9' || strings.IndexByte("+-.,_:/%<>=", c) >= 0) {
			return false
		}
	}
	return true
}

func callTemplate(fn string, args []c08Arg) (string, []string) {
	var sb strings.Builder
	sb.WriteString("{" + fn)
	var groups []string
	for i, a := range args {
		v := unhex(a.Val)
		sb.WriteByte(' ')
		if a.Const && a.Raw != "" {
			sb.WriteString(a.Raw)
		} else if a.Const {
			if bare(v) && (len(v)+i)%2 == 0 {
				sb.WriteString(v)
			} else {
				sb.WriteString("\"" + v + "\"")
			}
		} else {
			sb.WriteString(fmt.Sprintf("{%d}", len(groups)))
			groups = append(groups, a.Val)
		}
	}
	sb.WriteString("}")
	return sb.String(), groups
}

// ---------------------------------------------------------------- value pools
var intPool = []string{"0", "1", "-1", "2", "-2", "-9223372036854775808", "9223372036854775807",
	"2147483648", "-2147483648", "4294967296", "-4294967296", "3", "9", "10", "100", "1000000", "1000001", "+5", "007", "-", "+"}
var floatPool = []string{"0", "-0", "1e308", "NaN", "Inf", "-Inf", "1.5", "-2.25", "1e-320", "9223372036854775808", "1e19",
	// non-zero magnitudes below 1 (truncate to the integer 0), values just around +-1 and +-2^63, non-integers
	"0.5", "-0.25", "1e-300", "5e-324", "-5e-324", "0.9999999999999999", "-0.9999999999999999",
	"1.0000000000000002", "-1.0000000000000002", "2.5", "-1.5", "-0.5",
	"9223372036854774784", "-9223372036854777856", "-9223372036854775808", "18446744073709551616", "63.5", "64", "65", "-1e308"}

// operands of {! ..} formulas: every value above plus the small integers the integer-only operators care about
var mathPool = append(append([]string{}, floatPool...), "1", "-1", "2", "-2", "7", "63", "-63", "4294967296", "2147483648", "9223372036854775807", "abc", "")

// scalar helpers that parse their arguments with strconv.ParseFloat
var floatFns = map[string]bool{"sumf": true, "subf": true, "multf": true, "divf": true, "pow": true, "ceil": true, "floor": true,
	"round": true, "log10": true, "log2": true, "ln": true, "sqrt": true, "lt": true, "gt": true, "lte": true, "gte": true,
	"percent": true, "hf": true, "isnum": true, "!": true}
var strPool = []string{"", " ", "abc", "a b c", "\xff\xfe", "a\x00b", "\x00", "x,y'z", "red", "RED", "linear", "log10", "log2",
	"%d %s", "1h30m", "2006-01-02", "quarter", "a.b.c", "[1,2]", "/tmp/a.b", "true", "\t", " ", "é"}
var long10k = strings.Repeat("a", 10240)
var longMixed = strings.Repeat("ab \x00", 2560)

func isBoundaryVal(s string) bool {
	switch s {
	case "abc", "a b c", "3", "9", "10", "100", "1.5", "true":
		return false
	}
	return true
}

func pickVal(r *Rng, wInt, wFloat, wStr int) string {
	t := r.Intn(wInt + wFloat + wStr + 1)
	switch {
	case t < wInt:
		return Pick(r, intPool)
	case t < wInt+wFloat:
		return Pick(r, floatPool)
	case t < wInt+wFloat+wStr:
		return Pick(r, strPool)
	}
	if r.Bool() {
		return long10k
	}
	return longMixed
}

// helpers whose model needs no float/text oracle: outputs are compared
var compared = map[string]bool{}

func init() {
	for _, n := range []string{"coalesce", "bucket", "bucketrange", "clamp", "expbucket", "isint",
		"sumi", "subi", "multi", "divi", "modi", "maxi", "mini", "if", "switch", "unless", "eq", "neq", "not", "and", "or",
		"len", "like", "prefix", "suffix", "substr", "select", "tab", "$", "@", "hi", "csv", "repeat", "color", "bar"} {
		compared[n] = true
	}
}

func funcNames() []string {
	var ns []string
	for k := range stdlib.StandardFunctions {
		ns = append(ns, k)
	}
	sort.Strings(ns)
	return ns
}

const repeatCap = 1000000
const barCap = 10000

func atoiOk(s string) (int64, bool) {
	v, err := strconv.ParseInt(s, 10, 64)
	return v, err == nil
}

// the known-finding domains, decided from the input alone
func flatTags(fn string, args []c08Arg) (tags []string, heavy bool) {
	v := make([]string, len(args))
	for i, a := range args {
		v[i] = unhex(a.Val)
	}
	switch fn {
	case "repeat":
		if len(args) == 2 && args[0].Const {
			if c, ok := atoiOk(v[1]); ok {
				l := int64(len(v[0]))
				if c < 0 || c > repeatCap || l*c > repeatCap {
					tags = append(tags, "kf:C08-repeat-count")
				}
			}
		}
	case "bar":
		if (len(args) == 3 || len(args) == 4) && args[1].Const && args[2].Const {
			_, ok1 := atoiOk(v[1])
			ml, ok2 := atoiOk(v[2])
			if ok1 && ok2 && (ml < 0 || ml > barCap) {
				tags = append(tags, "kf:C08-bar-length")
			}
		}
	}
	return
}

// bar: the float arithmetic of termscaler, computed by the exported functions themselves
func barBlocks(args []c08Arg, unicode bool) int64 {
	if len(args) != 3 && len(args) != 4 {
		return 0
	}
	v := make([]string, len(args))
	for i, a := range args {
		v[i] = unhex(a.Val)
	}
	val, ok0 := atoiOk(v[0])
	maxVal, ok1 := atoiOk(v[1])
	maxLen, ok2 := atoiOk(v[2])
	if !ok0 || !ok1 || !ok2 {
		return 0
	}
	sc := termscaler.ScalerLinear
	if len(args) == 4 {
		s, ok := termscaler.ScalerByName(v[3])
		if !ok {
			return 0
		}
		sc = s
	}
	unit := sc.Scale(val, 0, maxVal)
	if unicode {
		return int64(termscaler.LengthVal(int(maxLen)*9, unit))
	}
	return int64(termscaler.LengthVal(int(maxLen), unit))
}

// ---------------------------------------------------------------- building cases
func coqArgs(args []c08Arg) string {
	parts := make([]string, len(args))
	for i, a := range args {
		if a.Const {
			parts[i] = "k " + H([]byte(unhex(a.Val)))
		} else {
			parts[i] = "g " + H([]byte(unhex(a.Val)))
		}
	}
	return CoqList(parts)
}

func coqOutcome(o c08Out, ship bool) string {
	switch o.Outcome {
	case "ok":
		if ship {
			return "(oO \"" + o.Out + "\")"
		}
		return "oR"
	case "hang":
		return "oH"
	}
	return "oP"
}

func finish(in c08In, tags []string, nontrivial bool) Case {
	out := runImpl(&in)
	ship := in.Compare && out.Len <= 8192
	var term string
	if in.Kind == "flat" && in.Compare && (ship || out.Outcome != "ok") {
		term = fmt.Sprintf("cf \"%s\" %s %s %s %s %s", in.Fn, coqArgs(in.Args), B(in.Color), B(in.Unicode), Z(in.Blocks), coqOutcome(out, true))
	} else if in.Fn == "@range" && (in.Kind == "call" || in.Kind == "heavy") && len(in.Args) > 0 {
		// the cap of @range: the model predicts <VALUE> when the progression has more than 10^6 elements
		vals := make([]string, len(in.Args))
		for i, a := range in.Args {
			vals[i] = H([]byte(unhex(a.Val)))
		}
		term = "cr " + CoqList(vals) + " " + coqOutcome(out, out.Len <= 8192)
		tags = append(tags, "range:predicted")
	} else if in.Accum != "" && in.Accum != "sort" && in.Index != nil && len(in.Groups) == 1 {
		term = "cacc \"" + in.Groups[0] + "\" " + Z(*in.Index) + " " + coqOutcome(out, out.Len <= 8192)
		tags = append(tags, "accum:predicted")
	} else if in.Expect == "inf" {
		term = "ci " + coqOutcome(out, out.Len <= 8192)
	} else {
		term = "ca " + coqOutcome(out, false)
	}
	if len(out.Out) > 400 {
		out.Out = out.Out[:400] + "..."
	}
	tags = append(tags, "kind:"+in.Kind, "outcome:"+out.Outcome)
	if in.Fn != "" {
		tags = append(tags, "fn:"+in.Fn)
	}
	if in.Compare && ship {
		tags = append(tags, "compared-output")
	}
	key := in.Accum + "|" + in.Template + "|" + strings.Join(in.Groups, ",") + fmt.Sprintf("|%v%v", in.Color, in.Unicode)
	for _, k := range sortedKeys(in.Keys) {
		key += "|" + k + "=" + in.Keys[k]
	}
	return Case{Coq: term, Desc: c08Desc{in, out}, Key: key, Nontrivial: nontrivial, Tags: tags}
}

func sortedKeys(m map[string]string) []string {
	var ks []string
	for k := range m {
		ks = append(ks, k)
	}
	sort.Strings(ks)
	return ks
}

func readable(s string) string {
	if len(s) > 300 {
		return strconv.QuoteToASCII(s[:300]) + fmt.Sprintf("...(%d bytes)", len(s))
	}
	return strconv.QuoteToASCII(s)
}

var precisionFns = map[string]bool{"round": true, "percent": true, "bytesize": true, "bytesizesi": true, "downscale": true}
var precisionFns2 = map[string]int{"round": 2, "percent": 4, "bytesize": 2, "bytesizesi": 2, "downscale": 2} // largest arity

func mkCall(kind, fn string, args []c08Arg, col, uni bool) (c08In, []string, bool) {
	tpl, groups := callTemplate(fn, args)
	in := c08In{Kind: kind, Fn: fn, Args: args, Template: hx(tpl), Text: readable(tpl), Groups: groups, Color: col, Unicode: uni}
	tags, heavy := flatTags(fn, args)
	if compared[fn] && len(args) > 0 { // {fn} alone is a key look-up, not a call
		in.Compare = true
		if fn == "bar" && !heavy {
			in.Blocks = barBlocks(args, uni)
		}
		// model restrictions: ASCII colour / scaler names
		if fn == "color" && len(args) >= 1 && !constSafe(unhex(args[0].Val)) {
			in.Compare = false
		}
	}
	// round / percent / bytesize / bytesizesi / downscale: a constant precision above maxPrecision (1100) must
	// give <VALUE> whatever the other arguments are (the model needs no oracle for that)
	if precisionFns[fn] && len(args) >= 2 && len(args) <= precisionFns2[fn] && args[1].Const {
		if p, ok := atoiOk(unhex(args[1].Val)); ok && p > 1100 {
			in.Compare = true
			tags = append(tags, "precision:above-max")
		}
	}
	if in.Compare {
		in.Kind = "flat"
	}
	return in, tags, heavy
}

func genArgs(r *Rng, fn string, arity int) []c08Arg {
	args := make([]c08Arg, arity)
	for i := range args {
		var v string
		switch {
		case fn == "color" && i == 0 && r.Chance(3, 4):
			v = Pick(r, []string{"red", "RED", "Blue", "cyan", "nope", ""})
		case fn == "bar" && i == 3 && r.Chance(3, 4):
			v = Pick(r, []string{"linear", "log10", "LOG2", "log", "lin", "", "bad"})
		case fn == "bar" && i == 2 && r.Chance(1, 2):
			v = Pick(r, []string{"0", "1", "5", "40", "10000", "10001", "-1"})
		case fn == "repeat" && i == 1 && r.Chance(1, 2):
			v = Pick(r, []string{"0", "1", "2", "7", "1000", "-1", "1000000", "1000001", "500000", "500001"})
		case precisionFns[fn] && i == 1 && r.Chance(2, 3):
			v = Pick(r, []string{"0", "2", "1100", "1101", "2147483648", "9223372036854775807", "-1", "-9223372036854775808", "1000001", "4294967296"})
		case fn == "@range" && r.Chance(3, 4):
			v = Pick(r, []string{"0", "1", "-1", "5", "1000000", "1000001", "-1000001", "9223372036854775807", "-9223372036854775808", "9223372036854775800", "4294967296", "2", "-2", "10", "999999"})
		case fn == "repeat" && i == 0 && r.Chance(1, 2):
			v = Pick(r, []string{"a", "ab", "", "-", " "})
		default:
			if floatFns[fn] {
				v = pickVal(r, 2, 8, 2)
			} else {
				v = pickVal(r, 6, 3, 4)
			}
			if compared[fn] && len(v) > 1000 { // outputs of these are evaluated by the model too: keep vm_compute cheap
				v = v[:600]
			}
		}
		cst := constSafe(v) && len(v) < 200 && r.Chance(1, 2)
		if (fn == "repeat" && i == 0) || (fn == "color" && i == 0) || (fn == "bar" && i >= 1) || (precisionFns[fn] && i == 1) || ((fn == "bucket" || fn == "bucketrange" || fn == "clamp") && i >= 1) {
			cst = constSafe(v) && len(v) < 200 && r.Chance(7, 8)
		}
		args[i] = c08Arg{Const: cst, Val: hx(v), Text: readable(v)}
	}
	return args
}

var heavyBudget int

func c08Gen(r *Rng, n int, tier string) []Case {
	if tier == "thorough" {
		caseTimeout = 20 * time.Second
	}
	heavyBudget = 6
	if tier == "thorough" {
		heavyBudget = 40
	}
	var cases []Case
	names := funcNames()
	add := func(in c08In, tags []string, heavy bool, nontrivial bool) {
		if heavy {
			if heavyBudget <= 0 {
				return
			}
			heavyBudget--
			in.Kind = "heavy"
			in.Compare = false
		}
		cases = append(cases, finish(in, tags, nontrivial))
	}
	nontrivArgs := func(args []c08Arg) bool {
		for _, a := range args {
			if isBoundaryVal(unhex(a.Val)) {
				return true
			}
		}
		return len(args) == 0
	}

	// 0. the inputs of the findings of DESIGN section 8 (always)
	for _, f := range fixedCases() {
		add(f.in, f.tags, f.heavy, true)
	}

	// 1. every function of the registry x arity 0..5 x boundary values (constants and groups)
	perFn := n * 55 / 100 / (len(names) * 6)
	if perFn < 1 {
		perFn = 1
	}
	for _, fn := range names {
		for arity := 0; arity <= 5; arity++ {
			k := perFn
			if compared[fn] {
				k = perFn * 2
			}
			for j := 0; j < k; j++ {
				args := genArgs(r, fn, arity)
				in, tags, heavy := mkCall("call", fn, args, r.Bool(), r.Bool())
				add(in, tags, heavy, nontrivArgs(args))
			}
		}
	}

	// 1a. the helpers with a documented cap, around and far beyond it: @range (elements), repeat (bytes), bar (length),
	//     round / percent / bytesize / bytesizesi / downscale (precision); outputs are compared with the model's marker
	for j := 0; j < 24+n/50; j++ {
		fn := Pick(r, []string{"@range", "@range", "@range", "repeat", "bar", "round", "percent", "bytesize", "bytesizesi", "downscale"})
		arity := 2
		switch fn {
		case "@range":
			arity = r.Range(1, 3)
		case "bar":
			arity = r.Range(3, 4)
		case "percent":
			arity = r.Range(2, 4)
		}
		args := genArgs(r, fn, arity)
		in, tags, heavy := mkCall("call", fn, args, r.Bool(), r.Bool())
		add(in, append(tags, "capped-helper"), heavy, true)
	}

	for _, fn := range []string{"round", "percent", "bytesize", "bytesizesi", "downscale"} {
		for _, p := range []string{"1100", "1101", "2147483648", "9223372036854775807"} {
			for _, cst := range []bool{true, false} {
				args := []c08Arg{{Const: cst, Val: hx("1234.5678"), Text: "1234.5678"}, {Const: true, Val: hx(p), Text: p}}
				if fn != "round" && fn != "percent" {
					args[0] = c08Arg{Const: cst, Val: hx("123456789"), Text: "123456789"}
				}
				in, tags, heavy := mkCall("call", fn, args, false, true)
				add(in, append(tags, "capped-helper"), heavy, true)
			}
		}
	}

	// 1e. concurrent evaluation (rare's workers share one compiled expression): a fixed list of expressions over every
	//     helper family with a forwarder or internal state, each compiled once and evaluated by 6 goroutines at once
	loadFile := concLoadFile()
	for _, tpl := range concExpressions(loadFile) {
		in := c08In{Kind: "conc", Conc: 6, Template: hx(tpl), Text: readable(tpl), Keys: map[string]string{"k": "2", "lim": "3"}, Unicode: true}
		add(in, []string{"concurrent"}, false, true)
	}
	// divi / modi with three and more operands: a zero in every later position, constants and groups
	for _, fn := range []string{"divi", "modi"} {
		for arity := 2; arity <= 5; arity++ {
			for zero := 1; zero < arity; zero++ {
				for _, cst := range []bool{true, false} {
					args := make([]c08Arg, arity)
					for i := range args {
						v := strconv.Itoa(7 + 3*i)
						if i == zero {
							v = "0"
						}
						args[i] = c08Arg{Const: cst, Val: hx(v), Text: v}
					}
					in, tags, heavy := mkCall("call", fn, args, false, true)
					add(in, append(tags, "zero-divisor"), heavy, true)
				}
			}
		}
	}
	// the integer folds check their operands left to right (/repo 2e0440e): a zero divisor before / after an operand
	// that is not an integer, constants only and mixed with groups, for the dividing and the other folds
	for _, fn := range []string{"divi", "modi", "sumi", "multi", "maxi"} {
		for _, pat := range [][]string{{"8", "0", "1.5"}, {"8", "1.5", "0"}, {"8", "2", "0", "abc"}, {"8", "2", "abc", "0"}, {"1.5", "0", "2"},
			{"8", "0", ""}, {"-4294967296", "0", "1.5", "Inf", "-2147483648"}, {"8", "Inf", "0", "2"}} {
			for mode := 0; mode < 4; mode++ { // all constants | all groups | non-integers constant, rest groups | integers constant, rest groups
				args := make([]c08Arg, len(pat))
				for i, v := range pat {
					_, isInt := atoiOk(v)
					cst := mode == 0 || (mode == 2 && !isInt) || (mode == 3 && isInt)
					args[i] = c08Arg{Const: cst, Val: hx(v), Text: readable(v)}
				}
				in, tags, heavy := mkCall("call", fn, args, false, true)
				add(in, append(tags, "ifold-order"), heavy, true)
			}
		}
	}
	if loadFile != "" {
		defer os.Remove(loadFile)
	}

	// 1f. one bad parameter at a time: for every helper with typed parameters, every arity it accepts, every position in
	//     turn holds a bad value (empty, blank, text, a float where an integer is needed, beyond int64, negative, NaN)
	//     while ALL OTHER positions hold good values; bad value constant or group, the others constant or group
	for _, oc := range oneBadCases(r, tier) {
		in, tags, heavy := mkCall("call", oc.fn, oc.args, false, true)
		add(in, append(tags, "one-bad-parameter"), heavy, true)
	}

	// 1d. the contexts of `rare reduce` (pkg/aggregation/accumulator.go): group numbers of every magnitude and sign in
	//     the accumulator (-a), group (-g) and sort (--sort) expression of an AccumulatingGroup, through the library API
	for _, ac := range accumCases(r, 20+n/40) {
		add(ac, textAccumTags(ac), false, true)
	}

	// 1b. {! ..} formulas: every binary operator of stdmath x both operand positions x the float boundary
	//     pool, operands as constants of the formula (compile-time folding) and as group references; every
	//     unary operator on every value.  A deterministic sweep, thinned in the quick tier by the seed.
	bin, uni := mathOps()
	keep := func() bool { return tier == "thorough" || r.Chance(2, 5) }
	for _, op := range bin {
		for _, v := range mathPool {
			for form := 0; form < 6; form++ {
				if !keep() {
					continue
				}
				if in, ok := mathCase(op, v, form); ok {
					add(in, []string{"math:binop", "mathop:" + op}, false, isBoundaryVal(v))
				}
			}
		}
	}
	for _, op := range uni {
		for _, v := range mathPool {
			for form := 0; form < 2; form++ {
				if !keep() {
					continue
				}
				if in, ok := mathUnaryCase(op, v, form); ok {
					add(in, []string{"math:unop", "mathop:" + op}, false, isBoundaryVal(v))
				}
			}
		}
	}

	// 1c. arguments that a library parses as a small language (printf formats, time layouts, gjson paths,
	//     durations, zone / bucket / attribute names): strings from a grammar of complete pieces plus TRUNCATED
	//     tails (lone %, %-, %5, %., %[, unpaired quotes / brackets / backslashes ...), as constants of the
	//     template (compile-time paths) and via groups.  A deterministic sweep of every tail, then random strings.
	for _, lc := range langCases(r, n*12/100) {
		add(lc, []string{"lang:" + lc.Fn}, false, true)
	}

	// 2. nested sub-expressions: negative group indices, key look-ups, helpers inside helpers
	nNested := n * 20 / 100
	for i := 0; i < nNested; i++ {
		in, tags := genNested(r, names)
		add(in, tags, false, true)
	}

	// 3. malformed templates by mutation of well-formed ones
	nMut := n * 25 / 100
	for i := 0; i < nMut; i++ {
		var base c08In
		if r.Bool() {
			base, _ = genNested(r, names)
			for strings.Contains(unhex(base.Template), "@for") { // a mutated loop condition may never turn false
				base, _ = genNested(r, names)
			}
		} else {
			fn := Pick(r, names)
			for fn == "@range" || fn == "repeat" || fn == "bar" {
				fn = Pick(r, names)
			}
			var heavy bool
			base, _, heavy = mkCall("call", fn, genArgs(r, fn, r.Range(0, 4)), false, true)
			for heavy { // the domains of the recorded resource findings are generated as calls, not mutated
				base, _, heavy = mkCall("call", fn, genArgs(r, fn, r.Range(0, 4)), false, true)
			}
		}
		tpl := []rune(unhex(base.Template))
		if len(tpl) > 400 {
			tpl = tpl[:400]
		}
		muts := r.Range(1, 3)
		for m := 0; m < muts; m++ {
			tpl = mutate(r, tpl)
		}
		s := string(tpl)
		in := c08In{Kind: "malformed", Template: hx(s), Text: readable(s), Groups: base.Groups, Keys: base.Keys, Color: false, Unicode: true}
		add(in, textTags(s), false, true)
	}
	if theWorker != nil {
		theWorker.stdin.Close()
		theWorker.cmd.Wait()
		theWorker = nil
	}
	return cases
}

func mutate(r *Rng, t []rune) []rune {
	alphabet := []rune{'{', '}', '"', '\\', ' ', '{', '}', '\'', '\t', 'n', 0x2003}
	switch r.Intn(6) {
	case 0: // insert
		p := r.Intn(len(t) + 1)
		c := Pick(r, alphabet)
		return append(append(append([]rune{}, t[:p]...), c), t[p:]...)
	case 1: // delete
		if len(t) == 0 {
			return t
		}
		p := r.Intn(len(t))
		return append(append([]rune{}, t[:p]...), t[p+1:]...)
	case 2: // replace
		if len(t) == 0 {
			return t
		}
		p := r.Intn(len(t))
		u := append([]rune{}, t...)
		u[p] = Pick(r, alphabet)
		return u
	case 3: // truncate
		if len(t) == 0 {
			return t
		}
		return append([]rune{}, t[:r.Intn(len(t))]...)
	case 4: // trailing backslash
		return append(append([]rune{}, t...), '\\')
	default: // duplicate a prefix after itself (unbalances nesting)
		p := r.Intn(len(t) + 1)
		return append(append([]rune{}, t...), t[:p]...)
	}
}

// ---- nested expressions
var subIdx = []string{"{0}", "{1}", "{-1}", "{-2}", "{2}", "{-9223372036854775808}", "{k}", "{lim}", "{nokey}", "{src}"}

func genSub(r *Rng, depth int) (string, bool, bool) { // text, uses negative index, uses key
	if depth <= 0 || r.Chance(1, 3) {
		s := Pick(r, subIdx)
		return s, strings.HasPrefix(s, "{-"), s[1] >= 'a' && s[1] <= 'z'
	}
	a, n1, k1 := genSub(r, depth-1)
	b, n2, k2 := genSub(r, depth-1)
	forms := []string{"{sumi %s %s}", "{eq %s %s}", "{lt %s %s}", "{if %s %s}", "{prefix %s %s}", "%s%s", "{not %s}x%s", "{divi %s %s}", "{substr %s %s 2}", "{coalesce %s %s}", "{@ %s %s}", "{len %s}{isint %s}"}
	return fmt.Sprintf(Pick(r, forms), a, b), n1 || n2, k1 || k2
}

func genNested(r *Rng, names []string) (c08In, []string) {
	arr := Pick(r, []string{"{@ a b c}", "{0}", "{@ 1 2 3 4}", "{@split {1} ,}", "{@}", "\"\"", "{@range 0 5}", "{@ {0} {-1} {k}}"})
	sub, neg, key := genSub(r, r.Range(0, 2))
	sub2, neg2, key2 := genSub(r, r.Range(0, 1))
	var tpl string
	var tags []string
	form := r.Intn(8)
	quote := func(s string) string {
		if r.Bool() && !strings.Contains(s, "\"") {
			return "\"" + s + "\""
		}
		return s
	}
	switch form {
	case 0:
		tpl = fmt.Sprintf("{@map %s %s}", arr, quote(sub))
	case 1:
		tpl = fmt.Sprintf("{@filter %s %s}", arr, quote(sub))
	case 2:
		tpl = fmt.Sprintf("{@reduce %s %s %s}", arr, quote(sub), Pick(r, []string{"", "0", "\"\"", "x"}))
	case 3:
		// the condition tests the loop index against a small number: at most 7 rounds
		lim := Pick(r, []string{"{lim}", "3", "0", "7", "2", "3", "7", "1"})
		incr := Pick(r, []string{"{sumi {0} 1}", "{0}a", sub, sub})
		tpl = fmt.Sprintf("{@for %s {lt {1} %s} %s}", Pick(r, []string{"0", "{0}", "a", "\"\""}), lim, quote(incr))
		tags = append(tags, "nested:for")
	case 4:
		tpl = fmt.Sprintf("{@join {@map %s %s} %s}", arr, quote(sub), quote(sub2))
		neg = neg || false
		_ = neg2
	case 5:
		fn := Pick(r, names)
		for fn == "@range" || fn == "repeat" || fn == "bar" || fn == "load" {
			fn = Pick(r, names)
		}
		tpl = fmt.Sprintf("{%s %s %s}", fn, sub, sub2)
		neg, key = false, false // top level: the harness context
	case 6:
		tpl = fmt.Sprintf("x{@slice %s %s %s}y{@select %s %s}", arr, Pick(r, intPool[:11]), Pick(r, intPool[:11]), arr, Pick(r, intPool[:11]))
		neg, key = false, false
	default:
		tpl = fmt.Sprintf("{@map {@map %s %s} %s}", arr, quote(sub), quote(sub2))
		neg = neg || neg2
		key = key || key2
	}
	if form == 4 {
		// only the first sub-expression runs in a sub-context
	}
	in := c08In{Kind: "nested", Template: hx(tpl), Text: readable(tpl),
		Groups: []string{hx(Pick(r, []string{"a,b", "5", "", "x\x00y\x00z", "-3"})), hx(Pick(r, intPool)), hx("zz")},
		Keys:   map[string]string{"k": Pick(r, []string{"2", "", "abc"}), "lim": Pick(r, []string{"3", "0", "7"})},
		Color:  false, Unicode: true}
	_, _ = neg, key
	tags = append(tags, textTags(tpl)...)
	return in, tags
}

// ---- one bad parameter at a time
const arrExpr = "{@ a b c d}"

// good argument lists per helper, one per accepted arity
var goodCalls = map[string][][]string{
	"percent":        {{"50"}, {"50", "1"}, {"50", "1", "100"}, {"50", "1", "0", "100"}},
	"clamp":          {{"5", "0", "10"}},
	"bucket":         {{"17", "5"}},
	"bucketrange":    {{"17", "5"}},
	"expbucket":      {{"1234"}},
	"round":          {{"3.14159"}, {"3.14159", "2"}},
	"ceil":           {{"1.5"}},
	"floor":          {{"1.5"}},
	"bytesize":       {{"123456"}, {"123456", "2"}},
	"bytesizesi":     {{"123456"}, {"123456", "2"}},
	"downscale":      {{"123456"}, {"123456", "2"}},
	"hi":             {{"1234567"}},
	"hf":             {{"1234.5"}},
	"substr":         {{"abcdef", "1", "3"}},
	"select":         {{"a b c", "1"}},
	"repeat":         {{"ab", "3"}},
	"bar":            {{"5", "10", "8"}, {"5", "10", "8", "linear"}},
	"color":          {{"red", "x"}},
	"@slice":         {{arrExpr, "1"}, {arrExpr, "1", "2"}},
	"@select":        {{arrExpr, "1"}},
	"@split":         {{"a,b", ","}},
	"@join":          {{arrExpr, "+"}},
	"@range":         {{"5"}, {"0", "5"}, {"0", "5", "1"}},
	"@in":            {{"a", arrExpr}},
	"time":           {{"2024-01-02T03:04:05Z"}, {"2024-01-02T03:04:05Z", "RFC3339"}, {"2024-01-02T03:04:05Z", "RFC3339", "utc"}},
	"timeformat":     {{"1700000000"}, {"1700000000", "RFC3339"}, {"1700000000", "RFC3339", "utc"}},
	"buckettime":     {{"2024-01-02T03:04:05Z", "hour"}, {"2024-01-02T03:04:05Z", "hour", "RFC3339"}, {"2024-01-02T03:04:05Z", "hour", "RFC3339", "utc"}},
	"timeattr":       {{"1700000000", "weekday"}, {"1700000000", "weekday", "utc"}},
	"duration":       {{"1h30m"}},
	"durationformat": {{"5400"}},
	"sumi":           {{"7", "2"}, {"7", "2", "3"}},
	"subi":           {{"7", "2"}, {"7", "2", "3"}},
	"multi":          {{"7", "2"}, {"7", "2", "3"}},
	"divi":           {{"7", "2"}, {"7", "2", "3"}},
	"modi":           {{"7", "2"}, {"7", "2", "3"}},
	"maxi":           {{"7", "2"}, {"7", "2", "3"}},
	"mini":           {{"7", "2"}, {"7", "2", "3"}},
	"sumf":           {{"1.5", "2"}, {"1.5", "2", "3"}},
	"subf":           {{"1.5", "2"}, {"1.5", "2", "3"}},
	"multf":          {{"1.5", "2"}, {"1.5", "2", "3"}},
	"divf":           {{"1.5", "2"}, {"1.5", "2", "3"}},
	"pow":            {{"2", "10"}},
	"sqrt":           {{"16"}},
	"log10":          {{"100"}},
	"lt":             {{"1", "2"}},
	"gt":             {{"1", "2"}},
	"lte":            {{"1", "2"}},
	"gte":            {{"1", "2"}},
	"format":         {{"%s-%v", "x", "y"}},
	"lookup":         {{"k", "k v"}, {"k", "k v", "#"}},
	"haskey":         {{"k", "k v"}, {"k", "k v", "#"}},
	"json":           {{`[1,2]`, "0"}},
	"if":             {{"1", "a"}, {"1", "a", "b"}},
	"!":              {{"1 + 2"}},
}

var badParams = []string{"", " ", "abc", "1.5", "9223372036854775808", "-5", "-9223372036854775808", "NaN", "0", "1e3", "-", "+"}

type oneBad struct {
	fn   string
	args []c08Arg
}

func oneBadCases(r *Rng, tier string) []oneBad {
	var out []oneBad
	var fns []string
	for fn := range goodCalls {
		if _, ok := stdlib.StandardFunctions[fn]; ok { // a helper that no longer exists is not generated
			fns = append(fns, fn)
		}
	}
	sort.Strings(fns)
	mk := func(v string, cst bool) c08Arg {
		if v == arrExpr {
			if cst {
				return c08Arg{Const: true, Val: hx("a\x00b\x00c\x00d"), Text: arrExpr, Raw: arrExpr}
			}
			return c08Arg{Const: false, Val: hx("a\x00b\x00c\x00d"), Text: "a NUL b NUL c NUL d"}
		}
		return c08Arg{Const: cst && constSafe(v), Val: hx(v), Text: readable(v)}
	}
	for _, fn := range fns {
		for _, good := range goodCalls[fn] {
			for pos := range good {
				for _, bad := range badParams {
					// modes: bad constant + others constant | bad constant + others groups | all groups | bad group + others constant
					for mode := 0; mode < 4; mode++ {
						if mode >= 2 && tier != "thorough" && !r.Chance(1, 3) { // the compile-time modes are always generated
							continue
						}
						args := make([]c08Arg, len(good))
						for i, g := range good {
							badC := mode == 0 || mode == 1
							othC := mode == 0 || mode == 3
							if i == pos {
								args[i] = mk(bad, badC)
							} else {
								args[i] = mk(g, othC)
							}
						}
						out = append(out, oneBad{fn, args})
					}
				}
			}
		}
	}
	return out
}

// ---- concurrent mode: the expressions
// a small table file for {load ..}; "" when it cannot be written (the expression is then left out)
func concLoadFile() string {
	dir := os.Getenv("VERIF_WORK")
	if dir == "" {
		dir = os.TempDir()
	}
	p := filepath.Join(dir, "c08_table.txt")
	if os.WriteFile(p, []byte("w0-x0 zero\nw1-x1 one\n# comment\nw2-x2 two\n"), 0o644) != nil {
		return ""
	}
	return p
}

func concExpressions(loadFile string) []string {
	l := []string{
		// time helpers: explicit, auto-detecting (every value) and caching (first value) modes, zones
		"{time {0}}", "{time {0} auto}", "{time {0} cache}", "{time {0} RFC3339}", "{time {0} auto utc}",
		"{buckettime {0} minute}", "{buckettime {0} hour auto}", "{buckettime {0} day cache}", "{buckettime {0} month RFC3339 America/New_York}",
		"{timeformat {7} RFC3339}", "{timeformat {time {0} auto} NGINX utc}", "{timeattr {time {0}} weekday}", "{timeattr {7} yearweek utc}",
		"{duration {5}}", "{durationformat {1}}",
		// printf, gjson, tables
		"{format \"%s-%5d|%v\" {2} {1} {4}}", "{format \"%v %%\" {0}}", "{json {3} a.b}", "{json {3} \"l.#\"}{json {3} l.1}",
		"{lookup {2} \"w0-x0 zero\\nw1-x1 one\\nw2-x2 two\"}", "{haskey {2} \"w1-x1\\nw3-x0\"}",
		// binders and array helpers (pooled sub-contexts)
		"{@map {@split {2} -} \"{upper {0}}{k}\"}", "{@filter {@ {1} {2} {4}} {isnum {0}}}", "{@reduce {@ {1} {1} 5} {sumi {0} {1}}}",
		"{@for 0 {lt {1} 5} {sumi {0} {1}}}", "{@join {@slice {@split {0} :} 1 2} +}", "{@select {@split {0} :} 1}-{@len {@split {3} ,}}",
		"{@in {2} {@ w1-x1 w3-x0}}{@range 0 {1} 7}",
		// drawing, humanize
		"{repeat = {1}}", "{bar {1} 100 20}", "{bar {1} 100 20 log10}", "{color red {2}}",
		"{hi {7}}", "{hf {4}}", "{bytesize {7} 2}", "{bytesizesi {7}}{downscale {7}}", "{percent {4} 1 0 1500}",
		// formulas
		"{! [1] * 2 + [4]}", "{! round([4] / 3) % 7}", "{! sqrt(abs([4])) << 2}",
		// scalar helpers
		"{sumi {1} 1}{divi {7} 3}{modi {7} {1}}", "{substr {0} 0 10}-{select {6} 0}", "{csv {0} {2} {3}}", "{if {gt {4} 50} hi lo}{switch {eq {2} w1-x1} a {eq {2} w2-x2} b c}",
		"{upper {2}}{lower {2}}{basename {6}}{extname {6}}", "{expbucket {7}}-{bucket {1} 10}-{clamp {1} 10 50}",
	}
	if loadFile != "" {
		l = append(l, "{lookup {2} {load "+loadFile+"}}")
	}
	return l
}

// ---- accumulator / group / sort contexts
var accumIdx = []int64{0, 1, 2, 3, 4, -1, -2, math.MinInt64, math.MaxInt64, 1 << 31, 1 << 32, -(1 << 31), 100000000, 9223372036854775806, 5}
var accumSamples = []string{"a\x00b\x00c", "", "x", "a\x00\x00b", "\x00", "1\x002\x003\x004", "a b", "\xff\x00\xfe"}

func accumIn(mode, tpl string, idx *int64, samples ...string) c08In {
	var g []string
	for _, x := range samples {
		g = append(g, hx(x))
	}
	return c08In{Kind: "accum", Accum: mode, Index: idx, Template: hx(tpl), Text: readable(tpl), Groups: g, Unicode: true}
}

func accumCases(r *Rng, nRandom int) []c08In {
	var out []c08In
	// deterministic: every index x every context, on one sample (value predicted for acc / group)
	for _, mode := range []string{"acc", "group", "sort"} {
		for i := range accumIdx {
			idx := accumIdx[i]
			smp := []string{accumSamples[(i+len(mode))%len(accumSamples)]}
			if mode == "sort" { // two different groups, otherwise nothing is compared and the sort key is never built
				smp = append(smp, "x\x00y\x00z", "p\x00q")
			}
			out = append(out, accumIn(mode, fmt.Sprintf("{%d}", idx), &idx, smp...))
		}
	}
	forms := []string{"{%d}", "{sumi {.} {%d}}", "{%d}-{.}", "{@map {%d} \"{0}{-1}\"}", "{coalesce {%d} {1} none}", "{if {%d} y n}", "{! [%d] + 1}", "{%d}{n}{k}"}
	for i := 0; i < nRandom; i++ {
		mode := Pick(r, []string{"acc", "group", "sort"})
		idx := Pick(r, accumIdx)
		form := Pick(r, forms)
		var samples []string
		for k := r.Range(1, 4); k > 0; k-- {
			samples = append(samples, Pick(r, accumSamples))
		}
		if mode == "sort" {
			samples = append(samples, "x\x00y\x00z", "p\x00q")
		}
		var ip *int64
		if form == "{%d}" && len(samples) == 1 {
			ip = &idx
		}
		out = append(out, accumIn(mode, fmt.Sprintf(form, idx), ip, samples...))
	}
	return out
}

// the domain of finding C08-accumulator-index: a group number above 10^7 in an accumulator-context expression
var bigIndex = regexp.MustCompile(`[{\[][0-9]{8,}[}\]]`)

func textAccumTags(in c08In) []string {
	tags := []string{"accum:" + in.Accum}
	if bigIndex.MatchString(unhex(in.Template)) {
		tags = append(tags, "kf:C08-accumulator-index")
	}
	return tags
}

// ---- mini-languages parsed by libraries behind the forwarders
type miniLang struct {
	name   string
	pieces []string // complete constructs
	plain  []string // prefixes the deterministic sweep puts before every tail ("" included)
	tails  []string // truncated / unpaired endings
}

var langPrintf = miniLang{"printf",
	[]string{"%s", "%v", "%d", "%5s", "%-5s", "%05d", "%.2f", "%[1]s", "%[2]v", "%%", "%x", "%q", "%T", "%c", "%U", "%e", "%*d", "%+d", "%#v", "% d",
		"x", "100", "done ", " ", "%[1]*d", "%!", "%z", "%s", "%v", "%%"},
	[]string{"", "%s", "100", "%s %v %%", "done %s "},
	[]string{"%", "%-", "%5", "%.", "%[", "%[1", "%[1]", "%+", "%#", "%0", "% ", "%5.", "%*", "%.*", "%[9999999999", "%[-1]", "%%%", "\"", "\\", "]", "[", "}", "'", "%\\", "%\""}}
var langLayout = miniLang{"layout",
	[]string{"2006", "01", "02", "15", "04", "05", "Jan", "January", "Mon", "Monday", "MST", "-0700", "-07:00", "Z07:00", "Z0700", ".000", ".999999999", ",000",
		"_2", "__2", "002", "PM", "pm", "1", "2", "3", "4", "5", "06", "T", " ", "-", "/", ":", "RFC3339", "nginx", "unix", "ansic", "month"},
	[]string{"", "2006-01-02", "15:04:05", "Jan "},
	[]string{"200", "0", "-07", "-07:", "Z07:", "Z0", "Z", ".", "_", "__", "Jan2", "Mo", "P", "-070", "Z070", ".00x", "%Y", "\"", "\\", "[", "]", "}", "'"}}
var langJSONPath = miniLang{"jsonpath",
	[]string{"a", "b", "#", "0", "-1", "*", "?", "a.b", "a.#", "a.#.b", "#(b==1)", "#(b>1)#", "#(b%\"x*\")", "@reverse", "@this", "@pretty", "@flatten", "@keys", "@values",
		"@join", "a|b", "..", "[a,b]", "\\.", "@tostr", "@fromstr", "@group", "@dig:b", "!", "~true", "."},
	[]string{"", "a.", "a.#.", "a|"},
	[]string{".", "|", "#(", "#(b", "#(b==", "#(b==\"", "#(b==1", "#(b==1)#.", "@", "@pretty:", "@pretty:[", "@pretty:{\"indent\":", "[", "[a", ":", "\\", "a.\\", "*?",
		"@flatten:[\"deep\":tr", "#(#(", "~", "\"", "}", "]", "'"}}
var langDuration = miniLang{"duration",
	[]string{"1h", "30m", "1.5s", "2us", "3ns", "4ms", "1µs", "-1h", "+1m", "9223372036854775807ns", "0", ".5s", "1.h"},
	[]string{"", "1h", "-"},
	[]string{"1", "h", "1.", "-", "+", "1e3s", "1h3", ".s", "9999999999999999999h", "1d", "\"", "\\", ".", "1.5"}}
var langZone = miniLang{"zone", []string{"UTC", "Local", "local", "America/New_York", "utc", "Etc/GMT+1"}, []string{""},
	[]string{"Europe/", "../etc", "/", "Nope/Zone", "..", "UTC\\", "America/New_Yor", "\"", "["}}
var langBucket = miniLang{"bucket", []string{"nanos", "sec", "min", "hours", "d", "mo", "months", "y"}, []string{""}, []string{"n", "s", "m", "x", "mon\\", "\"", "daysx", "["}}
var langAttr = miniLang{"attr", []string{"weekday", "week", "yearweek", "quarter", "WEEKDAY"}, []string{""}, []string{"wee", "bad", "\"", "\\", "week\\"}}

// one argument position: a mini-language, or fixed values
type langArg struct {
	lang *miniLang
	vals []string
}

type langCall struct {
	fn   string
	args []langArg
	min  int // smallest arity generated
}

var unixVals = []string{"0", "1700000000", "-1", "9223372036854775807", "-9223372036854775808", "abc", "253402300800", "1e3"}
var timeVals = []string{"2024-01-02T03:04:05Z", "2024-01-02", "Jan 2 2006", "", "14/Mar/2023:05:21:12 +0000", "99999999999", "2024-13-45", "03:04:05", "2024-01-02 03:04:05.999 -0700", "\xff", "now", "Mon"}
var jsonDocs = []string{`{"a":[{"b":1},{"b":2}],"b":"x"}`, "", "{", "[1,2", "null", "\xff", `{"a":{"a":{"a":{"a":1}}}}`, `[[[[[[[[[[1]]]]]]]]]]`, `{"a":"\ud800"}`, `{"a.b":1,"#":2,"*":3}`, "1e999", `{"a":[1,2,3`}
var plainVals = []string{"x", "7", "", "a b", "-3", "1.5", "\xff\xfe", "a\x00b"}

var langCallTable = []langCall{
	{"format", []langArg{{lang: &langPrintf}, {vals: plainVals}, {vals: plainVals}, {vals: plainVals}}, 1},
	{"timeformat", []langArg{{vals: unixVals}, {lang: &langLayout}, {lang: &langZone}}, 2},
	{"time", []langArg{{vals: timeVals}, {lang: &langLayout}, {lang: &langZone}}, 2},
	{"buckettime", []langArg{{vals: timeVals}, {lang: &langBucket}, {lang: &langLayout}, {lang: &langZone}}, 2},
	{"timeattr", []langArg{{vals: unixVals}, {lang: &langAttr}, {lang: &langZone}}, 2},
	{"duration", []langArg{{lang: &langDuration}}, 1},
	{"json", []langArg{{vals: jsonDocs}, {lang: &langJSONPath}}, 2},
	{"@split", []langArg{{vals: []string{"a,b,,c", "", "a::b", "a\x00b"}}, {lang: &miniLang{"delim", []string{",", "::", " ", "b"}, []string{""}, []string{"", "\"", "\\", "\\\\", "}"}}}}, 2},
	{"lookup", []langArg{{vals: []string{"k", "", "a b"}}, {lang: &miniLang{"table", []string{"k v\n", "a b c\n", "# c\n", "k\n", "\r\n", "k  v2\n"}, []string{"", "k v\n"}, []string{"k", "k ", "\"", "\\", "#", "k v\r"}}}, {vals: []string{"#", "", "k"}}}, 2},
}

// a value as a constant of the template: quoted; the three escape levels (outer scanner, argument splitter,
// compilation of the argument) need  \\"  for a quote, eight backslashes for one, \\\}  for a closing brace.
// An opening brace, control characters and non-ASCII bytes travel as groups only.
func constLit(v string) (string, bool) {
	var sb strings.Builder
	sb.WriteByte('"')
	for i := 0; i < len(v); i++ {
		c := v[i]
		switch {
		case c == '"':
			sb.WriteString(`\\"`)
		case c == '\\':
			sb.WriteString(`\\\\\\\\`)
		case c == '}':
			sb.WriteString(`\\\}`)
		case c == '{' || c < 32 || c >= 127:
			return "", false
		default:
			sb.WriteByte(c)
		}
	}
	sb.WriteByte('"')
	return sb.String(), len(v) < 300
}

var escapedConstsOk = -1 // -1 unknown, 0 no, 1 yes: decided once by a self-test through the worker

func escapedConsts() bool {
	if escapedConstsOk < 0 {
		probe := "a\"b\\c}d%"
		lit, _ := constLit(probe)
		in := c08In{Kind: "lang", Template: hx("{$ " + lit + "}"), Unicode: true}
		out := runImpl(&in)
		escapedConstsOk = 0
		if out.Outcome == "ok" && unhex(out.Out) == probe {
			escapedConstsOk = 1
		}
	}
	return escapedConstsOk == 1
}

func needsEscape(v string) bool { return strings.ContainsAny(v, "\"\\}") }

// builds {fn a1 .. ak}; asConst[i]: write argument i as a constant when it can be written as one
func langTemplate(fn string, vals []string, asConst []bool) c08In {
	var sb strings.Builder
	sb.WriteString("{" + fn)
	var groups []string
	for i, v := range vals {
		sb.WriteByte(' ')
		lit, ok := constLit(v)
		if asConst[i] && ok && (!needsEscape(v) || escapedConsts()) {
			sb.WriteString(lit)
		} else {
			sb.WriteString(fmt.Sprintf("{%d}", len(groups)))
			groups = append(groups, hx(v))
		}
	}
	sb.WriteString("}")
	t := sb.String()
	return c08In{Kind: "lang", Fn: fn, Template: hx(t), Text: readable(t), Groups: groups, Unicode: true}
}

func langString(r *Rng, l *miniLang) string {
	var sb strings.Builder
	for k := r.Intn(4); k > 0; k-- {
		sb.WriteString(Pick(r, l.pieces))
		if l.name == "jsonpath" && k > 1 {
			sb.WriteString(Pick(r, []string{".", ".", "|", ""}))
		}
	}
	if r.Bool() {
		sb.WriteString(Pick(r, l.tails))
	}
	return sb.String()
}

func langCases(r *Rng, nRandom int) []c08In {
	var out []c08In
	defaults := func(lc *langCall, r *Rng, upto int) []string {
		vals := make([]string, upto)
		for i := 0; i < upto; i++ {
			if lc.args[i].lang != nil {
				vals[i] = Pick(r, lc.args[i].lang.pieces)
			} else {
				vals[i] = Pick(r, lc.args[i].vals)
			}
		}
		return vals
	}
	// deterministic sweep: every tail of every language position, after each plain prefix, constant and group
	for ci := range langCallTable {
		lc := &langCallTable[ci]
		for pos, a := range lc.args {
			if a.lang == nil {
				continue
			}
			arity := pos + 1
			if arity < lc.min {
				arity = lc.min
			}
			if lc.fn == "format" {
				arity = 2
			}
			for _, tail := range a.lang.tails {
				for _, pre := range a.lang.plain {
					for _, cst := range []bool{true, false} {
						vals := defaults(lc, r, arity)
						vals[pos] = pre + tail
						asConst := make([]bool, arity)
						for i := range asConst {
							asConst[i] = i != pos && lc.args[i].lang != nil // the other language arguments constant
						}
						asConst[pos] = cst
						out = append(out, langTemplate(lc.fn, vals, asConst))
					}
				}
			}
		}
	}
	// random strings of the grammar, random arity, each argument constant or group
	for i := 0; i < nRandom; i++ {
		lc := &langCallTable[r.Intn(len(langCallTable))]
		arity := r.Range(lc.min, len(lc.args))
		vals := make([]string, arity)
		asConst := make([]bool, arity)
		for j := 0; j < arity; j++ {
			if lc.args[j].lang != nil {
				vals[j] = langString(r, lc.args[j].lang)
				asConst[j] = r.Chance(2, 3)
			} else {
				vals[j] = Pick(r, lc.args[j].vals)
				asConst[j] = r.Chance(1, 3)
			}
		}
		out = append(out, langTemplate(lc.fn, vals, asConst))
	}
	return out
}

// ---- {! ..} formulas
// the operator tables are read from the source under test (keys of the composite literals `ops` and
// `uniOps` of pkg/expressions/stdmath/ops.go), so a new operator is exercised without touching the harness
func mathOps() (bin, uni []string) {
	repo := os.Getenv("VERIF_REPO")
	if repo == "" {
		repo = "/repo"
	}
	path := filepath.Join(repo, "pkg/expressions/stdmath/ops.go")
	f, err := parser.ParseFile(token.NewFileSet(), path, nil, 0)
	if err != nil {
		fmt.Fprintln(os.Stderr, "C08: cannot read the operator tables:", err)
		os.Exit(2)
	}
	keys := func(name string) []string {
		var out []string
		for _, d := range f.Decls {
			gd, ok := d.(*ast.GenDecl)
			if !ok {
				continue
			}
			for _, sp := range gd.Specs {
				vs, ok := sp.(*ast.ValueSpec)
				if !ok {
					continue
				}
				for i, n := range vs.Names {
					if n.Name != name || i >= len(vs.Values) {
						continue
					}
					if cl, ok := vs.Values[i].(*ast.CompositeLit); ok {
						for _, el := range cl.Elts {
							if kv, ok := el.(*ast.KeyValueExpr); ok {
								if bl, ok := kv.Key.(*ast.BasicLit); ok {
									if k, err := strconv.Unquote(bl.Value); err == nil {
										out = append(out, k)
									}
								}
							}
						}
					}
				}
			}
		}
		sort.Strings(out)
		return out
	}
	bin, uni = keys("ops"), keys("uniOps")
	if len(bin) == 0 || len(uni) == 0 {
		fmt.Fprintln(os.Stderr, "C08: operator tables `ops` / `uniOps` not found in", path)
		os.Exit(2)
	}
	return
}

// a value written as a constant of a formula: plain decimal digits (the tokenizer splits at + and -, so no
// exponent form); a leading minus is the unary operator; NaN and Inf are literals of strconv.ParseFloat
func mathConst(v string) (string, bool) {
	f, err := strconv.ParseFloat(v, 64)
	if err != nil {
		return "", false
	}
	switch {
	case math.IsNaN(f):
		return "NaN", true
	case math.IsInf(f, 1):
		return "Inf", true
	case math.IsInf(f, -1):
		return "(-Inf)", true
	}
	s := strconv.FormatFloat(math.Abs(f), 'f', -1, 64)
	if math.Signbit(f) {
		return "(-" + s + ")", true
	}
	return s, true
}

func mathIn(tpl string, groups ...string) c08In {
	var g []string
	for _, x := range groups {
		g = append(g, hx(x))
	}
	return c08In{Kind: "math", Template: hx(tpl), Text: readable(tpl), Groups: g, Unicode: true}
}

// forms: 0 {! 7 op V} constants (folded when the formula is compiled)   1 {! [0] op [1]} groups 7, V
//        2 {! [0] op V} group left, constant right                       3 {! V op 3} constants
//        4 {! [0] op [1]} groups V, 3                                    5 {! V op [0]} constant left, group right
func mathCase(op, v string, form int) (c08In, bool) {
	c, isNum := mathConst(v)
	switch form {
	case 0:
		if !isNum {
			return c08In{}, false
		}
		return mathIn(fmt.Sprintf("{! 7 %s %s}", op, c)), true
	case 1:
		return mathIn(fmt.Sprintf("{! [0] %s [1]}", op), "7", v), true
	case 2:
		if !isNum {
			return c08In{}, false
		}
		return mathIn(fmt.Sprintf("{! [0] %s %s}", op, c), "-9"), true
	case 3:
		if !isNum {
			return c08In{}, false
		}
		return mathIn(fmt.Sprintf("{! %s %s 3}", c, op)), true
	case 4:
		return mathIn(fmt.Sprintf("{! [0] %s [1]}", op), v, "3"), true
	default:
		if !isNum {
			return c08In{}, false
		}
		return mathIn(fmt.Sprintf("{! %s %s [0]}", c, op), "0.5"), true
	}
}

func mathUnaryCase(op, v string, form int) (c08In, bool) {
	if form == 0 {
		return mathIn(fmt.Sprintf("{! %s([0])}", op), v), true
	}
	c, isNum := mathConst(v)
	if !isNum {
		return c08In{}, false
	}
	return mathIn(fmt.Sprintf("{! %s(%s)}", op, c)), true
}

type fixedCase struct {
	in    c08In
	tags  []string
	heavy bool
}

func fixedCases() []fixedCase {
	var out []fixedCase
	K := func(s string) c08Arg { return c08Arg{Const: true, Val: hx(s), Text: s} }
	G := func(s string) c08Arg { return c08Arg{Const: false, Val: hx(s), Text: s} }
	call := func(fn string, args ...c08Arg) {
		in, tags, heavy := mkCall("call", fn, args, false, true)
		out = append(out, fixedCase{in, tags, heavy})
	}
	call("repeat", K("a"), K("-1"))
	call("repeat", K("a"), G("-1"))
	call("repeat", K("ab"), G("-9223372036854775808"))
	call("repeat", K("ab"), G("9223372036854775807"))
	call("repeat", K(""), G("9223372036854775807"))
	call("repeat", K("a"), G("1000000"))
	call("repeat", K("ab"), G("500001"))
	call("divi", G("1"), G("0"))
	call("modi", K("1"), K("0"))
	call("divi", G("-9223372036854775808"), G("-1"))
	call("substr", K("abc"), K("1"), K("9223372036854775807"))
	call("hi", G("-9223372036854775808"))
	call("bar", G("5"), K("5"), K("3"))
	call("bar", G("5"), K("5"), K("10001"))
	call("bar", G("5"), K("5"), K("-1229782938247303442"))
	call("@range", G("0"), G("9223372036854775807"))
	call("downscale", G("-9223372036854775808"), K("2147483648"))
	raw := func(kind, tpl string, groups []string, keys map[string]string, tags ...string) {
		var g []string
		for _, x := range groups {
			g = append(g, hx(x))
		}
		out = append(out, fixedCase{c08In{Kind: kind, Template: hx(tpl), Text: readable(tpl), Groups: g, Keys: keys, Unicode: true}, tags, false})
	}
	// integer-only operators of {! ..}: a divisor / shift count whose truncation is 0 or negative while the float is not
	raw("math", "{! [0] % [1]}", []string{"7", "0.5"}, nil)
	raw("math", "{! 7 % 0.5}{! 7 % (-0.25)}{! [0] % 0.0000001}", []string{"7"}, nil)
	raw("math", "{! [0] % [1]}{! [0] << [1]}{! [0] >> [1]}", []string{"7", "5e-324"}, nil)
	raw("math", "{! [0] << [1]}{! [0] >> [1]}{! 1 << (-0.5)}{! 1 >> (-1.5)}{! 1 << 64}{! 1 << 1000}", []string{"1", "-1.5"}, nil)
	raw("math", "{! [0] % [1]}{! [0] % (-1)}", []string{"-9223372036854775808", "-1"}, nil)
	// a backslash before a non-ASCII character, an invalid byte, typographic quotes
	for _, t := range []string{"C:\\Donn\u00e9es", "\\\u201c{0}\\\u201d", "{eq \"\\\u65e5\u672c\" {0}}", "a\\\xffb", "\\\u00e9", "{$ \\\u20ac {0}}", "x\\\u2192", "\\\U0001F600{0}"} {
		raw("malformed", t, []string{"v"}, nil)
	}
	raw("malformed", "abc\\", nil, nil)
	raw("malformed", "{", nil, nil)
	raw("malformed", "}{\"", nil, nil)
	raw("nested", "{@map {@ a b} \"{-1}\"}", nil, nil, textTags("{@map {@ a b} \"{-1}\"}")...)
	raw("nested", "{@for 0 {lt {0} {k}} {sumi {0} 1}}", nil, map[string]string{"k": "3"}, textTags("{@for 0 {lt {0} {k}} {sumi {0} 1}}")...)
	// the condition is the truthy marker <BAD-TYPE> for ever and the value grows: <INF> by the output bound
	inf := func(tpl string) {
		out = append(out, fixedCase{c08In{Kind: "nested", Template: hx(tpl), Text: readable(tpl), Unicode: true, Expect: "inf"}, []string{"for:expect-inf"}, false})
	}
	inf("{@for a {lt {0} x} {0}{0}}")
	inf("{@for a {lt {0} x} {0}a}")
	inf("{@for 0 {lt {1} x} {sumi {0} 1}}")
	// a loop whose condition reads the context: the optimiser probes it with every look-up = ""
	raw("nested", "{@for 0 {lt {1} {lim}} {0}a}", nil, map[string]string{"lim": "3"})
	call("@range", G("9223372036854775800"), G("9223372036854775807"), G("10"))
	call("@range", G("0"), G("1000000"))
	call("@range", K("0"), K("1000001"))
	return out
}

func c08Replay(desc json.RawMessage) (Case, error) {
	var d c08Desc
	if err := json.Unmarshal(desc, &d); err != nil {
		return Case{}, err
	}
	in := d.Input
	var tags []string
	if in.Fn != "" && len(in.Args) > 0 || in.Kind == "flat" || in.Kind == "call" || in.Kind == "heavy" {
		if in.Fn != "" {
			n, t, heavy := mkCall("call", in.Fn, in.Args, in.Color, in.Unicode)
			if heavy {
				n.Kind = "heavy"
				n.Compare = false
			}
			in, tags = n, t
		}
	}
	if in.Kind == "accum" {
		tags = append(tags, textAccumTags(in)...)
	}
	if in.Kind == "nested" || in.Kind == "malformed" {
		tags = append(tags, textTags(unhex(in.Template))...)
	}
	c := finish(in, tags, true)
	if theWorker != nil {
		theWorker.stdin.Close()
		theWorker.cmd.Wait()
		theWorker = nil
	}
	return c, nil
}

// the known-finding domains of a template that is not a single flat call, decided from its text:
// a negative group index inside the sub-expression of @map/@filter/@reduce/@for; a key look-up
// inside @for; an @for whose value grows while its condition never turns false
func textTags(t string) []string {
	var tags []string
	sub := strings.Contains(t, "@map") || strings.Contains(t, "@filter") || strings.Contains(t, "@reduce") || strings.Contains(t, "@for")
	if sub && strings.Contains(t, "{-") {
		tags = append(tags, "kf:C08-subctx-negative-index", "nested:negative-index")
	}
	if strings.Contains(t, "@for") {
		for _, k := range []string{"{k}", "{lim}", "{nokey}", "{src}"} {
			if strings.Contains(t, k) {
				tags = append(tags, "kf:C08-for-parent-context", "nested:for-key")
				break
			}
		}
	} else if sub {
		for _, k := range []string{"{k}", "{lim}", "{nokey}", "{src}"} {
			if strings.Contains(t, k) {
				tags = append(tags, "nested:key-in-subcontext")
				break
			}
		}
	}
	return tags
}


var _ = math.MaxInt64

func main() {
	if len(os.Args) >= 2 && os.Args[1] == "worker" {
		workerMain()
		return
	}
	Main(&Prop{
		Name:   "C08",
		Header: "From Coq Require Import List NArith ZArith String.\nFrom RareV Require Import Base.Hex Base.Res Model.Funcs Model.NoCrash Corr.C08Case.\nImport ListNotations.\nOpen Scope string_scope.\n",
		Rule: "one case = one template compiled with funclib.NewKeyBuilderEx(true) and (false) and evaluated twice against a context, in a worker " +
			"process under recover(), a 2 GiB address-space limit and a watchdog; outcome ok/panic/hang. (1) every key of stdlib.StandardFunctions " +
			"x arity 0..5 x values from boundary pools (ints 0, +-1, +-2, MinInt64, MaxInt64, +-2^31, +-2^32; floats 0, -0, 1e308, NaN, +-Inf; strings " +
			"empty, blank, 10 kB, invalid UTF-8, NUL-containing), each argument a template constant (compile-time path) or a match group; for the " +
			"helpers with an oracle-free output model the output string is compared with the model (kind flat); (2) nested sub-expressions with " +
			"negative group indices and key look-ups inside @map/@filter/@reduce/@for and helpers nested in helpers; (3) malformed templates: 1-3 " +
			"mutations (insert/delete/replace by brace, quote, backslash, blank; truncation; trailing backslash; duplicated prefix) of well-formed ones; " +
			"(1b) {! ..} formulas: every key of stdmath ops / uniOps (read from the source) x both operand positions x the float pool (0, -0, 1e308, NaN, +-Inf, non-zero magnitudes below 1 such as 0.5, -0.25, 1e-300, 5e-324, neighbours of +-1 and +-2^63, non-integers 2.5, -1.5, shift counts around 64), operands as constants (folded at compile time) and as group references; " +
			"(1c) arguments parsed as a small language by a library (printf formats of format, layouts / zones / bucket and attribute names of the time helpers, gjson paths, durations, @split delimiters, lookup tables): every truncated or unpaired tail (lone %, %-, %5, %., %[, quotes, brackets, backslashes) after plain prefixes, as a template constant and via a group, plus random strings of each grammar; " +
			"(1d) the accumulator, group and sort contexts of rare reduce (aggregation.AccumulatingGroup through the library API): group numbers 0..5, negative, +-2^31, 2^32, 10^8, MinInt64, MaxInt64 in the -a / -g / --sort expression, alone (value predicted) and inside helpers; " +
			"(1e) concurrent mode: a fixed list of ~47 expressions over every helper family with a forwarder or internal state (time / buckettime in explicit, auto and cache mode, timeformat, timeattr, duration, format, json, lookup / haskey / load tables, the @ binders, repeat / bar / color, hi / hf / bytesize / downscale / percent, {! ..}, scalar helpers), each compiled once and evaluated by 6 goroutines at once, 5000 evaluations each over 512 ordinary value sets, in the sandboxed worker (a runtime fatal error kills the worker and is the outcome of the case); divi / modi with 2..5 operands and a zero in every later position; " +
			"(1f) one bad parameter at a time: ~50 helpers with typed parameters x every accepted arity x every position in turn holding each of 10 bad values (empty, blank, text, float for int, beyond int64, negative, MinInt64, NaN, 0, 1e3) while all other positions hold good values; bad value and the others independently constant or group (both constant-bad modes always, the group-bad modes thinned by the seed in the quick tier); " +
			"(0) the inputs of the recorded findings. Non-trivial: an argument is a boundary value, or the case is nested / malformed. Distinct: by " +
			"(template, groups, keys, colour/unicode switches).",
		Gen:    c08Gen,
		Replay: c08Replay,
		Shard:  400,
	})
}
