package main

// C07: pkg/aggregation — MatchCounter, SubKeyCounter, TableAggregator (+Trim), AccumulatingGroup,
// MatchNumerical — driven through Sample and read back through every public accessor after every
// prefix of a generated history.

import (
	"encoding/hex"
	"encoding/json"
	"fmt"
	"math"
	"math/big"
	"sort"
	"strconv"
	"strings"

	"rare/pkg/aggregation"
	"rare/pkg/aggregation/sorting"
	"rare/pkg/expressions/stdlib"
	. "verifh/lib"
)

// ---------------------------------------------------------------- case description (replay format)
type c07Expr struct {
	Op string   `json:"op"` // lit, match, cur, key, cat, sumi
	S  string   `json:"s_hex,omitempty"`
	N  int      `json:"n,omitempty"`
	A  *c07Expr `json:"a,omitempty"`
	B  *c07Expr `json:"b,omitempty"`
}
type c07Col struct {
	Name    string  `json:"name"`
	Expr    c07Expr `json:"expr"`
	Initial string  `json:"initial"`
}
type c07Pred struct {
	Kind string   `json:"kind"` // cols, rows, vallt, valgt, colval
	Keys []string `json:"keys_hex,omitempty"`
	Z    int64    `json:"z,omitempty"`
}
type c07In struct {
	Kind          string    `json:"kind"` // counter, subkey, table, trim, accum, num, perm
	Hist          []string  `json:"history_hex,omitempty"`
	Hist2         []string  `json:"history2_hex,omitempty"` // perm: the permuted history
	Delim         int       `json:"delim,omitempty"`        // table: a single delimiter byte (older replay files)
	DelimHex      string    `json:"delim_hex,omitempty"`    // table: the delimiter (any length); overrides Delim
	Pred          *c07Pred  `json:"pred,omitempty"`         // trim: samples Hist, Trim(Pred), samples Hist2, optional Trim(Pred2)
	Pred2         *c07Pred  `json:"pred2,omitempty"`
	PermOf        string    `json:"perm_of,omitempty"`
	Groups        []c07Expr `json:"groups,omitempty"`
	Cols          []c07Col  `json:"cols,omitempty"`
	Sort          *c07Expr  `json:"sort,omitempty"`            // accum: SetSort expression (Groups() evaluates it; the order itself is C13's)
	GroupNamesCol bool      `json:"group_names_col,omitempty"` // accum: a group expression names a data column (tag only)
	Keep          bool      `json:"keep,omitempty"`
	Reverse       bool      `json:"reverse,omitempty"`
	Ps            []float64 `json:"ps,omitempty"`
	Samples       []string  `json:"samples,omitempty"` // num: the sample strings
	Family        string    `json:"family,omitempty"`  // num: generator family (tag only)
}

func unhexs(xs []string) []string {
	out := make([]string, len(xs))
	for i, x := range xs {
		b, _ := hex.DecodeString(x)
		out[i] = string(b)
	}
	return out
}
func hexs(xs []string) []string {
	out := make([]string, len(xs))
	for i, x := range xs {
		out[i] = hex.EncodeToString([]byte(x))
	}
	return out
}
func zl(xs []int64) string {
	ps := make([]string, len(xs))
	for i, x := range xs {
		ps[i] = Z(x)
	}
	return CoqList(ps)
}

// ---------------------------------------------------------------- running the implementation
func obsCounter(c *aggregation.MatchCounter) string {
	items := c.Items()
	sort.Slice(items, func(i, j int) bool { return items[i].Name < items[j].Name })
	ps := make([]string, len(items))
	for i, it := range items {
		ps[i] = fmt.Sprintf("(%s,%s)", HS(it.Name), Z(it.Item.Count()))
	}
	return fmt.Sprintf("oc %s %d %s %d", CoqList(ps), c.ParseErrors(), Z(c.Total()), c.GroupCount())
}

func obsSubkey(c *aggregation.SubKeyCounter) string {
	items := c.Items()
	sort.Slice(items, func(i, j int) bool { return items[i].Name < items[j].Name })
	ps := make([]string, len(items))
	for i, it := range items {
		ps[i] = fmt.Sprintf("(%s,%s,%s)", HS(it.Name), Z(it.Item.Count()), zl(it.Item.Items()))
	}
	return fmt.Sprintf("os %s %s %d", HLS(c.SubKeys()), CoqList(ps), c.ParseErrors())
}

func sortedCols(t *aggregation.TableAggregator) []string {
	cols := append([]string(nil), t.Columns()...)
	sort.Strings(cols)
	return cols
}

func obsTable(ctor string, t *aggregation.TableAggregator, probe []string) string {
	cols := sortedCols(t)
	rows := t.Rows()
	sort.Slice(rows, func(i, j int) bool { return rows[i].Name() < rows[j].Name() })
	rs := make([]string, len(rows))
	for i, r := range rows {
		vals := make([]int64, len(probe))
		for j, c := range probe {
			vals[j] = r.Value(c)
		}
		rs[i] = fmt.Sprintf("(%s,%s,%s)", HS(r.Name()), Z(r.Sum()), zl(vals))
	}
	tot := make([]int64, len(probe))
	for j, c := range probe {
		tot[j] = t.ColTotal(c)
	}
	mn, mx := t.ComputeMinMax()
	return fmt.Sprintf("%s %s %s %s %s %s %s %d %d %d", ctor, HLS(cols), CoqList(rs), zl(tot),
		Z(t.Sum()), Z(mn), Z(mx), t.ParseErrors(), t.RowCount(), t.ColumnCount())
}

func (p *c07Pred) fn() func(col, row string, val int64) bool {
	set := map[string]bool{}
	for _, k := range unhexs(p.Keys) {
		set[k] = true
	}
	switch p.Kind {
	case "cols":
		return func(c, r string, v int64) bool { return set[c] }
	case "rows":
		return func(c, r string, v int64) bool { return set[r] }
	case "vallt":
		return func(c, r string, v int64) bool { return v < p.Z }
	case "valgt":
		return func(c, r string, v int64) bool { return v > p.Z }
	default:
		return func(c, r string, v int64) bool { return set[c] && v < p.Z }
	}
}
func (p *c07Pred) coq() string {
	switch p.Kind {
	case "cols":
		return "(pcols " + HLS(unhexs(p.Keys)) + ")"
	case "rows":
		return "(prows " + HLS(unhexs(p.Keys)) + ")"
	case "vallt":
		return "(PValLt " + Z(p.Z) + ")"
	case "valgt":
		return "(PValGt " + Z(p.Z) + ")"
	default:
		return "(pcolval " + HLS(unhexs(p.Keys)) + " " + Z(p.Z) + ")"
	}
}

// template text of an expression, as the real KeyBuilder parses it
func (e *c07Expr) tmpl(top bool) string {
	switch e.Op {
	case "lit":
		b, _ := hex.DecodeString(e.S)
		return string(b)
	case "match":
		return fmt.Sprintf("{%d}", e.N)
	case "cur":
		return "{.}"
	case "key":
		b, _ := hex.DecodeString(e.S)
		return "{" + string(b) + "}"
	case "cat":
		return e.A.tmpl(top) + e.B.tmpl(top)
	default:
		return "{sumi " + e.A.tmpl(false) + " " + e.B.tmpl(false) + "}"
	}
}
func (e *c07Expr) coq() string {
	switch e.Op {
	case "lit":
		return "(eL \"" + e.S + "\")"
	case "match":
		return fmt.Sprintf("(eM %d)", e.N)
	case "cur":
		return "ECur"
	case "key":
		return "(eK \"" + e.S + "\")"
	case "cat":
		return "(ECat " + e.A.coq() + " " + e.B.coq() + ")"
	default:
		return "(ESumi " + e.A.coq() + " " + e.B.coq() + ")"
	}
}

func obsAccum(a *aggregation.AccumulatingGroup) string {
	groups := a.Groups(sorting.ByName)
	gs := make([]string, len(groups))
	for i, g := range groups {
		gs[i] = string(g)
	}
	sort.Strings(gs)
	ps := make([]string, len(gs))
	for i, g := range gs {
		ps[i] = fmt.Sprintf("(%s,%s)", HS(g), HLS(a.Data(aggregation.GroupKey(g))))
	}
	return fmt.Sprintf("oa %s %d", CoqList(ps), a.DataCount())
}

// exact value of a finite float64 as (m, e): m * 2^e
func fpair(f float64) (int64, int) {
	if f == 0 {
		return 0, 0
	}
	fr, ex := math.Frexp(f) // f = fr * 2^ex, 0.5 <= |fr| < 1
	m := int64(fr * (1 << 53))
	e := ex - 53
	for m%2 == 0 {
		m /= 2
		e++
	}
	return m, e
}
func fcoq(f float64) string {
	m, e := fpair(f)
	return fmt.Sprintf("(%s,%s)", Z(m), Z(int64(e)))
}
func finite(f float64) bool { return !math.IsNaN(f) && !math.IsInf(f, 0) }

func obsNum(n *aggregation.MatchNumerical, ps []float64) (s string, ok bool) {
	ok = true
	vals := []float64{n.Mean(), n.Variance(), n.StdDev(), n.Min(), n.Max()}
	an := n.Analyze()
	vals = append(vals, an.Median(), an.Mode())
	parts := make([]string, len(vals))
	for i, v := range vals {
		if !finite(v) {
			ok = false
			v = 0
		}
		parts[i] = fcoq(v)
	}
	qs := make([]string, len(ps))
	for i, p := range ps {
		func() {
			defer func() {
				if e := recover(); e != nil {
					qs[i] = "(false,0,0)"
				}
			}()
			v := an.Quantile(p)
			if !finite(v) {
				ok = false
				v = 0
			}
			m, e := fpair(v)
			qs[i] = fmt.Sprintf("(true,%s,%s)", Z(m), Z(int64(e)))
		}()
	}
	return fmt.Sprintf("on %d %d %s %s", n.Count(), n.ParseErrors(), strings.Join(parts, " "), CoqList(qs)), ok
}

// ---------------------------------------------------------------- harness-side reading of a history (tags only)
type c07Parsed struct {
	a, b string
	inc  int64
	ok   bool
	expl bool
}

func parseN(s string, d string, nkeys int) c07Parsed {
	parts := strings.Split(s, d)
	var p c07Parsed
	p.a = parts[0]
	if nkeys == 2 && len(parts) > 1 {
		p.b = parts[1]
	}
	if len(parts) > nkeys {
		p.expl = true
		v, err := strconv.ParseInt(parts[nkeys], 10, 64)
		p.inc, p.ok = v, err == nil
	} else {
		p.inc, p.ok = 1, true
	}
	return p
}

func histTags(kind string, hist []string, d string) (tags []string, nontrivial bool) {
	nkeys := 2
	if kind == "counter" {
		nkeys = 1
	}
	seen := map[string]bool{}
	seenB := []string{}
	var errs, expl, neg, zero, huge, repeat, reindex, extra, empty int
	cells := map[string]bool{}
	rows := map[string]bool{}
	cols := map[string]bool{}
	for _, s := range hist {
		p := parseN(s, d, nkeys)
		if strings.Count(s, d) > nkeys {
			extra++
		}
		if !p.ok {
			errs++
			continue
		}
		if p.expl {
			expl++
		}
		if p.inc < 0 {
			neg++
		}
		if p.inc == 0 {
			zero++
		}
		if p.inc > 1<<61 || p.inc < -(1<<61) {
			huge++
		}
		if p.a == "" || (nkeys == 2 && p.b == "") {
			empty++
		}
		if seen[p.a] {
			repeat++
		}
		if nkeys == 2 {
			isNew := true
			smaller := false
			for _, x := range seenB {
				if x == p.b {
					isNew = false
				}
				if p.b < x {
					smaller = true
				}
			}
			if isNew {
				if smaller && len(seen) > 0 {
					reindex++
				}
				seenB = append(seenB, p.b)
			}
			cells[p.a+"\x00"+p.b] = true
			cols[p.a] = true
			rows[p.b] = true
		}
		seen[p.a] = true
	}
	add := func(c int, t string) {
		if c > 0 {
			tags = append(tags, t)
		}
	}
	add(errs, "parse-error")
	add(expl, "explicit-increment")
	add(neg, "negative-increment")
	add(zero, "zero-increment")
	add(huge, "huge-increment")
	add(repeat, "key-repeated")
	add(extra, "extra-fields")
	add(empty, "empty-key")
	if kind == "subkey" {
		add(reindex, "reindex(sub-key-sorts-before-existing)")
		nontrivial = reindex > 0
	} else if kind == "counter" {
		nontrivial = repeat > 0 && (expl > 0 || errs > 0)
	} else {
		sparse := len(cells) < len(rows)*len(cols)
		if sparse {
			tags = append(tags, "absent-cells")
		}
		nontrivial = len(rows) >= 2 && len(cols) >= 2 && (sparse || neg > 0)
	}
	switch {
	case len(hist) == 0:
		tags = append(tags, "len=0")
	case len(hist) <= 4:
		tags = append(tags, "len<=4")
	case len(hist) <= 20:
		tags = append(tags, "len<=20")
	default:
		tags = append(tags, "len>20")
	}
	return
}

// ---------------------------------------------------------------- one case
func c07Case(in c07In) Case {
	var coq string
	var outs []string
	tags := []string{"kind=" + in.Kind}
	nontrivial := false
	hist := unhexs(in.Hist)
	d := string([]byte{byte(in.Delim)})
	if in.DelimHex != "" {
		d = unhexs([]string{in.DelimHex})[0]
	}
	var prefix, note string // the Coq term is prefix + the observations collected before any panic
	func() {
		defer func() {
			if e := recover(); e != nil {
				msg := fmt.Sprint(e)
				if strings.HasPrefix(msg, "harness:") {
					panic(e)
				}
				note = "implementation panicked: " + msg
				tags = append(tags, "impl-panic")
			}
		}()
		switch in.Kind {
		case "counter":
			prefix = fmt.Sprintf("kCounter %s", HLS(hist))
			t, nt := histTags("counter", hist, "\x00")
			tags, nontrivial = append(tags, t...), nt
			c := aggregation.NewCounter()
			outs = append(outs, obsCounter(c))
			for _, s := range hist {
				c.Sample(s)
				outs = append(outs, obsCounter(c))
			}
		case "subkey":
			prefix = fmt.Sprintf("kSubkey %s", HLS(hist))
			t, nt := histTags("subkey", hist, "\x00")
			tags, nontrivial = append(tags, t...), nt
			c := aggregation.NewSubKeyCounter()
			outs = append(outs, obsSubkey(c))
			for _, s := range hist {
				c.Sample(s)
				outs = append(outs, obsSubkey(c))
			}
		case "table":
			prefix = fmt.Sprintf("kTable %s %s", HS(d), HLS(hist))
			t, nt := histTags("table", hist, d)
			tags, nontrivial = append(tags, t...), nt
			tags = append(tags, "delim="+hex.EncodeToString([]byte(d)))
			if len(d) > 1 {
				tags = append(tags, "multi-byte-delimiter")
			}
			c := aggregation.NewTable(d)
			outs = append(outs, obsTable("ot", c, sortedCols(c)))
			for _, s := range hist {
				c.Sample(s)
				outs = append(outs, obsTable("ot", c, sortedCols(c)))
			}
		case "trim":
			h2 := unhexs(in.Hist2)
			p2 := "None"
			if in.Pred2 != nil {
				p2 = "(Some " + in.Pred2.coq() + ")"
			}
			prefix = fmt.Sprintf("kTrim %s %s %s %s %s", HS(d), HLS(hist), in.Pred.coq(), HLS(h2), p2)
			if len(d) > 1 {
				tags = append(tags, "multi-byte-delimiter")
			}
			t, nt := histTags("table", append(append([]string(nil), hist...), h2...), d)
			tags = append(tags, t...)
			tags = append(tags, "pred="+in.Pred.Kind)
			if len(h2) > 0 {
				tags = append(tags, "samples-after-trim")
			}
			if in.Pred2 != nil {
				tags = append(tags, "second-trim", "pred2="+in.Pred2.Kind)
			}
			nontrivial = nt
			// probe columns: every column any sample of the whole history mentions
			pset := map[string]bool{}
			for _, s := range append(append([]string(nil), hist...), h2...) {
				if q := parseN(s, d, 2); q.ok {
					pset[q.a] = true
				}
			}
			probe := make([]string, 0, len(pset))
			for k := range pset {
				probe = append(probe, k)
			}
			sort.Strings(probe)
			c := aggregation.NewTable(d)
			for _, s := range hist {
				c.Sample(s)
			}
			outs = append(outs, obsTable("ot", c, probe))
			c.Trim(in.Pred.fn())
			outs = append(outs, obsTable("ot", c, probe))
			for _, s := range h2 {
				c.Sample(s)
				outs = append(outs, obsTable("ot", c, probe))
			}
			if in.Pred2 != nil {
				c.Trim(in.Pred2.fn())
				outs = append(outs, obsTable("ot", c, probe))
			}
		case "accum":
			a := aggregation.NewAccumulatingGroup(stdlib.NewStdKeyBuilder())
			gs := make([]string, len(in.Groups))
			for i := range in.Groups {
				if err := a.AddGroupExpr(fmt.Sprintf("g%d", i), in.Groups[i].tmpl(true)); err != nil {
					panic(fmt.Sprintf("harness: group expression %q does not compile: %v", in.Groups[i].tmpl(true), err))
				}
				gs[i] = in.Groups[i].coq()
			}
			cs := make([]string, len(in.Cols))
			for i := range in.Cols {
				cd := &in.Cols[i]
				if err := a.AddDataExpr(cd.Name, cd.Expr.tmpl(true), cd.Initial); err != nil {
					panic(fmt.Sprintf("harness: data expression %q does not compile: %v", cd.Expr.tmpl(true), err))
				}
				cs[i] = fmt.Sprintf("(%s,%s,%s)", HS(cd.Name), cd.Expr.coq(), HS(cd.Initial))
			}
			prefix = fmt.Sprintf("kAccum %s (adf %s %s) %s", HS(stdlib.ErrorNum), CoqList(gs), CoqList(cs), HLS(hist))
			tags = append(tags, fmt.Sprintf("groups=%d", len(in.Groups)), fmt.Sprintf("cols=%d", len(in.Cols)))
			nontrivial = len(in.Cols) >= 2 && len(hist) >= 3
			if in.Sort != nil {
				if err := a.SetSort(in.Sort.tmpl(true)); err != nil {
					panic(fmt.Sprintf("harness: sort expression %q does not compile: %v", in.Sort.tmpl(true), err))
				}
				tags = append(tags, "sort-expr")
			}
			if in.GroupNamesCol {
				tags = append(tags, "group-expr-names-data-column")
			}
			outs = append(outs, obsAccum(a))
			for _, s := range hist {
				a.Sample(s)
				outs = append(outs, obsAccum(a))
			}
		case "num":
			hs := make([]string, len(in.Samples))
			nerr := 0
			for i, s := range in.Samples {
				f, err := strconv.ParseFloat(s, 64)
				if err != nil {
					hs[i] = "(false,0,0)"
					nerr++
				} else {
					if !finite(f) {
						panic("harness: non-finite sample generated: " + s)
					}
					m, e := fpair(f)
					hs[i] = fmt.Sprintf("(true,%s,%s)", Z(m), Z(int64(e)))
				}
			}
			ps := make([]string, len(in.Ps))
			ge1 := false
			for i, p := range in.Ps {
				ps[i] = fcoq(p)
				if p >= 1 {
					ge1 = true
				}
				if p < 0 {
					tags = append(tags, "quantile-p<0")
				}
			}
			prefix = fmt.Sprintf("kNum %s %s %s %s", B(in.Keep), B(in.Reverse), CoqList(ps), CoqList(hs))
			if nerr > 0 {
				tags = append(tags, "parse-error")
			}
			if in.Family != "" {
				tags = append(tags, "ill-conditioned:"+in.Family)
			}
			if in.Keep {
				tags = append(tags, "keep-values")
			}
			if in.Reverse {
				tags = append(tags, "reverse")
			}
			if ge1 {
				tags = append(tags, "quantile-p>=1")
				if in.Keep && len(in.Samples) > nerr {
					tags = append(tags, "kf:C07-quantile-one")
				}
			}
			nontrivial = len(in.Samples)-nerr >= 3
			n := aggregation.NewNumericalAggregator(&aggregation.NumericalConfig{Reverse: in.Reverse, KeepValuesForAnalysis: in.Keep})
			o, _ := obsNum(n, in.Ps)
			outs = append(outs, o)
			for _, s := range in.Samples {
				n.Sample(s)
				o, ok := obsNum(n, in.Ps)
				if !ok {
					panic("harness: non-finite statistic for finite samples")
				}
				outs = append(outs, o)
			}
		case "perm":
			h2 := unhexs(in.Hist2)
			k := map[string]int{"counter": 0, "subkey": 1}[in.PermOf]
			if in.PermOf != "counter" && in.PermOf != "subkey" {
				k = 2
			}
			prefix = fmt.Sprintf("kPerm %d %s %s", k, HLS(hist), HLS(h2))
			tags = append(tags, "perm-of="+in.PermOf)
			nontrivial = len(hist) >= 3
			switch k {
			case 0:
				a, b := aggregation.NewCounter(), aggregation.NewCounter()
				for _, s := range hist {
					a.Sample(s)
				}
				for _, s := range h2 {
					b.Sample(s)
				}
				outs = []string{obsCounter(a), obsCounter(b)}
			case 1:
				a, b := aggregation.NewSubKeyCounter(), aggregation.NewSubKeyCounter()
				for _, s := range hist {
					a.Sample(s)
				}
				for _, s := range h2 {
					b.Sample(s)
				}
				outs = []string{obsSubkey(a), obsSubkey(b)}
			default:
				a, b := aggregation.NewTable("\x00"), aggregation.NewTable("\x00")
				for _, s := range hist {
					a.Sample(s)
				}
				for _, s := range h2 {
					b.Sample(s)
				}
				outs = []string{obsTable("ot", a, sortedCols(a)), obsTable("ot", b, sortedCols(b))}
			}
		default:
			panic("harness: unknown kind " + in.Kind)
		}
	}()
	coq = prefix + " " + CoqList(outs)
	kb, _ := json.Marshal(in)
	desc := map[string]any{"input": in, "impl": outs}
	if note != "" {
		desc["note"] = note
	}
	return Case{Coq: coq, Desc: desc, Key: string(kb), Nontrivial: nontrivial, Tags: tags}
}

// ---------------------------------------------------------------- generators
var c07Incs = []string{"1", "5", "-3", "0", "+5", " 5", "x", "", "4611686018427387904", "-4611686018427387904",
	"9223372036854775807", "9223372036854775808", "-9223372036854775808", "-9223372036854775809", "007", "1e3", "0x10", "1_000", "12", "-1", "2", "3", "-", "+", "5 "}

func c07Key(r *Rng, alpha int, style int) string {
	switch x := r.Intn(40); {
	case x == 0:
		return ""
	case x == 1: // long random string; may contain NUL (which then starts another field)
		n := r.Range(5, 40)
		b := make([]byte, n)
		for i := range b {
			b[i] = byte(r.Intn(256))
			if r.Chance(1, 30) {
				b[i] = 0
			}
		}
		return string(b)
	}
	k := r.Intn(alpha)
	switch style {
	case 0:
		return string([]byte{byte('a' + k)})
	case 1:
		return fmt.Sprintf("k%d", k)
	case 2: // shared prefixes, different lengths: a, aa, aaa, ab
		return []string{"a", "aa", "aaa", "ab"}[k%4]
	default: // bytes around the sign boundary of a signed comparison
		return []string{"\x7f", "\x80", "\xff", "\x01"}[k%4]
	}
}

// a sample for an aggregator taking nkeys key fields and an optional increment
func c07Sample(r *Rng, nkeys int, d string, alphaA, alphaB, style int) string {
	fields := []string{c07Key(r, alphaA, style)}
	nf := nkeys
	switch x := r.Intn(10); {
	case x < 3: // keys only (nkeys == 2: sometimes the sub-key is missing as well)
		if nkeys == 2 && r.Chance(1, 4) {
			nf = 1
		}
	case x < 9:
		nf = nkeys + 1
	default:
		nf = nkeys + 2 // an extra field after the increment
	}
	for len(fields) < nf {
		if len(fields) < nkeys {
			fields = append(fields, c07Key(r, alphaB, style))
		} else if len(fields) == nkeys {
			if r.Chance(3, 4) {
				fields = append(fields, Pick(r, c07Incs[:6]))
			} else {
				fields = append(fields, Pick(r, c07Incs))
			}
		} else {
			fields = append(fields, Pick(r, []string{"", "z", "9"}))
		}
	}
	if len(d) > 1 {
		// keys containing proper prefixes of the delimiter (its first byte alone, all but its last byte)
		// at the start, in the middle and at the end of a field
		for i := 0; i < len(fields) && i < nkeys; i++ {
			if r.Chance(1, 2) {
				pre := d[:1]
				if r.Chance(1, 2) {
					pre = d[:len(d)-1]
				}
				switch r.Intn(4) {
				case 0:
					fields[i] = pre + fields[i]
				case 1:
					fields[i] = fields[i] + pre
				case 2:
					fields[i] = fields[i] + pre + Pick(r, []string{"x", "30", d[len(d)-1:] + "q"})
				default:
					fields[i] = pre + fields[i] + pre
				}
			}
		}
	}
	return strings.Join(fields, d)
}

// the table's delimiter: NUL (the program's default) half of the time, another single byte, or a
// multi-byte delimiter incl. ones with a repeated first byte
func c07Delim(r *Rng) string {
	switch x := r.Intn(12); {
	case x < 5:
		return "\x00"
	case x < 7:
		return Pick(r, []string{" ", ",", ":", "\xff"})
	default:
		return Pick(r, []string{"::", "->", ", ", "ab", "aa", "aab", ":::", "\x00\x00"})
	}
}

func c07Hist(r *Rng, nkeys int, d string) []string {
	var n int
	switch x := r.Intn(10); {
	case x < 2:
		n = r.Intn(5)
	case x < 8:
		n = r.Range(5, 25)
	default:
		n = r.Range(25, 60)
	}
	alphaA, alphaB, style := r.Range(1, 4), r.Range(1, 4), r.Intn(4)
	h := make([]string, n)
	for i := range h {
		h[i] = c07Sample(r, nkeys, d, alphaA, alphaB, style)
	}
	if nkeys == 2 && r.Chance(1, 2) && n > 3 {
		// make late arrival of a smaller sub-key likely: sort a prefix of the samples by sub-key, descending
		sort.SliceStable(h[:n/2], func(i, j int) bool {
			return parseN(h[i], d, 2).b > parseN(h[j], d, 2).b
		})
	}
	return h
}

func shuffle(r *Rng, h []string) []string {
	out := append([]string(nil), h...)
	for i := len(out) - 1; i > 0; i-- {
		j := r.Intn(i + 1)
		out[i], out[j] = out[j], out[i]
	}
	return out
}

func c07GenPred(r *Rng, hist []string, d string) *c07Pred {
	cols, rows := map[string]bool{}, map[string]bool{}
	for _, s := range hist {
		p := parseN(s, d, 2)
		if p.ok {
			cols[p.a], rows[p.b] = true, true
		}
	}
	pick := func(m map[string]bool) []string {
		ks := make([]string, 0, len(m))
		for k := range m {
			ks = append(ks, k)
		}
		sort.Strings(ks)
		var out []string
		for _, k := range ks {
			if r.Chance(1, 2) {
				out = append(out, k)
			}
		}
		if r.Chance(1, 6) {
			out = append(out, "nosuch")
		}
		return hexs(out)
	}
	zs := []int64{0, 1, 2, 3, 6, -2, 100, -100}
	switch x := r.Intn(10); {
	case x < 4:
		return &c07Pred{Kind: "cols", Keys: pick(cols)}
	case x < 6:
		return &c07Pred{Kind: "rows", Keys: pick(rows)}
	case x < 7:
		return &c07Pred{Kind: "vallt", Z: Pick(r, zs)}
	case x < 8:
		return &c07Pred{Kind: "valgt", Z: Pick(r, zs)}
	default:
		return &c07Pred{Kind: "colval", Keys: pick(cols), Z: Pick(r, zs)}
	}
}

func lit(s string) *c07Expr       { return &c07Expr{Op: "lit", S: hex.EncodeToString([]byte(s))} }
func key(s string) *c07Expr       { return &c07Expr{Op: "key", S: hex.EncodeToString([]byte(s))} }
func mat(n int) *c07Expr          { return &c07Expr{Op: "match", N: n} }
func cur() *c07Expr               { return &c07Expr{Op: "cur"} }
func cat(a, b *c07Expr) *c07Expr  { return &c07Expr{Op: "cat", A: a, B: b} }
func sumi(a, b *c07Expr) *c07Expr { return &c07Expr{Op: "sumi", A: a, B: b} }

func c07GenAccum(r *Rng) c07In {
	names := []string{"a", "b", "sum", "n"}
	ncols := r.Range(1, 3)
	arg := func() *c07Expr {
		switch r.Intn(7) {
		case 0:
			return lit(Pick(r, []string{"1", "-2", "10", "0"}))
		case 1:
			return mat(r.Range(0, 3))
		case 2:
			return key(Pick(r, names))
		case 3:
			return key("nosuch")
		default:
			return mat(r.Range(1, 2))
		}
	}
	var in c07In
	in.Kind = "accum"
	ng := r.Intn(3)
	col := func() string { return names[r.Intn(ncols)] } // the name of a data column that exists
	for i := 0; i < ng; i++ {
		switch r.Intn(11) {
		case 0:
			in.Groups = append(in.Groups, *lit("g"))
		case 1:
			in.Groups = append(in.Groups, *cat(mat(1), lit("-")))
		case 2:
			in.Groups = append(in.Groups, *mat(0))
		case 3:
			in.Groups = append(in.Groups, *key("."))
		case 4:
			in.Groups = append(in.Groups, *key(col())) // a named key equal to a data column: "" while the group key is built
			in.GroupNamesCol = true
		case 5:
			in.Groups = append(in.Groups, *cat(mat(0), cat(lit(":"), key(col()))))
			in.GroupNamesCol = true
		case 6:
			in.Groups = append(in.Groups, *cat(mat(1), cat(key(col()), key("."))))
			in.GroupNamesCol = true
		case 7:
			in.Groups = append(in.Groups, *key("nosuch"))
		case 8:
			in.Groups = append(in.Groups, *sumi(key(col()), lit("1"))) // "" is not an int: the error marker
			in.GroupNamesCol = true
		default:
			in.Groups = append(in.Groups, *mat(r.Range(1, 2)))
		}
	}
	if r.Chance(1, 3) {
		// a sort expression (used by Groups): mentions data columns, {.}, match fields, unknown names
		in.Sort = Pick(r, []*c07Expr{mat(0), key("."), key(col()), key("nosuch"), sumi(key(col()), lit("1")), cat(key(col()), mat(1))})
	}
	for i := 0; i < ncols; i++ {
		var e *c07Expr
		switch r.Intn(9) {
		case 0:
			e = cat(cur(), mat(r.Range(1, 2))) // string append
		case 1:
			e = mat(r.Range(1, 3)) // last value
		case 2:
			e = key(Pick(r, names)) // copy of another column (earlier: new value, later: old value)
		case 3:
			e = sumi(key(Pick(r, names)), arg())
		case 4:
			e = cur()
		case 5:
			e = cat(lit("x"), cat(key(Pick(r, names)), lit(":")))
		case 6:
			e = sumi(sumi(cur(), arg()), arg())
		default:
			e = sumi(cur(), arg())
		}
		in.Cols = append(in.Cols, c07Col{Name: names[i], Expr: *e, Initial: Pick(r, []string{"0", "0", "0", "", "7", "x", "-1"})})
	}
	n := r.Range(0, 18)
	vals := []string{"1", "2", "3", "-4", "10", "x", "", "4611686018427387904", "9223372036854775807", "+1", "a", "b"}
	for i := 0; i < n; i++ {
		nf := r.Range(1, 4)
		fs := make([]string, nf)
		for j := range fs {
			if j == 0 {
				fs[j] = Pick(r, []string{"a", "b", "c", "", "200"})
			} else {
				fs[j] = Pick(r, vals)
			}
		}
		in.Hist = append(in.Hist, hex.EncodeToString([]byte(strings.Join(fs, "\x00"))))
	}
	return in
}

// is int(float64(n)*p) the floor of the exact product for every n in 1..maxn?  (float64 rounding of the
// product is not modelled; such p are not used)
func pExact(p float64, maxn int) bool {
	pr := new(big.Rat).SetFloat64(p)
	for n := 1; n <= maxn; n++ {
		ex := new(big.Rat).Mul(pr, big.NewRat(int64(n), 1))
		fl := new(big.Int).Div(ex.Num(), ex.Denom()) // floor (Euclidean; for negatives trunc differs)
		if ex.Sign() < 0 {
			q := new(big.Int).Quo(ex.Num(), ex.Denom())
			fl = q
		}
		if big.NewInt(int64(float64(n)*p)).Cmp(fl) != 0 {
			return false
		}
	}
	return true
}

func c07GenNum(r *Rng, withOne bool) c07In {
	in := c07In{Kind: "num", Keep: r.Chance(5, 6), Reverse: r.Chance(1, 3)}
	n := r.Range(0, 40)
	if r.Chance(1, 5) {
		n = r.Intn(4)
	}
	style := r.Intn(5)
	if r.Chance(1, 2) {
		style = 5 + r.Intn(5) // magnitude dwarfs the spread (ill-conditioned variance)
	}
	offset := Pick(r, []int64{1000000, 1000000000, 4000000000, 1000000000000, 1700000000000, 1000000000000000})
	neg := r.Chance(1, 4)
	big := func(k int64, frac int) string {
		s := strconv.FormatInt(offset+k, 10)
		if frac >= 0 {
			s += fmt.Sprintf(".%03d", frac)
		}
		if neg {
			s = "-" + s
		}
		return s
	}
	hugeAt := -1
	if n > 0 {
		hugeAt = r.Intn(n)
	}
	tsSpan := Pick(r, []int{4, 1000, 86400000})
	outlier := r.Chance(1, 3)
	for i := 0; i < n; i++ {
		var s string
		switch x := r.Intn(20); {
		case x == 0:
			s = Pick(r, []string{"x", "", "1,5", "--1", "0x", " 1"})
		default:
			switch style {
			case 0: // small integers, many ties
				s = strconv.Itoa(r.Range(-3, 6))
			case 1: // dyadic fractions
				s = strconv.FormatFloat(float64(r.Range(-64, 64))/float64(int(1)<<r.Intn(6)), 'f', -1, 64)
			case 2: // general decimals
				s = fmt.Sprintf("%d.%02d", r.Range(-50, 500), r.Intn(100))
			case 3: // large magnitudes with small spread
				s = strconv.Itoa(1000000 + r.Intn(4))
			case 5: // offset 1e6 .. 1e15 plus small integers
				s = big(int64(r.Intn(6)), -1)
			case 6: // offset plus small dyadic fractions
				s = big(int64(r.Intn(3)), 125*r.Intn(8))
			case 7: // epoch-millisecond style timestamps
				offset = 1700000000000
				s = big(int64(r.Intn(tsSpan)), -1)
			case 8: // one huge value among many small ones
				if i == hugeAt {
					s = big(0, -1)
				} else {
					s = strconv.Itoa(r.Range(-3, 6))
				}
			case 9: // a constant sequence at a huge value (variance exactly 0), sometimes with one outlier
				if i == hugeAt && outlier {
					s = big(1, -1)
				} else {
					s = big(0, 500)
				}
			default:
				s = Pick(r, []string{"0", "1", "1.0", "1e0", "100", "-100", "0.5", "2.5e2", "1e6", "-0.25", "3", "3", "7"})
			}
		}
		in.Samples = append(in.Samples, s)
	}
	if style >= 5 {
		in.Family = []string{"offset+int", "offset+frac", "timestamps", "one-huge", "constant-huge"}[style-5]
	}
	cands := []float64{0, 0.5, 0.25, 0.75, 0.9, 0.99, 0.95, 0.1, 0.999, 1.0 / 64, 63.0 / 64, 0.3, 0.7, 1 - 1.0/1024}
	for i := 0; i < 4; i++ {
		p := Pick(r, cands)
		if pExact(p, n+1) {
			in.Ps = append(in.Ps, p)
		}
	}
	if r.Chance(1, 6) {
		in.Ps = append(in.Ps, Pick(r, []float64{-0.25, -1.0 / 64, -1}))
	}
	if withOne {
		in.Ps = append(in.Ps, Pick(r, []float64{1, 1, 1.5, 2}))
	}
	return in
}

// all histories of length <= L over 2 keys x 2 sub-keys x {absent, "-2", "x"}
func c07Exhaustive(L int) []Case {
	var cases []Case
	var sym1, sym2 []string
	for _, k := range []string{"b", "a"} {
		for _, inc := range []string{"", "\x00-2", "\x00x"} {
			sym1 = append(sym1, k+inc)
			for _, sk := range []string{"y", "x"} {
				sym2 = append(sym2, k+"\x00"+sk+inc)
			}
		}
	}
	enum := func(sym []string, kinds []string) {
		for l := 0; l <= L; l++ {
			total := 1
			for i := 0; i < l; i++ {
				total *= len(sym)
			}
			for code := 0; code < total; code++ {
				h := make([]string, l)
				c := code
				for i := 0; i < l; i++ {
					h[i] = sym[c%len(sym)]
					c /= len(sym)
				}
				for _, k := range kinds {
					cs := c07Case(c07In{Kind: k, Hist: hexs(h)})
					cs.Tags = append(cs.Tags, "exhaustive")
					cases = append(cases, cs)
				}
			}
		}
	}
	enum(sym1, []string{"counter"})
	enum(sym2, []string{"subkey", "table"})
	return cases
}

func c07Gen(r *Rng, n int, tier string) []Case {
	var cases []Case
	if tier == "thorough" {
		cases = append(cases, c07Exhaustive(4)...)
	} else {
		cases = append(cases, c07Exhaustive(2)...)
	}
	base := len(cases)
	for len(cases) < base+n {
		switch x := r.Intn(100); {
		case x < 12:
			cases = append(cases, c07Case(c07In{Kind: "counter", Hist: hexs(c07Hist(r, 1, "\x00"))}))
		case x < 34:
			cases = append(cases, c07Case(c07In{Kind: "subkey", Hist: hexs(c07Hist(r, 2, "\x00"))}))
		case x < 50:
			d := c07Delim(r)
			cases = append(cases, c07Case(c07In{Kind: "table", DelimHex: hex.EncodeToString([]byte(d)), Hist: hexs(c07Hist(r, 2, d))}))
		case x < 64:
			d := c07Delim(r)
			h := c07Hist(r, 2, d)
			in := c07In{Kind: "trim", DelimHex: hex.EncodeToString([]byte(d)), Hist: hexs(h), Pred: c07GenPred(r, h, d)}
			if r.Chance(2, 3) {
				// more samples after the Trim (same alphabets: they re-create trimmed cells, rows and columns)
				k := r.Range(1, 12)
				var h2 []string
				for i := 0; i < k; i++ {
					if len(h) > 0 && r.Chance(2, 3) {
						h2 = append(h2, Pick(r, h))
					} else {
						h2 = append(h2, c07Sample(r, 2, d, 3, 3, r.Intn(4)))
					}
				}
				in.Hist2 = hexs(h2)
				if r.Chance(1, 2) {
					in.Pred2 = c07GenPred(r, append(append([]string(nil), h...), h2...), d)
				}
			}
			cases = append(cases, c07Case(in))
		case x < 74:
			in := c07GenAccum(r)
			cases = append(cases, c07Case(in))
			if len(in.Hist) >= 2 && r.Chance(1, 2) {
				// the same definition over a permutation of the history (the set of groups must not change:
				// C07_accumulator_groups_perm; every prefix is again compared with the fold)
				tw := in
				tw.Hist = hexs(shuffle(r, unhexs(in.Hist)))
				c := c07Case(tw)
				c.Tags = append(c.Tags, "accum-permuted-twin")
				cases = append(cases, c)
			}
		case x < 88:
			cases = append(cases, c07Case(c07GenNum(r, x >= 85)))
		default:
			k := Pick(r, []string{"counter", "subkey", "table"})
			nk := 2
			if k == "counter" {
				nk = 1
			}
			h := c07Hist(r, nk, "\x00")
			cases = append(cases, c07Case(c07In{Kind: "perm", PermOf: k, Hist: hexs(h), Hist2: hexs(shuffle(r, h))}))
		}
	}
	return cases
}

func main() {
	Main(&Prop{
		Name:   "C07",
		Header: "From Coq Require Import List NArith ZArith String.\nFrom RareV Require Import Base.Res Model.Agg Model.Welford Corr.C07Case.\nImport ListNotations.\nOpen Scope Z_scope. Open Scope string_scope.\n",
		Rule: "exhaustive small scope first (all histories of length <= 2 (quick) / 4 (thorough) over 2 keys x 2 sub-keys x increments {absent, -2, non-numeric}, for counter, sub-key counter and table), " +
			"then seeded random cases of 7 kinds: counter / sub-key counter / table histories (length 0..60; keys and sub-keys from alphabets of size 1..4 in four styles incl. shared prefixes and bytes >= 0x80, empty, long random strings; " +
			"increments absent / small / negative / 0 / +5 / ' 5' / non-numeric / empty / +-2^62 / int64 bounds and just beyond; extra fields; table delimiter NUL, another single byte, or a multi-byte delimiter ('::', '->', ', ', 'ab', 'aa', 'aab', ':::', NUL NUL) with keys that contain proper prefixes of the delimiter (its first byte alone, all but its last byte) at the start, middle and end of a field), every public accessor read after every prefix; " +
			"trim (table history, Trim by column set / row set / value threshold / column-and-value, then 0..12 further samples that re-create trimmed cells, optionally a second Trim; every accessor before the first Trim and after every later call, Value/ColTotal probed at every column of the whole history, checked against the table determined by the cells alone), " +
			"accumulating group (0..2 group expressions incl. ones that name an existing data column, {.}, unknown names and sumi over a named key; 1..3 data expressions from {.}, {n}, {name}, literals, concatenation, sumi; optionally a sort expression of the same forms; histories of 0..18 NUL-joined fields; half of them again over a shuffled history), numerical (integers with ties, dyadic fractions, decimals; half of the cases with a magnitude that dwarfs the spread: offsets 1e6/1e9/4e9/1e12/1.7e12/1e15 (also negative) plus small integers or fractions, epoch-millisecond timestamps, one huge value among small ones, constant sequences at a huge value; Variance/StdDev^2 compared with the exact rational sample variance within the relative bound 1e-9 + 8*n*2^-53*kappa that Welford's update meets; " +
			"parse errors; keep-values on/off; reverse; quantiles p whose index computation is exact in float64, some p<0 and p>=1), and permutation pairs (a history and a shuffle of it). " +
			"distinct = distinct input; non-trivial = counter: a repeated key with an explicit increment or parse error; sub-key: a new sub-key sorting before existing ones while rows exist (re-index); table/trim: >=2 rows and >=2 columns with absent cells or negative values; accum: >=2 columns and >=3 samples; num: >=3 parsed samples; perm: >=3 samples.",
		Gen: c07Gen,
		Replay: func(d json.RawMessage) (Case, error) {
			var doc struct {
				Input c07In `json:"input"`
			}
			if err := json.Unmarshal(d, &doc); err != nil {
				return Case{}, err
			}
			return c07Case(doc.Input), nil
		},
		Shard: 40,
	})
}
