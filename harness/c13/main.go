package main

// C13: pkg/aggregation/sorting comparators and Sort/SortBy, cmd/helpers BuildSorter, and the
// Items/Rows/Columns collectors, against coq/Model/Sort.v.
//
// Three kinds of cases over a key set (names with int64 values) and a sort specification:
//   ax   : every ordered pair, a fresh sorter per pair  -> decision matrix (order axioms on all triples)
//   seq  : a sequence of comparisons on ONE sorter       -> decisions (closure state is threaded in the model)
//   sort : Sort/SortBy/collector on many arrangements, fresh sorter each -> sorted sequences
// The oracle values the model needs (strconv.ParseFloat, dateparse.ParseFormat, time.Parse) are
// computed here with the same library calls the code under test makes.

import (
	"encoding/hex"
	"encoding/json"
	"fmt"
	"math"
	"math/big"
	"os"
	"os/exec"
	"sort"
	"strconv"
	"strings"
	"time"
	_ "time/tzdata" // zones for the host-zone child processes even where the host has no zoneinfo

	"rare/cmd/helpers"
	"rare/pkg/aggregation"
	"rare/pkg/aggregation/sorting"
	"rare/pkg/expressions"
	"rare/pkg/expressions/stdlib"
	. "verifh/lib"

	"github.com/araddon/dateparse"
)

type c13Key struct {
	NameHex string `json:"name_hex"`
	Name    string `json:"name,omitempty"` // readable copy (not used on replay)
	Value   int64  `json:"value"`
}
type c13In struct {
	Kind  string   `json:"kind"` // ax | seq | sort | hist | top | table | groups
	Mode  string   `json:"mode"` // raw --sort argument (hex, may be any bytes)
	Keys  []c13Key `json:"keys"`
	Pairs [][2]int `json:"pairs,omitempty"`
	Perms [][]int  `json:"perms,omitempty"`
	Via   string   `json:"via,omitempty"` // Sort | SortBy | counter | subkey | table-rows | table-cols | groups
	Hist  []c13Ev  `json:"history,omitempty"` // kind hist: samples interleaved with reads (rendered frames)
	Big   *c13Big  `json:"big,omitempty"`     // kind top
	// run the implementation in a child process whose local time zone (TZ) is this one; the order
	// must be what it is under UTC (a function of the data alone)
	HostTz string `json:"host_tz,omitempty"`
	// kind groups (rare reduce): Keys[i] is the text Groups orders group i by (oracles), GParts its columns
	GParts   [][]string `json:"group_columns_hex,omitempty"`
	SortKind int        `json:"sort_kind,omitempty"`       // 0: no --sort expression, 1: {sum}, 2: "{1} {0}"
	Hists    [][]c13Ev  `json:"arrival_orders,omitempty"` // the same samples in several orders, reads in between
	// kind table
	NRows   int      `json:"n_rows,omitempty"`
	ColMode string   `json:"col_mode,omitempty"` // hex: the column sorter (spark --sort-cols) the keep-trims use
	ByRows  bool     `json:"by_rows,omitempty"`  // observe OrderedRows (else OrderedColumns) with Mode
	THist   []c13TEv `json:"table_history,omitempty"`
}
// kind top: a large key set (names and values computed from a counter, as coq/Model/Sort.v
// big_items does) handed to an accessor with a row limit, from several arrival orders
type c13Big struct {
	Style    int    `json:"style"`  // 0: "k<i>", 1: the number 37*i mod 10007
	N        int    `json:"groups"` // number of distinct keys
	A        int64  `json:"a"`      // value of key i: (i*a+b) mod m
	B        int64  `json:"b"`
	M        int64  `json:"m"`
	Limit    int    `json:"limit"`
	Reps     int    `json:"arrival_orders"`
	PermSeed uint64 `json:"perm_seed"`
}
// kind table: Keys = row keys followed by column keys (NRows of them are rows)
type c13TEv struct {
	Op   string `json:"op"` // sample | read | keep | val | cols
	Col  int    `json:"col,omitempty"`
	Row  int    `json:"row,omitempty"`
	Inc  int64  `json:"inc,omitempty"`
	N    int    `json:"n,omitempty"`    // keep: number of columns kept (spark --cols)
	Lo   int64  `json:"lo,omitempty"`   // val: trim cells with lo <= value <= hi
	Hi   int64  `json:"hi,omitempty"`
	Cols []int  `json:"cols,omitempty"` // cols: trim these columns
}
type c13Ev struct {
	Key  int   `json:"key"`
	Inc  int64 `json:"inc"`
	Read bool  `json:"read,omitempty"`
}
type c13Out struct {
	Err    bool     `json:"build_error,omitempty"`
	Panic  string   `json:"panic,omitempty"`
	Matrix [][]bool `json:"matrix,omitempty"`
	Seq    []bool   `json:"decisions,omitempty"`
	Outs   [][]int  `json:"sorted,omitempty"`
}

func (k c13Key) name() string { b, _ := hex.DecodeString(k.NameHex); return string(b) }
func mkKey(name string, v int64) c13Key {
	return c13Key{NameHex: hex.EncodeToString([]byte(name)), Name: strconv.QuoteToASCII(name), Value: v}
}
func modeStr(in c13In) string { b, _ := hex.DecodeString(in.Mode); return string(b) }

// ---------------------------------------------------------------- oracles
func safeParseFormat(s string) (layout string, err error, panicked bool) {
	defer func() {
		if e := recover(); e != nil {
			panicked = true
		}
	}()
	layout, err = dateparse.ParseFormat(s)
	return
}

// ParseFloat oracle: class, and for finite values mantissa and exponent (value = mant * 2^exp)
type floatOracle struct {
	term      string // fx | fnan | fpinf | fninf | "" (finite)
	ok        bool
	v         float64
	mant, exp int64
}

func parseFloatOracle(s string) floatOracle {
	v, err := strconv.ParseFloat(s, 64)
	if err != nil {
		return floatOracle{term: "fx"}
	}
	switch {
	case math.IsNaN(v):
		return floatOracle{term: "fnan", ok: true, v: v}
	case math.IsInf(v, 1):
		return floatOracle{term: "fpinf", ok: true, v: v}
	case math.IsInf(v, -1):
		return floatOracle{term: "fninf", ok: true, v: v}
	}
	bits := math.Float64bits(v)
	mant := int64(bits & (1<<52 - 1))
	exp := int64(bits>>52) & 0x7ff
	var e int64
	if exp == 0 {
		e = -1074
	} else {
		mant |= 1 << 52
		e = exp - 1075
	}
	for mant != 0 && mant&1 == 0 { // odd mantissa: keeps the common scale of a case as coarse as possible
		mant >>= 1
		e++
	}
	if mant == 0 {
		e = 0
	}
	if bits>>63 != 0 {
		mant = -mant
	}
	return floatOracle{ok: true, v: v, mant: mant, exp: e}
}

func instant(t time.Time) *big.Int {
	x := big.NewInt(t.Unix())
	x.Mul(x, big.NewInt(1000000000))
	x.Add(x, big.NewInt(int64(t.Nanosecond())))
	return x
}
func bigZ(x *big.Int) string {
	if x.Sign() < 0 {
		return "(" + x.String() + ")"
	}
	return x.String()
}

type keyInfo struct {
	isNum, isNaN, fOK bool
	fv                float64
	fmtErr            bool
	layout            string
	set, pos          int // contextual: set index (-1 none), position
}

// weekday / month names of the harness's own pools (only used to shape key sets and to label
// them in the distribution; the model takes membership from the translator-generated tables)
var c13Canon = [][]string{
	{"sunday", "monday", "tuesday", "wednesday", "thursday", "friday", "saturday"},
	{"january", "february", "march", "april", "may", "june", "july", "august", "september", "october", "november", "december"},
}

func ctxSetPos(name string) (int, int) {
	l := strings.ToLower(name)
	for si, pool := range [][]string{poolWeek, poolMonth} {
		for _, n := range pool {
			if n == l {
				for pos, full := range c13Canon[si] {
					if strings.HasPrefix(full, l) {
						return si, pos
					}
				}
			}
		}
	}
	return -1, 0
}

func c13Oracles(keys []c13Key) (terms []string, infos []keyInfo, layouts []string, instants [][]*big.Int, bad bool) {
	infos = make([]keyInfo, len(keys))
	fterm := make([]string, len(keys))
	fos := make([]floatOracle, len(keys))
	lidx := map[string]int{}
	for i, k := range keys {
		n := k.name()
		fo := parseFloatOracle(n)
		fos[i] = fo
		ok, v := fo.ok, fo.v
		infos[i].fOK, infos[i].fv = ok, v
		infos[i].isNaN = ok && math.IsNaN(v)
		infos[i].isNum = ok && !math.IsNaN(v)
		l, err, p := safeParseFormat(n)
		if p {
			bad = true
		}
		infos[i].fmtErr = err != nil || p
		infos[i].layout = l
		if !infos[i].fmtErr && l != "" {
			if _, ok := lidx[l]; !ok {
				lidx[l] = len(layouts)
				layouts = append(layouts, l)
			}
		}
		infos[i].set, infos[i].pos = ctxSetPos(n)
	}
	// finite values as integer multiples of the case's common scale 2^minExp
	minExp := int64(0)
	first := true
	for _, fo := range fos {
		if fo.term == "" && fo.mant != 0 && (first || fo.exp < minExp) {
			minExp, first = fo.exp, false
		}
	}
	for i, fo := range fos {
		if fo.term != "" {
			fterm[i] = fo.term
			continue
		}
		m := big.NewInt(fo.mant)
		if fo.mant != 0 {
			m.Lsh(m, uint(fo.exp-minExp))
		}
		fterm[i] = fmt.Sprintf("(ff %s 0)", bigZ(m))
	}
	instants = make([][]*big.Int, len(keys))
	for i, k := range keys {
		n := k.name()
		var ds []string
		instants[i] = make([]*big.Int, len(layouts))
		for li, l := range layouts {
			t, err := time.Parse(l, n)
			if err != nil {
				ds = append(ds, "None")
			} else {
				instants[i][li] = instant(t)
				ds = append(ds, "Some "+bigZ(instants[i][li]))
			}
		}
		fm := "e0"
		if !infos[i].fmtErr {
			if infos[i].layout == "" {
				fm = "eE"
			} else {
				fm = fmt.Sprintf("(eL %d)", lidx[infos[i].layout])
			}
		}
		terms = append(terms, fmt.Sprintf("k %s %s %s %s %s", HS(n), fterm[i], fm, CoqList(ds), Z(k.Value)))
	}
	return
}

// ---------------------------------------------------------------- domain of the recorded finding (from the input alone)
// ByDate keeps closure state; it is state-free on key sets where every key has the same layout
// and parses in it ("layout") or no key has a layout at all ("nolayout"); anything else is "mixed".
func dateDomain(infos []keyInfo, layouts []string, instants [][]*big.Int) string {
	if len(infos) == 0 {
		return "nolayout"
	}
	allErr, allOK := true, true
	for _, x := range infos {
		if x.fmtErr {
			allOK = false
		} else {
			allErr = false
		}
	}
	if allErr {
		return "nolayout"
	}
	if !allOK || len(layouts) != 1 {
		return "mixed"
	}
	for i, x := range infos {
		if x.layout != layouts[0] || instants[i][0] == nil {
			return "mixed"
		}
	}
	return "layout"
}

const kfDate = "kf:C13-stateful-date"

// ---------------------------------------------------------------- running the implementation
func c13Run(in c13In) (out c13Out) {
	defer func() {
		if e := recover(); e != nil {
			out = c13Out{Panic: fmt.Sprint(e)}
		}
	}()
	mode := modeStr(in)
	if _, err := helpers.BuildSorter(mode); err != nil {
		return c13Out{Err: true}
	}
	fresh := func() sorting.NameValueSorter { s, _ := helpers.BuildSorter(mode); return s }
	nv := make([]sorting.NameValuePair, len(in.Keys))
	index := map[string]int{}
	for i, k := range in.Keys {
		nv[i] = sorting.NameValuePair{Name: k.name(), Value: k.Value}
		index[k.name()] = i
	}
	switch in.Kind {
	case "ax":
		out.Matrix = make([][]bool, len(nv))
		for i := range nv {
			out.Matrix[i] = make([]bool, len(nv))
			for j := range nv {
				out.Matrix[i][j] = fresh()(nv[i], nv[j])
			}
		}
	case "seq":
		s := fresh()
		out.Seq = []bool{}
		for _, p := range in.Pairs {
			out.Seq = append(out.Seq, s(nv[p[0]], nv[p[1]]))
		}
	case "hist":
		out.Outs = [][]int{c13History(in, fresh(), index)}
	case "sort":
		out.Outs = [][]int{}
		for _, perm := range in.Perms {
			var res []int
			switch in.Via {
			case "SortBy":
				type wrap struct {
					idx int
					p   sorting.NameValuePair
				}
				arr := make([]wrap, len(perm))
				for i, x := range perm {
					arr[i] = wrap{x, nv[x]}
				}
				sorting.SortBy(arr, fresh(), func(w wrap) sorting.NameValuePair { return w.p })
				for _, w := range arr {
					res = append(res, w.idx)
				}
			case "counter": // MatchCounter.Items (Go map order) + ItemsSortedBy
				c := aggregation.NewCounter()
				for _, x := range perm {
					c.SampleValue(nv[x].Name, nv[x].Value)
				}
				for _, it := range c.ItemsSortedBy(len(perm)+1, fresh()) {
					res = append(res, index[it.Name])
				}
			case "table-rows": // TableAggregator.Rows (map order) + OrderedRows; row value = row sum
				t := aggregation.NewTable(" ")
				for _, x := range perm {
					t.SampleItem("c", nv[x].Name, nv[x].Value)
				}
				for _, r := range t.OrderedRows(fresh()) {
					res = append(res, index[r.Name()])
				}
			case "table-cols": // TableAggregator.Columns (map order) + OrderedColumns; column value = column total
				t := aggregation.NewTable(" ")
				for _, x := range perm {
					t.SampleItem(nv[x].Name, "r", nv[x].Value)
				}
				for _, cname := range t.OrderedColumns(fresh()) {
					res = append(res, index[cname])
				}
			default: // sorting.Sort
				arr := make([]sorting.NameValuePair, len(perm))
				for i, x := range perm {
					arr[i] = nv[x]
				}
				sorting.Sort(arr, fresh())
				for _, p := range arr {
					res = append(res, index[p.Name])
				}
			}
			if res == nil {
				res = []int{}
			}
			out.Outs = append(out.Outs, res)
		}
	}
	return
}

// the NameSorter `rare reduce` would hand to AccumulatingGroup.Groups for a sort specification
// (name before ':' and modifier, as cmd/helpers/sorting.go reads them)
func nameSorterFor(mode string) sorting.NameSorter {
	parts := strings.SplitN(mode, ":", 3)
	name := strings.ToLower(parts[0])
	rev := name == "value"
	if len(parts) > 1 {
		switch strings.ToLower(parts[1]) {
		case "rev", "reverse":
			rev = !rev
		case "desc":
			rev = true
		case "asc":
			rev = false
		}
	}
	var s sorting.NameSorter
	switch name {
	case "numeric":
		s = sorting.ByNameSmart
	case "contextual", "context":
		s = sorting.ByContextual()
	case "date":
		s = sorting.ByDateWithContextual()
	default: // text, "", value (all values equal: the name decides)
		s = sorting.ByName
	}
	if rev {
		s = sorting.Reverse(s)
	}
	return s
}

// feeds a collector the history; every Read event calls the sorted accessor (a rendered frame)
// with the one sorter instance the command would keep; returns the final read as key indices
func c13History(in c13In, sorter sorting.NameValueSorter, index map[string]int) []int {
	names := make([]string, len(in.Keys))
	for i, k := range in.Keys {
		names[i] = k.name()
	}
	var sample func(k int, inc int64)
	var read func() []int
	switch in.Via {
	case "subkey":
		c := aggregation.NewSubKeyCounter()
		sample = func(k int, inc int64) { c.SampleValue(names[k], "s"+strconv.Itoa(int(inc&1)), inc) }
		read = func() (res []int) {
			for _, it := range c.ItemsSorted(sorter) {
				res = append(res, index[it.Name])
			}
			return
		}
	case "table-rows":
		t := aggregation.NewTable(" ")
		sample = func(k int, inc int64) { t.SampleItem("c"+strconv.Itoa(int(inc&1)), names[k], inc) }
		read = func() (res []int) {
			for _, r := range t.OrderedRows(sorter) {
				res = append(res, index[r.Name()])
			}
			return
		}
	case "table-cols":
		t := aggregation.NewTable(" ")
		sample = func(k int, inc int64) { t.SampleItem(names[k], "r"+strconv.Itoa(int(inc&1)), inc) }
		read = func() (res []int) {
			for _, cname := range t.OrderedColumns(sorter) {
				res = append(res, index[cname])
			}
			return
		}
	case "groups": // rare reduce --sort {sum}
		g := aggregation.NewAccumulatingGroup(stdlib.NewStdKeyBuilder())
		if err := g.AddGroupExpr("key", "{1}"); err != nil {
			panic(err)
		}
		if err := g.AddDataExpr("sum", "{sumi {.} {2}}", "0"); err != nil {
			panic(err)
		}
		if err := g.SetSort("{sum}"); err != nil {
			panic(err)
		}
		ns := nameSorterFor(modeStr(in))
		sample = func(k int, inc int64) {
			g.Sample(expressions.MakeArray(names[k], strconv.FormatInt(inc, 10)))
		}
		read = func() (res []int) {
			for _, gk := range g.Groups(ns) {
				res = append(res, index[string(gk)])
			}
			return
		}
	default: // counter
		c := aggregation.NewCounter()
		sample = func(k int, inc int64) { c.SampleValue(names[k], inc) }
		read = func() (res []int) {
			for _, it := range c.ItemsSortedBy(len(names)+1, sorter) {
				res = append(res, index[it.Name])
			}
			return
		}
	}
	for _, e := range in.Hist {
		if e.Read {
			read()
		} else {
			sample(e.Key, e.Inc)
		}
	}
	res := read()
	if res == nil {
		res = []int{}
	}
	return res
}

func coqInts(xs []int) string {
	ps := make([]string, len(xs))
	for i, x := range xs {
		ps[i] = strconv.Itoa(x)
	}
	return CoqList(ps)
}
func coqBools(xs []bool) string {
	ps := make([]string, len(xs))
	for i, x := range xs {
		ps[i] = B(x)
	}
	return CoqList(ps)
}

func classOf(x keyInfo, name string) string {
	switch {
	case x.set == 0:
		return "weekday"
	case x.set == 1:
		return "month"
	case x.isNaN:
		return "nan"
	case x.isNum:
		return "number"
	case !x.fmtErr:
		return "date"
	case name == "":
		return "empty"
	}
	return "text"
}

// a TableAggregator over a history of samples, reads (frames) and trims; the final view as key indices
func c13TableRun(in c13In) (out c13Out, present []int) {
	defer func() {
		if e := recover(); e != nil {
			out = c13Out{Panic: fmt.Sprint(e)}
		}
	}()
	mode := modeStr(in)
	cmb, _ := hex.DecodeString(in.ColMode)
	colMode := string(cmb)
	viewSorter, err := helpers.BuildSorter(mode)
	if err != nil {
		return c13Out{Err: true}, nil
	}
	colSorter, err := helpers.BuildSorter(colMode) // one instance for the whole run, as cmd/spark.go keeps it
	if err != nil {
		return c13Out{Err: true}, nil
	}
	rowSorter, _ := helpers.BuildSorter(mode)
	rows := in.Keys[:in.NRows]
	cols := in.Keys[in.NRows:]
	rname := func(i int) string { return rows[i].name() }
	cname := func(i int) string { return cols[i].name() }
	ridx, cidx := map[string]int{}, map[string]int{}
	for i := range rows {
		ridx[rname(i)] = i
	}
	for i := range cols {
		cidx[cname(i)] = i
	}
	t := aggregation.NewTable(" ")
	for _, e := range in.THist {
		switch e.Op {
		case "sample":
			t.SampleItem(cname(e.Col), rname(e.Row), e.Inc)
		case "read":
			t.OrderedRows(rowSorter)
			t.OrderedColumns(colSorter)
		case "keep": // cmd/spark.go
			if keepCols := t.OrderedColumns(colSorter); len(keepCols) > e.N {
				keepCols = keepCols[len(keepCols)-e.N:]
				keepLookup := make(map[string]struct{})
				for _, item := range keepCols {
					keepLookup[item] = struct{}{}
				}
				t.Trim(func(col, row string, val int64) bool {
					_, ok := keepLookup[col]
					return !ok
				})
			}
		case "val":
			lo, hi := e.Lo, e.Hi
			t.Trim(func(col, row string, val int64) bool { return lo <= val && val <= hi })
		case "cols":
			drop := map[string]bool{}
			for _, c := range e.Cols {
				drop[cname(c)] = true
			}
			t.Trim(func(col, row string, val int64) bool { return drop[col] })
		}
	}
	res := []int{}
	if in.ByRows {
		for _, r := range t.OrderedRows(viewSorter) {
			res = append(res, ridx[r.Name()])
		}
	} else {
		for _, c := range t.OrderedColumns(viewSorter) {
			res = append(res, cidx[c])
		}
	}
	present = append([]int{}, res...)
	sort.Ints(present)
	out.Outs = [][]int{res}
	return
}

func c13TableCase(in c13In) Case {
	out, present := c13TableRun(in)
	terms, infos, layouts, instants, _ := c13Oracles(in.Keys)
	mode := modeStr(in)
	cmb, _ := hex.DecodeString(in.ColMode)
	es := make([]string, len(in.THist))
	ntrim := 0
	for i, e := range in.THist {
		switch e.Op {
		case "sample":
			es[i] = fmt.Sprintf("tS %d %d %s", e.Col, e.Row, Z(e.Inc))
		case "read":
			es[i] = "tR"
		case "keep":
			es[i] = fmt.Sprintf("tK %d", e.N)
			ntrim++
		case "val":
			es[i] = fmt.Sprintf("tV %s %s", Z(e.Lo), Z(e.Hi))
			ntrim++
		default:
			es[i] = "tC " + coqInts(e.Cols)
			ntrim++
		}
	}
	cin := fmt.Sprintf("iTab %s %s %s %s %s %s", HS(mode), HS(string(cmb)), B(in.ByRows),
		CoqList(terms[:in.NRows]), CoqList(terms[in.NRows:]), CoqList(es))
	var cout string
	switch {
	case out.Panic != "":
		cout = "oPanic"
	case out.Err:
		cout = "oErr"
	default:
		cout = fmt.Sprintf("oTab %s %s", coqInts(present), coqInts(out.Outs[0]))
	}
	lname := strings.ToLower(mode)
	if i := strings.Index(lname, ":"); i >= 0 {
		lname = lname[:i]
	}
	if lname == "" {
		lname = "text"
	}
	if lname == "context" {
		lname = "contextual"
	}
	view := "via=table-cols+trim"
	viewInfos, vl, vi := infos[in.NRows:], layouts, instants[in.NRows:]
	if in.ByRows {
		view = "via=table-rows+trim"
		viewInfos, vi = infos[:in.NRows], instants[:in.NRows]
	}
	tags := []string{"kind=table", view, fmt.Sprintf("trims=%d", min(ntrim, 4))}
	if out.Err {
		tags = append(tags, "spec=rejected")
	} else {
		tags = append(tags, "mode="+lname)
		if lname == "date" && dateDomain(viewInfos, vl, vi) == "mixed" {
			tags = append(tags, kfDate)
		}
	}
	kb, _ := json.Marshal(in)
	return Case{Coq: "(" + cin + ", " + cout + ")", Desc: map[string]any{"input": in, "impl": out, "impl_present": present}, Key: string(kb),
		Nontrivial: ntrim > 0, Tags: tags}
}

// ---------------------------------------------------------------- host time zone
// Go reads TZ once at start: the harness re-executes itself as a child process with TZ set and the
// child runs the implementation on the case (stdin: the input as JSON; stdout: zone name + output)
type c13HostResp struct {
	Local string `json:"local"`
	Out   c13Out `json:"out"`
}

func c13HostChildMain() {
	var in c13In
	if err := json.NewDecoder(os.Stdin).Decode(&in); err != nil {
		fmt.Fprintln(os.Stderr, err)
		os.Exit(2)
	}
	in.HostTz = ""
	json.NewEncoder(os.Stdout).Encode(c13HostResp{Local: time.Local.String(), Out: c13Run(in)})
}

func c13HostRun(in c13In) c13Out {
	exe, err := os.Executable()
	if err != nil {
		return c13Out{Panic: "host child: " + err.Error()}
	}
	cmd := exec.Command(exe, "c13-host-child")
	for _, e := range os.Environ() {
		if !strings.HasPrefix(e, "TZ=") {
			cmd.Env = append(cmd.Env, e)
		}
	}
	cmd.Env = append(cmd.Env, "TZ="+in.HostTz)
	b, _ := json.Marshal(in)
	cmd.Stdin = strings.NewReader(string(b))
	cmd.Stderr = os.Stderr
	raw, err := cmd.Output()
	if err != nil {
		return c13Out{Panic: "host child: " + err.Error()}
	}
	var resp c13HostResp
	if err := json.Unmarshal(raw, &resp); err != nil {
		return c13Out{Panic: "host child: " + err.Error()}
	}
	if resp.Local != in.HostTz {
		return c13Out{Panic: fmt.Sprintf("host child runs in local zone %q, wanted %q", resp.Local, in.HostTz)}
	}
	return resp.Out
}

// zone-less date keys around the DST changes of the host zones: the skipped spring-forward hour
// (does not exist as local time), the repeated fall-back hour, and the hours next to them
var hostTzDays = map[string][][2]string{ // zone -> (spring-forward day, fall-back day)
	"America/New_York": {{"2022-03-13", "2022-11-06"}, {"2021-03-14", "2021-11-07"}},
	"Europe/Berlin":    {{"2022-03-27", "2022-10-30"}, {"2023-03-26", "2023-10-29"}},
}
var hostTzTimes = []string{"00:30", "01:10", "01:45", "01:59", "02:00", "02:15", "02:30", "02:59", "03:00", "03:10", "03:45", "04:20", "12:00", "23:30"}

func genHostTzNames(r *Rng, zone string, n int) []string {
	days := Pick(r, hostTzDays[zone])
	day := days[0] // the spring-forward day (an hour that does not exist) twice as often as the fall-back day
	if r.Chance(1, 3) {
		day = days[1]
	}
	style := r.Intn(4)
	seen := map[string]bool{}
	var out []string
	for tries := 0; len(out) < n && tries < 60; tries++ {
		t := Pick(r, hostTzTimes)
		d := day
		if r.Chance(1, 8) {
			d = days[r.Intn(2)] // a key of the other change day
		}
		var s string
		switch style {
		case 0:
			s = d + " " + t + ":00"
		case 1:
			s = d + " " + t
		case 2:
			s = d + "T" + t + ":" + fmt.Sprintf("%02d", r.Intn(60))
		default:
			s = d[5:7] + "/" + d[8:10] + "/" + d[0:4] + " " + t + ":00"
		}
		if !seen[s] {
			seen[s] = true
			out = append(out, s)
		}
	}
	return out
}

func groupParts(in c13In, i int) []string {
	ps := make([]string, len(in.GParts[i]))
	for j, h := range in.GParts[i] {
		b, _ := hex.DecodeString(h)
		ps[j] = string(b)
	}
	return ps
}

// the text HEAD's Groups hands to the NameSorter for a group (what coq/Model/Sort.v group_item states)
func groupOrderText(parts []string, kind int) string {
	switch kind {
	case 0:
		return strings.Join(parts, expressions.ArraySeparatorString)
	case 2:
		return parts[1] + " " + parts[0]
	}
	return "" // {sum}: the model takes the decimal total
}

// rare reduce -g {1} -g {2} [-g {3}] -a sum={sumi {.} {n}} [--sort expr] [--sort-reverse]
func c13GroupsRun(in c13In) (out c13Out) {
	defer func() {
		if e := recover(); e != nil {
			out = c13Out{Panic: fmt.Sprint(e)}
		}
	}()
	mode := modeStr(in)
	if _, err := helpers.BuildSorter(mode); err != nil {
		return c13Out{Err: true}
	}
	ncols := len(in.GParts[0])
	index := map[string]int{}
	for i := range in.GParts {
		index[strings.Join(groupParts(in, i), expressions.ArraySeparatorString)] = i
	}
	out.Outs = [][]int{}
	for _, hist := range in.Hists {
		g := aggregation.NewAccumulatingGroup(stdlib.NewStdKeyBuilder())
		for c := 0; c < ncols; c++ {
			if err := g.AddGroupExpr("g"+strconv.Itoa(c), "{"+strconv.Itoa(c+1)+"}"); err != nil {
				panic(err)
			}
		}
		if err := g.AddDataExpr("sum", "{sumi {.} {"+strconv.Itoa(ncols+1)+"}}", "0"); err != nil {
			panic(err)
		}
		switch in.SortKind {
		case 1:
			if err := g.SetSort("{sum}"); err != nil {
				panic(err)
			}
		case 2:
			if err := g.SetSort("{1} {0}"); err != nil {
				panic(err)
			}
		}
		ns := nameSorterFor(mode) // one sorter for all frames of a run, as cmd/reduce.go keeps it
		read := func() []int {
			res := []int{}
			for _, gk := range g.Groups(ns) {
				res = append(res, index[string(gk)])
			}
			return res
		}
		for _, e := range hist {
			if e.Read {
				read()
				continue
			}
			args := append(groupParts(in, e.Key), strconv.FormatInt(e.Inc, 10))
			g.Sample(expressions.MakeArray(args...))
		}
		read() // a repeated read must not matter either
		out.Outs = append(out.Outs, read())
	}
	return
}

func c13GroupsCase(in c13In) Case {
	out := c13GroupsRun(in)
	terms, _, _, _, _ := c13Oracles(in.Keys)
	mode := modeStr(in)
	gs := make([]string, len(in.GParts))
	shared := false
	firsts := map[string]bool{}
	for i := range in.GParts {
		hs := make([]string, len(in.GParts[i]))
		for j, h := range in.GParts[i] {
			hs[j] = "\"" + h + "\""
		}
		gs[i] = fmt.Sprintf("g %s (%s)", CoqList(hs), terms[i])
		if firsts[in.GParts[i][0]] {
			shared = true
		}
		firsts[in.GParts[i][0]] = true
	}
	hs := make([]string, len(in.Hists))
	for i, h := range in.Hists {
		es := make([]string, len(h))
		for j, e := range h {
			if e.Read {
				es[j] = "eR"
			} else {
				es[j] = fmt.Sprintf("eS %d %s", e.Key, Z(e.Inc))
			}
		}
		hs[i] = CoqList(es)
	}
	cin := fmt.Sprintf("iGrp %s %d %s %s", HS(mode), in.SortKind, CoqList(gs), CoqList(hs))
	var cout string
	switch {
	case out.Panic != "":
		cout = "oPanic"
	case out.Err:
		cout = "oErr"
	default:
		rows := make([]string, len(out.Outs))
		for i, r := range out.Outs {
			rows[i] = coqInts(r)
		}
		cout = "oSort " + CoqList(rows)
	}
	lname := strings.ToLower(mode)
	if i := strings.Index(lname, ":"); i >= 0 {
		lname = lname[:i]
	}
	if lname == "" {
		lname = "text"
	}
	if lname == "context" {
		lname = "contextual"
	}
	tags := []string{"kind=groups", "via=groups", "mode=" + lname, fmt.Sprintf("group-columns=%d", len(in.GParts[0])),
		[]string{"sort-expr=none", "sort-expr={sum}", "sort-expr=columns"}[in.SortKind]}
	if strings.Contains(mode, ":") {
		tags = append(tags, "with-modifier")
	}
	if shared {
		tags = append(tags, "shared-first-column")
	}
	if len(in.GParts) > 12 {
		tags = append(tags, "elements>12", fmt.Sprintf("large-permutations=%d", len(in.Hists)))
	}
	kb, _ := json.Marshal(in)
	return Case{Coq: "(" + cin + ", " + cout + ")", Desc: map[string]any{"input": in, "impl": out}, Key: string(kb),
		Nontrivial: len(in.GParts) >= 3 && len(in.GParts[0]) >= 2, Tags: tags}
}

// group columns with shared prefixes: hosts x statuses (x methods), numbers and weekday names among them
var groupColValues = [][]string{
	{"web", "db", "a", "10", "9", "mon", "tue", "Web"},
	{"200", "404", "500", "9", "10", "GET", "x", "fri"},
	{"GET", "POST", "1", "2", "b"},
}

func genGroupsCase(r *Rng) c13In {
	ncols := Pick(r, []int{1, 2, 2, 2, 3, 3})
	kind := Pick(r, []int{0, 0, 0, 1, 2})
	if kind == 2 {
		ncols = 2 // "{1} {0}" names exactly two columns: with a third one groups would tie on the sort key
	}
	name := Pick(r, []string{"contextual", "contextual", "context", "numeric", "text"})
	mod := Pick(r, []string{"", "", ":desc", ":reverse", ":rev", ":asc"}) // reduce: plain or --sort-reverse
	spec := name + mod
	if r.Chance(1, 4) {
		spec = randCase(r, spec)
	}
	in := c13In{Kind: "groups", Mode: hex.EncodeToString([]byte(spec)), SortKind: kind}
	n := r.Range(3, 8)
	reps := 2
	firsts := []string{Pick(r, groupColValues[0]), Pick(r, groupColValues[0]), Pick(r, groupColValues[0])}
	if ncols >= 2 && r.Chance(1, 3) { // many groups: more than the 12 elements Go sorts by insertion
		n = r.Range(13, 38)
		reps = 7
		firsts = groupColValues[0]
	}
	seen := map[string]bool{}
	// few first-column values, so that groups share them
	for tries := 0; len(in.GParts) < n && tries < 200; tries++ {
		parts := []string{Pick(r, firsts)}
		for c := 1; c < ncols; c++ {
			parts = append(parts, Pick(r, groupColValues[c]))
		}
		j := strings.Join(parts, "\x00")
		if seen[j] {
			continue
		}
		seen[j] = true
		hp := make([]string, len(parts))
		for i, p := range parts {
			hp[i] = hex.EncodeToString([]byte(p))
		}
		in.GParts = append(in.GParts, hp)
		in.Keys = append(in.Keys, mkKey(groupOrderText(parts, kind), 0))
	}
	k := len(in.GParts)
	base := genHistory(r, k, kind == 1)
	var samples []c13Ev
	for _, e := range base {
		if !e.Read {
			samples = append(samples, e)
		}
	}
	in.Hists = append(in.Hists, base)
	for rep := 0; rep < reps; rep++ { // the same samples in more arrival orders, reads in between
		perm := randPerm(r, len(samples))
		var h []c13Ev
		for i, x := range perm {
			h = append(h, samples[x])
			if i+1 < len(perm) && r.Chance(1, 3) {
				h = append(h, c13Ev{Read: true})
			}
		}
		in.Hists = append(in.Hists, h)
	}
	return in
}

func bigName(style, i int) string {
	if style == 0 {
		return "k" + strconv.Itoa(i)
	}
	return strconv.Itoa(i * 37 % 10007)
}

func c13TopRun(in c13In) (out c13Out) {
	defer func() {
		if e := recover(); e != nil {
			out = c13Out{Panic: fmt.Sprint(e)}
		}
	}()
	mode := modeStr(in)
	if _, err := helpers.BuildSorter(mode); err != nil {
		return c13Out{Err: true}
	}
	b := in.Big
	names := make([]string, b.N)
	vals := make([]int64, b.N)
	index := make(map[string]int, b.N)
	for i := range names {
		names[i] = bigName(b.Style, i)
		vals[i] = (int64(i)*b.A + b.B) % b.M
		index[names[i]] = i
	}
	pr := NewRng(b.PermSeed)
	out.Outs = [][]int{}
	for rep := 0; rep < b.Reps; rep++ {
		perm := randPerm(pr, b.N)
		sorter, _ := helpers.BuildSorter(mode)
		res := []int{}
		switch in.Via {
		case "subkey":
			c := aggregation.NewSubKeyCounter()
			for _, x := range perm {
				c.SampleValue(names[x], "s", vals[x])
			}
			for _, it := range c.ItemsSorted(sorter) {
				res = append(res, index[it.Name])
			}
		case "table-rows":
			t := aggregation.NewTable(" ")
			for _, x := range perm {
				t.SampleItem("c", names[x], vals[x])
			}
			for _, r := range t.OrderedRows(sorter) {
				res = append(res, index[r.Name()])
			}
		case "table-cols":
			t := aggregation.NewTable(" ")
			for _, x := range perm {
				t.SampleItem(names[x], "r", vals[x])
			}
			for _, cname := range t.OrderedColumns(sorter) {
				res = append(res, index[cname])
			}
		default: // MatchCounter.ItemsSortedBy(limit, sorter): the rows of rare histo -n limit
			c := aggregation.NewCounter()
			for _, x := range perm {
				c.SampleValue(names[x], vals[x])
			}
			for _, it := range c.ItemsSortedBy(b.Limit, sorter) {
				res = append(res, index[it.Name])
			}
		}
		out.Outs = append(out.Outs, res)
	}
	return
}

func c13TopCase(in c13In) Case {
	out := c13TopRun(in)
	b := in.Big
	mode := modeStr(in)
	cin := fmt.Sprintf("iTop %s %d %d %s %s %s %d %d", HS(mode), b.Style, b.N, Z(b.A), Z(b.B), Z(b.M), b.Limit, b.Reps)
	var cout string
	switch {
	case out.Panic != "":
		cout = "oPanic"
	case out.Err:
		cout = "oErr"
	default:
		rows := make([]string, len(out.Outs))
		for i, r := range out.Outs {
			rows[i] = coqInts(r)
		}
		cout = "oSort " + CoqList(rows)
	}
	lname := strings.ToLower(mode)
	if i := strings.Index(lname, ":"); i >= 0 {
		lname = lname[:i]
	}
	if lname == "" {
		lname = "text"
	}
	if lname == "context" {
		lname = "contextual"
	}
	tags := []string{"kind=top", "via=" + in.Via, "mode=" + lname, fmt.Sprintf("groups=%d..", b.N/1000*1000)}
	if b.N < 1000 {
		tags = append(tags, "elements>12", fmt.Sprintf("large-permutations=%d", b.Reps))
	}
	switch {
	case b.Limit >= b.N:
		tags = append(tags, "limit=all")
	case b.Limit >= b.N/4:
		tags = append(tags, "limit>=groups/4")
	case b.Limit == 1:
		tags = append(tags, "limit=1")
	default:
		tags = append(tags, "limit<groups/4")
	}
	if strings.Contains(mode, ":") {
		tags = append(tags, "with-modifier")
	}
	// the impl observable in the description is abbreviated (the case file has all of it)
	short := c13Out{Err: out.Err, Panic: out.Panic}
	for _, o := range out.Outs {
		if len(o) > 12 {
			o = o[:12]
		}
		short.Outs = append(short.Outs, o)
	}
	kb, _ := json.Marshal(in)
	return Case{Coq: "(" + cin + ", " + cout + ")", Desc: map[string]any{"input": in, "impl_first_rows": short}, Key: string(kb),
		Nontrivial: true, Tags: tags}
}

func c13Case(in c13In) Case {
	if in.Kind == "top" {
		return c13TopCase(in)
	}
	if in.Kind == "table" {
		return c13TableCase(in)
	}
	if in.Kind == "groups" {
		return c13GroupsCase(in)
	}
	var out c13Out
	if in.HostTz != "" {
		out = c13HostRun(in)
	} else {
		out = c13Run(in)
	}
	terms, infos, layouts, instants, _ := c13Oracles(in.Keys)
	names := make([]string, len(in.Keys))
	for i, k := range in.Keys {
		names[i] = k.name()
	}
	mode := modeStr(in)
	its := CoqList(terms)
	var cin, cout string
	switch in.Kind {
	case "ax":
		cin = fmt.Sprintf("iAx %s %s", HS(mode), its)
	case "seq":
		ps := make([]string, len(in.Pairs))
		for i, p := range in.Pairs {
			ps[i] = fmt.Sprintf("(%d,%d)", p[0], p[1])
		}
		cin = fmt.Sprintf("iSeq %s %s %s", HS(mode), its, CoqList(ps))
	case "hist":
		es := make([]string, len(in.Hist))
		for i, e := range in.Hist {
			if e.Read {
				es[i] = "eR"
			} else {
				es[i] = fmt.Sprintf("eS %d %s", e.Key, Z(e.Inc))
			}
		}
		cin = fmt.Sprintf("iCol %s %s %s %s", HS(mode), B(in.Via == "groups"), its, CoqList(es))
	default:
		ps := make([]string, len(in.Perms))
		for i, p := range in.Perms {
			ps[i] = coqInts(p)
		}
		cin = fmt.Sprintf("iSort %s %s %s", HS(mode), its, CoqList(ps))
	}
	switch {
	case out.Panic != "":
		cout = "oPanic"
	case out.Err:
		cout = "oErr"
	case in.Kind == "ax":
		rows := make([]string, len(out.Matrix))
		for i, r := range out.Matrix {
			rows[i] = coqBools(r)
		}
		cout = "oAx " + CoqList(rows)
	case in.Kind == "seq":
		cout = "oSeq " + coqBools(out.Seq)
	default:
		rows := make([]string, len(out.Outs))
		for i, r := range out.Outs {
			rows[i] = coqInts(r)
		}
		cout = "oSort " + CoqList(rows)
	}

	// ---- tags
	lname := strings.ToLower(mode)
	if i := strings.Index(lname, ":"); i >= 0 {
		lname = lname[:i]
	}
	tags := []string{"kind=" + in.Kind}
	if in.Kind == "sort" && len(in.Keys) > 12 {
		tags = append(tags, "elements>12", fmt.Sprintf("large-permutations=%d", len(in.Perms)))
	}
	if in.HostTz != "" {
		tags = append(tags, "host-tz:"+in.HostTz)
	}
	if in.Kind == "sort" || in.Kind == "hist" {
		tags = append(tags, "via="+in.Via)
	}
	if in.Kind == "hist" {
		reads := 0
		for _, e := range in.Hist {
			if e.Read {
				reads++
			}
		}
		tags = append(tags, fmt.Sprintf("intermediate-reads=%d", min(reads, 5)))
	}
	if out.Err {
		tags = append(tags, "spec=rejected")
	} else {
		if lname == "" {
			lname = "text"
		}
		if lname == "context" {
			lname = "contextual"
		}
		tags = append(tags, "mode="+lname)
		if strings.Contains(mode, ":") {
			tags = append(tags, "with-modifier")
		}
	}
	classes := map[string]bool{}
	for i, x := range infos {
		classes[classOf(x, names[i])] = true
	}
	var cl []string
	for c := range classes {
		cl = append(cl, c)
	}
	sort.Strings(cl)
	tags = append(tags, "keys="+strings.Join(cl, "+"))
	nontrivial := len(in.Keys) >= 3
	if !out.Err && lname == "date" {
		d := dateDomain(infos, layouts, instants)
		tags = append(tags, "date-domain="+d)
		if d == "mixed" {
			tags = append(tags, kfDate)
		}
	}
	if !out.Err && lname == "date" {
		lo, _ := new(big.Int).SetString("-9223372036854775808", 10)
		hi, _ := new(big.Int).SetString("9223372036854775807", 10)
		far := false
		for i := range infos {
			for _, x := range instants[i] {
				if x != nil && (x.Cmp(lo) < 0 || x.Cmp(hi) > 0) {
					far = true
				}
			}
		}
		if far {
			tags = append(tags, "instant-outside-int64-ns")
		}
	}
	if !out.Err && lname == "date" && len(layouts) == 1 {
		seen := map[string]bool{}
		for i := range infos {
			if instants[i][0] != nil {
				k := instants[i][0].String()
				if seen[k] {
					tags = append(tags, "equal-instants")
					break
				}
				seen[k] = true
			}
		}
	}
	// boundary classes of the repaired comparators
	if !out.Err && (lname == "numeric" || lname == "contextual" || lname == "date") {
		num, other := 0, 0
		for _, x := range infos {
			if x.isNum {
				num++
			} else {
				other++
			}
		}
		if num > 0 && other > 0 {
			tags = append(tags, "numbers+text")
		}
		for i := range infos {
			for j := i + 1; j < len(infos); j++ {
				if infos[i].isNum && infos[j].isNum && infos[i].fv == infos[j].fv {
					tags = append(tags, "equal-values")
					i = len(infos)
					break
				}
			}
		}
	}
	if !out.Err && (lname == "contextual" || lname == "date") {
		sets := map[int]bool{}
		pos := map[[2]int]bool{}
		tie := false
		for _, x := range infos {
			sets[x.set] = true
			if x.set >= 0 {
				if pos[[2]int{x.set, x.pos}] {
					tie = true
				}
				pos[[2]int{x.set, x.pos}] = true
			}
		}
		if len(sets) > 1 {
			tags = append(tags, "calendar-mixture")
		}
		if tie {
			tags = append(tags, "calendar-tie")
		}
	}
	kb, _ := json.Marshal(in)
	return Case{Coq: "(" + cin + ", " + cout + ")", Desc: map[string]any{"input": in, "impl": out}, Key: string(kb),
		Nontrivial: nontrivial, Tags: tags}
}

// ---------------------------------------------------------------- key pools
var poolNumbers = []string{"1", "1.0", "01", "1e0", "+1", "0", "-0", "0.0", "-1", "2", "10", "9", "9.5", "100", "1e2", "1E3",
	"-1e-3", "0.5", ".5", "5.", "0x1p4", "16", "1e-400", "4.9e-324", "1.7976931348623157e308", "9007199254740993",
	"9007199254740992", "123456789012345678901234567890", "-2.5", "3", "20", "007", "1_0"}
var poolSpecial = []string{"nan", "NaN", "inf", "-inf", "+Inf", "Infinity", "-Infinity", "1e400", "-1e400"}
var poolText = []string{"a", "b", "B", "abc", "ab", "", "z", "é", "Z", " 1", "1 ", "5x", "x5", "10x", "1,5", "-", "+", "e",
	".", "na", "n/a", "\xff", "März", "error", "GET", "POST", "/index.html", "10.0.0.1", "10.0.0.12", "1.2.3", "zz top"}
var poolWeek = []string{"sunday", "monday", "tuesday", "wednesday", "thursday", "friday", "saturday",
	"sun", "mon", "tue", "tues", "wed", "thu", "thur", "thurs", "fri", "sat"}
var poolMonth = []string{"january", "jan", "february", "feb", "march", "mar", "april", "apr", "may", "june", "jun", "july", "jul",
	"august", "aug", "september", "sep", "sept", "october", "oct", "november", "nov", "december", "dec"}
var poolNearCal = []string{"sund", "Sun.", "mo", "satur", "marc", "juni", "mär", "FRİ", "frİday", "tuK", "wedn", "octo", "sept.", "thursd"}

// dates: several layouts; within a layout several instants
var poolDates = [][]string{
	{"2022-09-03", "2022-09-02", "2021-09-01", "1999-12-31", "2000-01-01", "2024-02-29", "1970-01-01", "0001-01-01",
		"9999-12-31", "1066-10-14", "1677-09-20", "1677-09-22", "2262-04-11", "2262-04-12", "1492-10-12", "3000-01-01"}, // incl. instants outside the int64-nanosecond range 1677..2262
	{"01/02/2022", "12/31/2021", "03/04/2020", "11/11/2011", "02/29/2024", "10/01/1999"},
	{"2022-09-03T10:00:00Z", "2022-09-03T09:59:59Z", "2021-01-01T00:00:00Z", "2022-09-03T10:00:01Z",
		"9999-12-31T23:59:59Z", "1066-10-14T09:00:00Z", "1677-09-21T00:12:43Z", "1677-09-21T00:12:44Z", "2262-04-11T23:47:16Z", "2262-04-11T23:47:17Z", "0001-01-01T00:00:00Z"},
	{"2022-09-03 10:00:00", "2022-09-03 09:59:59", "2021-01-01 00:00:00", "2022-09-03 23:59:59"},
	{"Jan 2, 2006", "Feb 1, 2006", "Dec 31, 2005", "Mar 15, 2010", "Oct 14, 1066", "Dec 31, 9999", "Jul 4, 1776", "Jan 1, 2300"},
	{"2 Jan 2006", "1 Feb 2006", "31 Dec 2005"},
	{"2022/09/03", "2022/09/02", "2021/12/31", "1066/10/14", "9999/12/31", "1600/01/01", "2400/02/29"},
	{"20220903", "20220902", "20211231"},
	{"2022-09-03T10:00:00+02:00", "2022-09-03T09:00:00+01:00", "2022-09-03T07:30:00-01:00", "2022-09-03T08:00:00+00:00"},
	{"Mon, 02 Jan 2006 15:04:05 MST", "Tue, 03 Jan 2006 15:04:05 MST", "Sun, 01 Jan 2006 15:04:05 MST"},
	{"2022-09", "2021-10", "2022-01"},
	{"1641081600", "1641081601", "1541081600"},
	{"2006", "2021", "1999"},
	{"12 Feb 2006, 19:17", "12 Feb 2006, 19:18", "11 Feb 2006, 23:59"},
	{"2022-09-03 10:00:00.123", "2022-09-03 10:00:00.124", "2022-09-03 10:00:00.023"},
}

var sortNames = []string{"text", "numeric", "contextual", "context", "date", "value", ""}
var goodMods = []string{"", ":asc", ":desc", ":rev", ":reverse"}
var badSpecs = []string{"bogus", "text:foo", "value:", "numeric:ascending", "tex", "text ", " text", "value:des", "datex", ":bogus", "texts:asc",
	"text:asc:zzz", "text:zzz:asc", "text::asc", "VALUE:ASC:", "numerİc", "numerİc:REV", "conteKt", "\xff", "text:\xff", "values"}

func randCase(r *Rng, s string) string {
	switch r.Intn(4) {
	case 0:
		return s
	case 1:
		return strings.ToUpper(s)
	case 2:
		if len(s) > 0 {
			return strings.ToUpper(s[:1]) + s[1:]
		}
		return s
	}
	b := []byte(s)
	for i := range b {
		if r.Bool() && b[i] >= 'a' && b[i] <= 'z' {
			b[i] -= 32
		}
	}
	return string(b)
}

func genSpec(r *Rng) string {
	if r.Chance(1, 14) {
		return Pick(r, badSpecs)
	}
	s := Pick(r, sortNames) + Pick(r, goodMods)
	if r.Chance(1, 3) {
		s = randCase(r, s)
	}
	return s
}

func genSpecFor(r *Rng, name string) string {
	s := name + Pick(r, goodMods)
	if r.Chance(1, 4) {
		s = randCase(r, s)
	}
	return s
}

func randText(r *Rng) string {
	n := r.Range(0, 5)
	alpha := "abcxyzABZ019 .-_/e+"
	b := make([]byte, n)
	for i := range b {
		b[i] = alpha[r.Intn(len(alpha))]
	}
	return string(b)
}
func randNumber(r *Rng) string {
	switch r.Intn(6) {
	case 0:
		return strconv.Itoa(r.Range(-20, 120))
	case 1:
		return strconv.FormatFloat(float64(r.Range(-2000, 2000))/100, 'f', -1, 64)
	case 2:
		return fmt.Sprintf("%de%d", r.Range(-9, 9), r.Range(-3, 3))
	case 3:
		return fmt.Sprintf("0%d", r.Range(0, 30))
	case 4:
		return fmt.Sprintf("%d.0", r.Range(-5, 30))
	}
	return fmt.Sprintf("%d.%d00", r.Range(0, 12), r.Range(0, 9))
}

// a key set of about n distinct names drawn according to a recipe; returns the names
func genNames(r *Rng, recipe string, n int) []string {
	seen := map[string]bool{}
	var out []string
	add := func(s string) {
		if !seen[s] && len(out) < n {
			if _, _, p := safeParseFormat(s); p { // dateparse itself panics on this string: not a usable key
				return
			}
			seen[s] = true
			out = append(out, s)
		}
	}
	calCase := func(s string) string { return randCase(r, s) }
	for tries := 0; len(out) < n && tries < 20*n+20; tries++ {
		switch recipe {
		case "numbers":
			if r.Chance(2, 3) {
				add(Pick(r, poolNumbers))
			} else {
				add(randNumber(r))
			}
		case "near-equal": // unequal numbers a hair apart (1e-6 .. 1e-15), at several scales, in several spellings
			return genNearEqual(r, n)
		case "numbers-distinct": // pairwise distinct values: plain integers and halves
			add(strconv.FormatFloat(float64(r.Range(-40, 400))/2, 'f', -1, 64))
		case "text":
			if r.Chance(2, 3) {
				add(Pick(r, poolText))
			} else {
				add(randText(r))
			}
		case "puretext": // nothing that parses as a float, is in a sort set, or is a date
			s := Pick(r, []string{"a", "b", "B", "abc", "ab", "z", "Z", "x5", "5x", "10x", "GET", "POST", "error", "zz top", "n/a", "-", "é", "/index.html", "q" + randText(r)})
			if _, err := strconv.ParseFloat(s, 64); err != nil {
				if si, _ := ctxSetPos(s); si < 0 {
					if _, err2, _ := safeParseFormat(s); err2 != nil {
						add(s)
					}
				}
			}
		case "num+text":
			switch r.Intn(5) {
			case 0, 1:
				add(Pick(r, poolNumbers))
			case 2:
				add(Pick(r, poolSpecial))
			default:
				add(Pick(r, poolText))
			}
		case "weekdays": // distinct positions
			s := Pick(r, poolWeek)
			_, p := ctxSetPos(s)
			dup := false
			for _, o := range out {
				if _, q := ctxSetPos(o); q == p {
					dup = true
				}
			}
			if !dup {
				add(calCase(s))
			}
		case "months":
			s := Pick(r, poolMonth)
			_, p := ctxSetPos(s)
			dup := false
			for _, o := range out {
				if _, q := ctxSetPos(o); q == p {
					dup = true
				}
			}
			if !dup {
				add(calCase(s))
			}
		case "cal-ties": // one set, several spellings of a position
			if len(out) == 0 || r.Bool() {
				add(calCase(Pick(r, poolWeek)))
			} else {
				add(randCase(r, strings.ToLower(out[r.Intn(len(out))])))
			}
		case "cal-mixed":
			switch r.Intn(6) {
			case 0, 1:
				add(calCase(Pick(r, poolWeek)))
			case 2:
				add(calCase(Pick(r, poolMonth)))
			case 3:
				add(Pick(r, poolNearCal))
			case 4:
				add(Pick(r, poolText))
			default:
				add(Pick(r, poolNumbers))
			}
		case "dates-one-layout":
			if len(out) == 0 {
				out = nil
			}
			// chosen once per call below
			return genDates(r, n, false)
		case "dates-mixed":
			return genDates(r, n, true)
		case "dates-far": // one layout, with years far outside 1677..2262
			return genDatesFrom(r, n, poolDates[Pick(r, []int{0, 2, 4, 6})])
		case "dates-ties": // one layout, several spellings of one instant (time zones)
			return genDatesFrom(r, n, poolDates[8])
		default: // anything
			switch r.Intn(7) {
			case 0:
				add(Pick(r, poolNumbers))
			case 1:
				add(Pick(r, poolSpecial))
			case 2:
				add(Pick(r, poolText))
			case 3:
				add(calCase(Pick(r, poolWeek)))
			case 4:
				add(calCase(Pick(r, poolMonth)))
			case 5:
				add(Pick(r, Pick(r, poolDates)))
			default:
				add(Pick(r, poolNearCal))
			}
		}
	}
	return out
}

var nearEqualFixed = [][]string{
	{"10", "9.9999999999"}, {"100", "99.9999999999"}, {"1e-10", "2e-11"}, {"99.9999999995", "+100.0000000008", "100"},
	{"1", "0.9999999999", "1.0000000001", "+1.00000000005"}, {"1e15", "999999999999999.9", "1000000000000000.1"},
}

func genNearEqual(r *Rng, n int) []string {
	seen := map[string]bool{}
	var out []string
	add := func(s string) {
		if !seen[s] && len(out) < n {
			seen[s] = true
			out = append(out, s)
		}
	}
	if r.Chance(1, 3) {
		for _, s := range Pick(r, nearEqualFixed) {
			add(s)
		}
	}
	base := Pick(r, []float64{1, 10, 100, 1e-10, 1e15, 0, -10, 7})
	for tries := 0; len(out) < n && tries < 80; tries++ {
		delta := Pick(r, []float64{1e-6, 1e-9, 3e-10, 1e-10, 1e-12, 1e-15})
		if base == 1e-10 {
			delta *= 1e-10
		}
		if base == 1e15 {
			delta = Pick(r, []float64{0.125, 0.25, 1, 1e-3})
		}
		v := base + float64(r.Range(-3, 3))*delta
		// decimal text of base + k*delta written out, not the shortest float form: more digits, other spellings
		var s string
		switch r.Intn(6) {
		case 0:
			s = strconv.FormatFloat(v, 'f', -1, 64)
		case 1:
			s = strconv.FormatFloat(v, 'e', -1, 64)
		case 2:
			s = "+" + strconv.FormatFloat(v, 'f', -1, 64)
		case 3:
			s = strconv.FormatFloat(v, 'E', 15, 64)
		case 4:
			s = strconv.FormatFloat(v, 'f', 13, 64)
		default:
			s = strconv.FormatFloat(v, 'f', -1, 64)
			if !strings.Contains(s, ".") {
				s += ".0"
			} else {
				s += "0"
			}
		}
		add(s)
	}
	return out
}

func genDatesFrom(r *Rng, n int, grp []string) []string {
	seen := map[string]bool{}
	var out []string
	for tries := 0; len(out) < n && tries < 40; tries++ {
		s := Pick(r, grp)
		if !seen[s] {
			seen[s] = true
			out = append(out, s)
		}
	}
	return out
}

func genDates(r *Rng, n int, mixed bool) []string {
	seen := map[string]bool{}
	var out []string
	grp := Pick(r, poolDates)
	for tries := 0; len(out) < n && tries < 40; tries++ {
		var s string
		if mixed {
			switch r.Intn(5) {
			case 0, 1:
				s = Pick(r, grp)
			case 2:
				s = Pick(r, Pick(r, poolDates))
			case 3:
				s = Pick(r, []string{"notadate", "n/a", "-", "0000-00-00", "2022-13-45", "mon", "may", "12", "x"})
			default:
				s = Pick(r, poolText)
			}
		} else {
			s = Pick(r, grp)
		}
		if _, _, p := safeParseFormat(s); p {
			continue
		}
		if !seen[s] {
			seen[s] = true
			out = append(out, s)
		}
	}
	return out
}

func genValues(r *Rng, n int) []int64 {
	vs := make([]int64, n)
	style := r.Intn(4)
	for i := range vs {
		switch style {
		case 0: // all distinct
			vs[i] = int64(i*7+3) * int64(1+r.Intn(3))
		case 1: // many ties
			vs[i] = int64(r.Intn(3))
		case 2: // all equal
			vs[i] = 5
		default:
			vs[i] = int64(r.Range(-50, 50))
			if r.Chance(1, 10) {
				vs[i] = math.MaxInt64 - int64(r.Intn(2))
			}
			if r.Chance(1, 10) {
				vs[i] = math.MinInt64 + int64(r.Intn(2))
			}
		}
	}
	return vs
}

func mkKeys(r *Rng, names []string) []c13Key {
	vs := genValues(r, len(names))
	ks := make([]c13Key, len(names))
	for i, n := range names {
		ks[i] = mkKey(n, vs[i])
	}
	return ks
}

func allPerms(n int) [][]int {
	var res [][]int
	p := make([]int, n)
	for i := range p {
		p[i] = i
	}
	var rec func(k int)
	rec = func(k int) {
		if k == n {
			res = append(res, append([]int(nil), p...))
			return
		}
		for i := k; i < n; i++ {
			p[k], p[i] = p[i], p[k]
			rec(k + 1)
			p[k], p[i] = p[i], p[k]
		}
	}
	rec(0)
	return res
}
func randPerm(r *Rng, n int) []int {
	p := make([]int, n)
	for i := range p {
		p[i] = i
	}
	for i := n - 1; i > 0; i-- {
		j := r.Intn(i + 1)
		p[i], p[j] = p[j], p[i]
	}
	return p
}

type recipe struct {
	spec, keys string
}

// (sort name, key recipe): mostly inside the state-free domains, plus the mixtures of the known findings
var recipes = []recipe{
	{"text", "any"}, {"text", "num+text"}, {"", "text"},
	{"numeric", "near-equal"}, {"numeric", "near-equal"}, {"contextual", "near-equal"}, {"date", "near-equal"},
	{"numeric", "numbers-distinct"}, {"numeric", "puretext"}, {"numeric", "numbers"}, {"numeric", "num+text"}, {"numeric", "any"},
	{"contextual", "weekdays"}, {"contextual", "months"}, {"context", "weekdays"}, {"contextual", "puretext"},
	{"contextual", "numbers-distinct"}, {"contextual", "cal-mixed"}, {"contextual", "cal-ties"}, {"contextual", "any"},
	{"date", "dates-one-layout"}, {"date", "dates-one-layout"}, {"date", "dates-mixed"}, {"date", "dates-ties"}, {"date", "dates-far"}, {"date", "weekdays"}, {"date", "months"},
	{"date", "puretext"}, {"date", "any"},
	{"value", "any"}, {"value", "text"}, {"value", "num+text"},
	{"*", "any"}, // any spec incl. malformed
}

func c13Gen(r *Rng, n int, tier string) []Case {
	var cases []Case
	// fixed cases first: the witnesses of the findings and the documented examples
	for _, in := range fixedCases() {
		cases = append(cases, c13Case(in))
	}
	base := len(cases)
	for len(cases) < base+n {
		rc := Pick(r, recipes)
		spec := genSpec(r)
		if rc.spec != "*" {
			spec = genSpecFor(r, rc.spec)
		}
		in := c13In{Mode: hex.EncodeToString([]byte(spec))}
		switch x := r.Intn(20); {
		case x < 5:
			in.Kind = "ax"
			in.Keys = mkKeys(r, genNames(r, rc.keys, r.Range(2, 9)))
		case x < 7:
			in.Kind = "seq"
			in.Keys = mkKeys(r, genNames(r, rc.keys, r.Range(2, 7)))
			k := len(in.Keys)
			if k < 2 {
				continue
			}
			m := r.Range(3, 40)
			for i := 0; i < m; i++ {
				a, b := r.Intn(k), r.Intn(k)
				if a == b { // the property is about distinct keys (and Reverse-as-negation says `true` here)
					continue
				}
				in.Pairs = append(in.Pairs, [2]int{a, b})
				if r.Chance(1, 3) {
					in.Pairs = append(in.Pairs, [2]int{b, a})
				}
				if r.Chance(1, 4) && len(in.Pairs) > 2 { // repeat an earlier question
					in.Pairs = append(in.Pairs, in.Pairs[r.Intn(len(in.Pairs))])
				}
			}
		case x < 9:
			in = genGroupsCase(r)
			if len(in.GParts) < 2 {
				continue
			}
		case x < 11:
			in.Kind = "table"
			// row and column sorts the table commands offer: mostly value, also text / numeric (and the rest)
			viewName := Pick(r, []string{"value", "value", "value", "text", "numeric", rc.spec})
			if viewName == "*" {
				viewName = "value"
			}
			in.Mode = hex.EncodeToString([]byte(genSpecFor(r, viewName)))
			in.ColMode = hex.EncodeToString([]byte(genSpecFor(r, Pick(r, []string{"value", "value", "text", "numeric", "contextual"}))))
			in.ByRows = r.Bool()
			rowNames := genNames(r, Pick(r, []string{"puretext", "numbers-distinct", rc.keys}), r.Range(2, 6))
			colNames := genNames(r, Pick(r, []string{"puretext", "numbers-distinct", "weekdays", "months"}), r.Range(2, 6))
			if len(rowNames) < 2 || len(colNames) < 2 {
				continue
			}
			in.NRows = len(rowNames)
			in.Keys = append(mkKeys(r, rowNames), mkKeys(r, colNames)...)
			in.THist = genTableHistory(r, len(colNames), len(rowNames))
		case x < 14:
			in.Kind = "hist"
			in.Via = Pick(r, []string{"counter", "subkey", "table-rows", "table-cols", "groups", "groups"})
			recipeKeys := rc.keys
			if in.Via == "groups" {
				// rare reduce: groups ordered by a NameSorter on the text of their accumulated sum
				spec = genSpecFor(r, Pick(r, []string{"text", "numeric", "contextual", "context", ""}))
				in.Mode = hex.EncodeToString([]byte(spec))
				recipeKeys = "puretext"
			}
			in.Keys = mkKeys(r, genNames(r, recipeKeys, r.Range(2, 7)))
			if len(in.Keys) < 2 {
				continue
			}
			in.Hist = genHistory(r, len(in.Keys), in.Via == "groups")
		default:
			in.Kind = "sort"
			in.Via = Pick(r, []string{"Sort", "Sort", "SortBy", "counter", "table-rows", "table-cols"})
			var k int
			switch y := r.Intn(10); {
			case y < 6:
				k = r.Range(2, 5)
			case y < 7:
				k = 6
			case y < 8:
				k = r.Range(6, 12)
			default:
				// more than 12 elements: Go's sort leaves insertion sort and partitions around pivots
				k = Pick(r, []int{13, 14, 16, 20, 25, 33, 49, 50, 64, r.Range(13, 49), r.Range(13, 49), r.Range(50, 120)})
				in.Via = Pick(r, []string{"SortBy", "SortBy", "counter", "table-rows", "table-cols", "Sort"})
			}
			in.Keys = mkKeys(r, genNames(r, rc.keys, k))
			k = len(in.Keys)
			if k <= 5 || (k == 6 && r.Chance(1, 3)) {
				in.Perms = allPerms(k)
			} else if k > 12 {
				for i := 0; i < 10; i++ {
					in.Perms = append(in.Perms, randPerm(r, k))
				}
			} else {
				np := 50
				for i := 0; i < np; i++ {
					in.Perms = append(in.Perms, randPerm(r, k))
				}
			}
		}
		cs := c13Case(in)
		if (in.Kind == "hist" || in.Kind == "table") && hasKF(cs.Tags) {
			continue // collectors iterate Go maps: inside the recorded finding's domain the run would not be reproducible
		}
		if in.Kind == "sort" && in.Via != "Sort" && in.Via != "SortBy" && hasKF(cs.Tags) {
			// inside the domain of a recorded finding the collectors' output depends on Go's map
			// iteration order (that IS the finding); keep the run reproducible for a fixed seed by
			// handing such key sets to Sort/SortBy with explicit arrangements only
			in.Via = "SortBy"
			cs = c13Case(in)
		}
		cases = append(cases, cs)
	}
	// --sort date under another host time zone (child process): zone-less keys around DST changes
	nHost := 20
	if tier == "thorough" {
		nHost = 80
	}
	for i := 0; i < nHost; i++ {
		zone := []string{"America/New_York", "Europe/Berlin"}[i%2]
		in := c13In{Mode: hex.EncodeToString([]byte(genSpecFor(r, "date"))), HostTz: zone}
		in.Keys = mkKeys(r, genHostTzNames(r, zone, r.Range(3, 7)))
		k := len(in.Keys)
		if k < 2 {
			continue
		}
		switch r.Intn(5) {
		case 0:
			in.Kind = "ax"
		case 1:
			in.Kind = "seq"
			for j := 0; j < 12; j++ {
				a, b := r.Intn(k), r.Intn(k)
				if a != b {
					in.Pairs = append(in.Pairs, [2]int{a, b}, [2]int{b, a})
				}
			}
		default:
			in.Kind = "sort"
			in.Via = Pick(r, []string{"Sort", "SortBy", "counter", "table-rows"})
			if k <= 5 {
				in.Perms = allPerms(k)
			} else {
				for j := 0; j < 30; j++ {
					in.Perms = append(in.Perms, randPerm(r, k))
				}
			}
		}
		cs := c13Case(in)
		if hasKF(cs.Tags) {
			continue
		}
		cases = append(cases, cs)
	}
	// large key sets, spread over the run (so that they land in different shards)
	big := genBigCases(r, tier)
	for i, bcase := range big {
		at := (i + 1) * len(cases) / (len(big) + 1)
		cases = append(cases[:at], append([]Case{bcase}, cases[at:]...)...)
	}
	return cases
}

// a history over k keys: every key sampled at least once, 5..30 samples with small increments,
// reads (rendered frames) after about a third of the samples and at least one in the middle;
// for `reduce` the final sums are pairwise distinct (equal sort keys are tied by construction)
func genHistory(r *Rng, k int, distinct bool) []c13Ev {
	for {
		var h []c13Ev
		n := r.Range(k+2, max(30, k+12))
		order := randPerm(r, k)
		totals := make([]int64, k)
		reads := 0
		for i := 0; i < n; i++ {
			key := r.Intn(k)
			if i < k {
				key = order[i]
			}
			inc := int64(r.Range(-5, 20))
			if r.Chance(1, 6) {
				inc = int64(r.Range(20, 400))
			}
			h = append(h, c13Ev{Key: key, Inc: inc})
			totals[key] += inc
			if i+1 < n && (r.Chance(1, 3) || (reads == 0 && i >= n/2)) {
				h = append(h, c13Ev{Read: true})
				reads++
			}
		}
		if distinct { // make the final sums pairwise distinct with one more sample where two coincide
			seen := map[int64]bool{}
			for key, t := range totals {
				inc := int64(0)
				for seen[t+inc] {
					inc++
				}
				if inc != 0 {
					h = append(h, c13Ev{Key: key, Inc: inc})
					totals[key] += inc
				}
				seen[totals[key]] = true
			}
		}
		return h
	}
}

// large key sets (2,000-6,000 keys, many equal values) with a row limit: every limit class on
// MatchCounter.ItemsSortedBy plus the accessors without a limit at full length
func genBigCases(r *Rng, tier string) []Case {
	var cases []Case
	type bc struct {
		via   string
		limit int // 0: all; -1: groups/4-1; -2: groups/4; otherwise the number
	}
	plan := []bc{{"counter", 1}, {"counter", 2}, {"counter", 5}, {"counter", 50}, {"counter", -1}, {"counter", -2}, {"counter", 0},
		{"subkey", 0}, {"table-rows", 0}}
	if tier == "thorough" {
		plan = append(plan, plan...)
		plan = append(plan, bc{"table-cols", 0}, bc{"counter", 5}, bc{"counter", 2})
	}
	// 13..200 keys, whole view, 8 arrival orders (limit code -3)
	mid := []bc{{"counter", -3}, {"counter", -3}, {"subkey", -3}, {"subkey", -3}, {"table-rows", -3}, {"table-rows", -3},
		{"table-cols", -3}, {"table-cols", -3}, {"counter", -3}, {"table-rows", -3}}
	if tier == "thorough" {
		mid = append(mid, mid...)
		mid = append(mid, mid...)
	}
	plan = append(plan, mid...)
	for _, p := range plan {
		b := &c13Big{Style: r.Intn(3) / 2, N: r.Range(2050, 6000), A: int64(r.Range(1, 9999)), B: int64(r.Intn(50)),
			M: int64(Pick(r, []int{3, 7, 17, 50, 1000, 100003})), Reps: 3, PermSeed: r.U64()}
		switch p.limit {
		case -3:
			b.N = Pick(r, []int{13, 17, 24, 31, 49, r.Range(13, 49), r.Range(50, 200), 200})
			b.Limit = b.N
			b.Reps = 8
		case 0:
			b.Limit = b.N
			b.Reps = 2
			if b.N > 3500 {
				b.N = r.Range(2050, 3500) // the whole sorted view is written into the case file
				b.Limit = b.N
			}
		case -1:
			b.Limit = b.N/4 - 1
		case -2:
			b.Limit = b.N / 4
		default:
			b.Limit = p.limit
		}
		name := Pick(r, []string{"value", "value", "text", "numeric", "contextual", "date", ""})
		if name == "date" && b.Style != 0 {
			name = "numeric" // digit strings can be dates; the model's large keys carry no date oracle
		}
		if name == "date" {
			for i := 0; i < b.N; i++ {
				if _, err, p := safeParseFormat(bigName(0, i)); err == nil || p {
					name = "text"
					break
				}
			}
		}
		spec := genSpecFor(r, name)
		cases = append(cases, c13TopCase(c13In{Kind: "top", Mode: hex.EncodeToString([]byte(spec)), Via: p.via, Big: b}))
	}
	return cases
}

// a table history: cells sampled with small increments, frames read, and trims as the commands do
// them (spark keeps the last n columns every frame; value and column-set predicates), with more
// samples after a trim so that trimmed rows and columns can come back
func genTableHistory(r *Rng, ncols, nrows int) []c13TEv {
	var h []c13TEv
	n := r.Range(6, 36)
	keep := r.Range(1, ncols)
	style := r.Intn(4) // 0: spark (keep every frame), 1: value trims, 2: column sets, 3: mixture
	for i := 0; i < n; i++ {
		inc := int64(r.Range(-3, 12))
		if r.Chance(1, 8) {
			inc = int64(r.Range(12, 200))
		}
		h = append(h, c13TEv{Op: "sample", Col: r.Intn(ncols), Row: r.Intn(nrows), Inc: inc})
		if !r.Chance(1, 3) {
			continue
		}
		k := style
		if k == 3 {
			k = r.Intn(3)
		}
		switch k {
		case 0:
			h = append(h, c13TEv{Op: "keep", N: keep}, c13TEv{Op: "read"})
		case 1:
			lo := int64(r.Range(-3, 6))
			h = append(h, c13TEv{Op: "read"}, c13TEv{Op: "val", Lo: lo, Hi: lo + int64(r.Range(0, 8))})
		default:
			var cs []int
			for c := 0; c < ncols; c++ {
				if r.Chance(1, 3) {
					cs = append(cs, c)
				}
			}
			if cs == nil {
				cs = []int{}
			}
			h = append(h, c13TEv{Op: "cols", Cols: cs}, c13TEv{Op: "read"})
		}
	}
	if r.Chance(1, 2) { // a trim right before the final view
		h = append(h, c13TEv{Op: "keep", N: keep})
	}
	return h
}

func hasKF(tags []string) bool {
	for _, t := range tags {
		if strings.HasPrefix(t, "kf:") {
			return true
		}
	}
	return false
}

func fixedCases() []c13In {
	mk := func(kind, mode, via string, names ...string) c13In {
		ks := make([]c13Key, len(names))
		for i, n := range names {
			ks[i] = mkKey(n, int64(len(names)-i))
		}
		in := c13In{Kind: kind, Mode: hex.EncodeToString([]byte(mode)), Keys: ks, Via: via}
		if kind == "sort" {
			in.Perms = allPerms(len(names))
		}
		return in
	}
	return []c13In{
		mk("ax", "numeric", "", "9", "10", "5x"),                                  // C13-bynamesmart: cycle (fixed)
		mk("sort", "numeric", "Sort", "9", "10", "5x"),                            //
		mk("sort", "numeric", "Sort", "1", "1.0", "01", "1e0"),                    // C13-bynamesmart: ties (fixed)
		mk("ax", "numeric", "", "nan", "1", "2", "NaN"),                           // C13-bynamesmart: NaN (fixed)
		mk("sort", "contextual", "Sort", "b", "wed", "thu"),                       // C13-stateful-comparators witness (fixed)
		mk("sort", "date", "Sort", "n/a", "01/02/2022", "12/31/2021"),             // C13-stateful-date witness (recorded)
		mk("sort", "contextual", "Sort", "mon", "Monday", "MON", "tue"),           // C13-contextual-ties (fixed)
		mk("sort", "contextual", "Sort", "wed", "tues", "mon", "thurs"),           // repo test
		mk("sort", "contextual", "Sort", "wed", "abc", "00"),                      // repo test (fallback)
		mk("sort", "date", "Sort", "2022-09-03", "2022-09-02", "2021-09-01"),      // repo test
		mk("sort", "numeric", "Sort", "b", "c", "a", "q"),                         // repo test
		mk("sort", "value", "counter", "a", "b", "c", "d"),                        //
		mk("sort", "text:desc", "table-rows", "a", "b", "c", "d"),                 //
		mk("ax", "contextual", "", "Jan", "FEB", "march", "Apr", "may", "JUNE", "jul", "aug", "sept", "oct", "nov", "dec"),
		mk("ax", "contextual", "", "sat", "fri", "thu", "wed", "tue", "mon", "sun"),
		mk("sort", "numeric", "Sort", "99.9999999995", "+100.0000000008", "100"), // near-equal values: exact comparison, no tolerance
		mk("ax", "numeric", "", "10", "9.9999999999", "100", "99.9999999999", "1e-10", "2e-11"),
		mk("sort", "contextual:desc", "SortBy", "10", "9.9999999999", "1e-10", "2e-11"),
		hostTz("America/New_York", mk("sort", "date", "Sort", "2022-03-13 01:45:00", "2022-03-13 02:15:00", "2022-03-13 02:30:00", "2022-03-13 03:10:00")),
		hostTz("Europe/Berlin", mk("sort", "date:desc", "SortBy", "2022-03-27 01:45", "2022-03-27 02:15", "2022-03-27 02:30", "2022-03-27 03:10", "2022-10-30 02:30")),
		mkGroups("contextual:desc", 0, [][]string{{"web", "200"}, {"web", "404"}, {"web", "500"}, {"db", "200"}, {"db", "500"}}),
		mkGroups("contextual", 0, [][]string{{"web", "200"}, {"web", "404"}, {"web", "500"}, {"db", "200"}, {"db", "500"}}),
		mkGroups("contextual:desc", 2, [][]string{{"10", "9"}, {"10", "10"}, {"9", "10"}, {"9", "9"}}),
		mkTable("value", "text", true, []string{"a", "b", "c"}, []string{"x", "y"},
			[]c13TEv{{Op: "sample", Col: 0, Row: 0, Inc: 20}, {Op: "sample", Col: 1, Row: 0, Inc: 3}, {Op: "sample", Col: 1, Row: 1, Inc: 10},
				{Op: "sample", Col: 1, Row: 2, Inc: 5}, {Op: "read"}, {Op: "cols", Cols: []int{0}}, {Op: "read"}}),
		mkTable("value", "value", false, []string{"a", "b"}, []string{"x", "y", "z"},
			[]c13TEv{{Op: "sample", Col: 0, Row: 0, Inc: 9}, {Op: "sample", Col: 0, Row: 1, Inc: 1}, {Op: "sample", Col: 1, Row: 1, Inc: 5},
				{Op: "sample", Col: 2, Row: 0, Inc: 2}, {Op: "val", Lo: 5, Hi: 100}, {Op: "sample", Col: 2, Row: 1, Inc: 1}, {Op: "keep", N: 2}}),
		mkHist("numeric", "groups", []string{"a", "b", "c"}, [][2]int64{{0, 5}, {1, 3}, {2, 1}, {-1, 0}, {2, 9}, {1, 4}}),
		mkHist("numeric:desc", "groups", []string{"a", "b", "c"}, [][2]int64{{0, 5}, {-1, 0}, {1, 3}, {-1, 0}, {2, 1}, {-1, 0}, {2, 9}, {-1, 0}, {1, 4}}),
		mkHist("value", "counter", []string{"a", "b", "c"}, [][2]int64{{0, 5}, {1, 3}, {2, 1}, {-1, 0}, {2, 9}, {1, 4}}),
		mkHist("value:asc", "table-rows", []string{"a", "b", "c"}, [][2]int64{{0, 5}, {1, 3}, {2, 1}, {-1, 0}, {2, 9}, {1, 4}}),
		mkHist("value", "table-cols", []string{"a", "b", "c"}, [][2]int64{{0, 5}, {1, 3}, {2, 1}, {-1, 0}, {2, 9}, {1, 4}}),
		mkHist("value", "subkey", []string{"a", "b", "c"}, [][2]int64{{0, 5}, {1, 3}, {2, 1}, {-1, 0}, {2, 9}, {1, 4}}),
	}
}

func hostTz(zone string, in c13In) c13In { in.HostTz = zone; return in }

func mkGroups(mode string, kind int, groups [][]string) c13In {
	in := c13In{Kind: "groups", Mode: hex.EncodeToString([]byte(mode)), SortKind: kind}
	var h1, h2 []c13Ev
	for i, parts := range groups {
		hp := make([]string, len(parts))
		for j, p := range parts {
			hp[j] = hex.EncodeToString([]byte(p))
		}
		in.GParts = append(in.GParts, hp)
		in.Keys = append(in.Keys, mkKey(groupOrderText(parts, kind), 0))
		h1 = append(h1, c13Ev{Key: i, Inc: int64(i + 1)}, c13Ev{Read: true})
		h2 = append([]c13Ev{{Key: i, Inc: int64(i + 1)}}, h2...)
	}
	in.Hists = [][]c13Ev{h1, h2}
	return in
}

func mkTable(mode, colMode string, byRows bool, rows, cols []string, h []c13TEv) c13In {
	var ks []c13Key
	for _, n := range rows {
		ks = append(ks, mkKey(n, 0))
	}
	for _, n := range cols {
		ks = append(ks, mkKey(n, 0))
	}
	return c13In{Kind: "table", Mode: hex.EncodeToString([]byte(mode)), ColMode: hex.EncodeToString([]byte(colMode)),
		ByRows: byRows, NRows: len(rows), Keys: ks, THist: h}
}

// history given as (key index, increment) pairs; key index -1 is an intermediate read
func mkHist(mode, via string, names []string, evs [][2]int64) c13In {
	ks := make([]c13Key, len(names))
	for i, n := range names {
		ks[i] = mkKey(n, 0)
	}
	in := c13In{Kind: "hist", Mode: hex.EncodeToString([]byte(mode)), Keys: ks, Via: via}
	for _, e := range evs {
		if e[0] < 0 {
			in.Hist = append(in.Hist, c13Ev{Read: true})
		} else {
			in.Hist = append(in.Hist, c13Ev{Key: int(e[0]), Inc: e[1]})
		}
	}
	return in
}

func main() {
	if len(os.Args) > 1 && os.Args[1] == "c13-host-child" {
		c13HostChildMain()
		return
	}
	Main(&Prop{
		Name:   "C13",
		Header: "From Coq Require Import List ZArith String.\nFrom RareV Require Import Corr.C13Case.\nImport ListNotations.\nOpen Scope Z_scope. Open Scope string_scope.\n",
		Rule: "fixed witnesses (repo tests, inputs of the findings) followed by seeded random cases: a (sort name, key recipe) pair, modifiers ''/:asc/:desc/:rev/:reverse in random letter case, 1 in 27 any specification incl. malformed ones; " +
			"key recipes: numbers in several spellings (1, 1.0, 01, 1e0, -0, hex float, subnormal, > 2^53, out of range), nan/inf, text, number-like text (5x, 1,5), weekday/month names and abbreviations in random case, near-misses (sund, FR\\u0130), dates in 15 layouts incl. years 0001..9999 (instants outside the int64-nanosecond range), mixtures; values: distinct / many ties / all equal / int64 extremes. " +
			"kinds: ax = every ordered pair on a fresh BuildSorter instance (decision matrix, compared off the diagonal; axioms on all triples in Coq); seq = 3..40 comparisons of distinct keys incl. swapped and repeated pairs on one instance; " +
			"hist = a collector (MatchCounter.ItemsSortedBy, SubKeyCounter.ItemsSorted, TableAggregator.OrderedRows/OrderedColumns, AccumulatingGroup.Groups with SetSort({sum}) as in rare reduce) fed 5..30 samples interleaved with reads of the sorted view (rendered frames) on one sorter instance; the final read is compared with the model's function of the final totals alone; " +
			"host-tz = 20 cases per run of --sort date (ax / seq / sort) on zone-less date keys inside and around the skipped and the repeated DST hour of America/New_York and Europe/Berlin, with the implementation run in a child process of the harness whose TZ is that zone (time/tzdata embedded): the order must be the model's, i.e. the same as under UTC; " +
			"near-equal = numeric key families 1e-6..1e-15 apart around 1, 10, 100, 1e-10, 1e15, 0, -10 in several spellings (+x, x.0, exponent forms, fixed digits), compared exactly by the model; " +
			"groups = rare reduce at the library level: an AccumulatingGroup with 1..3 group columns (values from small sets, so that groups share their first column; numbers and weekday names among them), no --sort expression / --sort {sum} / --sort \"{1} {0}\", plain or reversed text / numeric / contextual NameSorter, the same samples in 3 arrival orders with reads in between and a repeated final read; " +
			"table = a TableAggregator with 2..6 rows and columns fed 6..36 cell samples interleaved with frames (OrderedRows + OrderedColumns on persistent sorters) and Trim calls as the commands make them (spark: keep the last n columns in the column sorter's order, every frame; value predicates lo <= val <= hi; column sets), more samples after trims; the final OrderedRows or OrderedColumns (mostly value, also text / numeric / the rest, any modifier) and the set of rows / columns left are compared with the model's function of the final cells alone; " +
			"top = 9 cases per run with 2,050..6,000 keys built from a counter (text k<i> or numbers 37*i mod 10007) and values (i*a+b) mod m (many ties), 2-3 arrival orders each: MatchCounter.ItemsSortedBy with limits 1, 2, 5, 50, groups/4-1, groups/4, groups, and SubKeyCounter.ItemsSorted / TableAggregator.OrderedRows at full length, any sort mode and modifier; the model answers firstn limit of its full (merge) sort and the boolean form checks the rows in a linear pass; " +
			"large sorts (more than the 12 elements Go sorts by insertion): 1 in 5 sort cases has 13..120 keys from the recipes with 10 random arrangements, 10 top cases per run have 13..200 generated keys (values with many ties) with 8 arrival orders through counter / subkey counter / table rows / table columns, and 1 in 3 multi-column groups cases has 13..38 groups with 8 arrival orders; " +
			"sort = sorting.Sort / SortBy / MatchCounter.ItemsSortedBy / TableAggregator.OrderedRows / OrderedColumns on every arrangement (<= 5 keys, sometimes 6) or 50 random arrangements (6..12 keys), fresh sorter each. " +
			"distinct = distinct (kind, specification, keys with values, pairs/arrangements, path); non-trivial = at least 3 keys. --sort date cases whose key set is neither inside one layout nor without any layout lie in the domain of the recorded finding C13-stateful-date: they carry its kf: tag (decided from specification and keys alone) and go through Sort/SortBy only (the collectors' map order would make the run irreproducible there). Distribution tags numbers+text, equal-values, calendar-mixture, calendar-tie, equal-instants mark the key sets the repaired comparators are about.",
		Gen: c13Gen,
		Replay: func(d json.RawMessage) (Case, error) {
			var doc struct {
				Input c13In `json:"input"`
			}
			if err := json.Unmarshal(d, &doc); err != nil {
				return Case{}, err
			}
			return c13Case(doc.Input), nil
		},
		Shard: 40,
	})
}
