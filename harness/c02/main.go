package main

// C02: each match carries its true source, line number, text and capture groups.

import (
	"encoding/json"

	. "verifh/lib"
	"verifh/pipe"
)

func main() {
	Main(&Prop{
		Name:   "C02",
		Header: pipe.Header + "Definition mm := mm02.\n",
		Rule: "seeded random pipeline runs of the real batchers + extractor with regex matchers (optional, nested, alternated, repeated and named groups; Go's regexp package run independently is the oracle for group positions) and the always-matcher; extract expression reads {src} {line} {0} {1} {2} {3} {9} {@} and named groups; every Match is held until the input is exhausted, two garbage collections are forced, then Line and Indices are read again; files (a fifth of the runs with gunzip on, about half of their files gzip-encoded) and scripted-reader sources as in C01 incl. the 250 ms time-flush path; dissect matchers with their regex equivalents as oracle. " +
			"distinct = distinct (config, sources, expressions); non-trivial as in C01 (several batches, partial final batch, CRLF, no trailing newline, empty line, time flush, several workers).",
		Gen: func(r *Rng, n int, tier string) []Case {
			return pipe.MakeCases(pipe.GenC02(r, n, tier), pipe.Workdir())
		},
		Replay: func(d json.RawMessage) (Case, error) {
			var doc struct {
				Input pipe.PipeIn `json:"input"`
			}
			if err := json.Unmarshal(d, &doc); err != nil {
				return Case{}, err
			}
			return pipe.MakeCase(doc.Input, pipe.Workdir(), 0), nil
		},
		Shard: 8,
	})
}
