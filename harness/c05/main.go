package main

// C05: the real RunAggregationLoop over the real pipeline, observed by a monitoring aggregator
// and render probe; plus a race-detector stress run of the same code (subprocess built with -race).

import (
	"context"
	"encoding/hex"
	"encoding/json"
	"fmt"
	"os"
	"os/exec"
	"path/filepath"
	"sort"
	"strings"
	"sync"
	"time"

	. "verifh/lib"
	"verifh/pipe"
)

type c05In struct {
	Pipe          pipe.PipeIn `json:"pipe"`
	RenderDelayUs int         `json:"render_delay_us"`
	SampleDelayUs int         `json:"sample_delay_us"`
}

var races int = -1
var raceNote string

// runRaceStress runs bin/C05race (built with -race) once per harness invocation.
func runRaceStress(seed uint64, tier string) {
	exe, _ := os.Executable()
	bin := filepath.Join(filepath.Dir(exe), "C05race")
	work := pipe.Workdir()
	logPrefix := filepath.Join(work, fmt.Sprintf("racelog-%d", os.Getpid()))
	n := "12"
	if tier == "thorough" {
		n = "120"
	}
	// the stress configurations take a few seconds each at most; a run that does not end is a pipeline that
	// did not terminate (the property's last clause), reported as such instead of stalling the check
	limit := 240 * time.Second
	if tier == "thorough" {
		limit = 1500 * time.Second
	}
	ctx, cancel := context.WithTimeout(context.Background(), limit)
	defer cancel()
	cmd := exec.CommandContext(ctx, bin, fmt.Sprint(seed), n)
	cmd.Env = append(os.Environ(), "GORACE=log_path="+logPrefix+" halt_on_error=0 exitcode=0", "VERIF_WORK="+work)
	out, err := cmd.CombinedOutput()
	if ctx.Err() != nil {
		err = fmt.Errorf("the stress run did not finish within %v: a configuration of the real pipeline + aggregation loop never terminated (deadlock)", limit)
	}
	races = 0
	matches, _ := filepath.Glob(logPrefix + ".*")
	for _, f := range matches {
		b, _ := os.ReadFile(f)
		races += strings.Count(string(b), "WARNING: DATA RACE")
		if raceNote == "" && len(b) > 0 {
			s := string(b)
			if len(s) > 1500 {
				s = s[:1500]
			}
			raceNote = s
		}
		os.Remove(f)
	}
	if err != nil {
		races++
		raceNote = "stress run failed: " + err.Error() + "\n" + string(out)
	}
}

func mkCase(in c05In, idx int) Case {
	work := pipe.Workdir()
	dir := filepath.Join(work, fmt.Sprintf("loop%06d", idx))
	if in.Pipe.Cfg.Mode != "reader" {
		os.MkdirAll(dir, 0o755)
		defer os.RemoveAll(dir)
	}
	res := pipe.RunLoopFor(in.Pipe, dir, in.RenderDelayUs, in.SampleDelayUs)
	inCoq, total := pipe.InputCoq(in.Pipe, dir, nil)
	var evs []string
	renders := 0
	for _, e := range res.Events {
		switch e.Kind {
		case "sin":
			evs = append(evs, "SIn")
		case "sout":
			evs = append(evs, "SOut")
		case "rin":
			evs = append(evs, "RIn")
		case "rout":
			renders++
			keys := make([]string, 0, len(e.Snap))
			for k := range e.Snap {
				keys = append(keys, k)
			}
			sort.Strings(keys)
			kv := make([]string, len(keys))
			for i, k := range keys {
				kv[i] = fmt.Sprintf("(%s,%d)", HS(k), e.Snap[k])
			}
			evs = append(evs, fmt.Sprintf("ROut (snp %s) %d", CoqList(kv), e.Matched))
		}
	}
	r := races
	if r < 0 {
		r = 0
	}
	outCoq := fmt.Sprintf("{| m_completed := %s; m_events := %s; m_races := %d |}", B(res.Completed && res.Overlap == 0), CoqList(evs), r)
	tags := []string{fmt.Sprintf("workers=%d", in.Pipe.Cfg.Workers), "mode=" + in.Pipe.Cfg.Mode}
	nontriv := false
	if renders > 1 {
		tags = append(tags, "intermediate-renders")
		nontriv = true
	}
	if renders > 3 {
		tags = append(tags, "renders>3")
	}
	if total > in.Pipe.Cfg.Batch && in.Pipe.Cfg.Workers > 1 {
		tags = append(tags, "workers-race")
		nontriv = true
	}
	if in.RenderDelayUs > 0 {
		tags = append(tags, "slow-render")
	}
	if in.RenderDelayUs >= 100000 {
		tags = append(tags, "render-longer-than-tick")
		nontriv = true
	}
	if in.SampleDelayUs > 0 {
		tags = append(tags, "slow-samples(tick-during-batch)")
		nontriv = true
	}
	kb, _ := json.Marshal(in)
	desc := map[string]any{"input": in, "impl": map[string]any{"completed": res.Completed, "note": res.Note, "events": len(res.Events),
		"renders": renders, "overlap_seen_by_probe": res.Overlap, "race_reports": r, "race_note": raceNote}}
	return Case{Coq: "(" + inCoq + ",\n   " + outCoq + ")", Desc: desc, Key: string(kb), Nontrivial: nontriv, Tags: tags}
}

func gen(r *Rng, n int, tier string) []Case {
	runRaceStress(r.U64()%1000000, tier)
	base := pipe.GenC01(r, n, tier)
	ins := make([]c05In, 0, n)
	for i, p := range base {
		if i < 2 {
			continue // the two fixed C01 cases (huge line, timed flush) are not needed here
		}
		in := c05In{Pipe: p}
		for si := range in.Pipe.Sources { // no injected read errors here: the delivered stream is the whole stream
			for k := range in.Pipe.Sources[si].Script {
				in.Pipe.Sources[si].Script[k].Kind = 0
			}
		}
		// make about half of the runs long enough for the 100 ms ticker to fire several times
		if p.Cfg.Mode == "reader" && r.Chance(2, 3) {
			sc := in.Pipe.Sources[0].Script
			for k := 0; k < len(sc) && k < 4; k++ {
				sc[r.Intn(len(sc))].Wait = 60 + r.Intn(120)
			}
		}
		if r.Chance(1, 3) {
			in.RenderDelayUs = 200 + r.Intn(3000)
		}
		ins = append(ins, in)
	}
	// long renders: the ticker is inside writeOutput most of the time, so the hand-off and the final
	// render meet a render in progress; slow samples: the ticker fires while a batch is being sampled
	for k := 0; k < 14 && k < len(ins); k++ {
		in := &ins[k]
		st := []byte("a:\nb:\nc:\na:\nd:\nb:\na:\ne:\n")
		in.Pipe.Cfg.Mode = "reader"
		in.Pipe.Cfg.Batch = Pick(r, []int{1, 2, 3, 1000})
		in.Pipe.Ignore = nil
		in.Pipe.Extract = []pipe.KPiece{{Kind: "group", Idx: 1}}
		if k%7 != 0 {
			in.RenderDelayUs, in.SampleDelayUs = 150000, 0
			in.Pipe.Sources = []pipe.Source{{Name: "<stdin>", Stream: hex.EncodeToString(st),
				Script: []pipe.Step{{Want: 6}, {Want: 6, Wait: 90 + r.Intn(60)}, {Want: 6, Wait: 90 + r.Intn(60)}, {Want: 6, Wait: 1 + r.Intn(250)}, {Want: 0, Wait: 110 + r.Intn(250)}}}}
			in.Pipe.Cfg.Batch = 1 // every line is handed on at once: the loop is idle during the final stall before EOF
		} else {
			in.RenderDelayUs, in.SampleDelayUs = 0, 40000
			in.Pipe.Sources = []pipe.Source{{Name: "<stdin>", Stream: hex.EncodeToString(st), Script: []pipe.Step{{Want: 100}}}}
		}
	}
	// the LAST batch arrives while a long periodic render is in progress and the input ends right after it:
	// the final render must still happen and show that batch
	for k := 14; k < 17 && k < len(ins); k++ {
		in := &ins[k]
		st := []byte("a:\nb:\nc:\na:\nd:\nb:\na:\ne:\n")
		in.Pipe.Cfg.Mode = "reader"
		in.Pipe.Cfg.Batch = 1000 // everything read so far travels as ONE batch, sent at end of input (before the 250 ms flush)
		in.Pipe.Ignore = nil
		in.Pipe.Extract = []pipe.KPiece{{Kind: "group", Idx: 1}}
		in.RenderDelayUs, in.SampleDelayUs = 400000, 0
		in.Pipe.Sources = []pipe.Source{{Name: "<stdin>", Stream: hex.EncodeToString(st),
			Script: []pipe.Step{{Want: 6}, {Want: 100, Wait: 130 + r.Intn(90)}}}}
	}
	out := make([]Case, len(ins))
	var wg sync.WaitGroup
	sem := make(chan struct{}, 8)
	for i := range ins {
		wg.Add(1)
		sem <- struct{}{}
		go func(i int) {
			defer wg.Done()
			defer func() { <-sem }()
			out[i] = mkCase(ins[i], i)
		}(i)
	}
	wg.Wait()
	return out
}

func main() {
	_ = hex.EncodeToString
	Main(&Prop{
		Name:   "C05",
		Header: pipe.Header + "From RareV Require Import Corr.C05Case.\nDefinition mm := C05Case.mm.\n",
		Rule: "the real helpers.RunAggregationLoop over the real batchers + extractor (inputs and tuning as in C01: files / scripted reader, workers 1-8, readers 1-4, batch 1-1000, buffer 1-4), with a monitoring Aggregator and writeOutput probe that stamp every entry and exit with one atomic sequence counter, read the status line and summary like the real renderers, and record what each render saw; about a third of the runs are stretched with reader stalls of 60-180 ms so that the 100 ms ticker renders in between, a third have a slow render. One subprocess built with -race runs 12 (quick) / 120 (thorough) stress configurations of the same code with the real counter aggregator; its data-race reports are counted. " +
			"distinct = distinct (config, sources, delays); non-trivial = a run with at least one intermediate render, or several workers racing on several batches.",
		Gen: gen,
		Replay: func(d json.RawMessage) (Case, error) {
			var doc struct {
				Input c05In `json:"input"`
			}
			if err := json.Unmarshal(d, &doc); err != nil {
				return Case{}, err
			}
			runRaceStress(1, "quick")
			return mkCase(doc.Input, 0), nil
		},
		Shard: 12,
	})
}
