package main

// C14: the terminal renderers (pkg/multiterm/termrenderers, termunicode, termscaler) driven on a
// multiterm.VirtualTerm from generated aggregator states; every call under recover() and a
// watchdog; inputs for which an endless loop is predicted run in a child process with an
// address-space limit.

import (
	"bytes"
	"encoding/json"
	"fmt"
	"math"
	"os"
	"os/exec"
	"path/filepath"
	"sync"
	"runtime"
	"sort"
	"strings"
	"syscall"
	"time"
	"unicode/utf8"

	"rare/pkg/aggregation"
	"rare/pkg/aggregation/sorting"
	"rare/pkg/color"
	"rare/pkg/humanize"
	"rare/pkg/multiterm"
	"rare/pkg/multiterm/termformat"
	"rare/pkg/multiterm/termrenderers"
	"rare/pkg/multiterm/termscaler"
	"rare/pkg/multiterm/termunicode"
	. "verifh/lib"
)

// ---------------------------------------------------------------- input / output

type tOp struct {
	Foot  bool     `json:"foot,omitempty"`
	N     int      `json:"n"`
	Cells []string `json:"cells,omitempty"`
	Line  string   `json:"line,omitempty"`
}
type hOp struct {
	Kind string `json:"op"` // line, total, foot
	N    int    `json:"n"`
	Key  string `json:"key"`
	Val  int64  `json:"val"`
}
type bOp struct {
	Foot bool    `json:"foot,omitempty"`
	N    int     `json:"n"`
	Key  string  `json:"key"`
	Vals []int64 `json:"vals"`
}
type sample struct {
	Col string `json:"c"`
	Row string `json:"r"`
	Inc int64  `json:"i"`
}

// a --format expression: literal text and references {0}/{val}, {1}/{min}, {2}/{max}
type piece struct {
	Lit   string `json:"lit,omitempty"`
	Ref   int    `json:"ref"` // -1: literal; 0 value, 1 min, 2 max
	Named bool   `json:"named,omitempty"`
}

func exprOf(ps []piece) string {
	var sb strings.Builder
	for _, p := range ps {
		switch {
		case p.Ref < 0:
			sb.WriteString(p.Lit)
		case p.Named:
			sb.WriteString([]string{"{val}", "{min}", "{max}"}[p.Ref])
		default:
			fmt.Fprintf(&sb, "{%d}", p.Ref)
		}
	}
	return sb.String()
}

// one call on a Heatmap, in the order cmd/heatmap.go makes them
type hstep struct {
	Op     string   `json:"op"` // upd (UpdateMinMax), scaler (assign Scaler), fmt (assign Formatter), table (samples + WriteTable)
	Mn     int64    `json:"min,omitempty"`
	Mx     int64    `json:"max,omitempty"`
	Scaler string   `json:"scaler,omitempty"`
	Fmt    int      `json:"formatter,omitempty"`
	Tmpl   []piece  `json:"format_expr,omitempty"`
	Batch  []sample `json:"batch,omitempty"`
}

type skSample struct {
	Key string `json:"k"`
	Sub string `json:"s"`
	Inc int64  `json:"i"`
}

// what the BarGraph was given in one frame (copies taken at the time of the call)
type bargFrame struct {
	Keys []string  `json:"keys"`
	Rows []string  `json:"rows"`
	Vals [][]int64 `json:"vals"`
}

type c14In struct {
	Kind   string `json:"kind"`
	Col    bool   `json:"colour"`
	Uni    bool   `json:"unicode"`
	Scaler string `json:"scaler,omitempty"`
	Fmt    int    `json:"formatter,omitempty"` // 0 Passthru, 1 Default (humanize), 2 --format expression (Tmpl)
	Tmpl   []piece     `json:"format_expr,omitempty"`
	Calls  [][3]int64  `json:"calls,omitempty"` // kind fmt: (value, min, max) per call of one compiled formatter

	Mn int64     `json:"min,omitempty"`
	Mx int64     `json:"max,omitempty"`
	Vs []int64   `json:"vals,omitempty"`
	N  int64     `json:"n,omitempty"`
	Us []float64 `json:"us,omitempty"`

	MaxVal int64 `json:"max_val,omitempty"`
	MaxLen int64 `json:"max_len,omitempty"`

	MaxC int   `json:"max_cols,omitempty"`
	MaxR int   `json:"max_rows,omitempty"`
	TOps []tOp `json:"table_ops,omitempty"`

	MaxLines int   `json:"max_lines,omitempty"`
	ShowBar  bool  `json:"show_bar,omitempty"`
	HOps     []hOp `json:"histo_ops,omitempty"`

	Size    int      `json:"bar_size,omitempty"`
	Stacked bool     `json:"stacked,omitempty"`
	Keys    []string `json:"keys,omitempty"`
	BOps    []bOp    `json:"bar_ops,omitempty"`

	RLim    int        `json:"row_limit,omitempty"`
	CLim    int        `json:"col_limit,omitempty"`
	RowTot  bool       `json:"row_totals,omitempty"`
	ColTot  bool       `json:"col_totals,omitempty"`
	Batches [][]sample `json:"batches,omitempty"` // WriteTable after every batch

	// before every WriteTable, what cmd/spark.go does: Trim the aggregator to the last CLim columns
	// (rows whose cells were all in trimmed columns disappear: the table can shrink between frames)
	TrimCols bool `json:"trim_columns,omitempty"`

	// kind bargf: frames of (key, sub-key, count) samples into a real aggregation.SubKeyCounter; after
	// each frame the BarGraph is fed as cmd/bargraph.go feeds it (the counter's LIVE slices)
	SKFrames [][]skSample `json:"subkey_frames,omitempty"`
	ByValue  bool         `json:"sort_by_value,omitempty"`

	FixMin bool    `json:"fixed_min,omitempty"`
	FixMax bool    `json:"fixed_max,omitempty"`
	Steps  []hstep `json:"steps,omitempty"` // kind heatseq
}

type aggState struct {
	Cols []string  `json:"cols"`
	Rows []string  `json:"rows"`
	Vals [][]int64 `json:"vals"`
	Sums []int64   `json:"sums"`
	Min  int64     `json:"min"`
	Max  int64     `json:"max"`
	Tot  []int64   `json:"tot"`
	Sum  int64     `json:"sum"`
}

type c14Out struct {
	Completed bool       `json:"completed"`
	Fs        []float64  `json:"floats,omitempty"`
	Zs        []int64    `json:"ints,omitempty"`
	Lines     []string   `json:"lines,omitempty"`
	States    []aggState `json:"agg_states,omitempty"` // what the renderer read (input of the model)
	Auto      []string   `json:"automatic_range_lines,omitempty"` // kind cli: the run without --min/--max
	BFrames   []bargFrame `json:"bargraph_frames,omitempty"`      // kind bargf: what each frame passed to SetKeys / WriteBar
	Note      string     `json:"note,omitempty"`
}

// ---------------------------------------------------------------- helpers

func scalerOf(name string) termscaler.Scaler {
	s, ok := termscaler.ScalerByName(name)
	if !ok {
		panic("scaler " + name)
	}
	return s
}

// mapVal(float64(x)) of the logarithmic scalers (math.Log2 / math.Log10 trusted)
func logMap(name string, x int64) float64 {
	f := float64(x)
	if f <= 1.0 {
		return 0.0
	}
	if name == "log2" {
		return math.Log2(f)
	}
	return math.Log10(f)
}

func formatterOf(in c14In) termformat.Formatter {
	switch in.Fmt {
	case 0:
		return termformat.Passthru
	case 1:
		return termformat.Default
	}
	f, err := termformat.FromExpression(exprOf(in.Tmpl))
	if err != nil {
		panic("format expression " + exprOf(in.Tmpl) + ": " + err.Error())
	}
	return f
}

// visible runes of a rendered line: everything from ESC up to the next 'm' is dropped
func stripSGR(s string) string {
	var sb strings.Builder
	in := false
	for _, r := range s {
		if r == 0x1b {
			in = true
		} else if in && r == 'm' {
			in = false
		} else if !in {
			sb.WriteRune(r)
		}
	}
	return sb.String()
}
func visLen(col bool, s string) int {
	if !col {
		return utf8.RuneCountInString(s)
	}
	return utf8.RuneCountInString(stripSGR(s))
}

func termLines(vt *multiterm.VirtualTerm, col, strip bool) []string {
	n := vt.LineCount()
	out := make([]string, n)
	for i := 0; i < n; i++ {
		out[i] = vt.Get(i)
		if col && strip {
			out[i] = stripSGR(out[i])
		}
	}
	return out
}

type guardRes struct {
	out c14Out
}

// run f under recover() and a watchdog
func guarded(f func() c14Out, limit time.Duration) c14Out {
	ch := make(chan c14Out, 1)
	go func() {
		defer func() {
			if e := recover(); e != nil {
				ch <- c14Out{Completed: false, Note: "panic: " + fmt.Sprint(e)}
			}
		}()
		ch <- f()
	}()
	select {
	case o := <-ch:
		return o
	case <-time.After(limit):
		return c14Out{Completed: false, Note: "did not return within " + limit.String()}
	}
}

func snapshot(agg *aggregation.TableAggregator) aggState {
	st := aggState{Cols: agg.OrderedColumns(sorting.NVNameSorter)}
	if st.Cols == nil {
		st.Cols = []string{}
	}
	for _, row := range agg.OrderedRows(sorting.NVNameSorter) {
		st.Rows = append(st.Rows, row.Name())
		vs := make([]int64, len(st.Cols))
		for j, c := range st.Cols {
			vs[j] = row.Value(c)
		}
		st.Vals = append(st.Vals, vs)
		st.Sums = append(st.Sums, row.Sum())
	}
	st.Min, st.Max = agg.ComputeMinMax()
	st.Tot = make([]int64, len(st.Cols))
	for j, c := range st.Cols {
		st.Tot[j] = agg.ColTotal(c)
	}
	st.Sum = agg.Sum()
	return st
}

// ---------------------------------------------------------------- running the implementation

func runImpl(in c14In) c14Out {
	color.Enabled = in.Col
	termunicode.UnicodeEnabled = in.Uni
	humanize.Enabled = true
	switch in.Kind {
	case "scale":
		sc := scalerOf(in.Scaler)
		o := c14Out{Completed: true}
		for _, v := range in.Vs {
			o.Fs = append(o.Fs, sc.Scale(v, in.Mn, in.Mx))
		}
		return o
	case "keys":
		return c14Out{Completed: true, Zs: termscaler.ScalerLinear.ScaleKeys(6, in.Mn, in.Mx)}
	case "bucket":
		o := c14Out{Completed: true}
		for _, u := range in.Us {
			o.Zs = append(o.Zs, int64(termscaler.Bucket(int(in.N), u)))
		}
		return o
	case "length":
		o := c14Out{Completed: true}
		for _, u := range in.Us {
			o.Zs = append(o.Zs, int64(termscaler.LengthVal(int(in.N), u)))
		}
		return o
	case "barw":
		o := c14Out{Completed: true}
		for _, u := range in.Us {
			var sb strings.Builder
			termunicode.BarWrite(&sb, u, int(in.N))
			o.Lines = append(o.Lines, sb.String())
		}
		return o
	case "stack":
		var sb strings.Builder
		termunicode.BarWriteStacked(&sb, in.MaxVal, in.MaxLen, in.Vs...)
		return c14Out{Completed: true, Lines: []string{sb.String()}}
	case "heatc":
		o := c14Out{Completed: true}
		for _, u := range in.Us {
			var sb strings.Builder
			termunicode.HeatWrite(&sb, u)
			o.Lines = append(o.Lines, sb.String())
		}
		return o
	case "sparkc":
		o := c14Out{Completed: true}
		for _, u := range in.Us {
			var sb strings.Builder
			termunicode.SparkWrite(&sb, u)
			o.Lines = append(o.Lines, sb.String())
		}
		return o
	case "fmt":
		f := formatterOf(in) // compiled once; every call goes through the same formatter value
		o := c14Out{Completed: true}
		for _, c := range in.Calls {
			o.Lines = append(o.Lines, f(c[0], c[1], c[2]))
		}
		return o
	case "table":
		vt := multiterm.NewVirtualTerm()
		t := termrenderers.NewTable(vt, in.MaxC, in.MaxR)
		for _, op := range in.TOps {
			if op.Foot {
				t.WriteFooter(op.N, op.Line)
			} else {
				t.WriteRow(op.N, append([]string(nil), op.Cells...)...)
			}
		}
		return c14Out{Completed: true, Lines: termLines(vt, in.Col, false)}
	case "histo":
		vt := multiterm.NewVirtualTerm()
		h := termrenderers.NewHistogram(vt, in.MaxLines)
		h.ShowBar = in.ShowBar
		h.ShowPercentage = false
		h.Scaler = scalerOf(in.Scaler)
		h.Formatter = formatterOf(in)
		for _, op := range in.HOps {
			switch op.Kind {
			case "line":
				h.WriteForLine(op.N, op.Key, op.Val)
			case "total":
				h.UpdateTotal(op.Val)
			default:
				h.WriteFooter(op.N, op.Key)
			}
		}
		return c14Out{Completed: true, Lines: termLines(vt, in.Col, true)}
	case "barg":
		vt := multiterm.NewVirtualTerm()
		b := termrenderers.NewBarGraph(vt)
		b.BarSize = in.Size
		b.Stacked = in.Stacked
		b.Scaler = scalerOf(in.Scaler)
		b.Formatter = formatterOf(in)
		b.SetKeys(in.Keys...)
		for _, op := range in.BOps {
			if op.Foot {
				b.WriteFooter(op.N, op.Key)
			} else {
				b.WriteBar(op.N, op.Key, append([]int64(nil), op.Vals...)...)
			}
		}
		return c14Out{Completed: true, Lines: termLines(vt, in.Col, true)}
	case "heatseq":
		vt := multiterm.NewVirtualTerm()
		hm := termrenderers.NewHeatmap(vt, in.RLim, in.CLim)
		hm.FixedMin, hm.FixedMax = in.FixMin, in.FixMax
		agg := aggregation.NewTable("\x00")
		for _, st := range in.Steps {
			switch st.Op {
			case "upd":
				hm.UpdateMinMax(st.Mn, st.Mx)
			case "scaler":
				hm.Scaler = scalerOf(st.Scaler)
			case "fmt":
				hm.Formatter = formatterOf(c14In{Fmt: st.Fmt, Tmpl: st.Tmpl})
			default:
				for _, sm := range st.Batch {
					agg.SampleItem(sm.Col, sm.Row, sm.Inc)
				}
				hm.WriteTable(agg, sorting.NVNameSorter, sorting.NVNameSorter)
			}
		}
		return c14Out{Completed: true, Lines: termLines(vt, in.Col, true), States: statesOf(in)}
	case "cli":
		return runCli(in)
	case "bargf":
		vt := multiterm.NewVirtualTerm()
		b := termrenderers.NewBarGraph(vt)
		b.BarSize = in.Size
		b.Stacked = in.Stacked
		b.Scaler = scalerOf(in.Scaler)
		b.Formatter = formatterOf(in)
		counter := aggregation.NewSubKeyCounter()
		sorter := sorting.NVNameSorter
		if in.ByValue {
			sorter = sorting.NVValueSorter
		}
		for _, fr := range in.SKFrames {
			for _, sm := range fr {
				counter.SampleValue(sm.Key, sm.Sub, sm.Inc)
			}
			// exactly cmd/bargraph.go's frame: no copies of the counter's slices
			line := 0
			b.SetKeys(counter.SubKeys()...)
			for _, row := range counter.ItemsSorted(sorter) {
				b.WriteBar(line, row.Name, row.Item.Items()...)
				line++
			}
		}
		return c14Out{Completed: true, Lines: termLines(vt, in.Col, true), BFrames: bargFramesOf(in)}
	case "heat", "spark", "data":
		vt := multiterm.NewVirtualTerm()
		agg := aggregation.NewTable("\x00")
		var write func()
		switch in.Kind {
		case "heat":
			r := termrenderers.NewHeatmap(vt, in.RLim, in.CLim)
			r.Scaler = scalerOf(in.Scaler)
			r.Formatter = formatterOf(in)
			write = func() { r.WriteTable(agg, sorting.NVNameSorter, sorting.NVNameSorter) }
		case "spark":
			r := termrenderers.NewSpark(vt, in.RLim, in.CLim)
			r.Scaler = scalerOf(in.Scaler)
			r.Formatter = formatterOf(in)
			write = func() { r.WriteTable(agg, sorting.NVNameSorter, sorting.NVNameSorter) }
		default:
			r := termrenderers.NewDataTable(vt, in.CLim, in.RLim)
			r.ShowRowTotals = in.RowTot
			r.ShowColTotals = in.ColTot
			r.SetFormatter(formatterOf(in))
			write = func() { r.WriteTable(agg, sorting.NVNameSorter, sorting.NVNameSorter) }
		}
		o := c14Out{States: statesOf(in)}
		for _, b := range in.Batches {
			for _, s := range b {
				agg.SampleItem(s.Col, s.Row, s.Inc)
			}
			if in.TrimCols {
				trimToLast(agg, in.CLim)
			}
			write()
		}
		o.Completed = true
		o.Lines = termLines(vt, in.Col, true)
		return o
	}
	panic("unknown kind " + in.Kind)
}

// what each frame hands to the BarGraph (a function of the input alone)
func bargFramesOf(in c14In) []bargFrame {
	counter := aggregation.NewSubKeyCounter()
	sorter := sorting.NVNameSorter
	if in.ByValue {
		sorter = sorting.NVValueSorter
	}
	var out []bargFrame
	for _, fr := range in.SKFrames {
		for _, sm := range fr {
			counter.SampleValue(sm.Key, sm.Sub, sm.Inc)
		}
		f := bargFrame{Keys: append([]string{}, counter.SubKeys()...)}
		for _, row := range counter.ItemsSorted(sorter) {
			f.Rows = append(f.Rows, row.Name)
			f.Vals = append(f.Vals, append([]int64{}, row.Item.Items()...))
		}
		out = append(out, f)
	}
	return out
}

// cmd/spark.go's per-frame trimming: keep the last n columns (name order)
func trimToLast(agg *aggregation.TableAggregator, n int) {
	keep := agg.OrderedColumns(sorting.NVNameSorter)
	if len(keep) <= n {
		return
	}
	keep = keep[len(keep)-n:]
	lookup := map[string]struct{}{}
	for _, k := range keep {
		lookup[k] = struct{}{}
	}
	agg.Trim(func(col, row string, val int64) bool {
		_, ok := lookup[col]
		return !ok
	})
}

// aggregator states alone (no rendering): needed for the model input even when rendering fails
func statesOf(in c14In) []aggState {
	agg := aggregation.NewTable("\x00")
	var sts []aggState
	if in.Kind == "heatseq" {
		for _, st := range in.Steps {
			if st.Op == "table" {
				for _, sm := range st.Batch {
					agg.SampleItem(sm.Col, sm.Row, sm.Inc)
				}
				sts = append(sts, snapshot(agg))
			}
		}
		return sts
	}
	for _, b := range in.Batches {
		for _, s := range b {
			agg.SampleItem(s.Col, s.Row, s.Inc)
		}
		if in.TrimCols {
			trimToLast(agg, in.CLim)
		}
		sts = append(sts, snapshot(agg))
	}
	return sts
}

// the input lies in the domain of defect #26 (endless header loop): the first displayed column
// has no visible rune
func kfHeader(in c14In) bool {
	if in.Kind != "heat" || in.CLim < 1 {
		return false
	}
	for _, st := range statesOf(in) {
		if len(st.Cols) > 0 && visLen(in.Col, st.Cols[0]) == 0 {
			return true
		}
	}
	return false
}

// ---- `rare heatmap` as a process: a fixed range equal to the data's own range must draw the same
// picture as the automatic range, for every --scale
var rareBin string
var rareOnce sync.Once
var rareErr string

func buildRare() {
	repo := os.Getenv("VERIF_REPO")
	if repo == "" {
		repo = "/repo"
	}
	w := os.Getenv("VERIF_WORK")
	if w == "" {
		w = filepath.Join(os.TempDir(), "verifh")
	}
	os.MkdirAll(w, 0o755)
	rareBin = filepath.Join(w, fmt.Sprintf("rare-c14-%d", os.Getpid()))
	cmd := exec.Command("go", "build", "-o", rareBin, ".")
	cmd.Dir = repo
	cmd.Env = append(os.Environ(), "GOFLAGS=-mod=mod", "GOPROXY=off", "GOSUMDB=off", "GOTOOLCHAIN=local")
	if out, err := cmd.CombinedOutput(); err != nil {
		rareErr = err.Error() + ": " + string(out)
	}
}

func rareHeatmap(in c14In, data []byte, extra ...string) ([]string, string) {
	args := []string{}
	if !in.Col {
		args = append(args, "--nocolor")
	} else {
		args = append(args, "--color")
	}
	if !in.Uni {
		args = append(args, "--nounicode")
	}
	args = append(args, "heatmap", "-m", `(\S+) (\S+)`, "-e", "{$ {1} {2}}", "--snapshot",
		"--num", fmt.Sprint(in.RLim), "--cols", fmt.Sprint(in.CLim), "--scale", in.Scaler)
	args = append(args, extra...)
	cmd := exec.Command(rareBin, args...)
	cmd.Stdin = bytes.NewReader(data)
	var out, errb bytes.Buffer
	cmd.Stdout, cmd.Stderr = &out, &errb
	if err := cmd.Start(); err != nil {
		return nil, err.Error()
	}
	done := make(chan error, 1)
	go func() { done <- cmd.Wait() }()
	select {
	case err := <-done:
		if err != nil {
			return nil, "rare: " + err.Error() + ": " + errb.String()
		}
	case <-time.After(10 * time.Second):
		cmd.Process.Kill()
		<-done
		return nil, "rare heatmap did not return within 10s"
	}
	var lines []string
	for _, l := range strings.Split(strings.TrimRight(out.String(), "\n"), "\n") {
		if in.Col {
			l = stripSGR(l)
		}
		if strings.HasPrefix(l, "Matched: ") {
			break // extractor summary and status line follow
		}
		lines = append(lines, l)
	}
	return lines, ""
}

func runCli(in c14In) c14Out {
	rareOnce.Do(buildRare)
	if rareErr != "" {
		return c14Out{Note: "cannot build rare: " + rareErr}
	}
	var data bytes.Buffer
	agg := aggregation.NewTable("\x00")
	for _, b := range in.Batches {
		for _, sm := range b {
			for i := int64(0); i < sm.Inc; i++ {
				fmt.Fprintf(&data, "%s %s\n", sm.Col, sm.Row)
			}
			if sm.Inc > 0 {
				agg.SampleItem(sm.Col, sm.Row, sm.Inc)
			}
		}
	}
	mn, mx := agg.ComputeMinMax()
	auto, note := rareHeatmap(in, data.Bytes())
	if note != "" {
		return c14Out{Note: note}
	}
	fixed, note := rareHeatmap(in, data.Bytes(), "--min", fmt.Sprint(mn), "--max", fmt.Sprint(mx))
	if note != "" {
		return c14Out{Note: note}
	}
	return c14Out{Completed: true, Lines: fixed, Auto: auto}
}

func runChild(in c14In) c14Out {
	b, _ := json.Marshal(in)
	cmd := exec.Command(os.Args[0], "c14child")
	cmd.Stdin = bytes.NewReader(b)
	var out bytes.Buffer
	cmd.Stdout = &out
	if err := cmd.Start(); err != nil {
		return c14Out{Note: "child: " + err.Error()}
	}
	done := make(chan error, 1)
	go func() { done <- cmd.Wait() }()
	select {
	case err := <-done:
		if err != nil {
			return c14Out{Completed: false, Note: "child process died: " + err.Error()}
		}
		var o c14Out
		if err := json.Unmarshal(out.Bytes(), &o); err != nil {
			return c14Out{Completed: false, Note: "child output: " + err.Error()}
		}
		return o
	case <-time.After(2 * time.Second):
		cmd.Process.Kill()
		<-done
		return c14Out{Completed: false, Note: "did not return within 2s (child process killed)"}
	}
}

func childMain() {
	lim := syscall.Rlimit{Cur: 3 << 30, Max: 3 << 30}
	syscall.Setrlimit(syscall.RLIMIT_AS, &lim)
	var in c14In
	if err := json.NewDecoder(os.Stdin).Decode(&in); err != nil {
		os.Exit(2)
	}
	o := guarded(func() c14Out { return runImpl(in) }, 5*time.Second)
	json.NewEncoder(os.Stdout).Encode(o)
}

var currentInput string // for the abort message of memWatch

func execute(in c14In) c14Out {
	if b, err := json.Marshal(in); err == nil {
		currentInput = string(b)
	}
	var o c14Out
	if kfHeader(in) {
		o = runChild(in)
	} else {
		o = guarded(func() c14Out { return runImpl(in) }, 5*time.Second)
	}
	if !o.Completed && in.Kind == "bargf" {
		o.BFrames = bargFramesOf(in)
	}
	if !o.Completed && (in.Kind == "heat" || in.Kind == "spark" || in.Kind == "data" || in.Kind == "heatseq") {
		o.States = statesOf(in)
	}
	return o
}

// ---------------------------------------------------------------- Coq printing

func ZZ(i int64) string {
	if i < 0 {
		return fmt.Sprintf("(%d)", i)
	}
	return fmt.Sprintf("%d", i)
}
func ZL(xs []int64) string {
	p := make([]string, len(xs))
	for i, x := range xs {
		p[i] = ZZ(x)
	}
	return "[" + strings.Join(p, ";") + "]"
}
func R(s string) string {
	if s == "" {
		return "[]"
	}
	var p []string
	for _, r := range s {
		p = append(p, fmt.Sprint(int(r)))
	}
	return "[" + strings.Join(p, ";") + "]%N"
}
func RL_(xs []string) string {
	p := make([]string, len(xs))
	for i, x := range xs {
		p[i] = R(x)
	}
	return "[" + strings.Join(p, ";") + "]"
}

// a finite float64 as (dy m e) = m * 2^e
func DY(f float64) string {
	if math.IsNaN(f) || math.IsInf(f, 0) {
		panic("non-finite float")
	}
	if f == 0 {
		return "(dy 0 0)"
	}
	bits := math.Float64bits(f)
	mant := int64(bits & (1<<52 - 1))
	exp := int64((bits >> 52) & 0x7ff)
	if exp == 0 {
		exp = 1
	} else {
		mant |= 1 << 52
	}
	e := exp - 1075
	for mant&1 == 0 && e < 0 {
		mant >>= 1
		e++
	}
	if bits>>63 == 1 {
		mant = -mant
	}
	return fmt.Sprintf("(dy %s %s)", ZZ(mant), ZZ(e))
}
func DYL(fs []float64) string {
	p := make([]string, len(fs))
	for i, f := range fs {
		p[i] = DY(f)
	}
	return "[" + strings.Join(p, ";") + "]"
}

func wrapAdd1(x int64) int64 { return x + 1 } // int64 wrap-around as in Go

// mapper term: MLin, or the pre-evaluated table for the logarithmic scalers
func mapperTerm(name string, xs []int64, ranges [][2]int64, withKeys bool) string {
	if name == "linear" || name == "" {
		return "MLin"
	}
	sc := scalerOf(name)
	seen := map[int64]bool{}
	var all []int64
	add := func(x int64) {
		if !seen[x] {
			seen[x] = true
			all = append(all, x)
		}
	}
	for _, x := range xs {
		add(x)
	}
	var kt []string
	seenR := map[[2]int64]bool{}
	for _, rg := range ranges {
		add(rg[0])
		add(rg[1])
		add(wrapAdd1(rg[0]))
		if seenR[rg] || !withKeys {
			continue
		}
		seenR[rg] = true
		ks := sc.ScaleKeys(6, rg[0], rg[1])
		for _, k := range ks {
			add(k)
		}
		kt = append(kt, fmt.Sprintf("(%s,%s,%s)", ZZ(rg[0]), ZZ(rg[1]), ZL(ks)))
	}
	sort.Slice(all, func(i, j int) bool { return all[i] < all[j] })
	var tb []string
	for _, x := range all {
		tb = append(tb, fmt.Sprintf("(%s,%s)", ZZ(x), DY(logMap(name, x))))
	}
	return "(MTab [" + strings.Join(tb, ";") + "] [" + strings.Join(kt, ";") + "])"
}

func fspecTerm(in c14In) string { return fspecTerm2(in.Fmt, in.Tmpl) }

func fspecTerm2(fk int, tmpl []piece) string {
	in := c14In{Fmt: fk, Tmpl: tmpl}
	switch in.Fmt {
	case 0:
		return "FPass"
	case 1:
		return "FHuman"
	}
	ps := make([]string, len(in.Tmpl))
	for i, p := range in.Tmpl {
		if p.Ref < 0 {
			ps[i] = "pL " + R(p.Lit)
		} else {
			ps[i] = fmt.Sprintf("pR %d", p.Ref)
		}
	}
	return "(FTmpl [" + strings.Join(ps, ";") + "])"
}

func cfgTerm(in c14In, xs []int64, ranges [][2]int64) string {
	return fmt.Sprintf("(cf %s %s %s %s)", B(in.Col), B(in.Uni), mapperTerm(in.Scaler, xs, ranges, in.Kind == "heat"), fspecTerm(in))
}

func aggTerm(st aggState) string {
	rows := make([]string, len(st.Rows))
	for i := range st.Rows {
		rows[i] = fmt.Sprintf("(%s,%s,%s)", R(st.Rows[i]), ZL(st.Vals[i]), ZZ(st.Sums[i]))
	}
	return fmt.Sprintf("(mkagg %s [%s] %s %s %s %s)", RL_(st.Cols), strings.Join(rows, ";"), ZZ(st.Min), ZZ(st.Max), ZL(st.Tot), ZZ(st.Sum))
}

func inputTerm(in c14In, o c14Out) string {
	switch in.Kind {
	case "scale":
		return fmt.Sprintf("IScale %s %s %s %s", mapperTerm(in.Scaler, in.Vs, [][2]int64{{in.Mn, in.Mx}}, false), ZZ(in.Mn), ZZ(in.Mx), ZL(in.Vs))
	case "keys":
		return fmt.Sprintf("IKeys %s %s", ZZ(in.Mn), ZZ(in.Mx))
	case "bucket":
		return fmt.Sprintf("IBucket %s %s", ZZ(in.N), DYL(in.Us))
	case "length":
		return fmt.Sprintf("ILength %s %s", ZZ(in.N), DYL(in.Us))
	case "barw":
		return fmt.Sprintf("IBarW %s %s %s", B(in.Uni), ZZ(in.N), DYL(in.Us))
	case "stack":
		return fmt.Sprintf("IStack %s %s %s %s %s", B(in.Col), B(in.Uni), ZZ(in.MaxVal), ZZ(in.MaxLen), ZL(in.Vs))
	case "heatc":
		return fmt.Sprintf("IHeatC %s %s %s", B(in.Col), B(in.Uni), DYL(in.Us))
	case "sparkc":
		return fmt.Sprintf("ISparkC %s %s", B(in.Uni), DYL(in.Us))
	case "cli":
		return "ICliSame " + RL_(o.Auto)
	case "bargf":
		var xs []int64
		var rg [][2]int64
		var ops []string
		var mx int64
		for _, f := range o.BFrames {
			ops = append(ops, "bK "+RL_(f.Keys))
			for i, name := range f.Rows {
				ops = append(ops, fmt.Sprintf("bB %d %s %s", i, R(name), ZL(f.Vals[i])))
				var sum int64
				for _, v := range f.Vals[i] {
					xs = append(xs, v)
					sum += v
					if !in.Stacked && v > mx {
						mx = v
					}
				}
				if in.Stacked && sum > mx {
					mx = sum
				}
				rg = append(rg, [2]int64{0, mx})
			}
		}
		return fmt.Sprintf("IBarF %s %d %s [%s]", cfgTerm(in, xs, rg), in.Size, B(in.Stacked), strings.Join(ops, ";"))
	case "heatseq":
		scaler, fk := "linear", 1
		var tmpl []piece
		cmn, cmx := int64(0), int64(1)
		ti := 0
		var ops []string
		for _, st := range in.Steps {
			switch st.Op {
			case "scaler":
				scaler = st.Scaler
			case "fmt":
				fk, tmpl = st.Fmt, st.Tmpl
			case "upd":
				ops = append(ops, fmt.Sprintf("HoUpd %s %s %s %s", mapperTerm(scaler, nil, [][2]int64{{st.Mn, st.Mx}}, true), fspecTerm2(fk, tmpl), ZZ(st.Mn), ZZ(st.Mx)))
				cmn, cmx = st.Mn, st.Mx
			default:
				a := o.States[ti]
				ti++
				mn, mx := a.Min, a.Max
				if in.FixMin {
					mn = cmn
				}
				if in.FixMax {
					mx = cmx
				}
				var xs []int64
				for _, vs := range a.Vals {
					xs = append(xs, vs...)
				}
				ops = append(ops, fmt.Sprintf("HoTab %s %s %s", mapperTerm(scaler, xs, [][2]int64{{mn, mx}}, true), fspecTerm2(fk, tmpl), aggTerm(a)))
				cmn, cmx = mn, mx
			}
		}
		return fmt.Sprintf("iHeatSeq %s %s %d %d %s %s [%s]", B(in.Col), B(in.Uni), in.RLim, in.CLim, B(in.FixMin), B(in.FixMax), strings.Join(ops, ";"))
	case "fmt":
		cs := make([]string, len(in.Calls))
		for i, c := range in.Calls {
			cs[i] = fmt.Sprintf("(%s,%s,%s)", ZZ(c[0]), ZZ(c[1]), ZZ(c[2]))
		}
		return fmt.Sprintf("IFmt %s [%s]", fspecTerm(in), strings.Join(cs, ";"))
	case "table":
		ops := make([]string, len(in.TOps))
		for i, op := range in.TOps {
			if op.Foot {
				ops[i] = fmt.Sprintf("tF %d %s", op.N, R(op.Line))
			} else {
				ops[i] = fmt.Sprintf("tR %d %s", op.N, RL_(op.Cells))
			}
		}
		return fmt.Sprintf("iTable %s %d %d [%s]", B(in.Col), in.MaxC, in.MaxR, strings.Join(ops, ";"))
	case "histo":
		var xs []int64
		var rg [][2]int64
		ops := make([]string, len(in.HOps))
		var mx int64
		for i, op := range in.HOps {
			switch op.Kind {
			case "line":
				ops[i] = fmt.Sprintf("hL %d %s %s", op.N, R(op.Key), ZZ(op.Val))
				xs = append(xs, op.Val)
				if op.Val > mx {
					mx = op.Val
				}
				rg = append(rg, [2]int64{0, mx})
			case "total":
				ops[i] = fmt.Sprintf("hT %s", ZZ(op.Val))
			default:
				ops[i] = fmt.Sprintf("hF %d %s", op.N, R(op.Key))
			}
		}
		return fmt.Sprintf("iHisto %s %d %s [%s]", cfgTerm(in, xs, rg), in.MaxLines, B(in.ShowBar), strings.Join(ops, ";"))
	case "barg":
		var xs []int64
		var rg [][2]int64
		ops := make([]string, len(in.BOps))
		var mx int64
		for i, op := range in.BOps {
			if op.Foot {
				ops[i] = fmt.Sprintf("bF %d %s", op.N, R(op.Key))
				continue
			}
			ops[i] = fmt.Sprintf("bB %d %s %s", op.N, R(op.Key), ZL(op.Vals))
			var sum int64
			for _, v := range op.Vals {
				xs = append(xs, v)
				sum += v
				if !in.Stacked && v > mx {
					mx = v
				}
			}
			if in.Stacked && sum > mx {
				mx = sum
			}
			rg = append(rg, [2]int64{0, mx})
		}
		return fmt.Sprintf("IBarG %s %d %s %s [%s]", cfgTerm(in, xs, rg), in.Size, B(in.Stacked), RL_(in.Keys), strings.Join(ops, ";"))
	case "heat", "spark", "data":
		var xs []int64
		var rg [][2]int64
		aggs := make([]string, len(o.States))
		for i, st := range o.States {
			aggs[i] = aggTerm(st)
			for _, vs := range st.Vals {
				xs = append(xs, vs...)
			}
			rg = append(rg, [2]int64{st.Min, st.Max})
		}
		c := cfgTerm(in, xs, rg)
		switch in.Kind {
		case "heat":
			return fmt.Sprintf("iHeat %s %d %d [%s]", c, in.RLim, in.CLim, strings.Join(aggs, ";"))
		case "spark":
			return fmt.Sprintf("iSpark %s %d %d [%s]", c, in.RLim, in.CLim, strings.Join(aggs, ";"))
		default:
			return fmt.Sprintf("iData %s %d %d %s %s [%s]", c, in.CLim, in.RLim, B(in.RowTot), B(in.ColTot), strings.Join(aggs, ";"))
		}
	}
	panic("kind")
}

func obsTerm(in c14In, o c14Out) string {
	if !o.Completed {
		return "OFail"
	}
	switch in.Kind {
	case "scale":
		for _, f := range o.Fs {
			if math.IsNaN(f) || math.IsInf(f, 0) {
				return "OFail"
			}
		}
		return "OQ " + DYL(o.Fs)
	case "keys", "bucket", "length":
		return "OZ " + ZL(o.Zs)
	default:
		return "OS " + RL_(o.Lines)
	}
}

// ---------------------------------------------------------------- known-finding domains

// All six C14 findings are repaired in /repo (fix: commits); their inputs stay in the fixed
// cases, the corpus and the random generators and must pass, so no case carries a kf: tag.
func kfTags(in c14In) []string {
	if in.Kind == "bargf" && kfLiveSlices(in) {
		return []string{"kf:C14-bargraph-live-slices"}
	}
	return nil
}

// C14-bargraph-live-slices: in a frame after the first a row raises the running maximum while a
// row that has not been written yet in this frame already holds (in the counter's live slice the
// BarGraph kept) a larger value: the redraw raises the maximum again behind WriteBar's back and
// the rows drawn before it stay scaled against the smaller one
func kfLiveSlices(in c14In) bool {
	rowMax := func(vs []int64) int64 {
		var m int64
		for _, v := range vs {
			if in.Stacked {
				m += v
			} else if v > m {
				m = v
			}
		}
		return m
	}
	var running int64
	for f, fr := range bargFramesOf(in) {
		for i, vs := range fr.Vals {
			mi := rowMax(vs)
			if f > 0 && mi > running {
				for j := i + 1; j < len(fr.Vals); j++ {
					if rowMax(fr.Vals[j]) > mi {
						return true
					}
				}
			}
			if mi > running {
				running = mi
			}
		}
	}
	return false
}

// ---------------------------------------------------------------- case construction

func mkCase(in c14In) Case {
	o := execute(in)
	coq := fmt.Sprintf("(%s, %s)", inputTerm(in, o), obsTerm(in, o))
	key, _ := json.Marshal(in)
	tags := []string{"kind:" + in.Kind}
	if in.Scaler != "" {
		tags = append(tags, "scaler:"+in.Scaler)
	}
	if !o.Completed {
		tags = append(tags, "impl:did-not-complete")
	}
	bt := boundaryTags(in, o)
	tags = append(tags, bt...)
	tags = append(tags, kfTags(in)...)
	return Case{
		Coq:        coq,
		Desc:       map[string]any{"input": in, "output": o},
		Key:        string(key),
		Nontrivial: len(bt) > 0,
		Tags:       tags,
	}
}

func hasEsc(s string) bool  { return strings.ContainsRune(s, 0x1b) }
func hasWide(s string) bool { return len(s) != utf8.RuneCountInString(s) }

func keyTags(keys []string) []string {
	m := map[string]bool{}
	for _, k := range keys {
		if k == "" {
			m["b:empty-key"] = true
		}
		if hasEsc(k) {
			m["b:escape-key"] = true
		}
		if hasWide(k) {
			m["b:multibyte-key"] = true
		}
		if utf8.RuneCountInString(k) > 16 {
			m["b:long-key"] = true
		}
	}
	var out []string
	for k := range m {
		out = append(out, k)
	}
	sort.Strings(out)
	return out
}
func valTags(vs []int64) []string {
	m := map[string]bool{}
	alleq := len(vs) > 1
	for i, v := range vs {
		if v == 0 {
			m["b:zero-value"] = true
		}
		if v < 0 {
			m["b:negative-value"] = true
		}
		if v > 1<<40 || v < -(1<<40) {
			m["b:huge-value"] = true
		}
		if i > 0 && v != vs[0] {
			alleq = false
		}
	}
	if alleq {
		m["b:all-equal"] = true
	}
	var out []string
	for k := range m {
		out = append(out, k)
	}
	sort.Strings(out)
	return out
}

func boundaryTags(in c14In, o c14Out) []string {
	var t []string
	switch in.Kind {
	case "scale":
		if in.Mx <= in.Mn {
			t = append(t, "b:degenerate-range")
		}
		for _, v := range in.Vs {
			if v == in.Mn || v == in.Mx {
				t = append(t, "b:value-on-bound")
				break
			}
		}
		if in.Mn == math.MinInt64 || in.Mx == math.MaxInt64 || in.Mn == math.MaxInt64 {
			t = append(t, "b:int64-extreme")
		}
		t = append(t, valTags(in.Vs)...)
	case "keys":
		if in.Mx <= in.Mn {
			t = append(t, "b:degenerate-range")
		}
		if in.Mx-in.Mn < 6 {
			t = append(t, "b:narrow-range")
		}
	case "bucket", "length", "barw", "heatc", "sparkc":
		for _, u := range in.Us {
			if u == 1.0 {
				t = append(t, "b:unit-one")
				break
			}
		}
		for _, u := range in.Us {
			if u == 0 {
				t = append(t, "b:unit-zero")
				break
			}
		}
		if in.N == 0 && in.Kind != "heatc" && in.Kind != "sparkc" {
			t = append(t, "b:zero-length")
		}
	case "cli":
		t = append(t, "b:cli-fixed-range-equals-automatic")
	case "bargf":
		t = append(t, "b:live-aggregator-slices")
		for i := 1; i < len(o.BFrames); i++ {
			a, b := o.BFrames[i-1], o.BFrames[i]
			if len(a.Keys) == len(b.Keys) {
				var amx, bmx int64
				for _, vs := range a.Vals {
					for _, v := range vs {
						if v > amx {
							amx = v
						}
					}
				}
				changed := false
				for j, vs := range b.Vals {
					for k, v := range vs {
						if v > bmx {
							bmx = v
						}
						if j < len(a.Vals) && a.Rows[j] == b.Rows[j] && k < len(a.Vals[j]) && a.Vals[j][k] != v {
							changed = true
						}
					}
				}
				if changed {
					t = append(t, "b:row-in-place-changes-between-frames")
					if amx == bmx {
						t = append(t, "b:row-changes-without-raising-the-maximum")
					}
				}
			} else {
				t = append(t, "b:new-sub-key-between-frames")
			}
		}
	case "heatseq":
		updSeen, scalerAfterUpd, tables := false, false, 0
		for _, st := range in.Steps {
			switch st.Op {
			case "upd":
				updSeen = true
			case "scaler":
				if updSeen && st.Scaler != "linear" {
					scalerAfterUpd = true
				}
				if tables > 0 {
					t = append(t, "b:scaler-changed-between-renders")
				}
			case "table":
				tables++
			}
		}
		if scalerAfterUpd {
			t = append(t, "b:scaler-assigned-after-UpdateMinMax")
		}
		if in.FixMin && in.FixMax {
			t = append(t, "b:both-bounds-fixed")
		} else if in.FixMin || in.FixMax {
			t = append(t, "b:one-bound-fixed")
		}
	case "fmt":
		for i, c := range in.Calls {
			if c[1] == c[2] {
				t = append(t, "b:min-equals-max")
			}
			if i > 0 && c[2] == in.Calls[i-1][1] {
				t = append(t, "b:max-equals-previous-min")
			}
		}
	case "stack":
		if in.MaxVal <= 0 {
			t = append(t, "b:zero-max")
		}
		t = append(t, valTags(in.Vs)...)
	case "table":
		var all []string
		grow := false
		for _, op := range in.TOps {
			if !op.Foot {
				all = append(all, op.Cells...)
				if len(op.Cells) > in.MaxC {
					t = append(t, "b:more-cells-than-columns")
				}
				if op.N >= in.MaxR {
					t = append(t, "b:row-beyond-limit")
				}
				grow = true
			}
		}
		_ = grow
		t = append(t, keyTags(all)...)
	case "histo":
		var ks []string
		var vs []int64
		var runMax int64
		shown := false
		for _, op := range in.HOps {
			if op.Kind == "line" {
				if op.N < in.MaxLines {
					if op.Val > runMax {
						if shown {
							t = append(t, "b:maximum-grows-after-a-line-was-drawn")
						}
						runMax = op.Val
					}
					if op.Val > 0 {
						shown = true
					}
				}
				ks = append(ks, op.Key)
				vs = append(vs, op.Val)
				if op.N >= in.MaxLines {
					t = append(t, "b:line-at-or-beyond-limit")
				}
			}
		}
		t = append(t, keyTags(ks)...)
		t = append(t, valTags(vs)...)
	case "barg":
		var ks []string
		var vs []int64
		for _, op := range in.BOps {
			if !op.Foot {
				ks = append(ks, op.Key)
				vs = append(vs, op.Vals...)
			}
		}
		t = append(t, keyTags(append(ks, in.Keys...))...)
		t = append(t, valTags(vs)...)
	case "heat", "spark", "data":
		if len(o.States) > 0 {
			st := o.States[len(o.States)-1]
			if len(st.Cols) > in.CLim {
				t = append(t, "b:more-columns-than-fit")
			}
			if len(st.Rows) > in.RLim {
				t = append(t, "b:more-rows-than-fit")
			}
			if in.CLim == 0 || in.RLim == 0 {
				t = append(t, "b:zero-limit")
			}
			if len(o.States) >= 2 {
				t = append(t, "b:several-frames")
				grew, shrank, ovPrev := false, false, false
				for i := 1; i < len(o.States); i++ {
					a, b := o.States[i-1], o.States[i]
					if len(a.Rows) > in.RLim && len(b.Rows) > len(a.Rows) {
						grew = true
					}
					if len(b.Rows) < len(a.Rows) {
						shrank = true
					}
					_ = ovPrev
				}
				if grew {
					t = append(t, "b:rows-keep-growing-after-overflow")
				}
				if shrank {
					t = append(t, "b:rows-shrink-between-frames")
				}
			}
			if in.Fmt == 2 {
				t = append(t, "b:format-expression")
				if st.Min == st.Max && st.Min != 0 {
					t = append(t, "b:format-expression-min-equals-max")
				}
			}
			t = append(t, keyTags(append(append([]string{}, st.Cols...), st.Rows...))...)
			var vs []int64
			for _, r := range st.Vals {
				vs = append(vs, r...)
			}
			t = append(t, valTags(vs)...)
		}
	}
	// de-duplicate
	seen := map[string]bool{}
	var out []string
	for _, x := range t {
		if !seen[x] {
			seen[x] = true
			out = append(out, x)
		}
	}
	return out
}

// ---------------------------------------------------------------- generators

var keyPool = []string{
	"", "a", "b", "abc", "test", "key one", "x ", " y", "0", "-", "m", "[0m",
	"✤✥✦", "日本語", "é", "a✤c", "𝔘𝔫𝔦", "██",
	"\x1b[31mred\x1b[0m", "\x1b[1m", "\x1b", "\x1b[", "a\x1bb", "\x1b[0m", "end\x1b[0m", "\x1b[31m", "\x1bmm",
	"a-rather-long-key-name-0123456789", "the quick brown fox jumps over the lazy dog again and again",
	"长长长长长长长长长长长长长长长长长长长长", "2023-01-02", "10", "100", "GET", "POST", "/index.html",
}

func genKey(r *Rng) string {
	switch r.Intn(10) {
	case 0:
		n := r.Range(17, 70)
		var sb strings.Builder
		for i := 0; i < n; i++ {
			sb.WriteByte(byte('a' + r.Intn(26)))
		}
		return sb.String()
	case 1:
		n := r.Range(1, 6)
		var sb strings.Builder
		for i := 0; i < n; i++ {
			sb.WriteRune(Pick(r, []rune{'a', 'Z', '0', ' ', 'm', '[', 0x1b, 'é', '✤', '日', 0x1F600, '.', '_'}))
		}
		return sb.String()
	default:
		return Pick(r, keyPool)
	}
}

func genVal(r *Rng) int64 {
	switch r.Intn(12) {
	case 0:
		return 0
	case 1:
		return 1
	case 2:
		return -int64(r.Range(1, 20))
	case 3:
		return int64(r.Range(0, 10))
	case 4:
		return int64(r.Range(0, 1000))
	case 5:
		return int64(r.U64() % 1000000)
	case 6:
		return int64(r.U64() % (1 << 50))
	case 7:
		return -int64(r.U64() % (1 << 50))
	case 8:
		return int64(1) << uint(r.Range(0, 50))
	case 9:
		return int64(r.Range(90, 110))
	default:
		return int64(r.Range(1, 100))
	}
}

// a list of values with a regime: all zero, all equal, non-positive, mixed
func genVals(r *Rng, n int) []int64 {
	vs := make([]int64, n)
	switch r.Intn(8) {
	case 0:
		// all zero
	case 1:
		v := genVal(r)
		for i := range vs {
			vs[i] = v
		}
	case 2:
		for i := range vs {
			vs[i] = -int64(r.Range(0, 9))
		}
	case 3:
		for i := range vs {
			vs[i] = int64(r.Range(0, 9))
		}
	default:
		for i := range vs {
			vs[i] = genVal(r)
		}
	}
	return vs
}

var extremes = []int64{math.MinInt64, math.MinInt64 + 1, -(1 << 62), -(1 << 53) - 1, -(1 << 53), -1000, -2, -1, 0, 1, 2, 3, 7, 8, 9, 10, 100, 1000,
	1<<53 - 1, 1 << 53, 1<<53 + 1, 1 << 62, math.MaxInt64 - 1, math.MaxInt64}

func genI64(r *Rng) int64 {
	switch r.Intn(5) {
	case 0:
		return Pick(r, extremes)
	case 1:
		return int64(r.U64())
	case 2:
		return int64(r.Range(-20, 40))
	default:
		return genVal(r)
	}
}

func genUnit(r *Rng) float64 {
	switch r.Intn(10) {
	case 0:
		return 0
	case 1:
		return 1
	case 2:
		return float64(r.Range(0, 16)) / 16
	case 3:
		return float64(r.Range(1, 9)) / float64(r.Range(9, 30))
	case 4:
		return math.Nextafter(1, 0)
	case 5:
		return float64(r.Range(0, 100)) / 100
	case 6:
		return math.Float64frombits(0x3ff0000000000000 - r.U64()%(1<<40)) // just below 1
	default:
		return float64(r.U64()%(1<<53)) / float64(uint64(1)<<53)
	}
}

func genUnits(r *Rng, n int) []float64 {
	us := make([]float64, n)
	for i := range us {
		us[i] = genUnit(r)
	}
	sort.Float64s(us)
	return us
}

func genScaler(r *Rng) string { return Pick(r, []string{"linear", "linear", "log2", "log10"}) }

func genScale(r *Rng) c14In {
	in := c14In{Kind: "scale", Scaler: genScaler(r)}
	a, b := genI64(r), genI64(r)
	switch r.Intn(8) {
	case 0:
		b = a // degenerate
	case 1:
		if a < b {
			a, b = b, a // max < min
		}
	case 2:
		a = math.MaxInt64
		b = a
	default:
		if a > b {
			a, b = b, a
		}
	}
	in.Mn, in.Mx = a, b
	n := r.Range(2, 7)
	vs := []int64{a, b}
	for i := 0; i < n; i++ {
		switch r.Intn(4) {
		case 0:
			vs = append(vs, genI64(r))
		case 1:
			if a > math.MinInt64 {
				vs = append(vs, a-1)
			}
			if b < math.MaxInt64 {
				vs = append(vs, b+1)
			}
		default:
			// inside the range
			if b > a {
				span := uint64(b) - uint64(a)
				off := r.U64()
				if span+1 != 0 {
					off %= span + 1
				}
				vs = append(vs, int64(uint64(a)+off))
			}
		}
	}
	sort.Slice(vs, func(i, j int) bool { return vs[i] < vs[j] })
	in.Vs = vs
	return in
}

func genKeys(r *Rng) c14In {
	a := int64(r.Range(-50, 200))
	if r.Chance(1, 3) {
		a = genVal(r)
	}
	var b int64
	switch r.Intn(5) {
	case 0:
		b = a
	case 1:
		b = a + int64(r.Range(0, 6))
	case 2:
		b = a - int64(r.Range(1, 10))
	default:
		b = a + int64(r.U64()%(1<<uint(r.Range(1, 45))))
	}
	return c14In{Kind: "keys", Mn: a, Mx: b}
}

func genStack(r *Rng) c14In {
	in := c14In{Kind: "stack", Col: r.Bool(), Uni: r.Bool(), MaxLen: int64(Pick(r, []int{0, 1, 7, 10, 50, 50, 50, 80}))}
	in.Vs = genVals(r, r.Range(0, 6))
	var sum, mx int64
	for _, v := range in.Vs {
		sum += v
		if v > mx {
			mx = v
		}
	}
	switch r.Intn(6) {
	case 0:
		in.MaxVal = 0
	case 1:
		in.MaxVal = sum + int64(r.Range(0, 20))
	case 2:
		in.MaxVal = mx
	case 3:
		// a negative maximum (never passed by BarGraph): the pinned code draws val*len/max blocks,
		// so the values are kept small here — the harness must not allocate terabytes
		in.MaxVal = -int64(r.Range(1, 5))
		for i := range in.Vs {
			in.Vs[i] = int64(r.Range(-9, 9))
		}
	default:
		in.MaxVal = sum
		if in.MaxVal < 0 {
			in.MaxVal = 0
		}
	}
	return in
}

func genCell(r *Rng, col bool) string {
	k := genKey(r)
	if r.Chance(1, 3) {
		// the way the renderers colour a cell
		old := color.Enabled
		color.Enabled = col
		k = color.Wrap(color.Yellow, k)
		color.Enabled = old
	}
	return k
}

func genTable(r *Rng) c14In {
	in := c14In{Kind: "table", Col: r.Bool(), MaxC: r.Range(0, 5), MaxR: r.Range(0, 6)}
	n := r.Range(1, 10)
	for i := 0; i < n; i++ {
		if r.Chance(1, 8) {
			in.TOps = append(in.TOps, tOp{Foot: true, N: r.Range(0, 2), Line: genKey(r)})
			continue
		}
		nc := r.Range(0, in.MaxC+1)
		cells := make([]string, nc)
		for j := range cells {
			cells[j] = genCell(r, in.Col)
		}
		in.TOps = append(in.TOps, tOp{N: r.Range(0, in.MaxR+1), Cells: cells})
	}
	return in
}

var litPool = []string{" of ", " in [", "..", "]", "/", "-", ":", " ", "x", "max=", " (", ")", "#", "=", "% of "}

// a --format expression with at least one reference
func genTmpl(r *Rng) []piece {
	n := r.Range(1, 5)
	var ps []piece
	hasRef := false
	for i := 0; i < n; i++ {
		if r.Chance(2, 5) {
			ps = append(ps, piece{Ref: -1, Lit: Pick(r, litPool)})
		} else {
			ps = append(ps, piece{Ref: r.Intn(3), Named: r.Bool()})
			hasRef = true
		}
	}
	if !hasRef || r.Chance(1, 2) {
		ps = append(ps, piece{Ref: -1, Lit: Pick(r, litPool)}, piece{Ref: 2, Named: r.Bool()})
	}
	return ps
}

// formatter choice for a renderer case
func setFmt(r *Rng, in *c14In) {
	in.Fmt = r.Intn(3)
	if in.Fmt == 2 {
		in.Tmpl = genTmpl(r)
	}
}

// one compiled formatter, a sequence of calls in which min/max repeat, coincide, and take the
// value another argument had in the previous call
func genFmtSeq(r *Rng) c14In {
	in := c14In{Kind: "fmt", Fmt: 2, Tmpl: genTmpl(r)}
	n := r.Range(2, 8)
	var prev [3]int64
	for i := 0; i < n; i++ {
		var c [3]int64
		c[0] = genVal(r)
		switch r.Intn(7) {
		case 0:
			c[1], c[2] = c[0], c[0] // all equal
		case 1:
			c[1] = int64(r.Range(0, 9))
			c[2] = c[1] // min = max
		case 2:
			c[1], c[2] = prev[1], prev[2] // same frame
		case 3:
			c[1] = int64(r.Range(0, 9))
			c[2] = prev[1] // max takes the previous min
		case 4:
			c[1] = prev[2]
			c[2] = prev[2] + int64(r.Range(0, 5))
		default:
			a, b := genVal(r), genVal(r)
			if a > b {
				a, b = b, a
			}
			c[1], c[2] = a, b
		}
		in.Calls = append(in.Calls, c)
		prev = c
	}
	return in
}

// frames as the histogram command draws them: UpdateTotal, then the lines top to bottom — in key
// order, so the largest value can be anywhere and the maximum can grow in the middle of a frame
func genHistoFrames(r *Rng) c14In {
	in := c14In{Kind: "histo", Col: r.Bool(), Uni: r.Bool(), Scaler: genScaler(r), MaxLines: r.Range(2, 6), ShowBar: true}
	setFmt(r, &in)
	k := r.Range(2, in.MaxLines)
	keys := make([]string, k)
	vals := make([]int64, k)
	for i := range keys {
		keys[i] = fmt.Sprintf("%c%d", 'a'+i, i)
		if r.Chance(1, 5) {
			keys[i] = genKey(r) + fmt.Sprint(i)
		}
	}
	top := int64(Pick(r, []int{10, 100, 1000, 1000000}))
	order := r.Intn(4)
	for i := range vals {
		switch order {
		case 0: // ascending: maximum last
			vals[i] = top * int64(i+1) / int64(k)
		case 1: // maximum in the middle
			vals[i] = 1 + int64(r.Intn(int(top/2)))
			if i == k/2 {
				vals[i] = top
			}
		case 2: // powers: 1, 10, 100, ...
			vals[i] = 1
			for j := 0; j < i; j++ {
				vals[i] *= 10
			}
		default:
			vals[i] = 1 + int64(r.Intn(int(top)))
		}
		if vals[i] < 1 {
			vals[i] = 1
		}
	}
	frames := r.Range(1, 3)
	for f := 0; f < frames; f++ {
		if f > 0 || r.Bool() {
			var total int64
			for _, v := range vals {
				total += v
			}
			in.HOps = append(in.HOps, hOp{Kind: "total", Val: total})
		}
		for i := 0; i < k; i++ {
			in.HOps = append(in.HOps, hOp{Kind: "line", N: i, Key: keys[i], Val: vals[i]})
		}
		// the counts grow between frames, not uniformly
		for i := range vals {
			vals[i] += int64(r.Intn(int(top))) * int64(r.Intn(3))
		}
	}
	return in
}

var cliTokens = []string{"a", "b", "c", "d", "e", "x1", "x2", "GET", "POST", "200", "404", "日本", "é"}

// samples with counts spread over decades, so that the scales draw different pictures
func genSpread(r *Rng, nc, nr int, toks bool) []sample {
	var out []sample
	for c := 0; c < nc; c++ {
		for rw := 0; rw < nr; rw++ {
			if r.Chance(1, 6) {
				continue
			}
			col, row := fmt.Sprint("c", c), fmt.Sprint("r", rw)
			if toks {
				col, row = cliTokens[c%len(cliTokens)], cliTokens[(rw+5)%len(cliTokens)]
			}
			out = append(out, sample{Col: col, Row: row, Inc: int64(Pick(r, []int{1, 2, 5, 9, 10, 30, 99, 100, 250, 500}))})
		}
	}
	if len(out) == 0 {
		out = []sample{{Col: "c0", Row: "r0", Inc: 3}}
	}
	return out
}

// a Heatmap driven in cmd/heatmap.go's order (FixedMin/FixedMax, UpdateMinMax, THEN Scaler and
// Formatter, then the renders), or with the Scaler changed between renders of the same data
func genHeatSeq(r *Rng) c14In {
	in := c14In{Kind: "heatseq", Col: r.Bool(), Uni: r.Bool(), RLim: r.Range(1, 6), CLim: r.Range(1, 8)}
	data := genSpread(r, r.Range(1, 6), r.Range(1, 4), false)
	scalerStep := func() hstep { return hstep{Op: "scaler", Scaler: Pick(r, []string{"linear", "log2", "log10", "log2", "log10"})} }
	fmtStep := func() hstep {
		st := hstep{Op: "fmt", Fmt: r.Intn(3)}
		if st.Fmt == 2 {
			st.Tmpl = genTmpl(r)
		}
		return st
	}
	if r.Chance(3, 5) {
		// the command's order
		switch r.Intn(6) {
		case 0:
			in.FixMin = true
		case 1:
			in.FixMax = true
		default:
			in.FixMin, in.FixMax = true, true
		}
		lo, hi := int64(Pick(r, []int{0, 1, 1, 2, 10})), int64(Pick(r, []int{100, 500, 1000, 1000, 4, 64}))
		in.Steps = append(in.Steps, hstep{Op: "upd", Mn: lo, Mx: hi}, scalerStep(), fmtStep())
		in.Steps = append(in.Steps, hstep{Op: "table", Batch: data})
		if r.Bool() {
			in.Steps = append(in.Steps, hstep{Op: "table", Batch: genSpread(r, 2, 2, false)})
		}
	} else {
		// one Heatmap reused across scalers: same data, same range, another scale
		if r.Bool() {
			in.Steps = append(in.Steps, scalerStep())
		}
		in.Steps = append(in.Steps, hstep{Op: "table", Batch: data})
		n := r.Range(1, 3)
		for i := 0; i < n; i++ {
			in.Steps = append(in.Steps, scalerStep())
			if r.Chance(1, 3) {
				in.Steps = append(in.Steps, fmtStep())
			}
			in.Steps = append(in.Steps, hstep{Op: "table", Batch: []sample{}})
		}
	}
	return in
}

// ONE renderer instance over 2-5 frames of a growing table: the limits are smaller than the data
// from the first frame on, rows (and columns, named like time buckets) keep arriving, and with
// trim_columns the table also shrinks (rows seen only in old columns disappear)
func genFrames(r *Rng, kind string) c14In {
	in := c14In{Kind: kind, Col: r.Bool(), Uni: r.Bool(), Scaler: genScaler(r), RowTot: r.Bool(), ColTot: r.Bool()}
	setFmt(r, &in)
	if kind == "data" {
		in.Scaler = ""
	}
	in.RLim = r.Range(1, 3)
	in.CLim = r.Range(1, 4)
	in.TrimCols = r.Bool()
	nf := r.Range(2, 5)
	nextRow, nextCol := 0, 0
	var rows []string
	col := func(i int) string { return fmt.Sprintf("t%02d", i) }
	newRow := func() string {
		k := fmt.Sprintf("r%d", nextRow)
		if r.Chance(1, 4) {
			k = genKey(r) + fmt.Sprint(nextRow)
		}
		nextRow++
		rows = append(rows, k)
		return k
	}
	for f := 0; f < nf; f++ {
		var batch []sample
		add := in.RLim + r.Range(1, 2) // the first frame already overflows
		if f > 0 {
			add = r.Range(0, 3)
			if f == 1 {
				add = r.Range(1, 4) // and the row count keeps growing after it
			}
		}
		if f == 0 || r.Chance(1, 2) {
			nextCol++
		}
		for i := 0; i < add; i++ {
			// a new row, seen in the newest column only (it vanishes once that column is trimmed)
			batch = append(batch, sample{Col: col(nextCol - 1), Row: newRow(), Inc: genValSmall(r)})
		}
		for i := r.Range(0, 4); i > 0 && len(rows) > 0; i-- {
			batch = append(batch, sample{Col: col(r.Intn(nextCol)), Row: Pick(r, rows), Inc: genValSmall(r)})
		}
		if batch == nil {
			batch = []sample{}
		}
		in.Batches = append(in.Batches, batch)
	}
	return in
}

func genValSmall(r *Rng) int64 {
	return int64(Pick(r, []int{1, 1, 2, 3, 7, 10, 50, 100, 1000}))
}

// frames for `rare bargraph`: all sub-keys and one dominant row in the first frame, then more
// samples for rows that stay in place (often without raising the global maximum)
func genBargFrames(r *Rng) c14In {
	in := c14In{Kind: "bargf", Col: r.Bool(), Uni: r.Bool(), Scaler: genScaler(r), Stacked: r.Bool(), Size: Pick(r, []int{10, 50, 50}), ByValue: r.Chance(1, 4)}
	setFmt(r, &in)
	nk, ns := r.Range(1, 4), r.Range(1, 3)
	keys := make([]string, nk)
	subs := make([]string, ns)
	for i := range keys {
		keys[i] = strings.Repeat(string(rune('a'+i)), 4)
		if r.Chance(1, 5) {
			keys[i] = genKey(r) + fmt.Sprint(i)
		}
	}
	for i := range subs {
		subs[i] = fmt.Sprintf("s%d", i)
	}
	var first []skSample
	for i, k := range keys {
		for _, sb := range subs {
			inc := int64(r.Range(1, 9))
			if i == 0 {
				inc = int64(Pick(r, []int{50, 100, 1000})) // the row that holds the maximum
			}
			first = append(first, skSample{Key: k, Sub: sb, Inc: inc})
		}
	}
	in.SKFrames = append(in.SKFrames, first)
	nf := r.Range(1, 4)
	for f := 0; f < nf; f++ {
		var fr []skSample
		for i := r.Range(1, 4); i > 0; i-- {
			k := Pick(r, keys)
			if len(keys) > 1 && r.Chance(3, 4) {
				k = keys[1+r.Intn(len(keys)-1)] // not the dominant row
			}
			fr = append(fr, skSample{Key: k, Sub: Pick(r, subs), Inc: int64(r.Range(1, 12))})
		}
		if r.Chance(1, 6) {
			fr = append(fr, skSample{Key: Pick(r, keys), Sub: fmt.Sprintf("s%d", ns+f), Inc: 1}) // a new sub-key
		}
		if r.Chance(1, 5) {
			// several rows overtake the maximum in one frame
			for _, k := range keys {
				fr = append(fr, skSample{Key: k, Sub: Pick(r, subs), Inc: int64(r.Range(500, 3000))})
			}
		}
		if r.Chance(1, 6) {
			fr = append(fr, skSample{Key: fmt.Sprintf("zz%d", f), Sub: Pick(r, subs), Inc: int64(r.Range(1, 2000))}) // a new row
		}
		in.SKFrames = append(in.SKFrames, fr)
	}
	return in
}

func genCli(r *Rng) c14In {
	in := c14In{Kind: "cli", Col: r.Bool(), Uni: r.Bool(), Scaler: Pick(r, []string{"linear", "log2", "log10", "log2", "log10"}), RLim: r.Range(1, 6), CLim: r.Range(1, 8)}
	in.Batches = [][]sample{genSpread(r, r.Range(1, 5), r.Range(1, 4), true)}
	return in
}

func genHisto(r *Rng) c14In {
	in := c14In{Kind: "histo", Col: r.Bool(), Uni: r.Bool(), Scaler: genScaler(r), MaxLines: r.Range(0, 6), ShowBar: r.Chance(4, 5)}
	setFmt(r, &in)
	n := r.Range(1, 10)
	vs := genVals(r, n)
	for i := 0; i < n; i++ {
		switch r.Intn(10) {
		case 0:
			in.HOps = append(in.HOps, hOp{Kind: "total", Val: genVal(r)})
		case 1:
			in.HOps = append(in.HOps, hOp{Kind: "foot", N: r.Range(0, 2), Key: genKey(r)})
		default:
			line := r.Range(0, in.MaxLines+1)
			if r.Chance(4, 5) && in.MaxLines > 0 {
				line = r.Intn(in.MaxLines)
			}
			in.HOps = append(in.HOps, hOp{Kind: "line", N: line, Key: genKey(r), Val: vs[i]})
		}
	}
	return in
}

func genBarG(r *Rng) c14In {
	in := c14In{Kind: "barg", Col: r.Bool(), Uni: r.Bool(), Scaler: genScaler(r), Stacked: r.Bool(), Size: Pick(r, []int{0, 1, 10, 50, 50})}
	setFmt(r, &in)
	nk := r.Range(0, 4)
	for i := 0; i < nk; i++ {
		in.Keys = append(in.Keys, genKey(r))
	}
	if in.Keys == nil {
		in.Keys = []string{}
	}
	n := r.Range(1, 7)
	regime := r.Intn(4)
	for i := 0; i < n; i++ {
		if r.Chance(1, 10) {
			in.BOps = append(in.BOps, bOp{Foot: true, N: r.Range(0, 2), Key: genKey(r), Vals: []int64{}})
			continue
		}
		nv := nk
		if r.Chance(1, 6) {
			nv = r.Range(0, 4)
		}
		var vs []int64
		switch regime {
		case 0:
			vs = make([]int64, nv) // zeros
		case 1:
			vs = make([]int64, nv)
			for j := range vs {
				vs[j] = -int64(r.Range(0, 5))
			}
		default:
			vs = genVals(r, nv)
		}
		in.BOps = append(in.BOps, bOp{N: r.Range(0, 4), Key: genKey(r), Vals: vs})
	}
	return in
}

func genAgg(r *Rng, kind string) c14In {
	in := c14In{Kind: kind, Col: r.Bool(), Uni: r.Bool(), Scaler: genScaler(r), RowTot: r.Bool(), ColTot: r.Bool()}
	setFmt(r, &in)
	if kind == "data" {
		in.Scaler = ""
	}
	ncol, nrow := r.Range(0, 8), r.Range(0, 8)
	cols := map[string]bool{}
	rows := map[string]bool{}
	var cl, rl []string
	for len(cl) < ncol {
		k := genKey(r)
		if r.Chance(1, 3) {
			k = fmt.Sprint(len(cl)) // short names: compaction of the header
		}
		if !cols[k] {
			cols[k] = true
			cl = append(cl, k)
		}
	}
	for len(rl) < nrow {
		k := genKey(r)
		if !rows[k] {
			rows[k] = true
			rl = append(rl, k)
		}
	}
	in.CLim = r.Range(0, ncol+2)
	in.RLim = r.Range(0, nrow+2)
	if r.Chance(1, 4) {
		in.CLim = Pick(r, []int{0, 1, 2, 3})
	}
	nb := r.Range(1, 3)
	regime := r.Intn(6)
	for b := 0; b < nb; b++ {
		var batch []sample
		if regime == 5 && len(cl) > 0 && len(rl) > 0 {
			// every cell the same non-zero number: min = max != 0
			v := int64(Pick(r, []int{1, 2, 7, 1000, -3}))
			for _, c := range cl {
				for _, rw := range rl {
					batch = append(batch, sample{Col: c, Row: rw, Inc: v})
				}
			}
		} else if len(cl) > 0 && len(rl) > 0 {
			ns := r.Range(0, 14)
			for i := 0; i < ns; i++ {
				var inc int64
				switch regime {
				case 0:
					inc = 0
				case 1:
					inc = 1
				case 2:
					inc = -int64(r.Range(0, 3))
				default:
					inc = genVal(r)
				}
				batch = append(batch, sample{Col: Pick(r, cl), Row: Pick(r, rl), Inc: inc})
			}
		}
		if batch == nil {
			batch = []sample{}
		}
		in.Batches = append(in.Batches, batch)
	}
	return in
}

// the recorded defects, always present
func fixedCases() []c14In {
	return []c14In{
		{Kind: "stack", MaxVal: 0, MaxLen: 50, Vs: []int64{0, 0}},
		{Kind: "barg", Stacked: true, Scaler: "linear", Size: 50, Keys: []string{"a", "b"}, BOps: []bOp{{N: 0, Key: "k", Vals: []int64{0, 0}}}},
		{Kind: "histo", Scaler: "linear", MaxLines: 2, ShowBar: true, HOps: []hOp{{Kind: "line", N: 2, Key: "k", Val: 3}}},
		{Kind: "spark", Scaler: "linear", RLim: 3, CLim: 0, Batches: [][]sample{{{Col: "c", Row: "r", Inc: 1}}}},
		{Kind: "heat", Scaler: "linear", RLim: 3, CLim: 3, Batches: [][]sample{{{Col: "", Row: "r", Inc: 1}, {Col: "x", Row: "r", Inc: 2}}}},
		{Kind: "heat", Col: true, Scaler: "linear", RLim: 3, CLim: 3, Batches: [][]sample{{{Col: "", Row: "r", Inc: 1}}}},
		{Kind: "stack", MaxVal: 15, MaxLen: 50, Vs: []int64{-5, 10, 10}},
		{Kind: "scale", Scaler: "log10", Mn: math.MaxInt64, Mx: math.MaxInt64, Vs: []int64{math.MaxInt64}},
		// one Spark over three frames: 3, 5 and 9 rows with a limit of 2 — the note must follow
		{Kind: "spark", Scaler: "linear", RLim: 2, CLim: 3, Batches: [][]sample{
			{{Col: "t1", Row: "a", Inc: 1}, {Col: "t1", Row: "b", Inc: 2}, {Col: "t1", Row: "c", Inc: 3}},
			{{Col: "t2", Row: "d", Inc: 1}, {Col: "t2", Row: "e", Inc: 2}},
			{{Col: "t3", Row: "f", Inc: 1}, {Col: "t3", Row: "g", Inc: 1}, {Col: "t3", Row: "h", Inc: 1}, {Col: "t3", Row: "i", Inc: 4}}}},
		// `rare bargraph`, two frames: row bbbb gets more samples, the maximum (aaaa) does not move
		{Kind: "bargf", Scaler: "linear", Size: 50, SKFrames: [][]skSample{
			{{Key: "aaaa", Sub: "x", Inc: 100}, {Key: "aaaa", Sub: "y", Inc: 50}, {Key: "bbbb", Sub: "x", Inc: 4}, {Key: "bbbb", Sub: "y", Inc: 8}},
			{{Key: "bbbb", Sub: "x", Inc: 16}, {Key: "bbbb", Sub: "y", Inc: 2}}}},
		{Kind: "bargf", Scaler: "linear", Size: 50, Stacked: true, Col: true, Uni: true, SKFrames: [][]skSample{
			{{Key: "aaaa", Sub: "x", Inc: 100}, {Key: "aaaa", Sub: "y", Inc: 50}, {Key: "bbbb", Sub: "x", Inc: 4}, {Key: "bbbb", Sub: "y", Inc: 8}},
			{{Key: "bbbb", Sub: "x", Inc: 16}, {Key: "bbbb", Sub: "y", Inc: 2}}}},
		// two rows overtake the maximum in the same frame (finding C14-bargraph-live-slices)
		{Kind: "bargf", Scaler: "linear", Size: 50, SKFrames: [][]skSample{{{Key: "a", Sub: "x", Inc: 10}, {Key: "b", Sub: "x", Inc: 20}}, {{Key: "a", Sub: "x", Inc: 40}, {Key: "b", Sub: "x", Inc: 60}}}},
		// cmd/heatmap.go's order: fixed bounds, UpdateMinMax, then the scale is assigned
		{Kind: "heatseq", RLim: 4, CLim: 8, FixMin: true, FixMax: true, Steps: []hstep{{Op: "upd", Mn: 1, Mx: 1000}, {Op: "scaler", Scaler: "log10"}, {Op: "fmt", Fmt: 0},
			{Op: "table", Batch: []sample{{Col: "a", Row: "r", Inc: 9}, {Col: "b", Row: "r", Inc: 10}, {Col: "c", Row: "r", Inc: 99}, {Col: "d", Row: "r", Inc: 100}, {Col: "e", Row: "r", Inc: 500}}}}},
		{Kind: "heatseq", Col: true, Uni: true, RLim: 4, CLim: 8, Steps: []hstep{{Op: "table", Batch: []sample{{Col: "a", Row: "r", Inc: 1}, {Col: "b", Row: "r", Inc: 8}, {Col: "c", Row: "r", Inc: 64}}},
			{Op: "scaler", Scaler: "log2"}, {Op: "table", Batch: []sample{}}}},
		{Kind: "cli", Scaler: "log10", RLim: 4, CLim: 8, Batches: [][]sample{{{Col: "a", Row: "r", Inc: 1}, {Col: "b", Row: "r", Inc: 10}, {Col: "c", Row: "r", Inc: 99}, {Col: "d", Row: "r", Inc: 500}}}},
		// all-equal, bucket exactly 1.0, zero limits
		{Kind: "heat", Scaler: "linear", RLim: 0, CLim: 0, Batches: [][]sample{{{Col: "c", Row: "r", Inc: 1}}}},
		{Kind: "heat", Scaler: "log2", Uni: true, Col: true, RLim: 5, CLim: 5, Batches: [][]sample{{{Col: "c", Row: "r", Inc: 7}, {Col: "d", Row: "r", Inc: 7}}, {{Col: "e", Row: "s", Inc: 7}}}},
		// histogram lines in key order with the maximum last; the final screen must be proportional
		{Kind: "histo", Scaler: "linear", MaxLines: 3, ShowBar: true, HOps: []hOp{{Kind: "total", Val: 0}, {Kind: "line", N: 0, Key: "a", Val: 1}, {Kind: "line", N: 1, Key: "b", Val: 10}, {Kind: "line", N: 2, Key: "c", Val: 100}}},
		{Kind: "histo", Scaler: "log10", Uni: true, Col: true, MaxLines: 3, ShowBar: true, HOps: []hOp{{Kind: "line", N: 0, Key: "a", Val: 1}, {Kind: "line", N: 1, Key: "b", Val: 10}, {Kind: "total", Val: 11}, {Kind: "line", N: 0, Key: "a", Val: 2}, {Kind: "line", N: 1, Key: "b", Val: 10}, {Kind: "line", N: 2, Key: "c", Val: 40}}},
		{Kind: "histo", Scaler: "log2", MaxLines: 4, ShowBar: true, HOps: []hOp{{Kind: "line", N: 0, Key: "a", Val: 3}, {Kind: "line", N: 1, Key: "b", Val: 100}, {Kind: "line", N: 2, Key: "c", Val: 7}}},
		// one compiled --format expression: min = max, max taking the value of the previous min
		{Kind: "fmt", Fmt: 2, Tmpl: []piece{{Ref: 0}, {Ref: -1, Lit: " in ["}, {Ref: 1}, {Ref: -1, Lit: ".."}, {Ref: 2}, {Ref: -1, Lit: "] / "}, {Ref: 1, Named: true}, {Ref: -1, Lit: "-"}, {Ref: 2, Named: true}},
			Calls: [][3]int64{{5, 0, 10}, {7, 7, 7}, {3, 3, 9}, {9, 3, 9}, {4, 4, 4}, {0, 0, 0}, {1, 0, 4}}},
		{Kind: "data", Fmt: 2, Tmpl: []piece{{Ref: 0}, {Ref: -1, Lit: " of "}, {Ref: 2}}, RLim: 4, CLim: 4, RowTot: true, ColTot: true,
			Batches: [][]sample{{{Col: "c1", Row: "r1", Inc: 7}, {Col: "c2", Row: "r1", Inc: 7}, {Col: "c1", Row: "r2", Inc: 7}, {Col: "c2", Row: "r2", Inc: 7}}}},
		{Kind: "spark", Scaler: "linear", Fmt: 2, Tmpl: []piece{{Ref: 0, Named: true}, {Ref: -1, Lit: " of "}, {Ref: 2, Named: true}}, RLim: 4, CLim: 4,
			Batches: [][]sample{{{Col: "c1", Row: "r1", Inc: 7}, {Col: "c2", Row: "r1", Inc: 7}}}},
		{Kind: "data", RLim: 1, CLim: 1, RowTot: true, ColTot: true, Batches: [][]sample{{{Col: "c", Row: "r", Inc: 1000}, {Col: "d", Row: "s", Inc: -5}}}},
	}
}

func c14Gen(r *Rng, n int, tier string) []Case {
	var cases []Case
	// inputs on which the pinned WriteHeader did not return run in a child process (2 s each if
	// that defect ever comes back): bounded per run
	hangBudget := 12
	if tier == "thorough" {
		hangBudget = 40
	}
	add := func(in c14In) {
		if kfHeader(in) {
			if hangBudget == 0 {
				return
			}
			hangBudget--
		}
		cases = append(cases, mkCase(in))
	}
	for _, in := range fixedCases() {
		if in.Keys == nil && in.Kind == "barg" {
			in.Keys = []string{}
		}
		add(in)
	}
	for len(cases) < n {
		var in c14In
		switch k := r.Intn(100); {
		case k < 12:
			in = genScale(r)
		case k < 15:
			in = genKeys(r)
		case k < 18:
			in = c14In{Kind: "bucket", N: int64(Pick(r, []int{1, 2, 4, 9, 10, 16, 100})), Us: genUnits(r, r.Range(1, 8))}
		case k < 21:
			in = c14In{Kind: "length", N: int64(Pick(r, []int{0, 1, 9, 50, 450, 1000})), Us: genUnits(r, r.Range(1, 8))}
		case k < 26:
			in = c14In{Kind: "barw", Uni: r.Bool(), N: int64(Pick(r, []int{0, 1, 2, 10, 50})), Us: genUnits(r, r.Range(1, 8))}
		case k < 32:
			in = genStack(r)
		case k < 34:
			in = c14In{Kind: "heatc", Col: r.Bool(), Uni: r.Bool(), Us: genUnits(r, r.Range(1, 8))}
		case k < 36:
			in = c14In{Kind: "sparkc", Uni: r.Bool(), Us: genUnits(r, r.Range(1, 8))}
		case k < 45:
			in = genTable(r)
		case k < 50:
			in = genHisto(r)
		case k < 55:
			in = genHistoFrames(r)
		case k < 58:
			in = genFmtSeq(r)
		case k < 63:
			in = genHeatSeq(r)
		case k < 69:
			in = genFrames(r, Pick(r, []string{"spark", "spark", "spark", "heat", "data"}))
		case k < 77:
			if r.Chance(1, 2) {
				in = genBargFrames(r)
			} else {
				in = genBarG(r)
			}
		case k < 86:
			in = genAgg(r, "heat")
		case k < 92:
			in = genAgg(r, "spark")
		default:
			in = genAgg(r, "data")
		}
		add(in)
	}
	// a few runs of the built `rare heatmap` (process): bounded, they cost a build and ~20 ms each
	ncli := 5
	if tier == "thorough" {
		ncli = 40
	}
	for i := 0; i < ncli; i++ {
		add(genCli(r))
	}
	if rareBin != "" {
		os.Remove(rareBin)
	}
	return cases
}

func memWatch() {
	for {
		time.Sleep(50 * time.Millisecond)
		var ms runtime.MemStats
		runtime.ReadMemStats(&ms)
		if ms.HeapAlloc > 4<<30 {
			fmt.Fprintln(os.Stderr, "C14 harness: runaway allocation in a renderer (a call that did not return keeps allocating); aborting; last input: "+currentInput)
			os.Exit(3)
		}
	}
}

func main() {
	if len(os.Args) > 1 && os.Args[1] == "c14child" {
		childMain()
		return
	}
	go memWatch()
	Main(&Prop{
		Name:   "C14",
		Header: "From Coq Require Import List NArith ZArith QArith.\nFrom RareV Require Import Model.Render Corr.C14Case.\nImport ListNotations.\nOpen Scope Z_scope.\n",
		Rule: "fixed boundary cases (the recorded defects; zero limits; all-equal data) followed by seeded random cases over 17 kinds: Scaler.Scale on ascending value lists for (min,max) incl. int64 extremes, degenerate and inverted ranges x {linear, log2, log10}; ScaleKeys; Bucket / LengthVal / BarWrite / HeatWrite / SparkWrite on unit values incl. 0, 1, 1-ulp, dyadic and non-dyadic fractions; BarWriteStacked; TableWriter row/footer histories; HistoWriter, BarGraph (stacked/grouped) call histories; Heatmap, Spark, DataTable.WriteTable after each of 1-3 batches of samples into a TableAggregator (0-8 rows x 0-8 columns, limits 0..n+2), x colour on/off x unicode on/off x formatter {Passthru, humanize, a generated --format expression over {0}/{val} {1}/{min} {2}/{max} and literal text}; histogram frames (UpdateTotal, then the lines top to bottom in key order: maximum last / in the middle / growing between frames) whose FINAL screen is compared; call sequences on ONE compiled --format expression (min = max, max = previous min, repeated frames); tables whose cells are all equal and non-zero; one Heatmap driven in cmd/heatmap.go's call order (FixedMin/FixedMax, UpdateMinMax, THEN Scaler and Formatter assigned, then 1-2 WriteTable) or reused across scalers (same data and range rendered again after Scaler changed), every displayed cell and legend block compared with the block of the scale in force at that render; ONE Spark / Heatmap / DataTable instance over 2-5 frames of a table that overflows the limits from the first frame and keeps growing (and, with cmd/spark.go's per-frame Trim to the last columns, shrinks), final screen compared line by line incl. the '(n more)' note; a BarGraph fed frame by frame exactly as cmd/bargraph.go feeds it (a real aggregation.SubKeyCounter, SetKeys(SubKeys()) then WriteBar(line, name, Items()...) with the counter's LIVE slices, grouped and stacked, rows changing in place without raising the maximum); the built `rare heatmap --scale S --snapshot` run as a process with --min/--max equal to the data's own range against the run with the automatic range (same picture required). Keys: empty, long, multi-byte, with SGR sequences, with unterminated ESC. Values: zero, negative, all-equal, up to 2^50. " +
			"distinct = distinct JSON input; non-trivial = at least one b:* boundary tag (see distribution).",
		Gen: c14Gen,
		Replay: func(d json.RawMessage) (Case, error) {
			var doc struct {
				Input c14In `json:"input"`
			}
			if err := json.Unmarshal(d, &doc); err != nil {
				return Case{}, err
			}
			if doc.Input.Kind == "" {
				return Case{}, fmt.Errorf("replay: no input.kind")
			}
			return mkCase(doc.Input), nil
		},
		Shard: 40,
	})
	if rareBin != "" {
		os.Remove(rareBin)
	}
}
