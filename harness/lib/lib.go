// verifh: correspondence harness. Runs the implementation (/repo, via `replace rare => /repo`)
// on generated inputs and writes Coq case files that evaluate the model on the same inputs.
package lib

import (
	"encoding/hex"
	"encoding/json"
	"flag"
	"fmt"
	"os"
	"path/filepath"
	"strings"
	"time"
)

// ---- PRNG (SplitMix64): every random choice derives from one seed ----
type Rng struct{ s uint64 }

func NewRng(seed uint64) *Rng {
	// the seed goes through the mixer first so that consecutive seeds give unrelated streams
	r := &Rng{s: seed ^ 0x5DEECE66D1234567}
	r.s = r.U64() ^ (seed * 0xD6E8FEB86659FD93)
	return r
}
func (r *Rng) U64() uint64 {
	r.s += 0x9E3779B97F4A7C15
	z := r.s
	z = (z ^ (z >> 30)) * 0xBF58476D1CE4E5B9
	z = (z ^ (z >> 27)) * 0x94D049BB133111EB
	return z ^ (z >> 31)
}
func (r *Rng) Intn(n int) int {
	if n <= 0 {
		return 0
	}
	return int(r.U64() % uint64(n))
}
func (r *Rng) Range(lo, hi int) int     { return lo + r.Intn(hi-lo+1) } // inclusive
func (r *Rng) Bool() bool               { return r.U64()&1 == 1 }
func (r *Rng) Chance(num, den int) bool { return r.Intn(den) < num }
func (r *Rng) Fork() *Rng               { return &Rng{s: r.U64()} }
func Pick[T any](r *Rng, xs []T) T      { return xs[r.Intn(len(xs))] }

// ---- Coq printing helpers ----
func H(b []byte) string  { return "\"" + hex.EncodeToString(b) + "\"" }
func HS(s string) string { return H([]byte(s)) }

// RL prints a byte string in run-length form [("hex", n); ...] (long runs of one byte are folded;
// Coq's parser cannot take string literals of hundreds of kilobytes).
func RL(b []byte) string {
	var parts []string
	lit := func(x []byte) {
		for len(x) > 0 {
			k := len(x)
			if k > 2000 {
				k = 2000
			}
			parts = append(parts, fmt.Sprintf("(%s,1)", H(x[:k])))
			x = x[k:]
		}
	}
	start := 0
	i := 0
	for i < len(b) {
		j := i
		for j < len(b) && b[j] == b[i] {
			j++
		}
		if j-i >= 64 {
			lit(b[start:i])
			parts = append(parts, fmt.Sprintf("(%s,%d)", H(b[i:i+1]), j-i))
			start = j
		}
		i = j
	}
	lit(b[start:])
	return "[" + strings.Join(parts, ";") + "]"
}
func HL(xs [][]byte) string {
	parts := make([]string, len(xs))
	for i, x := range xs {
		parts[i] = H(x)
	}
	return "[" + strings.Join(parts, ";") + "]"
}
func HLS(xs []string) string {
	parts := make([]string, len(xs))
	for i, x := range xs {
		parts[i] = HS(x)
	}
	return "[" + strings.Join(parts, ";") + "]"
}
func Z(i int64) string {
	if i < 0 {
		return fmt.Sprintf("(%d)", i)
	}
	return fmt.Sprintf("%d", i)
}
func B(b bool) string {
	if b {
		return "true"
	}
	return "false"
}
func CoqList(parts []string) string { return "[" + strings.Join(parts, ";") + "]" }

// ---- cases ----
type Case struct {
	Coq        string   // one Coq term of the property's case type
	Desc       any      // JSON description: input + implementation observable (goes to replay files / samples)
	Key        string   // canonical input, for distinctness
	Nontrivial bool     // exercises at least one of the property's named boundary classes
	Tags       []string // classes exercised (distribution)
}

type Prop struct {
	Name   string
	Header string // Coq header of a case file; must define `mm : list _ -> list (nat*nat)`
	Rule   string // how cases are generated and what makes one non-trivial/distinct
	Gen    func(r *Rng, n int, tier string) []Case
	Replay func(desc json.RawMessage) (Case, error) // re-run the implementation on a recorded input
	Shard  int
}

type Meta struct {
	Property           string         `json:"property"`
	Seed               uint64         `json:"seed"`
	Tier               string         `json:"tier"`
	Evaluations        int            `json:"evaluations"`
	DistinctNontrivial int            `json:"distinct_nontrivial"`
	Distinct           int            `json:"distinct"`
	Rule               string         `json:"rule"`
	Distribution       map[string]int `json:"distribution"`
	Samples            []any          `json:"samples"`
	Shards             []string       `json:"shards"`
	ShardSize          int            `json:"shard_size"`
	ShardStarts        []int          `json:"shard_starts"` // index of the first case of each shard
}

func WriteCases(p *Prop, cases []Case, out string, meta *Meta) error {
	if err := os.MkdirAll(out, 0o755); err != nil {
		return err
	}
	shard := p.Shard
	if shard <= 0 {
		shard = 500
	}
	meta.ShardSize = shard
	jf, err := os.Create(filepath.Join(out, "cases.jsonl"))
	if err != nil {
		return err
	}
	defer jf.Close()
	enc := json.NewEncoder(jf)
	seen := map[string]bool{}
	dist := map[string]int{}
	for i, c := range cases {
		enc.Encode(map[string]any{"index": i, "case": c.Desc, "tags": c.Tags})
		if !seen[c.Key] {
			seen[c.Key] = true
			meta.Distinct++
			if c.Nontrivial {
				meta.DistinctNontrivial++
			}
		}
		for _, t := range c.Tags {
			dist[t]++
		}
	}
	meta.Evaluations = len(cases)
	meta.Distribution = dist
	// a few samples, spread
	for _, i := range []int{0, len(cases) / 3, 2 * len(cases) / 3, len(cases) - 1} {
		if i >= 0 && i < len(cases) && len(meta.Samples) < 4 {
			b, _ := json.Marshal(cases[i].Desc)
			if len(b) > 1500 {
				meta.Samples = append(meta.Samples, string(b[:1500])+"…")
			} else {
				meta.Samples = append(meta.Samples, cases[i].Desc)
			}
		}
	}
	// shards hold at most `shard` cases and at most ~120 KB of Coq text, so one heavy case (a 128 KiB
	// input) does not serialise behind its neighbours: shards are evaluated in parallel
	const maxBytes = 120 << 10
	for lo, k := 0, 0; lo < len(cases); k++ {
		hi, sz := lo, 0
		for hi < len(cases) && hi-lo < shard && (hi == lo || sz+len(cases[hi].Coq) <= maxBytes) {
			sz += len(cases[hi].Coq)
			hi++
		}
		name := fmt.Sprintf("cases_%03d.v", k)
		var sb strings.Builder
		sb.WriteString(p.Header)
		sb.WriteString("\nDefinition cases := [\n")
		for i := lo; i < hi; i++ {
			sb.WriteString("  ")
			sb.WriteString(cases[i].Coq)
			if i+1 < hi {
				sb.WriteString(";")
			}
			sb.WriteString("\n")
		}
		// VERIF_SEARCH_MM (set by the driver only while it searches for a failing input after an obligation broke)
		// names a stricter mismatch function of the property's Corr file, e.g. C19's mm_search
		mmName := "mm"
		if v := os.Getenv("VERIF_SEARCH_MM"); v != "" {
			mmName = v
		}
		sb.WriteString("].\nDefinition M := Eval vm_compute in " + mmName + " cases.\nSet Printing Width 1000000.\nSet Printing Depth 1000000.\nPrint M.\n")
		if err := os.WriteFile(filepath.Join(out, name), []byte(sb.String()), 0o644); err != nil {
			return err
		}
		meta.Shards = append(meta.Shards, name)
		meta.ShardStarts = append(meta.ShardStarts, lo)
		lo = hi
	}
	mb, _ := json.MarshalIndent(meta, "", " ")
	return os.WriteFile(filepath.Join(out, "meta.json"), mb, 0o644)
}

// Main is the entry point of a per-property harness binary:  <bin> gen|replay [flags]
func Main(p *Prop) {
	if len(os.Args) < 2 {
		fmt.Fprintf(os.Stderr, "usage: %s gen|replay --out DIR [--seed S --n N --tier T --file F]\n", p.Name)
		os.Exit(2)
	}
	mode := os.Args[1]
	fs := flag.NewFlagSet("verifh", flag.ExitOnError)
	seed := fs.Uint64("seed", 1, "seed")
	n := fs.Int("n", 300, "number of cases")
	tier := fs.String("tier", "quick", "tier")
	out := fs.String("out", "", "output directory")
	file := fs.String("file", "", "replay file (JSON with a `case` member or a `cases` list)")
	fs.Parse(os.Args[2:])
	if *out == "" {
		fmt.Fprintln(os.Stderr, "--out required")
		os.Exit(2)
	}
	meta := &Meta{Property: p.Name, Seed: *seed, Tier: *tier, Rule: p.Rule}
	var cases []Case
	switch mode {
	case "gen":
		cases = p.Gen(NewRng(*seed), *n, *tier)
	case "replay":
		raw, err := os.ReadFile(*file)
		if err != nil {
			fmt.Fprintln(os.Stderr, err)
			os.Exit(2)
		}
		var doc struct {
			Case  json.RawMessage   `json:"case"`
			Cases []json.RawMessage `json:"cases"`
		}
		if err := json.Unmarshal(raw, &doc); err != nil {
			fmt.Fprintln(os.Stderr, err)
			os.Exit(2)
		}
		all := doc.Cases
		if doc.Case != nil {
			all = append(all, doc.Case)
		}
		for _, d := range all {
			c, err := p.Replay(d)
			if err != nil {
				fmt.Fprintln(os.Stderr, err)
				os.Exit(2)
			}
			cases = append(cases, c)
		}
	default:
		fmt.Fprintln(os.Stderr, "mode must be gen or replay")
		os.Exit(2)
	}
	if err := WriteCases(p, cases, *out, meta); err != nil {
		fmt.Fprintln(os.Stderr, err)
		os.Exit(2)
	}
}

// Guarded runs f on its own goroutine and waits at most d for it. It returns ("ok", nil panic value),
// ("panic", value) or ("hang", nil). A hung f keeps its goroutine spinning until the harness exits
// (Go cannot stop it), so callers should stop evaluating that input family after a hang; the harness
// process itself still finishes and the hang is reported as an observable of the case, with its input.
func Guarded(d time.Duration, f func()) (outcome string, panicValue any) {
	type res struct {
		pv  any
		pan bool
	}
	ch := make(chan res, 1)
	go func() {
		defer func() {
			if r := recover(); r != nil {
				ch <- res{r, true}
			}
		}()
		f()
		ch <- res{nil, false}
	}()
	select {
	case r := <-ch:
		if r.pan {
			return "panic", r.pv
		}
		return "ok", nil
	case <-time.After(d):
		return "hang", nil
	}
}
