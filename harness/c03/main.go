package main

// C03: the `rare` binary built from the working tree, aggregator commands with `--csv -`, under
// several tuning variants (workers, batch, batch-buffer, readers, GOMAXPROCS, file order, re-split).

import (
	"bytes"
	"compress/gzip"
	"encoding/hex"
	"encoding/json"
	"fmt"
	"os"
	"os/exec"
	"path/filepath"
	"strings"
	"sync"
	"syscall"
	"time"

	. "verifh/lib"
	"verifh/pipe"
)

type c03File struct {
	Name    string `json:"name"`
	Content string `json:"content_hex"`
	Gzip    bool   `json:"gzip,omitempty"`
}
type variant struct {
	Workers, Batch, Buffer, Readers, Gomaxprocs int
	Reverse                                     bool `json:",omitempty"`
	Resplit                                     int  `json:",omitempty"` // re-divide all lines among this many files
	ShortPieces                                 bool `json:",omitempty"` // with Resplit: the first line alone (a file of a few bytes), an empty file, the rest
	ForceZ                                      bool `json:",omitempty"` // pass -z although no file is gzip: plain files are read from their first byte
	Stdin                                       bool `json:",omitempty"` // feed the concatenated input on standard input
	Fifo                                        bool `json:",omitempty"` // the concatenated input through a named pipe given as the file argument (stat size 0, cannot seek)
	CsvFile                                     bool `json:",omitempty"` // --csv <file> where <file> already holds a longer, older export
	StdinPauseMs                                int  `json:",omitempty"` // pause in the middle of standard input (forces the 250 ms time flush)
	StdinBursts                                 int  `json:",omitempty"` // with StdinPauseMs: number of bursts the input is cut into (default 2); every pause lets the 100 ms refresh render mid-stream
}
type c03In struct {
	Cmd      string        `json:"cmd"`
	Files    []c03File     `json:"files"`
	Regex    string        `json:"regex"`
	Extract  []pipe.KPiece `json:"extract_tmpl"`
	Args     []string      `json:"extra_args,omitempty"`
	Variants []variant     `json:"variants"`
	Strict   bool          `json:"strict_snapshots,omitempty"` // the twin case that only compares the snapshot texts byte for byte
}
type runObs struct {
	Code   int    `json:"exit"`
	Stdout string `json:"stdout_hex"`
	Note   string `json:"note,omitempty"`
	Snap   string `json:"snapshot_hex,omitempty"` // the same command without --csv: its piped (snapshot) standard output without the last line
}

// recorded finding: layout widths of the renderers only grow between frames, so the padding of the final snapshot
// depends on what intermediate refreshes displayed. Domain (decided from the input alone): a variant that pauses
// standard input (intermediate refreshes happen) of a command that prints a snapshot.
const kfPadding = "C03-snapshot-padding-history"

// rare spark --cols n trims the table to its last n columns at every refresh; a row whose cells all fell out of
// that window disappears from the table, but the renderer never clears the screen line it was drawn on, so the
// final snapshot of input that arrived in bursts can show rows the same input read at once does not show
const kfStale = "C03-spark-stale-rows"

func isSeqReduce(in c03In) bool {
	return in.Cmd == "reduce" && len(in.Args) == 4 && strings.HasPrefix(in.Args[3], "seq=")
}

func hasRefreshVariant(in c03In) bool {
	if in.Cmd == "analyze" {
		return false
	}
	for _, v := range in.Variants {
		if v.Stdin && v.StdinPauseMs > 0 {
			return true
		}
	}
	return false
}

const histoNum = 8 // rows `rare histo` displays in the generated cases (-n)

var rareBin string
var buildOnce sync.Once
var buildErr string

func buildRare() {
	repo := os.Getenv("VERIF_REPO")
	if repo == "" {
		repo = "/repo"
	}
	rareBin = filepath.Join(pipe.Workdir(), fmt.Sprintf("rare-%d", os.Getpid()))
	cmd := exec.Command("go", "build", "-o", rareBin, ".")
	cmd.Dir = repo
	cmd.Env = append(os.Environ(), "GOFLAGS=-mod=mod", "GOPROXY=off", "GOSUMDB=off", "GOTOOLCHAIN=local")
	if out, err := cmd.CombinedOutput(); err != nil {
		buildErr = err.Error() + ": " + string(out)
	}
}

func extractString(t []pipe.KPiece) string {
	// histogram-style keys use {$ ..} to join parts with NUL (a NUL byte cannot be passed on a command line)
	var parts []string
	for _, p := range t {
		switch p.Kind {
		case "group":
			parts = append(parts, fmt.Sprintf("{%d}", p.Idx))
		case "line":
			parts = append(parts, "{line}")
		case "lit":
			if p.Text != "\x00" {
				parts = append(parts, p.Text)
			}
		}
	}
	if len(parts) == 1 {
		return parts[0]
	}
	return "{$ " + strings.Join(parts, " ") + "}"
}

func runVariant(in c03In, v variant, dir string) runObs {
	os.MkdirAll(dir, 0o755)
	defer os.RemoveAll(dir)
	var paths []string
	var all []byte
	for _, f := range in.Files {
		b, _ := hex.DecodeString(f.Content)
		all = append(all, b...)
	}
	anyGz := false
	write := func(name string, b []byte, gz bool) {
		p := filepath.Join(dir, name)
		if gz {
			var buf bytes.Buffer
			w := gzip.NewWriter(&buf)
			w.Write(b)
			w.Close()
			b = buf.Bytes()
			anyGz = true
		}
		os.WriteFile(p, b, 0o644)
		paths = append(paths, p)
	}
	switch {
	case v.Stdin:
	case v.Fifo:
		p := filepath.Join(dir, "pipe.log")
		if err := syscall.Mkfifo(p, 0o644); err != nil {
			return runObs{Code: -1, Note: err.Error()}
		}
		paths = append(paths, p)
	case v.Resplit > 0 && v.ShortPieces:
		first, rest := all, []byte(nil)
		if i := bytes.IndexByte(all, '\n'); i >= 0 {
			first, rest = all[:i+1], all[i+1:]
		}
		write("part0.log", first, false)
		write("part1.log", nil, false)
		write("part2.log", rest, false)
	case v.Resplit > 0:
		lines := bytes.SplitAfter(all, []byte("\n"))
		chunks := make([][]byte, v.Resplit)
		for i, l := range lines {
			chunks[i%v.Resplit] = append(chunks[i%v.Resplit], l...)
		}
		for i, c := range chunks {
			write(fmt.Sprintf("part%d.log", i), c, false)
		}
	default:
		for _, f := range in.Files {
			b, _ := hex.DecodeString(f.Content)
			write(f.Name, b, f.Gzip)
		}
	}
	if v.Reverse {
		for i, j := 0, len(paths)-1; i < j; i, j = i+1, j-1 {
			paths[i], paths[j] = paths[j], paths[i]
		}
	}
	args := []string{in.Cmd, "-m", in.Regex, "-e", extractString(in.Extract)}
	if in.Cmd != "analyze" { // analyze has no CSV export: its snapshot text is compared instead
		args = append(args, "--csv", "-")
	}
	args = append(args, "--workers", fmt.Sprint(v.Workers), "--batch", fmt.Sprint(v.Batch), "--batch-buffer", fmt.Sprint(v.Buffer), "--readers", fmt.Sprint(v.Readers))
	if anyGz || (v.ForceZ && !v.Stdin) {
		args = append(args, "-z")
	}
	args = append(args, in.Args...)
	args = append(args, paths...)
	csvPath := ""
	if v.CsvFile && in.Cmd != "analyze" {
		csvPath = filepath.Join(dir, "export.csv")
		os.WriteFile(csvPath, bytes.Repeat([]byte("stale row of an older export,9\n"), 1500), 0o644)
		for i := range args {
			if args[i] == "--csv" && i+1 < len(args) {
				args[i+1] = csvPath
			}
		}
	}
	// the last line of a snapshot is the reader status (bytes read and a data RATE, file counters): timing
	// dependent by design and not part of the result; everything above it is compared
	dropStatus := func(ob []byte) []byte {
		t := bytes.TrimRight(ob, "\n")
		if i := bytes.LastIndexByte(t, '\n'); i >= 0 {
			return t[:i+1]
		}
		return nil
	}
	first := runOnce(in, v, all, args)
	if csvPath != "" && first.Code >= 0 {
		b, _ := os.ReadFile(csvPath)
		first.Stdout = hex.EncodeToString(b) // the export is the file's content, all of it
	}
	if in.Cmd == "analyze" {
		b, _ := hex.DecodeString(first.Stdout)
		first.Stdout = hex.EncodeToString(dropStatus(b))
		return first
	}
	if first.Code < 0 {
		return first
	}
	// the same command without the CSV export: what it prints when its output is piped (snapshot)
	var sargs []string
	for i := 0; i < len(args); i++ {
		if args[i] == "--csv" {
			i++
			continue
		}
		sargs = append(sargs, args[i])
	}
	snap := runOnce(in, v, all, sargs)
	if snap.Code != first.Code {
		first.Note = fmt.Sprintf("exit status %d with --csv, %d without", first.Code, snap.Code)
		first.Code = -4
		return first
	}
	sb, _ := hex.DecodeString(snap.Stdout)
	first.Snap = hex.EncodeToString(dropStatus(sb))
	return first
}

func runOnce(in c03In, v variant, all []byte, args []string) runObs {
	cmd := exec.Command(rareBin, args...)
	cmd.Env = append(os.Environ(), fmt.Sprintf("GOMAXPROCS=%d", v.Gomaxprocs))
	var feed func()
	if v.Stdin && v.StdinPauseMs > 0 {
		pw, err := cmd.StdinPipe()
		if err != nil {
			return runObs{Code: -1, Note: err.Error()}
		}
		nb := v.StdinBursts
		if nb < 2 {
			nb = 2
		}
		var cuts []int
		for k := 1; k < nb; k++ {
			end := len(all)*k/nb + 1
			if end > len(all) {
				end = len(all)
			}
			c := bytes.LastIndexByte(all[:end], '\n') + 1
			if len(cuts) == 0 || c > cuts[len(cuts)-1] {
				cuts = append(cuts, c)
			}
		}
		feed = func() {
			prev := 0
			for _, c := range cuts {
				pw.Write(all[prev:c])
				time.Sleep(time.Duration(v.StdinPauseMs) * time.Millisecond)
				prev = c
			}
			pw.Write(all[prev:])
			pw.Close()
		}
	} else if v.Stdin {
		cmd.Stdin = bytes.NewReader(all)
	}
	var stdout, stderr bytes.Buffer
	cmd.Stdout, cmd.Stderr = &stdout, &stderr
	done := make(chan error, 1)
	if v.Fifo {
		fifo := args[len(args)-1]
		wdone := make(chan struct{})
		go func() { // one writer per run; opening blocks until the command opens the pipe for reading
			defer close(wdone)
			if f, err := os.OpenFile(fifo, os.O_WRONLY, 0); err == nil {
				f.Write(all)
				f.Close()
			}
		}()
		defer func() { // a command that never opened the pipe leaves the writer blocked: let it go
			select {
			case <-wdone:
			default:
				if fd, err := syscall.Open(fifo, syscall.O_RDONLY|syscall.O_NONBLOCK, 0); err == nil {
					select {
					case <-wdone:
					case <-time.After(2 * time.Second):
					}
					syscall.Close(fd)
				}
			}
		}()
	}
	cmd.Start()
	if feed != nil {
		go feed()
	}
	go func() { done <- cmd.Wait() }()
	select {
	case err := <-done:
		code := 0
		if ee, ok := err.(*exec.ExitError); ok {
			code = ee.ExitCode()
		} else if err != nil {
			return runObs{Code: -1, Note: err.Error()}
		}
		return runObs{Code: code, Stdout: hex.EncodeToString(stdout.Bytes())}
	case <-time.After(60 * time.Second):
		cmd.Process.Kill()
		return runObs{Code: -2, Note: "did not terminate within 60s"}
	}
}

func kindOf(cmd string) int {
	switch cmd {
	case "histo":
		return 0
	case "tabulate", "heatmap", "spark":
		return 1
	case "bargraph":
		return 2
	case "reduce":
		return 4
	}
	return 3
}

func mkCase(in c03In, idx int) Case {
	buildOnce.Do(buildRare)
	work := pipe.Workdir()
	runs := make([]runObs, len(in.Variants))
	for i, v := range in.Variants {
		if buildErr != "" {
			runs[i] = runObs{Code: -3, Note: buildErr}
			continue
		}
		runs[i] = runVariant(in, v, filepath.Join(work, fmt.Sprintf("c03-%d-%d-%d", os.Getpid(), idx, i)))
	}
	// reference input: the files in argument order, decompressed
	p := pipe.PipeIn{Cfg: pipe.Config{Mode: "files", Batch: 1, Workers: 1, Readers: 1, Buffer: 1, Matcher: "re:" + in.Regex}, Extract: in.Extract}
	for _, f := range in.Files {
		p.Sources = append(p.Sources, pipe.Source{Name: f.Name, Stream: f.Content})
	}
	inCoq, total := pipe.InputCoq(p, "/in", nil)
	rs := make([]string, len(runs))
	for i, r := range runs {
		b, _ := hex.DecodeString(r.Stdout)
		if len(b) > 12000 { // legitimate outputs of the generated corpora are far smaller; a longer one is cut (and then fails the comparison)
			b = b[:12000]
		}
		rs[i] = fmt.Sprintf("run %s %s", Z(int64(r.Code)), H(b))
	}
	kind, kn := kindOf(in.Cmd), 0
	for i := 0; i+1 < len(in.Args); i++ {
		if in.Cmd == "spark" && in.Args[i] == "--cols" { // spark trims to the last n columns at every refresh
			fmt.Sscan(in.Args[i+1], &kn)
			kind = 5
		}
	}
	// domain of the recorded finding C03-spark-stale-rows: spark with a column limit and a variant that lets the
	// 100 ms refresh draw between bursts. There the snapshots of the burst variants are compared only in the strict
	// twin (which carries the finding's tag); everything else of the case - exports, exit status, the snapshots of
	// the other variants - is checked as usual
	staleDomain := kind == 5 && hasRefreshVariant(in)
	var snaps []string
	expected := 0
	for vi, r := range runs {
		if staleDomain && !in.Strict && vi < len(in.Variants) && in.Variants[vi].StdinPauseMs > 0 {
			continue
		}
		expected++
		if in.Cmd != "analyze" && r.Code >= 0 {
			b, _ := hex.DecodeString(r.Snap)
			if len(b) > 12000 { // legitimate outputs of the generated corpora are far smaller; a longer one is cut (and then fails the comparison)
				b = b[:12000]
			}
			snaps = append(snaps, "unhex "+H(b))
		}
	}
	if len(snaps) != expected {
		snaps = nil
	}
	if kind == 0 {
		kn = histoNum
	}
	if isSeqReduce(in) {
		kind = 6
	}
	outCoq := fmt.Sprintf("{| k_kind := %d; k_n := %d; k_runs := %s; k_strict := %s; k_snaps := %s |}", kind, kn, CoqList(rs), B(in.Strict), CoqList(snaps))
	tags := []string{"cmd=" + in.Cmd, fmt.Sprintf("files=%d", len(in.Files)), fmt.Sprintf("variants=%d", len(in.Variants))}
	for _, f := range in.Files {
		if f.Gzip {
			tags = append(tags, "gzip")
			break
		}
	}
	for _, v := range in.Variants {
		if v.Stdin {
			tags = append(tags, "stdin")
		}
		if v.StdinPauseMs > 0 {
			tags = append(tags, "stdin-pause(time-flush)")
		}
		if v.ForceZ {
			tags = append(tags, "-z-over-plain-files")
		}
		if v.ShortPieces {
			tags = append(tags, "one-line-file+empty-file")
		}
		if v.StdinBursts > 2 {
			tags = append(tags, "stdin-bursts(mid-stream-refresh)")
		}
		if v.Resplit > 0 {
			tags = append(tags, "resplit")
		}
		if v.Reverse {
			tags = append(tags, "reverse-files")
		}
	}
	if in.Strict && staleDomain {
		tags = append(tags, "kf:"+kfStale, "strict-snapshot-twin")
	} else if in.Strict {
		tags = append(tags, "kf:"+kfPadding, "strict-snapshot-twin")
	}
	kb, _ := json.Marshal(in)
	short := make([]map[string]any, len(runs))
	for i, r := range runs {
		s := r.Stdout
		if len(s) > 400 {
			s = s[:400] + "…"
		}
		sn := r.Snap
		if len(sn) > 1200 {
			sn = sn[:1200] + "…"
		}
		short[i] = map[string]any{"exit": r.Code, "stdout_hex": s, "note": r.Note, "snapshot_hex": sn}
	}
	return Case{Coq: "(" + inCoq + ",\n   " + outCoq + ")", Desc: map[string]any{"input": in, "impl": short}, Key: string(kb),
		Nontrivial: total > 3 && len(in.Variants) >= 4, Tags: pipe.Dedup(tags)}
}

var keyAlpha = []string{"a", "b", "cc", "key,with,commas", "say \"hi\"", " lead", "é", "x-y", "0", "10", "9", "tab\tin",
	"--verbose", "-", "@admin", "=1+1", "+1 (555) 0100", "-5", "'quoted", "\tlead-tab",
	// distinct keys that are the same number (the numeric sorters must still order them deterministically)
	"7", "07", "7.0", "+7", "1e1", "10.0", "00", "-5.0"}

func genIn(r *Rng) c03In {
	cmd := Pick(r, []string{"histo", "histo", "tabulate", "heatmap", "spark", "bargraph", "analyze", "reduce"})
	in := c03In{Cmd: cmd}
	// line format:  key|sub|inc   (fields may contain spaces, commas, quotes; '|' separates)
	in.Regex = `^([^|]*)\|([^|]*)\|([^|]*)$`
	switch cmd {
	case "histo":
		in.Args = []string{"-n", fmt.Sprint(histoNum)}
		switch r.Intn(5) {
		case 0, 1:
			in.Extract = []pipe.KPiece{{Kind: "group", Idx: 1}}
		case 2, 3:
			in.Extract = []pipe.KPiece{{Kind: "group", Idx: 1}, {Kind: "lit", Text: "\x00"}, {Kind: "group", Idx: 3}}
		default: // more array elements than the counter consumes: the rest is ignored
			in.Extract = []pipe.KPiece{{Kind: "group", Idx: 1}, {Kind: "lit", Text: "\x00"}, {Kind: "group", Idx: 3}, {Kind: "lit", Text: "\x00"}, {Kind: "group", Idx: 2}}
		}
	case "tabulate", "heatmap", "spark", "bargraph":
		switch r.Intn(5) {
		case 0, 1:
			in.Extract = []pipe.KPiece{{Kind: "group", Idx: 1}, {Kind: "lit", Text: "\x00"}, {Kind: "group", Idx: 2}}
		case 2, 3:
			in.Extract = []pipe.KPiece{{Kind: "group", Idx: 1}, {Kind: "lit", Text: "\x00"}, {Kind: "group", Idx: 2}, {Kind: "lit", Text: "\x00"}, {Kind: "group", Idx: 3}}
		default: // a fourth element after the increment: ignored
			in.Extract = []pipe.KPiece{{Kind: "group", Idx: 1}, {Kind: "lit", Text: "\x00"}, {Kind: "group", Idx: 2}, {Kind: "lit", Text: "\x00"}, {Kind: "group", Idx: 3}, {Kind: "lit", Text: "\x00"}, {Kind: "group", Idx: 1}}
		}
	}
	if cmd == "spark" && r.Bool() {
		in.Args = []string{"--cols", fmt.Sprint(1 + r.Intn(4))} // fewer than the 12 generated column keys: every refresh trims
	}
	switch cmd {
	case "analyze":
		in.Extract = []pipe.KPiece{{Kind: "group", Idx: 3}}
		in.Args = Pick(r, [][]string{nil, {"-x"}, {"-x", "--reverse"}, {"--reverse"}, {"-x", "--reverse", "-q", "25", "-q", "99.5"}})
	case "reduce":
		// the key handed to the accumulator is the NUL-joined triple, so {1} {2} {3} in the group and
		// accumulator expressions are the three fields; two group expressions (the first may be empty)
		in.Extract = []pipe.KPiece{{Kind: "group", Idx: 1}, {Kind: "lit", Text: "\x00"}, {Kind: "group", Idx: 2}, {Kind: "lit", Text: "\x00"}, {Kind: "group", Idx: 3}}
		in.Args = []string{"-g", "{1}", "-g", "{2}", "-a", "total={sumi {.} {3}}", "-a", "n={sumi {.} 1}"}
		if r.Chance(1, 3) {
			// an order-sensitive accumulator: the increments of a group in arrival order; only with one reader at a
			// time and one worker (every variant), several files in argument order
			in.Args = []string{"-g", "{1}", "-a", "seq={.}{3};"}
		}
	}
	nf := 1 + r.Intn(4)
	if (cmd == "analyze" || cmd == "reduce" || cmd == "spark") && r.Bool() {
		nf = 1
	}
	incs := []string{"1", "2", "-3", "0", "7", "x", "+5", "40", "1", "2", "5",
		"9223372036854775807", "9223372036854775808", "-9223372036854775808", "-9223372036854775809", "9999999999999999999", "1234567890123456789"}
	// staged corpora: the first part uses a few early-sorting sub-keys and one set of keys, the second part
	// introduces later-sorting sub-keys through other keys only (rows that are never touched again while
	// the column set grows)
	staged := r.Bool()
	subs := []string{" lead", "a", "b", "cc", "key,with,commas", "say \"hi\"", "zz", "zzz"}
	for i := 0; i < nf; i++ {
		var b []byte
		nl := r.Intn(40)
		if r.Chance(1, 8) {
			nl = 300 + r.Intn(1500)
		}
		for l := 0; l < nl; l++ {
			line := Pick(r, keyAlpha) + "|" + Pick(r, keyAlpha[:6]) + "|" + Pick(r, incs)
			if cmd == "reduce" {
				// empty first / second group values now and then; increments a signed decimal or not a number
				line = Pick(r, []string{"", "", "a", "b", "key,with,commas", "say \"hi\"", "é"}) + "|" + Pick(r, []string{"", "x", "y", " lead", "10"}) + "|" + Pick(r, incs[:11])
			}
			if staged && cmd != "reduce" {
				if i == 0 && l < nl/2 {
					line = Pick(r, keyAlpha[:6]) + "|" + Pick(r, subs[:3]) + "|" + Pick(r, incs[:11])
				} else {
					line = Pick(r, keyAlpha[6:]) + "|" + Pick(r, subs) + "|" + Pick(r, incs[:11])
				}
			}
			if r.Chance(1, 15) {
				line = "no separators here"
			}
			b = append(b, line...)
			if l < nl-1 || r.Chance(4, 5) {
				b = append(b, '\n')
			}
		}
		in.Files = append(in.Files, c03File{Name: fmt.Sprintf("log%d.txt", i), Content: hex.EncodeToString(b), Gzip: r.Chance(1, 5) && !(nf == 1 && (cmd == "analyze" || cmd == "reduce" || cmd == "spark"))})
	}
	// make sure every file but the last ends with a newline so that re-splitting preserves the lines
	for i := range in.Files {
		b, _ := hex.DecodeString(in.Files[i].Content)
		if len(b) > 0 && b[len(b)-1] != '\n' {
			b = append(b, '\n')
			in.Files[i].Content = hex.EncodeToString(b)
		}
	}
	in.Variants = []variant{{Workers: 1, Batch: 1000, Buffer: 1, Readers: 1, Gomaxprocs: 1}}
	for k := 0; k < 5; k++ {
		v := variant{Workers: Pick(r, []int{1, 2, 8}), Batch: Pick(r, []int{1, 3, 1000}), Buffer: Pick(r, []int{1, 4}),
			Readers: Pick(r, []int{1, 3}), Gomaxprocs: Pick(r, []int{1, 4, 16})}
		// order-insensitive accumulators: the count-style aggregators and reduce with sum / count
		// accumulators (C03_reduce_schedule_independent); analyze --extra keeps its values in arrival order
		orderFree := cmd != "analyze" && !isSeqReduce(in)
		if !orderFree {
			v.Workers, v.Readers = 1, 1
		}
		switch k {
		case 2:
			v.Reverse = orderFree
		case 3:
			if orderFree {
				v.Resplit = 1 + r.Intn(4)
				v.ShortPieces = r.Chance(1, 3)
				v.ForceZ = r.Chance(1, 2) // -z over plain pieces, some shorter than a gzip header or empty
			}
		case 4:
			if len(in.Files) == 1 && !in.Files[0].Gzip {
				if r.Bool() {
					v.Stdin = true
				} else {
					v.Fifo = true // rare histo <(cmd): the same bytes through a named pipe
				}
			}
		case 1:
			// order-sensitive commands: the same bytes on standard input in bursts, so that the 100 ms
			// refresh computes intermediate results between batches (the final result must not depend on it)
			if (cmd == "analyze" || cmd == "reduce" || cmd == "spark") && len(in.Files) == 1 && !in.Files[0].Gzip && r.Chance(1, 2) {
				v.Stdin, v.StdinPauseMs, v.StdinBursts = true, 160, 3
			}
		}
		v.CsvFile = cmd != "analyze" && r.Chance(1, 4)
		in.Variants = append(in.Variants, v)
	}
	return in
}

// a file whose 1024th line ends exactly on the last byte of the 128 KiB read buffer, more lines after it
func alignedIn() c03In {
	var b []byte
	for i := 0; i < 1024; i++ {
		b = append(b, append(bytes.Repeat([]byte("a"), 123), []byte("|b|1\n")...)...)
	}
	for i := 0; i < 500; i++ {
		b = append(b, append(bytes.Repeat([]byte("c"), 123), []byte("|d|2\n")...)...)
	}
	in := c03In{Cmd: "histo", Args: []string{"-n", fmt.Sprint(histoNum)}, Regex: `^([^|]*)\|([^|]*)\|([^|]*)$`, Extract: []pipe.KPiece{{Kind: "group", Idx: 1}},
		Files: []c03File{{Name: "aligned.txt", Content: hex.EncodeToString(b)}}}
	in.Variants = []variant{{Workers: 1, Batch: 1000, Buffer: 1, Readers: 1, Gomaxprocs: 1}, {Workers: 2, Batch: 1000, Buffer: 4, Readers: 1, Gomaxprocs: 4},
		{Workers: 8, Batch: 3, Buffer: 1, Readers: 1, Gomaxprocs: 16}, {Workers: 2, Batch: 1000, Buffer: 1, Readers: 3, Gomaxprocs: 4, Resplit: 2}}
	return in
}

// standard input with a pause longer than the 250 ms auto-flush, keys and increments that use {line}
func timedIn() c03In {
	in := c03In{Cmd: "histo", Args: []string{"-n", fmt.Sprint(histoNum)}, Regex: `^([^|]*)\|([^|]*)\|([^|]*)$`,
		Extract: []pipe.KPiece{{Kind: "group", Idx: 1}, {Kind: "lit", Text: "\x00"}, {Kind: "line"}},
		Files:   []c03File{{Name: "in.txt", Content: hex.EncodeToString([]byte("a|x|1\nb|x|1\na|y|1\nc|x|1\nb|y|1\na|z|1\n"))}}}
	in.Variants = []variant{{Workers: 1, Batch: 1000, Buffer: 1, Readers: 1, Gomaxprocs: 1},
		{Workers: 1, Batch: 1000, Buffer: 1, Readers: 1, Gomaxprocs: 4, Stdin: true},
		{Workers: 2, Batch: 1000, Buffer: 1, Readers: 1, Gomaxprocs: 4, Stdin: true, StdinPauseMs: 400},
		{Workers: 1, Batch: 2, Buffer: 1, Readers: 1, Gomaxprocs: 1, Stdin: true, StdinPauseMs: 300}}
	return in
}

// order-sensitive commands with intermediate refreshes: the same bytes from a file and on standard input in
// three and in five bursts (every pause lets the 100 ms refresh compute an intermediate result); the final
// result must be the same
func burstIn(cmd string, r *Rng) c03In {
	var b []byte
	vals := []int{5, 1, 9, 3, 7, 2, 8, 4, 6, 10, 1, 9, 5, 5, 3}
	for i := 0; i < 30; i++ {
		b = append(b, []byte(fmt.Sprintf("%s|%s|%d\n", Pick(r, []string{"", "a", "b"}), Pick(r, []string{"x", "y"}), vals[i%len(vals)]+r.Intn(3)))...)
	}
	in := c03In{Cmd: cmd, Regex: `^([^|]*)\|([^|]*)\|([^|]*)$`, Files: []c03File{{Name: "in.txt", Content: hex.EncodeToString(b)}}}
	if cmd == "spark" {
		// columns t1..t6 appear over time, rows rA..rC; --cols 2 keeps the last two columns: every refresh between
		// bursts trims cells (and rows left empty), later bursts sample the same rows and trimmed columns again
		// (all lines have 8 bytes, 12 lines per burst, so the bursts are cut exactly here). The last line of a
		// burst creates a row whose only cell is in an early-sorting column - the refresh trims the cell and
		// deletes the row - and the first line of the next burst samples that same row again.
		b = b[:0]
		for burst := 0; burst < 3; burst++ {
			for i := 0; i < 12; i++ {
				line := fmt.Sprintf("t%d|r%c|%d\n", 5+burst+r.Intn(3), 'A'+byte(r.Intn(3)), 1+r.Intn(4))
				if i == 11 && burst < 2 {
					line = fmt.Sprintf("t%d|r%c|%d\n", 1+burst, 'Y'+byte(burst), 3+burst)
				}
				if i == 0 && burst > 0 {
					line = fmt.Sprintf("t9|r%c|%d\n", 'Y'+byte(burst-1), 5-burst)
				}
				b = append(b, line...)
			}
		}
		in.Files[0].Content = hex.EncodeToString(b)
		in.Extract = []pipe.KPiece{{Kind: "group", Idx: 1}, {Kind: "lit", Text: "\x00"}, {Kind: "group", Idx: 2}, {Kind: "lit", Text: "\x00"}, {Kind: "group", Idx: 3}}
		in.Args = []string{"--cols", "2"}
	} else if cmd == "analyze" {
		in.Extract = []pipe.KPiece{{Kind: "group", Idx: 3}}
		in.Args = []string{"-x", "--reverse", "-q", "10", "-q", "50", "-q", "90"}
	} else {
		in.Extract = []pipe.KPiece{{Kind: "group", Idx: 1}, {Kind: "lit", Text: "\x00"}, {Kind: "group", Idx: 2}, {Kind: "lit", Text: "\x00"}, {Kind: "group", Idx: 3}}
		in.Args = []string{"-g", "{1}", "-g", "{2}", "-a", "total={sumi {.} {3}}", "-a", "n={sumi {.} 1}"}
	}
	in.Variants = []variant{{Workers: 1, Batch: 1000, Buffer: 1, Readers: 1, Gomaxprocs: 1},
		{Workers: 1, Batch: 1000, Buffer: 1, Readers: 1, Gomaxprocs: 4, Stdin: true, StdinPauseMs: 160, StdinBursts: 3},
		{Workers: 1, Batch: 2, Buffer: 1, Readers: 1, Gomaxprocs: 2, Stdin: true, StdinPauseMs: 130, StdinBursts: 5},
		{Workers: 1, Batch: 1, Buffer: 4, Readers: 1, Gomaxprocs: 16}}
	if cmd == "spark" {
		// batches must end where the bursts end (a partly filled batch waits for the 250 ms flush): one line per
		// batch, and twelve lines per batch
		in.Variants = []variant{{Workers: 1, Batch: 1000, Buffer: 1, Readers: 1, Gomaxprocs: 1},
			{Workers: 1, Batch: 1, Buffer: 1, Readers: 1, Gomaxprocs: 4, Stdin: true, StdinPauseMs: 220, StdinBursts: 3},
			{Workers: 1, Batch: 12, Buffer: 1, Readers: 1, Gomaxprocs: 2, Stdin: true, StdinPauseMs: 160, StdinBursts: 3},
			{Workers: 2, Batch: 1, Buffer: 4, Readers: 1, Gomaxprocs: 16}}
	}
	return in
}

// analyze where the FIRST sample is the strict maximum (and, mirrored, the strict minimum), and a single sample
func extremeFirstIn(vals []int, single bool) c03In {
	var b []byte
	for i, v := range vals {
		b = append(b, []byte(fmt.Sprintf("k%d|x|%d\n", i, v))...)
	}
	if !single {
		b = append(b, []byte("z|x|-4000\n")...) // the last sample is the strict minimum
	}
	in := c03In{Cmd: "analyze", Regex: `^([^|]*)\|([^|]*)\|([^|]*)$`, Extract: []pipe.KPiece{{Kind: "group", Idx: 3}},
		Args: []string{"-x"}, Files: []c03File{{Name: "in.txt", Content: hex.EncodeToString(b)}}}
	in.Variants = []variant{{Workers: 1, Batch: 1000, Buffer: 1, Readers: 1, Gomaxprocs: 1}, {Workers: 1, Batch: 1, Buffer: 4, Readers: 1, Gomaxprocs: 4},
		{Workers: 1, Batch: 2, Buffer: 1, Readers: 1, Gomaxprocs: 2, Stdin: true}, {Workers: 1, Batch: 1000, Buffer: 1, Readers: 1, Gomaxprocs: 16}}
	return in
}

// analyze over samples that are large compared with their spread (epoch milliseconds): the mean and the
// sample standard deviation are checked against exact integer arithmetic in Coq
func largeOffsetIn(r *Rng) c03In {
	in := c03In{Cmd: "analyze", Regex: `^([^|]*)\|([^|]*)\|([^|]*)$`, Extract: []pipe.KPiece{{Kind: "group", Idx: 3}}}
	base := Pick(r, []int64{1700000000000, 1700000000000, 4102444800000, -62135596800000})
	for f := 0; f < 3; f++ {
		var b []byte
		for i, n := 0, 100+r.Intn(200); i < n; i++ {
			b = append(b, []byte(fmt.Sprintf("k%d|x|%d\n", i, base+int64(r.Intn(1000))))...)
		}
		in.Files = append(in.Files, c03File{Name: fmt.Sprintf("ms%d.log", f), Content: hex.EncodeToString(b)})
	}
	in.Variants = []variant{{Workers: 1, Batch: 1000, Buffer: 1, Readers: 1, Gomaxprocs: 1}, {Workers: 1, Batch: 1, Buffer: 4, Readers: 1, Gomaxprocs: 4},
		{Workers: 1, Batch: 7, Buffer: 1, Readers: 1, Gomaxprocs: 16}, {Workers: 1, Batch: 1000, Buffer: 4, Readers: 1, Gomaxprocs: 2}}
	return in
}

func main() {
	Main(&Prop{
		Name:   "C03",
		Header: pipe.Header + "From RareV Require Import Corr.C03Case.\nDefinition mm := C03Case.mm.\n",
		Rule: "the `rare` binary built from the working tree: histo, tabulate, heatmap, spark, bargraph (CSV read back by the strict RFC 4180 reader in Coq and compared with the C07 models over the sequential reference keys; exit status against exit_code) reduce (two group expressions, the first sometimes empty, sum and count accumulators: CSV rows compared as a set with the C07 AccumulatingGroup model) and analyze (plain, -x, --reverse, extra quantiles: the snapshot text without its timing-dependent status line must be the same under every variant and start with the sample count; exit status) on generated corpora of 1-4 files (plain/gzip, 0-1800 lines, keys with commas, quotes, leading space, tab, non-ASCII; increments incl. negative, zero, non-numeric) under 6 tuning variants each: workers 1/2/8, batch 1/3/1000, batch-buffer 1/4, readers 1/3, GOMAXPROCS 1/4/16, file order reversed, the same lines re-divided among 1-4 files, standard input, and for the order-sensitive commands and spark standard input in 3-5 bursts so that the 100 ms refresh computes intermediate results. Every variant is run twice: with --csv - (the export) and without (the snapshot the command prints when piped, minus its last line, the timing-dependent reader status); the snapshot texts must agree across variants with runs of spaces read as one (strict byte equality is the recorded finding C03-snapshot-padding-history, exercised by twin cases of the burst variants), and for histo every displayed row must carry the aggregated count of its key. spark --cols n: final-table check. " +
			"distinct = distinct (command, corpus, variants); non-trivial = more than 3 lines and at least 4 variants.",
		Gen: func(r *Rng, n int, tier string) []Case {
			ins := make([]c03In, n)
			for i := range ins {
				ins[i] = genIn(r)
			}
			if n > 2 {
				ins[0], ins[1] = alignedIn(), timedIn()
			}
			if n > 4 {
				ins[2], ins[3] = burstIn("analyze", r), burstIn("reduce", r)
			}
			if n > 5 {
				ins[4] = burstIn("spark", r)
			}
			if n > 7 {
				ins[5], ins[6] = extremeFirstIn([]int{900, 30, 20, 30, 5}, false), extremeFirstIn([]int{7}, true)
			}
			if n > 8 {
				ins[7] = largeOffsetIn(r)
			}
			// strict twins: the same input, only the byte-for-byte comparison of the snapshot texts (known finding)
			for i := 0; i < n && len(ins) < n+n/6+2; i++ {
				if hasRefreshVariant(ins[i]) {
					tw := ins[i]
					tw.Strict = true
					ins = append(ins, tw)
				}
			}
			n = len(ins)
			out := make([]Case, n)
			var wg sync.WaitGroup
			sem := make(chan struct{}, 6)
			for i := range ins {
				wg.Add(1)
				sem <- struct{}{}
				go func(i int) {
					defer wg.Done()
					defer func() { <-sem }()
					out[i] = mkCase(ins[i], i)
				}(i)
			}
			wg.Wait()
			os.Remove(rareBin)
			return out
		},
		Replay: func(d json.RawMessage) (Case, error) {
			var doc struct {
				Input c03In `json:"input"`
			}
			if err := json.Unmarshal(d, &doc); err != nil {
				return Case{}, err
			}
			c := mkCase(doc.Input, 0)
			os.Remove(rareBin)
			return c, nil
		},
		Shard: 6,
	})
}
