package main

// Race-detector stress of the real pipeline + aggregation loop (built with -race by the driver).
// usage: C05race <seed> <configs>.  Race reports go where GORACE=log_path points.

import (
	"encoding/hex"
	"fmt"
	"os"
	"path/filepath"
	"strconv"
	"sync"

	"rare/cmd/helpers"
	"rare/pkg/aggregation"
	"rare/pkg/expressions/stdlib"
	"rare/pkg/extractor"
	"rare/pkg/extractor/batchers"
	"rare/pkg/matchers"
	"rare/pkg/matchers/dissect"
	"rare/pkg/matchers/fastregex"

	. "verifh/lib"
)

// composite key expressions over the groups {1}=key {2}=small integer {3}=RFC3339 timestamp {4}=float
var libraryExprs = []string{
	// numbers and logic
	`{coalesce {9} {1}}|{bucket {2} 10}|{bucketrange {2} 10}|{clamp {2} 10 50}|{expbucket {2}}|{isint {2}}|{isnum {4}}|{sumi {2} 1}|{subi {2} 1}|{multi {2} 3}|{divi {2} 3}|{modi {2} 7}|{maxi {2} 50}|{mini {2} 50}|{sumf {4} 1.5}|{subf {4} 1}|{multf {4} 2}|{divf {4} 3}|{ceil {4}}|{floor {4}}|{log10 {2}}|{log2 {2}}|{ln {2}}|{pow {2} 2}|{sqrt {2}}|{round {4} 1}|{! "[2] * 2 + 1"}|{if {2} a b}|{switch {eq {1} k1} one {eq {1} k2} two other}|{unless {2} x}|{eq {1} k1}|{neq {1} k1}|{not {2}}|{lt {2} 50}|{gt {2} 50}|{lte {2} 50}|{gte {2} 50}|{and {1} {2}}|{or {9} {2}}`,
	// strings, formats, humanize, json, csv, paths, drawing
	`{len {0}}|{like {1} k}|{prefix {1} k}|{suffix {1} 1}|{format "%s-%5s" {1} {2}}|{substr {0} 1 5}|{select {0} 1}|{upper {1}}|{lower {1}}|{tab {1} {2}}|{basename /a/{1}.log}|{dirname /a/{1}/b}|{extname {1}.txt}|{hi {2}{2}{2}}|{hf {4}}|{bytesize {2}{2}{2}}|{bytesizesi {2}{2}{2}}|{downscale {2}{2}{2}}|{percent {4} 2 0 5000}|{json {1}}|{csv {1} {2} "a,b"}|{color red {1}}|{repeat ab 3}{repeat x {2}}|{$ {1} {2}}|{.}|{#}|{.#}|{src}|{line}`,
	// arrays
	`{@len {@split {0} " "}}|{@map {@split {0} " "} "{0}x"}|{@select {@split {0} " "} 1}|{@join {@split {0} " "} -}|{@reduce {@split {0} " "} {len {0}{1}} 0}|{@filter {@split {0} " "} {isnum {0}}}|{@slice {@split {0} " "} 1 2}|{@in {2} {@ 1 2 3 5 8 13 21 34 55 89}}|{@join {@range 0 {2} 7} ,}|{@for 0 {lt {0} {2}} {sumi {0} 13}}|{@ {1} {2} {4}}|{@map {@map {@split {0} " "} {upper {0}}} {len {0}}}`,
	// a runaway {@for} (value 0 doubles to 0 for ever and ends in the <INF> branch after 1,000,000 rounds) on the
	// first line only, then pooled sub-contexts used by all workers at once
	`{@for {2} {lt {0} 100} {multi {0} 2}}|{@map {@split {0} " "} "{0}x"}|{@filter {@split {0} " "} {isnum {0}}}`,
	// time
	`{time {3}}|{time {3} RFC3339}|{time {3} RFC3339 utc}|{timeformat {time {3}} RFC1123Z}|{timeformat {time {3}} RFC3339 America/New_York}|{timeattr {time {3}} weekday}|{timeattr {time {3}} yearweek}|{buckettime {3} day}|{buckettime {3} hour RFC3339}|{duration {2}m{2}s}|{durationformat {2}{2}}|{time {timeformat {time {3}} NGINX} NGINX}`,
}

func main() {
	seed, _ := strconv.ParseUint(os.Args[1], 10, 64)
	n, _ := strconv.Atoi(os.Args[2])
	r := NewRng(seed)
	work := os.Getenv("VERIF_WORK")
	if work == "" {
		work = os.TempDir()
	}
	for c := 0; c < n; c++ {
		dir, err := os.MkdirTemp(work, "race")
		if err != nil {
			fmt.Println(err)
			os.Exit(1)
		}
		nfiles := 1 + r.Intn(8)
		names := make(chan string, nfiles)
		for i := 0; i < nfiles; i++ {
			p := filepath.Join(dir, fmt.Sprintf("f%d", i))
			var b []byte
			nl := r.Intn(400)
			if c%4 == 0 {
				nl = 20000 + r.Intn(20000) // long enough for the 100 ms ticker to render while matches are sampled
			} else if c%4 == 2 {
				nl = 4000 + r.Intn(4000) // enough batches for several workers to be inside the dissect matcher at once
			} else if c%2 == 1 {
				nl = 1500 + r.Intn(1500) // enough batches for the workers to overlap inside the helper library
			}
			for l := 0; l < nl; l++ {
				if c%2 == 1 { // four fields for the helper-library expressions: key, small integer, timestamp, float
					small := 1 + r.Intn(99)
					if i == 0 && l == 0 {
						small = 0
					}
					b = append(b, []byte(fmt.Sprintf("k%d %d 20%02d-%02d-%02dT%02d:%02d:%02dZ %d.%d\n", r.Intn(6), small,
						r.Intn(40), 1+r.Intn(12), 1+r.Intn(28), r.Intn(24), r.Intn(60), r.Intn(60), r.Intn(5000), r.Intn(100)))...)
				} else if c%4 == 0 && i == 0 {
					// 16-byte lines: line 8192 ends exactly on the last byte of the 128 KiB read buffer and more
					// input follows, so the scanner refills a buffer that is full and fully consumed while
					// the lines it handed out are still with the workers
					b = append(b, []byte(fmt.Sprintf("k%d v%02d %08d\n", r.Intn(6), r.Intn(100), l))...)
				} else {
					b = append(b, []byte(fmt.Sprintf("k%d v%d\n", r.Intn(6), r.Intn(100)))...)
				}
			}
			os.WriteFile(p, b, 0o644)
			names <- p
		}
		close(names)
		batcher := batchers.OpenFilesToChan(names, false, 1+r.Intn(4), Pick(r, []int{1, 2, 7, 1000}), 1+r.Intn(4))
		// expressions that use the pooled sub-contexts and buffers concurrently from several workers
		extract := Pick(r, []string{"{0}", "{@map {@split {0} \" \"} \"{0}x\"}", "{sumi {1} 1}", "{@join {@split {0} \" \"} -}", "{bucket {1} 10}"})
		var matcher matchers.Factory = &matchers.AlwaysMatch{}
		workers := 1 + r.Intn(8)
		if c%2 == 1 {
			// the helper library evaluated by several workers at once on ONE compiled expression: every
			// registered helper (except the file readers load/lookup/haskey) appears in one of these
			// composite keys, so state shared between evaluations of a compiled stage (a scratch buffer,
			// a memo, a reused sub-context) is written by two goroutines and the race detector sees it
			extract = libraryExprs[(c/2)%len(libraryExprs)]
			fr, ferr := fastregex.Compile(`^(\S+) (\S+) (\S+) (\S+)$`)
			if ferr != nil {
				fmt.Println("matcher:", ferr)
				os.Exit(1)
			}
			matcher = matchers.ToFactory(fr)
			workers = 2 + r.Intn(7)
		}
		if c%4 == 2 {
			// a dissect matcher: its instances own a pool of index slices and must be per worker; the
			// lines' field offsets vary, so offsets taken from another worker's line do not fit
			dm, derr := dissect.Compile("k%{k} v%{v}")
			if derr != nil {
				fmt.Println("matcher:", derr)
				os.Exit(1)
			}
			matcher = matchers.ToFactory(dm)
			extract = Pick(r, []string{"{k}:{v}", "{2}-{1}", "{0}"})
			workers = 2 + r.Intn(7)
		}
		ex, err := extractor.New(batcher.BatchChan(), &extractor.Config{
			Matcher: matcher, Extract: extract, Workers: workers,
		})
		if err != nil {
			fmt.Println("extractor:", err)
			os.Exit(1)
		}
		counter := aggregation.NewCounter()
		var wg sync.WaitGroup
		stop := make(chan bool)
		wg.Add(1)
		go func() { // someone else polling the status line and counters, as the render does
			defer wg.Done()
			for {
				select {
				case <-stop:
					return
				default:
					_ = batcher.StatusString()
					_ = ex.MatchedLines() + ex.ReadLines() + ex.IgnoredLines()
					_ = batcher.ReadErrors() + batcher.ActiveFileCount()
				}
			}
		}()
		helpers.RunAggregationLoop(ex, counter, func() {
			_ = counter.Items()
			_ = helpers.FWriteExtractorSummary(ex, counter.ParseErrors())
			_ = batcher.StatusString()
		})
		close(stop)
		wg.Wait()
		os.RemoveAll(dir)
	}
	_ = hex.EncodeToString
	_ = stdlib.ErrorArgName
	fmt.Println("stress done", n)
}
