package main

// Race-detector stress of the real pipeline + aggregation loop (built with -race by the driver).
// usage: C05race <seed> <configs>.  Race reports go where GORACE=log_path points.

import (
	"encoding/hex"
	"fmt"
	"os"
	"path/filepath"
	"strconv"
	"sync"

	"rare/cmd/helpers"
	"rare/pkg/aggregation"
	"rare/pkg/expressions/stdlib"
	"rare/pkg/extractor"
	"rare/pkg/extractor/batchers"
	"rare/pkg/matchers"

	. "verifh/lib"
)

func main() {
	seed, _ := strconv.ParseUint(os.Args[1], 10, 64)
	n, _ := strconv.Atoi(os.Args[2])
	r := NewRng(seed)
	work := os.Getenv("VERIF_WORK")
	if work == "" {
		work = os.TempDir()
	}
	for c := 0; c < n; c++ {
		dir, err := os.MkdirTemp(work, "race")
		if err != nil {
			fmt.Println(err)
			os.Exit(1)
		}
		nfiles := 1 + r.Intn(8)
		names := make(chan string, nfiles)
		for i := 0; i < nfiles; i++ {
			p := filepath.Join(dir, fmt.Sprintf("f%d", i))
			var b []byte
			nl := r.Intn(400)
			if c%4 == 0 {
				nl = 20000 + r.Intn(20000) // long enough for the 100 ms ticker to render while matches are sampled
			}
			for l := 0; l < nl; l++ {
				b = append(b, []byte(fmt.Sprintf("k%d v%d\n", r.Intn(6), r.Intn(100)))...)
			}
			os.WriteFile(p, b, 0o644)
			names <- p
		}
		close(names)
		batcher := batchers.OpenFilesToChan(names, false, 1+r.Intn(4), Pick(r, []int{1, 2, 7, 1000}), 1+r.Intn(4))
		// expressions that use the pooled sub-contexts and buffers concurrently from several workers
		extract := Pick(r, []string{"{0}", "{@map {@split {0} \" \"} \"{0}x\"}", "{sumi {1} 1}", "{@join {@split {0} \" \"} -}", "{bucket {1} 10}"})
		ex, err := extractor.New(batcher.BatchChan(), &extractor.Config{
			Matcher: &matchers.AlwaysMatch{}, Extract: extract, Workers: 1 + r.Intn(8),
		})
		if err != nil {
			fmt.Println("extractor:", err)
			os.Exit(1)
		}
		counter := aggregation.NewCounter()
		var wg sync.WaitGroup
		stop := make(chan bool)
		wg.Add(1)
		go func() { // someone else polling the status line and counters, as the render does
			defer wg.Done()
			for {
				select {
				case <-stop:
					return
				default:
					_ = batcher.StatusString()
					_ = ex.MatchedLines() + ex.ReadLines() + ex.IgnoredLines()
					_ = batcher.ReadErrors() + batcher.ActiveFileCount()
				}
			}
		}()
		helpers.RunAggregationLoop(ex, counter, func() {
			_ = counter.Items()
			_ = helpers.FWriteExtractorSummary(ex, counter.ParseErrors())
			_ = batcher.StatusString()
		})
		close(stop)
		wg.Wait()
		os.RemoveAll(dir)
	}
	_ = hex.EncodeToString
	_ = stdlib.ErrorArgName
	fmt.Println("stress done", n)
}
